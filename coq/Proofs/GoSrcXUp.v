(* Refinement: EXECUTING the term [src_Problem_unsat] of Gen/GoSrcX.v (the syntactic image of the method
   (pb *Problem).unsat() of /repo/explain/problem.go:51-112, the unit propagation of the certificate checker) under
   the semantics of Model/GoIR2.v computes what the hand-written model of Model/Rup.v section 2 computes
   ([scan_clause], [pass], [up_loop], [up_unsat]), for every input, and always terminates.

   Plan, bottom-up over the three nested loops:
     inner_body_exec   one turn of the loop over the literals of a clause     (loop-free, by computation)
     inner_loop        the inner range loop is [scan_clause u c acc]           (ends by break for SMany / SSat)
     after_scan_*      what follows the inner loop, one lemma per [scan_res]   (SFalse RETURNS from two loops)
     mid_turn          one turn of the loop over the clauses is one step of [pass]   ([turn])
     mid_loop          the middle range loop is [pass]
     outer_turn/loop   the body of [for modified] is a sweep; the loop is [up_loop], fuel [S (length F)]
     Problem_unsat_refines   the theorem.

   The loop bodies contain no [for] and no call, so they are run by the fuel-free evaluator [exec0] of
   Proofs/GoIR2u.v; only the outer [for] uses the big-step rules of Proofs/GoIR2.v.  The frame of locals is only known
   through the names that matter ([lookup] facts), [keeps] says which names a piece of code may have changed.

   The heap is described by [HI]: one more array than at the start (the [done] marks), the arrays of units and tagged
   changed inside the windows of their headers only, every other array as at the start.

   [up_loop_full] is [up_loop] of Model/Rup.v with the final bindings as a third component
   ([up_loop_full_fst]: it agrees with [up_loop] on the two components [up_loop] returns). *)
From Coq Require Import List ZArith Bool String Lia Arith ZifyBool ZifyNat.
From GS Require Import Spec.Base Model.Rup Proofs.Rup Model.GoIR2 Proofs.GoIR2 Proofs.GoIR2u Gen.GoSrcX.
Import ListNotations.
Open Scope string_scope.
Open Scope list_scope.
Notation length := List.length (only parsing).
Open Scope Z_scope.

Definition inner_body : stmt :=
      (SSeq (SSet "v" (EVar "lit"))
      (SSeq (SIf (EBin Lt (EVar "v") (EInt 0))
      (SSet "v" (ENeg (EVar "v")))
      SSkip)
      (SSeq (SSet "binding" (EIdx (EFld (EVar "pb") 3) (EBin Sub (EVar "v") (EInt 1))))
      (SIf (EBin Eq (EVar "binding") (EInt 0))
      (SSeq (SIf (EBin And (EBin Eq (EVar "unbound") (EInt 1)) (EBin Eq (EVar "lit") (EVar "unit")))
      SContinue
      SSkip)
      (SSeq (SSet "unbound" (EBin Add (EVar "unbound") (EInt 1)))
      (SIf (EBin Eq (EVar "unbound") (EInt 1))
      (SSet "unit" (EVar "lit"))
      SBreak)))
      (SIf (EBin Eq (EBin Mul (EVar "binding") (EVar "lit")) (EVar "v"))
      (SSeq (SSet "sat" (EBool true))
      SBreak)
      SSkip))))).

Definition after_scan : stmt :=
      (SSeq (SIf (EVar "sat")
      (SSeq (SSetIdx (EVar "done") (EVar "i") (EBool true))
      SContinue)
      SSkip)
      (SSeq (SIf (EBin Eq (EVar "unbound") (EInt 0))
      (SSeq (SIf (EBin Lt (EVar "i") (EIdx (EFld (EVar "pb") 2) (EInt 0)))
      (SSetIdx (EFld (EVar "pb") 5) (EVar "i") (EBool true))
      SSkip)
      (SReturn (EBool true)))
      SSkip)
      (SIf (EBin Eq (EVar "unbound") (EInt 1))
      (SSeq (SIf (EBin Lt (EVar "unit") (EInt 0))
      (SSetIdx (EFld (EVar "pb") 3) (EBin Sub (ENeg (EVar "unit")) (EInt 1)) (EInt (-1)))
      (SSetIdx (EFld (EVar "pb") 3) (EBin Sub (EVar "unit") (EInt 1)) (EInt 1)))
      (SSeq (SSetIdx (EVar "done") (EVar "i") (EBool true))
      (SSeq (SIf (EBin Lt (EVar "i") (EIdx (EFld (EVar "pb") 2) (EInt 0)))
      (SSetIdx (EFld (EVar "pb") 5) (EVar "i") (EBool true))
      SSkip)
      (SSet "modified" (EBool true)))))
      SSkip))).

Definition mid_body : stmt :=
      (SSeq (SIf (EIdxB (EVar "done") (EVar "i"))
      SContinue
      SSkip)
      (SSeq (SSet "unbound" (EInt 0))
      (SSeq (SSet "unit" (EInt 0))
      (SSeq (SSet "sat" (EBool false))
      (SSeq (SRange "_" "lit" (EVar "clause") inner_body)
      after_scan))))).

Definition outer_body : stmt :=
      (SSeq (SSet "modified" (EBool false))
      (SRange "i" "clause" (EFld (EVar "pb") 0) mid_body)).

Lemma src_shape : src_Problem_unsat =
  FDef ["pb"]
    (SSeq (SMake "done" (ELen (EFld (EVar "pb") 0)))
      (SSeq (SSet "modified" (EBool true))
      (SSeq (SSeq SSkip (SFor (EVar "modified") SSkip outer_body))
      (SReturn (EBool false))))).
Proof. reflexivity. Qed.

Lemma simple_outer : simple outer_body = true.
Proof. reflexivity. Qed.

Ltac xcbn := cbn [exec0 exec eval of_eres ebind as_int eval_bin locals hp set_local]; unfold set_local; cbn [locals hp].
Ltac xlk := repeat first [ rewrite lookup_upd_same | rewrite lookup_upd_other by discriminate ].

Section Inner.
Context (fs : list val) (us : slice) (h : heap).
Context (Hfu : nth_error fs 3 = Some (VSl us)).
Let u := sl_read h us.
Context (Hlen : length u = s_len us).

Lemma inner_body_exec : forall e lit ub un,
  lookup "pb" e = Some (VStruct fs) -> lookup "lit" e = Some (VInt lit) ->
  lookup "unbound" e = Some (VInt ub) -> lookup "unit" e = Some (VInt un) ->
  in_range (length u) lit ->
  let b := get_unit u (Z.abs lit) in
  let e1 := upd "binding" (VInt b) (upd "v" (VInt (Z.abs lit)) e) in
  exec0 inner_body (St e h) =
     if b =? 0 then
       if (ub =? 1) && (lit =? un) then OContinue (St e1 h)
       else if ub + 1 =? 1 then ONormal (St (upd "unit" (VInt lit) (upd "unbound" (VInt (ub + 1)) e1)) h)
       else OBreak (St (upd "unbound" (VInt (ub + 1)) e1) h)
     else if b * lit =? Z.abs lit then OBreak (St (upd "sat" (VBool true) e1) h)
     else ONormal (St e1 h).
Proof.
  intros e lit ub un Hpb Hlit Hub Hun Hr b e1.
  assert (Hb : nth (s_off us + Z.to_nat (Z.abs lit - 1)) (arr_of h (s_arr us)) 0 = b).
  { unfold b, get_unit, u. rewrite nth_sl_read; [reflexivity|]. unfold in_range in Hr. lia. }
  unfold inner_body. xcbn. rewrite Hlit. xcbn. xlk. xcbn.
  assert (Hv : (if lit <? 0 then ONormal (St (upd "v" (VInt (- lit)) (upd "v" (VInt lit) e)) h)
                else ONormal (St (upd "v" (VInt lit) e) h)) = ONormal (St (upd "v" (VInt (Z.abs lit)) e) h)).
  { destruct (lit <? 0) eqn:E0.
    - rewrite upd_upd_same. replace (Z.abs lit) with (- lit) by lia. reflexivity.
    - replace (Z.abs lit) with lit by lia. reflexivity. }
  rewrite Hv. clear Hv.
  xcbn. xlk. rewrite Hpb. xcbn. rewrite Hfu. xcbn.
  rewrite idx_in by (unfold in_range in Hr; lia).
  xcbn. xlk. rewrite Hb. xcbn.
  destruct (b =? 0) eqn:Eb0; xcbn.
  - xlk. rewrite Hub. xcbn. destruct (ub =? 1) eqn:Eu1; xcbn.
    + rewrite Hlit, Hun. xcbn. destruct (lit =? un) eqn:Elu; xcbn.
      * reflexivity.
      * xlk. rewrite Hub. xcbn. xlk. xcbn. destruct (ub + 1 =? 1) eqn:Eu2; xcbn.
        -- xlk. rewrite Hlit. xcbn. reflexivity.
        -- reflexivity.
    + xlk. rewrite Hub. xcbn. xlk. xcbn. destruct (ub + 1 =? 1) eqn:Eu2; xcbn.
      * xlk. rewrite Hlit. xcbn. reflexivity.
      * reflexivity.
  - xlk. rewrite Hlit. xcbn. xlk. xcbn. destruct (b * lit =? Z.abs lit); xcbn; reflexivity.
Qed.

Context (cs : slice).

Definition acc_env (acc : option lit) (e : env) : Prop :=
  match acc with
  | None => lookup "unbound" e = Some (VInt 0) /\ exists un, lookup "unit" e = Some (VInt un)
  | Some l => lookup "unbound" e = Some (VInt 1) /\ lookup "unit" e = Some (VInt l)
  end.

Definition scan_post (r : scan_res) (e : env) : Prop :=
  match r with
  | SSat => lookup "sat" e = Some (VBool true)
  | SFalse => lookup "sat" e = Some (VBool false) /\ lookup "unbound" e = Some (VInt 0)
  | SUnit l => lookup "sat" e = Some (VBool false) /\ lookup "unbound" e = Some (VInt 1) /\
               lookup "unit" e = Some (VInt l)
  | SMany => lookup "sat" e = Some (VBool false) /\ lookup "unbound" e = Some (VInt 2)
  end.

Definition inner_vars : list string := ["lit"; "v"; "binding"; "unbound"; "unit"; "sat"].

Ltac kp := repeat (apply keeps_upd; [simpl; tauto|]); try apply keeps_refl.

Lemma inner_loop : forall c k e acc,
  (forall j, (j < length c)%nat -> nth (s_off cs + (k + j)) (arr_of h (s_arr cs)) 0 = nth j c 0) ->
  lookup "pb" e = Some (VStruct fs) -> lookup "sat" e = Some (VBool false) -> acc_env acc e ->
  lits_in (length u) c ->
  exists e', range_go (exec0 inner_body) "_" "lit" (get_sl cs) (length c) k (St e h) = ONormal (St e' h)
    /\ keeps inner_vars e e' /\ scan_post (scan_clause u c acc) e'.
Proof.
  induction c as [|lit r IH]; intros k e acc Hnth Hpb Hsat Hacc Hin.
  - exists e. split; [reflexivity|]. split; [apply keeps_refl|].
    cbn [scan_clause]. destruct acc as [l|]; cbn [acc_env scan_post] in *.
    + destruct Hacc as (A & B). auto.
    + destruct Hacc as (A & B). auto.
  - cbn [length]. rewrite range_go_S. unfold range_pre. cbn [String.eqb Ascii.eqb Bool.eqb].
    unfold get_sl at 1. unfold set_local. cbn [locals hp].
    pose proof (Hnth O ltac:(cbn [length]; lia)) as H0. rewrite Nat.add_0_r in H0. cbn [nth] in H0. rewrite H0.
    assert (Hnth' : forall j, (j < length r)%nat ->
              nth (s_off cs + (S k + j)) (arr_of h (s_arr cs)) 0 = nth j r 0).
    { intros j Hj. specialize (Hnth (S j) ltac:(cbn [length]; lia)). cbn [nth] in Hnth.
      rewrite <- Hnth. f_equal. lia. }
    assert (Hin' : lits_in (length u) r) by (intros x Hx; apply Hin; right; exact Hx).
    assert (Hr : in_range (length u) lit) by (apply Hin; left; reflexivity).
    assert (Hub : exists ub un, lookup "unbound" e = Some (VInt ub) /\ lookup "unit" e = Some (VInt un) /\
               match acc with None => ub = 0 | Some l => ub = 1 /\ un = l end).
    { destruct acc as [l|]; cbn [acc_env] in Hacc.
      - destruct Hacc as (A & B). exists 1, l. auto.
      - destruct Hacc as (A & un & B). exists 0, un. auto. }
    destruct Hub as (ub & un & Hub & Hun & Hacc').
    rewrite (inner_body_exec (upd "lit" (VInt lit) e) lit ub un) by (xlk; first [assumption | reflexivity]).
    cbn [scan_clause]. cbv zeta.
    destruct (get_unit u (Z.abs lit) =? 0) eqn:Eb0.
    + destruct acc as [l0|].
      * destruct Hacc' as (-> & ->). cbn [Z.eqb Pos.eqb andb].
        destruct (lit =? l0) eqn:El.
        -- edestruct (IH (S k)) as (e' & Hrun & Hk & Hpost); [exact Hnth'| | | |exact Hin'|].
           4:{ exists e'. split; [exact Hrun|]. split; [|exact Hpost].
               eapply keeps_trans; [|exact Hk]. kp. }
           ++ xlk. exact Hpb.
           ++ xlk. exact Hsat.
           ++ cbn [acc_env]. xlk. destruct Hacc as (A & B). auto.
        -- cbn [Z.add Pos.add Z.eqb Pos.eqb]. eexists. split; [reflexivity|]. split; [kp|].
           cbn [scan_post]. xlk. auto.
      * subst ub. cbn [Z.eqb andb Z.add Pos.eqb].
        edestruct (IH (S k)) as (e' & Hrun & Hk & Hpost); [exact Hnth'| | | |exact Hin'|].
        4:{ exists e'. split; [exact Hrun|]. split; [|exact Hpost].
            eapply keeps_trans; [|exact Hk]. kp. }
        -- xlk. exact Hpb.
        -- xlk. exact Hsat.
        -- cbn [acc_env]. xlk. auto.
    + destruct (get_unit u (Z.abs lit) * lit =? Z.abs lit) eqn:Es.
      * eexists. split; [reflexivity|]. split; [kp|]. cbn [scan_post]. xlk. reflexivity.
      * edestruct (IH (S k)) as (e' & Hrun & Hk & Hpost); [exact Hnth'| | | |exact Hin'|].
        4:{ exists e'. split; [exact Hrun|]. split; [|exact Hpost].
            eapply keeps_trans; [|exact Hk]. kp. }
        -- xlk. exact Hpb.
        -- xlk. exact Hsat.
        -- destruct acc as [l0|]; cbn [acc_env] in *; xlk; exact Hacc.
Qed.

End Inner.

(* ------------------------------------------------------------------ pure list facts *)

Definition b2z (b : bool) : Z := if b then 1 else 0.

Lemma write_at_set_nth : forall (M : list Z) j x Q, (j < length M)%nat ->
  write_at j [x] (M ++ Q) = set_nth j x M ++ Q.
Proof.
  induction M as [|m M IH]; intros j x Q Hj; cbn [length] in Hj; [lia|].
  destruct j as [|j]; cbn [app write_at set_nth].
  - rewrite write_at_nil. reflexivity.
  - rewrite IH by lia. reflexivity.
Qed.

Lemma write_one_mid : forall (P M Q : list Z) off j x, length P = off -> (j < length M)%nat ->
  write_at (off + j) [x] (P ++ M ++ Q) = P ++ set_nth j x M ++ Q.
Proof.
  induction P as [|p P IH]; intros M Q off j x Hoff Hj; cbn [length] in Hoff; subst off.
  - cbn [app Nat.add]. apply write_at_set_nth. exact Hj.
  - cbn [app Nat.add write_at]. rewrite (IH M Q (length P) j x eq_refl Hj). reflexivity.
Qed.

Lemma map_set_nth : forall (A B : Type) (g : A -> B) l i x, map g (set_nth i x l) = set_nth i (g x) (map g l).
Proof.
  intros A B g. induction l as [|a l IH]; intros [|i] x; cbn [set_nth map]; try reflexivity.
  rewrite IH. reflexivity.
Qed.

Lemma set_nth_same : forall (A : Type) (l : list A) i x dflt, (i < length l)%nat -> nth i l dflt = x -> set_nth i x l = l.
Proof.
  intros A. induction l as [|a l IH]; intros [|i] x dflt Hi Hn; cbn [length] in Hi; cbn [set_nth nth] in *; try lia.
  - subst. reflexivity.
  - rewrite (IH i x dflt) by (try lia; assumption). reflexivity.
Qed.

Lemma set_nth_app_mid : forall (A : Type) (P : list A) y R x, set_nth (length P) x (P ++ y :: R) = P ++ x :: R.
Proof. intros A. induction P as [|p P IH]; intros y R x; cbn [length app set_nth]; [reflexivity|]. rewrite IH. reflexivity. Qed.

Lemma map_b2z_repeat : forall n, map b2z (repeat false n) = repeat 0 n.
Proof. induction n as [|n IH]; cbn [repeat map b2z]; congruence. Qed.

Lemma nth_b2z : forall d k, negb (nth k (map b2z d) 0 =? 0) = nth k d false.
Proof.
  intros d k. change 0 with (b2z false) at 1. rewrite map_nth. destruct (nth k d false); reflexivity.
Qed.

Lemma Forall2_nth : forall (A B : Type) (P : A -> B -> Prop) la lb k da db,
  Forall2 P la lb -> (k < length lb)%nat -> P (nth k la da) (nth k lb db).
Proof.
  intros A B P la lb k da db H. revert k. induction H as [|a b la lb Hab H IH]; intros k Hk; cbn [length] in Hk; [lia|].
  destruct k as [|k]; cbn [nth]; [exact Hab|]. apply IH. lia.
Qed.

Lemma Forall2_length' : forall (A B : Type) (P : A -> B -> Prop) la lb, Forall2 P la lb -> length la = length lb.
Proof. intros A B P la lb H. induction H; cbn [length]; congruence. Qed.


(* ------------------------------------------------------------------ the model, one clause at a time;
   the variant that also returns the final bindings *)

Inductive turn_res := TStop (t : list bool) | TGo (dk : bool) (u : list Z) (t : list bool) (md : bool).

Definition turn (nbn k : nat) (dk : bool) (c : clause) (u : list Z) (t : list bool) (md : bool) : turn_res :=
  if dk then TGo true u t md
  else match scan_clause u c None with
       | SSat => TGo true u t md
       | SFalse => TStop (tag nbn k t)
       | SUnit l => TGo true (assign_lit u l) (tag nbn k t) true
       | SMany => TGo false u t md
       end.

Lemma pass_turn : forall nbn k dk c r u t md,
  pass nbn k ((dk, c) :: r) u t md =
  match turn nbn k dk c u t md with
  | TStop t' => PConflict t'
  | TGo dk' u' t' md' => pcons dk' c (pass nbn (S k) r u' t' md')
  end.
Proof.
  intros. cbn [pass]. unfold turn. destruct dk; [reflexivity|]. destruct (scan_clause u c None); reflexivity.
Qed.

(* the bindings when a sweep ends (by a conflict or at the last clause) *)
Fixpoint pass_u (mk : marked) (u : list Z) : list Z :=
  match mk with
  | [] => u
  | (dk, c) :: r =>
    if dk then pass_u r u
    else match scan_clause u c None with
         | SFalse => u
         | SUnit l => pass_u r (assign_lit u l)
         | _ => pass_u r u
         end
  end.

Lemma pass_u_turn : forall nbn k dk c r u t md,
  pass_u ((dk, c) :: r) u =
  match turn nbn k dk c u t md with
  | TStop _ => u
  | TGo _ u' _ _ => pass_u r u'
  end.
Proof.
  intros. cbn [pass_u]. unfold turn. destruct dk; [reflexivity|]. destruct (scan_clause u c None); reflexivity.
Qed.

Lemma pass_u_cont : forall nbn mk k u t md mk' u' t' md',
  pass nbn k mk u t md = PCont mk' u' t' md' -> pass_u mk u = u'.
Proof.
  intros nbn. induction mk as [|(dk, c) r IH]; intros k u t md mk' u' t' md' H.
  - cbn [pass] in H. inversion H. reflexivity.
  - rewrite pass_turn in H. rewrite (pass_u_turn nbn k dk c r u t md).
    destruct (turn nbn k dk c u t md) as [t1|dk1 u1 t1 md1]; [discriminate|].
    destruct (pass nbn (S k) r u1 t1 md1) as [t2|mk2 u2 t2 md2] eqn:Ep; cbn [pcons] in H; [discriminate|].
    inversion H; subst. eapply IH. exact Ep.
Qed.

(* [up_loop] with the final bindings as a third component *)
Fixpoint up_loop_full (fuel nbn : nat) (mk : marked) (u : list Z) (t : list bool)
  : (option bool * list bool) * list Z :=
  match fuel with
  | O => ((None, t), u)
  | S f =>
    match pass nbn 0 mk u t false with
    | PConflict t' => ((Some true, t'), pass_u mk u)
    | PCont mk' u' t' md => if md then up_loop_full f nbn mk' u' t' else ((Some false, t'), u')
    end
  end.

Definition up_unsat_full (fuel nbn : nat) (clauses : cnf) (u : list Z) (t : list bool)
  : (option bool * list bool) * list Z :=
  up_loop_full fuel nbn (map (pair false) clauses) u t.

Lemma up_loop_full_fst : forall fuel nbn mk u t, fst (up_loop_full fuel nbn mk u t) = up_loop fuel nbn mk u t.
Proof.
  induction fuel as [|f IH]; intros nbn mk u t; cbn [up_loop_full up_loop]; [reflexivity|].
  destruct (pass nbn 0 mk u t false) as [t'|mk' u' t' md]; [reflexivity|]. destruct md; [apply IH|reflexivity].
Qed.

Lemma up_unsat_full_fst : forall fuel nbn clauses u t,
  fst (up_unsat_full fuel nbn clauses u t) = up_unsat fuel nbn clauses u t.
Proof. intros. apply up_loop_full_fst. Qed.

(* ------------------------------------------------------------------ the representation, the heap invariant *)

Section Up.
Context (fs : list val) (css : list slice) (nbs us ts : slice) (h0 : heap) (F : list (list Z)) (nb : Z).
Context (Pu Qu Pt Qt u0 : list Z) (t0 : list bool).

Let n0 := length h0.
Let ua := s_arr us.
Let ta := s_arr ts.
Let ds := Slice n0 O (length F) (length F).
Let nbn := Z.to_nat nb.

Context (Hfc : nth_error fs 0 = Some (VList (map VSl css)))
        (Hfn : nth_error fs 2 = Some (VSl nbs))
        (Hfu : nth_error fs 3 = Some (VSl us))
        (Hft : nth_error fs 5 = Some (VSl ts)).
Context (Hcss : Forall2 (fun cs c => slice_ok h0 cs /\ sl_read h0 cs = c /\ s_arr cs <> ua /\ s_arr cs <> ta) css F).
Context (Hnbs : (s_arr nbs < n0)%nat /\ s_len nbs = 1%nat /\ sl_read h0 nbs = [nb] /\ s_arr nbs <> ua /\ s_arr nbs <> ta).
Context (Hua : (ua < n0)%nat) (Hta : (ta < n0)%nat) (Huta : ua <> ta).
Context (Hu0 : arr_of h0 ua = Pu ++ u0 ++ Qu) (HPu : length Pu = s_off us) (Hu0len : length u0 = s_len us).
Context (Ht0 : arr_of h0 ta = Pt ++ map b2z t0 ++ Qt) (HPt : length Pt = s_off ts) (Ht0len : length t0 = s_len ts).
Context (Hrange : cnf_in (s_len us) F).

Record HI (h : heap) (u : list Z) (t d : list bool) : Prop := mkHI {
  hi_len : length h = S n0;
  hi_u : arr_of h ua = Pu ++ u ++ Qu;
  hi_ulen : length u = s_len us;
  hi_t : arr_of h ta = Pt ++ map b2z t ++ Qt;
  hi_tlen : length t = s_len ts;
  hi_d : arr_of h n0 = map b2z d;
  hi_dlen : length d = length F;
  hi_other : forall a, a <> ua -> a <> ta -> a <> n0 -> arr_of h a = arr_of h0 a
}.

Lemma HI_read_u : forall h u t d, HI h u t d -> sl_read h us = u.
Proof.
  intros h u t d H. unfold sl_read. fold ua. rewrite (hi_u _ _ _ _ H).
  apply read_mid; [symmetry; exact HPu|symmetry; exact (hi_ulen _ _ _ _ H)].
Qed.

Lemma HI_read_other : forall h u t d s, HI h u t d -> s_arr s <> ua -> s_arr s <> ta -> s_arr s <> n0 ->
  sl_read h s = sl_read h0 s.
Proof. intros h u t d s H A B C. apply sl_read_ext. apply (hi_other _ _ _ _ H); assumption. Qed.

Lemma HI_nb : forall h u t d, HI h u t d -> nth (s_off nbs + 0) (arr_of h (s_arr nbs)) 0 = nb.
Proof.
  intros h u t d H. destruct Hnbs as (A & B & C & D & E).
  rewrite <- nth_sl_read by lia. rewrite (HI_read_other h u t d nbs H D E ltac:(lia)), C. reflexivity.
Qed.

Lemma HI_set_done : forall h u t d k, HI h u t d -> (k < length F)%nat ->
  HI (heap_write h n0 k [1]) u t (set_nth k true d).
Proof.
  intros h u t d k H Hk. destruct H as [H1 H2 H3 H4 H5 H6 H7 H8].
  constructor; try assumption.
  - rewrite length_heap_write. exact H1.
  - rewrite arr_of_heap_write_other by lia. exact H2.
  - rewrite arr_of_heap_write_other by lia. exact H4.
  - rewrite arr_of_heap_write_same by lia. rewrite H6.
    rewrite <- (app_nil_r (map b2z d)). rewrite write_at_set_nth by (rewrite map_length; lia).
    rewrite app_nil_r. rewrite map_set_nth. reflexivity.
  - rewrite set_nth_length. exact H7.
  - intros a A B C. rewrite arr_of_heap_write_other by congruence. apply H8; assumption.
Qed.

Lemma HI_set_tag : forall h u t d k, HI h u t d -> (k < length t)%nat ->
  HI (heap_write h ta (s_off ts + k) [1]) u (set_nth k true t) d.
Proof.
  intros h u t d k H Hk. destruct H as [H1 H2 H3 H4 H5 H6 H7 H8].
  constructor; try assumption.
  - rewrite length_heap_write. exact H1.
  - rewrite arr_of_heap_write_other by congruence. exact H2.
  - rewrite arr_of_heap_write_same by lia. rewrite H4.
    rewrite (write_one_mid Pt (map b2z t) Qt (s_off ts) k 1 HPt) by (rewrite map_length; lia).
    rewrite map_set_nth. reflexivity.
  - rewrite set_nth_length. exact H5.
  - rewrite arr_of_heap_write_other by lia. exact H6.
  - intros a A B C. rewrite arr_of_heap_write_other by congruence. apply H8; assumption.
Qed.

Lemma HI_set_unit : forall h u t d j x, HI h u t d -> (j < length u)%nat ->
  HI (heap_write h ua (s_off us + j) [x]) (set_nth j x u) t d.
Proof.
  intros h u t d j x H Hj. destruct H as [H1 H2 H3 H4 H5 H6 H7 H8].
  constructor; try assumption.
  - rewrite length_heap_write. exact H1.
  - rewrite arr_of_heap_write_same by lia. rewrite H2.
    rewrite (write_one_mid Pu u Qu (s_off us) j x HPu Hj). reflexivity.
  - rewrite set_nth_length. exact H3.
  - rewrite arr_of_heap_write_other by congruence. exact H4.
  - rewrite arr_of_heap_write_other by lia. exact H6.
  - intros a A B C. rewrite arr_of_heap_write_other by congruence. apply H8; assumption.
Qed.

Lemma HI_tag : forall h u t d k, HI h u t d -> (nbn <= length t)%nat ->
  HI (if Z.of_nat k <? nb then heap_write h ta (s_off ts + k) [1] else h) u (tag nbn k t) d.
Proof.
  intros h u t d k H Hnb. unfold tag.
  destruct (Z.of_nat k <? nb) eqn:E1; destruct (k <? nbn)%nat eqn:E2; try (unfold nbn in *; lia).
  - apply HI_set_tag; [exact H|]. apply Nat.ltb_lt in E2. lia.
  - exact H.
Qed.


(* ---- the statements after the inner loop, one lemma per result of the scan *)

Ltac xs := cbn [s_arr s_off s_len s_cap].
Ltac xrun := repeat (progress (xcbn; cbn [Z.eqb Pos.eqb]; xlk;
                               repeat match goal with H : lookup _ _ = Some _ |- _ => rewrite H end)).

Lemma after_scan_sat : forall e h k,
  lookup "sat" e = Some (VBool true) -> lookup "done" e = Some (VSl ds) ->
  lookup "i" e = Some (VInt (Z.of_nat k)) -> (k < length F)%nat ->
  exec0 after_scan (St e h) = OContinue (St e (heap_write h n0 k [1])).
Proof.
  intros e h k Hsat Hdone Hi Hk. unfold after_scan. xcbn. rewrite Hsat. xcbn.
  rewrite Hdone, Hi. xcbn. unfold ds. xs. rewrite idx_in by lia. rewrite Nat2Z.id. reflexivity.
Qed.

Lemma after_scan_many : forall e h,
  lookup "sat" e = Some (VBool false) -> lookup "unbound" e = Some (VInt 2) ->
  exec0 after_scan (St e h) = ONormal (St e h).
Proof.
  intros e h Hsat Hub. unfold after_scan. xrun. reflexivity.
Qed.

Lemma after_scan_false : forall e h u t d k,
  HI h u t d -> (nbn <= length t)%nat ->
  lookup "sat" e = Some (VBool false) -> lookup "unbound" e = Some (VInt 0) ->
  lookup "pb" e = Some (VStruct fs) -> lookup "i" e = Some (VInt (Z.of_nat k)) ->
  exists h', exec0 after_scan (St e h) = OReturn (VBool true) h' /\ HI h' u (tag nbn k t) d.
Proof.
  intros e h u t d k H Hnb Hsat Hub Hpb Hi.
  exists (if Z.of_nat k <? nb then heap_write h ta (s_off ts + k) [1] else h).
  split; [|apply HI_tag; assumption].
  unfold after_scan. xcbn. rewrite Hsat. xcbn. rewrite Hub. xcbn. cbn [Z.eqb]. xcbn.
  rewrite Hi, Hpb. xcbn. rewrite Hfn. xcbn. destruct Hnbs as (A & B & C & D & E).
  rewrite B. cbn [Z.of_nat Z.leb Z.ltb Z.compare andb Pos.of_succ_nat Z.to_nat]. rewrite (HI_nb _ _ _ _ H).
  xcbn. destruct (Z.of_nat k <? nb) eqn:E1; xcbn.
  - rewrite Hft. xcbn. rewrite idx_in.
    + rewrite Nat2Z.id. reflexivity.
    + pose proof (hi_tlen _ _ _ _ H). unfold nbn in Hnb. lia.
  - reflexivity.
Qed.

Lemma after_scan_unit : forall e h u t d k l,
  HI h u t d -> (nbn <= length t)%nat -> (k < length F)%nat -> in_range (length u) l ->
  lookup "sat" e = Some (VBool false) -> lookup "unbound" e = Some (VInt 1) ->
  lookup "unit" e = Some (VInt l) ->
  lookup "pb" e = Some (VStruct fs) -> lookup "done" e = Some (VSl ds) ->
  lookup "i" e = Some (VInt (Z.of_nat k)) ->
  exists h', exec0 after_scan (St e h) = ONormal (St (upd "modified" (VBool true) e) h') /\
             HI h' (assign_lit u l) (tag nbn k t) (set_nth k true d).
Proof.
  intros e h u t d k l H Hnb Hk Hr Hsat Hub Hun Hpb Hdone Hi.
  pose proof (hi_ulen _ _ _ _ H) as Hul. unfold in_range in Hr.
  set (j := Z.to_nat (Z.abs l - 1)).
  set (x := if l <? 0 then -1 else 1).
  assert (Ha : assign_lit u l = set_nth j x u).
  { unfold assign_lit, set_unit, j, x. destruct (l <? 0) eqn:El.
    - destruct (1 <=? - l) eqn:E2; [|lia]. f_equal. lia.
    - destruct (1 <=? l) eqn:E2; [|lia]. f_equal. lia. }
  set (h1 := heap_write h ua (s_off us + j) [x]).
  assert (H1 : HI h1 (assign_lit u l) t d) by (rewrite Ha; apply HI_set_unit; [exact H|unfold j; lia]).
  set (h2 := heap_write h1 n0 k [1]).
  assert (H2 : HI h2 (assign_lit u l) t (set_nth k true d)) by (apply HI_set_done; assumption).
  exists (if Z.of_nat k <? nb then heap_write h2 ta (s_off ts + k) [1] else h2).
  split; [|apply HI_tag; assumption].
  unfold after_scan. xrun. rewrite Hfu. xcbn.
  assert (E : (if l <? 0
    then if (0 <=? - l - 1) && (- l - 1 <? Z.of_nat (s_len us))
         then ONormal (St e (heap_write h (s_arr us) (s_off us + Z.to_nat (- l - 1)) [-1])) else OPanic
    else if (0 <=? l - 1) && (l - 1 <? Z.of_nat (s_len us))
         then ONormal (St e (heap_write h (s_arr us) (s_off us + Z.to_nat (l - 1)) [1])) else OPanic)
    = ONormal (St e h1)).
  { unfold h1, j, x, ua. destruct (l <? 0) eqn:El; rewrite idx_in by lia.
    - replace (Z.abs l) with (- l) by lia. reflexivity.
    - replace (Z.abs l) with l by lia. reflexivity. }
  rewrite E. clear E. xrun. unfold ds. xs. rewrite idx_in by lia. rewrite Nat2Z.id. cbn [Nat.add]. fold h2.
  xrun. rewrite Hfn. xcbn. destruct Hnbs as (A & B & C & D & E).
  rewrite B. cbn [Z.of_nat Z.leb Z.ltb Z.compare andb Pos.of_succ_nat Z.to_nat]. rewrite (HI_nb _ _ _ _ H2).
  xcbn. destruct (Z.of_nat k <? nb) eqn:E1; xcbn.
  - rewrite Hft. xcbn. rewrite idx_in.
    + rewrite Nat2Z.id. reflexivity.
    + pose proof (hi_tlen _ _ _ _ H). unfold nbn in Hnb. lia.
  - reflexivity.
Qed.

(* ---- one turn of the middle loop *)

Definition mid_vars : list string :=
  ["i"; "clause"; "unbound"; "unit"; "sat"; "lit"; "v"; "binding"; "modified"].

Lemma inner_mid_incl : incl inner_vars mid_vars.
Proof. intros x Hx. unfold inner_vars, mid_vars in *. simpl in *. tauto. Qed.

Ltac kpm := repeat (apply keeps_upd; [unfold mid_vars; simpl; tauto|]); try apply keeps_refl.

Lemma mid_turn : forall e h u t d md k,
  HI h u t d -> (nbn <= length t)%nat -> (k < length F)%nat ->
  lookup "pb" e = Some (VStruct fs) -> lookup "done" e = Some (VSl ds) ->
  lookup "modified" e = Some (VBool md) ->
  match turn nbn k (nth k d false) (nth k F []) u t md with
  | TStop t' => exists h',
      exec0 mid_body (range_pre "i" "clause" (get_list (map VSl css)) k (St e h)) = OReturn (VBool true) h' /\
      HI h' u t' d
  | TGo dk' u' t' md' => exists o e' h',
      exec0 mid_body (range_pre "i" "clause" (get_list (map VSl css)) k (St e h)) = o /\
      goes_on o (St e' h') /\ HI h' u' t' (set_nth k dk' d) /\ keeps mid_vars e e' /\
      lookup "modified" e' = Some (VBool md')
  end.
Proof.
  intros e h u t d md k H Hnb Hk Hpb Hdone Hmd.
  set (cs := nth k css (Slice 0 0 0 0)).
  destruct (Forall2_nth _ _ _ css F k (Slice 0 0 0 0) [] Hcss Hk) as (Hcok & Hcrd & Hca & Hct).
  fold cs in Hcok, Hcrd, Hca, Hct.
  pose proof (Forall2_length' _ _ _ _ _ Hcss) as Hlcss.
  unfold range_pre. cbn [String.eqb Ascii.eqb Bool.eqb]. unfold set_local. cbn [locals hp].
  unfold get_list. rewrite (nth_indep _ VNil (VSl (Slice 0 0 0 0))) by (rewrite map_length; lia).
  rewrite map_nth. fold cs.
  set (e2 := upd "clause" (VSl cs) (upd "i" (VInt (Z.of_nat k)) e)).
  assert (Hdl : length d = length F) by exact (hi_dlen _ _ _ _ H).
  assert (S1 : exec0 (SIf (EIdxB (EVar "done") (EVar "i")) SContinue SSkip) (St e2 h) =
               if nth k d false then OContinue (St e2 h) else ONormal (St e2 h)).
  { erewrite exec0_if; [reflexivity|].
    cbn [eval ebind as_int locals hp]. unfold e2. xlk. rewrite Hdone. cbn [ebind as_int]. unfold ds. xs.
    rewrite idx_in by lia. rewrite Nat2Z.id. cbn [Nat.add]. rewrite (hi_d _ _ _ _ H), nth_b2z. reflexivity. }
  unfold turn. destruct (nth k d false) eqn:Edk.
  - (* already done *)
    exists (OContinue (St e2 h)), e2, h. split.
    + unfold mid_body. apply exec0_seq_abrupt; [exact S1|exact I].
    + split; [apply goes_on_continue|]. split; [|split].
      * rewrite (set_nth_same _ d k true false) by (try lia; assumption). exact H.
      * unfold e2. kpm.
      * unfold e2. xlk. exact Hmd.
  - set (c := nth k F []). fold c in Hcrd.
    set (e3 := upd "sat" (VBool false) (upd "unit" (VInt 0) (upd "unbound" (VInt 0) e2))).
    assert (Hcn0 : s_arr cs <> n0) by (destruct Hcok as (A & _); unfold n0; lia).
    assert (Hrd : sl_read h cs = c) by (rewrite (HI_read_other h u t d cs H Hca Hct Hcn0); exact Hcrd).
    assert (Hlc : length c = s_len cs) by (rewrite <- Hcrd; apply length_sl_read; exact Hcok).
    assert (Hcin : lits_in (length u) c).
    { rewrite (hi_ulen _ _ _ _ H). apply Hrange. apply nth_In. exact Hk. }
    pose proof (HI_read_u _ _ _ _ H) as Hru.
    destruct (inner_loop fs us h Hfu ltac:(rewrite Hru; exact (hi_ulen _ _ _ _ H)) cs c O e3 None)
      as (e' & Hrun & Hkeep & Hpost).
    { intros j Hj. cbn [Nat.add]. rewrite <- nth_sl_read by lia. rewrite Hrd. reflexivity. }
    { unfold e3, e2. xlk. exact Hpb. }
    { unfold e3. xlk. reflexivity. }
    { cbn [acc_env]. unfold e3. xlk. split; [reflexivity|]. exists 0. reflexivity. }
    { rewrite Hru. exact Hcin. }
    rewrite Hru in Hpost. rewrite Hlc in Hrun.
    assert (Hpre : exec0 mid_body (St e2 h) = exec0 after_scan (St e' h)).
    { unfold mid_body. rewrite (exec0_seq _ _ _ _ S1).
      erewrite exec0_seq by (apply exec0_set; reflexivity).
      erewrite exec0_seq by (apply exec0_set; reflexivity).
      erewrite exec0_seq by (apply exec0_set; reflexivity).
      unfold set_local. cbn [locals hp]. fold e3.
      erewrite exec0_seq; [reflexivity|].
      rewrite (exec0_range_sl _ _ _ _ _ cs) by (cbn [eval locals]; unfold e3, e2; xlk; reflexivity).
      exact Hrun. }
    rewrite Hpre. clear Hpre.
    assert (K0 : keeps mid_vars e e').
    { eapply keeps_trans; [|eapply keeps_incl; [exact inner_mid_incl|exact Hkeep]]. unfold e3, e2. kpm. }
    assert (Kpb : lookup "pb" e' = Some (VStruct fs)).
    { rewrite K0 by (unfold mid_vars; simpl; intuition discriminate). exact Hpb. }
    assert (Kdone : lookup "done" e' = Some (VSl ds)).
    { rewrite K0 by (unfold mid_vars; simpl; intuition discriminate). exact Hdone. }
    assert (Ki : lookup "i" e' = Some (VInt (Z.of_nat k))).
    { rewrite Hkeep by (unfold inner_vars; simpl; intuition discriminate). unfold e3, e2. xlk. reflexivity. }
    assert (Kmd : lookup "modified" e' = Some (VBool md)).
    { rewrite Hkeep by (unfold inner_vars; simpl; intuition discriminate). unfold e3, e2. xlk. exact Hmd. }
    revert Hpost. destruct (scan_clause u c None) as [| |l|] eqn:Esc; intros Hpost; cbn [scan_post] in Hpost.
    + (* SSat *)
      exists (OContinue (St e' (heap_write h n0 k [1]))), e', (heap_write h n0 k [1]).
      split; [exact (after_scan_sat e' h k Hpost Kdone Ki Hk)|]. split; [apply goes_on_continue|].
      split; [apply HI_set_done; assumption|]. split; assumption.
    + (* SFalse *)
      destruct Hpost as (P1 & P2). apply (after_scan_false e' h u t d k); assumption.
    + (* SUnit *)
      destruct Hpost as (P1 & P2 & P3).
      assert (Hl : in_range (length u) l).
      { destruct (scan_unit_in u c None l Esc) as [X|X]; [discriminate|]. apply Hcin. exact X. }
      destruct (after_scan_unit e' h u t d k l H Hnb Hk Hl P1 P2 P3 Kpb Kdone Ki) as (h' & Hrun' & HI').
      exists (ONormal (St (upd "modified" (VBool true) e') h')), (upd "modified" (VBool true) e'), h'.
      split; [exact Hrun'|]. split; [apply goes_on_normal|]. split; [exact HI'|]. split.
      * apply keeps_upd; [unfold mid_vars; simpl; tauto|exact K0].
      * xlk. reflexivity.
    + (* SMany *)
      destruct Hpost as (P1 & P2).
      exists (ONormal (St e' h)), e', h. split; [apply after_scan_many; assumption|].
      split; [apply goes_on_normal|]. split; [|split; assumption].
      rewrite (set_nth_same _ d k false false) by (try lia; assumption). exact H.
Qed.

(* ---- the middle loop is [pass] *)

Lemma mid_loop : forall (mk : marked) dp Fp e h u t md,
  F = Fp ++ map snd mk -> length dp = length Fp ->
  HI h u t (dp ++ map fst mk) -> (nbn <= s_len ts)%nat ->
  lookup "pb" e = Some (VStruct fs) -> lookup "done" e = Some (VSl ds) ->
  lookup "modified" e = Some (VBool md) ->
  match pass nbn (length dp) mk u t md with
  | PConflict t' => exists h' d',
      range_go (exec0 mid_body) "i" "clause" (get_list (map VSl css)) (length mk) (length dp) (St e h)
        = OReturn (VBool true) h' /\ HI h' (pass_u mk u) t' d'
  | PCont mk' u' t' md' => exists e' h',
      range_go (exec0 mid_body) "i" "clause" (get_list (map VSl css)) (length mk) (length dp) (St e h)
        = ONormal (St e' h') /\ HI h' u' t' (dp ++ map fst mk') /\ keeps mid_vars e e' /\
      lookup "modified" e' = Some (VBool md')
  end.
Proof.
  induction mk as [|(dk, c) r IH]; intros dp Fp e h u t md HF Hdp H Hnbt Hpb Hdone Hmd.
  - cbn [pass length range_go]. exists e, h. split; [reflexivity|]. split; [exact H|].
    split; [apply keeps_refl|exact Hmd].
  - cbn [map fst snd] in HF, H. set (k := length dp) in *.
    assert (Hk : (k < length F)%nat).
    { rewrite HF, app_length. cbn [length]. unfold k. lia. }
    assert (Hc : nth k F [] = c) by (rewrite HF; apply nth_mid; unfold k; exact Hdp).
    assert (Hd : nth k (dp ++ dk :: map fst r) false = dk) by (apply nth_mid; reflexivity).
    assert (Hnb : (nbn <= length t)%nat) by (rewrite (hi_tlen _ _ _ _ H); exact Hnbt).
    pose proof (mid_turn e h u t _ md k H Hnb Hk Hpb Hdone Hmd) as T.
    rewrite Hc, Hd in T. rewrite pass_turn, (pass_u_turn nbn k dk c r u t md).
    cbn [length].
    destruct (turn nbn k dk c u t md) as [t1|dk1 u1 t1 md1].
    + destruct T as (h' & Hrun & HI'). rewrite range_go_S, Hrun. exists h', (dp ++ dk :: map fst r). split; [reflexivity|exact HI'].
    + destruct T as (o & e1 & h1 & Hrun & Hgo & HI1 & K1 & Hmd1).
      unfold k in HI1. rewrite set_nth_app_mid in HI1.
      replace (dp ++ dk1 :: map fst r) with ((dp ++ [dk1]) ++ map fst r) in HI1
        by (rewrite <- app_assoc; reflexivity).
      assert (Hpb1 : lookup "pb" e1 = Some (VStruct fs)).
      { rewrite K1 by (unfold mid_vars; simpl; intuition discriminate). exact Hpb. }
      assert (Hdone1 : lookup "done" e1 = Some (VSl ds)).
      { rewrite K1 by (unfold mid_vars; simpl; intuition discriminate). exact Hdone. }
      specialize (IH (dp ++ [dk1]) (Fp ++ [c]) e1 h1 u1 t1 md1).
      rewrite !app_length in IH. cbn [length] in IH. rewrite Nat.add_1_r in IH. fold k in IH.
      specialize (IH ltac:(rewrite <- app_assoc; exact HF) ltac:(lia) HI1 Hnbt Hpb1 Hdone1 Hmd1).
      assert (Hstep :
        range_go (exec0 mid_body) "i" "clause" (get_list (map VSl css)) (S (length r)) k (St e h) =
        range_go (exec0 mid_body) "i" "clause" (get_list (map VSl css)) (length r) (S k) (St e1 h1)).
      { rewrite range_go_S, Hrun. destruct Hgo as [->| ->]; reflexivity. }
      rewrite Hstep. clear Hstep.
      destruct (pass nbn (S k) r u1 t1 md1) as [t2|mk2 u2 t2 md2]; cbn [pcons].
      * exact IH.
      * destruct IH as (e2 & h2 & Hrun2 & HI2 & K2 & Hmd2). exists e2, h2. split; [exact Hrun2|].
        split; [|split; [eapply keeps_trans; eassumption|exact Hmd2]].
        cbn [map fst]. rewrite <- app_assoc in HI2. exact HI2.
Qed.

(* ---- one sweep: the body of [for modified] *)

Lemma length_css : length css = length F.
Proof. exact (Forall2_length' _ _ _ _ _ Hcss). Qed.

Lemma outer_turn : forall (mk : marked) e h u t,
  F = map snd mk -> HI h u t (map fst mk) -> (nbn <= s_len ts)%nat ->
  lookup "pb" e = Some (VStruct fs) -> lookup "done" e = Some (VSl ds) ->
  match pass nbn 0 mk u t false with
  | PConflict t' => exists h' d',
      exec0 outer_body (St e h) = OReturn (VBool true) h' /\ HI h' (pass_u mk u) t' d'
  | PCont mk' u' t' md' => exists e' h',
      exec0 outer_body (St e h) = ONormal (St e' h') /\ HI h' u' t' (map fst mk') /\
      lookup "pb" e' = Some (VStruct fs) /\ lookup "done" e' = Some (VSl ds) /\
      lookup "modified" e' = Some (VBool md')
  end.
Proof.
  intros mk e h u t HF H Hnbt Hpb Hdone.
  set (e1 := upd "modified" (VBool false) e).
  assert (Hlen : length (map VSl css) = length mk).
  { rewrite map_length, length_css, HF, map_length. reflexivity. }
  assert (E : exec0 outer_body (St e h) =
              range_go (exec0 mid_body) "i" "clause" (get_list (map VSl css)) (length mk) O (St e1 h)).
  { unfold outer_body. erewrite exec0_seq by (apply exec0_set; reflexivity).
    unfold set_local. cbn [locals hp]. fold e1.
    rewrite (exec0_range_list _ _ _ _ _ (map VSl css)).
    - rewrite Hlen. reflexivity.
    - cbn [eval locals ebind]. unfold e1. xlk. rewrite Hpb. cbn [ebind]. rewrite Hfc. reflexivity. }
  rewrite E.
  pose proof (mid_loop mk [] [] e1 h u t false HF eq_refl H Hnbt) as M. cbn [length app] in M.
  specialize (M ltac:(unfold e1; xlk; exact Hpb) ltac:(unfold e1; xlk; exact Hdone)
                ltac:(unfold e1; xlk; reflexivity)).
  destruct (pass nbn 0 mk u t false) as [t1|mk1 u1 t1 md1].
  - exact M.
  - destruct M as (e' & h' & Hrun & HI' & K & Hmd). exists e', h'. split; [exact Hrun|]. split; [exact HI'|].
    split; [|split; [|exact Hmd]].
    + rewrite K by (unfold mid_vars; simpl; intuition discriminate). unfold e1. xlk. exact Hpb.
    + rewrite K by (unfold mid_vars; simpl; intuition discriminate). unfold e1. xlk. exact Hdone.
Qed.

(* ---- the outer loop is [up_loop] *)

Definition the_loop : stmt := SFor (EVar "modified") SSkip outer_body.

Lemma outer_loop : forall n (mk : marked) e h u t b t' u',
  up_loop_full n nbn mk u t = ((Some b, t'), u') ->
  F = map snd mk -> HI h u t (map fst mk) -> (nbn <= s_len ts)%nat ->
  lookup "pb" e = Some (VStruct fs) -> lookup "done" e = Some (VSl ds) ->
  lookup "modified" e = Some (VBool true) ->
  exists h' d', HI h' u' t' d' /\
    if b then runs go_funs the_loop (St e h) (OReturn (VBool true) h')
    else exists e', runs go_funs the_loop (St e h) (ONormal (St e' h')).
Proof.
  induction n as [|n IH]; intros mk e h u t b t' u' Hup HF H Hnbt Hpb Hdone Hmd; cbn [up_loop_full] in Hup;
    [discriminate|].
  assert (Hc : eval (St e h) (EVar "modified") = EV (VBool true)) by (cbn [eval locals]; rewrite Hmd; reflexivity).
  pose proof (outer_turn mk e h u t HF H Hnbt Hpb Hdone) as T.
  pose proof (pass_clauses nbn mk 0 u t false) as Hcl.
  destruct (pass nbn 0 mk u t false) as [t1|mk1 u1 t1 md1].
  - inversion Hup; subst. destruct T as (h' & d' & Hrun & HI'). exists h', d'. split; [exact HI'|].
    apply runs_for_body_abrupt; [exact Hc| |exact I].
    apply runs_exec0; [reflexivity|exact Hrun|discriminate].
  - destruct T as (e1 & h1 & Hrun & HI1 & Hpb1 & Hdone1 & Hmd1).
    assert (Hb : runs go_funs outer_body (St e h) (ONormal (St e1 h1))).
    { apply runs_exec0; [reflexivity|exact Hrun|discriminate]. }
    specialize (Hcl _ _ _ _ eq_refl).
    destruct md1.
    + destruct (IH mk1 e1 h1 u1 t1 b t' u' Hup ltac:(congruence) HI1 Hnbt Hpb1 Hdone1 Hmd1)
        as (h' & d' & HI' & Hr).
      exists h', d'. split; [exact HI'|]. destruct b.
      * eapply runs_for_true; [exact Hc|exact Hb|apply runs_skip|exact Hr].
      * destruct Hr as (e' & Hr). exists e'. eapply runs_for_true; [exact Hc|exact Hb|apply runs_skip|exact Hr].
    + inversion Hup; subst. exists h1, (map fst mk1). split; [exact HI1|]. exists e1.
      eapply runs_for_true; [exact Hc|exact Hb|apply runs_skip|].
      apply runs_for_false. cbn [eval locals]. rewrite Hmd1. reflexivity.
Qed.

(* ---- the whole function *)

Lemma HI_init : HI (h0 ++ [repeat 0 (length F)]) u0 t0 (repeat false (length F)).
Proof.
  constructor.
  - apply length_alloc.
  - rewrite arr_of_alloc_old by exact Hua. exact Hu0.
  - exact Hu0len.
  - rewrite arr_of_alloc_old by exact Hta. exact Ht0.
  - exact Ht0len.
  - unfold n0. rewrite arr_of_alloc_new, map_b2z_repeat. reflexivity.
  - apply repeat_length.
  - intros a A B C. destruct (Nat.lt_ge_cases a n0) as [Hlt|Hge].
    + apply arr_of_alloc_old. exact Hlt.
    + rewrite !arr_of_oob; [reflexivity|exact Hge|]. rewrite length_alloc. fold n0. lia.
Qed.

Lemma unsat_body_runs : (nbn <= s_len ts)%nat ->
  exists b t' u' h',
    runs go_funs (f_body src_Problem_unsat) (St [("pb", VStruct fs)] h0) (OReturn (VBool b) h') /\
    up_unsat_full (S (length F)) nbn F u0 t0 = ((Some b, t'), u') /\
    length h' = S n0 /\
    arr_of h' ua = Pu ++ u' ++ Qu /\ length u' = s_len us /\
    arr_of h' ta = Pt ++ map b2z t' ++ Qt /\ length t' = s_len ts /\
    (forall a, a <> ua -> a <> ta -> a <> n0 -> arr_of h' a = arr_of h0 a).
Proof.
  intros Hnbt.
  destruct (up_unsat_full (S (length F)) nbn F u0 t0) as ((ob, t'), u') eqn:Hup.
  assert (Hob : ob <> None).
  { assert (X : fst (fst (up_unsat_full (S (length F)) nbn F u0 t0)) <> None)
      by (rewrite up_unsat_full_fst; apply up_unsat_fuel).
    rewrite Hup in X. exact X. }
  destruct ob as [b|]; [|congruence]. clear Hob.
  set (e1 := upd "modified" (VBool true) (upd "done" (VSl ds) [("pb", VStruct fs)])).
  set (h1 := h0 ++ [repeat 0 (length F)]).
  unfold up_unsat_full in Hup.
  destruct (outer_loop (S (length F)) (map (pair false) F) e1 h1 u0 t0 b t' u' Hup) as (h' & d' & HI' & Hr).
  { rewrite map_snd_pair_false. reflexivity. }
  { assert (E : forall G : cnf, map fst (map (pair false) G) = repeat false (length G))
      by (induction G as [|c r IH]; cbn [map fst length repeat]; congruence).
    exact (eq_ind _ (fun d => HI h1 u0 t0 d) HI_init _ (eq_sym (E F))). }
  { exact Hnbt. }
  { reflexivity. }
  { reflexivity. }
  { reflexivity. }
  exists b, t', u', h'. split; [|split; [reflexivity|]].
  2:{ destruct HI' as [A1 A2 A3 A4 A5 A6 A7 A8]. repeat split; assumption. }
  rewrite src_shape. cbn [f_body].
  eapply runs_seq.
  { apply (runs_make go_funs "done" _ _ (Z.of_nat (length F))); [|lia].
    cbn [eval locals lookup String.eqb Ascii.eqb Bool.eqb ebind]. rewrite Hfc. cbn [ebind].
    rewrite map_length, length_css. reflexivity. }
  cbn [locals hp upd String.eqb Ascii.eqb Bool.eqb]. rewrite Nat2Z.id. fold n0. fold ds. fold h1.
  eapply runs_seq; [apply runs_set; reflexivity|].
  unfold set_local. cbn [locals hp upd String.eqb Ascii.eqb Bool.eqb].
  change (upd "modified" (VBool true) [("pb", VStruct fs); ("done", VSl ds)]) with e1.
  fold the_loop.
  destruct b.
  - apply runs_seq_abrupt; [|exact I]. eapply runs_seq; [apply runs_skip|exact Hr].
  - destruct Hr as (e' & Hr). eapply runs_seq.
    + eapply runs_seq; [apply runs_skip|exact Hr].
    + apply (runs_return go_funs (EBool false) (St e' h') (VBool false)). reflexivity.
Qed.

End Up.

(* ------------------------------------------------------------------ the theorem *)

(* [VStruct fs] is a *Problem as the translator represents it (int fields boxed), holding the clauses [F] (through the
   headers [css]), NbClauses = [nb], units = [u], tagged = [t] in the heap [h].  The clause arrays and the box of
   NbClauses are only read: they may share; they differ from the arrays of units and tagged, which differ from each
   other. *)
Definition pb_repr (h : heap) (fs : list val) (css : list slice) (nbs us ts : slice)
           (F : cnf) (nb : Z) (u : list Z) (t : list bool) : Prop :=
  nth_error fs fld_Problem_Clauses = Some (VList (map VSl css)) /\
  nth_error fs fld_Problem_NbClauses = Some (VSl nbs) /\
  nth_error fs fld_Problem_units = Some (VSl us) /\
  nth_error fs fld_Problem_tagged = Some (VSl ts) /\
  Forall2 (fun cs c => slice_ok h cs /\ sl_read h cs = c /\ s_arr cs <> s_arr us /\ s_arr cs <> s_arr ts) css F /\
  (slice_ok h nbs /\ sl_read h nbs = [nb] /\ s_arr nbs <> s_arr us /\ s_arr nbs <> s_arr ts) /\
  (slice_ok h us /\ sl_read h us = u) /\
  (slice_ok h ts /\ sl_read h ts = map b2z t) /\
  s_arr us <> s_arr ts.

(* between [h] and [h'] the array of [s] changed inside the window of [s] only *)
Definition only_window (h h' : heap) (s : slice) : Prop :=
  exists P Q, arr_of h (s_arr s) = P ++ sl_read h s ++ Q /\ arr_of h' (s_arr s) = P ++ sl_read h' s ++ Q /\
              length P = s_off s /\ length (sl_read h' s) = length (sl_read h s).

Lemma Forall2_imp : forall (A B : Type) (P Q : A -> B -> Prop) la lb,
  (forall a b, P a b -> Q a b) -> Forall2 P la lb -> Forall2 Q la lb.
Proof. intros A B P Q la lb H F2. induction F2; constructor; auto. Qed.

Lemma slice_ok_same_arr : forall h h' s, (length h <= length h')%nat ->
  arr_of h' (s_arr s) = arr_of h (s_arr s) -> slice_ok h s -> slice_ok h' s.
Proof. intros h h' s Hl Ha (A & B & C). unfold slice_ok. rewrite Ha. repeat split; try assumption; lia. Qed.

Lemma slice_ok_same_len : forall h h' s, (length h <= length h')%nat ->
  length (arr_of h' (s_arr s)) = length (arr_of h (s_arr s)) -> slice_ok h s -> slice_ok h' s.
Proof. intros h h' s Hl Ha (A & B & C). unfold slice_ok. rewrite Ha. repeat split; try assumption; lia. Qed.

Theorem Problem_unsat_refines : forall h fs css nbs us ts F nb u t,
  pb_repr h fs css nbs us ts F nb u t ->
  range_okb (length u) F = true ->
  (Z.to_nat nb <= length t)%nat ->
  exists fuel b t' u' h',
    run go_funs fuel "Problem.unsat" [VStruct fs] h = OReturn (VBool b) h' /\
    up_unsat_full (S (length F)) (Z.to_nat nb) F u t = ((Some b, t'), u') /\
    up_unsat (S (length F)) (Z.to_nat nb) F u t = (Some b, t') /\
    pb_repr h' fs css nbs us ts F nb u' t' /\
    length h' = S (length h) /\
    only_window h h' us /\ only_window h h' ts /\
    (forall a, a <> s_arr us -> a <> s_arr ts -> a <> length h -> arr_of h' a = arr_of h a).
Proof.
  intros h fs css nbs us ts F nb u t R Hrg Hnb.
  destruct R as (R1 & R2 & R3 & R4 & R5 & (N1 & N2 & N3 & N4) & (U1 & U2) & (T1 & T2) & RD).
  destruct (slice_split h us U1) as (Pu & Qu & HPu & HlPu).
  destruct (slice_split h ts T1) as (Pt & Qt & HPt & HlPt).
  pose proof (length_sl_read h us U1) as Hlu. pose proof (length_sl_read h ts T1) as Hlt.
  pose proof (length_sl_read h nbs N1) as Hln. rewrite N2 in Hln. cbn [length] in Hln.
  rewrite U2 in HPu, Hlu. rewrite T2 in HPt, Hlt. rewrite map_length in Hlt.
  assert (Hrange : cnf_in (s_len us) F) by (rewrite <- Hlu; apply range_okb_spec; exact Hrg).
  destruct (unsat_body_runs fs css nbs us ts h F nb Pu Qu Pt Qt u t R1 R2 R3 R4 R5) as
      (b & t' & u' & h' & Hrun & Hup & L & A1 & A2 & A3 & A4 & A5); try assumption; try lia.
  { destruct N1 as (X & _). repeat split; try assumption; lia. }
  { destruct U1 as (X & _). exact X. }
  { destruct T1 as (X & _). exact X. }
  destruct Hrun as (fuel & Hrun & _).
  assert (Ru : sl_read h' us = u') by (unfold sl_read; rewrite A1; apply read_mid; lia).
  assert (Rt : sl_read h' ts = map b2z t') by (unfold sl_read; rewrite A3; apply read_mid; rewrite ?map_length; lia).
  exists fuel, b, t', u', h'.
  split; [exact Hrun|]. split; [exact Hup|].
  split; [rewrite <- up_unsat_full_fst; exact (f_equal fst Hup)|].
  split; [|split; [exact L|split; [|split; [|exact A5]]]].
  - unfold pb_repr. split; [exact R1|]. split; [exact R2|]. split; [exact R3|]. split; [exact R4|].
    split; [|split; [|split; [|split; [|exact RD]]]].
    + eapply Forall2_imp; [|exact R5]. intros cs c (X1 & X2 & X3 & X4).
      assert (E : arr_of h' (s_arr cs) = arr_of h (s_arr cs)) by (apply A5; try assumption; destruct X1; lia).
      split; [apply (slice_ok_same_arr h); [lia|exact E|exact X1]|].
      split; [rewrite (sl_read_ext h h' cs E); exact X2|]. split; assumption.
    + assert (E : arr_of h' (s_arr nbs) = arr_of h (s_arr nbs)) by (apply A5; try assumption; destruct N1; lia).
      split; [apply (slice_ok_same_arr h); [lia|exact E|exact N1]|].
      split; [rewrite (sl_read_ext h h' nbs E); exact N2|]. split; assumption.
    + split; [|exact Ru]. apply (slice_ok_same_len h); [lia| |exact U1]. rewrite A1, HPu, !app_length. lia.
    + split; [|exact Rt].
      apply (slice_ok_same_len h); [lia| |exact T1]. rewrite A3, HPt, !app_length, !map_length. lia.
  - exists Pu, Qu. rewrite U2, Ru. repeat split; try assumption. lia.
  - exists Pt, Qt. rewrite T2, Rt. repeat split; try assumption. rewrite !map_length. lia.
Qed.

(* ---- composed with the soundness of the model (Proofs/Rup.v): when the executed source answers true from bindings
   that every model of F agrees with, F has no model *)

Theorem Problem_unsat_true_sound : forall h fs css nbs us ts F nb u t fuel h',
  pb_repr h fs css nbs us ts F nb u t ->
  range_okb (length u) F = true ->
  length t = Z.to_nat nb ->
  units_ok u -> units_entailed (length u) F u ->
  run go_funs fuel "Problem.unsat" [VStruct fs] h = OReturn (VBool true) h' ->
  ~ Satisfiable (length u) F.
Proof.
  intros h fs css nbs us ts F nb u t fuel h' R Hrg Hlt Huo Hent Hrun (m & Hm & Hsat).
  destruct (Problem_unsat_refines h fs css nbs us ts F nb u t R Hrg ltac:(lia))
    as (fuel0 & b & t' & u' & h0' & Hrun0 & _ & Hup & _).
  assert (E : OReturn (VBool true) h' = OReturn (VBool b) h0').
  { eapply run_det; [exact Hrun|discriminate|exact Hrun0|discriminate]. }
  inversion E; subst b.
  assert (Hwf : wf_cnf F).
  { intros c Hc l Hl. apply range_okb_spec in Hrg. eapply in_range_nonzero. exact (Hrg c Hc l Hl). }
  apply (up_loop_sound m (Z.to_nat nb) (fun _ => true) (S (length F)) (map (pair false) F) u t).
  - apply Hent; assumption.
  - exact Huo.
  - exact Hlt.
  - rewrite map_snd_pair_false. apply goodc_all; assumption.
  - intros i _. reflexivity.
  - unfold up_unsat in Hup. rewrite Hup. reflexivity.
Qed.
