(* solver.ParseCNF (the byte machine [cnf_top]) reads back every layout that
   [render_dimacs_b] writes, and Problem.CNF() ([print_cnf_b]) is the layout []. *)
From Coq Require Import List ZArith Bool NArith String Ascii Lia Arith.
From GS Require Import Spec.Base Model.Text Model.TextPrint Proofs.TextNum Proofs.TextLex.
Import ListNotations.
Open Scope Z_scope.

(* ------------------------------------------------------------------ *)
(* readInt *)

Lemma digit_facts : forall c, is_digit c = true ->
  is_space c = false /\ Ascii.eqb c "-" = false /\ Ascii.eqb c "c" = false /\ Ascii.eqb c "p" = false.
Proof. intros c H. codes. repeat split; zcases. Qed.

Lemma numchar_facts : forall c, is_numchar c = true ->
  is_space c = false /\ Ascii.eqb c "c" = false /\ Ascii.eqb c "p" = false.
Proof. intros c H. codes. repeat split; zcases. Qed.

Lemma skip_spaces_app : forall ws s, forallb is_space ws = true ->
  skip_spaces (ws ++ s) = skip_spaces s.
Proof.
  induction ws as [|c ws IH]; intros s H; [reflexivity|].
  cbn [forallb] in H. apply andb_true_iff in H. destruct H as [H1 H2].
  cbn [app skip_spaces]. rewrite H1. apply IH. exact H2.
Qed.

Lemma rid_digits : forall ds neg res sp rest,
  Forall isdig ds -> ds <> [] -> is_space sp = true ->
  read_int_digits neg res (map digit_char ds ++ sp :: rest)
  = RInt (val_be res ds * neg) (sp :: rest).
Proof.
  induction ds as [|d r IH]; intros neg res sp rest Hd Hne Hsp; [congruence|].
  inversion Hd as [|x y Hd1 Hdr]; subst.
  cbn [map app read_int_digits]. rewrite digit_of_char by exact Hd1.
  destruct r as [|d2 r].
  - cbn [map app]. rewrite Hsp. unfold val_be. cbn [fold_left]. do 2 f_equal. lia.
  - inversion Hdr as [|x y Hd2 _]; subst.
    cbn [map app].
    destruct (digit_facts (digit_char d2) (is_digit_char d2 Hd2)) as [Hs _]. rewrite Hs.
    change (digit_char d2 :: map digit_char r ++ sp :: rest)
      with (map digit_char (d2 :: r) ++ sp :: rest).
    rewrite IH by (assumption || discriminate).
    unfold val_be. cbn [fold_left]. do 3 f_equal. lia.
Qed.

Lemma rid_digits_eof : forall ds neg res,
  Forall isdig ds -> ds <> [] ->
  read_int_digits neg res (map digit_char ds) = RInt (val_be res ds * neg) [SP].
Proof.
  induction ds as [|d r IH]; intros neg res Hd Hne; [congruence|].
  inversion Hd as [|x y Hd1 Hdr]; subst.
  cbn [map read_int_digits]. rewrite digit_of_char by exact Hd1.
  destruct r as [|d2 r].
  - cbn [map]. unfold val_be. cbn [fold_left]. do 2 f_equal. lia.
  - inversion Hdr as [|x y Hd2 _]; subst. cbn [map].
    destruct (digit_facts (digit_char d2) (is_digit_char d2 Hd2)) as [Hs _]. rewrite Hs.
    change (digit_char d2 :: map digit_char r) with (map digit_char (d2 :: r)).
    rewrite IH by (assumption || discriminate).
    unfold val_be. cbn [fold_left]. do 3 f_equal. lia.
Qed.

Lemma read_int_num : forall z ws sp rest,
  forallb is_space ws = true -> is_space sp = true ->
  read_int (ws ++ print_Zl z ++ sp :: rest) = RInt z (sp :: rest).
Proof.
  intros z ws sp rest Hws Hsp. unfold read_int. rewrite skip_spaces_app by exact Hws.
  destruct (print_Zl_cases z) as [[Hz ->]|[Hz ->]].
  - cbn [app skip_spaces]. change (is_space "-") with false. cbv iota.
    change (Ascii.eqb "-" "-") with true. cbv iota.
    destruct (dlist_spec (- z) ltac:(lia)) as [H1 [H2 H3]]. rewrite print_nat_Z_dlist.
    destruct (dlist (- z)) as [|d r] eqn:E; [congruence|].
    change (map digit_char (d :: r) ++ sp :: rest)
      with (digit_char d :: (map digit_char r ++ sp :: rest)).
    cbv iota.
    change (digit_char d :: (map digit_char r ++ sp :: rest))
      with (map digit_char (d :: r) ++ sp :: rest).
    rewrite rid_digits by (assumption || discriminate). rewrite H2. f_equal. lia.
  - destruct (dlist_spec z Hz) as [H1 [H2 H3]]. rewrite print_nat_Z_dlist.
    destruct (dlist z) as [|d r] eqn:E; [congruence|].
    assert (Hd : isdig d) by (inversion H1; assumption).
    destruct (digit_facts (digit_char d) (is_digit_char d Hd)) as [Hs [Hm _]].
    change (map digit_char (d :: r) ++ sp :: rest)
      with (digit_char d :: (map digit_char r ++ sp :: rest)).
    cbn [skip_spaces]. rewrite Hs, Hm.
    change (digit_char d :: (map digit_char r ++ sp :: rest))
      with (map digit_char (d :: r) ++ sp :: rest).
    rewrite rid_digits by (assumption || discriminate). rewrite H2. f_equal. lia.
Qed.

Lemma read_int_num_eof : forall z ws,
  forallb is_space ws = true -> read_int (ws ++ print_Zl z) = RInt z [SP].
Proof.
  intros z ws Hws. unfold read_int. rewrite skip_spaces_app by exact Hws.
  destruct (print_Zl_cases z) as [[Hz ->]|[Hz ->]].
  - cbn [skip_spaces]. change (is_space "-") with false. cbv iota.
    change (Ascii.eqb "-" "-") with true. cbv iota.
    destruct (dlist_spec (- z) ltac:(lia)) as [H1 [H2 H3]]. rewrite print_nat_Z_dlist.
    destruct (dlist (- z)) as [|d r] eqn:E; [congruence|].
    change (map digit_char (d :: r)) with (digit_char d :: map digit_char r). cbv iota.
    change (digit_char d :: map digit_char r) with (map digit_char (d :: r)).
    rewrite rid_digits_eof by (assumption || discriminate). rewrite H2. f_equal. lia.
  - destruct (dlist_spec z Hz) as [H1 [H2 H3]]. rewrite print_nat_Z_dlist.
    destruct (dlist z) as [|d r] eqn:E; [congruence|].
    assert (Hd : isdig d) by (inversion H1; assumption).
    destruct (digit_facts (digit_char d) (is_digit_char d Hd)) as [Hs [Hm _]].
    change (map digit_char (d :: r)) with (digit_char d :: map digit_char r).
    cbn [skip_spaces]. rewrite Hs, Hm.
    change (digit_char d :: map digit_char r) with (map digit_char (d :: r)).
    rewrite rid_digits_eof by (assumption || discriminate). rewrite H2. f_equal. lia.
Qed.

(* ------------------------------------------------------------------ *)
(* a clause *)

Definition wf_lits (n : Z) (c : clause) : Prop := forall l, In l c -> l <> 0 /\ Z.abs l <= n.
Definition wf_dimacs (n : Z) (F : cnf) : Prop := 0 <= n /\ forall c, In c F -> wf_lits n c.

Lemma wf_lits_cons : forall n l c, wf_lits n (l :: c) -> (l <> 0 /\ Z.abs l <= n) /\ wf_lits n c.
Proof.
  intros n l c H. split; [apply H; left; reflexivity|].
  intros x Hx. apply H. right. exact Hx.
Qed.

Lemma read_clause_lits : forall c lay nv acc ws sp rest f,
  wf_lits nv c -> forallb is_space ws = true -> is_space sp = true ->
  (List.length c < f)%nat ->
  read_clause f nv (ws ++ fst (render_lits c lay) ++ tok "0" ++ sp :: rest) acc
  = CDone (Some (acc ++ c)) rest.
Proof.
  induction c as [|l c IH]; intros lay nv acc ws sp rest f Hwf Hws Hsp Hf.
  - destruct f as [|f]; [simpl in Hf; lia|].
    cbn [render_lits fst app read_clause].
    change (tok "0") with (print_Zl 0). rewrite read_int_num by assumption.
    change (0 =? 0) with true. cbv iota. cbn [tl]. rewrite app_nil_r. reflexivity.
  - destruct f as [|f]; [simpl in Hf; lia|]. cbn [List.length] in Hf.
    destruct (wf_lits_cons _ _ _ Hwf) as [[Hl0 Hln] Hwf'].
    cbn [render_lits]. destruct (sep1_multi lay) as [Hs1 Hs2].
    destruct (sep1 true lay) as [s l1]. cbn [fst] in Hs1, Hs2.
    specialize (IH l1 nv (acc ++ [l]) s sp rest f Hwf' Hs1 Hsp ltac:(lia)).
    destruct (render_lits c l1) as [rl l2]. cbn [fst] in *.
    destruct s as [|s0 s]; [congruence|].
    cbn [forallb] in Hs1. apply andb_true_iff in Hs1. destruct Hs1 as [Hs0 Hs1].
    cbn [read_clause]. rewrite <- !app_assoc. cbn [app].
    rewrite read_int_num by assumption.
    replace (l =? 0) with false by (symmetry; apply Z.eqb_neq; exact Hl0).
    replace ((nv <? l) || (nv <? - l)) with false
      by (symmetry; apply orb_false_iff; split; apply Z.ltb_ge; lia).
    cbv iota.
    etransitivity; [exact IH|]. rewrite <- app_assoc. reflexivity.
Qed.

Lemma read_clause_lits_eof : forall c lay nv acc ws f,
  wf_lits nv c -> forallb is_space ws = true ->
  (List.length c < f)%nat ->
  read_clause f nv (ws ++ fst (render_lits c lay) ++ tok "0") acc
  = CDone (Some (acc ++ c)) [].
Proof.
  induction c as [|l c IH]; intros lay nv acc ws f Hwf Hws Hf.
  - destruct f as [|f]; [simpl in Hf; lia|].
    cbn [render_lits fst app read_clause].
    change (tok "0") with (print_Zl 0). rewrite read_int_num_eof by assumption.
    change (0 =? 0) with true. cbv iota. cbn [tl]. rewrite app_nil_r. reflexivity.
  - destruct f as [|f]; [simpl in Hf; lia|]. cbn [List.length] in Hf.
    destruct (wf_lits_cons _ _ _ Hwf) as [[Hl0 Hln] Hwf'].
    cbn [render_lits]. destruct (sep1_multi lay) as [Hs1 Hs2].
    destruct (sep1 true lay) as [s l1]. cbn [fst] in Hs1, Hs2.
    specialize (IH l1 nv (acc ++ [l]) s f Hwf' Hs1 ltac:(lia)).
    destruct (render_lits c l1) as [rl l2]. cbn [fst] in *.
    destruct s as [|s0 s]; [congruence|].
    cbn [forallb] in Hs1. apply andb_true_iff in Hs1. destruct Hs1 as [Hs0 Hs1].
    cbn [read_clause]. rewrite <- !app_assoc. cbn [app].
    rewrite read_int_num by assumption.
    replace (l =? 0) with false by (symmetry; apply Z.eqb_neq; exact Hl0).
    replace ((nv <? l) || (nv <? - l)) with false
      by (symmetry; apply orb_false_iff; split; apply Z.ltb_ge; lia).
    cbv iota.
    etransitivity; [exact IH|]. rewrite <- app_assoc. reflexivity.
Qed.

Lemma render_lits_length : forall c lay,
  (2 * List.length c <= List.length (fst (render_lits c lay)))%nat.
Proof.
  induction c as [|l c IH]; intros lay; [simpl; lia|].
  cbn [render_lits]. destruct (sep1_multi lay) as [_ Hs2].
  destruct (sep1 true lay) as [s l1]. specialize (IH l1).
  destruct (render_lits c l1) as [rl l2]. cbn [fst] in *.
  pose proof (print_Zl_nonempty l) as Hp.
  rewrite !app_length. cbn [List.length].
  destruct (print_Zl l); [congruence|]. destruct s; [congruence|]. simpl. lia.
Qed.

Lemma clause_first_char : forall c lay tl0,
  exists b r0, fst (render_lits c lay) ++ tok "0" ++ tl0 = b :: r0 /\ is_numchar b = true.
Proof.
  intros c lay tl0. destruct c as [|l c].
  - cbn [render_lits fst app]. eexists. eexists. split; [reflexivity|reflexivity].
  - cbn [render_lits]. destruct (sep1 true lay) as [s l1].
    destruct (render_lits c l1) as [rl l2]. cbn [fst].
    pose proof (print_Zl_nonempty l) as Hp. pose proof (print_Zl_numchars l) as Hn.
    destruct (print_Zl l) as [|b r]; [congruence|].
    cbn [forallb] in Hn. apply andb_true_iff in Hn. destruct Hn as [Hb _].
    exists b. eexists. split; [reflexivity|exact Hb].
Qed.

(* ------------------------------------------------------------------ *)
(* the outer loop *)

(* With any fuel from some k <= |s| + 1 on, the loop ends with [res]. *)
Definition top_ok (s : bytes) (nv : Z) (cls : cnf) (res : Z * cnf) : Prop :=
  exists k, (k <= S (List.length s))%nat /\
            forall f, (k <= f)%nat -> cnf_top f s nv cls = POk res.

Lemma top_end : forall nv cls, top_ok [] nv cls (nv, cls).
Proof.
  intros nv cls. exists 1%nat. split; [simpl; lia|].
  intros f Hf. destruct f; [lia|]. reflexivity.
Qed.

Lemma top_space : forall b r nv cls res, is_space b = true ->
  top_ok r nv cls res -> top_ok (b :: r) nv cls res.
Proof.
  intros b r nv cls res Hb [k [Hk H]]. exists (S k). split; [simpl; lia|].
  intros f Hf. destruct f as [|f]; [lia|]. cbn [cnf_top]. rewrite Hb. apply H. lia.
Qed.

Lemma top_spaces : forall ws r nv cls res, forallb is_space ws = true ->
  top_ok r nv cls res -> top_ok (ws ++ r) nv cls res.
Proof.
  induction ws as [|b ws IH]; intros r nv cls res Hws H; [exact H|].
  cbn [forallb] in Hws. apply andb_true_iff in Hws. destruct Hws as [H1 H2].
  cbn [app]. apply top_space; [exact H1|]. apply IH; assumption.
Qed.

Lemma skip_comment_cut : forall t r, no_lf t -> skip_comment (t ++ LF :: r) = r.
Proof.
  unfold no_lf. induction t as [|c t IH]; intros r H.
  - reflexivity.
  - cbn [forallb] in H. apply andb_true_iff in H. destruct H as [H1 H2].
    apply negb_true_iff in H1. cbn [app skip_comment]. rewrite H1. apply IH. exact H2.
Qed.

Lemma top_comment : forall t r nv cls res, no_lf t ->
  top_ok r nv cls res -> top_ok ("c"%char :: t ++ LF :: r) nv cls res.
Proof.
  intros t r nv cls res Ht [k [Hk H]]. exists (S k). split.
  - cbn [List.length]. rewrite app_length. cbn [List.length]. lia.
  - intros f Hf. destruct f as [|f]; [lia|]. cbn [cnf_top].
    change (is_space "c") with false. cbv iota. change (Ascii.eqb "c" "c") with true. cbv iota.
    rewrite skip_comment_cut by exact Ht. apply H. lia.
Qed.

Lemma join_lines_cons : forall l crlf r,
  join_lines false ((l, crlf) :: r) = l ++ line_end crlf ++ join_lines false r.
Proof.
  intros l crlf r. cbn [join_lines]. destruct r; [|reflexivity].
  cbn [join_lines]. rewrite app_nil_r. reflexivity.
Qed.

Lemma top_filler : forall fl r nv cls res,
  Forall (fun l => filler_line (tok "c") false false (fst l)) fl ->
  top_ok r nv cls res -> top_ok (join_lines false fl ++ r) nv cls res.
Proof.
  induction fl as [|[l crlf] fl IH]; intros r nv cls res Hf H; [exact H|].
  inversion Hf as [|x y Hl Hr]; subst. cbn [fst] in Hl.
  rewrite join_lines_cons, <- !app_assoc.
  specialize (IH r nv cls res Hr H).
  destruct Hl as [Hb|[ld [t [_ [Hld [Ht ->]]]]]].
  - apply top_spaces; [apply blanks_space; exact Hb|].
    apply top_spaces; [destruct crlf; reflexivity|exact IH].
  - rewrite (Hld eq_refl). cbn [tok list_ascii_of_string app].
    pose proof (clean_no_lf _ (clean_print _ Ht)) as Hn.
    destruct crlf; cbn [line_end app].
    + change (t ++ CR :: LF :: join_lines false fl ++ r)
        with (t ++ [CR] ++ LF :: join_lines false fl ++ r).
      rewrite app_assoc. apply top_comment; [|exact IH].
      apply no_lf_app; [exact Hn|reflexivity].
    + apply top_comment; assumption.
Qed.

Lemma top_clause : forall c lay nv cls res ws rest,
  wf_lits nv c -> ws <> [] -> forallb is_space ws = true ->
  top_ok rest nv (cls ++ [c]) res ->
  top_ok (fst (render_lits c lay) ++ tok "0" ++ ws ++ rest) nv cls res.
Proof.
  intros c lay nv cls res ws rest Hwf Hne Hws H.
  destruct ws as [|sp ws]; [congruence|].
  cbn [forallb] in Hws. apply andb_true_iff in Hws. destruct Hws as [Hsp Hws].
  destruct (top_spaces ws rest nv (cls ++ [c]) res Hws H) as [k [Hk Hrun]].
  pose proof (render_lits_length c lay) as Hlen.
  destruct (clause_first_char c lay ((sp :: ws) ++ rest)) as [b [r0 [Hs Hb]]].
  destruct (numchar_facts b Hb) as [B1 [B2 B3]].
  exists (Nat.max (S k) (S (S (List.length c)))). split.
  - rewrite !app_length. cbn [List.length]. rewrite app_length in Hk.
    change (List.length (tok "0")) with 1%nat. lia.
  - intros f Hf. destruct f as [|f]; [lia|].
    assert (Hstep : cnf_top (S f) (fst (render_lits c lay) ++ tok "0" ++ (sp :: ws) ++ rest) nv cls
                    = match read_clause f nv (fst (render_lits c lay) ++ tok "0" ++ (sp :: ws) ++ rest) [] with
                      | CDone oc rest' =>
                        cnf_top f rest' nv (match oc with Some c' => cls ++ [c'] | None => cls end)
                      | CErr => PErr
                      | CFuel => PFuel
                      end).
    { rewrite Hs. cbn [cnf_top]. rewrite B1, B2, B3. reflexivity. }
    rewrite Hstep. cbn [app].
    pose proof (read_clause_lits c lay nv [] [] sp (ws ++ rest) f Hwf eq_refl Hsp ltac:(lia)) as Hrc.
    cbn [app] in Hrc. rewrite Hrc. apply Hrun. lia.
Qed.

Lemma top_clause_eof : forall c lay nv cls,
  wf_lits nv c ->
  top_ok (fst (render_lits c lay) ++ tok "0") nv cls (nv, cls ++ [c]).
Proof.
  intros c lay nv cls Hwf.
  pose proof (render_lits_length c lay) as Hlen.
  destruct (clause_first_char c lay []) as [b [r0 [Hs Hb]]]. rewrite app_nil_r in Hs.
  destruct (numchar_facts b Hb) as [B1 [B2 B3]].
  exists (S (S (List.length c))). split.
  - rewrite app_length. change (List.length (tok "0")) with 1%nat. lia.
  - intros f Hf. destruct f as [|f]; [lia|].
    assert (Hstep : cnf_top (S f) (fst (render_lits c lay) ++ tok "0") nv cls
                    = match read_clause f nv (fst (render_lits c lay) ++ tok "0") [] with
                      | CDone oc rest' =>
                        cnf_top f rest' nv (match oc with Some c' => cls ++ [c'] | None => cls end)
                      | CErr => PErr
                      | CFuel => PFuel
                      end).
    { rewrite Hs. cbn [cnf_top]. rewrite B1, B2, B3. reflexivity. }
    rewrite Hstep.
    pose proof (read_clause_lits_eof c lay nv [] [] f Hwf eq_refl ltac:(lia)) as Hrc.
    cbn [app] in Hrc. rewrite Hrc.
    destruct f as [|f]; [simpl in Hf; lia|]. reflexivity.
Qed.

(* ------------------------------------------------------------------ *)
(* the header *)

Lemma read_line_cut : forall l rest, no_lf l ->
  read_line (l ++ LF :: rest) = Some (l ++ [LF], rest).
Proof.
  unfold no_lf. induction l as [|c l IH]; intros rest H.
  - reflexivity.
  - cbn [forallb] in H. apply andb_true_iff in H. destruct H as [H1 H2].
    apply negb_true_iff in H1. cbn [app read_line]. rewrite H1, IH by exact H2. reflexivity.
Qed.

Lemma in_removelast : forall (A : Type) (l : list A) x, In x (removelast l) -> In x l.
Proof.
  induction l as [|a l IH]; intros x H; [exact H|].
  destruct l as [|b l]; [destruct H|]. cbn [removelast] in H.
  destruct H as [H|H]; [left; exact H|right; apply IH; exact H].
Qed.

(* the shape of a header line: tokens separated by blanks *)
Lemma render_header_shape : forall kind nums lay,
  nums <> [] -> gtok (tok kind) ->
  exists ps e,
    fst (render_header kind nums lay) = flat ps ++ print_Zl (last nums 0) ++ e /\
    good_pairs ps /\
    map fst ps = [tok "p"; tok kind] ++ removelast (map print_Zl nums) /\
    forallb is_blank e = true /\ clean (flat ps).
Proof.
  intros kind nums lay Hne Hk. unfold render_header.
  assert (H1 : Forall gtok [tok "p"; tok kind]).
  { constructor; [split; [discriminate|reflexivity]|constructor; [exact Hk|constructor]]. }
  destruct (spaced_toks_spec [tok "p"; tok kind] lay H1) as [A1 A2].
  pose proof (spaced_toks_blank [tok "p"; tok kind] lay) as A3.
  destruct (spaced_toks [tok "p"; tok kind] lay) as [ps l1]. cbn [fst] in *.
  assert (H2 : Forall gtok (removelast (map print_Zl nums))).
  { apply Forall_forall. intros t Ht. apply in_removelast in Ht. apply in_map_iff in Ht.
    destruct Ht as [z [<- _]]. apply gtok_print_Zl. }
  destruct (spaced_toks_spec _ l1 H2) as [B1 B2].
  pose proof (spaced_toks_blank (removelast (map print_Zl nums)) l1) as B3.
  destruct (spaced_toks (removelast (map print_Zl nums)) l1) as [qs l2]. cbn [fst] in *.
  pose proof (sep0_inline l2) as C. destruct (sep0 l2) as [e l3]. cbn [fst] in *.
  exists (ps ++ qs), e. repeat split.
  - rewrite flat_app, <- !app_assoc. reflexivity.
  - apply good_pairs_app; assumption.
  - rewrite map_app. f_equal; assumption.
  - exact C.
  - apply good_pairs_clean; [apply good_pairs_app; assumption|].
    apply Forall_app. split; assumption.
Qed.

Lemma last_map_print : forall nums, nums <> [] ->
  map print_Zl nums = removelast (map print_Zl nums) ++ [print_Zl (last nums 0)].
Proof.
  induction nums as [|a l IH]; intros Hne; [congruence|].
  destruct l as [|b l]; [reflexivity|].
  cbn [map removelast last app] in *. f_equal. apply IH. discriminate.
Qed.

(* fields of the header line with its end of line *)
Lemma header_fields : forall kind nums lay tail,
  nums <> [] -> gtok (tok kind) -> forallb is_fspace tail = true ->
  fields (fst (render_header kind nums lay) ++ tail)
  = [tok "p"; tok kind] ++ map print_Zl nums.
Proof.
  intros kind nums lay tail Hne Hk Ht.
  destruct (render_header_shape kind nums lay Hne Hk) as [ps [e [E [G [M [B _]]]]]].
  rewrite E, <- !app_assoc, fields_flat by exact G.
  rewrite fields_tok_trail.
  - rewrite M, <- app_assoc. rewrite <- last_map_print by exact Hne. reflexivity.
  - apply gtok_print_Zl.
  - rewrite forallb_app, (blanks_fspace e B), Ht. reflexivity.
Qed.

Lemma header_clean : forall kind nums lay,
  nums <> [] -> gtok (tok kind) -> clean (fst (render_header kind nums lay)).
Proof.
  intros kind nums lay Hne Hk.
  destruct (render_header_shape kind nums lay Hne Hk) as [ps [e [E [G [M [B C]]]]]].
  rewrite E. apply clean_app; [exact C|]. apply clean_app.
  - apply clean_graph. apply gtok_print_Zl.
  - apply clean_blanks. exact B.
Qed.

Lemma header_starts_p : forall kind nums lay, exists hb,
  fst (render_header kind nums lay) = "p"%char :: hb.
Proof.
  intros kind nums lay. unfold render_header. cbn [spaced_toks].
  destruct (sep1 false lay) as [s1 l1]. destruct (sep1 false l1) as [s2 l2].
  destruct (spaced_toks (removelast (map print_Zl nums)) l2) as [qs l3].
  destruct (sep0 l3) as [e l4]. cbn [fst flat map List.concat app tok list_ascii_of_string].
  eexists. reflexivity.
Qed.

Lemma gtok_cnf : gtok (tok "cnf").
Proof. split; [discriminate|reflexivity]. Qed.

Lemma top_header : forall lay n m crlf rest cls0 res,
  0 <= n -> 0 <= m ->
  top_ok rest n [] res ->
  top_ok (fst (render_header "cnf" [n; m] lay) ++ line_end crlf ++ rest) 0 cls0 res.
Proof.
  intros lay n m crlf rest cls0 res Hn Hm [k [Hk H]].
  destruct (header_starts_p "cnf" [n; m] lay) as [hb Ehb].
  pose proof (header_clean "cnf" [n; m] lay ltac:(discriminate) gtok_cnf) as Hc.
  assert (Hf : forall tail, forallb is_fspace tail = true ->
                fields (hb ++ tail) = [tok "cnf"; print_Zl n; print_Zl m]).
  { intros tail Ht.
    pose proof (header_fields "cnf" [n; m] lay tail ltac:(discriminate) gtok_cnf Ht) as HF.
    rewrite Ehb in HF. cbn [app] in HF.
    (* fields ("p" :: hb ++ tail): 'p' is followed by a blank *)
    destruct (render_header_shape "cnf" [n; m] lay ltac:(discriminate) gtok_cnf)
      as [ps [e [E [G [M _]]]]].
    rewrite Ehb in E.
    destruct ps as [|[t0 s0] ps]; [discriminate|].
    cbn [map fst app] in M. injection M as Mt Mr. subst t0.
    inversion G as [|x y [_ [Hs0 Hs0b]] G']; subst. cbn [snd] in *.
    unfold flat in E. cbn [map List.concat fst snd tok list_ascii_of_string app] in E.
    injection E as E. destruct s0 as [|b0 s0]; [congruence|].
    cbn [forallb] in Hs0b. apply andb_true_iff in Hs0b. destruct Hs0b as [Hb0 _].
    rewrite E in HF |- *. cbn [app] in HF |- *.
    rewrite fields_cons2 in HF. change (is_fspace "p") with false in HF. rewrite Hb0 in HF.
    cbv iota in HF. injection HF as HF. exact HF. }
  assert (Hhb : clean hb).
  { rewrite Ehb in Hc. unfold clean in *. cbn [forallb] in Hc.
    apply andb_true_iff in Hc. tauto. }
  exists (S k). split.
  - rewrite Ehb. cbn [List.length app]. rewrite !app_length.
    destruct crlf; cbn [line_end List.length]; lia.
  - intros f Hfu. destruct f as [|f]; [lia|]. rewrite Ehb. cbn [app cnf_top].
    change (is_space "p") with false. cbv iota. change (Ascii.eqb "p" "c") with false.
    cbv iota. change (Ascii.eqb "p" "p") with true. cbv iota.
    assert (Hph : parse_header (hb ++ line_end crlf ++ rest) = POk (n, m, rest)).
    { unfold parse_header. destruct crlf; cbn [line_end app].
      - change (hb ++ CR :: LF :: rest) with (hb ++ [CR] ++ LF :: rest).
        rewrite app_assoc, read_line_cut
          by (apply no_lf_app; [apply clean_no_lf; exact Hhb|reflexivity]).
        rewrite <- app_assoc. rewrite Hf by reflexivity.
        rewrite !atoi_print_Zl. reflexivity.
      - rewrite read_line_cut by (apply clean_no_lf; exact Hhb).
        rewrite Hf by reflexivity. rewrite !atoi_print_Zl. reflexivity. }
    rewrite Hph.
    replace ((n <? 0) || (m <? 0)) with false
      by (symmetry; apply orb_false_iff; split; apply Z.ltb_ge; lia).
    apply H. lia.
Qed.

Lemma read_line_none : forall l, no_lf l -> read_line l = None.
Proof.
  unfold no_lf. induction l as [|c l IH]; intros H; [reflexivity|].
  cbn [forallb] in H. apply andb_true_iff in H. destruct H as [H1 H2].
  apply negb_true_iff in H1. cbn [read_line]. rewrite H1, IH by exact H2. reflexivity.
Qed.

(* the header is the last line of the file and has no end of line *)
Lemma top_header_eof : forall lay n m cls0,
  0 <= n -> 0 <= m ->
  top_ok (fst (render_header "cnf" [n; m] lay)) 0 cls0 (n, []).
Proof.
  intros lay n m cls0 Hn Hm.
  destruct (header_starts_p "cnf" [n; m] lay) as [hb Ehb].
  pose proof (header_clean "cnf" [n; m] lay ltac:(discriminate) gtok_cnf) as Hc.
  pose proof (header_fields "cnf" [n; m] lay [] ltac:(discriminate) gtok_cnf eq_refl) as HF.
  rewrite app_nil_r in HF.
  destruct (render_header_shape "cnf" [n; m] lay ltac:(discriminate) gtok_cnf)
    as [ps [e [E [G [M _]]]]].
  rewrite Ehb in *.
  destruct ps as [|[t0 s0] ps]; [discriminate|].
  cbn [map fst app] in M. injection M as Mt Mr. subst t0.
  inversion G as [|x y [_ [Hs0 Hs0b]] G']; subst. cbn [snd] in *.
  unfold flat in E. cbn [map List.concat fst snd tok list_ascii_of_string app] in E.
  injection E as E. destruct s0 as [|b0 s0]; [congruence|].
  cbn [forallb] in Hs0b. apply andb_true_iff in Hs0b. destruct Hs0b as [Hb0 _].
  assert (Hf : fields hb = [tok "cnf"; print_Zl n; print_Zl m]).
  { rewrite E in HF |- *. cbn [app] in HF |- *.
    rewrite fields_cons2 in HF. change (is_fspace "p") with false in HF. rewrite Hb0 in HF.
    cbv iota in HF. injection HF as HF. exact HF. }
  assert (Hhb : clean hb).
  { unfold clean in *. cbn [forallb] in Hc. apply andb_true_iff in Hc. tauto. }
  exists 2%nat. split; [cbn [List.length]; lia|].
  intros f Hfu. destruct f as [|[|f]]; [lia|lia|]. cbn [cnf_top].
  change (is_space "p") with false. cbv iota. change (Ascii.eqb "p" "c") with false.
  cbv iota. change (Ascii.eqb "p" "p") with true. cbv iota.
  assert (Hph : parse_header hb = POk (n, m, [])).
  { unfold parse_header. rewrite read_line_none by (apply clean_no_lf; exact Hhb).
    destruct hb as [|h0 hb']; [discriminate E|].
    rewrite Hf, !atoi_print_Zl. reflexivity. }
  rewrite Hph.
  replace ((n <? 0) || (m <? 0)) with false
    by (symmetry; apply orb_false_iff; split; apply Z.ltb_ge; lia).
  reflexivity.
Qed.

(* ------------------------------------------------------------------ *)
(* C13 for solver.ParseCNF *)

Lemma render_clauses_ok : forall F bol lay nv cls,
  (forall c, In c F -> wf_lits nv c) ->
  top_ok (render_clauses F bol lay) nv cls (nv, cls ++ F).
Proof.
  induction F as [|c F IH]; intros bol lay nv cls Hwf.
  - cbn [render_clauses]. rewrite app_nil_r. destruct bol; [|apply top_end].
    pose proof (gen_filler_spec (tok "c") false false lay) as Hfl.
    destruct (gen_filler (tok "c") false false lay) as [fl l1]. cbn [fst] in Hfl.
    rewrite <- (app_nil_r (join_lines false fl)). apply top_filler; [exact Hfl|apply top_end].
  - assert (Hc : wf_lits nv c) by (apply Hwf; left; reflexivity).
    assert (HF : forall c', In c' F -> wf_lits nv c') by (intros c' H'; apply Hwf; right; exact H').
    cbn [render_clauses].
    assert (Hfl : Forall (fun l => filler_line (tok "c") false false (fst l))
                         (fst (if bol then gen_filler (tok "c") false false lay else ([], lay)))).
    { destruct bol; [apply gen_filler_spec|constructor]. }
    destruct (if bol then gen_filler (tok "c") false false lay else ([], lay)) as [fl l1].
    cbn [fst] in Hfl.
    pose proof (sep0_inline l1) as Hlead. destruct (sep0 l1) as [lead l2]. cbn [fst] in Hlead.
    destruct (render_lits c l2) as [ls l3] eqn:Els.
    assert (Hrl : ls = fst (render_lits c l2)) by (rewrite Els; reflexivity).
    destruct (next l3) as [k l4].
    replace (cls ++ c :: F) with ((cls ++ [c]) ++ F) by (rewrite <- app_assoc; reflexivity).
    destruct (Nat.eqb (Nat.modulo k 4) 2).
    + pose proof (sep1_inline l4) as [Hs1 Hs2]. destruct (sep1 false l4) as [s l5].
      cbn [fst] in Hs1, Hs2. rewrite <- ?app_assoc.
      apply top_filler; [exact Hfl|]. apply top_spaces; [apply blanks_space; exact Hlead|].
      rewrite Hrl. apply top_clause; [exact Hc|exact Hs2|apply blanks_space; exact Hs1|].
      rewrite (app_assoc cls [c] F). apply IH. exact HF.
    + destruct (Nat.eqb (Nat.modulo k 4) 3 && match F with [] => true | _ :: _ => false end)
        eqn:Elast.
      * apply andb_true_iff in Elast. destruct Elast as [_ EF].
        destruct F; [|discriminate]. rewrite app_nil_r. rewrite <- ?app_assoc.
        apply top_filler; [exact Hfl|]. apply top_spaces; [apply blanks_space; exact Hlead|].
        rewrite Hrl. apply top_clause_eof. exact Hc.
      * pose proof (sep0_inline l4) as Hs. destruct (sep0 l4) as [s l5]. cbn [fst] in Hs.
        destruct (next l5) as [e l6]. rewrite <- ?app_assoc.
        apply top_filler; [exact Hfl|]. apply top_spaces; [apply blanks_space; exact Hlead|].
        rewrite Hrl. rewrite (app_assoc s).
        apply top_clause; [exact Hc| | |].
        -- destruct s; destruct (Nat.odd e); discriminate.
        -- rewrite forallb_app, (blanks_space s Hs). destruct (Nat.odd e); reflexivity.
        -- rewrite (app_assoc cls [c] F). apply IH. exact HF.
Qed.

Lemma render_dimacs_top_ok : forall lay n F, wf_dimacs n F ->
  top_ok (render_dimacs_b lay n F) 0 [] (n, F).
Proof.
  intros lay n F [Hn Hwf]. unfold render_dimacs_b.
  pose proof (gen_filler_spec (tok "c") false false lay) as Hfl.
  destruct (gen_filler (tok "c") false false lay) as [fl l1]. cbn [fst] in Hfl.
  destruct (render_header "cnf" [n; Z.of_nat (List.length F)] l1) as [h l2] eqn:Eh.
  assert (Hh : h = fst (render_header "cnf" [n; Z.of_nat (List.length F)] l1))
    by (rewrite Eh; reflexivity).
  destruct (next l2) as [e l3]. destruct (next l3) as [o l4].
  assert (Hfull : top_ok (join_lines false fl ++ h ++ line_end (Nat.odd e)
                          ++ render_clauses F true l4) 0 [] (n, F)).
  { apply top_filler; [exact Hfl|]. rewrite Hh.
    apply top_header; [exact Hn|lia|].
    apply (render_clauses_ok F true l4 n []). exact Hwf. }
  destruct F as [|c F]; [|exact Hfull].
  destruct (Nat.odd o); [|exact Hfull].
  rewrite <- (app_nil_r h).
  apply top_filler; [exact Hfl|]. rewrite app_nil_r, Hh.
  apply top_header_eof; [exact Hn|simpl; lia].
Qed.

Theorem C13_dimacs_b : forall lay n F, wf_dimacs n F ->
  parse_dimacs_r (render_dimacs_b lay n F) = POk (n, F).
Proof.
  intros lay n F Hwf. destruct (render_dimacs_top_ok lay n F Hwf) as [k [Hk H]].
  unfold parse_dimacs_r. apply H. lia.
Qed.

Theorem C13_dimacs : forall lay n F, wf_dimacs n F ->
  parse_dimacs (render_dimacs lay n F) = Some (n, F).
Proof.
  intros lay n F H. unfold parse_dimacs, render_dimacs.
  rewrite list_ascii_of_string_of_list_ascii, C13_dimacs_b by exact H. reflexivity.
Qed.

(* the result does not depend on the fuel, from |text| + 1 on *)
Theorem C13_dimacs_fuel : forall lay n F, wf_dimacs n F ->
  forall f, (S (List.length (render_dimacs_b lay n F)) <= f)%nat ->
  cnf_top f (render_dimacs_b lay n F) 0 [] = POk (n, F).
Proof.
  intros lay n F Hwf f Hf. destruct (render_dimacs_top_ok lay n F Hwf) as [k [Hk H]].
  apply H. lia.
Qed.

(* ------------------------------------------------------------------ *)
(* C18: Problem.CNF() *)

Lemma render_lits_nil : forall c,
  render_lits c [] = (List.concat (map (fun l => print_Zl l ++ [SP]) c), []).
Proof.
  induction c as [|l c IH]; [reflexivity|].
  cbn [render_lits]. change (sep1 true []) with ([SP], @nil nat). cbv beta iota zeta.
  rewrite IH. cbn [map List.concat]. rewrite <- app_assoc. reflexivity.
Qed.

Lemma render_clauses_nil : forall F,
  render_clauses F true [] = List.concat (map (fun c => clause_cnf c ++ [LF]) F).
Proof.
  induction F as [|c F IH]; [reflexivity|].
  cbn [render_clauses].
  change (gen_filler (tok "c") false false []) with (@nil tline, @nil nat). cbv beta iota zeta.
  change (sep0 []) with (@nil ascii, @nil nat). cbv beta iota zeta.
  rewrite render_lits_nil.
  change (next []) with (O, @nil nat). cbv beta iota zeta.
  change (Nat.eqb (Nat.modulo 0 4) 2) with false.
  change (Nat.eqb (Nat.modulo 0 4) 3) with false. cbv beta iota zeta. cbn [andb].
  change (sep0 []) with (@nil ascii, @nil nat). cbv beta iota zeta.
  change (next []) with (O, @nil nat). cbv beta iota zeta.
  rewrite IH. cbn [join_lines app map List.concat Nat.odd line_end].
  unfold clause_cnf. rewrite <- !app_assoc. reflexivity.
Qed.

Lemma print_cnf_render : forall n units cls,
  print_cnf_b (n, false, units, cls) = render_dimacs_b [] n (map (fun u => [u]) units ++ cls).
Proof.
  intros n units cls.
  assert (Hu : List.concat (map (fun u => print_Zl u ++ tok " 0" ++ [LF]) units)
               = List.concat (map (fun x : lit => clause_cnf [x] ++ [LF]) units)).
  { induction units as [|u units IHu]; [reflexivity|].
    cbn [map List.concat]. rewrite IHu. unfold clause_cnf.
    cbn [map List.concat tok list_ascii_of_string app]. rewrite <- !app_assoc. reflexivity. }
  unfold render_dimacs_b, print_cnf_b. rewrite Hu.
  change (gen_filler (tok "c") false false []) with (@nil tline, @nil nat).
  cbv beta iota zeta. unfold render_header. cbn [spaced_toks map removelast last].
  repeat (progress (change (sep1 false []) with ([SP], @nil nat); cbv beta iota zeta)).
  change (sep0 []) with (@nil ascii, @nil nat). cbv beta iota zeta.
  repeat (progress (change (next []) with (O, @nil nat); cbv beta iota zeta)).
  change (Nat.odd 0) with false. cbv iota.
  match goal with
  | |- _ = match ?F with [] => ?B | _ :: _ => ?B' end =>
    transitivity B; [|destruct F; reflexivity]
  end.
  rewrite render_clauses_nil.
  rewrite app_length, map_length, Nat2Z.inj_add, (Z.add_comm (Z.of_nat (List.length units))).
  rewrite map_app, concat_app, map_map.
  unfold flat. cbn [map List.concat fst snd join_lines line_end app].
  rewrite <- !app_assoc. reflexivity.
Qed.

(* a trivially UNSAT problem: the single empty clause *)
Lemma print_cnf_unsat : forall n units cls,
  print_cnf_b (n, true, units, cls) = print_cnf_b (n, false, [], [[]]).
Proof. intros n units cls. reflexivity. Qed.

(* P = (NbVars, Status == Unsat, Units, Clauses) as solver.Problem holds them *)
Definition wf_cnf_problem (P : Z * bool * list lit * cnf) : Prop :=
  let '(n, unsat, units, cls) := P in
  0 <= n /\
  (unsat = false ->
   (forall u, In u units -> u <> 0 /\ Z.abs u <= n) /\ (forall c, In c cls -> wf_lits n c)).

(* the clauses that are read back *)
Definition cnf_problem_clauses (unsat : bool) (units : list lit) (cls : cnf) : cnf :=
  if unsat then [[]] else map (fun u => [u]) units ++ cls.

Theorem C18_cnf_b : forall n unsat units cls, wf_cnf_problem (n, unsat, units, cls) ->
  parse_dimacs_r (print_cnf_b (n, unsat, units, cls))
  = POk (n, cnf_problem_clauses unsat units cls).
Proof.
  intros n unsat units cls [Hn H]. destruct unsat.
  - rewrite print_cnf_unsat, print_cnf_render. apply C13_dimacs_b.
    split; [exact Hn|]. intros c [<-|[]] l [].
  - destruct (H eq_refl) as [Hu Hc]. rewrite print_cnf_render. apply C13_dimacs_b.
    split; [exact Hn|]. intros c Hin. apply in_app_or in Hin. destruct Hin as [Hin|Hin].
    + apply in_map_iff in Hin. destruct Hin as [u [<- Hin]]. intros l [<-|[]]. apply Hu. exact Hin.
    + apply Hc. exact Hin.
Qed.

Theorem C18_cnf : forall n unsat units cls, wf_cnf_problem (n, unsat, units, cls) ->
  parse_dimacs (print_cnf (n, unsat, units, cls))
  = Some (n, cnf_problem_clauses unsat units cls).
Proof.
  intros n unsat units cls H. unfold parse_dimacs, print_cnf.
  rewrite list_ascii_of_string_of_list_ascii, C18_cnf_b by exact H. reflexivity.
Qed.

(* same models: none for a trivially UNSAT problem, otherwise those of the
   units and of the clauses *)
Lemma sat_cnf_problem_clauses : forall m unsat units cls,
  sat_cnf m (cnf_problem_clauses unsat units cls)
  = negb unsat && (forallb (lit_val m) units && sat_cnf m cls).
Proof.
  intros m unsat units cls. destruct unsat; [reflexivity|].
  unfold cnf_problem_clauses, sat_cnf. rewrite forallb_app. cbn [negb andb]. f_equal.
  induction units as [|u r IH]; [reflexivity|]. cbn [map forallb]. rewrite IH.
  unfold sat_clause. cbn [existsb]. rewrite orb_false_r. reflexivity.
Qed.

Theorem C18_cnf_models : forall n unsat units cls, wf_cnf_problem (n, unsat, units, cls) ->
  exists F', parse_dimacs (print_cnf (n, unsat, units, cls)) = Some (n, F') /\
             forall m, sat_cnf m F' = negb unsat && (forallb (lit_val m) units && sat_cnf m cls).
Proof.
  intros n unsat units cls H. eexists. split; [apply C18_cnf; exact H|].
  intros m. apply sat_cnf_problem_clauses.
Qed.
