(* Text formats: the theorems behind Properties/C13.v and Properties/C18.v
   (re-exported from Proofs/Text{Num,Lex,Dimacs,Opb,CnfLines}.v), the fuel of
   the DIMACS byte machine, and the FINDINGS: well-formed texts that the Go
   readers reject or misread, and Go-printed texts that the Go readers reject.

   Every [finding_*] below is a closed computation on the mirror of
   Model/Text.v; each one was replayed against the real Go functions
   (solver.ParseCNF, solver.ParseOPB, maxsat.ParseWCNF, explain.ParseCNF,
   Problem.PBString, Solver.PBString) with the same outcome.  The [fixed_*]
   examples are former findings that have been fixed in /repo. *)
From Coq Require Import List ZArith Bool NArith String Ascii Lia Arith.
From GS Require Import Spec.Base Spec.PB Spec.Solver Model.Text Model.TextPrint.
From GS Require Export Proofs.TextNum Proofs.TextLex Proofs.TextDimacs Proofs.TextOpb
  Proofs.TextCnfLines.
Import ListNotations.
Open Scope Z_scope.

(* ------------------------------------------------------------------ *)
(* The fuel |text| + 2 of [parse_dimacs_r] is always enough: the byte
   machine never answers PFuel, whatever the text.  (|text| + 1 is enough for
   every rendered text: C13_dimacs_fuel.)                              *)

Lemma skip_spaces_length : forall s, (List.length (skip_spaces s) <= List.length s)%nat.
Proof.
  induction s as [|c r IH]; [simpl; lia|]. cbn [skip_spaces].
  destruct (is_space c); simpl; lia.
Qed.

(* what is left after an integer: strictly shorter, or the blank that stands
   for EOF *)
Definition after_int (s rest : bytes) : Prop :=
  (rest <> [] /\ (List.length rest < List.length s)%nat) \/ (rest = [SP] /\ s <> []).

Lemma read_int_digits_shorter : forall s neg res v rest,
  read_int_digits neg res s = RInt v rest -> after_int s rest.
Proof.
  induction s as [|b r IH]; intros neg res v rest H; [discriminate|].
  cbn [read_int_digits] in H. destruct (digit_of b) as [d|]; [|discriminate].
  destruct r as [|b' r'].
  - injection H as _ <-. right. split; [reflexivity|discriminate].
  - destruct (is_space b').
    + injection H as _ <-. left. split; [discriminate|simpl; lia].
    + apply IH in H. destruct H as [[H1 H2]|[H1 H2]].
      * left. split; [exact H1|simpl in *; lia].
      * right. split; [exact H1|discriminate].
Qed.

Lemma read_int_shorter : forall s v rest, read_int s = RInt v rest -> after_int s rest.
Proof.
  intros s v rest H. unfold read_int in H. pose proof (skip_spaces_length s) as Hl.
  destruct (skip_spaces s) as [|b r] eqn:E; [discriminate|].
  assert (Hs : s <> []) by (intro; subst s; discriminate).
  destruct (Ascii.eqb b "-").
  - destruct r as [|b2 r2]; [discriminate|].
    apply read_int_digits_shorter in H. destruct H as [[H1 H2]|[H1 H2]].
    + left. split; [exact H1|simpl in *; lia].
    + right. split; [exact H1|exact Hs].
  - apply read_int_digits_shorter in H. destruct H as [[H1 H2]|[H1 H2]].
    + left. split; [exact H1|simpl in *; lia].
    + right. split; [exact H1|exact Hs].
Qed.

Lemma read_clause_fuel : forall f nv s lits,
  (List.length s < f)%nat ->
  read_clause f nv s lits <> CFuel /\
  forall oc rest, read_clause f nv s lits = CDone oc rest ->
                  (List.length rest < List.length s)%nat \/ rest = [].
Proof.
  induction f as [|f IH]; intros nv s lits Hf; [lia|].
  cbn [read_clause]. destruct (read_int s) as [v rest|  |] eqn:E.
  - apply read_int_shorter in E. destruct E as [[E1 E2]|[E1 E2]].
    + destruct (v =? 0).
      * split; [discriminate|]. intros oc rest' H. injection H as _ <-.
        left. destruct rest; [congruence|]. simpl in *. lia.
      * destruct ((nv <? v) || (nv <? - v)).
        -- split; [discriminate|]. intros oc rest' H. discriminate.
        -- destruct (IH nv rest (lits ++ [v]) ltac:(lia)) as [I1 I2]. split; [exact I1|].
           intros oc rest' H. destruct (I2 oc rest' H) as [I|I]; [left; lia|right; exact I].
    + subst rest. destruct (v =? 0).
      * split; [discriminate|]. intros oc rest' H. injection H as _ <-. right. reflexivity.
      * destruct ((nv <? v) || (nv <? - v)).
        -- split; [discriminate|]. intros oc rest' H. discriminate.
        -- destruct f as [|f]; [destruct s; [congruence|simpl in Hf; lia]|].
           cbn [read_clause]. change (read_int [SP]) with REof.
           split; [discriminate|]. intros oc rest' H. injection H as _ <-. right. reflexivity.
  - split; [discriminate|]. intros oc rest' H. injection H as _ <-. right. reflexivity.
  - split; [discriminate|]. intros oc rest' H. discriminate.
Qed.

Lemma skip_comment_length : forall s, (List.length (skip_comment s) <= List.length s)%nat.
Proof.
  induction s as [|c r IH]; [simpl; lia|]. cbn [skip_comment].
  destruct (Ascii.eqb c LF); simpl; lia.
Qed.

Lemma read_line_shorter : forall s l rest,
  read_line s = Some (l, rest) -> (List.length rest < List.length s)%nat.
Proof.
  induction s as [|c r IH]; intros l rest H; [discriminate|].
  cbn [read_line] in H. destruct (Ascii.eqb c LF).
  - injection H as _ <-. simpl. lia.
  - destruct (read_line r) as [[l' rest']|] eqn:E; [|discriminate].
    injection H as _ <-. specialize (IH l' rest' eq_refl). simpl. lia.
Qed.

Lemma parse_header_shorter : forall s nv nc rest,
  parse_header s = POk (nv, nc, rest) -> (List.length rest <= List.length s)%nat.
Proof.
  intros s nv nc rest H. unfold parse_header in H.
  destruct (read_line s) as [[l r]|] eqn:E.
  - apply read_line_shorter in E.
    destruct (fields l) as [|f0 [|f1 [|f2 fr]]]; try discriminate.
    destruct (atoi f1); [|discriminate]. destruct (atoi f2); [|discriminate].
    injection H as _ _ <-. lia.
  - destruct s as [|c s']; [discriminate|].
    destruct (fields (c :: s')) as [|f0 [|f1 [|f2 fr]]]; try discriminate.
    destruct (atoi f1); [|discriminate]. destruct (atoi f2); [|discriminate].
    injection H as _ _ <-. simpl. lia.
Qed.

Lemma cnf_top_fuel : forall f s nv cls,
  (List.length s + 1 < f)%nat -> cnf_top f s nv cls <> PFuel.
Proof.
  induction f as [|f IH]; intros s nv cls Hf; [lia|].
  cbn [cnf_top]. destruct s as [|b r]; [discriminate|].
  cbn [List.length] in Hf.
  destruct (is_space b); [apply IH; lia|].
  destruct (Ascii.eqb b "c").
  { apply IH. pose proof (skip_comment_length r). lia. }
  destruct (Ascii.eqb b "p").
  { destruct (parse_header r) as [[[n1 n2] rest]| | |] eqn:E.
    - apply parse_header_shorter in E. cbv beta iota.
      destruct ((n1 <? 0) || (n2 <? 0)); [discriminate|]. apply IH. lia.
    - discriminate.
    - discriminate.
    - exfalso. unfold parse_header in E.
      repeat match type of E with
             | context [match ?X with _ => _ end] => destruct X
             end; discriminate E. }
  destruct (read_clause_fuel f nv (b :: r) [] ltac:(simpl; lia)) as [H1 H2].
  destruct (read_clause f nv (b :: r) []) as [oc rest| |] eqn:E; [|discriminate|congruence].
  destruct (H2 oc rest eq_refl) as [H|H].
  - cbn [List.length] in H. apply IH. lia.
  - subst rest. apply IH. simpl. lia.
Qed.

Theorem parse_dimacs_never_out_of_fuel : forall s, parse_dimacs_r s <> PFuel.
Proof. intros s. unfold parse_dimacs_r. apply cnf_top_fuel. lia. Qed.

(* ------------------------------------------------------------------ *)
(* FINDINGS about the readers (C13).  D1, D2, O3 and W1 of the first round
   have been fixed in /repo: they are now positive examples ([fixed_*]) and
   the corresponding layouts are generated by the renderers.          *)

Definition nl : string := String LF EmptyString.
Local Open Scope string_scope.

(* [D1] (fixed in /repo, 0eb765a) DIMACS: a file that ends right after the
   header line, without a final end of line, is read. *)
Example fixed_dimacs_header_without_final_newline :
  parse_dimacs "p cnf 0 0" = Some (0, []) /\ parse_dimacs ("p cnf 0 0" ++ nl) = Some (0, []).
Proof. split; vm_compute; reflexivity. Qed.

(* [D2] (fixed in /repo, 9ad7ae0) DIMACS: the last integer of a file without a
   final end of line is no longer lost: neither a final empty clause "0" nor
   the last literal of an unterminated clause. *)
Example fixed_dimacs_final_empty_clause :
  parse_dimacs ("p cnf 1 1" ++ nl ++ "0") = Some (1, [[]]) /\
  parse_dimacs ("p cnf 1 1" ++ nl ++ "0" ++ nl) = Some (1, [[]]) /\
  parse_dimacs ("p cnf 2 1" ++ nl ++ "1 2") = Some (2, [[1; 2]]).
Proof. repeat split; vm_compute; reflexivity. Qed.

(* [O1] OPB: the grammar of the format (<relational_operator> <zeroOrMoreSpace>
   <integer>) allows ">=2"; ParseOPB takes the operator to be the
   last-but-one blank-separated field (parser_pb.go:164) and rejects it. *)
Example finding_opb_no_blank_after_relation :
  parse_opb ("1 x1 +2 x2 >=2 ;" ++ nl) = None /\
  parse_opb ("1 x1 +2 x2 >= 2 ;" ++ nl) = Some (2, [UC [(1, 1); (2, 2)] Ge 2], None).
Proof. split; vm_compute; reflexivity. Qed.

(* [O2] OPB: "min:" <zeroOrMoreSpace> <sum>: "min:1 x1 ;" is well-formed, but
   ParseOPB only recognises the field "min:" (parser_pb.go:154). *)
Example finding_opb_no_blank_after_min :
  parse_opb ("min:1 x1 ;" ++ nl ++ "1 x1 >= 1 ;" ++ nl) = None.
Proof. vm_compute; reflexivity. Qed.

(* [O3] (fixed in /repo, f60e102) OPB: blanks after the final ';', leading
   blanks and lines made of blanks only are accepted (ParseOPB trims the lines). *)
Example fixed_opb_blanks_around_lines :
  parse_opb ("1 x1 >= 1 ; " ++ nl) = Some (1, [UC [(1, 1)] Ge 1], None) /\
  parse_opb ("  " ++ nl ++ " * c" ++ nl ++ "  1 x1 >= 1 ;" ++ nl)
  = Some (1, [UC [(1, 1)] Ge 1], None).
Proof. split; vm_compute; reflexivity. Qed.

(* [O4] OPB: the declared number of variables ("* #variable= 3") is ignored;
   NbVars is the highest variable that occurs (parser_pb.go:241-243), so the
   models of the parsed problem range over fewer variables than the text says. *)
Example finding_opb_declared_variables_ignored :
  parse_opb ("* #variable= 3 #constraint= 1" ++ nl ++ "1 x1 >= 1 ;" ++ nl)
  = Some (1, [UC [(1, 1)] Ge 1], None).
Proof. vm_compute; reflexivity. Qed.

Local Close Scope string_scope.

(* [O5] [E3] OPB and explain: bufio.Scanner refuses a line of 65536 bytes or
   more (comment lines included): ParseOPB and explain.ParseCNF return an
   error.  [W2] ParseWCNF does not look at scanner.Err(): it silently returns
   the problem made of the lines before the long one. *)
Definition long_comment (c : ascii) : bytes := c :: repeat "a"%char (Z.to_nat 65535).

Example finding_opb_long_line :
  parse_opb_r (long_comment "*" ++ [LF] ++ tok "1 x1 >= 1 ;" ++ [LF]) = PErr.
Proof. vm_compute; reflexivity. Qed.

Example finding_explain_long_line :
  parse_explain_r (tok "c" ++ [LF] ++ long_comment "c" ++ [LF] ++ tok "p cnf 1 1" ++ [LF]
                   ++ tok "1 0" ++ [LF]) = PErr.
Proof. vm_compute; reflexivity. Qed.

Example finding_wcnf_long_line_truncates :
  parse_wcnf_r (tok "p wcnf 1 2" ++ [LF] ++ tok "3 1 0" ++ [LF] ++ long_comment "c" ++ [LF]
                ++ tok "4 -1 0" ++ [LF]) = POk (1, 0, [(3, [1])]).
Proof. vm_compute; reflexivity. Qed.

Local Open Scope string_scope.

(* [W1] (fixed in /repo, 653ea5e) WCNF: a line made of blanks only is skipped. *)
Example fixed_wcnf_blank_line :
  parse_wcnf ("p wcnf 1 1" ++ nl ++ " " ++ nl ++ "1 1 0" ++ nl) = Some (1, 0, [(1, [1])]).
Proof. vm_compute; reflexivity. Qed.

(* [W3] WCNF: the terminating 0 of a clause line is not checked; the last field
   is dropped whatever it is, so a clause written on two lines is silently
   read as two other clauses. *)
Example finding_wcnf_clause_on_two_lines :
  parse_wcnf ("p wcnf 2 1 9" ++ nl ++ "9 1" ++ nl ++ "2 0" ++ nl) = Some (2, 9, [(9, []); (2, [])]).
Proof. vm_compute; reflexivity. Qed.

(* [E1] explain.ParseCNF: a comment line must be "c" followed by a blank; the
   DIMACS comment line "cfoo", which solver.ParseCNF accepts, is rejected. *)
Example finding_explain_comment_without_blank :
  parse_dimacs_explain ("cfoo" ++ nl ++ "p cnf 1 1" ++ nl ++ "1 0" ++ nl) = None /\
  parse_dimacs ("cfoo" ++ nl ++ "p cnf 1 1" ++ nl ++ "1 0" ++ nl) = Some (1, [[1]]).
Proof. split; vm_compute; reflexivity. Qed.

(* [E2] explain.ParseCNF is line based and drops every 0: two clauses on one
   line are silently merged and a clause on two lines is silently split,
   whereas DIMACS (and solver.ParseCNF) end a clause at its 0. *)
Example finding_explain_clauses_sharing_a_line :
  parse_dimacs_explain ("p cnf 2 2" ++ nl ++ "1 2 0 -1 0" ++ nl) = Some (2, 2, [[1; 2; -1]]) /\
  parse_dimacs ("p cnf 2 2" ++ nl ++ "1 2 0 -1 0" ++ nl) = Some (2, [[1; 2]; [-1]]).
Proof. split; vm_compute; reflexivity. Qed.

Example finding_explain_clause_on_two_lines :
  parse_dimacs_explain ("p cnf 2 1" ++ nl ++ "1" ++ nl ++ "2 0" ++ nl) = Some (2, 1, [[1]; [2]]) /\
  parse_dimacs ("p cnf 2 1" ++ nl ++ "1" ++ nl ++ "2 0" ++ nl) = Some (2, [[1; 2]]).
Proof. split; vm_compute; reflexivity. Qed.

Local Close Scope string_scope.

(* ------------------------------------------------------------------ *)
(* C13 refuted where the statement is taken at full strength.          *)

(* "same models over the same variables": the declared number of variables is
   lost ([O4]); what is true is C13_opb with [opb_nbvars]. *)
Theorem C13_opb_declared_nbvars_refuted :
  exists lay n cs cost,
    wf_opb (n, cs, cost) /\
    lines_short (list_ascii_of_string (render_opb lay (n, cs, cost))) /\
    parse_opb (render_opb lay (n, cs, cost)) <> Some (n, cs, cost).
Proof.
  exists [1%nat], 3, [UC [(1, 1)] Ge 1], None. split; [|split].
  - constructor; [|constructor]. split; [left; reflexivity|discriminate].
  - vm_compute. reflexivity.
  - vm_compute. discriminate.
Qed.

(* the hypothesis [lines_short] cannot be dropped ([O5]): a constraint of 12000
   terms makes a line of more than 65536 bytes *)
Definition long_constraint : uc := UC (repeat (1, 1) (Z.to_nat 12000)) Ge 1.

Theorem C13_opb_long_line_refuted :
  exists lay P, wf_opb P /\ parse_opb (render_opb lay P) = None.
Proof.
  exists [], (1, [long_constraint], None). split.
  - constructor; [|constructor]. split; [left; reflexivity|].
    unfold long_constraint. cbn [u_terms]. change (Z.to_nat 12000) with (S (Z.to_nat 11999)).
    discriminate.
  - vm_compute. reflexivity.
Qed.

(* ------------------------------------------------------------------ *)
(* FINDINGS about the printers (C18).                                  *)

(* [P1] (no longer reachable; 3c5e2a5) Problem.PBString writes a constraint
   without literal as " >= 1 ;", which ParseOPB rejects.  A constraint without
   literal only occurs in a problem whose Status is Unsat (ParseCNF / ParseSlice
   / simplify2 / simplifyCard / simplifyPB all set Status = Unsat when they meet
   or produce one), and such a problem is now printed as "1 x1 >= 2 ;".  The
   hypothesis [wf_pb_problem] of C18_opb is therefore met by every problem that
   a parser or constructor builds; this note only records why it is there. *)
Example note_pbstring_constraint_without_literal :
  parse_opb (print_opb (PBProblem 1 false [] [PBC [] 1] None)) = None /\
  parse_opb (print_opb (PBProblem 1 true [] [PBC [] 1] None))
  = Some (1, [contradiction_uc], None).
Proof. split; vm_compute; reflexivity. Qed.

(* [P2] (fixed in /repo, f01370b) Solver.PBString no longer writes a negative
   cost coefficient as "+-2": the text is read back. *)
Example fixed_solver_pbstring_negative_cost :
  parse_opb (print_solver_opb
     (SolverView 2 false [PBC [(1, 1); (1, 2)] 1] [] (Some [(1, 1); (-2, 2)]) [0; 0]))
  = Some (2, [UC [(1, 1); (1, 2)] Ge 1], Some [(1, 1); (-2, 2)]).
Proof. vm_compute; reflexivity. Qed.

(* (fixed in /repo, 3c5e2a5) a trivially UNSAT problem is printed as an
   unsatisfiable text by the three solver printers *)
Example fixed_unsat_status_printed :
  parse_dimacs (print_cnf (3, true, [1; -1], [])) = Some (3, [[]]) /\
  parse_opb (print_opb (PBProblem 3 true [1; -1] [] (Some [(2, 3)])))
  = Some (3, [contradiction_uc], Some [(2, 3)]) /\
  parse_opb (print_solver_opb (SolverView 0 true [] [] None []))
  = Some (1, [contradiction_uc], None).
Proof. repeat split; vm_compute; reflexivity. Qed.

(* [P3] the number of variables is not part of the OPB rendering that the
   reader looks at: variables that no longer occur are lost. *)
Example finding_pbstring_loses_variables :
  parse_opb (print_opb (PBProblem 3 false [1] [] None)) = Some (1, [UC [(1, 1)] Eq 1], None).
Proof. vm_compute; reflexivity. Qed.

(* ------------------------------------------------------------------ *)
(* The meaning of what the OPB printers give back (for C18).           *)

Theorem C18_opb_models : forall P,
  wf_pb_problem P -> lines_short (list_ascii_of_string (print_opb P)) ->
  exists n' cs',
    parse_opb (print_opb P) = Some (n', cs', pp_cost P) /\
    forall m, sat_uproblem m cs'
              = negb (pp_unsat P)
                && (forallb (lit_val m) (pp_units P) && sat_problem m (pp_clauses P)).
Proof.
  intros P Hwf Hs. eexists. eexists. split; [apply C18_opb; assumption|].
  intros m. apply sat_pb_problem_ucs.
Qed.

(* the top-level facts of a solver: variable i+1 is true (level 1) or false
   (level -1) *)
Fixpoint facts_sat (m : list bool) (i : Z) (model : list Z) : bool :=
  match model with
  | [] => true
  | v :: r =>
    (if v =? 1 then var_val m (i + 1)
     else if v =? -1 then negb (var_val m (i + 1))
     else true) && facts_sat m (i + 1) r
  end.

Lemma sat_facts_items : forall m model i, 0 <= i ->
  sat_uproblem m (map item_uc (facts_items i model)) = facts_sat m i model.
Proof.
  intros m. induction model as [|v r IH]; intros i Hi; [reflexivity|].
  cbn [facts_items facts_sat]. unfold sat_uproblem in *. rewrite map_app, forallb_app.
  rewrite IH by lia. f_equal.
  assert (Hl : lit_val m (i + 1) = var_val m (i + 1)).
  { unfold lit_val. replace (0 <? i + 1) with true by (symmetry; apply Z.ltb_lt; lia). reflexivity. }
  destruct (v =? 1).
  - cbn [map forallb]. change (item_uc ([(1, i + 1)], Eq, 1)) with (UC [(1, i + 1)] Eq 1).
    rewrite andb_true_r.
    etransitivity; [exact (sat_fact_uc m (i + 1) 1 (or_intror eq_refl))|exact Hl].
  - destruct (v =? -1); [|reflexivity].
    cbn [map forallb]. change (item_uc ([(1, i + 1)], Eq, 0)) with (UC [(1, i + 1)] Eq 0).
    rewrite andb_true_r.
    etransitivity; [exact (sat_fact_uc m (i + 1) 0 (or_introl eq_refl))|].
    change (0 =? 1) with false. cbv iota. rewrite Hl. reflexivity.
Qed.

Theorem C18_solver_opb_models : forall S,
  wf_solver_view S -> lines_short (list_ascii_of_string (print_solver_opb S)) ->
  exists n' cs',
    parse_opb (print_solver_opb S) = Some (n', cs', sv_cost S) /\
    forall m, sat_uproblem m cs'
              = sat_problem m (sv_orig S ++ sv_learned S)
                && (negb (sv_unsat S) && facts_sat m 0 (sv_model S)).
Proof.
  intros S Hwf Hs. eexists. eexists. split; [apply C18_solver_opb; assumption|].
  intros m. unfold solver_view_ucs, facts_ucs, sat_uproblem. rewrite !forallb_app. f_equal.
  - unfold sat_problem. induction (sv_orig S ++ sv_learned S) as [|c r IH]; [reflexivity|].
    cbn [map forallb]. rewrite sat_pbc_uc, IH. reflexivity.
  - f_equal.
    + destruct (sv_unsat S); [|reflexivity]. cbn [forallb]. rewrite sat_contradiction_uc.
      reflexivity.
    + apply (sat_facts_items m (sv_model S) 0). lia.
Qed.
