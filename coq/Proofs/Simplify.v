(* Proofs about Model/Simplify.v: every front end (parse_slice, parse_card,
   parse_pb) returns, for EVERY fuel, a problem with exactly the models of its
   input; status, NbVars and unit-list facts; sufficient fuel. *)
From Coq Require Import List ZArith Lia Bool Permutation.
From GS Require Import Spec.Base Spec.PB Model.Simplify.
Import ListNotations.
Open Scope Z_scope.

(* ------------------------------------------------------------------ *)
(* Literals                                                             *)

Lemma lit_val_neg : forall m l, l <> 0 -> lit_val m (- l) = negb (lit_val m l).
Proof.
  intros m l Hl. unfold lit_val.
  destruct (0 <? l) eqn:E1; destruct (0 <? - l) eqn:E2;
    try apply Z.ltb_lt in E1; try apply Z.ltb_lt in E2;
    try apply Z.ltb_ge in E1; try apply Z.ltb_ge in E2; try lia.
  - rewrite Z.opp_involutive. reflexivity.
  - rewrite negb_involutive. reflexivity.
Qed.

Lemma lit_val_abs : forall m l, 0 < l -> lit_val m l = var_val m l.
Proof. intros m l H. unfold lit_val. apply Z.ltb_lt in H. rewrite H. reflexivity. Qed.

Lemma lit_val_same_var : forall m l l', l <> 0 -> l' <> 0 -> Z.abs l' = Z.abs l ->
  lit_val m l' = if Bool.eqb (0 <? l') (0 <? l) then lit_val m l else negb (lit_val m l).
Proof.
  intros m l l' H H' E.
  assert (l' = l \/ l' = - l) as [->| ->] by lia.
  - rewrite eqb_reflx. reflexivity.
  - rewrite lit_val_neg by assumption.
    destruct (0 <? - l) eqn:E1; destruct (0 <? l) eqn:E2; simpl; try reflexivity;
      try apply Z.ltb_lt in E1; try apply Z.ltb_lt in E2;
      try apply Z.ltb_ge in E1; try apply Z.ltb_ge in E2; lia.
Qed.

(* ------------------------------------------------------------------ *)
(* swap_head                                                            *)

Lemma swap_head_split : forall A (t : list A),
  exists a b, t = a ++ b /\ swap_head t = b ++ a.
Proof.
  intros A t. destruct t as [|x t].
  - exists [], []. split; reflexivity.
  - exists (removelast (x :: t)), [last (x :: t) x]. split.
    + apply app_removelast_last. discriminate.
    + reflexivity.
Qed.

Lemma swap_head_in : forall A (t : list A) x, In x (swap_head t) <-> In x t.
Proof.
  intros A t x. destruct (swap_head_split A t) as [a [b [E1 E2]]].
  rewrite E2. rewrite E1 at 1. rewrite !in_app_iff. tauto.
Qed.

Lemma swap_head_length : forall A (t : list A), length (swap_head t) = length t.
Proof.
  intros A t. destruct (swap_head_split A t) as [a [b [E1 E2]]].
  rewrite E2. rewrite E1 at 1. rewrite !app_length. lia.
Qed.

Lemma swap_head_existsb : forall A (f : A -> bool) t, existsb f (swap_head t) = existsb f t.
Proof.
  intros A f t. destruct (swap_head_split A t) as [a [b [E1 E2]]].
  rewrite E2. rewrite E1 at 1. rewrite !existsb_app. apply orb_comm.
Qed.

Lemma swap_head_forallb : forall A (f : A -> bool) t, forallb f (swap_head t) = forallb f t.
Proof.
  intros A f t. destruct (swap_head_split A t) as [a [b [E1 E2]]].
  rewrite E2. rewrite E1 at 1. rewrite !forallb_app. apply andb_comm.
Qed.

Lemma lhs_app : forall m a b, lhs m (a ++ b) = lhs m a + lhs m b.
Proof. intros m a b. induction a as [|t a IH]; simpl; [reflexivity|]. rewrite IH. lia. Qed.

Lemma swap_head_lhs : forall m t, lhs m (swap_head t) = lhs m t.
Proof.
  intros m t. destruct (swap_head_split _ t) as [a [b [E1 E2]]].
  rewrite E2. rewrite E1 at 1. rewrite !lhs_app. lia.
Qed.

Lemma swap_head_Forall : forall A (P : A -> Prop) t, Forall P t -> Forall P (swap_head t).
Proof.
  intros A P t H. rewrite Forall_forall in *. intros x Hx. apply H. apply swap_head_in. exact Hx.
Qed.

Lemma Forall_app_swap : forall A (P : A -> Prop) d c t,
  Forall P (d ++ c :: t) -> Forall P (d ++ swap_head t).
Proof.
  intros A P d c t H. apply Forall_app in H. destruct H as [H1 H2].
  apply Forall_app. split; [exact H1|]. inversion H2; subst. apply swap_head_Forall. assumption.
Qed.

(* ------------------------------------------------------------------ *)
(* The Model array                                                      *)

Lemma list_set_length : forall A (l : list A) i x, length (list_set l i x) = length l.
Proof.
  intros A l. induction l as [|a l IH]; intros i x; [reflexivity|].
  destruct i; simpl; [reflexivity|]. rewrite IH. reflexivity.
Qed.

Lemma list_set_nth_same : forall A (l : list A) i x d,
  (i < length l)%nat -> nth i (list_set l i x) d = x.
Proof.
  intros A l. induction l as [|a l IH]; intros i x d H; simpl in H; [lia|].
  destruct i; simpl; [reflexivity|]. apply IH. lia.
Qed.

Lemma list_set_nth_other : forall A (l : list A) i j x d,
  i <> j -> nth i (list_set l j x) d = nth i l d.
Proof.
  intros A l. induction l as [|a l IH]; intros i j x d H; [reflexivity|].
  destruct j; destruct i; simpl; try reflexivity; try lia. apply IH. lia.
Qed.

Lemma list_set_nth_oob : forall A (l : list A) j x,
  (length l <= j)%nat -> list_set l j x = l.
Proof.
  intros A l. induction l as [|a l IH]; intros j x H; [reflexivity|].
  destruct j; simpl in *; [lia|]. rewrite IH by lia. reflexivity.
Qed.

Lemma mset_length : forall M l x, length (mset M l x) = length M.
Proof. intros. apply list_set_length. Qed.

Lemma vidx_eq : forall l l', l <> 0 -> l' <> 0 -> vidx l' = vidx l -> Z.abs l' = Z.abs l.
Proof. unfold vidx. intros l l' H H' E. lia. Qed.

(* reading after a write *)
Lemma mget_mset : forall M l x l', l <> 0 -> l' <> 0 ->
  mget (mset M l x) l' = mget M l' \/ (Z.abs l' = Z.abs l /\ mget (mset M l x) l' = x).
Proof.
  intros M l x l' H H'. unfold mget, mset.
  destruct (Nat.eq_dec (vidx l') (vidx l)) as [E|E].
  - destruct (Nat.lt_ge_cases (vidx l) (length M)) as [L|L].
    + right. split; [apply vidx_eq; assumption|]. rewrite E. apply list_set_nth_same. exact L.
    + left. rewrite list_set_nth_oob by exact L. reflexivity.
  - left. apply list_set_nth_other. exact E.
Qed.

Lemma mget_mset_same : forall M l x, (vidx l < length M)%nat -> mget (mset M l x) l = x.
Proof. intros M l x H. unfold mget, mset. apply list_set_nth_same. exact H. Qed.

Lemma mget_mset_other : forall M l x l', vidx l' <> vidx l -> mget (mset M l x) l' = mget M l'.
Proof. intros M l x l' H. unfold mget, mset. apply list_set_nth_other. exact H. Qed.

Lemma mget_neg : forall M l, mget M (- l) = mget M l.
Proof. intros M l. unfold mget, vidx. rewrite Z.abs_opp. reflexivity. Qed.

Lemma mget_repeat0 : forall k l, mget (repeat 0 k) l = 0.
Proof.
  intros k l. unfold mget. generalize (vidx l). induction k as [|k IH]; intros i.
  - destruct i; reflexivity.
  - destruct i; simpl; [reflexivity|apply IH].
Qed.

(* ------------------------------------------------------------------ *)
(* Soundness of the Model array with respect to the unit list           *)

Definition sgn (l : lit) : Z := if 0 <? l then 1 else -1.

(* m gives every variable bound in M the value M says *)
Definition magree (M : list Z) (m : model) : Prop :=
  forall l, l <> 0 -> mget M l <> 0 -> lit_val m l = mtrue M l.

Definition mvals (M : list Z) : Prop :=
  forall l, mget M l = 0 \/ mget M l = 1 \/ mget M l = -1.

Definition msound (M : list Z) (U : list lit) : Prop :=
  mvals M /\ forall m, sat_units m U = true -> magree M m.

Lemma sat_units_app : forall m a b, sat_units m (a ++ b) = sat_units m a && sat_units m b.
Proof. intros. unfold sat_units. apply forallb_app. Qed.

Lemma sat_units_in : forall m U l, sat_units m U = true -> In l U -> lit_val m l = true.
Proof. intros m U l H Hin. unfold sat_units in H. rewrite forallb_forall in H. auto. Qed.

Lemma mtrue_self : forall M u, u <> 0 -> mget M u = sgn u -> mtrue M u = true.
Proof.
  intros M u Hu E. unfold mtrue, sgn in *. rewrite E.
  destruct (0 <? u); reflexivity.
Qed.

Lemma mvals_mset : forall M u x, mvals M -> (x = 1 \/ x = -1) -> mvals (mset M u x).
Proof.
  intros M u x H Hx l. unfold mget, mset.
  destruct (Nat.eq_dec (vidx l) (vidx u)) as [E|E].
  - destruct (Nat.lt_ge_cases (vidx u) (length M)) as [L|L].
    + rewrite E, list_set_nth_same by exact L. lia.
    + rewrite list_set_nth_oob by exact L. apply H.
  - rewrite list_set_nth_other by exact E. apply H.
Qed.

(* writing the sign of a literal that every model of U' makes true *)
Lemma msound_mset : forall M U U' u,
  msound M U -> u <> 0 ->
  (forall m, sat_units m U' = true -> sat_units m U = true /\ lit_val m u = true) ->
  msound (mset M u (sgn u)) U'.
Proof.
  intros M U U' u [Hv Hs] Hu Hsub. split.
  - apply mvals_mset; [exact Hv|]. unfold sgn. destruct (0 <? u); lia.
  - intros m Hm l Hl Hb. destruct (Hsub m Hm) as [HmU Hut].
    destruct (mget_mset M u (sgn u) l Hu Hl) as [E|[Ev E]].
    + unfold mtrue. rewrite E in *. apply (Hs m HmU l Hl Hb).
    + unfold mtrue. rewrite E.
      rewrite (lit_val_same_var m u l Hu Hl Ev), Hut. unfold sgn.
      destruct (0 <? l); destruct (0 <? u); reflexivity.
Qed.

Lemma msound_mono : forall M U U',
  msound M U -> (forall m, sat_units m U' = true -> sat_units m U = true) -> msound M U'.
Proof. intros M U U' [Hv Hs] H. split; [exact Hv|]. intros m Hm. apply Hs. apply H. exact Hm. Qed.

Lemma msound_repeat0 : forall k U, msound (repeat 0 k) U.
Proof.
  intros k U. split.
  - intros l. left. apply mget_repeat0.
  - intros m _ l _ H. rewrite mget_repeat0 in H. contradiction.
Qed.

(* value of a bound literal *)
Lemma magree_true : forall M m l, magree M m -> l <> 0 -> mget M l <> 0 ->
  mtrue M l = true -> lit_val m l = true.
Proof. intros M m l H Hl Hb Ht. rewrite (H l Hl Hb). exact Ht. Qed.

Lemma magree_false : forall M m l, magree M m -> l <> 0 -> mget M l <> 0 ->
  mtrue M l = false -> lit_val m l = false.
Proof. intros M m l H Hl Hb Ht. rewrite (H l Hl Hb). exact Ht. Qed.

(* ------------------------------------------------------------------ *)
(* bind_units                                                           *)

Definition nonzero (ls : list lit) : Prop := Forall (fun l => l <> 0) ls.

Lemma bind_units_ok : forall R M Uall M',
  nonzero R -> incl R Uall -> msound M Uall ->
  bind_units R M = (M', true) -> msound M' Uall.
Proof.
  induction R as [|u R IH]; intros M Uall M' Hnz Hincl Hs H; simpl in H.
  - injection H as <-. exact Hs.
  - inversion Hnz as [|? ? Hu HR]; subst.
    assert (HinclR : incl R Uall) by (intros x Hx; apply Hincl; right; exact Hx).
    destruct (mget M u =? 0).
    + apply (IH (mset M u (sgn u)) Uall M' HR HinclR); [|exact H].
      apply (msound_mset M Uall Uall u Hs Hu). intros m Hm. split; [exact Hm|].
      apply (sat_units_in m Uall u Hm). apply Hincl. left. reflexivity.
    + destruct (Bool.eqb (0 <? mget M u) (0 <? u)); [|discriminate].
      apply (IH _ Uall M' HR HinclR Hs H).
Qed.

Lemma bind_units_conflict : forall R M Uall M',
  nonzero R -> incl R Uall -> msound M Uall ->
  bind_units R M = (M', false) -> forall m, sat_units m Uall = false.
Proof.
  induction R as [|u R IH]; intros M Uall M' Hnz Hincl Hs H m; simpl in H.
  - discriminate.
  - inversion Hnz as [|? ? Hu HR]; subst.
    assert (HinclR : incl R Uall) by (intros x Hx; apply Hincl; right; exact Hx).
    destruct (mget M u =? 0) eqn:E0.
    + apply (IH (mset M u (sgn u)) Uall M' HR HinclR); [|exact H].
      apply (msound_mset M Uall Uall u Hs Hu). intros m' Hm. split; [exact Hm|].
      apply (sat_units_in m' Uall u Hm). apply Hincl. left. reflexivity.
    + destruct (Bool.eqb (0 <? mget M u) (0 <? u)) eqn:E1.
      * apply (IH _ Uall M' HR HinclR Hs H).
      * destruct (sat_units m Uall) eqn:Em; [|reflexivity]. exfalso.
        destruct Hs as [Hv Hs]. apply Z.eqb_neq in E0.
        pose proof (Hs m Em u Hu E0) as Hval.
        rewrite (sat_units_in m Uall u Em) in Hval by (apply Hincl; left; reflexivity).
        unfold mtrue in Hval.
        destruct (Hv u) as [V|[V|V]]; rewrite V in *; simpl in *; try lia;
          destruct (0 <? u); simpl in *; discriminate.
Qed.

(* ------------------------------------------------------------------ *)
(* add_unit / add_units                                                 *)

Lemma add_unit_nbvars : forall g l, gp_nbvars (add_unit g l) = gp_nbvars g.
Proof.
  intros g l. unfold add_unit.
  destruct (0 <? l); [destruct (mget (gp_model g) l =? -1)|destruct (mget (gp_model g) l =? 1)];
    reflexivity.
Qed.

Lemma add_unit_spec : forall g l,
  msound (gp_model g) (gp_units g) -> l <> 0 ->
  (gp_status (add_unit g l) = Unsat /\ gp_units (add_unit g l) = gp_units g /\
   gp_model (add_unit g l) = gp_model g /\ mget (gp_model g) l <> 0 /\
   forall m, sat_units m (gp_units g) = true -> lit_val m l = false)
  \/
  (gp_status (add_unit g l) = gp_status g /\ gp_units (add_unit g l) = gp_units g ++ [l] /\
   gp_model (add_unit g l) = mset (gp_model g) l (sgn l) /\
   msound (gp_model (add_unit g l)) (gp_units (add_unit g l))).
Proof.
  intros g l Hs Hl. unfold add_unit, sgn.
  assert (Hnew : msound (mset (gp_model g) l (sgn l)) (gp_units g ++ [l])).
  { apply (msound_mset _ (gp_units g)); [exact Hs|exact Hl|].
    intros m Hm. rewrite sat_units_app in Hm. apply andb_true_iff in Hm.
    destruct Hm as [H1 H2]. split; [exact H1|]. simpl in H2. rewrite andb_true_r in H2. exact H2. }
  unfold sgn in Hnew.
  destruct (0 <? l) eqn:Ep.
  - destruct (mget (gp_model g) l =? -1) eqn:E.
    + left. apply Z.eqb_eq in E. simpl. repeat split; try reflexivity; [lia|].
      intros m Hm. destruct Hs as [_ Hs].
      rewrite (Hs m Hm l Hl) by lia. unfold mtrue. rewrite E, Ep. reflexivity.
    + right. simpl. repeat split; try reflexivity; try apply Hnew.
  - destruct (mget (gp_model g) l =? 1) eqn:E.
    + left. apply Z.eqb_eq in E. simpl. repeat split; try reflexivity; [lia|].
      intros m Hm. destruct Hs as [_ Hs].
      rewrite (Hs m Hm l Hl) by lia. unfold mtrue. rewrite E, Ep. reflexivity.
    + right. simpl. repeat split; try reflexivity; try apply Hnew.
Qed.

(* ------------------------------------------------------------------ *)
(* Generic facts on clause lists and the shape of a pass                *)

Definition seteq {A} (a b : list A) : Prop := forall x, In x a <-> In x b.

Lemma existsb_seteq : forall A (f : A -> bool) a b, seteq a b -> existsb f a = existsb f b.
Proof.
  intros A f a b H. apply eq_true_iff_eq. rewrite !existsb_exists.
  split; intros [x [H1 H2]]; exists x; (split; [apply H; exact H1|exact H2]).
Qed.

Definition csem (m : model) (cls : list gclause) : bool := forallb (sat_gclause m) cls.

Lemma csem_mid : forall m d c t, csem m (d ++ c :: t) = sat_gclause m c && csem m (d ++ t).
Proof.
  intros m d c t. unfold csem. rewrite !forallb_app. simpl.
  destruct (sat_gclause m c); destruct (forallb (sat_gclause m) d); reflexivity.
Qed.

Lemma csem_swap : forall m d t, csem m (d ++ swap_head t) = csem m (d ++ t).
Proof. intros m d t. unfold csem. rewrite !forallb_app, swap_head_forallb. reflexivity. Qed.

Lemma csem_snoc : forall m d c t, csem m ((d ++ [c]) ++ t) = sat_gclause m c && csem m (d ++ t).
Proof. intros m d c t. rewrite <- app_assoc. simpl. apply csem_mid. Qed.

Lemma sat_gproblem_unsat : forall m g, gp_status g = Unsat -> sat_gproblem m g = false.
Proof. intros m g H. unfold sat_gproblem. rewrite H. reflexivity. Qed.

Lemma sat_gproblem_live : forall m g, gp_status g <> Unsat ->
  sat_gproblem m g = sat_units m (gp_units g) && csem m (gp_clauses g).
Proof. intros m g H. unfold sat_gproblem. destruct (gp_status g); try reflexivity. contradiction. Qed.

Lemma is_unsat_true : forall g, is_unsat g = true <-> gp_status g = Unsat.
Proof. intros g. unfold is_unsat. destruct (gp_status g); simpl; split; congruence. Qed.

Lemma is_unsat_false : forall g, is_unsat g = false <-> gp_status g <> Unsat.
Proof. intros g. unfold is_unsat. destruct (gp_status g); simpl; split; congruence. Qed.

(* What one pass over the clause array guarantees. *)
Definition pass_ok (good : gclause -> Prop) (g : gproblem) (cls : list gclause) (g' : gproblem) : Prop :=
  (gp_status g' = Unsat \/ gp_status g' = gp_status g) /\
  gp_nbvars g' = gp_nbvars g /\
  msound (gp_model g') (gp_units g') /\
  Forall good (gp_clauses g') /\
  (forall m, sat_gproblem m g' = sat_units m (gp_units g) && csem m cls).

(* helper: a goal of the form  false = U && C  given that C is false whenever U holds *)
Lemma and_false_intro : forall (u c : bool), (u = true -> c = false) -> false = u && c.
Proof. intros [|] c H; simpl; [symmetry; apply H; reflexivity|reflexivity]. Qed.

Lemma and_cong_r : forall (u c c' : bool), (u = true -> c = c') -> u && c = u && c'.
Proof. intros [|] c c' H; simpl; [apply H; reflexivity|reflexivity]. Qed.

(* ------------------------------------------------------------------ *)
(* simplify2                                                            *)

Lemma s2_dedup_some : forall fuel l kept todo r,
  s2_dedup fuel l kept todo = Some r -> seteq (l :: r) (l :: kept ++ todo).
Proof.
  induction fuel as [|f IH]; intros l kept todo r H; simpl in H.
  - injection H as <-. intros x. tauto.
  - destruct todo as [|l2 t].
    + injection H as <-. rewrite app_nil_r. intros x. tauto.
    + destruct (l2 =? - l); [discriminate|].
      destruct (l2 =? l) eqn:E.
      * apply Z.eqb_eq in E. subst l2. apply IH in H. intros x. specialize (H x).
        simpl in *. rewrite in_app_iff in *. rewrite swap_head_in in H. simpl. tauto.
      * apply IH in H. rewrite <- app_assoc in H. exact H.
Qed.

Lemma s2_dedup_none : forall fuel l kept todo,
  s2_dedup fuel l kept todo = None -> In (- l) todo.
Proof.
  induction fuel as [|f IH]; intros l kept todo H; simpl in H; [discriminate|].
  destruct todo as [|l2 t]; [discriminate|].
  destruct (l2 =? - l) eqn:E1.
  - apply Z.eqb_eq in E1. left. exact E1.
  - destruct (l2 =? l).
    + apply IH in H. right. apply swap_head_in. exact H.
    + apply IH in H. right. exact H.
Qed.

Lemma nonzero_incl : forall a b, incl a b -> nonzero b -> nonzero a.
Proof.
  intros a b H Hb. unfold nonzero in *. rewrite Forall_forall in *. intros x Hx. apply Hb, H, Hx.
Qed.

Lemma s2_lits_incl : forall fuel M pre todo r,
  s2_lits fuel M pre todo = Some r -> incl r (pre ++ todo).
Proof.
  induction fuel as [|f IH]; intros M pre todo r H; simpl in H.
  - injection H as <-. apply incl_refl.
  - destruct todo as [|l t].
    + injection H as <-. rewrite app_nil_r. apply incl_refl.
    + destruct (s2_dedup (length t) l [] t) as [t'|] eqn:Ed; [|discriminate].
      apply s2_dedup_some in Ed. simpl in Ed.
      assert (Ht' : incl t' (l :: t)).
      { intros x Hx. apply (Ed x). right. exact Hx. }
      destruct (mget M l =? 0).
      * apply IH in H. intros x Hx. apply H in Hx. rewrite <- app_assoc in Hx.
        apply in_app_iff in Hx. apply in_app_iff. destruct Hx as [Hx|Hx]; [left; exact Hx|].
        right. simpl in Hx. destruct Hx as [Hx|Hx]; [left; exact Hx|apply Ht'; exact Hx].
      * destruct (mtrue M l); [discriminate|].
        apply IH in H. intros x Hx. apply H in Hx.
        apply in_app_iff in Hx. apply in_app_iff. destruct Hx as [Hx|Hx]; [left; exact Hx|].
        right. rewrite swap_head_in in Hx. apply Ht'. exact Hx.
Qed.

Lemma existsb_lit_neg : forall m ls l, l <> 0 -> In l ls -> In (- l) ls ->
  existsb (lit_val m) ls = true.
Proof.
  intros m ls l Hl H1 H2. apply existsb_exists.
  destruct (lit_val m l) eqn:E.
  - exists l. split; assumption.
  - exists (- l). split; [assumption|]. rewrite lit_val_neg by assumption. rewrite E. reflexivity.
Qed.

Lemma s2_lits_sem : forall m M, magree M m -> forall fuel pre todo,
  nonzero (pre ++ todo) ->
  match s2_lits fuel M pre todo with
  | Some r => existsb (lit_val m) r = existsb (lit_val m) (pre ++ todo)
  | None => existsb (lit_val m) (pre ++ todo) = true
  end.
Proof.
  intros m M Hag. induction fuel as [|f IH]; intros pre todo Hnz; simpl.
  - reflexivity.
  - destruct todo as [|l t].
    + rewrite app_nil_r. reflexivity.
    + assert (Hl : l <> 0).
      { unfold nonzero in Hnz. rewrite Forall_forall in Hnz. apply Hnz.
        apply in_app_iff. right. left. reflexivity. }
      destruct (s2_dedup (length t) l [] t) as [t'|] eqn:Ed.
      * apply s2_dedup_some in Ed. simpl in Ed.
        pose proof (existsb_seteq _ (lit_val m) _ _ Ed) as Eex. simpl in Eex.
        assert (Hnz' : nonzero (pre ++ l :: t')).
        { apply (nonzero_incl _ (pre ++ l :: t)); [|exact Hnz].
          intros x Hx. apply in_app_iff in Hx. apply in_app_iff.
          destruct Hx as [Hx|Hx]; [left; exact Hx|right; apply (Ed x); exact Hx]. }
        destruct (mget M l =? 0) eqn:E0.
        -- specialize (IH (pre ++ [l]) t'). rewrite <- app_assoc in IH. simpl in IH.
           specialize (IH Hnz').
           assert (Eq : existsb (lit_val m) (pre ++ l :: t') = existsb (lit_val m) (pre ++ l :: t)).
           { rewrite !existsb_app. simpl. rewrite Eex. reflexivity. }
           destruct (s2_lits f M (pre ++ [l]) t'); rewrite <- Eq; exact IH.
        -- apply Z.eqb_neq in E0. destruct (mtrue M l) eqn:Et.
           ++ rewrite existsb_app. simpl.
              rewrite (magree_true M m l Hag Hl E0 Et). rewrite orb_true_r. reflexivity.
           ++ pose proof (magree_false M m l Hag Hl E0 Et) as Hf.
              rewrite Hf in Eex. simpl in Eex.
              specialize (IH pre (swap_head t')).
              assert (Hnz'' : nonzero (pre ++ swap_head t')).
              { apply (nonzero_incl _ (pre ++ l :: t')); [|exact Hnz'].
                intros x Hx. apply in_app_iff in Hx. apply in_app_iff.
                destruct Hx as [Hx|Hx]; [left; exact Hx|right; right; apply swap_head_in; exact Hx]. }
              specialize (IH Hnz'').
              assert (Eq : existsb (lit_val m) (pre ++ swap_head t') = existsb (lit_val m) (pre ++ l :: t)).
              { rewrite !existsb_app. simpl. rewrite swap_head_existsb, Hf, Eex. reflexivity. }
              destruct (s2_lits f M pre (swap_head t')); rewrite <- Eq; exact IH.
      * apply s2_dedup_none in Ed.
        apply (existsb_lit_neg m _ l Hl).
        -- apply in_app_iff. right. left. reflexivity.
        -- apply in_app_iff. right. right. exact Ed.
Qed.

(* clauses handled by simplify2: propositional, non-zero literals *)
Definition plain (c : gclause) : Prop :=
  gc_weights c = None /\ gc_card c = 1 /\ nonzero (gc_lits c).

Lemma sat_gclause_plain : forall m c, plain c -> sat_gclause m c = existsb (lit_val m) (gc_lits c).
Proof.
  intros m c [Hw [Hc _]]. unfold sat_gclause, gc_terms. rewrite Hw, Hc.
  symmetry. apply sat_clause_lhs.
Qed.

Lemma plain_set_lits : forall c ls, plain c -> incl ls (gc_lits c) -> plain (set_lits c ls).
Proof.
  intros c ls [Hw [Hc Hn]] Hi. unfold plain, set_lits. simpl.
  split; [exact Hw|split; [exact Hc|]]. apply (nonzero_incl _ _ Hi Hn).
Qed.

Ltac pass_split := unfold pass_ok; split; [|split; [|split; [|split]]].

Lemma s2_pass_ok : forall fuel g done todo restart g' r,
  s2_pass fuel g done todo restart = (g', r) ->
  gp_status g <> Unsat -> msound (gp_model g) (gp_units g) -> Forall plain (done ++ todo) ->
  pass_ok plain g (done ++ todo) g'.
Proof.
  induction fuel as [|f IH]; intros g done todo restart g' r H Hst Hs Hgood; simpl in H.
  - injection H as <- <-. pass_split; simpl; auto.
    intros m. apply (sat_gproblem_live m (set_clauses g (done ++ todo))). exact Hst.
  - destruct todo as [|c t].
    + injection H as <- <-. rewrite app_nil_r in *. pass_split; simpl; auto.
      intros m. apply (sat_gproblem_live m (set_clauses g done)). exact Hst.
    + assert (Hc : plain c).
      { rewrite Forall_forall in Hgood. apply Hgood. apply in_app_iff. right. left. reflexivity. }
      assert (Hcnz : nonzero ([] ++ gc_lits c)) by (simpl; apply Hc).
      assert (Hsem : forall m, sat_units m (gp_units g) = true ->
                match s2_lits (length (gc_lits c)) (gp_model g) [] (gc_lits c) with
                | Some r0 => existsb (lit_val m) r0 = sat_gclause m c
                | None => sat_gclause m c = true
                end).
      { intros m Hm. destruct Hs as [_ Hs].
        pose proof (s2_lits_sem m (gp_model g) (Hs m Hm) (length (gc_lits c)) [] (gc_lits c) Hcnz) as X.
        simpl in X. rewrite (sat_gclause_plain m c Hc). exact X. }
      destruct (s2_lits (length (gc_lits c)) (gp_model g) [] (gc_lits c)) as [ls|] eqn:El.
      * pose proof (s2_lits_incl _ _ _ _ _ El) as Hincl. simpl in Hincl.
        destruct ls as [|l1 [|l2 ls]].
        -- (* empty: Unsat *)
           injection H as <- <-. pass_split; simpl; auto.
           intros m. rewrite sat_gproblem_unsat by reflexivity.
           apply and_false_intro. intros Hm. rewrite csem_mid.
           rewrite <- (Hsem m Hm). reflexivity.
        -- (* unit *)
           assert (Hl1 : l1 <> 0).
           { destruct Hc as [_ [_ Hn]]. unfold nonzero in Hn. rewrite Forall_forall in Hn.
             apply Hn. apply Hincl. left. reflexivity. }
           destruct (add_unit_spec g l1 Hs Hl1) as [[A1 [A2 [A3 [_ A4]]]]|[A1 [A2 [A3 A4]]]].
           ++ assert (Eu : is_unsat (add_unit g l1) = true) by (apply is_unsat_true; exact A1).
              rewrite Eu in H. injection H as <- <-. pass_split; simpl.
              ** left. exact A1.
              ** apply add_unit_nbvars.
              ** rewrite A2, A3. exact Hs.
              ** exact Hgood.
              ** intros m. rewrite sat_gproblem_unsat by exact A1.
                 apply and_false_intro. intros Hm. rewrite csem_mid.
                 rewrite <- (Hsem m Hm). simpl. rewrite (A4 m Hm). reflexivity.
           ++ assert (Eu : is_unsat (add_unit g l1) = false)
                by (apply is_unsat_false; rewrite A1; exact Hst).
              rewrite Eu in H.
              apply IH in H; [| rewrite A1; exact Hst | exact A4 | apply (Forall_app_swap _ _ _ c); exact Hgood].
              destruct H as [P1 [P2 [P3 [P4 P5]]]].
              rewrite A1 in P1. rewrite add_unit_nbvars in P2. pass_split; auto.
              intros m. rewrite (P5 m), A2, sat_units_app, csem_swap, csem_mid.
              rewrite <- andb_assoc. apply and_cong_r. intros Hm.
              rewrite <- (Hsem m Hm). simpl. rewrite !orb_false_r, andb_true_r. reflexivity.
        -- (* at least two literals: keep *)
           apply IH in H; [|exact Hst|exact Hs|].
           ++ destruct H as [P1 [P2 [P3 [P4 P5]]]]. pass_split; auto.
              intros m. rewrite (P5 m), csem_snoc, csem_mid. apply and_cong_r. intros Hm.
              rewrite (sat_gclause_plain m (set_lits c (l1 :: l2 :: ls))) by
                (apply plain_set_lits; assumption).
              cbn [set_lits gc_lits]. rewrite (Hsem m Hm). reflexivity.
           ++ rewrite <- app_assoc. simpl.
              apply Forall_app in Hgood. destruct Hgood as [G1 G2]. inversion G2; subst.
              apply Forall_app. split; [exact G1|]. constructor; [|assumption].
              apply plain_set_lits; assumption.
      * (* clause satisfied: drop *)
        apply IH in H; [|exact Hst|exact Hs|apply (Forall_app_swap _ _ _ c); exact Hgood].
        destruct H as [P1 [P2 [P3 [P4 P5]]]]. pass_split; auto.
        intros m. rewrite (P5 m), csem_swap, csem_mid. apply and_cong_r. intros Hm.
        rewrite (Hsem m Hm). reflexivity.
Qed.

(* ------------------------------------------------------------------ *)
(* The restart / modified loop, generically                             *)

Fixpoint gen_loop (pass : gproblem -> gproblem * bool) (fuel : nat) (g : gproblem)
  : gproblem * bool :=
  match fuel with
  | O => (g, false)
  | S f =>
    let '(g', r) := pass g in
    if is_unsat g' then (g', true)
    else if r then gen_loop pass f g'
    else (update_status g', true)
  end.

Definition s2_step (g : gproblem) := s2_pass (length (gp_clauses g)) g [] (gp_clauses g) false.
Definition sc_step (g : gproblem) := sc_pass (length (gp_clauses g)) g [] (gp_clauses g) false.
Definition spb_step (g : gproblem) := spb_pass (length (gp_clauses g)) g [] (gp_clauses g) false.

Lemma s2_loop_gen : forall fuel g, s2_loop fuel g = gen_loop s2_step fuel g.
Proof.
  induction fuel as [|f IH]; intros g; [reflexivity|]. simpl. unfold s2_step at 1.
  destruct (s2_pass (length (gp_clauses g)) g [] (gp_clauses g) false) as [g' r].
  destruct (is_unsat g'); [reflexivity|]. destruct r; [apply IH|reflexivity].
Qed.

Lemma sc_loop_gen : forall fuel g, sc_loop fuel g = gen_loop sc_step fuel g.
Proof.
  induction fuel as [|f IH]; intros g; [reflexivity|]. simpl. unfold sc_step at 1.
  destruct (sc_pass (length (gp_clauses g)) g [] (gp_clauses g) false) as [g' r].
  destruct (is_unsat g'); [reflexivity|]. destruct r; [apply IH|reflexivity].
Qed.

Lemma spb_loop_gen : forall fuel g, spb_loop fuel g = gen_loop spb_step fuel g.
Proof.
  induction fuel as [|f IH]; intros g; [reflexivity|]. simpl. unfold spb_step at 1.
  destruct (spb_pass (length (gp_clauses g)) g [] (gp_clauses g) false) as [g' r].
  destruct (is_unsat g'); [reflexivity|]. destruct r; [apply IH|reflexivity].
Qed.

Definition loop_ok (good : gclause -> Prop) (g g' : gproblem) : Prop :=
  gp_nbvars g' = gp_nbvars g /\
  msound (gp_model g') (gp_units g') /\
  Forall good (gp_clauses g') /\
  (gp_status g' = Sat -> gp_clauses g' = []) /\
  (forall m, sat_gproblem m g' = sat_gproblem m g).

Lemma update_status_sem : forall m g, sat_gproblem m (update_status g) = sat_gproblem m g.
Proof.
  intros m g. unfold update_status.
  destruct (gp_status g) eqn:Es; try reflexivity.
  destruct (gp_clauses g) eqn:Ec; try reflexivity.
  unfold sat_gproblem. simpl. rewrite Es, Ec. reflexivity.
Qed.

Lemma update_status_fields : forall g,
  gp_nbvars (update_status g) = gp_nbvars g /\ gp_units (update_status g) = gp_units g /\
  gp_model (update_status g) = gp_model g /\ gp_clauses (update_status g) = gp_clauses g.
Proof.
  intros g. unfold update_status. destruct (gp_status g); destruct (gp_clauses g) eqn:E; simpl; repeat split; auto.
Qed.

Lemma update_status_sat : forall g, gp_status g = Indet ->
  gp_status (update_status g) = Sat -> gp_clauses (update_status g) = [].
Proof.
  intros g Hi. unfold update_status. rewrite Hi.
  destruct (gp_clauses g) eqn:Ec; simpl; [intros _; exact Ec|]. rewrite Hi. discriminate.
Qed.

Lemma gen_loop_ok : forall good pass,
  (forall g g' r, pass g = (g', r) -> gp_status g = Indet ->
     msound (gp_model g) (gp_units g) -> Forall good (gp_clauses g) ->
     pass_ok good g (gp_clauses g) g') ->
  forall fuel g g' b, gen_loop pass fuel g = (g', b) -> gp_status g = Indet ->
    msound (gp_model g) (gp_units g) -> Forall good (gp_clauses g) -> loop_ok good g g'.
Proof.
  intros good pass Hpass. induction fuel as [|f IH]; intros g g' b H Hi Hs Hg; simpl in H.
  - injection H as <- <-. unfold loop_ok. repeat split; try assumption; try apply Hs.
    rewrite Hi. discriminate.
  - destruct (pass g) as [g1 r] eqn:Ep.
    assert (Hlive : gp_status g <> Unsat) by (rewrite Hi; discriminate).
    destruct (Hpass g g1 r Ep Hi Hs Hg) as [P1 [P2 [P3 [P4 P5]]]].
    assert (Hsem : forall m, sat_gproblem m g1 = sat_gproblem m g).
    { intros m. rewrite (P5 m). symmetry. apply sat_gproblem_live. exact Hlive. }
    destruct (is_unsat g1) eqn:Eu.
    + injection H as <- <-. apply is_unsat_true in Eu.
      unfold loop_ok. split; [exact P2|split; [exact P3|split; [exact P4|split; [|exact Hsem]]]].
      rewrite Eu. discriminate.
    + apply is_unsat_false in Eu. destruct P1 as [P1|P1]; [contradiction|].
      rewrite Hi in P1. destruct r.
      * destruct (IH g1 g' b H P1 P3 P4) as [Q1 [Q2 [Q3 [Q4 Q5]]]].
        unfold loop_ok. split; [congruence|split; [exact Q2|split; [exact Q3|split; [exact Q4|]]]].
        intros m. rewrite (Q5 m). apply Hsem.
      * injection H as <- <-.
        destruct (update_status_fields g1) as [F1 [F2 [F3 F4]]].
        unfold loop_ok. rewrite F1, F2, F3, F4.
        split; [exact P2|split; [exact P3|split; [exact P4|split]]].
        -- rewrite <- F4. apply update_status_sat. exact P1.
        -- intros m. rewrite update_status_sem. apply Hsem.
Qed.

(* any invariant of the pass that updateStatus keeps is an invariant of the loop *)
Lemma gen_loop_inv : forall (I : gproblem -> Prop) pass,
  (forall g g' r, pass g = (g', r) -> I g -> I g') ->
  (forall g, I g -> I (update_status g)) ->
  forall fuel g g' b, gen_loop pass fuel g = (g', b) -> I g -> I g'.
Proof.
  intros I pass Hp Hu. induction fuel as [|f IH]; intros g g' b H Hg; simpl in H.
  - injection H as <- <-. exact Hg.
  - destruct (pass g) as [g1 r] eqn:Ep. pose proof (Hp g g1 r Ep Hg) as H1.
    destruct (is_unsat g1).
    + injection H as <- <-. exact H1.
    + destruct r.
      * apply (IH g1 g' b H H1).
      * injection H as <- <-. apply Hu. exact H1.
Qed.

(* sufficient fuel: a pass that asks for another one decreases a measure *)
Lemma gen_loop_done : forall (mu : gproblem -> nat) pass,
  (forall g g' r, pass g = (g', r) -> is_unsat g' = false -> r = true -> (mu g' < mu g)%nat) ->
  forall fuel g, (mu g < fuel)%nat -> snd (gen_loop pass fuel g) = true.
Proof.
  intros mu pass Hp. induction fuel as [|f IH]; intros g Hlt; [lia|]. simpl.
  destruct (pass g) as [g1 r] eqn:Ep.
  destruct (is_unsat g1) eqn:Eu; [reflexivity|]. destruct r; [|reflexivity].
  apply IH. pose proof (Hp g g1 true Ep Eu eq_refl). lia.
Qed.

(* once the loop has terminated, more fuel does not change the result *)
Lemma gen_loop_stable : forall pass fuel g g',
  gen_loop pass fuel g = (g', true) ->
  forall fuel', (fuel <= fuel')%nat -> gen_loop pass fuel' g = (g', true).
Proof.
  intros pass. induction fuel as [|f IH]; intros g g' H fuel' Hle; simpl in H; [discriminate|].
  destruct fuel' as [|f']; [lia|]. simpl.
  destruct (pass g) as [g1 r]. destruct (is_unsat g1); [exact H|].
  destruct r; [|exact H]. apply IH; [exact H|lia].
Qed.

(* ------------------------------------------------------------------ *)
(* parseSlice                                                           *)

Lemma grow_max : forall nb l, grow nb l = Z.max nb (Z.abs l).
Proof. intros nb l. unfold grow. destruct (nb <? Z.abs l) eqn:E; [apply Z.ltb_lt in E|apply Z.ltb_ge in E]; lia. Qed.

Lemma grow_all_max : forall ls nb, 0 <= nb -> grow_all nb ls = Z.max nb (maxvar_clause ls).
Proof.
  unfold grow_all. induction ls as [|l ls IH]; intros nb Hnb; simpl; [lia|].
  rewrite grow_max. rewrite IH by lia. unfold lit_var. lia.
Qed.

Lemma has_empty_unsat : forall m F, has_empty F = true -> sat_cnf m F = false.
Proof.
  intros m F H. unfold has_empty in H. apply existsb_exists in H. destruct H as [c [Hin Hc]].
  destruct c; [|discriminate].
  destruct (sat_cnf m F) eqn:E; [|reflexivity]. unfold sat_cnf in E. rewrite forallb_forall in E.
  specialize (E [] Hin). discriminate.
Qed.

Lemma wf_cnf_cons : forall c F, wf_cnf (c :: F) -> nonzero c /\ wf_cnf F.
Proof.
  intros c F H. split.
  - unfold nonzero. rewrite Forall_forall. intros l Hl. apply (H c); [left; reflexivity|exact Hl].
  - intros c' Hc'. apply H. right. exact Hc'.
Qed.

Lemma nonzero_app : forall a b, nonzero a -> nonzero b -> nonzero (a ++ b).
Proof. intros a b Ha Hb. apply Forall_app. split; assumption. Qed.

Lemma csem_app : forall m a b, csem m (a ++ b) = csem m a && csem m b.
Proof. intros. unfold csem. apply forallb_app. Qed.

Lemma ps_scan_spec : forall F nb U C e nb' U' C',
  ps_scan F nb U C = (e, nb', U', C') -> wf_cnf F -> nonzero U -> Forall plain C ->
  nonzero U' /\ Forall plain C' /\ (0 <= nb -> nb' = Z.max nb (maxvar (before_empty F))) /\
  e = has_empty F /\ (length C' <= length C + length F)%nat /\
  (e = false -> forall m, sat_units m U' && csem m C' = (sat_units m U && csem m C) && sat_cnf m F).
Proof.
  induction F as [|line F IH]; intros nb U C e nb' U' C' H Hwf HU HC.
  - simpl in H. injection H as <- <- <- <-. simpl. repeat split; auto; try lia.
    intros _ m. rewrite andb_true_r. reflexivity.
  - apply wf_cnf_cons in Hwf. destruct Hwf as [Hline HwfF].
    destruct line as [|l [|l2 line]].
    + simpl in H. injection H as <- <- <- <-. simpl. repeat split; auto; try lia; try discriminate.
    + simpl in H. apply IH in H; [|exact HwfF| |exact HC].
      * destruct H as [R1 [R2 [R3 [R4 [R5 R6]]]]].
        split; [exact R1|split; [exact R2|split; [|split; [exact R4|split]]]].
        -- intros Hnb. rewrite R3 by (rewrite grow_max; lia). rewrite grow_max.
           cbn [before_empty maxvar maxvar_clause]. unfold lit_var. lia.
        -- simpl. lia.
        -- intros He m. rewrite (R6 He m), sat_units_app. simpl.
           destruct (sat_units m U); destruct (lit_val m l); destruct (csem m C); reflexivity.
      * apply nonzero_app; [exact HU|]. exact Hline.
    + cbn [ps_scan] in H. apply IH in H; [|exact HwfF|exact HU|].
      * destruct H as [R1 [R2 [R3 [R4 [R5 R6]]]]].
        split; [exact R1|split; [exact R2|split; [|split; [exact R4|split]]]].
        -- intros Hnb. rewrite R3 by (rewrite grow_all_max by lia; lia). rewrite grow_all_max by lia.
           cbn [before_empty maxvar]. lia.
        -- rewrite app_length in R5. simpl in *. lia.
        -- intros He m. rewrite (R6 He m), csem_app.
           cbn [csem forallb sat_cnf].
           rewrite (sat_gclause_plain m (GC (l :: l2 :: line) None 1)) by
             (repeat split; auto).
           cbn [gc_lits]. unfold sat_clause.
           destruct (sat_units m U); destruct (csem m C);
             destruct (existsb (lit_val m) (l :: l2 :: line)); reflexivity.
      * apply Forall_app. split; [exact HC|]. constructor; [|constructor].
        repeat split; auto.
Qed.

Lemma s2_step_ok : forall g g' r, s2_step g = (g', r) -> gp_status g = Indet ->
  msound (gp_model g) (gp_units g) -> Forall plain (gp_clauses g) ->
  pass_ok plain g (gp_clauses g) g'.
Proof.
  intros g g' r H Hi Hs Hg. unfold s2_step in H.
  apply (s2_pass_ok _ _ _ _ _ _ _ H); auto. rewrite Hi. discriminate.
Qed.

(* Everything about the result of parseSlice in one statement. *)
Lemma parse_slice_master : forall fuel n F, wf_cnf F ->
  (0 <= n -> gp_nbvars (parse_slice fuel n F) = Z.max n (maxvar (before_empty F))) /\
  (gp_status (parse_slice fuel n F) = Sat -> gp_clauses (parse_slice fuel n F) = []) /\
  (forall m, sat_gproblem m (parse_slice fuel n F) = sat_cnf m F).
Proof.
  intros fuel n F Hwf. unfold parse_slice, parse_slice_full.
  destruct (ps_scan F n [] []) as [[[e nb] U] C] eqn:Es.
  destruct (ps_scan_spec F n [] [] e nb U C Es Hwf (Forall_nil _) (Forall_nil _))
    as [HU [HC [Hnb [He [_ Hsem]]]]].
  destruct e.
  - simpl. split; [exact Hnb|split; [discriminate|]].
    intros m. symmetry. apply has_empty_unsat. symmetry. exact He.
  - specialize (Hsem eq_refl).
    destruct (bind_units U (repeat 0 (Z.to_nat nb))) as [M ok] eqn:Eb.
    destruct ok.
    + pose proof (bind_units_ok U _ U M HU (incl_refl U) (msound_repeat0 _ U) Eb) as HM.
      destruct (s2_loop fuel (GP nb Indet U M C)) as [g' b] eqn:El. simpl.
      rewrite s2_loop_gen in El.
      destruct (gen_loop_ok plain s2_step s2_step_ok fuel _ g' b El eq_refl HM HC)
        as [Q1 [Q2 [Q3 [Q4 Q5]]]]. simpl in *.
      split; [intros Hn; rewrite Q1; apply Hnb; exact Hn|split; [exact Q4|]].
      intros m. rewrite (Q5 m). unfold sat_gproblem. simpl. fold (csem m C).
      rewrite (Hsem m). reflexivity.
    + simpl. split; [exact Hnb|split; [discriminate|]].
      intros m. pose proof (bind_units_conflict U _ U M HU (incl_refl U) (msound_repeat0 _ U) Eb m) as Hc.
      specialize (Hsem m). rewrite Hc in Hsem. simpl in Hsem. rewrite <- Hsem. reflexivity.
Qed.

Theorem parse_slice_equiv : forall n F m fuel, wf_cnf F ->
  sat_gproblem m (parse_slice fuel n F) = sat_cnf m F.
Proof. intros n F m fuel H. apply (parse_slice_master fuel n F H). Qed.

Theorem parse_slice_nbvars : forall n F fuel, wf_cnf F -> 0 <= n ->
  gp_nbvars (parse_slice fuel n F) = Z.max n (maxvar (before_empty F)).
Proof. intros n F fuel H Hn. apply (parse_slice_master fuel n F H). exact Hn. Qed.

Lemma before_empty_id : forall F, has_empty F = false -> before_empty F = F.
Proof.
  induction F as [|c F IH]; intros H; [reflexivity|].
  destruct c as [|l c]; [discriminate|]. simpl in *. rewrite IH by exact H. reflexivity.
Qed.

Theorem parse_slice_nbvars_noempty : forall n F fuel, wf_cnf F -> 0 <= n -> has_empty F = false ->
  gp_nbvars (parse_slice fuel n F) = Z.max n (maxvar F).
Proof.
  intros n F fuel H Hn He. rewrite parse_slice_nbvars by assumption. rewrite before_empty_id by exact He.
  reflexivity.
Qed.

Theorem parse_slice_status_sat : forall n F fuel, wf_cnf F ->
  gp_status (parse_slice fuel n F) = Sat ->
  gp_clauses (parse_slice fuel n F) = [] /\
  forall m, sat_units m (gp_units (parse_slice fuel n F)) = true -> sat_cnf m F = true.
Proof.
  intros n F fuel Hwf Hs. destruct (parse_slice_master fuel n F Hwf) as [_ [H2 H3]].
  split; [apply H2; exact Hs|]. intros m Hm. rewrite <- (H3 m).
  unfold sat_gproblem. rewrite Hs, Hm, (H2 Hs). reflexivity.
Qed.

Theorem parse_slice_status_unsat : forall n F fuel, wf_cnf F ->
  gp_status (parse_slice fuel n F) = Unsat -> forall m, sat_cnf m F = false.
Proof.
  intros n F fuel Hwf Hs m. rewrite <- (parse_slice_equiv n F m fuel Hwf).
  apply sat_gproblem_unsat. exact Hs.
Qed.

(* ------------------------------------------------------------------ *)
(* The unit list and the Model array describe the same partial          *)
(* assignment (structural invariant, independent of soundness).         *)

Definition ucore (M : list Z) (U : list lit) : Prop :=
  mvals M /\
  (forall u, In u U -> u <> 0 /\ mget M u = sgn u) /\
  (forall l, l <> 0 -> mget M l = 1 -> In (Z.abs l) U) /\
  (forall l, l <> 0 -> mget M l = -1 -> In (- Z.abs l) U).

Lemma sgn_opp : forall u, u <> 0 -> sgn (- u) = - sgn u.
Proof.
  intros u H. unfold sgn. destruct (0 <? u) eqn:E1; destruct (0 <? - u) eqn:E2;
    try apply Z.ltb_lt in E1; try apply Z.ltb_lt in E2;
    try apply Z.ltb_ge in E1; try apply Z.ltb_ge in E2; lia.
Qed.

Lemma sgn_cases : forall u, u <> 0 -> (0 < u /\ sgn u = 1) \/ (u < 0 /\ sgn u = -1).
Proof.
  intros u H. unfold sgn. destruct (0 <? u) eqn:E; [apply Z.ltb_lt in E|apply Z.ltb_ge in E]; lia.
Qed.

Lemma ucore_set : forall M U u,
  ucore M U -> u <> 0 -> (vidx u < length M)%nat -> mget M u <> - sgn u ->
  ucore (mset M u (sgn u)) (U ++ [u]).
Proof.
  intros M U u [Hv [H1 [H2 H3]]] Hu Hr Hc.
  destruct (sgn_cases u Hu) as [[Hpos Es]|[Hneg Es]].
  - split; [apply mvals_mset; [exact Hv|lia]|split; [|split]].
    + intros p Hp. apply in_app_iff in Hp. destruct Hp as [Hp|[<-|[]]].
      * destruct (H1 p Hp) as [Hp0 Hpv]. split; [exact Hp0|].
        destruct (mget_mset M u (sgn u) p Hu Hp0) as [E|[Ev E]]; [rewrite E; exact Hpv|].
        assert (p = u \/ p = - u) as [->| ->] by lia; [exact E|].
        exfalso. apply Hc. rewrite <- (mget_neg M u), Hpv. apply sgn_opp. exact Hu.
      * split; [exact Hu|]. apply mget_mset_same. exact Hr.
    + intros l Hl E. apply in_app_iff.
      destruct (mget_mset M u (sgn u) l Hu Hl) as [E'|[Ev E']].
      * left. apply H2; [exact Hl|]. rewrite <- E'. exact E.
      * right. left. lia.
    + intros l Hl E. apply in_app_iff.
      destruct (mget_mset M u (sgn u) l Hu Hl) as [E'|[Ev E']].
      * left. apply H3; [exact Hl|]. rewrite <- E'. exact E.
      * rewrite E' in E. lia.
  - split; [apply mvals_mset; [exact Hv|lia]|split; [|split]].
    + intros p Hp. apply in_app_iff in Hp. destruct Hp as [Hp|[<-|[]]].
      * destruct (H1 p Hp) as [Hp0 Hpv]. split; [exact Hp0|].
        destruct (mget_mset M u (sgn u) p Hu Hp0) as [E|[Ev E]]; [rewrite E; exact Hpv|].
        assert (p = u \/ p = - u) as [->| ->] by lia; [exact E|].
        exfalso. apply Hc. rewrite <- (mget_neg M u), Hpv. apply sgn_opp. exact Hu.
      * split; [exact Hu|]. apply mget_mset_same. exact Hr.
    + intros l Hl E. apply in_app_iff.
      destruct (mget_mset M u (sgn u) l Hu Hl) as [E'|[Ev E']].
      * left. apply H2; [exact Hl|]. rewrite <- E'. exact E.
      * rewrite E' in E. lia.
    + intros l Hl E. apply in_app_iff.
      destruct (mget_mset M u (sgn u) l Hu Hl) as [E'|[Ev E']].
      * left. apply H3; [exact Hl|]. rewrite <- E'. exact E.
      * right. left. lia.
Qed.

Lemma ucore_keep : forall M U u,
  ucore M U -> u <> 0 -> mget M u = sgn u -> ucore M (U ++ [u]).
Proof.
  intros M U u [Hv [H1 [H2 H3]]] Hu E. split; [exact Hv|split; [|split]].
  - intros p Hp. apply in_app_iff in Hp. destruct Hp as [Hp|[<-|[]]]; [apply H1; exact Hp|].
    split; assumption.
  - intros l Hl El. apply in_app_iff. left. apply H2; assumption.
  - intros l Hl El. apply in_app_iff. left. apply H3; assumption.
Qed.

Lemma ucore_repeat0 : forall k, ucore (repeat 0 k) [].
Proof.
  intros k. split; [intros l; left; apply mget_repeat0|split; [|split]].
  - intros u [].
  - intros l _ E. rewrite mget_repeat0 in E. discriminate.
  - intros l _ E. rewrite mget_repeat0 in E. discriminate.
Qed.

Lemma bind_units_core : forall R M P M',
  bind_units R M = (M', true) -> ucore M P ->
  (forall u, In u R -> u <> 0 /\ (vidx u < length M)%nat) ->
  ucore M' (P ++ R) /\ length M' = length M.
Proof.
  induction R as [|u R IH]; intros M P M' H Hc Hr; simpl in H.
  - injection H as <-. rewrite app_nil_r. split; [exact Hc|reflexivity].
  - destruct (Hr u (or_introl eq_refl)) as [Hu Hur].
    assert (HrR : forall x, In x R -> x <> 0 /\ (vidx x < length M)%nat)
      by (intros x Hx; apply Hr; right; exact Hx).
    replace (P ++ u :: R) with ((P ++ [u]) ++ R) by (rewrite <- app_assoc; reflexivity).
    destruct (mget M u =? 0) eqn:E0.
    + apply Z.eqb_eq in E0.
      destruct (IH (mset M u (sgn u)) (P ++ [u]) M' H) as [I1 I2].
      * apply ucore_set; try assumption. rewrite E0.
        destruct (sgn_cases u Hu) as [[_ ->]|[_ ->]]; lia.
      * intros x Hx. rewrite mset_length. apply HrR. exact Hx.
      * split; [exact I1|]. rewrite I2. apply mset_length.
    + destruct (Bool.eqb (0 <? mget M u) (0 <? u)) eqn:E1; [|discriminate].
      apply (IH M (P ++ [u]) M' H); [|exact HrR].
      apply ucore_keep; try assumption.
      apply Z.eqb_neq in E0. destruct Hc as [Hv _].
      unfold sgn. destruct (Hv u) as [V|[V|V]]; rewrite V in *; try lia;
        destruct (0 <? u); simpl in E1; try discriminate; reflexivity.
Qed.

Definition uinv (g : gproblem) : Prop :=
  length (gp_model g) = Z.to_nat (gp_nbvars g) /\ ucore (gp_model g) (gp_units g).

Definition inrng (nb : Z) (l : lit) : Prop := l <> 0 /\ Z.abs l <= nb.
Definition cgood (nb : Z) (c : gclause) : Prop := forall l, In l (gc_lits c) -> inrng nb l.
Definition ginv (g : gproblem) : Prop := uinv g /\ Forall (cgood (gp_nbvars g)) (gp_clauses g).

Lemma inrng_vidx : forall nb l (M : list Z), inrng nb l -> length M = Z.to_nat nb -> (vidx l < length M)%nat.
Proof. intros nb l M [H1 H2] E. rewrite E. unfold vidx. lia. Qed.

Lemma add_unit_uinv : forall g l, uinv g -> inrng (gp_nbvars g) l -> uinv (add_unit g l).
Proof.
  intros g l [HL HC] Hr. pose proof (inrng_vidx _ _ _ Hr HL) as Hv. destruct Hr as [Hl _].
  unfold add_unit. destruct (sgn_cases l Hl) as [[Hp Es]|[Hn Es]].
  - assert (E : (0 <? l) = true) by (apply Z.ltb_lt; exact Hp). rewrite E.
    destruct (mget (gp_model g) l =? -1) eqn:Ec.
    + split; simpl; assumption.
    + apply Z.eqb_neq in Ec. split; simpl; [rewrite mset_length; exact HL|].
      rewrite <- Es. apply ucore_set; try assumption. rewrite Es. exact Ec.
  - assert (E : (0 <? l) = false) by (apply Z.ltb_ge; lia). rewrite E.
    destruct (mget (gp_model g) l =? 1) eqn:Ec.
    + split; simpl; assumption.
    + apply Z.eqb_neq in Ec. split; simpl; [rewrite mset_length; exact HL|].
      rewrite <- Es. apply ucore_set; try assumption. rewrite Es. exact Ec.
Qed.

Lemma cgood_incl : forall nb c ls, cgood nb c -> incl ls (gc_lits c) -> cgood nb (set_lits c ls).
Proof. intros nb c ls H Hi l Hl. apply H. apply Hi. exact Hl. Qed.

Lemma s2_pass_ginv : forall fuel g done todo restart g' r,
  s2_pass fuel g done todo restart = (g', r) ->
  uinv g -> Forall (cgood (gp_nbvars g)) (done ++ todo) -> ginv g'.
Proof.
  induction fuel as [|f IH]; intros g done todo restart g' r H Hu Hg; simpl in H.
  - injection H as <- <-. split; simpl; assumption.
  - destruct todo as [|c t].
    + injection H as <- <-. rewrite app_nil_r in Hg. split; simpl; assumption.
    + assert (Hc : cgood (gp_nbvars g) c).
      { rewrite Forall_forall in Hg. apply Hg. apply in_app_iff. right. left. reflexivity. }
      destruct (s2_lits (length (gc_lits c)) (gp_model g) [] (gc_lits c)) as [ls|] eqn:El.
      * pose proof (s2_lits_incl _ _ _ _ _ El) as Hincl. simpl in Hincl.
        destruct ls as [|l1 [|l2 ls]].
        -- injection H as <- <-. split; simpl; assumption.
        -- assert (Hl1 : inrng (gp_nbvars g) l1) by (apply Hc, Hincl; left; reflexivity).
           pose proof (add_unit_uinv g l1 Hu Hl1) as Hu'.
           destruct (is_unsat (add_unit g l1)).
           ++ injection H as <- <-. split; simpl; [exact Hu'|].
              rewrite add_unit_nbvars. exact Hg.
           ++ apply IH in H; [exact H|exact Hu'|]. rewrite add_unit_nbvars.
              apply (Forall_app_swap _ _ _ c). exact Hg.
        -- apply IH in H; [exact H|exact Hu|]. rewrite <- app_assoc. simpl.
           apply Forall_app in Hg. destruct Hg as [G1 G2]. inversion G2; subst.
           apply Forall_app. split; [exact G1|]. constructor; [|assumption].
           apply cgood_incl; assumption.
      * apply IH in H; [exact H|exact Hu|]. apply (Forall_app_swap _ _ _ c). exact Hg.
Qed.

Lemma update_status_ginv : forall g, ginv g -> ginv (update_status g).
Proof.
  intros g [[H1 H2] H3]. destruct (update_status_fields g) as [F1 [F2 [F3 F4]]].
  unfold ginv, uinv. rewrite F1, F2, F3, F4. auto.
Qed.

Lemma s2_step_ginv : forall g g' r, s2_step g = (g', r) -> ginv g -> ginv g'.
Proof.
  intros g g' r H [Hu Hg]. unfold s2_step in H. apply (s2_pass_ginv _ _ _ _ _ _ _ H Hu). exact Hg.
Qed.

Lemma grow_all_ge : forall ls nb,
  nb <= grow_all nb ls /\ forall l, In l ls -> Z.abs l <= grow_all nb ls.
Proof.
  unfold grow_all. induction ls as [|l ls IH]; intros nb; simpl.
  - split; [lia|intros l []].
  - destruct (IH (grow nb l)) as [I1 I2]. rewrite grow_max in *. split; [lia|].
    intros x [<-|Hx]; [lia|apply I2; exact Hx].
Qed.

Lemma cgood_mono : forall nb nb' c, nb <= nb' -> cgood nb c -> cgood nb' c.
Proof. intros nb nb' c H Hc l Hl. destruct (Hc l Hl) as [A B]. split; [exact A|lia]. Qed.

Lemma Forall_cgood_mono : forall nb nb' C, nb <= nb' -> Forall (cgood nb) C -> Forall (cgood nb') C.
Proof.
  intros nb nb' C H HC. rewrite Forall_forall in *. intros c Hc.
  apply (cgood_mono nb nb' c H). apply HC. exact Hc.
Qed.

Lemma ps_scan_range : forall F nb U C e nb' U' C',
  ps_scan F nb U C = (e, nb', U', C') -> wf_cnf F ->
  (forall u, In u U -> inrng nb u) -> Forall (cgood nb) C ->
  nb <= nb' /\ (forall u, In u U' -> inrng nb' u) /\ Forall (cgood nb') C'.
Proof.
  induction F as [|line F IH]; intros nb U C e nb' U' C' H Hwf HU HC.
  - simpl in H. injection H as <- <- <- <-. split; [lia|split; assumption].
  - apply wf_cnf_cons in Hwf. destruct Hwf as [Hline HwfF].
    unfold nonzero in Hline. rewrite Forall_forall in Hline.
    destruct line as [|l [|l2 line]].
    + simpl in H. injection H as <- <- <- <-. split; [lia|split; assumption].
    + simpl in H. pose proof (grow_max nb l) as Eg.
      apply IH in H; [|exact HwfF| |].
      * destruct H as [R1 [R2 R3]]. split; [lia|split; assumption].
      * intros u Hu. apply in_app_iff in Hu. destruct Hu as [Hu|[<-|[]]].
        -- destruct (HU u Hu) as [A B]. split; [exact A|lia].
        -- split; [apply Hline; left; reflexivity|lia].
      * apply (Forall_cgood_mono nb); [lia|exact HC].
    + cbn [ps_scan] in H. destruct (grow_all_ge (l :: l2 :: line) nb) as [G1 G2].
      apply IH in H; [|exact HwfF| |].
      * destruct H as [R1 [R2 R3]]. split; [lia|split; assumption].
      * intros u Hu. destruct (HU u Hu) as [A B]. split; [exact A|lia].
      * apply Forall_app. split; [apply (Forall_cgood_mono nb); [lia|exact HC]|].
        constructor; [|constructor]. intros x Hx. cbn [gc_lits] in Hx.
        split; [apply Hline; exact Hx|apply G2; exact Hx].
Qed.

Lemma parse_slice_ginv : forall fuel n F, wf_cnf F ->
  gp_status (parse_slice fuel n F) <> Unsat -> ginv (parse_slice fuel n F).
Proof.
  intros fuel n F Hwf. unfold parse_slice, parse_slice_full.
  destruct (ps_scan F n [] []) as [[[e nb] U] C] eqn:Es.
  assert (HU0 : forall u, In u (@nil lit) -> inrng n u) by (intros u []).
  destruct (ps_scan_range F n [] [] e nb U C Es Hwf HU0 (Forall_nil _)) as [_ [HU HC]].
  destruct e; [simpl; intros H; contradiction H; reflexivity|].
  destruct (bind_units U (repeat 0 (Z.to_nat nb))) as [M ok] eqn:Eb.
  destruct ok; [|simpl; intros H; contradiction H; reflexivity].
  intros _.
  assert (Hr : forall u, In u U -> u <> 0 /\ (vidx u < length (repeat 0%Z (Z.to_nat nb)))%nat).
  { intros u Hu. split; [apply (HU u Hu)|].
    apply (inrng_vidx nb); [apply HU; exact Hu|apply repeat_length]. }
  destruct (bind_units_core U _ [] M Eb (ucore_repeat0 _) Hr) as [B1 B2]. simpl in B1.
  rewrite repeat_length in B2.
  destruct (s2_loop fuel (GP nb Indet U M C)) as [g' b] eqn:El. simpl.
  rewrite s2_loop_gen in El.
  apply (gen_loop_inv ginv s2_step s2_step_ginv update_status_ginv _ _ _ _ El).
  split; [split; simpl; assumption|exact HC].
Qed.

Theorem parse_slice_units_consistent : forall n F fuel, wf_cnf F ->
  gp_status (parse_slice fuel n F) <> Unsat ->
  (forall l, In l (gp_units (parse_slice fuel n F)) -> ~ In (- l) (gp_units (parse_slice fuel n F))) /\
  length (gp_model (parse_slice fuel n F)) = Z.to_nat (gp_nbvars (parse_slice fuel n F)) /\
  (forall l, In l (gp_units (parse_slice fuel n F)) ->
     l <> 0 /\ Z.abs l <= gp_nbvars (parse_slice fuel n F) /\
     mget (gp_model (parse_slice fuel n F)) l = (if 0 <? l then 1 else -1)) /\
  (forall v, 1 <= v ->
     (mget (gp_model (parse_slice fuel n F)) v = 1 <-> In v (gp_units (parse_slice fuel n F))) /\
     (mget (gp_model (parse_slice fuel n F)) v = -1 <-> In (- v) (gp_units (parse_slice fuel n F)))).
Proof.
  intros n F fuel Hwf Hst. destruct (parse_slice_ginv fuel n F Hwf Hst) as [[HL [Hv [H1 [H2 H3]]]] _].
  set (g := parse_slice fuel n F) in *.
  assert (Hunit : forall l, In l (gp_units g) ->
            l <> 0 /\ Z.abs l <= gp_nbvars g /\ mget (gp_model g) l = sgn l).
  { intros l Hl. destruct (H1 l Hl) as [A B]. split; [exact A|split; [|exact B]].
    destruct (Z_le_gt_dec (Z.abs l) (gp_nbvars g)) as [L|L]; [exact L|exfalso].
    unfold mget in B. rewrite nth_overflow in B.
    - destruct (sgn_cases l A) as [[_ E]|[_ E]]; rewrite E in B; discriminate.
    - rewrite HL. unfold vidx. lia. }
  split; [|split; [exact HL|split; [exact Hunit|]]].
  - intros l Hl Hnl. destruct (Hunit l Hl) as [A [_ B]]. destruct (Hunit (- l) Hnl) as [_ [_ B']].
    rewrite mget_neg, sgn_opp in B' by exact A.
    destruct (sgn_cases l A) as [[_ E]|[_ E]]; rewrite E in *; lia.
  - intros v Hv1. split; split.
    + intros E. assert (Hv0 : v <> 0) by lia. pose proof (H2 v Hv0 E) as X.
      rewrite Z.abs_eq in X by lia. exact X.
    + intros Hin. destruct (Hunit v Hin) as [_ [_ B]]. rewrite B. unfold sgn.
      assert (E : (0 <? v) = true) by (apply Z.ltb_lt; lia). rewrite E. reflexivity.
    + intros E. assert (Hv0 : v <> 0) by lia. pose proof (H3 v Hv0 E) as X.
      rewrite Z.abs_eq in X by lia. exact X.
    + intros Hin. destruct (Hunit (- v) Hin) as [_ [_ B]]. rewrite mget_neg in B. rewrite B.
      unfold sgn. assert (E : (0 <? - v) = false) by (apply Z.ltb_ge; lia). rewrite E. reflexivity.
Qed.

(* ------------------------------------------------------------------ *)
(* Sufficient fuel for parse_slice: a pass that asks for a restart has  *)
(* removed a clause.                                                    *)

Ltac len_norm := rewrite ?app_length, ?swap_head_length in *; simpl in *.

Lemma s2_pass_len : forall fuel g done todo restart g' r,
  s2_pass fuel g done todo restart = (g', r) ->
  (length (gp_clauses g') <= length (done ++ todo))%nat /\
  (r = true -> restart = true \/ (length (gp_clauses g') < length (done ++ todo))%nat).
Proof.
  induction fuel as [|f IH]; intros g done todo restart g' r H; simpl in H.
  - injection H as <- <-. simpl. split; [lia|auto].
  - destruct todo as [|c t].
    + injection H as <- <-. simpl. rewrite app_nil_r. split; [lia|auto].
    + destruct (s2_lits (length (gc_lits c)) (gp_model g) [] (gc_lits c)) as [ls|].
      * destruct ls as [|l1 [|l2 ls]].
        -- injection H as <- <-. simpl. split; [lia|auto].
        -- destruct (is_unsat (add_unit g l1)).
           ++ injection H as <- <-. simpl. split; [lia|auto].
           ++ apply IH in H. destruct H as [H1 H2]. len_norm. split; [lia|intros _; right; lia].
        -- apply IH in H. destruct H as [H1 H2]. len_norm. split; [lia|].
           intros Hr. destruct (H2 Hr) as [X|X]; [left; exact X|right; lia].
      * apply IH in H. destruct H as [H1 H2]. len_norm. split; [lia|intros _; right; lia].
Qed.

Definition nclauses (g : gproblem) : nat := length (gp_clauses g).

Lemma s2_step_decr : forall g g' r, s2_step g = (g', r) -> is_unsat g' = false -> r = true ->
  (nclauses g' < nclauses g)%nat.
Proof.
  intros g g' r H _ Hr. unfold s2_step in H. apply s2_pass_len in H. destruct H as [_ H].
  destruct (H Hr) as [X|X]; [discriminate|]. exact X.
Qed.

Lemma ps_scan_len : forall F nb U C e nb' U' C',
  ps_scan F nb U C = (e, nb', U', C') -> (length C' <= length C + length F)%nat.
Proof.
  induction F as [|line F IH]; intros nb U C e nb' U' C' H.
  - simpl in H. injection H as <- <- <- <-. simpl. lia.
  - destruct line as [|l [|l2 line]].
    + simpl in H. injection H as <- <- <- <-. simpl. lia.
    + simpl in H. apply IH in H. simpl. lia.
    + cbn [ps_scan] in H. apply IH in H. rewrite app_length in H. simpl in *. lia.
Qed.

Theorem parse_slice_fuel_enough : forall n F fuel,
  (length F < fuel)%nat -> parse_slice_done fuel n F = true.
Proof.
  intros n F fuel Hf. unfold parse_slice_done, parse_slice_full.
  destruct (ps_scan F n [] []) as [[[e nb] U] C] eqn:Es.
  pose proof (ps_scan_len _ _ _ _ _ _ _ _ Es) as HL. simpl in HL.
  destruct e; [reflexivity|].
  destruct (bind_units U (repeat 0 (Z.to_nat nb))) as [M ok]. destruct ok; [|reflexivity].
  rewrite s2_loop_gen. apply (gen_loop_done nclauses s2_step s2_step_decr).
  unfold nclauses. simpl. lia.
Qed.

Theorem parse_slice_stable : forall n F fuel fuel',
  parse_slice_done fuel n F = true -> (fuel <= fuel')%nat ->
  parse_slice fuel' n F = parse_slice fuel n F /\ parse_slice_done fuel' n F = true.
Proof.
  intros n F fuel fuel'. unfold parse_slice_done, parse_slice, parse_slice_full.
  destruct (ps_scan F n [] []) as [[[e nb] U] C].
  destruct e; [auto|].
  destruct (bind_units U (repeat 0 (Z.to_nat nb))) as [M ok]. destruct ok; [|auto].
  rewrite !s2_loop_gen. destruct (gen_loop s2_step fuel (GP nb Indet U M C)) as [g b] eqn:E.
  simpl. intros -> Hle. rewrite (gen_loop_stable _ _ _ _ E fuel' Hle). auto.
Qed.

(* ------------------------------------------------------------------ *)
(* simplifyCard                                                         *)

Definition cnt (m : model) (ls : list lit) : Z := lhs m (unit_terms ls).

Lemma cnt_cons : forall m l ls, cnt m (l :: ls) = (if lit_val m l then 1 else 0) + cnt m ls.
Proof. intros. unfold cnt. simpl. unfold term_val. simpl. reflexivity. Qed.

Lemma cnt_app : forall m a b, cnt m (a ++ b) = cnt m a + cnt m b.
Proof. intros. unfold cnt, unit_terms. rewrite map_app, lhs_app. reflexivity. Qed.

Lemma cnt_swap : forall m t, cnt m (swap_head t) = cnt m t.
Proof.
  intros m t. destruct (swap_head_split _ t) as [a [b [E1 E2]]].
  rewrite E2. rewrite E1 at 1. rewrite !cnt_app. lia.
Qed.

Lemma cnt_nonneg : forall m ls, 0 <= cnt m ls.
Proof. intros. apply lhs_unit_nonneg. Qed.

Lemma cnt_le_length : forall m ls, cnt m ls <= Z.of_nat (length ls).
Proof.
  intros m ls. induction ls as [|l ls IH]; [unfold cnt; simpl; lia|].
  rewrite cnt_cons. cbn [length]. destruct (lit_val m l); lia.
Qed.

Lemma cnt_all : forall m ls, (Z.of_nat (length ls) <=? cnt m ls) = forallb (lit_val m) ls.
Proof.
  intros m ls. induction ls as [|l ls IH]; [reflexivity|].
  rewrite cnt_cons. cbn [length forallb]. pose proof (cnt_le_length m ls) as Hle.
  destruct (lit_val m l); cbn [andb].
  - rewrite <- IH. apply eq_true_iff_eq. rewrite !Z.leb_le. lia.
  - apply Z.leb_gt. lia.
Qed.

Lemma sc_lits_incl : forall fuel M card pre todo r card',
  sc_lits fuel M card pre todo = Some (r, card') -> incl r (pre ++ todo) /\ (1 <= card -> 1 <= card').
Proof.
  induction fuel as [|f IH]; intros M card pre todo r card' H; simpl in H.
  - injection H as <- <-. split; [apply incl_refl|auto].
  - destruct todo as [|l t].
    + injection H as <- <-. rewrite app_nil_r. split; [apply incl_refl|auto].
    + destruct (mget M l =? 0).
      * apply IH in H. rewrite <- app_assoc in H. exact H.
      * destruct (mtrue M l).
        -- destruct (card - 1 =? 0) eqn:E; [discriminate|]. apply Z.eqb_neq in E.
           apply IH in H. destruct H as [H1 H2]. split; [|intros; apply H2; lia].
           intros x Hx. apply H1 in Hx. apply in_app_iff in Hx. apply in_app_iff.
           destruct Hx as [Hx|Hx]; [left; exact Hx|right; right]. rewrite swap_head_in in Hx. exact Hx.
        -- apply IH in H. destruct H as [H1 H2]. split; [|exact H2].
           intros x Hx. apply H1 in Hx. apply in_app_iff in Hx. apply in_app_iff.
           destruct Hx as [Hx|Hx]; [left; exact Hx|right; right]. rewrite swap_head_in in Hx. exact Hx.
Qed.

Lemma sc_lits_sem : forall m M, magree M m -> forall fuel card pre todo,
  nonzero (pre ++ todo) ->
  match sc_lits fuel M card pre todo with
  | Some (r, card') => cnt m r - card' = cnt m (pre ++ todo) - card
  | None => card <= cnt m (pre ++ todo)
  end.
Proof.
  intros m M Hag. induction fuel as [|f IH]; intros card pre todo Hnz; simpl.
  - reflexivity.
  - destruct todo as [|l t].
    + rewrite app_nil_r. reflexivity.
    + assert (Hl : l <> 0).
      { unfold nonzero in Hnz. rewrite Forall_forall in Hnz. apply Hnz.
        apply in_app_iff. right. left. reflexivity. }
      assert (Hnz' : nonzero (pre ++ swap_head t)).
      { apply (nonzero_incl _ (pre ++ l :: t)); [|exact Hnz].
        intros x Hx. apply in_app_iff in Hx. apply in_app_iff.
        destruct Hx as [Hx|Hx]; [left; exact Hx|right; right]. rewrite swap_head_in in Hx. exact Hx. }
      rewrite cnt_app, cnt_cons.
      destruct (mget M l =? 0) eqn:E0.
      * specialize (IH card (pre ++ [l]) t). rewrite <- app_assoc in IH. specialize (IH Hnz).
        simpl in IH. rewrite cnt_app, cnt_cons in IH. exact IH.
      * apply Z.eqb_neq in E0. destruct (mtrue M l) eqn:Et.
        -- rewrite (magree_true M m l Hag Hl E0 Et).
           destruct (card - 1 =? 0) eqn:Ec.
           ++ apply Z.eqb_eq in Ec. pose proof (cnt_nonneg m pre). pose proof (cnt_nonneg m t). lia.
           ++ specialize (IH (card - 1) pre (swap_head t) Hnz').
              rewrite cnt_app, cnt_swap in IH.
              destruct (sc_lits f M (card - 1) pre (swap_head t)) as [[r c']|]; lia.
        -- rewrite (magree_false M m l Hag Hl E0 Et).
           specialize (IH card pre (swap_head t) Hnz').
           rewrite cnt_app, cnt_swap in IH.
           destruct (sc_lits f M card pre (swap_head t)) as [[r c']|]; lia.
Qed.

Lemma add_units_spec : forall ls g,
  msound (gp_model g) (gp_units g) -> nonzero ls ->
  gp_nbvars (add_units g ls) = gp_nbvars g /\
  msound (gp_model (add_units g ls)) (gp_units (add_units g ls)) /\
  (gp_status (add_units g ls) = Unsat \/ gp_status (add_units g ls) = gp_status g) /\
  (gp_status (add_units g ls) <> Unsat -> forall m,
     sat_units m (gp_units (add_units g ls)) = sat_units m (gp_units g) && forallb (lit_val m) ls) /\
  (gp_status g <> Unsat -> gp_status (add_units g ls) = Unsat -> forall m,
     sat_units m (gp_units g) && forallb (lit_val m) ls = false).
Proof.
  unfold add_units. induction ls as [|l ls IH]; intros g Hs Hnz; simpl.
  - split; [reflexivity|split; [exact Hs|split; [right; reflexivity|split]]].
    + intros _ m. rewrite andb_true_r. reflexivity.
    + intros H1 H2. contradiction.
  - inversion Hnz as [|? ? Hl Hls]; subst.
    destruct (add_unit_spec g l Hs Hl) as [[A1 [A2 [A3 [_ A4]]]]|[A1 [A2 [A3 A4]]]].
    + assert (Hs1 : msound (gp_model (add_unit g l)) (gp_units (add_unit g l)))
        by (rewrite A2, A3; exact Hs).
      destruct (IH (add_unit g l) Hs1 Hls) as [I1 [I2 [I3 [I4 I5]]]].
      assert (HU : gp_status (fold_left add_unit ls (add_unit g l)) = Unsat)
        by (destruct I3 as [I3|I3]; [exact I3|rewrite I3; exact A1]).
      rewrite add_unit_nbvars in I1.
      split; [exact I1|split; [exact I2|split; [left; exact HU|split]]].
      * intros Hn. contradiction.
      * intros _ _ m. destruct (sat_units m (gp_units g)) eqn:Em; [|reflexivity].
        rewrite (A4 m Em). reflexivity.
    + destruct (IH (add_unit g l) A4 Hls) as [I1 [I2 [I3 [I4 I5]]]].
      rewrite add_unit_nbvars in I1. rewrite A1 in I3, I5.
      split; [exact I1|split; [exact I2|split; [exact I3|split]]].
      * intros Hn m. rewrite (I4 Hn m), A2, sat_units_app. simpl.
        rewrite andb_true_r, andb_assoc. reflexivity.
      * intros Hg Hu m. specialize (I5 Hg Hu m). rewrite A2, sat_units_app in I5. simpl in I5.
        rewrite andb_true_r, <- andb_assoc in I5. exact I5.
Qed.

(* clauses handled by simplifyCard *)
Definition cardgood (c : gclause) : Prop :=
  gc_weights c = None /\ 1 <= gc_card c /\ nonzero (gc_lits c).

Lemma sat_gclause_card : forall m c, gc_weights c = None ->
  sat_gclause m c = (gc_card c <=? cnt m (gc_lits c)).
Proof. intros m c H. unfold sat_gclause, gc_terms, cnt. rewrite H. reflexivity. Qed.

Lemma update_card_exact : forall stored card, 1 <= card -> update_card stored (card - stored) = card.
Proof.
  intros stored card H. unfold update_card.
  destruct ((card - stored <? 0) && (stored - 1 <? - (card - stored))) eqn:E; [|lia].
  apply andb_true_iff in E. destruct E as [_ E]. apply Z.ltb_lt in E. lia.
Qed.

Lemma sc_pass_ok : forall fuel g done todo restart g' r,
  sc_pass fuel g done todo restart = (g', r) ->
  gp_status g <> Unsat -> msound (gp_model g) (gp_units g) -> Forall cardgood (done ++ todo) ->
  pass_ok cardgood g (done ++ todo) g'.
Proof.
  induction fuel as [|f IH]; intros g done todo restart g' r H Hst Hs Hgood; simpl in H.
  - injection H as <- <-. pass_split; simpl; auto.
    intros m. apply (sat_gproblem_live m (set_clauses g (done ++ todo))). exact Hst.
  - destruct todo as [|c t].
    + injection H as <- <-. rewrite app_nil_r in *. pass_split; simpl; auto.
      intros m. apply (sat_gproblem_live m (set_clauses g done)). exact Hst.
    + assert (Hc : cardgood c).
      { rewrite Forall_forall in Hgood. apply Hgood. apply in_app_iff. right. left. reflexivity. }
      destruct Hc as [Hw [Hcard Hnz]].
      assert (Hcnz : nonzero ([] ++ gc_lits c)) by (simpl; exact Hnz).
      assert (Hsem : forall m, sat_units m (gp_units g) = true ->
                match sc_lits (length (gc_lits c)) (gp_model g) (gc_card c) [] (gc_lits c) with
                | Some (r0, card') => (card' <=? cnt m r0) = sat_gclause m c
                | None => sat_gclause m c = true
                end).
      { intros m Hm. destruct Hs as [_ Hs].
        pose proof (sc_lits_sem m (gp_model g) (Hs m Hm) (length (gc_lits c)) (gc_card c) []
                      (gc_lits c) Hcnz) as X.
        simpl in X. rewrite (sat_gclause_card m c Hw).
        destruct (sc_lits (length (gc_lits c)) (gp_model g) (gc_card c) [] (gc_lits c)) as [[r0 c']|].
        - apply eq_true_iff_eq. rewrite !Z.leb_le. lia.
        - apply Z.leb_le. exact X. }
      destruct (sc_lits (length (gc_lits c)) (gp_model g) (gc_card c) [] (gc_lits c))
        as [[ls card']|] eqn:El.
      * destruct (sc_lits_incl _ _ _ _ _ _ _ El) as [Hincl Hc1]. simpl in Hincl.
        specialize (Hc1 Hcard).
        assert (Hlsnz : nonzero ls) by (apply (nonzero_incl _ _ Hincl Hnz)).
        destruct (Z.of_nat (length ls) <? card') eqn:E1.
        -- (* too few literals: Unsat *)
           apply Z.ltb_lt in E1.
           injection H as <- <-. pass_split; simpl; auto.
           intros m. rewrite sat_gproblem_unsat by reflexivity.
           apply and_false_intro. intros Hm. rewrite csem_mid.
           rewrite <- (Hsem m Hm). pose proof (cnt_le_length m ls).
           replace (card' <=? cnt m ls) with false by (symmetry; apply Z.leb_gt; lia). reflexivity.
        -- destruct (Z.of_nat (length ls) =? card') eqn:E2.
           ++ (* all remaining literals are units *)
              apply Z.eqb_eq in E2.
              destruct (add_units_spec ls g Hs Hlsnz) as [A1 [A2 [A3 [A4 A5]]]].
              destruct (is_unsat (add_units g ls)) eqn:Eu.
              ** apply is_unsat_true in Eu.
                 injection H as <- <-. pass_split; simpl; auto.
                 intros m. rewrite sat_gproblem_unsat by exact Eu.
                 specialize (A5 Hst Eu m).
                 destruct (sat_units m (gp_units g)) eqn:Em; [|reflexivity]. simpl in *.
                 rewrite csem_mid, <- (Hsem m Em), <- E2, cnt_all, A5. reflexivity.
              ** apply is_unsat_false in Eu. destruct A3 as [A3|A3]; [contradiction|].
                 apply IH in H; [|exact Eu|exact A2|apply (Forall_app_swap _ _ _ c); exact Hgood].
                 destruct H as [P1 [P2 [P3 [P4 P5]]]].
                 rewrite A3 in P1. rewrite A1 in P2. pass_split; auto.
                 intros m. rewrite (P5 m), (A4 Eu m), csem_swap, csem_mid.
                 rewrite <- andb_assoc. apply and_cong_r. intros Hm.
                 rewrite <- (Hsem m Hm), <- E2, cnt_all. reflexivity.
           ++ (* keep the shrunk clause *)
              rewrite (update_card_exact _ _ Hc1) in H.
              apply IH in H; [|exact Hst|exact Hs|].
              ** destruct H as [P1 [P2 [P3 [P4 P5]]]]. pass_split; auto.
                 intros m. rewrite (P5 m), csem_snoc, csem_mid. apply and_cong_r. intros Hm.
                 rewrite (sat_gclause_card m (GC ls (gc_weights c) card')) by exact Hw.
                 cbn [gc_card gc_lits]. rewrite (Hsem m Hm). reflexivity.
              ** rewrite <- app_assoc. simpl.
                 apply Forall_app in Hgood. destruct Hgood as [G1 G2]. inversion G2; subst.
                 apply Forall_app. split; [exact G1|]. constructor; [|assumption].
                 repeat split; assumption.
      * (* clause satisfied: drop *)
        apply IH in H; [|exact Hst|exact Hs|apply (Forall_app_swap _ _ _ c); exact Hgood].
        destruct H as [P1 [P2 [P3 [P4 P5]]]]. pass_split; auto.
        intros m. rewrite (P5 m), csem_swap, csem_mid. apply and_cong_r. intros Hm.
        rewrite (Hsem m Hm). reflexivity.
Qed.

Lemma sc_step_ok : forall g g' r, sc_step g = (g', r) -> gp_status g = Indet ->
  msound (gp_model g) (gp_units g) -> Forall cardgood (gp_clauses g) ->
  pass_ok cardgood g (gp_clauses g) g'.
Proof.
  intros g g' r H Hi Hs Hg. unfold sc_step in H.
  apply (sc_pass_ok _ _ _ _ _ _ _ H); auto. rewrite Hi. discriminate.
Qed.

(* ------------------------------------------------------------------ *)
(* ParseCardConstrs                                                     *)

Definition wf_cards (cs : list cardconstr) : Prop := Forall (fun c => nonzero (fst c)) cs.

Lemma wf_cardsb_ok : forall cs, forallb wf_cardconstrb cs = true -> wf_cards cs.
Proof.
  intros cs H. unfold wf_cards. rewrite Forall_forall. intros c Hc.
  rewrite forallb_forall in H. specialize (H c Hc). unfold wf_cardconstrb in H.
  unfold nonzero. rewrite Forall_forall. intros l Hl. rewrite forallb_forall in H.
  specialize (H l Hl). apply negb_true_iff in H. apply Z.eqb_neq in H. exact H.
Qed.

Definition sat_cards (m : model) (cs : list cardconstr) : bool :=
  forallb (sat_pbc m) (map card_pbc_of cs).

Lemma sat_card_pbc : forall m lits card,
  sat_pbc m (card_pbc_of (lits, card)) = (card <=? cnt m lits).
Proof. reflexivity. Qed.

Lemma pc_scan_spec : forall cs nb U C e nb' U' C',
  pc_scan cs nb U C = (e, nb', U', C') -> wf_cards cs -> nonzero U -> Forall cardgood C ->
  nonzero U' /\ Forall cardgood C' /\ (length C' <= length C + length cs)%nat /\
  (e = true -> forall m, sat_cards m cs = false) /\
  (e = false -> forall m, sat_units m U' && csem m C' = (sat_units m U && csem m C) && sat_cards m cs).
Proof.
  induction cs as [|[lits card] cs IH]; intros nb U C e nb' U' C' H Hwf HU HC.
  - simpl in H. injection H as <- <- <- <-. simpl.
    split; [exact HU|split; [exact HC|split; [lia|split; [discriminate|]]]].
    intros _ m. unfold sat_cards. simpl. rewrite andb_true_r. reflexivity.
  - inversion Hwf as [|? ? Hlits Hcs]; subst. simpl in Hlits.
    cbn [pc_scan] in H. unfold sat_cards. cbn [map forallb]. fold (sat_cards).
    assert (Hfold : forall m, forallb (sat_pbc m) (map card_pbc_of cs) = sat_cards m cs) by reflexivity.
    destruct (card <=? 0) eqn:E0.
    + apply Z.leb_le in E0. apply IH in H; [|exact Hcs|exact HU|exact HC].
      destruct H as [R1 [R2 [R3 [R4 R5]]]].
      assert (Htriv : forall m, sat_pbc m (card_pbc_of (lits, card)) = true).
      { intros m. rewrite sat_card_pbc. apply Z.leb_le. pose proof (cnt_nonneg m lits). lia. }
      split; [exact R1|split; [exact R2|split; [simpl; lia|split]]].
      * intros He m. rewrite Htriv, Hfold. apply R4. exact He.
      * intros He m. rewrite Htriv, Hfold. apply R5. exact He.
    + apply Z.leb_gt in E0. destruct (Z.of_nat (length lits) <? card) eqn:E1.
      * apply Z.ltb_lt in E1. injection H as <- <- <- <-.
        split; [exact HU|split; [exact HC|split; [simpl; lia|split; [|discriminate]]]].
        intros _ m. rewrite sat_card_pbc. pose proof (cnt_le_length m lits).
        replace (card <=? cnt m lits) with false by (symmetry; apply Z.leb_gt; lia). reflexivity.
      * destruct (Z.of_nat (length lits) =? card) eqn:E2.
        -- apply Z.eqb_eq in E2. apply IH in H; [|exact Hcs|apply nonzero_app; assumption|exact HC].
           destruct H as [R1 [R2 [R3 [R4 R5]]]].
           split; [exact R1|split; [exact R2|split; [simpl; lia|split]]].
           ++ intros He m. rewrite Hfold, (R4 He m). apply andb_false_r.
           ++ intros He m. rewrite (R5 He m), Hfold, sat_units_app, sat_card_pbc, <- E2, cnt_all.
              unfold sat_units.
              destruct (forallb (lit_val m) U); destruct (forallb (lit_val m) lits);
                destruct (csem m C); destruct (sat_cards m cs); reflexivity.
        -- apply IH in H; [|exact Hcs|exact HU|].
           ++ destruct H as [R1 [R2 [R3 [R4 R5]]]].
              split; [exact R1|split; [exact R2|split; [rewrite app_length in R3; simpl in *; lia|split]]].
              ** intros He m. rewrite Hfold, (R4 He m). apply andb_false_r.
              ** intros He m. rewrite (R5 He m), Hfold, csem_app. cbn [csem forallb].
                 rewrite (sat_gclause_card m (GC lits None card)) by reflexivity.
                 cbn [gc_card gc_lits]. rewrite sat_card_pbc.
                 destruct (sat_units m U); destruct (card <=? cnt m lits);
                   destruct (csem m C); destruct (sat_cards m cs); reflexivity.
           ++ apply Forall_app. split; [exact HC|]. constructor; [|constructor].
              split; [reflexivity|split; [simpl; lia|exact Hlits]].
Qed.

Lemma parse_card_master : forall fuel cs, wf_cards cs ->
  (gp_status (parse_card fuel cs) = Sat -> gp_clauses (parse_card fuel cs) = []) /\
  (forall m, sat_gproblem m (parse_card fuel cs) = sat_cards m cs).
Proof.
  intros fuel cs Hwf. unfold parse_card, parse_card_full.
  destruct (pc_scan cs 0 [] []) as [[[e nb] U] C] eqn:Es.
  destruct (pc_scan_spec cs 0 [] [] e nb U C Es Hwf (Forall_nil _) (Forall_nil _))
    as [HU [HC [_ [Hun Hsem]]]].
  destruct e.
  - simpl. split; [discriminate|]. intros m. symmetry. apply Hun. reflexivity.
  - specialize (Hsem eq_refl).
    destruct (bind_units U (repeat 0 (Z.to_nat nb))) as [M ok] eqn:Eb.
    destruct ok.
    + pose proof (bind_units_ok U _ U M HU (incl_refl U) (msound_repeat0 _ U) Eb) as HM.
      destruct (sc_loop fuel (GP nb Indet U M C)) as [g' b] eqn:El. simpl.
      rewrite sc_loop_gen in El.
      destruct (gen_loop_ok cardgood sc_step sc_step_ok fuel _ g' b El eq_refl HM HC)
        as [Q1 [Q2 [Q3 [Q4 Q5]]]]. simpl in *.
      split; [exact Q4|].
      intros m. rewrite (Q5 m). unfold sat_gproblem. simpl. fold (csem m C).
      rewrite (Hsem m). reflexivity.
    + simpl. split; [discriminate|].
      intros m. pose proof (bind_units_conflict U _ U M HU (incl_refl U) (msound_repeat0 _ U) Eb m) as Hc.
      specialize (Hsem m). rewrite Hc in Hsem. simpl in Hsem. rewrite <- Hsem. reflexivity.
Qed.

Theorem parse_card_equiv : forall cs m fuel, forallb wf_cardconstrb cs = true ->
  sat_gproblem m (parse_card fuel cs) = forallb (sat_pbc m) (map card_pbc_of cs).
Proof. intros cs m fuel H. apply (parse_card_master fuel cs (wf_cardsb_ok cs H)). Qed.

Theorem parse_card_status_sat : forall cs fuel, forallb wf_cardconstrb cs = true ->
  gp_status (parse_card fuel cs) = Sat -> gp_clauses (parse_card fuel cs) = [].
Proof. intros cs fuel H. apply (parse_card_master fuel cs (wf_cardsb_ok cs H)). Qed.

(* fuel *)
Lemma sc_pass_len : forall fuel g done todo restart g' r,
  sc_pass fuel g done todo restart = (g', r) ->
  (length (gp_clauses g') <= length (done ++ todo))%nat /\
  (r = true -> restart = true \/ (length (gp_clauses g') < length (done ++ todo))%nat).
Proof.
  induction fuel as [|f IH]; intros g done todo restart g' r H; simpl in H.
  - injection H as <- <-. simpl. split; [lia|auto].
  - destruct todo as [|c t].
    + injection H as <- <-. simpl. rewrite app_nil_r. split; [lia|auto].
    + destruct (sc_lits (length (gc_lits c)) (gp_model g) (gc_card c) [] (gc_lits c)) as [[ls card']|].
      * destruct (Z.of_nat (length ls) <? card').
        -- injection H as <- <-. simpl. split; [lia|auto].
        -- destruct (Z.of_nat (length ls) =? card').
           ++ destruct (is_unsat (add_units g ls)).
              ** injection H as <- <-. simpl. split; [lia|auto].
              ** apply IH in H. destruct H as [H1 H2]. len_norm. split; [lia|intros _; right; lia].
           ++ apply IH in H. destruct H as [H1 H2]. len_norm. split; [lia|].
              intros Hr. destruct (H2 Hr) as [X|X]; [left; exact X|right; lia].
      * apply IH in H. destruct H as [H1 H2]. len_norm. split; [lia|intros _; right; lia].
Qed.

Lemma sc_step_decr : forall g g' r, sc_step g = (g', r) -> is_unsat g' = false -> r = true ->
  (nclauses g' < nclauses g)%nat.
Proof.
  intros g g' r H _ Hr. unfold sc_step in H. apply sc_pass_len in H. destruct H as [_ H].
  destruct (H Hr) as [X|X]; [discriminate|]. exact X.
Qed.

Lemma pc_scan_len : forall cs nb U C e nb' U' C',
  pc_scan cs nb U C = (e, nb', U', C') -> (length C' <= length C + length cs)%nat.
Proof.
  induction cs as [|[lits card] cs IH]; intros nb U C e nb' U' C' H.
  - simpl in H. injection H as <- <- <- <-. simpl. lia.
  - cbn [pc_scan] in H. destruct (card <=? 0).
    + apply IH in H. simpl. lia.
    + destruct (Z.of_nat (length lits) <? card).
      * injection H as <- <- <- <-. simpl. lia.
      * destruct (Z.of_nat (length lits) =? card).
        -- apply IH in H. simpl. lia.
        -- apply IH in H. rewrite app_length in H. simpl in *. lia.
Qed.

Theorem parse_card_fuel_enough : forall cs fuel,
  (length cs < fuel)%nat -> parse_card_done fuel cs = true.
Proof.
  intros cs fuel Hf. unfold parse_card_done, parse_card_full.
  destruct (pc_scan cs 0 [] []) as [[[e nb] U] C] eqn:Es.
  pose proof (pc_scan_len _ _ _ _ _ _ _ _ Es) as HL. simpl in HL.
  destruct e; [reflexivity|].
  destruct (bind_units U (repeat 0 (Z.to_nat nb))) as [M ok]. destruct ok; [|reflexivity].
  rewrite sc_loop_gen. apply (gen_loop_done nclauses sc_step sc_step_decr).
  unfold nclauses. simpl. lia.
Qed.

Theorem parse_card_stable : forall cs fuel fuel',
  parse_card_done fuel cs = true -> (fuel <= fuel')%nat ->
  parse_card fuel' cs = parse_card fuel cs /\ parse_card_done fuel' cs = true.
Proof.
  intros cs fuel fuel'. unfold parse_card_done, parse_card, parse_card_full.
  destruct (pc_scan cs 0 [] []) as [[[e nb] U] C].
  destruct e; [auto|].
  destruct (bind_units U (repeat 0 (Z.to_nat nb))) as [M ok]. destruct ok; [|auto].
  rewrite !sc_loop_gen. destruct (gen_loop sc_step fuel (GP nb Indet U M C)) as [g b] eqn:E.
  simpl. intros -> Hle. rewrite (gen_loop_stable _ _ _ _ E fuel' Hle). auto.
Qed.

(* ------------------------------------------------------------------ *)
(* simplifyPB                                                           *)

Fixpoint sumw (ts : list term) : Z :=
  match ts with [] => 0 | t :: r => fst t + sumw r end.

Lemma sum_weights_sumw : forall ts, sum_weights ts = sumw ts.
Proof.
  intros ts. unfold sum_weights.
  assert (H : forall a, fold_left (fun a t => a + fst t) ts a = a + sumw ts).
  { induction ts as [|t ts IH]; intros a; simpl; [lia|]. rewrite IH. lia. }
  rewrite H. lia.
Qed.

Lemma sumw_app : forall a b, sumw (a ++ b) = sumw a + sumw b.
Proof. intros a b. induction a as [|t a IH]; simpl; [reflexivity|]. rewrite IH. lia. Qed.

Lemma sumw_swap : forall t, sumw (swap_head t) = sumw t.
Proof.
  intros t. destruct (swap_head_split _ t) as [a [b [E1 E2]]].
  rewrite E2. rewrite E1 at 1. rewrite !sumw_app. lia.
Qed.

(* terms handled by simplifyPB: positive weights, non-zero literals *)
Definition tgood (ts : list term) : Prop := Forall (fun t : term => 0 < fst t /\ snd t <> 0) ts.

Lemma lhs_bounds : forall m ts, tgood ts -> 0 <= lhs m ts <= sumw ts.
Proof.
  intros m ts H. induction ts as [|t ts IH]; simpl; [lia|].
  inversion H as [|? ? [Hw _] Hts]; subst. specialize (IH Hts).
  unfold term_val. destruct (lit_val m (snd t)); lia.
Qed.

Lemma lhs_mid : forall m (pre : list term) w l (t : list term),
  lhs m (pre ++ (w, l) :: t) = (if lit_val m l then w else 0) + lhs m (pre ++ t).
Proof. intros. rewrite !lhs_app. simpl. unfold term_val. simpl. lia. Qed.

Lemma lhs_pre_swap : forall m (pre t : list term), lhs m (pre ++ swap_head t) = lhs m (pre ++ t).
Proof. intros. rewrite !lhs_app, swap_head_lhs. reflexivity. Qed.

Lemma tgood_mid : forall (pre : list term) x (t : list term), tgood (pre ++ x :: t) -> tgood (pre ++ swap_head t).
Proof. intros pre x t H. apply (Forall_app_swap _ _ _ x). exact H. Qed.

Lemma tgood_mid_in : forall (pre : list term) w l (t : list term), tgood (pre ++ (w, l) :: t) -> 0 < w /\ l <> 0.
Proof.
  intros pre w l t H. unfold tgood in H. rewrite Forall_forall in H.
  apply (H (w, l)). apply in_app_iff. right. left. reflexivity.
Qed.

Lemma must_true : forall m (pre : list term) w l (t : list term) card,
  tgood (pre ++ (w, l) :: t) -> sumw (pre ++ (w, l) :: t) - w < card ->
  card <= lhs m (pre ++ (w, l) :: t) -> lit_val m l = true.
Proof.
  intros m pre w l t card Hg Hlt Hle. destruct (lit_val m l) eqn:E; [reflexivity|exfalso].
  rewrite lhs_mid, E in Hle. rewrite sumw_app in Hlt. simpl in Hlt.
  pose proof (tgood_mid pre _ t Hg) as Hg'.
  pose proof (lhs_bounds m _ Hg') as Hb. rewrite lhs_pre_swap in Hb.
  rewrite sumw_app, sumw_swap in Hb. lia.
Qed.

Lemma update_card_max : forall stored card w,
  stored = Z.max card 1 -> 0 < w -> update_card stored (- w) = Z.max (card - w) 1.
Proof.
  intros stored card w -> Hw. unfold update_card.
  destruct ((- w <? 0) && (Z.max card 1 - 1 <? - - w)) eqn:E.
  - apply andb_true_iff in E. destruct E as [_ E]. apply Z.ltb_lt in E. lia.
  - apply andb_false_iff in E. destruct E as [E|E]; apply Z.ltb_ge in E; lia.
Qed.

Definition csat (m : model) (U : list lit) (card : Z) (ts : list term) : bool :=
  sat_units m U && (card <=? lhs m ts).

Lemma spb_lits_ok : forall fuel g card stored wsum pre todo modified,
  msound (gp_model g) (gp_units g) -> gp_status g <> Unsat ->
  tgood (pre ++ todo) -> wsum = sumw (pre ++ todo) -> stored = Z.max card 1 ->
  let s := spb_lits fuel g card stored wsum pre todo modified in
  gp_nbvars (sp_g s) = gp_nbvars g /\
  msound (gp_model (sp_g s)) (gp_units (sp_g s)) /\
  tgood (sp_terms s) /\ sp_wsum s = sumw (sp_terms s) /\ sp_stored s = Z.max (sp_card s) 1 /\
  (if sp_abort s then gp_status (sp_g s) = Unsat else gp_status (sp_g s) = gp_status g) /\
  (forall m, (if sp_abort s then false
              else csat m (gp_units (sp_g s)) (sp_card s) (sp_terms s))
             = csat m (gp_units g) card (pre ++ todo)).
Proof.
  induction fuel as [|f IH]; intros g card stored wsum pre todo modified Hs Hst Hg Hw Hsc.
  - simpl. repeat (split; [assumption || reflexivity|]). intros m. reflexivity.
  - destruct todo as [|[w l] t].
    + simpl. rewrite app_nil_r in *. repeat (split; [assumption || reflexivity|]). intros m. reflexivity.
    + destruct (tgood_mid_in _ _ _ _ Hg) as [Hwpos Hl].
      pose proof (tgood_mid _ _ _ Hg) as Hg'.
      assert (Hw' : wsum - w = sumw (pre ++ swap_head t)).
      { rewrite Hw, !sumw_app, sumw_swap. simpl. lia. }
      cbn [spb_lits].
      destruct (mget (gp_model g) l =? 0) eqn:E0.
      * destruct (wsum - w <? card) eqn:Ef.
        -- (* forced literal *)
           apply Z.ltb_lt in Ef.
           assert (Hmust : forall m, card <= lhs m (pre ++ (w, l) :: t) -> lit_val m l = true).
           { intros m. apply (must_true m pre w l t card Hg). pose proof Ef as X. rewrite Hw in X. exact X. }
           destruct (add_unit_spec g l Hs Hl) as [[A1 [A2 [A3 [_ A4]]]]|[A1 [A2 [A3 A4]]]].
           ++ assert (Eu : is_unsat (add_unit g l) = true) by (apply is_unsat_true; exact A1).
              rewrite Eu. cbn [sp_g sp_card sp_stored sp_wsum sp_terms sp_abort].
              split; [apply add_unit_nbvars|]. split; [rewrite A2, A3; exact Hs|].
              split; [exact Hg|]. split; [exact Hw|]. split; [exact Hsc|]. split; [exact A1|].
              intros m. unfold csat. symmetry.
              destruct (sat_units m (gp_units g)) eqn:Em; [|reflexivity]. simpl.
              apply Z.leb_gt. destruct (Z_lt_le_dec (lhs m (pre ++ (w, l) :: t)) card) as [L|L]; [exact L|].
              specialize (A4 m Em). rewrite (Hmust m L) in A4. discriminate.
           ++ assert (Eu : is_unsat (add_unit g l) = false)
                by (apply is_unsat_false; rewrite A1; exact Hst).
              rewrite Eu.
              assert (Hst1 : gp_status (add_unit g l) <> Unsat) by (rewrite A1; exact Hst).
              specialize (IH (add_unit g l) (card - w) (update_card stored (- w)) (wsum - w)
                             pre (swap_head t) true A4 Hst1 Hg' Hw'
                             (update_card_max _ _ _ Hsc Hwpos)).
              cbv zeta in IH. destruct IH as [I1 [I2 [I3 [I4 [I5 [I6 I7]]]]]].
              rewrite add_unit_nbvars in I1.
              split; [exact I1|]. split; [exact I2|]. split; [exact I3|]. split; [exact I4|].
              split; [exact I5|]. split.
              ** destruct (sp_abort _); [exact I6|rewrite I6; exact A1].
              ** intros m. rewrite (I7 m). unfold csat. rewrite A2, sat_units_app. simpl.
                 rewrite andb_true_r, lhs_pre_swap, lhs_mid.
                 destruct (sat_units m (gp_units g)) eqn:Em; [simpl|reflexivity].
                 destruct (lit_val m l) eqn:El; simpl.
                 --- apply eq_true_iff_eq. rewrite !Z.leb_le. lia.
                 --- symmetry. apply Z.leb_gt.
                     destruct (Z_lt_le_dec (0 + lhs m (pre ++ t)) card) as [L|L]; [exact L|exfalso].
                     assert (X : card <= lhs m (pre ++ (w, l) :: t)) by (rewrite lhs_mid, El; exact L).
                     rewrite (Hmust m X) in El. discriminate.
        -- (* literal kept *)
           specialize (IH g card stored wsum (pre ++ [(w, l)]) t modified Hs Hst).
           rewrite <- app_assoc in IH. simpl in IH. exact (IH Hg Hw Hsc).
      * (* bound literal *)
        apply Z.eqb_neq in E0.
        assert (Hval : forall m, sat_units m (gp_units g) = true -> lit_val m l = mtrue (gp_model g) l).
        { intros m Hm. destruct Hs as [_ Hs]. apply (Hs m Hm l Hl E0). }
        destruct (mtrue (gp_model g) l) eqn:Et.
        -- specialize (IH g (card - w) (update_card stored (- w)) (wsum - w) pre (swap_head t) true
                          Hs Hst Hg' Hw' (update_card_max _ _ _ Hsc Hwpos)).
           cbv zeta in IH. destruct IH as [I1 [I2 [I3 [I4 [I5 [I6 I7]]]]]].
           split; [exact I1|]. split; [exact I2|]. split; [exact I3|]. split; [exact I4|].
           split; [exact I5|]. split; [exact I6|].
           intros m. rewrite (I7 m). unfold csat. rewrite lhs_pre_swap, lhs_mid.
           apply and_cong_r. intros Hm. rewrite (Hval m Hm).
           apply eq_true_iff_eq. rewrite !Z.leb_le. lia.
        -- specialize (IH g card stored (wsum - w) pre (swap_head t) true Hs Hst Hg' Hw' Hsc).
           cbv zeta in IH. destruct IH as [I1 [I2 [I3 [I4 [I5 [I6 I7]]]]]].
           split; [exact I1|]. split; [exact I2|]. split; [exact I3|]. split; [exact I4|].
           split; [exact I5|]. split; [exact I6|].
           intros m. rewrite (I7 m). unfold csat. rewrite lhs_pre_swap, lhs_mid.
           apply and_cong_r. intros Hm. rewrite (Hval m Hm). reflexivity.
Qed.

(* PB clauses handled by simplifyPB *)
Definition pbgood (c : gclause) : Prop := 1 <= gc_card c /\ tgood (gc_terms c).

Lemma combine_fst_snd_map : forall (ts : list term), combine (map fst ts) (map snd ts) = ts.
Proof.
  induction ts as [|[w l] ts IH]; simpl; [reflexivity|]. rewrite IH. reflexivity.
Qed.

Lemma gc_terms_terms_clause : forall ts card, gc_terms (terms_clause ts card) = ts.
Proof. intros. unfold gc_terms, terms_clause. simpl. apply combine_fst_snd_map. Qed.

Lemma sat_gclause_csat : forall m U c,
  sat_units m U && sat_gclause m c = csat m U (gc_card c) (gc_terms c).
Proof. reflexivity. Qed.

Lemma spb_pass_ok : forall fuel g done todo modified g' r,
  spb_pass fuel g done todo modified = (g', r) ->
  gp_status g <> Unsat -> msound (gp_model g) (gp_units g) -> Forall pbgood (done ++ todo) ->
  pass_ok pbgood g (done ++ todo) g'.
Proof.
  induction fuel as [|f IH]; intros g done todo modified g' r H Hst Hs Hgood; simpl in H.
  - injection H as <- <-. pass_split; simpl; auto.
    intros m. apply (sat_gproblem_live m (set_clauses g (done ++ todo))). exact Hst.
  - destruct todo as [|c t].
    + injection H as <- <-. rewrite app_nil_r in *. pass_split; simpl; auto.
      intros m. apply (sat_gproblem_live m (set_clauses g done)). exact Hst.
    + assert (Hc : pbgood c).
      { rewrite Forall_forall in Hgood. apply Hgood. apply in_app_iff. right. left. reflexivity. }
      destruct Hc as [Hcard Htg].
      assert (Hsc : gc_card c = Z.max (gc_card c) 1) by lia.
      pose proof (spb_lits_ok (length (gc_terms c)) g (gc_card c) (gc_card c)
                    (sum_weights (gc_terms c)) [] (gc_terms c) modified Hs Hst Htg
                    (sum_weights_sumw _) Hsc) as L.
      cbv zeta in L. simpl app in L.
      destruct (spb_lits (length (gc_terms c)) g (gc_card c) (gc_card c)
                  (sum_weights (gc_terms c)) [] (gc_terms c) modified)
        as [gs cards storeds wsums tss mods aborts] eqn:El.
      cbn [sp_g sp_card sp_stored sp_wsum sp_terms sp_modified sp_abort] in *.
      destruct L as [L1 [L2 [L3 [L4 [L5 [L6 L7]]]]]].
      assert (Hkey : forall m, sat_units m (gp_units g) && csem m (done ++ c :: t)
                = (sat_units m (gp_units g) && sat_gclause m c) && csem m (done ++ t)).
      { intros m. rewrite csem_mid, andb_assoc. reflexivity. }
      destruct aborts.
      * (* addUnit conflict *)
        injection H as <- <-. pass_split; simpl; auto.
        intros m. rewrite sat_gproblem_unsat by exact L6.
        rewrite Hkey, sat_gclause_csat, <- (L7 m). reflexivity.
      * destruct (cards <=? 0) eqn:E1.
        -- (* constraint satisfied: drop *)
           apply Z.leb_le in E1.
           apply IH in H; [|rewrite L6; exact Hst|exact L2|apply (Forall_app_swap _ _ _ c); exact Hgood].
           destruct H as [P1 [P2 [P3 [P4 P5]]]]. rewrite L6 in P1. rewrite L1 in P2.
           pass_split; auto.
           intros m. rewrite (P5 m), csem_swap, Hkey, sat_gclause_csat, <- (L7 m).
           unfold csat. pose proof (lhs_bounds m tss L3).
           replace (cards <=? lhs m tss) with true by (symmetry; apply Z.leb_le; lia).
           rewrite andb_true_r. reflexivity.
        -- apply Z.leb_gt in E1. destruct (wsums <? cards) eqn:E2.
           ++ (* cannot be satisfied *)
              apply Z.ltb_lt in E2.
              injection H as <- <-. pass_split; simpl; auto.
              intros m. rewrite Hkey, sat_gclause_csat, <- (L7 m).
              unfold csat. pose proof (lhs_bounds m tss L3).
              replace (cards <=? lhs m tss) with false by (symmetry; apply Z.leb_gt; lia).
              rewrite andb_false_r. reflexivity.
           ++ (* keep *)
              assert (Est : storeds = cards) by lia.
              apply IH in H; [|rewrite L6; exact Hst|exact L2|].
              ** destruct H as [P1 [P2 [P3 [P4 P5]]]]. rewrite L6 in P1. rewrite L1 in P2.
                 pass_split; auto.
                 intros m. rewrite (P5 m), csem_snoc, Hkey, sat_gclause_csat, <- (L7 m).
                 unfold csat, sat_gclause. rewrite gc_terms_terms_clause. cbn [terms_clause gc_card].
                 rewrite Est, andb_assoc. reflexivity.
              ** rewrite <- app_assoc. simpl.
                 apply Forall_app in Hgood. destruct Hgood as [G1 G2]. inversion G2; subst.
                 apply Forall_app. split; [exact G1|]. constructor; [|assumption].
                 split; [cbn [terms_clause gc_card]; lia|].
                 rewrite gc_terms_terms_clause. exact L3.
Qed.

Lemma spb_step_ok : forall g g' r, spb_step g = (g', r) -> gp_status g = Indet ->
  msound (gp_model g) (gp_units g) -> Forall pbgood (gp_clauses g) ->
  pass_ok pbgood g (gp_clauses g) g'.
Proof.
  intros g g' r H Hi Hs Hg. unfold spb_step in H.
  apply (spb_pass_ok _ _ _ _ _ _ _ H); auto. rewrite Hi. discriminate.
Qed.

(* replicateUnits does nothing observable when Model already mirrors Units *)
Lemma replicate_units_sound : forall g, nonzero (gp_units g) ->
  msound (gp_model g) (gp_units g) ->
  msound (gp_model (replicate_units g)) (gp_units (replicate_units g)).
Proof.
  intros g Hnz Hs. unfold replicate_units. simpl.
  assert (H : forall R M, incl R (gp_units g) -> nonzero R -> msound M (gp_units g) ->
            msound (fold_left (fun M u => mset M u (if 0 <? u then 1 else -1)) R M) (gp_units g)).
  { induction R as [|u R IH]; intros M Hi Hn HM; simpl; [exact HM|].
    inversion Hn as [|? ? Hu HR]; subst.
    apply IH; [intros x Hx; apply Hi; right; exact Hx|exact HR|].
    apply (msound_mset M (gp_units g) (gp_units g) u HM Hu).
    intros m Hm. split; [exact Hm|]. apply (sat_units_in m _ u Hm). apply Hi. left. reflexivity. }
  apply H; [apply incl_refl|exact Hnz|exact Hs].
Qed.

(* ------------------------------------------------------------------ *)
(* ParsePBConstrs                                                       *)

Definition wf_pbs (cs : list pbconstr) : Prop := Forall (fun c => wf_pbconstrb c = true) cs.

Lemma wf_pbsb_ok : forall cs, forallb wf_pbconstrb cs = true -> wf_pbs cs.
Proof. intros cs H. unfold wf_pbs. rewrite Forall_forall. rewrite forallb_forall in H. exact H. Qed.

Definition sat_pbs (m : model) (cs : list pbconstr) : bool :=
  forallb (sat_pbc m) (map pbconstr_pbc cs).

Lemma nonzero_b : forall ls, forallb (fun l => negb (l =? 0)) ls = true -> nonzero ls.
Proof.
  intros ls H. unfold nonzero. rewrite Forall_forall. intros l Hl. rewrite forallb_forall in H.
  specialize (H l Hl). apply negb_true_iff in H. apply Z.eqb_neq in H. exact H.
Qed.

Lemma unit_terms_tgood : forall ls, nonzero ls -> tgood (unit_terms ls).
Proof.
  intros ls H. induction H as [|l ls Hl _ IH]; simpl; [constructor|].
  constructor; [simpl; split; [lia|exact Hl]|exact IH].
Qed.

Lemma combine_tgood : forall ws ls, nonzero ls -> Forall (fun w => 0 < w) ws -> tgood (combine ws ls).
Proof.
  induction ws as [|w ws IH]; intros ls Hl Hw; simpl; [constructor|].
  destruct ls as [|l ls]; [constructor|].
  inversion Hl; subst. inversion Hw; subst. constructor; [simpl; split; assumption|].
  apply IH; assumption.
Qed.

Lemma map_snd_combine_eq : forall (ws : list Z) (ls : list lit),
  length ws = length ls -> map snd (combine ws ls) = ls.
Proof.
  induction ws as [|w ws IH]; intros [|l ls] H; simpl in *; try discriminate; [reflexivity|].
  rewrite IH by lia. reflexivity.
Qed.

Lemma sumw_combine : forall (ws : list Z) (ls : list lit),
  length ws = length ls -> sumw (combine ws ls) = fold_left Z.add ws 0.
Proof.
  intros ws ls H.
  assert (G : forall ws a, fold_left Z.add ws a = a + fold_left Z.add ws 0).
  { induction ws0 as [|w ws0 IH]; intros a; simpl; [lia|]. rewrite IH. rewrite (IH w). lia. }
  revert ls H. induction ws as [|w ws IH]; intros [|l ls] H; simpl in *; try discriminate; [reflexivity|].
  rewrite IH by lia. rewrite (G ws w). lia.
Qed.

Lemma sumw_unit_terms : forall ls, sumw (unit_terms ls) = Z.of_nat (length ls).
Proof. induction ls as [|l ls IH]; [reflexivity|]. cbn [unit_terms map sumw fst length]. unfold unit_terms in IH. rewrite IH. lia. Qed.

Lemma map_snd_unit_terms : forall ls, map snd (unit_terms ls) = ls.
Proof. induction ls as [|l ls IH]; simpl; [reflexivity|]. rewrite IH. reflexivity. Qed.

(* facts about a well-formed PBConstr *)
Lemma wf_pbconstr_facts : forall c, wf_pbconstrb c = true ->
  nonzero (pc_lits c) /\ tgood (pbconstr_terms c) /\
  pc_weight_sum c = sumw (pbconstr_terms c) /\ map snd (pbconstr_terms c) = pc_lits c.
Proof.
  intros c H. unfold wf_pbconstrb in H. apply andb_true_iff in H. destruct H as [H1 H2].
  apply nonzero_b in H1. unfold pbconstr_terms, pc_weight_sum.
  destruct (pc_weights c) as [ws|].
  - apply andb_true_iff in H2. destruct H2 as [H2 H3]. apply Nat.eqb_eq in H2.
    assert (Hpos : Forall (fun w => 0 < w) ws).
    { rewrite Forall_forall. intros w Hw. rewrite forallb_forall in H3. apply Z.ltb_lt. apply H3. exact Hw. }
    split; [exact H1|split; [apply combine_tgood; assumption|split]].
    + symmetry. apply sumw_combine. exact H2.
    + apply map_snd_combine_eq. exact H2.
  - split; [exact H1|split; [apply unit_terms_tgood; exact H1|split]].
    + symmetry. apply sumw_unit_terms.
    + apply map_snd_unit_terms.
Qed.

(* all weights are needed: every literal must be true *)
Lemma lhs_all : forall m ts, tgood ts ->
  (sumw ts <=? lhs m ts) = forallb (lit_val m) (map snd ts).
Proof.
  intros m ts H. induction ts as [|t ts IH]; [reflexivity|].
  inversion H as [|? ? [Hw _] Hts]; subst. specialize (IH Hts).
  pose proof (lhs_bounds m ts Hts) as Hb.
  cbn [sumw lhs map forallb]. unfold term_val. destruct (lit_val m (snd t)); cbn [andb].
  - rewrite <- IH. apply eq_true_iff_eq. rewrite !Z.leb_le. lia.
  - apply Z.leb_gt. lia.
Qed.

(* NewPBClause *)
Lemma insert_term_lhs : forall m t ts, lhs m (insert_term t ts) = term_val m t + lhs m ts.
Proof.
  intros m t ts. induction ts as [|h r IH]; simpl; [reflexivity|].
  destruct (fst h <? fst t); simpl; [reflexivity|]. rewrite IH. lia.
Qed.

Lemma insert_term_tgood : forall (t : term) ts, 0 < fst t /\ snd t <> 0 -> tgood ts -> tgood (insert_term t ts).
Proof.
  intros t ts Ht H. induction H as [|h r Hh Hr IH]; simpl.
  - constructor; [exact Ht|constructor].
  - destruct (fst h <? fst t).
    + constructor; [exact Ht|]. constructor; assumption.
    + constructor; assumption.
Qed.

Lemma sort_terms_ok : forall m ts, tgood ts ->
  lhs m (sort_terms ts) = lhs m ts /\ tgood (sort_terms ts).
Proof.
  intros m ts H. unfold sort_terms.
  assert (G : forall ts acc, tgood ts -> tgood acc ->
            lhs m (fold_left (fun acc t => insert_term t acc) ts acc) = lhs m acc + lhs m ts /\
            tgood (fold_left (fun acc t => insert_term t acc) ts acc)).
  { induction ts0 as [|t ts0 IH]; intros acc Hts Hacc; simpl.
    - split; [lia|exact Hacc].
    - inversion Hts as [|? ? Ht Hts0]; subst.
      destruct (IH (insert_term t acc) Hts0 (insert_term_tgood t acc Ht Hacc)) as [I1 I2].
      split; [|exact I2]. rewrite I1, insert_term_lhs. lia. }
  destruct (G ts [] H (Forall_nil _)) as [G1 G2]. split; [|exact G2]. rewrite G1. simpl. lia.
Qed.

Lemma combine_repeat1 : forall ls : list lit, combine (repeat 1 (length ls)) ls = unit_terms ls.
Proof. induction ls as [|l ls IH]; simpl; [reflexivity|]. rewrite IH. reflexivity. Qed.

Lemma new_pb_clause_ok : forall c, wf_pbconstrb c = true -> 0 < pc_atleast c ->
  pbgood (new_pb_clause (pc_lits c) (pc_weights c) (pc_atleast c)) /\
  forall m, sat_gclause m (new_pb_clause (pc_lits c) (pc_weights c) (pc_atleast c))
            = sat_pbc m (pbconstr_pbc c).
Proof.
  intros c Hwf Hpos. destruct (wf_pbconstr_facts c Hwf) as [F1 [F2 [F3 F4]]].
  unfold new_pb_clause, pbconstr_pbc, pbconstr_terms in *. unfold sat_pbc. simpl.
  destruct (pc_weights c) as [ws|].
  - split.
    + split; [simpl; lia|]. rewrite gc_terms_terms_clause.
      apply (sort_terms_ok [] _ F2).
    + intros m. unfold sat_gclause. rewrite gc_terms_terms_clause. simpl.
      destruct (sort_terms_ok m _ F2) as [E _]. rewrite E. reflexivity.
  - split.
    + split; [simpl; lia|]. unfold gc_terms. simpl. rewrite combine_repeat1. exact F2.
    + intros m. unfold sat_gclause, gc_terms. simpl. rewrite combine_repeat1. reflexivity.
Qed.

Lemma add_new_units_ok : forall lits U, nonzero U -> nonzero lits ->
  nonzero (add_new_units U lits) /\
  forall m, sat_units m (add_new_units U lits) = sat_units m U && forallb (lit_val m) lits.
Proof.
  unfold add_new_units. induction lits as [|l lits IH]; intros U HU Hl; simpl.
  - split; [exact HU|]. intros m. rewrite andb_true_r. reflexivity.
  - inversion Hl as [|? ? Hl0 Hls]; subst.
    destruct (existsb (Z.eqb l) U) eqn:E.
    + destruct (IH U HU Hls) as [I1 I2]. split; [exact I1|].
      intros m. rewrite (I2 m). apply existsb_exists in E. destruct E as [x [Hx Ex]].
      apply Z.eqb_eq in Ex. subst x.
      destruct (sat_units m U) eqn:Em; [|reflexivity]. simpl.
      rewrite (sat_units_in m U l Em Hx). reflexivity.
    + assert (HU' : nonzero (U ++ [l])) by (apply nonzero_app; [exact HU|constructor; [exact Hl0|constructor]]).
      destruct (IH (U ++ [l]) HU' Hls) as [I1 I2]. split; [exact I1|].
      intros m. transitivity (sat_units m (U ++ [l]) && forallb (lit_val m) lits); [apply I2|].
      rewrite sat_units_app. simpl. rewrite andb_true_r, andb_assoc. reflexivity.
Qed.

Lemma pp_scan_spec : forall cs nb U C e nb' U' C',
  pp_scan cs nb U C = (e, nb', U', C') -> wf_pbs cs -> nonzero U -> Forall pbgood C ->
  nonzero U' /\ Forall pbgood C' /\
  (e = true -> forall m, sat_pbs m cs = false) /\
  (e = false -> forall m, sat_units m U' && csem m C' = (sat_units m U && csem m C) && sat_pbs m cs).
Proof.
  induction cs as [|c cs IH]; intros nb U C e nb' U' C' H Hwf HU HC.
  - simpl in H. injection H as <- <- <- <-. simpl.
    split; [exact HU|split; [exact HC|split; [discriminate|]]].
    intros _ m. unfold sat_pbs. simpl. rewrite andb_true_r. reflexivity.
  - inversion Hwf as [|? ? Hc Hcs]; subst.
    destruct (wf_pbconstr_facts c Hc) as [F1 [F2 [F3 F4]]].
    cbn [pp_scan] in H. cbv zeta in H. unfold sat_pbs. cbn [map forallb].
    assert (Hfold : forall m, forallb (sat_pbc m) (map pbconstr_pbc cs) = sat_pbs m cs) by reflexivity.
    assert (Hsat : forall m, sat_pbc m (pbconstr_pbc c) = (pc_atleast c <=? lhs m (pbconstr_terms c)))
      by reflexivity.
    destruct (pc_atleast c <=? 0) eqn:E0.
    + apply Z.leb_le in E0. apply IH in H; [|exact Hcs|exact HU|exact HC].
      destruct H as [R1 [R2 [R4 R5]]].
      assert (Htriv : forall m, sat_pbc m (pbconstr_pbc c) = true).
      { intros m. rewrite Hsat. apply Z.leb_le. pose proof (lhs_bounds m _ F2). lia. }
      split; [exact R1|split; [exact R2|split]].
      * intros He m. rewrite Htriv, Hfold. apply R4. exact He.
      * intros He m. rewrite Htriv, Hfold. apply R5. exact He.
    + apply Z.leb_gt in E0. destruct (pc_weight_sum c <? pc_atleast c) eqn:E1.
      * apply Z.ltb_lt in E1. injection H as <- <- <- <-.
        split; [exact HU|split; [exact HC|split; [|discriminate]]].
        intros _ m. rewrite Hsat. pose proof (lhs_bounds m _ F2).
        replace (pc_atleast c <=? lhs m (pbconstr_terms c)) with false
          by (symmetry; apply Z.leb_gt; lia). reflexivity.
      * destruct (pc_weight_sum c =? pc_atleast c) eqn:E2.
        -- apply Z.eqb_eq in E2.
           destruct (add_new_units_ok (pc_lits c) U HU F1) as [N1 N2].
           apply IH in H; [|exact Hcs|exact N1|exact HC].
           destruct H as [R1 [R2 [R4 R5]]].
           split; [exact R1|split; [exact R2|split]].
           ++ intros He m. rewrite Hfold, (R4 He m). apply andb_false_r.
           ++ intros He m. rewrite (R5 He m), Hfold, (N2 m), Hsat, <- E2, F3, (lhs_all m _ F2), F4.
              destruct (sat_units m U); destruct (forallb (lit_val m) (pc_lits c));
                destruct (csem m C); destruct (sat_pbs m cs); reflexivity.
        -- destruct (new_pb_clause_ok c Hc E0) as [G1 G2].
           apply IH in H; [|exact Hcs|exact HU|].
           ++ destruct H as [R1 [R2 [R4 R5]]].
              split; [exact R1|split; [exact R2|split]].
              ** intros He m. rewrite Hfold, (R4 He m). apply andb_false_r.
              ** intros He m. rewrite (R5 He m), Hfold, csem_app. cbn [csem forallb].
                 rewrite (G2 m).
                 destruct (sat_units m U); destruct (sat_pbc m (pbconstr_pbc c));
                   destruct (csem m C); destruct (sat_pbs m cs); reflexivity.
           ++ apply Forall_app. split; [exact HC|]. constructor; [exact G1|constructor].
Qed.

Lemma parse_pb_master : forall fuel cs, wf_pbs cs ->
  (gp_status (parse_pb fuel cs) = Sat -> gp_clauses (parse_pb fuel cs) = []) /\
  (forall m, sat_gproblem m (parse_pb fuel cs) = sat_pbs m cs).
Proof.
  intros fuel cs Hwf. unfold parse_pb, parse_pb_full.
  destruct (pp_scan cs 0 [] []) as [[[e nb] U] C] eqn:Es.
  destruct (pp_scan_spec cs 0 [] [] e nb U C Es Hwf (Forall_nil _) (Forall_nil _))
    as [HU [HC [Hun Hsem]]].
  destruct e.
  - simpl. split; [discriminate|]. intros m. symmetry. apply Hun. reflexivity.
  - specialize (Hsem eq_refl).
    destruct (bind_units U (repeat 0 (Z.to_nat nb))) as [M ok] eqn:Eb.
    destruct ok.
    + pose proof (bind_units_ok U _ U M HU (incl_refl U) (msound_repeat0 _ U) Eb) as HM.
      unfold simplify_pb.
      pose proof (replicate_units_sound (GP nb Indet U M C) HU HM) as HM'.
      destruct (spb_loop fuel (replicate_units (GP nb Indet U M C))) as [g' b] eqn:El. simpl.
      rewrite spb_loop_gen in El.
      destruct (gen_loop_ok pbgood spb_step spb_step_ok fuel _ g' b El eq_refl HM' HC)
        as [Q1 [Q2 [Q3 [Q4 Q5]]]]. simpl in *.
      split; [exact Q4|].
      intros m. rewrite (Q5 m). unfold sat_gproblem. simpl. fold (csem m C).
      rewrite (Hsem m). reflexivity.
    + simpl. split; [discriminate|].
      intros m. pose proof (bind_units_conflict U _ U M HU (incl_refl U) (msound_repeat0 _ U) Eb m) as Hc.
      specialize (Hsem m). rewrite Hc in Hsem. simpl in Hsem. rewrite <- Hsem. reflexivity.
Qed.

Theorem parse_pb_equiv : forall cs m fuel, forallb wf_pbconstrb cs = true ->
  sat_gproblem m (parse_pb fuel cs) = forallb (sat_pbc m) (map pbconstr_pbc cs).
Proof. intros cs m fuel H. apply (parse_pb_master fuel cs (wf_pbsb_ok cs H)). Qed.

Theorem parse_pb_status_sat : forall cs fuel, forallb wf_pbconstrb cs = true ->
  gp_status (parse_pb fuel cs) = Sat -> gp_clauses (parse_pb fuel cs) = [].
Proof. intros cs fuel H. apply (parse_pb_master fuel cs (wf_pbsb_ok cs H)). Qed.

(* fuel for parse_pb: a pass that sets "modified" (and is not Unsat) has
   removed a term or a constraint *)
Definition msize (cls : list gclause) : nat :=
  fold_right (fun c a => (S (length (gc_terms c)) + a)%nat) O cls.

Lemma msize_app : forall a b, msize (a ++ b) = (msize a + msize b)%nat.
Proof. intros a b. induction a as [|c a IH]; simpl; [reflexivity|]. rewrite IH. lia. Qed.

Lemma msize_cons : forall c t, msize (c :: t) = (S (length (gc_terms c)) + msize t)%nat.
Proof. reflexivity. Qed.

Lemma msize_swap : forall t, msize (swap_head t) = msize t.
Proof.
  intros t. destruct (swap_head_split _ t) as [a [b [E1 E2]]].
  rewrite E2. rewrite E1 at 1. rewrite !msize_app. lia.
Qed.

Lemma spb_lits_abort : forall fuel g card stored wsum pre todo modified,
  sp_abort (spb_lits fuel g card stored wsum pre todo modified) = true ->
  is_unsat (sp_g (spb_lits fuel g card stored wsum pre todo modified)) = true.
Proof.
  induction fuel as [|f IH]; intros g card stored wsum pre todo modified; simpl; [discriminate|].
  destruct todo as [|[w l] t]; [simpl; discriminate|].
  destruct (mget (gp_model g) l =? 0).
  - destruct (wsum - w <? card).
    + destruct (is_unsat (add_unit g l)) eqn:Eu; [simpl; intros _; exact Eu|apply IH].
    + apply IH.
  - destruct (mtrue (gp_model g) l); apply IH.
Qed.

Lemma spb_lits_len : forall fuel g card stored wsum pre todo modified,
  (length (sp_terms (spb_lits fuel g card stored wsum pre todo modified)) <= length (pre ++ todo))%nat /\
  (sp_modified (spb_lits fuel g card stored wsum pre todo modified) = true ->
     modified = true \/
     (length (sp_terms (spb_lits fuel g card stored wsum pre todo modified)) < length (pre ++ todo))%nat).
Proof.
  induction fuel as [|f IH]; intros g card stored wsum pre todo modified; simpl.
  - split; [lia|auto].
  - destruct todo as [|[w l] t]; [simpl; rewrite app_nil_r; split; [lia|auto]|].
    destruct (mget (gp_model g) l =? 0).
    + destruct (wsum - w <? card).
      * destruct (is_unsat (add_unit g l)); [simpl; split; [lia|auto]|].
        destruct (IH (add_unit g l) (card - w) (update_card stored (- w)) (wsum - w) pre (swap_head t) true)
          as [H1 H2].
        len_norm. split; [lia|intros _; right; lia].
      * destruct (IH g card stored wsum (pre ++ [(w, l)]) t modified) as [H1 H2].
        len_norm. split; [lia|]. intros Hm. destruct (H2 Hm) as [X|X]; [left; exact X|right; lia].
    + destruct (mtrue (gp_model g) l).
      * destruct (IH g (card - w) (update_card stored (- w)) (wsum - w) pre (swap_head t) true) as [H1 H2].
        len_norm. split; [lia|intros _; right; lia].
      * destruct (IH g card stored (wsum - w) pre (swap_head t) true) as [H1 H2].
        len_norm. split; [lia|intros _; right; lia].
Qed.

Lemma spb_pass_size : forall fuel g done todo modified g' r,
  spb_pass fuel g done todo modified = (g', r) -> is_unsat g' = false ->
  (msize (gp_clauses g') <= msize (done ++ todo))%nat /\
  (r = true -> modified = true \/ (msize (gp_clauses g') < msize (done ++ todo))%nat).
Proof.
  induction fuel as [|f IH]; intros g done todo modified g' r H Hu; simpl in H.
  - injection H as <- <-. simpl. split; [lia|auto].
  - destruct todo as [|c t].
    + injection H as <- <-. simpl. rewrite app_nil_r. split; [lia|auto].
    + pose proof (spb_lits_abort (length (gc_terms c)) g (gc_card c) (gc_card c)
                    (sum_weights (gc_terms c)) [] (gc_terms c) modified) as Hab.
      destruct (spb_lits_len (length (gc_terms c)) g (gc_card c) (gc_card c)
                    (sum_weights (gc_terms c)) [] (gc_terms c) modified) as [Hl1 Hl2].
      destruct (spb_lits (length (gc_terms c)) g (gc_card c) (gc_card c)
                  (sum_weights (gc_terms c)) [] (gc_terms c) modified)
        as [gs cards storeds wsums tss mods aborts].
      cbn [sp_g sp_card sp_stored sp_wsum sp_terms sp_modified sp_abort] in *. simpl in Hl1, Hl2.
      destruct aborts.
      * injection H as <- <-. unfold is_unsat in *. simpl in Hu. rewrite (Hab eq_refl) in Hu. discriminate.
      * destruct (cards <=? 0).
        -- apply IH in H; [|exact Hu]. destruct H as [H1 H2].
           rewrite !msize_app, ?msize_swap, ?msize_cons in *. split; [lia|intros _; right; lia].
        -- destruct (wsums <? cards).
           ++ injection H as <- <-. discriminate.
           ++ apply IH in H; [|exact Hu]. destruct H as [H1 H2].
              rewrite !msize_app, !msize_cons in *. rewrite gc_terms_terms_clause in *.
              change (msize []) with O in *.
              split; [lia|]. intros Hr. destruct (H2 Hr) as [X|X]; [|right; lia].
              destruct (Hl2 X) as [Y|Y]; [left; exact Y|right; lia].
Qed.

Definition gsize (g : gproblem) : nat := msize (gp_clauses g).

Lemma spb_step_decr : forall g g' r, spb_step g = (g', r) -> is_unsat g' = false -> r = true ->
  (gsize g' < gsize g)%nat.
Proof.
  intros g g' r H Hu Hr. unfold spb_step in H. apply spb_pass_size in H; [|exact Hu].
  destruct H as [_ H]. destruct (H Hr) as [X|X]; [discriminate|]. exact X.
Qed.

Lemma insert_term_length : forall t ts, length (insert_term t ts) = S (length ts).
Proof.
  intros t ts. induction ts as [|h r IH]; simpl; [reflexivity|].
  destruct (fst h <? fst t); simpl; [reflexivity|]. rewrite IH. reflexivity.
Qed.

Lemma sort_terms_length : forall ts, length (sort_terms ts) = length ts.
Proof.
  intros ts. unfold sort_terms.
  assert (G : forall ts acc, length (fold_left (fun acc t => insert_term t acc) ts acc)
                             = (length acc + length ts)%nat).
  { induction ts0 as [|t ts0 IH]; intros acc; simpl; [lia|]. rewrite IH, insert_term_length. lia. }
  rewrite G. reflexivity.
Qed.

Lemma new_pb_clause_size : forall lits ws card,
  (length (gc_terms (new_pb_clause lits ws card)) <= length lits)%nat.
Proof.
  intros lits ws card. unfold new_pb_clause. destruct ws as [ws|].
  - rewrite gc_terms_terms_clause, sort_terms_length. unfold term. rewrite combine_length. lia.
  - unfold gc_terms. cbn [gc_weights gc_lits]. rewrite combine_repeat1. unfold unit_terms.
    rewrite map_length. lia.
Qed.

Lemma pp_scan_size : forall cs nb U C e nb' U' C',
  pp_scan cs nb U C = (e, nb', U', C') -> (msize C' <= msize C + pb_size cs)%nat.
Proof.
  induction cs as [|c cs IH]; intros nb U C e nb' U' C' H.
  - simpl in H. injection H as <- <- <- <-. simpl. lia.
  - cbn [pp_scan] in H. cbv zeta in H. cbn [pb_size fold_right]. fold (pb_size cs).
    destruct (pc_atleast c <=? 0).
    + apply IH in H. lia.
    + destruct (pc_weight_sum c <? pc_atleast c).
      * injection H as <- <- <- <-. lia.
      * destruct (pc_weight_sum c =? pc_atleast c).
        -- apply IH in H. lia.
        -- apply IH in H. rewrite msize_app, msize_cons in H. change (msize []) with O in H.
           pose proof (new_pb_clause_size (pc_lits c) (pc_weights c) (pc_atleast c)). lia.
Qed.

Theorem parse_pb_fuel_enough : forall cs fuel,
  (pb_size cs < fuel)%nat -> parse_pb_done fuel cs = true.
Proof.
  intros cs fuel Hf. unfold parse_pb_done, parse_pb_full.
  destruct (pp_scan cs 0 [] []) as [[[e nb] U] C] eqn:Es.
  pose proof (pp_scan_size _ _ _ _ _ _ _ _ Es) as HL. simpl in HL.
  destruct e; [reflexivity|].
  destruct (bind_units U (repeat 0 (Z.to_nat nb))) as [M ok]. destruct ok; [|reflexivity].
  unfold simplify_pb. rewrite spb_loop_gen. apply (gen_loop_done gsize spb_step spb_step_decr).
  unfold gsize. simpl. lia.
Qed.

Theorem parse_pb_stable : forall cs fuel fuel',
  parse_pb_done fuel cs = true -> (fuel <= fuel')%nat ->
  parse_pb fuel' cs = parse_pb fuel cs /\ parse_pb_done fuel' cs = true.
Proof.
  intros cs fuel fuel'. unfold parse_pb_done, parse_pb, parse_pb_full.
  destruct (pp_scan cs 0 [] []) as [[[e nb] U] C].
  destruct e; [auto|].
  destruct (bind_units U (repeat 0 (Z.to_nat nb))) as [M ok]. destruct ok; [|auto].
  unfold simplify_pb. rewrite !spb_loop_gen.
  destruct (gen_loop spb_step fuel (replicate_units (GP nb Indet U M C))) as [g b] eqn:E.
  simpl. intros -> Hle. rewrite (gen_loop_stable _ _ _ _ E fuel' Hle). auto.
Qed.

(* ------------------------------------------------------------------ *)
(* When parseSlice answers Sat, reading the Model array as a total      *)
(* assignment (unbound = false) gives a model of the input as written.  *)

Definition model_of (M : list Z) : list bool := map (fun x => x =? 1) M.

Lemma var_val_model_of : forall M v, 1 <= v -> var_val (model_of M) v = (mget M v =? 1).
Proof.
  intros M v Hv. unfold var_val, model_of, mget, vidx.
  rewrite Z.abs_eq by lia.
  change false with ((fun x => x =? 1) 0). apply map_nth.
Qed.

Theorem parse_slice_sat_witness : forall n F fuel, wf_cnf F ->
  gp_status (parse_slice fuel n F) = Sat ->
  length (model_of (gp_model (parse_slice fuel n F))) = Z.to_nat (gp_nbvars (parse_slice fuel n F)) /\
  sat_cnf (model_of (gp_model (parse_slice fuel n F))) F = true.
Proof.
  intros n F fuel Hwf Hs.
  assert (Hst : gp_status (parse_slice fuel n F) <> Unsat) by (rewrite Hs; discriminate).
  destruct (parse_slice_units_consistent n F fuel Hwf Hst) as [_ [HL [HU _]]].
  destruct (parse_slice_status_sat n F fuel Hwf Hs) as [_ Hall].
  split; [unfold model_of; rewrite map_length; exact HL|].
  apply Hall. unfold sat_units. apply forallb_forall. intros u Hu.
  destruct (HU u Hu) as [Hu0 [_ Hm]]. unfold lit_val.
  destruct (0 <? u) eqn:E.
  - apply Z.ltb_lt in E. rewrite var_val_model_of by lia. rewrite Hm. reflexivity.
  - apply Z.ltb_ge in E. rewrite var_val_model_of by lia. rewrite mget_neg, Hm. reflexivity.
Qed.

(* ------------------------------------------------------------------ *)
(* Differential tests: the right-hand sides were printed by the real    *)
(* gophersat (solver.ParseSliceNb / ParseCardConstrs / ParsePBConstrs   *)
(* of /repo, go1.23.5) on the same inputs: NbVars, Status, Units, Model *)
(* and, unless Status = Unsat, every remaining constraint as            *)
(* ([(weight, literal); ...], cardinality) in array order.              *)

Definition gview (g : gproblem) :=
  (gp_nbvars g, gp_status g, gp_units g, gp_model g,
   match gp_status g with
   | Unsat => []
   | _ => map (fun c => (gc_terms c, gc_card c)) (gp_clauses g)
   end).

Example go_cnf0 : gview (ParseSlice []) =
  (0, Sat, [], [], []).
Proof. vm_compute. reflexivity. Qed.
Example go_cnf1 : gview (ParseSlice [[]]) =
  (0, Unsat, [], [], []).
Proof. vm_compute. reflexivity. Qed.
Example go_cnf2 : gview (ParseSlice [[1;2];[];[3]]) =
  (2, Unsat, [], [], []).
Proof. vm_compute. reflexivity. Qed.
Example go_cnf3 : gview (ParseSlice [[1];[-1]]) =
  (1, Unsat, [1;-1], [1], []).
Proof. vm_compute. reflexivity. Qed.
Example go_cnf4 : gview (ParseSlice [[1;1;2];[-1]]) =
  (2, Sat, [-1;2], [-1;1], []).
Proof. vm_compute. reflexivity. Qed.
Example go_cnf5 : gview (ParseSlice [[1;-1;2];[2;3]]) =
  (3, Indet, [], [0;0;0], [([(1,2);(1,3)],1)]).
Proof. vm_compute. reflexivity. Qed.
Example go_cnf6 : gview (ParseSlice [[1;2;3];[-1];[-2]]) =
  (3, Sat, [-1;-2;3], [-1;-1;1], []).
Proof. vm_compute. reflexivity. Qed.
Example go_cnf7 : gview (ParseSlice [[1;2;3];[-1];[-2];[-3]]) =
  (3, Unsat, [-1;-2;-3], [-1;-1;-1], []).
Proof. vm_compute. reflexivity. Qed.
Example go_cnf8 : gview (ParseSlice [[1;2];[-1;3];[-3;4];[1]]) =
  (4, Sat, [1;3;4], [1;0;1;1], []).
Proof. vm_compute. reflexivity. Qed.
Example go_cnf9 : gview (ParseSlice [[1;2;3;4];[2;2;2;3];[-4];[5;6;7];[-5;6];[5]]) =
  (7, Indet, [-4;5;6], [0;0;0;-1;1;1;0], [([(1,1);(1,2);(1,3)],1);([(1,2);(1,3)],1)]).
Proof. vm_compute. reflexivity. Qed.
Example go_cnf10 : gview (ParseSlice [[1;2;3];[1;1];[4;5]]) =
  (5, Indet, [1], [1;0;0;0;0], [([(1,4);(1,5)],1)]).
Proof. vm_compute. reflexivity. Qed.
Example go_cnf11 : gview (ParseSlice [[1;2;2;1;3;3];[4;5;-4];[6;7]]) =
  (7, Indet, [], [0;0;0;0;0;0;0], [([(1,1);(1,2);(1,3)],1);([(1,6);(1,7)],1)]).
Proof. vm_compute. reflexivity. Qed.
Example go_cnf12 : gview (ParseSlice [[1;2];[3;4];[5;6];[7;8];[-1];[-3]]) =
  (8, Indet, [-1;-3;2;4], [-1;1;-1;1;0;0;0;0], [([(1,7);(1,8)],1);([(1,5);(1,6)],1)]).
Proof. vm_compute. reflexivity. Qed.
Example go_cnf13 : gview (ParseSlice [[3;3];[-3;-3]]) =
  (3, Unsat, [3], [0;0;1], []).
Proof. vm_compute. reflexivity. Qed.
Example go_cnf14 : gview (ParseSlice [[1;2];[-2;-2];[-1;5]]) =
  (5, Sat, [-2;1;5], [1;-1;0;0;1], []).
Proof. vm_compute. reflexivity. Qed.
Example go_cnf15 : gview (ParseSlice [[-1;2];[-2;3];[-3;4];[1;1]]) =
  (4, Sat, [1;2;3;4], [1;1;1;1], []).
Proof. vm_compute. reflexivity. Qed.
Example go_cnf16 : gview (ParseSlice [[4;-2;4;-2;1];[2];[-4;-1]]) =
  (4, Indet, [2], [0;1;0;0], [([(1,4);(1,1)],1);([(1,-4);(1,-1)],1)]).
Proof. vm_compute. reflexivity. Qed.
Example go_cnf_nb : gview (ParseSliceNb [[1;2]] 5) =
  (5, Indet, [], [0;0;0;0;0], [([(1,1);(1,2)],1)]).
Proof. vm_compute. reflexivity. Qed.
Example go_card0 : gview (ParseCardConstrs []) =
  (0, Sat, [], [], []).
Proof. vm_compute. reflexivity. Qed.
Example go_card1 : gview (ParseCardConstrs [([1;2;3],2)]) =
  (3, Indet, [], [0;0;0], [([(1,1);(1,2);(1,3)],2)]).
Proof. vm_compute. reflexivity. Qed.
Example go_card2 : gview (ParseCardConstrs [([1;2;3],0)]) =
  (0, Sat, [], [], []).
Proof. vm_compute. reflexivity. Qed.
Example go_card3 : gview (ParseCardConstrs [([1;2;3],4)]) =
  (0, Unsat, [], [], []).
Proof. vm_compute. reflexivity. Qed.
Example go_card4 : gview (ParseCardConstrs [([1;2;3],3)]) =
  (3, Sat, [1;2;3], [1;1;1], []).
Proof. vm_compute. reflexivity. Qed.
Example go_card5 : gview (ParseCardConstrs [([1;2;3],2);([-1],1)]) =
  (3, Sat, [-1;3;2], [-1;1;1], []).
Proof. vm_compute. reflexivity. Qed.
Example go_card6 : gview (ParseCardConstrs [([1;2;3],2);([1],1)]) =
  (3, Indet, [1], [1;0;0], [([(1,3);(1,2)],1)]).
Proof. vm_compute. reflexivity. Qed.
Example go_card7 : gview (ParseCardConstrs [([1;2;3;4],2);([1],1);([-2],1);([-3;-4;5],2)]) =
  (5, Indet, [1;-2], [1;-1;0;0;0], [([(1,4);(1,3)],1);([(1,-3);(1,-4);(1,5)],2)]).
Proof. vm_compute. reflexivity. Qed.
Example go_card8 : gview (ParseCardConstrs [([1;2;3;4],3);([-1],1);([-2;5;6],1)]) =
  (6, Indet, [-1;4;2;3], [-1;1;1;1;0;0], [([(1,6);(1,5)],1)]).
Proof. vm_compute. reflexivity. Qed.
Example go_card9 : gview (ParseCardConstrs [([1;-1;2],2);([-2;3],1)]) =
  (3, Indet, [], [0;0;0], [([(1,1);(1,-1);(1,2)],2);([(1,-2);(1,3)],1)]).
Proof. vm_compute. reflexivity. Qed.
Example go_card10 : gview (ParseCardConstrs [([1;2],2);([-1;-2;3],2)]) =
  (3, Unsat, [1;2], [1;1;0], []).
Proof. vm_compute. reflexivity. Qed.
Example go_card11 : gview (ParseCardConstrs [([1;2;3;4;5],2);([1],1);([2],1);([-3;-4;-5;6],1)]) =
  (6, Indet, [1;2], [1;1;0;0;0;0], [([(1,-3);(1,-4);(1,-5);(1,6)],1)]).
Proof. vm_compute. reflexivity. Qed.
Example go_card12 : gview (ParseCardConstrs [([7;8],-1);([1;2],1)]) =
  (2, Indet, [], [0;0], [([(1,1);(1,2)],1)]).
Proof. vm_compute. reflexivity. Qed.
Example go_pb0 : gview (ParsePBConstrs []) =
  (0, Sat, [], [], []).
Proof. vm_compute. reflexivity. Qed.
Example go_pb1 : gview (ParsePBConstrs [PBCo [1;2;3] (Some [1;2;3]) 3]) =
  (3, Indet, [], [0;0;0], [([(3,3);(2,2);(1,1)],3)]).
Proof. vm_compute. reflexivity. Qed.
Example go_pb2 : gview (ParsePBConstrs [PBCo [1;2;3] (Some [1;2;3]) 6]) =
  (3, Sat, [1;2;3], [1;1;1], []).
Proof. vm_compute. reflexivity. Qed.
Example go_pb3 : gview (ParsePBConstrs [PBCo [1;2;3] (Some [1;2;3]) 7]) =
  (3, Unsat, [], [], []).
Proof. vm_compute. reflexivity. Qed.
Example go_pb4 : gview (ParsePBConstrs [PBCo [1;2;3] (Some [1;2;3]) 0]) =
  (3, Sat, [], [0;0;0], []).
Proof. vm_compute. reflexivity. Qed.
Example go_pb5 : gview (ParsePBConstrs [PBCo [1;2;3] (Some [1;2;3]) 5]) =
  (3, Sat, [3;2], [0;1;1], []).
Proof. vm_compute. reflexivity. Qed.
Example go_pb6 : gview (ParsePBConstrs [PBCo [1;2;3] None 2; PBCo [-1] None 1]) =
  (3, Sat, [-1;3;2], [-1;1;1], []).
Proof. vm_compute. reflexivity. Qed.
Example go_pb7 : gview (ParsePBConstrs [PBCo [1;2;3;4] (Some [2;1;3;1]) 4; PBCo [-3] None 1]) =
  (4, Sat, [-3;4;2;1], [1;1;-1;1], []).
Proof. vm_compute. reflexivity. Qed.
Example go_pb8 : gview (ParsePBConstrs [PBCo [1;2;3;4] (Some [2;1;3;1]) 4; PBCo [3] None 1; PBCo [-1;-2;5] (Some [1;1;1]) 2]) =
  (5, Indet, [3], [0;0;1;0;0], [([(1,4);(2,1);(1,2)],1);([(1,-1);(1,-2);(1,5)],2)]).
Proof. vm_compute. reflexivity. Qed.
Example go_pb9 : gview (ParsePBConstrs [PBCo [1;-1] (Some [2;2]) 3]) =
  (1, Unsat, [1], [1], []).
Proof. vm_compute. reflexivity. Qed.
Example go_pb10 : gview (ParsePBConstrs [PBCo [1;2;3;4;5] (Some [1;5;2;5;3]) 4; PBCo [-2] None 1; PBCo [-4;6] (Some [1;1]) 2]) =
  (6, Indet, [-2;-4;6;5], [0;-1;0;-1;1;1], [([(1,1);(2,3)],1)]).
Proof. vm_compute. reflexivity. Qed.
Example go_pb11 : gview (ParsePBConstrs [PBCo [9] None 0; PBCo [1;2] None 1]) =
  (9, Indet, [], [0;0;0;0;0;0;0;0;0], [([(1,1);(1,2)],1)]).
Proof. vm_compute. reflexivity. Qed.
Example go_pb12 : gview (ParsePBConstrs [PBCo [1;2] None 2; PBCo [2;1;3] (Some [1;1;1]) 3]) =
  (3, Sat, [1;2;3], [1;1;1], []).
Proof. vm_compute. reflexivity. Qed.
Example go_pb13 : gview (ParsePBConstrs [PBCo [1;2;3] (Some [3;1;1]) 3; PBCo [-1;4;5] None 1; PBCo [-4] None 1]) =
  (5, Sat, [-4;1;5], [1;0;0;-1;1], []).
Proof. vm_compute. reflexivity. Qed.

(* ------------------------------------------------------------------ *)
(* Witnesses that the hypotheses used in Properties/C01.v and C02b.v    *)
(* are satisfiable.                                                     *)

Lemma wf_cnfb_ok : forall F, wf_cnfb F = true -> wf_cnf F.
Proof.
  intros F H c Hc l Hl. unfold wf_cnfb in H. rewrite forallb_forall in H.
  specialize (H c Hc). rewrite forallb_forall in H. specialize (H l Hl).
  apply negb_true_iff in H. apply Z.eqb_neq in H. exact H.
Qed.

Definition ex_cnf : cnf := [[1; 1; 2]; [-1]; [3; -3; 2]; [2; 4; 4]].

Lemma ex_cnf_wf : wf_cnf ex_cnf.
Proof. apply wf_cnfb_ok. reflexivity. Qed.

Lemma ex_cnf_sat : gp_status (parse_slice 2 0 ex_cnf) = Sat.
Proof. vm_compute. reflexivity. Qed.

Lemma ex_cnf_live : gp_status (parse_slice 2 0 ex_cnf) <> Unsat.
Proof. rewrite ex_cnf_sat. discriminate. Qed.

Lemma ex_cnf_unsat : wf_cnf [[1; 2]; [-1]; [-2; -2]] /\
  gp_status (parse_slice 3 0 [[1; 2]; [-1]; [-2; -2]]) = Unsat.
Proof. split; [apply wf_cnfb_ok; reflexivity|vm_compute; reflexivity]. Qed.

Definition ex_pbs : list pbconstr :=
  [PBCo [1; 2; 3; 4] (Some [2; 1; 3; 1]) 4; PBCo [3] None 1; PBCo [-1; -2; 5] (Some [1; 1; 1]) 2].

Lemma ex_pbs_wf : forallb wf_pbconstrb ex_pbs = true.
Proof. reflexivity. Qed.

Definition ex_cards : list cardconstr :=
  [([1; 2; 3; 4], 2); ([1], 1); ([-2], 1); ([-3; -4; 5], 2)].

Lemma ex_cards_wf : forallb wf_cardconstrb ex_cards = true.
Proof. reflexivity. Qed.
