(* Proofs about Model/Cli.v: the output glue of gophersat's command line tool.
   - decimal printer/reader round trip;
   - the tokeniser on space-separated tokens;
   - read_v (print_v m) = Some m, read_vx (print_vx m) = Some m;
   - read_answer ignores comment lines (hence the header for EVERY path, and any
     interleaving of verbose "c ..." lines);
   - read_answer (render_* ...) computed in closed form for EVERY stream;
   - truthfulness of the rendered output under the library-level spec of the
     stream (the C19_truthful theorems);
   - complete characterisation of dispatch;
   - documented refutations: OutputModel's v-line, -certified stdout, a path
     containing a newline. *)
From Coq Require Import List ZArith Lia Bool NArith String Ascii ZifyBool.
From GS Require Import Spec.Base Spec.PB Spec.Solver Model.Cli.
Import ListNotations.
Open Scope string_scope.
Open Scope Z_scope.
Ltac Zify.zify_post_hook ::= Z.div_mod_to_equations.

(* ------------------------------------------------------------------ *)
(* A. Strings and the splitter.                                        *)

Lemma sapp_assoc : forall a b c : string,
  ((a ++ b) ++ c)%string = (a ++ (b ++ c))%string.
Proof.
  induction a as [|x a IH]; intros b c; simpl; [reflexivity|].
  rewrite IH. reflexivity.
Qed.

Lemma sapp_nil_r : forall a : string, (a ++ "")%string = a.
Proof.
  induction a as [|x a IH]; simpl; [reflexivity|]. rewrite IH. reflexivity.
Qed.

(* s contains no occurrence of the character sep *)
Fixpoint no_char (sep : ascii) (s : string) : bool :=
  match s with
  | EmptyString => true
  | String c r => negb (Ascii.eqb c sep) && no_char sep r
  end.

Lemma split_on_nosep : forall sep t, no_char sep t = true -> split_on sep t = [t].
Proof.
  intros sep t. induction t as [|c t IH]; intros H; [reflexivity|].
  simpl in H. apply andb_true_iff in H. destruct H as [Hc Ht].
  apply negb_true_iff in Hc. cbn [split_on]. rewrite Hc, (IH Ht). reflexivity.
Qed.

Lemma split_on_app : forall sep t r, no_char sep t = true ->
  split_on sep (t ++ String sep r) = t :: split_on sep r.
Proof.
  intros sep t r. induction t as [|c t IH]; intros H.
  - cbn [append split_on]. rewrite Ascii.eqb_refl. reflexivity.
  - simpl in H. apply andb_true_iff in H. destruct H as [Hc Ht].
    apply negb_true_iff in Hc. cbn [append split_on]. rewrite Hc, (IH Ht). reflexivity.
Qed.

Definition good_tok (t : string) : Prop := no_char sp t = true /\ is_empty t = false.

Lemma tokens_app : forall t r, good_tok t ->
  tokens (t ++ String sp r) = t :: tokens r.
Proof.
  intros t r [Hs He]. unfold tokens, split_sp. rewrite (split_on_app sp t r Hs).
  cbn [filter]. rewrite He. reflexivity.
Qed.

Lemma tokens_concat_sp : forall ts s, Forall good_tok ts ->
  tokens (concat_sp ts ++ s) = (ts ++ tokens s)%list.
Proof.
  intros ts s H. induction H as [|t ts Ht Hts IH]; [reflexivity|].
  cbn [concat_sp]. rewrite sapp_assoc. cbn [append].
  change (String sp (concat_sp ts ++ s)) with (String sp (concat_sp ts ++ s)).
  rewrite (tokens_app t _ Ht), IH. reflexivity.
Qed.

(* lines *)
Lemma drop_last_empty_app : forall ls, drop_last_empty (ls ++ [EmptyString]) = ls.
Proof.
  induction ls as [|l ls IH]; [reflexivity|].
  change ((l :: ls) ++ [EmptyString])%list with (l :: (ls ++ [EmptyString]))%list.
  cbn [drop_last_empty]. rewrite IH.
  destruct (ls ++ [EmptyString])%list eqn:E; [|reflexivity].
  destruct ls; discriminate.
Qed.

Lemma split_on_unlines : forall ls, Forall (fun l => no_char nl l = true) ls ->
  split_on nl (unlines ls) = (ls ++ [EmptyString])%list.
Proof.
  intros ls H. induction H as [|l ls Hl Hls IH]; [reflexivity|].
  cbn [unlines]. rewrite (split_on_app nl l _ Hl), IH. reflexivity.
Qed.

(* the byte stream produced by printing the lines splits back into the lines,
   provided no line contains a newline *)
Lemma lines_of_unlines : forall ls, Forall (fun l => no_char nl l = true) ls ->
  lines_of (unlines ls) = ls.
Proof.
  intros ls H. unfold lines_of. rewrite (split_on_unlines ls H).
  apply drop_last_empty_app.
Qed.

(* ------------------------------------------------------------------ *)
(* B. Decimal printer / reader.                                        *)

Lemma digit_val_of_nat : forall k, (k < 10)%nat ->
  digit_val (digit_of_nat k) = Some (Z.of_nat k).
Proof.
  intros k Hk. do 10 (destruct k as [|k]; [reflexivity|]). lia.
Qed.

Lemma digit_not_sp : forall k, Ascii.eqb (digit_of_nat k) sp = false.
Proof. intros k. do 9 (destruct k as [|k]; [reflexivity|]). reflexivity. Qed.

Lemma digit_not_minus : forall k, Ascii.eqb (digit_of_nat k) "-"%char = false.
Proof. intros k. do 9 (destruct k as [|k]; [reflexivity|]). reflexivity. Qed.

Lemma digit_not_zero : forall k, (1 <= k)%nat -> Ascii.eqb (digit_of_nat k) "0"%char = false.
Proof.
  intros k Hk. destruct k as [|k]; [lia|].
  do 8 (destruct k as [|k]; [reflexivity|]). reflexivity.
Qed.

Lemma pow2_succ : forall f, 2 ^ Z.of_nat (S f) = 2 * 2 ^ Z.of_nat f.
Proof. intros f. rewrite Nat2Z.inj_succ, Z.pow_succ_r by lia. reflexivity. Qed.

Lemma digits_fuel_read : forall f n acc, 0 <= n < 2 ^ Z.of_nat f ->
  read_digits (digits_fuel f n acc) 0 = read_digits acc n.
Proof.
  induction f as [|f IH]; intros n acc Hn.
  - change (2 ^ Z.of_nat 0) with 1 in Hn. assert (n = 0) as -> by lia. reflexivity.
  - rewrite pow2_succ in Hn. cbn [digits_fuel]. destruct (n <? 10) eqn:E.
    + apply Z.ltb_lt in E. cbn [read_digits].
      rewrite digit_val_of_nat by lia. f_equal. lia.
    + apply Z.ltb_ge in E. rewrite IH by lia. cbn [read_digits].
      rewrite digit_val_of_nat by lia. f_equal. lia.
Qed.

Lemma print_nat_fuel : forall n, 0 <= n ->
  n < 2 ^ Z.of_nat (S (Z.to_nat (Z.log2 n))).
Proof.
  intros n Hn. rewrite Nat2Z.inj_succ, Z2Nat.id by apply Z.log2_nonneg.
  destruct (Z.eq_dec n 0) as [->|Hz]; [reflexivity|].
  apply Z.log2_spec. lia.
Qed.

Lemma print_nat_read_digits : forall n, 0 <= n -> read_digits (print_nat n) 0 = Some n.
Proof.
  intros n Hn. unfold print_nat. rewrite digits_fuel_read; [reflexivity|].
  split; [exact Hn|apply print_nat_fuel; exact Hn].
Qed.

Lemma digits_fuel_head : forall f n acc, 0 < n < 2 ^ Z.of_nat f ->
  exists k r, (1 <= k <= 9)%nat /\ digits_fuel f n acc = String (digit_of_nat k) r.
Proof.
  induction f as [|f IH]; intros n acc Hn.
  - change (2 ^ Z.of_nat 0) with 1 in Hn. lia.
  - rewrite pow2_succ in Hn. cbn [digits_fuel]. destruct (n <? 10) eqn:E.
    + apply Z.ltb_lt in E. exists (Z.to_nat (n mod 10)), acc.
      split; [lia|reflexivity].
    + apply Z.ltb_ge in E. apply IH. lia.
Qed.

Lemma print_nat_head : forall n, 0 < n ->
  exists k r, (1 <= k <= 9)%nat /\ print_nat n = String (digit_of_nat k) r.
Proof.
  intros n Hn. unfold print_nat. apply digits_fuel_head.
  split; [exact Hn|apply print_nat_fuel; lia].
Qed.

Lemma read_nat_print_nat : forall n, 0 <= n -> read_nat (print_nat n) = Some n.
Proof.
  intros n Hn. destruct (Z.eq_dec n 0) as [->|Hz]; [reflexivity|].
  destruct (print_nat_head n) as [k [r [Hk E]]]; [lia|].
  pose proof (print_nat_read_digits n Hn) as R. rewrite E in R |- *.
  unfold read_nat. rewrite digit_not_zero by lia. exact R.
Qed.

Lemma print_Z_nonneg : forall z, 0 <= z -> print_Z z = print_nat z.
Proof.
  intros z Hz. unfold print_Z. destruct (z <? 0) eqn:E; [|reflexivity].
  apply Z.ltb_lt in E. lia.
Qed.

(* C19, decimal part: the reader inverts the printer on every integer *)
Theorem read_Z_print_Z : forall z, read_Z (print_Z z) = Some z.
Proof.
  intros z. unfold print_Z. destruct (z <? 0) eqn:E.
  - apply Z.ltb_lt in E. cbn [read_Z]. change (Ascii.eqb "-" "-") with true. cbv iota.
    rewrite read_nat_print_nat by lia.
    destruct (- z =? 0) eqn:E0; [apply Z.eqb_eq in E0; lia|]. f_equal. lia.
  - apply Z.ltb_ge in E. destruct (Z.eq_dec z 0) as [->|Hz]; [reflexivity|].
    destruct (print_nat_head z) as [k [r [Hk Eq]]]; [lia|].
    pose proof (read_nat_print_nat z E) as R. rewrite Eq in R |- *.
    cbn [read_Z]. rewrite digit_not_minus. exact R.
Qed.

Lemma digits_fuel_no_sp : forall f n acc,
  no_char sp (digits_fuel f n acc) = no_char sp acc.
Proof.
  induction f as [|f IH]; intros n acc; [reflexivity|].
  cbn [digits_fuel]. destruct (n <? 10).
  - cbn [no_char]. rewrite digit_not_sp. reflexivity.
  - rewrite IH. cbn [no_char]. rewrite digit_not_sp. reflexivity.
Qed.

Lemma print_nat_no_sp : forall n, no_char sp (print_nat n) = true.
Proof. intros n. unfold print_nat. rewrite digits_fuel_no_sp. reflexivity. Qed.

Lemma print_Z_no_sp : forall z, no_char sp (print_Z z) = true.
Proof.
  intros z. unfold print_Z. destruct (z <? 0).
  - cbn [no_char]. rewrite print_nat_no_sp. reflexivity.
  - apply print_nat_no_sp.
Qed.

Lemma print_Z_nonempty : forall z, is_empty (print_Z z) = false.
Proof.
  intros z. pose proof (read_Z_print_Z z) as R.
  destruct (print_Z z); [discriminate R|reflexivity].
Qed.

Lemma print_Z_good : forall z, good_tok (print_Z z).
Proof. intros z. split; [apply print_Z_no_sp|apply print_Z_nonempty]. Qed.

(* ------------------------------------------------------------------ *)
(* C. The decision "v" line.                                           *)

Lemma lit_tokens_good : forall m k, Forall good_tok (lit_tokens k m).
Proof.
  induction m as [|b m IH]; intros k; cbn [lit_tokens]; constructor.
  - apply print_Z_good.
  - apply IH.
Qed.

Lemma tokens_v_prefix : forall s, tokens ("v " ++ s) = "v" :: tokens s.
Proof.
  intros s. change ("v " ++ s)%string with ("v" ++ String sp s)%string.
  apply tokens_app. split; reflexivity.
Qed.

Lemma tokens_print_v : forall m,
  tokens (print_v m) = ("v" :: lit_tokens 1 m ++ ["0"])%list.
Proof.
  intros m. unfold print_v. rewrite tokens_v_prefix.
  rewrite tokens_concat_sp by apply lit_tokens_good. reflexivity.
Qed.

Lemma read_lits_cons2 : forall k t rest, rest <> [] ->
  read_lits k (t :: rest) =
  match read_Z t with
  | Some z =>
    if z =? k then option_map (cons true) (read_lits (k + 1) rest)
    else if z =? - k then option_map (cons false) (read_lits (k + 1) rest)
    else None
  | None => None
  end.
Proof. intros k t rest H. destruct rest; [congruence|reflexivity]. Qed.

Lemma read_lits_print : forall m k, 0 < k ->
  read_lits k (lit_tokens k m ++ ["0"])%list = Some m.
Proof.
  induction m as [|b m IH]; intros k Hk; [reflexivity|].
  cbn [lit_tokens]. change ((?x :: ?l) ++ ?r)%list with (x :: (l ++ r))%list.
  rewrite read_lits_cons2 by (destruct (lit_tokens (k + 1) m); discriminate).
  rewrite read_Z_print_Z, IH by lia. destruct b.
  - rewrite Z.eqb_refl. reflexivity.
  - destruct (- k =? k) eqn:E; [apply Z.eqb_eq in E; lia|].
    rewrite Z.eqb_refl. reflexivity.
Qed.

(* C19_v_line *)
Theorem read_v_print_v : forall m, read_v (print_v m) = Some m.
Proof.
  intros m. unfold read_v. rewrite tokens_print_v.
  change (String.eqb "v" "v") with true. cbv iota.
  apply read_lits_print. lia.
Qed.

(* ------------------------------------------------------------------ *)
(* D. The optimisation "v" line.                                       *)

Lemma x_tok_good : forall (b : bool) k,
  good_tok ((if b then "x" else "-x") ++ print_Z k).
Proof.
  intros b k. split.
  - destruct b; cbn [append no_char];
      rewrite print_Z_no_sp; reflexivity.
  - destruct b; reflexivity.
Qed.

Lemma x_tokens_good : forall m k, Forall good_tok (x_tokens k m).
Proof.
  induction m as [|b m IH]; intros k; cbn [x_tokens]; constructor.
  - apply x_tok_good.
  - apply IH.
Qed.

Lemma tokens_print_vx : forall m, tokens (print_vx m) = "v" :: x_tokens 1 m.
Proof.
  intros m. unfold print_vx. rewrite tokens_v_prefix.
  rewrite <- (sapp_nil_r (concat_sp (x_tokens 1 m))).
  rewrite tokens_concat_sp by apply x_tokens_good.
  change (tokens "") with (@nil string). rewrite app_nil_r. reflexivity.
Qed.

Lemma read_xtok_print : forall (b : bool) k, 0 <= k ->
  read_xtok ((if b then "x" else "-x") ++ print_Z k) = Some (b, k).
Proof.
  intros b k Hk. rewrite print_Z_nonneg by exact Hk. destruct b.
  - change (read_xtok ("x" ++ print_nat k))
      with (option_map (pair true) (read_nat (print_nat k))).
    rewrite read_nat_print_nat by exact Hk. reflexivity.
  - change (read_xtok ("-x" ++ print_nat k))
      with (option_map (pair false) (read_nat (print_nat k))).
    rewrite read_nat_print_nat by exact Hk. reflexivity.
Qed.

Lemma read_xlits_print : forall m k, 0 <= k -> read_xlits k (x_tokens k m) = Some m.
Proof.
  induction m as [|b m IH]; intros k Hk; [reflexivity|].
  cbn [x_tokens read_xlits]. rewrite read_xtok_print by exact Hk.
  rewrite Z.eqb_refl, IH by lia. reflexivity.
Qed.

(* C19_v_line_opb *)
Theorem read_vx_print_vx : forall m, read_vx (print_vx m) = Some m.
Proof.
  intros m. unfold read_vx. rewrite tokens_print_vx.
  change (String.eqb "v" "v") with true. cbv iota.
  apply read_xlits_print. lia.
Qed.

(* the optimisation v-line is never mistaken for a decision v-line *)
Lemma read_Z_x : forall (b : bool) s, read_Z ((if b then "x" else "-x") ++ s) = None.
Proof. intros b s. destruct b; reflexivity. Qed.

Lemma x_tok_not_zero : forall (b : bool) s,
  String.eqb ((if b then "x" else "-x") ++ s) "0" = false.
Proof. intros b s. destruct b; reflexivity. Qed.

Lemma read_v_print_vx : forall m, read_v (print_vx m) = None.
Proof.
  intros m. unfold read_v. rewrite tokens_print_vx.
  change (String.eqb "v" "v") with true. cbv iota.
  destruct m as [|b m]; [reflexivity|].
  cbn [x_tokens]. destruct (x_tokens (1 + 1) m) as [|t ts].
  - cbn [read_lits]. rewrite x_tok_not_zero. reflexivity.
  - rewrite read_lits_cons2 by discriminate. rewrite read_Z_x. reflexivity.
Qed.

(* solver.OutputModel's v-line (no terminating 0) is NOT a DIMACS v-line *)
Lemma output_model_not_dimacs_refuted : exists m, read_v (output_model_v m) = None.
Proof. exists [true; false]. vm_compute. reflexivity. Qed.

(* ------------------------------------------------------------------ *)
(* E. Classification of the printed lines.                             *)

Lemma is_comment_c_sp : forall s, is_comment ("c " ++ s) = true.
Proof. intros s. reflexivity. Qed.

(* the header is a comment line for EVERY path *)
Lemma is_comment_header : forall path, is_comment (header path) = true.
Proof. intros path. reflexivity. Qed.

Lemma classify_comment : forall l, is_comment l = true -> classify l = LIgnore.
Proof.
  intros l H. unfold classify. rewrite H. destruct (is_empty l); reflexivity.
Qed.

Lemma classify_o_line : forall w, classify (o_line w) = LCost w.
Proof.
  intros w. unfold o_line.
  change (classify ("o " ++ print_Z w))
    with (match read_Z (print_Z w) with Some w => LCost w | None => LBad end).
  rewrite read_Z_print_Z. reflexivity.
Qed.

Lemma classify_print_v : forall m, classify (print_v m) = LModel m.
Proof.
  intros m. pose proof (read_v_print_v m) as R. unfold print_v in *.
  set (s := (concat_sp (lit_tokens 1 m) ++ "0")%string) in *.
  change (classify ("v " ++ s))
    with (match read_v ("v " ++ s) with
          | Some m => LModel m
          | None => match read_vx ("v " ++ s) with Some m => LModel m | None => LBad end
          end).
  rewrite R. reflexivity.
Qed.

Lemma classify_print_vx : forall m, classify (print_vx m) = LModel m.
Proof.
  intros m. pose proof (read_v_print_vx m) as R1. pose proof (read_vx_print_vx m) as R2.
  unfold print_vx in *.
  set (s := concat_sp (x_tokens 1 m)) in *.
  change (classify ("v " ++ s))
    with (match read_v ("v " ++ s) with
          | Some m => LModel m
          | None => match read_vx ("v " ++ s) with Some m => LModel m | None => LBad end
          end).
  rewrite R1, R2. reflexivity.
Qed.

Lemma classify_digit : forall k r,
  classify (String (digit_of_nat k) r) =
  match read_nat (String (digit_of_nat k) r) with Some n => LCount n | None => LBad end.
Proof.
  intros k r. do 9 (destruct k as [|k]; [reflexivity|]). reflexivity.
Qed.

Lemma classify_print_nat : forall n, 0 <= n -> classify (print_nat n) = LCount n.
Proof.
  intros n Hn. pose proof (read_nat_print_nat n Hn) as R.
  destruct (Z.eq_dec n 0) as [->|Hz]; [reflexivity|].
  destruct (print_nat_head n) as [k [r [Hk E]]]; [lia|].
  rewrite E in R |- *. rewrite classify_digit, R. reflexivity.
Qed.

(* ------------------------------------------------------------------ *)
(* F. read_answer.                                                     *)

Lemma read_answer_comment : forall c r, is_comment c = true ->
  read_answer (c :: r) = read_answer r.
Proof.
  intros c r H. cbn [read_answer]. destruct (read_answer r) as [a|]; [|reflexivity].
  unfold add_line. rewrite (classify_comment c H). reflexivity.
Qed.

(* comment lines are ignored wherever they occur: this covers the header and
   every interleaving of verbose "c ..." lines *)
Theorem read_answer_ignores_comments : forall ls,
  read_answer ls = read_answer (filter (fun l => negb (is_comment l)) ls).
Proof.
  induction ls as [|l ls IH]; [reflexivity|].
  cbn [filter]. destruct (is_comment l) eqn:E; cbn [negb].
  - rewrite (read_answer_comment l ls E). exact IH.
  - cbn [read_answer]. rewrite IH. reflexivity.
Qed.

Theorem read_answer_header : forall path ls,
  read_answer (with_header path ls) = read_answer ls.
Proof.
  intros path ls. unfold with_header. apply read_answer_comment.
  apply is_comment_header.
Qed.

Lemma read_answer_cons : forall l r a, read_answer r = Some a ->
  read_answer (l :: r) = add_line l a.
Proof. intros l r a H. cbn [read_answer]. rewrite H. reflexivity. Qed.

Definition add_costs (ws : list Z) (a : answer) : answer :=
  {| a_status := a_status a; a_model := a_model a;
     a_costs := (ws ++ a_costs a)%list; a_count := a_count a |}.

Lemma read_answer_o_lines : forall ws tail a, read_answer tail = Some a ->
  read_answer (map o_line ws ++ tail)%list = Some (add_costs ws a).
Proof.
  induction ws as [|w ws IH]; intros tail a H.
  - cbn [map app]. rewrite H. destruct a; reflexivity.
  - cbn [map app read_answer]. rewrite (IH tail a H).
    unfold add_line. rewrite classify_o_line. reflexivity.
Qed.

(* closed form of what is read back from the decision output, for EVERY stream *)
Definition answer_of_decision (stream : list result) : answer :=
  let res := last_result stream in
  match r_status res with
  | Unsat => {| a_status := Some SUnsat; a_model := None; a_costs := []; a_count := None |}
  | Sat => {| a_status := Some SSat; a_model := Some (r_model res);
              a_costs := []; a_count := None |}
  | Indet => {| a_status := Some SUnknown; a_model := None; a_costs := []; a_count := None |}
  end.

Lemma read_status_model_v : forall m,
  read_answer ["s SATISFIABLE"; print_v m] =
  Some {| a_status := Some SSat; a_model := Some m; a_costs := []; a_count := None |}.
Proof.
  intros m.
  assert (H1 : read_answer [print_v m] =
    Some {| a_status := None; a_model := Some m; a_costs := []; a_count := None |}).
  { rewrite (read_answer_cons _ [] empty_answer eq_refl). unfold add_line.
    rewrite classify_print_v. reflexivity. }
  rewrite (read_answer_cons _ _ _ H1). reflexivity.
Qed.

Lemma read_status_model_vx : forall m,
  read_answer ["s OPTIMUM FOUND"; print_vx m] =
  Some {| a_status := Some SOptimum; a_model := Some m; a_costs := []; a_count := None |}.
Proof.
  intros m.
  assert (H1 : read_answer [print_vx m] =
    Some {| a_status := None; a_model := Some m; a_costs := []; a_count := None |}).
  { rewrite (read_answer_cons _ [] empty_answer eq_refl). unfold add_line.
    rewrite classify_print_vx. reflexivity. }
  rewrite (read_answer_cons _ _ _ H1). reflexivity.
Qed.

Theorem read_render_decision : forall stream,
  read_answer (render_decision stream) = Some (answer_of_decision stream).
Proof.
  intros stream. unfold render_decision, answer_of_decision.
  destruct (r_status (last_result stream)).
  - reflexivity.
  - apply read_status_model_v.
  - reflexivity.
Qed.

Definition sat_weights (stream : list result) : list Z :=
  map r_weight (filter is_sat_result stream).

(* closed form of what is read back from the optimisation output *)
Definition answer_of_optim (stream : list result) : answer :=
  let res := last_result stream in
  match r_status res with
  | Unsat => {| a_status := Some SUnsat; a_model := None;
                a_costs := sat_weights stream; a_count := None |}
  | Sat => {| a_status := Some SOptimum; a_model := Some (r_model res);
              a_costs := sat_weights stream; a_count := None |}
  | Indet => {| a_status := Some SUnknown; a_model := None;
                a_costs := sat_weights stream; a_count := None |}
  end.

Theorem read_render_optim : forall stream,
  read_answer (render_optim stream) = Some (answer_of_optim stream).
Proof.
  intros stream. unfold render_optim, answer_of_optim, sat_weights.
  rewrite <- (map_map r_weight o_line).
  set (ws := map r_weight (filter is_sat_result stream)).
  destruct (r_status (last_result stream)).
  - rewrite (read_answer_o_lines ws ["s UNKNOWN"] _ eq_refl).
    unfold add_costs. cbn [a_status a_model a_costs a_count]. rewrite app_nil_r. reflexivity.
  - rewrite (read_answer_o_lines ws _ _ (read_status_model_vx _)).
    unfold add_costs. cbn [a_status a_model a_costs a_count]. rewrite app_nil_r. reflexivity.
  - rewrite (read_answer_o_lines ws ["s UNSATISFIABLE"] _ eq_refl).
    unfold add_costs. cbn [a_status a_model a_costs a_count]. rewrite app_nil_r. reflexivity.
Qed.

Theorem read_render_count : forall nb,
  read_answer (render_count nb) =
  Some {| a_status := None; a_model := None; a_costs := []; a_count := Some (Z.of_N nb) |}.
Proof.
  intros nb. unfold render_count. cbn [read_answer]. unfold add_line.
  rewrite print_Z_nonneg by lia. rewrite classify_print_nat by lia. reflexivity.
Qed.

(* ------------------------------------------------------------------ *)
(* G. Truthfulness.                                                    *)

Fixpoint strictly_decreasing (l : list Z) : Prop :=
  match l with
  | [] => True
  | x :: r =>
    match r with
    | [] => True
    | y :: _ => y < x /\ strictly_decreasing r
    end
  end.

(* The file is (n, P): n variables, normalised constraints P. *)
Definition truthful_decision (n : nat) (P : problem) (ans : answer) : Prop :=
  (a_status ans = Some SSat ->
     exists m, a_model ans = Some m /\ List.length m = n /\ sat_problem m P = true) /\
  (a_status ans = Some SUnsat -> ~ PSatisfiable n P) /\
  (a_status ans <> Some SSat -> a_model ans = None) /\
  (a_status ans = Some SSat \/ a_status ans = Some SUnsat \/ a_status ans = Some SUnknown) /\
  a_costs ans = [] /\ a_count ans = None.

Definition truthful_optim (n : nat) (P : problem) (c : cost) (ans : answer) : Prop :=
  strictly_decreasing (a_costs ans) /\
  (a_status ans = Some SOptimum ->
     exists m, a_model ans = Some m /\ is_optimum n P c m /\
               a_costs ans <> [] /\ List.last (a_costs ans) 0 = cost_of m c) /\
  (a_status ans = Some SUnsat -> ~ PSatisfiable n P /\ a_costs ans = []) /\
  (a_status ans <> Some SOptimum -> a_model ans = None) /\
  (a_status ans = Some SOptimum \/ a_status ans = Some SUnsat \/ a_status ans = Some SUnknown) /\
  a_count ans = None.

Definition truthful_count (n : nat) (P : problem) (ans : answer) : Prop :=
  a_count ans = Some (Z.of_N (count_models n (fun m => sat_problem m P))) /\
  a_status ans = None /\ a_model ans = None /\ a_costs ans = [].

(* Library-level spec of the stream handed to printDecisionResults: only the
   last result matters. *)
Definition decision_stream_ok (n : nat) (P : problem) (stream : list result) : Prop :=
  (r_status (last_result stream) = Sat ->
     List.length (r_model (last_result stream)) = n /\
     sat_problem (r_model (last_result stream)) P = true) /\
  (r_status (last_result stream) = Unsat -> ~ PSatisfiable n P).

Theorem truthful_decision_thm : forall n P path stream,
  decision_stream_ok n P stream ->
  exists ans,
    read_answer (with_header path (render_decision stream)) = Some ans /\
    truthful_decision n P ans.
Proof.
  intros n P path stream [HS HU]. exists (answer_of_decision stream).
  split; [rewrite read_answer_header; apply read_render_decision|].
  unfold answer_of_decision, truthful_decision.
  destruct (r_status (last_result stream)) eqn:E; cbn [a_status a_model a_costs a_count].
  - repeat split; try discriminate; auto.
  - destruct (HS eq_refl) as [HL HM].
    split; [intros _; exists (r_model (last_result stream)); auto|].
    repeat split; try discriminate; auto. intros H; congruence.
  - repeat split; try discriminate; auto.
Qed.

(* Library-level spec of the stream handed to printOptimizationResults (shape
   of solver.Optimal, solver.go:945-1032: either one Unsat result, or a
   non-empty run of Sat results with strictly decreasing costs whose last
   element is optimal; Optimal does NOT send a final Unsat after Sat results). *)
Definition optim_stream_ok (n : nat) (P : problem) (c : cost) (stream : list result) : Prop :=
  (exists r, stream = [r] /\ r_status r = Unsat /\ ~ PSatisfiable n P) \/
  (stream <> [] /\
   Forall (fun r => r_status r = Sat /\ List.length (r_model r) = n /\
                    sat_problem (r_model r) P = true /\
                    r_weight r = cost_of (r_model r) c) stream /\
   strictly_decreasing (map r_weight stream) /\
   is_optimum n P c (r_model (last_result stream))).

Lemma Forall_last : forall (A : Type) (Q : A -> Prop) (l : list A) (d : A),
  Forall Q l -> l <> [] -> Q (List.last l d).
Proof.
  intros A Q l d H. induction H as [|x l Hx Hl IH]; intros Hne; [congruence|].
  destruct l as [|y l]; [exact Hx|]. apply IH. discriminate.
Qed.

Lemma last_map : forall (A B : Type) (f : A -> B) (l : list A) (d : A),
  List.last (map f l) (f d) = f (List.last l d).
Proof.
  intros A B f l d. induction l as [|x l IH]; [reflexivity|].
  destruct l as [|y l]; [reflexivity|]. exact IH.
Qed.

Lemma filter_all_sat : forall stream,
  Forall (fun r => r_status r = Sat) stream -> filter is_sat_result stream = stream.
Proof.
  intros stream H. induction H as [|r l Hr Hl IH]; [reflexivity|].
  cbn [filter]. unfold is_sat_result at 1. rewrite Hr. cbn [status_eqb]. rewrite IH.
  reflexivity.
Qed.

Theorem truthful_optim_thm : forall n P c path stream,
  optim_stream_ok n P c stream ->
  exists ans,
    read_answer (with_header path (render_optim stream)) = Some ans /\
    truthful_optim n P c ans /\
    a_costs ans = map r_weight (filter is_sat_result stream) /\
    (Forall (fun r => r_status r = Sat) stream -> a_costs ans = map r_weight stream).
Proof.
  intros n P c path stream H. exists (answer_of_optim stream).
  split; [rewrite read_answer_header; apply read_render_optim|].
  assert (HC : a_costs (answer_of_optim stream) = sat_weights stream).
  { unfold answer_of_optim. destruct (r_status (last_result stream)); reflexivity. }
  split; [|split; [exact HC|]].
  2:{ intros HF. rewrite HC. unfold sat_weights. rewrite (filter_all_sat stream HF).
      reflexivity. }
  destruct H as [[r [-> [Hr HU]]]|[Hne [HF [HD HO]]]].
  - unfold answer_of_optim, truthful_optim, sat_weights, last_result.
    cbn [List.last filter]. unfold is_sat_result. rewrite Hr.
    cbn [status_eqb map a_status a_model a_costs a_count strictly_decreasing].
    repeat split; try discriminate; auto.
  - assert (HSat : Forall (fun r => r_status r = Sat) stream).
    { eapply Forall_impl; [|exact HF]. intros r Hr. apply Hr. }
    pose proof (Forall_last _ _ stream zero_result HF Hne) as [HLs [HLl [HLm HLw]]].
    fold (last_result stream) in HLs, HLl, HLm, HLw.
    unfold answer_of_optim, truthful_optim, sat_weights.
    rewrite (filter_all_sat stream HSat), HLs.
    cbn [a_status a_model a_costs a_count].
    split; [exact HD|].
    split.
    { intros _. exists (r_model (last_result stream)).
      split; [reflexivity|]. split; [exact HO|]. split.
      - destruct stream; [congruence|discriminate].
      - rewrite <- HLw. unfold last_result.
        change 0 with (r_weight zero_result). apply last_map. }
    repeat split; try discriminate; auto. intros H; congruence.
Qed.

Theorem truthful_count_thm : forall n P path nb,
  nb = count_models n (fun m => sat_problem m P) ->
  exists ans,
    read_answer (with_header path (render_count nb)) = Some ans /\
    truthful_count n P ans.
Proof.
  intros n P path nb ->. eexists. split.
  - rewrite read_answer_header. apply read_render_count.
  - unfold truthful_count. cbn [a_status a_model a_costs a_count]. auto.
Qed.

(* the three modes together *)
Theorem truthful_thm :
  (forall n P path stream, decision_stream_ok n P stream ->
     exists ans, read_answer (with_header path (render_decision stream)) = Some ans /\
                 truthful_decision n P ans) /\
  (forall n P c path stream, optim_stream_ok n P c stream ->
     exists ans, read_answer (with_header path (render_optim stream)) = Some ans /\
                 truthful_optim n P c ans /\
                 a_costs ans = map r_weight (filter is_sat_result stream)) /\
  (forall n P path nb, nb = count_models n (fun m => sat_problem m P) ->
     exists ans, read_answer (with_header path (render_count nb)) = Some ans /\
                 truthful_count n P ans).
Proof.
  split; [exact truthful_decision_thm|]. split; [|exact truthful_count_thm].
  intros n P c path stream H.
  destruct (truthful_optim_thm n P c path stream H) as [ans [H1 [H2 [H3 _]]]].
  exists ans. split; [exact H1|]. split; [exact H2|exact H3].
Qed.

(* ------------------------------------------------------------------ *)
(* H. dispatch.                                                        *)

Theorem dispatch_spec : forall path fl,
  (f_help fl = true -> dispatch path fl = AHelp) /\
  (f_help fl = false -> f_mus fl = true -> dispatch path fl = AMus) /\
  (f_help fl = false -> f_mus fl = false -> has_suffix path ".bf" = true ->
     dispatch path fl = ABf) /\
  (f_help fl = false -> f_mus fl = false -> has_suffix path ".bf" = false ->
     has_suffix path ".wcnf" = true -> dispatch path fl = AWcnf) /\
  (f_help fl = false -> f_mus fl = false -> has_suffix path ".bf" = false ->
     has_suffix path ".wcnf" = false -> has_suffix path ".cnf" = true ->
     f_count fl = true -> dispatch path fl = ACount FCnf) /\
  (f_help fl = false -> f_mus fl = false -> has_suffix path ".bf" = false ->
     has_suffix path ".wcnf" = false -> has_suffix path ".cnf" = true ->
     f_count fl = false -> dispatch path fl = ASolveCnf (f_certified fl) (f_cp fl)) /\
  (f_help fl = false -> f_mus fl = false -> has_suffix path ".bf" = false ->
     has_suffix path ".wcnf" = false -> has_suffix path ".cnf" = false ->
     has_suffix path ".opb" = true ->
     f_count fl = true -> dispatch path fl = ACount FOpb) /\
  (f_help fl = false -> f_mus fl = false -> has_suffix path ".bf" = false ->
     has_suffix path ".wcnf" = false -> has_suffix path ".cnf" = false ->
     has_suffix path ".opb" = true ->
     f_count fl = false -> dispatch path fl = ASolveOpb (f_certified fl) (f_cp fl)) /\
  (f_help fl = false -> f_mus fl = false -> has_suffix path ".bf" = false ->
     has_suffix path ".wcnf" = false -> has_suffix path ".cnf" = false ->
     has_suffix path ".opb" = false -> dispatch path fl = AErrFormat) /\
  dispatch path fl <> APanicBf.
Proof.
  intros path fl. unfold dispatch, parse_path.
  destruct (f_help fl), (f_mus fl), (has_suffix path ".bf"), (has_suffix path ".wcnf"),
    (has_suffix path ".cnf"), (has_suffix path ".opb"), (f_count fl);
    repeat split; intros; try discriminate; try reflexivity.
Qed.

(* the four recognised suffixes are pairwise exclusive, so the ORDER of the
   suffix tests in main() and parse() is not observable *)
Fixpoint srev (s : string) : string :=
  match s with
  | EmptyString => EmptyString
  | String c r => (srev r ++ String c EmptyString)%string
  end.

Lemma srev_app : forall a b, srev (a ++ b) = (srev b ++ srev a)%string.
Proof.
  induction a as [|c a IH]; intros b; cbn [append srev].
  - rewrite sapp_nil_r. reflexivity.
  - rewrite IH, sapp_assoc. reflexivity.
Qed.

Lemma drop_decomp : forall k s, exists pre, s = (pre ++ drop k s)%string.
Proof.
  induction k as [|k IH]; intros s; [exists EmptyString; reflexivity|].
  destruct s as [|c s]; [exists EmptyString; reflexivity|].
  destruct (IH s) as [pre E]. exists (String c pre). cbn [drop append].
  rewrite <- E. reflexivity.
Qed.

Lemma has_suffix_decomp : forall s suf, has_suffix s suf = true ->
  exists pre, s = (pre ++ suf)%string.
Proof.
  intros s suf H. unfold has_suffix in H. apply andb_true_iff in H.
  destruct H as [_ H]. apply String.eqb_eq in H.
  destruct (drop_decomp (String.length s - String.length suf) s) as [pre E].
  exists pre. rewrite H in E. exact E.
Qed.

Lemma has_suffix_app : forall pre suf, has_suffix (pre ++ suf) suf = true.
Proof.
  intros pre suf. unfold has_suffix.
  assert (L : forall a b, String.length (a ++ b) = (String.length a + String.length b)%nat).
  { induction a as [|c a IH]; intros b; cbn [append String.length]; [reflexivity|].
    rewrite IH. reflexivity. }
  assert (D : forall a b, drop (String.length a) (a ++ b) = b).
  { induction a as [|c a IH]; intros b; cbn [append String.length drop]; [reflexivity|].
    apply IH. }
  rewrite L. replace (String.length pre + String.length suf - String.length suf)%nat
    with (String.length pre) by lia.
  rewrite D, String.eqb_refl. apply andb_true_iff. split; [|reflexivity].
  apply Nat.leb_le. lia.
Qed.

(* has_suffix is exactly "s = pre ++ suffix for some pre" (strings.HasSuffix) *)
Theorem has_suffix_iff : forall s suf,
  has_suffix s suf = true <-> exists pre, s = (pre ++ suf)%string.
Proof.
  intros s suf. split; [apply has_suffix_decomp|].
  intros [pre ->]. apply has_suffix_app.
Qed.

Ltac suffix_clash H1 H2 :=
  let a := fresh "a" in let b := fresh "b" in
  let Ea := fresh "Ea" in let Eb := fresh "Eb" in
  destruct (has_suffix_decomp _ _ H1) as [a Ea];
  destruct (has_suffix_decomp _ _ H2) as [b Eb];
  rewrite Ea in Eb; apply (f_equal srev) in Eb; rewrite !srev_app in Eb;
  cbn [srev append] in Eb; discriminate Eb.

Theorem suffixes_exclusive : forall p,
  (has_suffix p ".bf" = true ->
     has_suffix p ".wcnf" = false /\ has_suffix p ".cnf" = false /\
     has_suffix p ".opb" = false) /\
  (has_suffix p ".wcnf" = true ->
     has_suffix p ".cnf" = false /\ has_suffix p ".opb" = false) /\
  (has_suffix p ".cnf" = true -> has_suffix p ".opb" = false).
Proof.
  intros p. split; [|split]; intros H1; repeat split.
  - destruct (has_suffix p ".wcnf") eqn:H2; [suffix_clash H1 H2|reflexivity].
  - destruct (has_suffix p ".cnf") eqn:H2; [suffix_clash H1 H2|reflexivity].
  - destruct (has_suffix p ".opb") eqn:H2; [suffix_clash H1 H2|reflexivity].
  - destruct (has_suffix p ".cnf") eqn:H2; [suffix_clash H1 H2|reflexivity].
  - destruct (has_suffix p ".opb") eqn:H2; [suffix_clash H1 H2|reflexivity].
  - destruct (has_suffix p ".opb") eqn:H2; [suffix_clash H1 H2|reflexivity].
Qed.

Theorem dispatch_args_spec : forall args fl,
  (f_help fl = true -> dispatch_args args fl = ARun AHelp) /\
  (f_help fl = false -> List.length args <> 1%nat -> dispatch_args args fl = AUsageError) /\
  (forall p, f_help fl = false -> args = [p] -> dispatch_args args fl = ARun (dispatch p fl)).
Proof.
  intros args fl. unfold dispatch_args. split; [|split].
  - intros ->. reflexivity.
  - intros -> H. cbn [negb andb]. destruct (List.length args =? 1)%nat eqn:E.
    + apply Nat.eqb_eq in E. congruence.
    + reflexivity.
  - intros p -> ->. reflexivity.
Qed.

Definition fl_default : flags := MkFlags false false false false false false.
Definition fl_count : flags := MkFlags false false false true false false.

Lemma dispatch_examples :
  dispatch "a.cnf" fl_default = ASolveCnf false false /\
  dispatch "a.cnf.bf" fl_default = ABf /\
  dispatch "x.opb" fl_count = ACount FOpb /\
  dispatch "x.txt" fl_count = AErrFormat /\
  dispatch "x.wcnf" fl_count = AWcnf /\
  dispatch "x.bf" fl_count = ABf /\
  dispatch "x.cnf" (MkFlags false true false false true false) = ASolveCnf true true /\
  dispatch "x.cnf" (MkFlags false false true true false false) = AMus /\
  dispatch "x.cnf" (MkFlags false false true true false true) = AHelp.
Proof. vm_compute. repeat split. Qed.

(* ------------------------------------------------------------------ *)
(* I. Documented limits of the conventions (refutations).              *)

(* A path containing a newline breaks the header into two physical lines, the
   second of which is not a comment: the real byte stream is then rejected. *)
Lemma header_newline_refuted : exists path stream,
  read_stdout (unlines (with_header path (render_decision stream))) = None.
Proof. exists ("a" ++ String nl "b.cnf")%string, []. vm_compute. reflexivity. Qed.

(* ... whereas on the list of lines it is accepted for every path, and the two
   views agree as soon as no line contains a newline. *)
Lemma read_stdout_unlines : forall ls, Forall (fun l => no_char nl l = true) ls ->
  read_stdout (unlines ls) = read_answer ls.
Proof. intros ls H. unfold read_stdout. rewrite (lines_of_unlines ls H). reflexivity. Qed.

(* With -certified the RUP certificate goes to stdout too (watcher.go:249,261;
   solver.go:526 prints the empty clause "0" before "s UNSATISFIABLE").  Such an
   output is either rejected by read_answer or misread ("0" looks like a model
   count), and is never a truthful decision answer. *)
Lemma certified_stdout_refuted :
  (exists ans,
     read_answer (with_header "f.cnf"
        ("0" :: render_decision [MkResult Unsat [] 0])) = Some ans /\
     forall n P, ~ truthful_decision n P ans) /\
  read_answer (with_header "f.cnf"
     ("1 0" :: "0" :: render_decision [MkResult Unsat [] 0])) = None.
Proof.
  split; [|vm_compute; reflexivity].
  eexists. split; [vm_compute; reflexivity|].
  intros n P [_ [_ [_ [_ [_ H]]]]]. discriminate H.
Qed.

(* ... but the certificate lines can be separated from the answer lines *)
Lemma split_cert_example :
  split_cert (with_header "f.cnf"
     ("1 0" :: "-2 3 0" :: "0" :: render_decision [MkResult Unsat [] 0])) =
  (["c solving f.cnf"; "s UNSATISFIABLE"], ["1 0"; "-2 3 0"; "0"]) /\
  read_answer (fst (split_cert (with_header "f.cnf"
     ("1 0" :: "-2 3 0" :: "0" :: render_decision [MkResult Unsat [] 0])))) =
  Some (answer_of_decision [MkResult Unsat [] 0]).
Proof. vm_compute. split; reflexivity. Qed.

(* the .bf reader on a rendered example (no general round trip is proved) *)
Lemma read_bf_example :
  read_bf_answer (with_header "f.bf"
     (render_bf (Some [("b", true); ("a", false); ("B", true)]))) =
  Some (Some [("B", true); ("a", false); ("b", true)]) /\
  read_bf_answer (with_header "f.bf" (render_bf None)) = Some None.
Proof. vm_compute. split; reflexivity. Qed.

(* ------------------------------------------------------------------ *)
(* J. The hypotheses of the truthfulness theorems are satisfiable.     *)

(* x1 + x2 >= 1 over two variables; cost x1 + 2 x2 *)
Definition ex_P : problem := [PBC [(1, 1); (1, 2)] 1].
Definition ex_c : cost := [(1, 1); (2, 2)].
Definition ex_stream : list result :=
  [MkResult Sat [false; true] 2; MkResult Sat [true; false] 1].
(* 0 >= 1 *)
Definition ex_U : problem := [PBC [] 1].

Lemma ex_U_unsat : forall n, ~ PSatisfiable n ex_U.
Proof. intros n [m [_ S]]. discriminate S. Qed.

Lemma ex_decision_ok :
  decision_stream_ok 2 ex_P [MkResult Sat [true; false] 0] /\
  decision_stream_ok 1 ex_U [MkResult Unsat [] 0] /\
  decision_stream_ok 1 ex_U [].
Proof.
  split; [|split]; split; cbn [last_result List.last r_status r_model]; intros H;
    try discriminate H.
  - split; reflexivity.
  - apply ex_U_unsat.
Qed.

Lemma ex_optimum : is_optimum 2 ex_P ex_c [true; false].
Proof.
  split; [reflexivity|]. split; [reflexivity|].
  intros m' L S. destruct m' as [|a [|b [|x m']]]; try discriminate L.
  destruct a, b; try discriminate S; vm_compute; discriminate.
Qed.

Lemma ex_optim_ok :
  optim_stream_ok 2 ex_P ex_c ex_stream /\
  optim_stream_ok 1 ex_U [] [MkResult Unsat [] 0].
Proof.
  split.
  - right. split; [discriminate|]. split; [|split].
    + repeat constructor.
    + cbn [map ex_stream r_weight strictly_decreasing]. lia.
    + exact ex_optimum.
  - left. eexists. split; [reflexivity|]. split; [reflexivity|apply ex_U_unsat].
Qed.

Lemma ex_count_ok : 3%N = count_models 2 (fun m => sat_problem m ex_P).
Proof. vm_compute. reflexivity. Qed.

Lemma ex_outputs :
  with_header "f.cnf" (render_decision [MkResult Sat [true; false] 0]) =
    ["c solving f.cnf"; "s SATISFIABLE"; "v 1 -2 0"] /\
  with_header "f.cnf" (render_decision [MkResult Unsat [] 0]) =
    ["c solving f.cnf"; "s UNSATISFIABLE"] /\
  with_header "f.cnf" (render_decision []) = ["c solving f.cnf"; "s UNKNOWN"] /\
  with_header "f.opb" (render_optim ex_stream) =
    ["c solving f.opb"; "o 2"; "o 1"; "s OPTIMUM FOUND"; "v x1 -x2 "] /\
  with_header "f.opb" (render_optim [MkResult Sat [true] 0]) =
    ["c solving f.opb"; "o 0"; "s OPTIMUM FOUND"; "v x1 "] /\
  with_header "f.opb" (render_optim [MkResult Unsat [] 0]) =
    ["c solving f.opb"; "s UNSATISFIABLE"] /\
  with_header "f.cnf" (render_count 3) = ["c solving f.cnf"; "3"] /\
  read_answer ["c solving f.opb"; "o 2"; "o 1"; "s OPTIMUM FOUND"; "v x1 -x2 "] =
    Some {| a_status := Some SOptimum; a_model := Some [true; false];
            a_costs := [2; 1]; a_count := None |}.
Proof. vm_compute. repeat split. Qed.
