(* Lexical layer: byte classes, strings.Fields, bufio.Scanner lines, and the
   layout primitives of Model/TextPrint.v. *)
From Coq Require Import List ZArith Bool NArith String Ascii Lia Arith.
From GS Require Import Spec.Base Model.Text Model.TextPrint Proofs.TextNum.
Import ListNotations.
Open Scope Z_scope.

(* ------------------------------------------------------------------ *)
(* byte classes *)

(* visible ASCII: what tokens are made of *)
Definition is_graph (c : ascii) : bool := (33 <=? code c) && (code c <=? 126).
(* printable ASCII: what comments are made of *)
Definition is_print (c : ascii) : bool := (32 <=? code c) && (code c <=? 126).
Definition is_blank (c : ascii) : bool := Ascii.eqb c SP || Ascii.eqb c TAB.

Ltac zcases :=
  repeat match goal with
         | |- context [?a =? ?b] => destruct (Z.eqb_spec a b)
         | |- context [?a <=? ?b] => destruct (Z.leb_spec a b)
         | H : context [?a =? ?b] |- _ => destruct (Z.eqb_spec a b)
         | H : context [?a <=? ?b] |- _ => destruct (Z.leb_spec a b)
         end; simpl in *; try reflexivity; try discriminate; try lia.

Ltac codes :=
  unfold is_graph, is_print, is_blank, is_space, is_fspace, is_numchar, is_digit in *;
  rewrite ?eqb_code in *;
  change (code SP) with 32 in *; change (code TAB) with 9 in *;
  change (code LF) with 10 in *; change (code CR) with 13 in *;
  change (code VT) with 11 in *; change (code FF) with 12 in *;
  change (code "-") with 45 in *; change (code "+") with 43 in *;
  change (code "c") with 99 in *; change (code "p") with 112 in *;
  change (code "*") with 42 in *; change (code ";") with 59 in *;
  change (code "~") with 126 in *; change (code "x") with 120 in *.

Lemma graph_not_fspace : forall c, is_graph c = true -> is_fspace c = false.
Proof. intros c H. codes. zcases. Qed.

Lemma graph_not_space : forall c, is_graph c = true -> is_space c = false.
Proof. intros c H. codes. zcases. Qed.

Lemma graph_print : forall c, is_graph c = true -> is_print c = true.
Proof. intros c H. codes. zcases. Qed.

Lemma blank_fspace : forall c, is_blank c = true -> is_fspace c = true.
Proof. intros c H. codes. zcases. Qed.

Lemma blank_space : forall c, is_blank c = true -> is_space c = true.
Proof. intros c H. codes. zcases. Qed.

Lemma blank_print_or_tab : forall c, is_blank c = true -> Ascii.eqb c LF = false /\ Ascii.eqb c CR = false.
Proof. intros c H. codes. split; zcases. Qed.

Lemma print_not_lf : forall c, is_print c = true -> Ascii.eqb c LF = false /\ Ascii.eqb c CR = false.
Proof. intros c H. codes. split; zcases. Qed.

Lemma space_fspace : forall c, is_space c = true -> is_fspace c = true.
Proof. intros c H. codes. zcases. Qed.

Lemma numchar_graph : forall c, is_numchar c = true -> is_graph c = true.
Proof. intros c H. codes. zcases. Qed.

Lemma numchar_not_c : forall c, is_numchar c = true -> Ascii.eqb c "c" = false /\ Ascii.eqb c "p" = false.
Proof. intros c H. codes. split; zcases. Qed.

Lemma forallb_impl : forall (p q : ascii -> bool) l,
  (forall c, p c = true -> q c = true) -> forallb p l = true -> forallb q l = true.
Proof.
  intros p q l H. induction l as [|c l IH]; [reflexivity|]. cbn [forallb]. intros E.
  apply andb_true_iff in E. destruct E as [E1 E2]. rewrite H, IH by assumption. reflexivity.
Qed.

(* a token: not empty, visible bytes only *)
Definition gtok (t : bytes) : Prop := t <> [] /\ forallb is_graph t = true.
(* a separator inside a line: not empty, blanks for Fields *)
Definition gsep (s : bytes) : Prop := s <> [] /\ forallb is_fspace s = true.

Lemma gtok_print_Zl : forall z, gtok (print_Zl z).
Proof.
  intros z. split; [apply print_Zl_nonempty|].
  apply (forallb_impl is_numchar); [apply numchar_graph|apply print_Zl_numchars].
Qed.

Lemma gtok_app : forall a b, forallb is_graph a = true -> gtok b -> gtok (a ++ b).
Proof.
  intros a b Ha [Hb1 Hb2]. split.
  - destruct a; simpl; [exact Hb1|discriminate].
  - rewrite forallb_app, Ha, Hb2. reflexivity.
Qed.

Lemma gtok_tok : forall t, t <> [] -> forallb is_graph t = true -> gtok t.
Proof. intros t H1 H2. split; assumption. Qed.

(* ------------------------------------------------------------------ *)
(* strings.Fields *)

Lemma fields_skip : forall ws s, forallb is_fspace ws = true -> fields (ws ++ s) = fields s.
Proof.
  induction ws as [|c ws IH]; intros s H; [reflexivity|].
  cbn [forallb] in H. apply andb_true_iff in H. destruct H as [H1 H2].
  cbn [app fields]. rewrite H1. apply IH. exact H2.
Qed.

Lemma fields_cons2 : forall c c2 r,
  fields (c :: c2 :: r) =
  if is_fspace c then fields (c2 :: r)
  else if is_fspace c2 then [c] :: fields (c2 :: r)
  else match fields (c2 :: r) with t :: ts => (c :: t) :: ts | [] => [[c]] end.
Proof. reflexivity. Qed.

Lemma fields_tok_sep : forall t sp s, gtok t -> is_fspace sp = true ->
  fields (t ++ sp :: s) = t :: fields s.
Proof.
  intros t sp s [Hne Hg] Hsp. revert Hne Hg.
  induction t as [|c t IH]; intros Hne Hg; [congruence|].
  cbn [forallb] in Hg. apply andb_true_iff in Hg. destruct Hg as [Hc Ht].
  destruct t as [|c2 t].
  - cbn [app]. rewrite fields_cons2, (graph_not_fspace c Hc), Hsp.
    change (sp :: s) with ([sp] ++ s). rewrite fields_skip; [reflexivity|].
    cbn [forallb]. rewrite Hsp. reflexivity.
  - assert (Hc2 : is_graph c2 = true).
    { cbn [forallb] in Ht. apply andb_true_iff in Ht. tauto. }
    specialize (IH ltac:(discriminate) Ht).
    change ((c :: c2 :: t) ++ sp :: s) with (c :: c2 :: (t ++ sp :: s)).
    rewrite fields_cons2, (graph_not_fspace c Hc), (graph_not_fspace c2 Hc2).
    change (c2 :: t ++ sp :: s) with ((c2 :: t) ++ sp :: s). rewrite IH. reflexivity.
Qed.

Lemma fields_tok_end : forall t, gtok t -> fields t = [t].
Proof.
  intros t [Hne Hg]. revert Hne Hg.
  induction t as [|c t IH]; intros Hne Hg; [congruence|].
  cbn [forallb] in Hg. apply andb_true_iff in Hg. destruct Hg as [Hc Ht].
  destruct t as [|c2 t].
  - cbn [fields]. rewrite (graph_not_fspace c Hc). reflexivity.
  - assert (Hc2 : is_graph c2 = true).
    { cbn [forallb] in Ht. apply andb_true_iff in Ht. tauto. }
    specialize (IH ltac:(discriminate) Ht).
    rewrite fields_cons2, (graph_not_fspace c Hc), (graph_not_fspace c2 Hc2), IH. reflexivity.
Qed.

Lemma fields_tok_seps : forall t ws s, gtok t -> gsep ws ->
  fields (t ++ ws ++ s) = t :: fields s.
Proof.
  intros t ws s Ht [Hne Hws]. destruct ws as [|sp ws]; [congruence|].
  cbn [forallb] in Hws. apply andb_true_iff in Hws. destruct Hws as [H1 H2].
  cbn [app]. rewrite fields_tok_sep by assumption. f_equal. apply fields_skip. exact H2.
Qed.

(* last token of a line: followed by any number of blanks *)
Lemma fields_tok_trail : forall t ws, gtok t -> forallb is_fspace ws = true ->
  fields (t ++ ws) = [t].
Proof.
  intros t ws Ht Hws. destruct ws as [|sp ws].
  - rewrite app_nil_r. apply fields_tok_end. exact Ht.
  - cbn [forallb] in Hws. apply andb_true_iff in Hws. destruct Hws as [H1 H2].
    rewrite fields_tok_sep by assumption.
    rewrite <- (app_nil_r ws), fields_skip by exact H2. reflexivity.
Qed.

Definition good_pairs (ps : list tsep) : Prop :=
  Forall (fun p => gtok (fst p) /\ gsep (snd p)) ps.

Lemma fields_flat : forall ps rest, good_pairs ps ->
  fields (flat ps ++ rest) = map fst ps ++ fields rest.
Proof.
  unfold flat. induction ps as [|[t s] ps IH]; intros rest H; [reflexivity|].
  inversion H as [|x y [Ht Hs] Hr]; subst. cbn [map List.concat fst snd] in *.
  rewrite <- !app_assoc. rewrite fields_tok_seps by assumption.
  rewrite IH by exact Hr. reflexivity.
Qed.

Lemma flat_app : forall a b, flat (a ++ b) = flat a ++ flat b.
Proof. intros a b. unfold flat. rewrite map_app, concat_app. reflexivity. Qed.

Lemma good_pairs_app : forall a b, good_pairs a -> good_pairs b -> good_pairs (a ++ b).
Proof. intros a b Ha Hb. apply Forall_app. split; assumption. Qed.

(* ------------------------------------------------------------------ *)
(* lines *)

Definition no_lf (l : bytes) : Prop := forallb (fun c => negb (Ascii.eqb c LF)) l = true.
(* neither \n nor \r *)
Definition clean (l : bytes) : Prop :=
  forallb (fun c => negb (Ascii.eqb c LF) && negb (Ascii.eqb c CR)) l = true.

Lemma clean_no_lf : forall l, clean l -> no_lf l.
Proof.
  unfold clean, no_lf. induction l as [|c l IH]; [reflexivity|]. cbn [forallb]. intros H.
  apply andb_true_iff in H. destruct H as [H1 H2]. apply andb_true_iff in H1.
  destruct H1 as [H1 _]. rewrite H1, IH by exact H2. reflexivity.
Qed.

Lemma clean_app : forall a b, clean a -> clean b -> clean (a ++ b).
Proof. unfold clean. intros a b Ha Hb. rewrite forallb_app, Ha, Hb. reflexivity. Qed.

Lemma clean_print : forall l, forallb is_print l = true -> clean l.
Proof.
  unfold clean. induction l as [|c l IH]; [reflexivity|]. cbn [forallb]. intros H.
  apply andb_true_iff in H. destruct H as [H1 H2].
  destruct (print_not_lf c H1) as [E1 E2]. rewrite E1, E2, IH by exact H2. reflexivity.
Qed.

Lemma clean_blanks : forall l, forallb is_blank l = true -> clean l.
Proof.
  unfold clean. induction l as [|c l IH]; [reflexivity|]. cbn [forallb]. intros H.
  apply andb_true_iff in H. destruct H as [H1 H2].
  destruct (blank_print_or_tab c H1) as [E1 E2]. rewrite E1, E2, IH by exact H2. reflexivity.
Qed.

Lemma clean_graph : forall l, forallb is_graph l = true -> clean l.
Proof.
  intros l H. apply clean_print. apply (forallb_impl is_graph); [apply graph_print|exact H].
Qed.

Lemma no_lf_app : forall a b, no_lf a -> no_lf b -> no_lf (a ++ b).
Proof. unfold no_lf. intros a b Ha Hb. rewrite forallb_app, Ha, Hb. reflexivity. Qed.

Lemma raw_lines_cut : forall l rest, no_lf l ->
  raw_lines (l ++ LF :: rest) = l :: raw_lines rest.
Proof.
  unfold no_lf. induction l as [|c l IH]; intros rest H.
  - cbn [app raw_lines]. change (Ascii.eqb LF LF) with true. reflexivity.
  - cbn [forallb] in H. apply andb_true_iff in H. destruct H as [H1 H2].
    apply negb_true_iff in H1. cbn [app raw_lines]. rewrite H1, IH by exact H2. reflexivity.
Qed.

Lemma raw_lines_last : forall l, no_lf l -> l <> [] -> raw_lines l = [l].
Proof.
  unfold no_lf. induction l as [|c l IH]; intros H Hne; [congruence|].
  cbn [forallb] in H. apply andb_true_iff in H. destruct H as [H1 H2].
  apply negb_true_iff in H1. cbn [raw_lines]. rewrite H1.
  destruct l as [|c2 l]; [reflexivity|]. rewrite IH by (assumption || discriminate).
  reflexivity.
Qed.

Lemma drop_cr_clean : forall l, clean l -> drop_cr l = l.
Proof.
  unfold clean. induction l as [|c l IH]; intros H; [reflexivity|].
  cbn [forallb] in H. apply andb_true_iff in H. destruct H as [H1 H2].
  apply andb_true_iff in H1. destruct H1 as [_ H1]. apply negb_true_iff in H1.
  destruct l as [|c2 l].
  - cbn [drop_cr]. rewrite H1. reflexivity.
  - change (drop_cr (c :: c2 :: l)) with (c :: drop_cr (c2 :: l)). rewrite IH by exact H2.
    reflexivity.
Qed.

Lemma drop_cr_cr : forall l, drop_cr (l ++ [CR]) = l.
Proof.
  induction l as [|c l IH]; [reflexivity|].
  destruct l as [|c2 l].
  - reflexivity.
  - change (drop_cr ((c :: c2 :: l) ++ [CR])) with (c :: drop_cr ((c2 :: l) ++ [CR])).
    rewrite IH. reflexivity.
Qed.

Definition clean_lines (ls : list tline) : Prop := Forall (fun l => clean (fst l)) ls.

Lemma lines_join : forall omit ls, clean_lines ls ->
  map drop_cr (raw_lines (join_lines omit ls)) = map fst ls.
Proof.
  intros omit. induction ls as [|[l crlf] r IH]; intros H; [reflexivity|].
  inversion H as [|x y Hl Hr]; subst. cbn [fst] in Hl. specialize (IH Hr).
  assert (Hcut : forall rest, map drop_cr (raw_lines (l ++ line_end crlf ++ rest))
                              = l :: map drop_cr (raw_lines rest)).
  { intros rest. destruct crlf; cbn [line_end app].
    - change (l ++ CR :: LF :: rest) with (l ++ [CR] ++ LF :: rest).
      rewrite app_assoc, raw_lines_cut.
      + cbn [map]. rewrite drop_cr_cr. reflexivity.
      + apply no_lf_app; [apply clean_no_lf; exact Hl|reflexivity].
    - rewrite raw_lines_cut by (apply clean_no_lf; exact Hl).
      cbn [map]. rewrite drop_cr_clean by exact Hl. reflexivity. }
  cbn [join_lines map fst]. destruct r as [|l2 r].
  - destruct omit.
    + destruct l as [|c l].
      * destruct crlf; reflexivity.
      * rewrite raw_lines_last by (try discriminate; apply clean_no_lf; exact Hl).
        cbn [map]. rewrite drop_cr_clean by exact Hl. reflexivity.
    + specialize (Hcut []). rewrite app_nil_r in Hcut. rewrite Hcut. reflexivity.
  - rewrite Hcut, IH. reflexivity.
Qed.

Lemma scan_raw_short : forall ls, forallb short_line ls = true ->
  scan_raw ls = (map drop_cr ls, false).
Proof.
  induction ls as [|l r IH]; [reflexivity|]. cbn [forallb]. intros H.
  apply andb_true_iff in H. destruct H as [H1 H2].
  cbn [scan_raw map]. rewrite H1, IH by exact H2. reflexivity.
Qed.

(* no line of the text reaches bufio.MaxScanTokenSize *)
Definition lines_short (s : bytes) : Prop := forallb short_line (raw_lines s) = true.

Lemma scan_lines_join : forall omit ls, clean_lines ls ->
  lines_short (join_lines omit ls) ->
  scan_lines (join_lines omit ls) = (map fst ls, false).
Proof.
  intros omit ls Hc Hs. unfold scan_lines. rewrite scan_raw_short by exact Hs.
  rewrite lines_join by exact Hc. reflexivity.
Qed.

(* ------------------------------------------------------------------ *)
(* layout primitives *)

Lemma blank_is_blank : forall k, is_blank (blank k) = true.
Proof. intros k. unfold blank. destruct (Nat.even k); reflexivity. Qed.

Lemma atoms_inline : forall c lay,
  forallb is_blank (fst (atoms false c lay)) = true /\
  List.length (fst (atoms false c lay)) = c.
Proof.
  induction c as [|c IH]; intros lay; [split; reflexivity|].
  cbn [atoms]. destruct (next lay) as [k l1]. specialize (IH l1).
  destruct (atoms false c l1) as [r l2]. cbn [fst] in *. destruct IH as [IH1 IH2].
  cbn [atom app forallb List.length]. rewrite blank_is_blank, IH1, IH2. split; reflexivity.
Qed.

Lemma atom_multi_space : forall k, forallb is_space (atom true k) = true /\ atom true k <> [].
Proof.
  intros k. unfold atom. destruct (Nat.modulo k 4) as [|[|[|m]]]; split; try reflexivity; discriminate.
Qed.

Lemma atoms_multi : forall c lay,
  forallb is_space (fst (atoms true c lay)) = true /\
  (c <= List.length (fst (atoms true c lay)))%nat.
Proof.
  induction c as [|c IH]; intros lay; [split; [reflexivity|simpl; lia]|].
  cbn [atoms]. destruct (next lay) as [k l1]. specialize (IH l1).
  destruct (atoms true c l1) as [r l2]. cbn [fst] in *. destruct IH as [IH1 IH2].
  destruct (atom_multi_space k) as [A1 A2]. split.
  - rewrite forallb_app, A1, IH1. reflexivity.
  - rewrite app_length. destruct (atom true k); [congruence|]. simpl. lia.
Qed.

Lemma sep1_inline : forall lay,
  forallb is_blank (fst (sep1 false lay)) = true /\ fst (sep1 false lay) <> [].
Proof.
  intros lay. unfold sep1. destruct (next lay) as [k l1].
  destruct (atoms_inline (S (Nat.modulo k 3)) l1) as [H1 H2]. split; [exact H1|].
  intro E. rewrite E in H2. discriminate.
Qed.

Lemma sep1_multi : forall lay,
  forallb is_space (fst (sep1 true lay)) = true /\ fst (sep1 true lay) <> [].
Proof.
  intros lay. unfold sep1. destruct (next lay) as [k l1].
  destruct (atoms_multi (S (Nat.modulo k 3)) l1) as [H1 H2]. split; [exact H1|].
  intro E. rewrite E in H2. simpl in H2. lia.
Qed.

Lemma sep0_inline : forall lay, forallb is_blank (fst (sep0 lay)) = true.
Proof.
  intros lay. unfold sep0. destruct (next lay) as [k l1]. apply atoms_inline.
Qed.

Lemma sep0'_inline : forall lay, forallb is_blank (fst (sep0' lay)) = true.
Proof.
  intros lay. unfold sep0'. destruct (next lay) as [k l1]. apply atoms_inline.
Qed.

Lemma blanks_fspace : forall l, forallb is_blank l = true -> forallb is_fspace l = true.
Proof. intros l. apply forallb_impl. apply blank_fspace. Qed.

Lemma blanks_space : forall l, forallb is_blank l = true -> forallb is_space l = true.
Proof. intros l. apply forallb_impl. apply blank_space. Qed.

Lemma sep1_gsep : forall lay, gsep (fst (sep1 false lay)).
Proof.
  intros lay. destruct (sep1_inline lay) as [H1 H2]. split; [exact H2|].
  apply blanks_fspace. exact H1.
Qed.

Lemma ctext_print : forall c lay, forallb is_print (fst (ctext c lay)) = true.
Proof.
  induction c as [|c IH]; intros lay; [reflexivity|].
  cbn [ctext]. destruct (next lay) as [k l1]. specialize (IH l1).
  destruct (ctext c l1) as [r l2]. cbn [fst forallb] in *. rewrite IH.
  assert (Hk : (Nat.modulo k 95 < 95)%nat) by (apply Nat.mod_upper_bound; discriminate).
  unfold is_print. rewrite code_chr by lia.
  replace (32 <=? 32 + Z.of_nat (Nat.modulo k 95)) with true by (symmetry; apply Z.leb_le; lia).
  replace (32 + Z.of_nat (Nat.modulo k 95) <=? 126) with true by (symmetry; apply Z.leb_le; lia).
  reflexivity.
Qed.

Lemma comment_text_print : forall lay, forallb is_print (fst (comment_text lay)) = true.
Proof. intros lay. unfold comment_text. destruct (next lay) as [k l1]. apply ctext_print. Qed.

(* a filler line: blanks only, or (blanks) [pre] followed by printable bytes *)
Definition filler_line (pre : bytes) (spaced leadok : bool) (l : bytes) : Prop :=
  forallb is_blank l = true \/
  exists ld t, forallb is_blank ld = true /\ (leadok = false -> ld = []) /\
               forallb is_print t = true /\
               l = ld ++ pre ++ (if spaced then (match t with [] => [] | _ => SP :: t end) else t).

Lemma filler_spec : forall pre spaced leadok c lay,
  Forall (fun l => filler_line pre spaced leadok (fst l)) (fst (filler pre spaced leadok c lay)).
Proof.
  induction c as [|c IH]; intros lay; [constructor|].
  cbn [filler]. destruct (next lay) as [k l1]. destruct (next l1) as [e l2].
  pose proof (sep0_inline l2) as Hld. destruct (sep0 l2) as [ld l2']. cbn [fst] in Hld.
  destruct (Nat.even k).
  - pose proof (comment_text_print l2') as Ht. destruct (comment_text l2') as [t l3].
    specialize (IH l3). destruct (filler pre spaced leadok c l3) as [r l4]. cbn [fst] in *.
    constructor; [|exact IH]. right. exists (if leadok then ld else []), t.
    split; [destruct leadok; [exact Hld|reflexivity]|].
    split; [intros ->; reflexivity|]. split; [exact Ht|reflexivity].
  - specialize (IH l2'). destruct (filler pre spaced leadok c l2') as [r l3]. cbn [fst] in *.
    constructor; [|exact IH]. left. exact Hld.
Qed.

Lemma gen_filler_spec : forall pre spaced leadok lay,
  Forall (fun l => filler_line pre spaced leadok (fst l)) (fst (gen_filler pre spaced leadok lay)).
Proof. intros. unfold gen_filler. destruct (next lay) as [k l1]. apply filler_spec. Qed.

Lemma filler_line_clean : forall pre spaced leadok l,
  forallb is_print pre = true -> filler_line pre spaced leadok l -> clean l.
Proof.
  intros pre spaced leadok l Hp [Hb|[ld [t [Hld [_ [Ht ->]]]]]]; [apply clean_blanks; exact Hb|].
  apply clean_app; [apply clean_blanks; exact Hld|].
  apply clean_print. rewrite forallb_app, Hp. destruct spaced; [|exact Ht].
  destruct t; [reflexivity|]. cbn [forallb]. cbn [forallb] in Ht. rewrite Ht. reflexivity.
Qed.

(* ------------------------------------------------------------------ *)
(* strings.TrimSpace *)

Lemma drop_fspace_app : forall ws s, forallb is_fspace ws = true ->
  drop_fspace (ws ++ s) = drop_fspace s.
Proof.
  induction ws as [|c ws IH]; intros s H; [reflexivity|].
  cbn [forallb] in H. apply andb_true_iff in H. destruct H as [H1 H2].
  cbn [app drop_fspace]. rewrite H1. apply IH. exact H2.
Qed.

Lemma drop_fspace_all : forall ws, forallb is_fspace ws = true -> drop_fspace ws = [].
Proof.
  intros ws H. rewrite <- (app_nil_r ws), drop_fspace_app by exact H. reflexivity.
Qed.

Lemma forallb_rev : forall (p : ascii -> bool) l, forallb p (rev l) = forallb p l.
Proof.
  intros p l. induction l as [|c l IH]; [reflexivity|].
  cbn [rev forallb]. rewrite forallb_app, IH. cbn [forallb]. rewrite andb_true_r. apply andb_comm.
Qed.

Lemma trim_space_blank : forall l, forallb is_fspace l = true -> trim_space l = [].
Proof. intros l H. unfold trim_space. rewrite (drop_fspace_all l H). reflexivity. Qed.

(* a line whose first and last bytes (after / before the blanks) are not blanks *)
Lemma trim_space_core : forall lead c0 mid x trail,
  forallb is_fspace lead = true -> forallb is_fspace trail = true ->
  is_fspace c0 = false -> is_fspace x = false ->
  trim_space (lead ++ (c0 :: mid ++ [x]) ++ trail) = c0 :: mid ++ [x].
Proof.
  intros lead c0 mid x trail Hl Ht Hc Hx. unfold trim_space.
  set (body := c0 :: mid ++ [x]).
  assert (H1 : drop_fspace (lead ++ body ++ trail) = body ++ trail).
  { rewrite drop_fspace_app by exact Hl. unfold body. cbn [app drop_fspace]. rewrite Hc.
    reflexivity. }
  rewrite H1, rev_app_distr, drop_fspace_app by (rewrite forallb_rev; exact Ht).
  assert (H2 : rev body = x :: rev (c0 :: mid)).
  { unfold body. change (c0 :: mid ++ [x]) with ((c0 :: mid) ++ [x]). rewrite rev_app_distr.
    reflexivity. }
  rewrite H2. cbn [drop_fspace]. rewrite Hx. rewrite <- H2. apply rev_involutive.
Qed.

Lemma trim_space_single : forall lead c0 trail,
  forallb is_fspace lead = true -> forallb is_fspace trail = true ->
  is_fspace c0 = false -> trim_space (lead ++ [c0] ++ trail) = [c0].
Proof.
  intros lead c0 trail Hl Ht Hc. unfold trim_space.
  rewrite drop_fspace_app by exact Hl. cbn [app drop_fspace]. rewrite Hc.
  change (c0 :: trail) with ([c0] ++ trail).
  rewrite rev_app_distr. rewrite drop_fspace_app by (rewrite forallb_rev; exact Ht).
  cbn [rev app drop_fspace]. rewrite Hc. reflexivity.
Qed.

Lemma drop_fspace_snoc : forall s c, is_fspace c = false ->
  exists y, drop_fspace (s ++ [c]) = y ++ [c].
Proof.
  induction s as [|a s IH]; intros c Hc.
  - exists []. cbn [app drop_fspace]. rewrite Hc. reflexivity.
  - cbn [app drop_fspace]. destruct (is_fspace a).
    + apply IH. exact Hc.
    + exists (a :: s). reflexivity.
Qed.

(* the first non-blank byte of a line is the first byte of the trimmed line *)
Lemma trim_space_head : forall lead c0 t,
  forallb is_fspace lead = true -> is_fspace c0 = false ->
  exists t', trim_space (lead ++ c0 :: t) = c0 :: t'.
Proof.
  intros lead c0 t Hl Hc. unfold trim_space.
  rewrite drop_fspace_app by exact Hl. cbn [drop_fspace]. rewrite Hc. cbn [rev].
  destruct (drop_fspace_snoc (rev t) c0 Hc) as [y Ey]. rewrite Ey, rev_app_distr.
  cbn [rev app]. eexists. reflexivity.
Qed.

Lemma spaced_toks_spec : forall ts lay, Forall gtok ts ->
  good_pairs (fst (spaced_toks ts lay)) /\ map fst (fst (spaced_toks ts lay)) = ts.
Proof.
  induction ts as [|t r IH]; intros lay H; [split; [constructor|reflexivity]|].
  inversion H as [|x y Ht Hr]; subst. cbn [spaced_toks].
  pose proof (sep1_gsep lay) as Hs. destruct (sep1 false lay) as [s l1].
  specialize (IH l1 Hr). destruct (spaced_toks r l1) as [ps l2]. cbn [fst] in *.
  destruct IH as [IH1 IH2]. split.
  - constructor; [split; assumption|exact IH1].
  - cbn [map fst]. rewrite IH2. reflexivity.
Qed.

Lemma good_pairs_clean : forall ps, good_pairs ps ->
  Forall (fun p => forallb is_blank (snd p) = true) ps -> clean (flat ps).
Proof.
  unfold flat. induction ps as [|[t s] ps IH]; intros H Hb; [reflexivity|].
  inversion H as [|x y [[_ Ht] _] Hr]; subst. inversion Hb as [|x y Hs Hbr]; subst.
  cbn [map List.concat fst snd] in *. apply clean_app; [apply clean_app|].
  - apply clean_graph. exact Ht.
  - apply clean_blanks. exact Hs.
  - apply IH; assumption.
Qed.

Lemma spaced_toks_blank : forall ts lay,
  Forall (fun p => forallb is_blank (snd p) = true) (fst (spaced_toks ts lay)).
Proof.
  induction ts as [|t r IH]; intros lay; [constructor|].
  cbn [spaced_toks]. destruct (sep1_inline lay) as [Hs _]. destruct (sep1 false lay) as [s l1].
  specialize (IH l1). destruct (spaced_toks r l1) as [ps l2]. cbn [fst] in *.
  constructor; [exact Hs|exact IH].
Qed.
