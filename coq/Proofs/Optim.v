(* Proofs about Model/Optim.v (Optimal / Minimize, property C03). *)
From Coq Require Import List ZArith Lia Bool Permutation Sorted.
From GS Require Import Spec.Base Spec.PB Spec.Solver Model.PBNorm Proofs.PBNorm Model.Optim.
Import ListNotations.
Open Scope Z_scope.

(* ------------------------------------------------------------------ *)
(* General facts about literals and left-hand sides.                   *)

Lemma lit_val_neg : forall m l, l <> 0 -> lit_val m (- l) = negb (lit_val m l).
Proof.
  intros m l H. unfold lit_val.
  destruct (0 <? l) eqn:E1; destruct (0 <? - l) eqn:E2.
  - apply Z.ltb_lt in E1. apply Z.ltb_lt in E2. lia.
  - rewrite Z.opp_involutive. reflexivity.
  - rewrite negb_involutive. reflexivity.
  - apply Z.ltb_ge in E1. apply Z.ltb_ge in E2. lia.
Qed.

Lemma lhs_app : forall m a b, lhs m (a ++ b) = lhs m a + lhs m b.
Proof. intros m a b. induction a as [|t a IH]; simpl; [reflexivity|]. rewrite IH. lia. Qed.

Lemma lhs_perm : forall m a b, Permutation a b -> lhs m a = lhs m b.
Proof.
  intros m a b H. induction H as [|x l l' _ IH|x y l|l l' l'' _ IH1 _ IH2]; simpl.
  - reflexivity.
  - rewrite IH. reflexivity.
  - lia.
  - rewrite IH1. exact IH2.
Qed.

Lemma insert_desc_perm : forall t l, Permutation (t :: l) (insert_desc t l).
Proof.
  intros t l. induction l as [|u r IH]; simpl.
  - apply Permutation_refl.
  - destruct (fst u <? fst t).
    + apply Permutation_refl.
    + eapply perm_trans; [apply perm_swap|]. apply perm_skip. exact IH.
Qed.

Lemma sort_desc_perm : forall l, Permutation l (sort_desc l).
Proof.
  induction l as [|t l IH]; simpl.
  - apply perm_nil.
  - eapply perm_trans; [apply perm_skip; exact IH|]. apply insert_desc_perm.
Qed.

Lemma lhs_trim_zeros : forall m l, lhs m (trim_zeros l) = lhs m l.
Proof.
  intros m l. induction l as [|t r IH]; [reflexivity|].
  cbn [trim_zeros]. destruct (trim_zeros r) as [|u r'] eqn:E.
  - cbn [lhs] in *. rewrite <- IH. destruct (fst t =? 0) eqn:Z0.
    + apply Z.eqb_eq in Z0. unfold term_val. rewrite Z0. destruct (lit_val m (snd t)); reflexivity.
    + cbn [lhs]. reflexivity.
  - cbn [lhs] in *. rewrite IH. reflexivity.
Qed.

Definition lits_nonzero (c : cost) : Prop := Forall (fun t => snd t <> 0) c.

Lemma lhs_neg_terms : forall m c, lits_nonzero c ->
  lhs m (map neg_term c) = total_weight c - cost_of m c.
Proof.
  intros m c H. unfold cost_of. induction H as [|t c Ht _ IH]; [reflexivity|].
  cbn [map lhs total_weight fold_right]. fold (total_weight c). rewrite IH.
  unfold term_val, neg_term, term, lit in *; cbn [fst snd]. rewrite lit_val_neg by exact Ht.
  destruct (lit_val m (snd t)); cbn [negb]; lia.
Qed.

Lemma lhs_hypothesis : forall m c, lits_nonzero c ->
  lhs m (hypothesis c) = total_weight c - cost_of m c.
Proof.
  intros m c H. unfold hypothesis. rewrite lhs_trim_zeros.
  rewrite <- (lhs_perm m _ _ (sort_desc_perm (map neg_term c))).
  apply lhs_neg_terms. exact H.
Qed.

(* The constraint added after a model of cost [bound] was found means
   "the cost is at most bound - 1".  No sign condition on the weights and no
   distinctness of the variables is needed.  The constraint really added is this
   one after GtEq / saturation / sorting ([bound_pbc], below); distinct variables
   matter only *inside* the solver (AppendClause panics on a repeated literal). *)
Theorem strengthen_equiv : forall (c : cost) (m : model) (bound : Z),
  lits_nonzero c ->
  (lhs m (map (fun '(w, l) => (w, - l)) c) >= total_weight c - bound + 1
   <-> cost_of m c <= bound - 1).
Proof.
  intros c m bound H.
  replace (map (fun '(w, l) => (w, - l)) c) with (map neg_term c).
  - rewrite lhs_neg_terms by exact H. lia.
  - apply map_ext. intros [w l]. reflexivity.
Qed.

Lemma nonneg_terms_Forall : forall c, nonneg_terms c = true <-> Forall (fun t => 0 <= fst t) c.
Proof.
  intros c. unfold nonneg_terms. rewrite forallb_forall, Forall_forall.
  split; intros H t Ht; specialize (H t Ht); apply Z.leb_le; exact H.
Qed.

Lemma lhs_nonneg : forall m ts, nonneg_terms ts = true -> 0 <= lhs m ts.
Proof.
  intros m ts H. apply nonneg_terms_Forall in H. induction H as [|t ts Ht _ IH]; simpl; [lia|].
  unfold term_val. destruct (lit_val m (snd t)); lia.
Qed.

Lemma combine_map_fst_snd : forall ts : list term, combine (map fst ts) (map snd ts) = ts.
Proof. induction ts as [|[w l] ts IH]; cbn; [reflexivity|]. f_equal. exact IH. Qed.

Lemma trim_zeros_Forall : forall (Q : term -> Prop) l, Forall Q l -> Forall Q (trim_zeros l).
Proof.
  intros Q l H. induction H as [|t r Ht _ IH]; [constructor|].
  cbn [trim_zeros]. destruct (trim_zeros r) as [|u r'].
  - destruct (fst t =? 0); constructor; [exact Ht|constructor].
  - constructor; assumption.
Qed.

Lemma hypothesis_nonzero : forall c, lits_nonzero c -> lits_nonzero (hypothesis c).
Proof.
  intros c H. unfold hypothesis, lits_nonzero. apply trim_zeros_Forall.
  eapply Permutation_Forall; [apply sort_desc_perm|].
  apply Forall_map. eapply Forall_impl; [|exact H]. intros t Ht. cbn beta in Ht. unfold neg_term; cbn [snd]. intro E. apply Ht. apply Z.opp_inj. exact E.
Qed.

(* boundConstr: GtEq, saturation and sorting keep the meaning "sum >= d" ... *)
Lemma bound_constr_sem : forall hyp d b (m : model), lits_nonzero hyp ->
  bound_constr hyp d = Some b -> sat_pbc m b = (d <=? lhs m hyp).
Proof.
  intros hyp d b m Hnz E. unfold bound_constr in E.
  destruct (pb_clause_spec _ _ E (gt_eq_nonneg _ _ _)) as [_ [_ [_ Hs]]].
  rewrite Hs, gt_eq_spec.
  - unfold sat_uc; cbn [u_terms u_rel u_rhs]. rewrite combine_map_fst_snd. reflexivity.
  - rewrite !map_length. reflexivity.
  - intros l Hl. apply in_map_iff in Hl. destruct Hl as [t [<- Ht]].
    unfold lits_nonzero in Hnz. rewrite Forall_forall in Hnz. apply Hnz. exact Ht.
Qed.

(* ... and NewPBClause does not panic as soon as some assignment violates it. *)
Lemma bound_constr_some : forall hyp d (m : model), lits_nonzero hyp ->
  lhs m hyp < d -> exists b, bound_constr hyp d = Some b.
Proof.
  intros hyp d m Hnz Hlt. destruct (bound_constr hyp d) as [b|] eqn:E; [eauto|].
  exfalso. unfold bound_constr in E. apply pb_clause_none in E.
  set (g := gt_eq (map snd hyp) (map fst hyp) d) in *.
  assert (Hs : sat_pbc m (pbc_of_gopb g) = (d <=? lhs m hyp)).
  { unfold g. rewrite gt_eq_spec.
    - unfold sat_uc; cbn [u_terms u_rel u_rhs]. rewrite combine_map_fst_snd. reflexivity.
    - rewrite !map_length. reflexivity.
    - intros l Hl. apply in_map_iff in Hl. destruct Hl as [t [<- Ht]].
      unfold lits_nonzero in Hnz. rewrite Forall_forall in Hnz. apply Hnz. exact Ht. }
  replace (d <=? lhs m hyp) with false in Hs by (symmetry; apply Z.leb_gt; exact Hlt).
  unfold sat_pbc in Hs. apply Z.leb_gt in Hs.
  pose proof (lhs_nonneg m _ (gt_eq_nonneg (map snd hyp) (map fst hyp) d)) as Hp. fold g in Hp.
  assert (degree (pbc_of_gopb g) = g_atleast g).
  { unfold pbc_of_gopb. destruct (g_ws g); reflexivity. }
  lia.
Qed.

Theorem bound_pbc_equiv : forall (c : cost) (m : model) bound b, lits_nonzero c ->
  bound_pbc c bound = Some b ->
  (sat_pbc m b = true <-> cost_of m c <= bound - 1).
Proof.
  intros c m bound b H E. unfold bound_pbc in E.
  rewrite (bound_constr_sem _ _ _ m (hypothesis_nonzero c H) E), lhs_hypothesis by exact H.
  rewrite Z.leb_le. lia.
Qed.

Theorem bound_pbc_no_panic : forall (c : cost) (m : model), lits_nonzero c ->
  exists b, bound_pbc c (cost_of m c) = Some b.
Proof.
  intros c m H. unfold bound_pbc. apply (bound_constr_some _ _ m (hypothesis_nonzero c H)).
  rewrite lhs_hypothesis by exact H. lia.
Qed.

Lemma cost_abs_bound : forall m c, - abs_weight c <= cost_of m c <= abs_weight c.
Proof.
  intros m c. unfold cost_of. induction c as [|t c IH]; simpl; [lia|].
  fold (abs_weight c). unfold term_val. destruct (lit_val m (snd t)); lia.
Qed.

Lemma cost_min_bound : forall m c, min_cost_bound c <= cost_of m c.
Proof.
  intros m c. unfold cost_of. induction c as [|t c IH]; simpl; [lia|].
  fold (min_cost_bound c). unfold term_val.
  destruct (lit_val m (snd t)); destruct (fst t <? 0) eqn:E;
    try apply Z.ltb_lt in E; try apply Z.ltb_ge in E; lia.
Qed.

Lemma cost_nonneg_bound : forall m c, nonneg_terms c = true ->
  0 <= cost_of m c <= total_weight c.
Proof.
  intros m c H. apply nonneg_terms_Forall in H. unfold cost_of.
  induction H as [|t c Ht _ IH]; simpl; [lia|].
  fold (total_weight c). unfold term_val. destruct (lit_val m (snd t)); lia.
Qed.

Lemma cost_wf_nonzero : forall n c, cost_wf n c = true -> lits_nonzero c.
Proof.
  intros n c H. unfold cost_wf in H. rewrite forallb_forall in H.
  apply Forall_forall. intros t Ht. specialize (H t Ht).
  apply andb_true_iff in H. destruct H as [H _]. apply negb_true_iff in H.
  apply Z.eqb_neq in H. exact H.
Qed.

Lemma default_fuel_enough : forall c, 2 * abs_weight c < 2 ^ Z.of_nat (default_fuel c).
Proof.
  intros c. unfold default_fuel.
  assert (Ha : 0 <= abs_weight c).
  { induction c as [|t c IH]; simpl; [lia|]. fold (abs_weight c). lia. }
  rewrite !Nat2Z.inj_succ, Z2Nat.id by apply Z.log2_nonneg.
  rewrite !Z.pow_succ_r by (pose proof (Z.log2_nonneg (abs_weight c)); lia).
  destruct (Z.eq_dec (abs_weight c) 0) as [E|E].
  - rewrite E. simpl. lia.
  - pose proof (Z.log2_spec (abs_weight c)) as L. rewrite Z.pow_succ_r in L by apply Z.log2_nonneg. lia.
Qed.

(* StronglySorted and rev *)
Lemma SSorted_snoc : forall (A : Type) (R : A -> A -> Prop) l a,
  StronglySorted R l -> Forall (fun x => R x a) l -> StronglySorted R (l ++ [a]).
Proof.
  intros A R l a H. induction H as [|x l Hs IH Hx]; intros Hf; simpl.
  - constructor; constructor.
  - inversion Hf as [|y l' Hy Hl]; subst. constructor.
    + apply IH. exact Hl.
    + apply Forall_app. split; [exact Hx|]. constructor; [exact Hy|constructor].
Qed.

Lemma SSorted_rev : forall (A : Type) (R : A -> A -> Prop) l,
  StronglySorted R l -> StronglySorted (fun a b => R b a) (rev l).
Proof.
  intros A R l H. induction H as [|x l Hs IH Hx]; simpl.
  - constructor.
  - apply SSorted_snoc; [exact IH|]. apply Forall_rev. exact Hx.
Qed.

(* ------------------------------------------------------------------ *)
(* The loop.                                                           *)

Section Loop.

Variable solve : solver.
Hypothesis solve_ok : solver_ok solve.
Variable n : nat.
Variable P : problem.
Variable c : cost.
Hypothesis Hnz : lits_nonzero c.

(* what is sent on the channel: a model of P with its own cost *)
Definition elem_ok (r : oresult) : Prop :=
  exists mj, r = OSat mj (cost_of mj c) /\ length mj = n /\ sat_problem mj P = true.

Definition incr (l : list oresult) : Prop := StronglySorted (fun a b => oweight a < oweight b) l.

Definition Inv (P' : problem) (m : model) (acc : list oresult) : Prop :=
  length m = n /\ sat_problem m P' = true /\
  (forall m', sat_problem m' P' = true -> sat_problem m' P = true) /\
  (forall m', length m' = n -> sat_problem m' P = true -> sat_problem m' P' = false ->
              cost_of m c < cost_of m' c) /\
  Forall elem_ok acc /\ Forall (fun r => cost_of m c < oweight r) acc /\ incr acc.

Definition best (m : model) : Prop :=
  forall m', length m' = n -> sat_problem m' P = true -> cost_of m c <= cost_of m' c.

Definition Post (r : oresult) (acc : list oresult) : Prop :=
  exists m acc0, r = OSat m (cost_of m c) /\ acc = r :: acc0 /\
    length m = n /\ sat_problem m P = true /\ best m /\ Forall elem_ok acc /\ incr acc.

Definition step_spec (m : model) (s : ostep) : Prop :=
  match s with
  | SDone r acc' => Post r acc'
  | SPanic acc' => False
  | SMore P2 m2 acc2 => Inv P2 m2 acc2
  end.

Definition step_decr (m : model) (s : ostep) (d : Z) : Prop :=
  match s with
  | SMore _ m2 _ => cost_of m2 c <= cost_of m c - d
  | _ => True
  end.

Lemma opt_step_inv : forall P' m acc, Inv P' m acc ->
  step_spec m (opt_step solve n c P' m acc) /\ step_decr m (opt_step solve n c P' m acc) 1.
Proof.
  intros P' m acc [Hl [Hs [Himp [Hexc [Hel [Hlt Hinc]]]]]].
  unfold opt_step.
  assert (HsP : sat_problem m P = true) by (apply Himp; exact Hs).
  assert (Hel' : Forall elem_ok (OSat m (cost_of m c) :: acc)).
  { constructor; [|exact Hel]. exists m. auto. }
  assert (Hinc' : incr (OSat m (cost_of m c) :: acc)).
  { constructor; [exact Hinc|]. exact Hlt. }
  destruct (cost_of m c =? min_cost_bound c) eqn:E0.
  { apply Z.eqb_eq in E0. split; [|exact I]. cbn [step_spec].
    exists m, acc. repeat split; auto.
    intros m' _ _. pose proof (cost_min_bound m' c). lia. }
  destruct (bound_pbc_no_panic c m Hnz) as [b Eb]. rewrite Eb.
  assert (Hbd : forall m', sat_pbc m' b = true <-> cost_of m' c <= cost_of m c - 1).
  { intros m'. apply (bound_pbc_equiv c m' _ b Hnz Eb). }
  set (P2 := b :: P').
  pose proof (solve_ok n P2) as Hok.
  assert (Hsplit : forall m', sat_problem m' P2 = sat_pbc m' b && sat_problem m' P') by reflexivity.
  destruct (solve n P2) as [m2|].
  - destruct Hok as [Hl2 Hs2]. rewrite Hsplit in Hs2. apply andb_true_iff in Hs2.
    destruct Hs2 as [Hb2 Hs2']. pose proof (proj1 (Hbd m2) Hb2) as Hc2.
    split; [|exact Hc2]. cbn [step_spec].
    split; [exact Hl2|]. split; [rewrite Hsplit, Hb2, Hs2'; reflexivity|].
    split.
    { intros m' H. rewrite Hsplit in H. apply andb_true_iff in H. apply Himp. apply H. }
    split.
    { intros m' Hl' HsP' Hf. rewrite Hsplit in Hf. apply andb_false_iff in Hf.
      destruct Hf as [Hf|Hf].
      - assert (~ cost_of m' c <= cost_of m c - 1).
        { intro Hd. apply (Hbd m') in Hd. congruence. }
        lia.
      - specialize (Hexc m' Hl' HsP' Hf). lia. }
    split; [exact Hel'|]. split; [|exact Hinc'].
    constructor; [cbn [oweight]; lia|].
    eapply Forall_impl; [|exact Hlt]. cbn beta. intros r Hr. lia.
  - split; [|exact I]. cbn [step_spec].
    exists m, acc. repeat split; auto.
    intros m' Hl' HsP'. specialize (Hok m' Hl'). rewrite Hsplit in Hok.
    apply andb_false_iff in Hok. destruct Hok as [Hf|Hf].
    + assert (~ cost_of m' c <= cost_of m c - 1).
      { intro Hd. apply (Hbd m') in Hd. congruence. }
      lia.
    + specialize (Hexc m' Hl' HsP' Hf). lia.
Qed.

Lemma opt_iter_inv : forall k P' m acc, Inv P' m acc ->
  step_spec m (opt_iter solve n c k P' m acc) /\
  step_decr m (opt_iter solve n c k P' m acc) (2 ^ Z.of_nat k).
Proof.
  induction k as [|k IH]; intros P' m acc HI.
  - cbn [opt_iter]. change (2 ^ Z.of_nat 0) with 1. apply opt_step_inv. exact HI.
  - cbn [opt_iter]. destruct (IH P' m acc HI) as [H1 D1].
    destruct (opt_iter solve n c k P' m acc) as [r a|a|P1 m1 a1].
    + split; [exact H1|exact I].
    + split; [exact H1|exact I].
    + cbn [step_spec step_decr] in H1, D1.
      destruct (IH P1 m1 a1 H1) as [H2 D2].
      destruct (opt_iter solve n c k P1 m1 a1) as [r a|a|P2 m2 a2].
      * split; [exact H2|exact I].
      * split; [exact H2|exact I].
      * split; [exact H2|]. cbn [step_decr] in *.
        rewrite Nat2Z.inj_succ, Z.pow_succ_r by lia. lia.
Qed.

(* Minimize runs the same loop. *)
Definition mstep_of (s : ostep) : mstep :=
  match s with
  | SDone (OSat m w) _ => MDone w m
  | SDone OUnsat _ => MPanic
  | SPanic _ => MPanic
  | SMore P' m _ => MMore P' m
  end.

Lemma min_step_agrees : forall P' m acc,
  min_step solve n c P' m = mstep_of (opt_step solve n c P' m acc).
Proof.
  intros P' m acc. unfold min_step, opt_step.
  destruct (cost_of m c =? min_cost_bound c); [reflexivity|].
  destruct (bound_pbc c (cost_of m c)); [|reflexivity].
  destruct (solve n _); reflexivity.
Qed.

Lemma min_iter_agrees : forall k P' m acc,
  min_iter solve n c k P' m = mstep_of (opt_iter solve n c k P' m acc).
Proof.
  induction k as [|k IH]; intros P' m acc.
  - apply min_step_agrees.
  - cbn [min_iter opt_iter]. rewrite (IH P' m acc).
    destruct (opt_iter solve n c k P' m acc) as [[|m1 w1] a|a|P1 m1 a1]; cbn [mstep_of];
      try reflexivity.
    apply IH.
Qed.

Lemma opt_step_not_unsat : forall P' m acc a, opt_step solve n c P' m acc <> SDone OUnsat a.
Proof.
  intros P' m acc a. unfold opt_step.
  destruct (cost_of m c =? min_cost_bound c); [discriminate|].
  destruct (bound_pbc c (cost_of m c)); [|discriminate]. destruct (solve n _); discriminate.
Qed.

Lemma opt_iter_not_unsat : forall k P' m acc a, opt_iter solve n c k P' m acc <> SDone OUnsat a.
Proof.
  induction k as [|k IH]; intros P' m acc a; cbn [opt_iter]; [apply opt_step_not_unsat|].
  destruct (opt_iter solve n c k P' m acc) as [r0 a0|a0|P0 m0 a0] eqn:E.
  - intro H. rewrite H in E. exact (IH _ _ _ _ E).
  - discriminate.
  - apply IH.
Qed.

End Loop.

(* ------------------------------------------------------------------ *)
(* The entry points.                                                   *)

(* what is sent on [results]: models of P with their cost, strictly decreasing
   costs, and the last one is the returned result *)
Definition stream_ok (n : nat) (P : problem) (c : cost) (s : list oresult) (r : oresult) : Prop :=
  Forall (elem_ok n P c) s /\
  StronglySorted (fun a b => oweight b < oweight a) s /\
  last s OUnsat = r.

Section Entry.

Variable solve : solver.
Hypothesis solve_ok : solver_ok solve.

(* Any integer weights; the only hypothesis is that the cost literals are non-zero and
   within the n variables.  No out-of-fuel, no panic, and the result is optimal. *)
Theorem optimal_run_correct : forall n P (c : cost), cost_wf n c = true ->
  exists r s, optimal_run solve n P (Some c) = RDone r s /\
    match r with
    | OUnsat => ~ PSatisfiable n P /\ s = [OUnsat]
    | OSat m w => is_optimum n P c m /\ w = cost_of m c /\ stream_ok n P c s r
    end.
Proof.
  intros n P c Hwf. unfold optimal_run, optimal_fuel, oc_fuel.
  pose proof (solve_ok n P) as Hok.
  destruct (solve n P) as [m|] eqn:Es.
  2:{ exists OUnsat, [OUnsat]. split; [reflexivity|]. split; [|reflexivity].
      eapply solver_ok_none; eauto. }
  destruct Hok as [Hl Hs]. rewrite Hwf.
  pose proof (cost_wf_nonzero _ _ Hwf) as Hnz.
  assert (HI : Inv n P c P m []).
  { split; [exact Hl|]. split; [exact Hs|]. split; [auto|]. split.
    - intros m' _ H1 H2. congruence.
    - split; [constructor|]. split; constructor. }
  destruct (opt_iter_inv solve solve_ok n P c Hnz (default_fuel c) P m [] HI) as [H D].
  destruct (opt_iter solve n c (default_fuel c) P m []) as [r a|a|P1 m1 a1].
  - cbn [step_spec] in H. destruct H as [m0 [acc0 [Er [Ea [Hl0 [Hs0 [Hb [Hel Hinc]]]]]]]].
    exists r, (rev a). split; [reflexivity|]. subst r.
    split; [split; [exact Hl0|split; [exact Hs0|exact Hb]]|]. split; [reflexivity|].
    split; [apply Forall_rev; exact Hel|].
    split; [apply SSorted_rev in Hinc; exact Hinc|].
    rewrite Ea. cbn [rev]. apply last_last.
  - cbn [step_spec] in H. contradiction.
  - cbn [step_spec step_decr] in H, D. exfalso.
    pose proof (default_fuel_enough c) as F.
    pose proof (cost_abs_bound m c). pose proof (cost_abs_bound m1 c). lia.
Qed.

(* A cost literal that is 0 or names a variable above n: s.model[lit.Var()] is out of
   range as soon as a model is found. *)
Theorem optimal_run_ill_formed : forall n P (c : cost), cost_wf n c = false ->
  optimal_run solve n P (Some c) = RDone OUnsat [OUnsat] /\ ~ PSatisfiable n P \/
  optimal_run solve n P (Some c) = RPanic [] /\ PSatisfiable n P.
Proof.
  intros n P c Hwf. unfold optimal_run, optimal_fuel, oc_fuel.
  pose proof (solve_ok n P) as Hok.
  destruct (solve n P) as [m|] eqn:Es.
  - right. rewrite Hwf. split; [reflexivity|]. exists m. exact Hok.
  - left. split; [reflexivity|]. eapply solver_ok_none; eauto.
Qed.

Theorem optimal_correct : forall n P (c : cost), cost_wf n c = true ->
  match fst (optimal solve n P (Some c)) with
  | OUnsat => ~ PSatisfiable n P
  | OSat m w => is_optimum n P c m /\ w = cost_of m c
  end.
Proof.
  intros n P c Hwf. destruct (optimal_run_correct n P c Hwf) as [r [s [E H]]].
  unfold optimal. rewrite E. cbn [fst]. destruct r as [|m w]; tauto.
Qed.

Theorem optimal_stream : forall n P (c : cost), cost_wf n c = true ->
  let (r, s) := optimal solve n P (Some c) in
  match r with
  | OUnsat => s = [OUnsat]
  | OSat _ _ => stream_ok n P c s r
  end.
Proof.
  intros n P c Hwf. destruct (optimal_run_correct n P c Hwf) as [r [s [E H]]].
  unfold optimal. rewrite E. destruct r as [|m w]; tauto.
Qed.

Theorem optimal_no_cost : forall n P,
  match optimal solve n P None with
  | (OUnsat, s) => ~ PSatisfiable n P /\ s = [OUnsat]
  | (OSat m w, s) => w = 0 /\ length m = n /\ sat_problem m P = true /\ s = [OSat m 0]
  end.
Proof.
  intros n P. unfold optimal, optimal_run, optimal_fuel.
  pose proof (solve_ok n P) as Hok.
  destruct (solve n P) as [m|] eqn:Es.
  - destruct Hok as [Hl Hs]. auto.
  - split; [|reflexivity]. eapply solver_ok_none; eauto.
Qed.

Theorem minimize_run_agrees : forall n P oc,
  minimize_run solve n P oc =
  match optimal_run solve n P oc with
  | RDone r _ => MRDone (oweight r) (omodel r)
  | RPanic _ => MRPanic
  | RFuel => MRFuel
  end.
Proof.
  intros n P oc. unfold minimize_run, optimal_run, minimize_fuel, optimal_fuel.
  destruct (solve n P) as [m|]; [|reflexivity].
  destruct oc as [c|]; [|reflexivity].
  destruct (cost_wf n c); [|reflexivity].
  rewrite (min_iter_agrees solve n c (oc_fuel (Some c)) P m []).
  destruct (opt_iter solve n c (oc_fuel (Some c)) P m []) as [[|m1 w1] a|a|P1 m1 a1] eqn:E;
    cbn [mstep_of]; try reflexivity.
  exfalso. exact (opt_iter_not_unsat solve n c _ _ _ _ _ E).
Qed.

(* Both entry points agree, whatever the cost function: Minimize returns the weight of
   Optimal's result and -1 for Unsat.  (With negative weights -1 is also a possible
   cost: the integer alone does not tell Unsat from an optimum of -1; s.Model() does,
   see minimize_model_agrees.) *)
Theorem minimize_agrees : forall n P oc,
  minimize solve n P oc = oweight (fst (optimal solve n P oc)).
Proof.
  intros n P oc. unfold minimize, optimal. rewrite minimize_run_agrees.
  destruct (optimal_run solve n P oc); reflexivity.
Qed.

Theorem minimize_model_agrees : forall n P oc,
  minimize_model solve n P oc = omodel (fst (optimal solve n P oc)).
Proof.
  intros n P oc. unfold minimize_model, optimal. rewrite minimize_run_agrees.
  destruct (optimal_run solve n P oc); reflexivity.
Qed.

Theorem minimize_correct : forall n P (c : cost), cost_wf n c = true ->
  match minimize_run solve n P (Some c) with
  | MRDone w None => w = -1 /\ ~ PSatisfiable n P
  | MRDone w (Some m) => is_optimum n P c m /\ w = cost_of m c
  | _ => False
  end.
Proof.
  intros n P c Hwf. rewrite minimize_run_agrees.
  destruct (optimal_run_correct n P c Hwf) as [r [s [E H]]]. rewrite E.
  destruct r as [|m w]; cbn [oweight omodel]; tauto.
Qed.

Lemma optimum_min_dec : forall n P (c : cost) m,
  is_optimum n P c m -> min_dec n P c = Some (cost_of m c).
Proof.
  intros n P c m [Hl [Hs Hb]]. unfold min_dec.
  destruct (min_cost n (fun m0 => sat_problem m0 P) (fun m0 => cost_of m0 c)) as [w|] eqn:E.
  - apply min_cost_some in E. destruct E as [[m1 [L1 [S1 C1]]] M]. f_equal.
    specialize (M m Hl Hs). specialize (Hb m1 L1 S1). cbn beta in *. lia.
  - pose proof (min_cost_none _ _ _ E m Hl) as F. cbn beta in F. congruence.
Qed.

Lemma unsat_min_dec : forall n P (c : cost), ~ PSatisfiable n P -> min_dec n P c = None.
Proof.
  intros n P c H. destruct (min_dec n P c) as [w|] eqn:E; [|reflexivity].
  exfalso. apply H. apply min_dec_some in E. destruct E as [m [[Hl [Hs _]] _]].
  exists m. auto.
Qed.

Theorem optimal_min_dec : forall n P (c : cost), cost_wf n c = true ->
  min_dec n P c =
  match fst (optimal solve n P (Some c)) with OUnsat => None | OSat _ w => Some w end.
Proof.
  intros n P c Hwf. pose proof (optimal_correct n P c Hwf) as H.
  destruct (fst (optimal solve n P (Some c))) as [|m w].
  - apply unsat_min_dec. exact H.
  - destruct H as [Ho Hw]. rewrite Hw. apply optimum_min_dec. exact Ho.
Qed.

End Entry.

(* ------------------------------------------------------------------ *)
(* Negative weights (accepted by ParseOPB in the "min:" line).  Before the repair
   9390e95 of /repo the loop stopped on "cost == 0" and handed the raw weights to
   NewPBClause: the first instance returned [false] with cost 0, the second one
   panicked ("Invalid cardinality value").  The same witnesses now: *)

Lemma negative_weight_ok_1 :
  cost_wf 1 [(-1, 1)] = true /\
  optimal_ref 1 [] (Some [(-1, 1)]) = (OSat [true] (-1), [OSat [false] 0; OSat [true] (-1)]) /\
  minimize_ref 1 [] (Some [(-1, 1)]) = -1 /\
  minimize_model_ref 1 [] (Some [(-1, 1)]) = Some [true].
Proof. repeat split; vm_compute; reflexivity. Qed.

Lemma negative_weight_ok_2 :
  cost_wf 2 [(1, 1); (-1, 2)] = true /\
  optimal_ref 2 [PBC [(1, 1)] 1] (Some [(1, 1); (-1, 2)]) =
    (OSat [true; true] 0, [OSat [true; false] 1; OSat [true; true] 0]) /\
  minimize_ref 2 [PBC [(1, 1)] 1] (Some [(1, 1); (-1, 2)]) = 0.
Proof. repeat split; vm_compute; reflexivity. Qed.
