(* Proofs about Model/SearchPB.v: the cutting-planes search loop
   (solver.go, propagateAndSearchPB) as a transition system; property C14 for
   whole runs, composed from Proofs/CPSearch.v (one call of cuttingPlanes).

   RESULTS (section 12; statements in Properties/C14c.v).  For every problem P
   made of arbitrary constraints and every run of the transition system:
   - search_pb_invariant: every reachable running configuration is [good]
     (well-formed bindings -- enough for state_wf3b at every conflict --, every
     reason is in P ++ ghost, where ghost is the list of all the constraints
     ever learned: a reason may have been FORGOTTEN since, St_forget has no side
     condition; every constraint ever learned and every level-1 literal is a
     consequence of P; the constraints still held are among ghost), or [doom]ed (see below), which can only
     happen inside the units loop: outside it, [good] always holds
     (search_pb_invariant_good);
   - search_pb_unsat_sound, search_pb_sat_sound: the answers are right;
   - search_pb_no_panic, search_pb_no_crash: at every conflict of every run the
     state handed to cuttingPlanes meets state_wf3b, and the call neither panics
     nor runs out of fuel;
   - search_pb_conflict_progress: what a conflict step achieves (new fact or
     asserting constraint), and livelock_old for the code before 0a73d0f;
   - replay_pb_sound / _unsat / _sat for the executable replay.

   HOW.  The invariant is maintained through a conflict by four facts about a
   call of cuttingPlanes that learns something (sections 5 and 7):
   loop_finish   the call ends in cp_finish on a constraint pb that is derivable
                 and still conflicting, with ptr on a suffix of the trail whose
                 literals above have been un-assigned;
   fin_cleanup   the cleanupBindings that follows cuts the trail at the same
                 place as it would with the model before the call (the entries
                 zeroed by the walk are all above the cut), provided the
                 analysis ended on a literal of level >= 2;
   fin_learn     (the "asserting" property) after the back-jump to btLvl the
                 learned constraint is an acceptable reason of the literal that
                 is pushed: it contains it, and its slack is below the weight;
                 when btLvl = 1 this makes the literal a consequence of P;
   fin_unsat     when the analysis ends on a literal of level 1 the problem has
                 no model.  In that case, and only then, cleanupBindings(1) does
                 NOT cut the trail (zeroed entries count as level 0): literals
                 stay on the trail un-assigned.  This is the [doom]ed
                 configuration; fin_units_all shows that one of the pending
                 units is false at level 1, so the loop ends with Unsat before
                 anything else can happen.

   ABOUT THE GO CODE.
   (1) Before commit 0a73d0f the newLvl == 1 branch pushed a unit that was
       already a fact a second time, and cuttingPlanes returned (nil, units, 1)
       even when every unit was already a fact, dropping the learned constraint:
       the search could then meet the same conflicts for ever (livelock_old:
       the old successor function maps a configuration back to itself).  Since
       0a73d0f such units are skipped and the whole constraint is learned
       instead; search_pb_conflict_progress states what every conflict step now
       achieves.  Termination of the whole search (restarts, forgetting) is the
       usual CDCL question and is not claimed.
   (2) When btLvl = 1 the learned constraint is dropped and its literal becomes
       a fact (it is a NEW fact: the literal was bound at a level >= 2).
   (3) reduceLearnedPB deletes reasons of bound literals: isLocked() is never
       true for a constraint learned by cuttingPlanes (Model/SearchPB.v,
       FORGETTING).  Covered by the model; harmless as far as these theorems
       go: a reason is only ever read, and it stays a consequence of P. *)
From Coq Require Import List ZArith Lia Bool ZifyBool Permutation.
From GS Require Import Spec.Base Spec.PB Model.PBNorm Model.CP Model.CPSearch Model.SearchPB.
From GS Require Proofs.PBNorm.
From GS Require Import Proofs.CP Proofs.CPSearch.
Import ListNotations.
Open Scope Z_scope.

Ltac Zify.zify_post_hook ::= Z.to_euclidean_division_equations.

(* ------------------------------------------------------------------ *)
(* 0. lists                                                             *)

Lemma nth_set_nth_same : forall (ws : list Z) k x, (k < List.length ws)%nat ->
  nth k (set_nth k x ws) 0 = x.
Proof.
  induction ws as [|w r IH]; intros k x H; [cbn in H; lia|].
  destruct k as [|k]; cbn [set_nth nth]; [reflexivity|]. apply IH. cbn in H. lia.
Qed.

Lemma set_nth_undo : forall (ws : list Z) k x, nth k ws 0 = 0 ->
  set_nth k 0 (set_nth k x ws) = ws.
Proof.
  induction ws as [|w r IH]; intros k x H; [reflexivity|].
  destruct k as [|k]; cbn [set_nth nth] in *; [subst; reflexivity|]. f_equal. apply IH. exact H.
Qed.

Lemma set_nth_comm : forall (ws : list Z) i j x y,
  i <> j -> set_nth i x (set_nth j y ws) = set_nth j y (set_nth i x ws).
Proof.
  induction ws as [|w r IH]; intros i j x y H; [reflexivity|].
  destruct i as [|i]; destruct j as [|j]; cbn [set_nth]; try reflexivity; [lia|].
  f_equal. apply IH. lia.
Qed.

Lemma set_nth_idem : forall (ws : list Z) i x y, set_nth i x (set_nth i y ws) = set_nth i x ws.
Proof.
  induction ws as [|w r IH]; intros i x y; [reflexivity|].
  destruct i as [|i]; cbn [set_nth]; [reflexivity|]. f_equal. apply IH.
Qed.

Lemma set_nth_g_length : forall (A : Type) (l : list A) k x, List.length (set_nth_g k x l) = List.length l.
Proof.
  induction l as [|w r IH]; intros k x; [reflexivity|].
  destruct k; cbn [set_nth_g List.length]; [reflexivity|]. rewrite IH. reflexivity.
Qed.

Lemma nth_set_nth_g_neq : forall (A : Type) (l : list A) k j x d, j <> k ->
  nth j (set_nth_g k x l) d = nth j l d.
Proof.
  induction l as [|w r IH]; intros k j x d H; [reflexivity|].
  destruct k as [|k]; destruct j as [|j]; cbn [set_nth_g nth]; try reflexivity; try lia.
  apply IH. lia.
Qed.

Lemma nth_set_nth_g_same : forall (A : Type) (l : list A) k x d, (k < List.length l)%nat ->
  nth k (set_nth_g k x l) d = x.
Proof.
  induction l as [|w r IH]; intros k x d H; [cbn in H; lia|].
  destruct k as [|k]; cbn [set_nth_g nth]; [reflexivity|]. apply IH. cbn in H. lia.
Qed.

Lemma nth_nonzero_lt : forall (l : list Z) j, nth j l 0 <> 0 -> (j < List.length l)%nat.
Proof.
  intros l j H. destruct (Nat.lt_ge_cases j (List.length l)) as [L|L]; [exact L|].
  rewrite nth_overflow in H by exact L. congruence.
Qed.

(* ------------------------------------------------------------------ *)
(* 1. free literals, push                                               *)

Lemma free_lit_spec : forall md l, free_lit md l = true ->
  l <> 0 /\ (vidx l < List.length md)%nat /\ model_at md l = 0.
Proof.
  intros md l H. unfold free_lit in H.
  apply andb_true_iff in H. destruct H as [H H3].
  apply andb_true_iff in H. destruct H as [H1 H2].
  apply negb_true_iff in H1. apply Z.eqb_neq in H1. apply Nat.ltb_lt in H2. apply Z.eqb_eq in H3.
  repeat split; assumption.
Qed.

Lemma free_lit_intro : forall md l,
  l <> 0 -> (vidx l < List.length md)%nat -> model_at md l = 0 -> free_lit md l = true.
Proof.
  intros md l H1 H2 H3. unfold free_lit. rewrite H3.
  apply Z.eqb_neq in H1. rewrite H1. apply Nat.ltb_lt in H2. rewrite H2. reflexivity.
Qed.

Lemma model_at_push_same : forall md l v, (vidx l < List.length md)%nat ->
  model_at (push md l v) l = signed_lvl l v.
Proof. intros md l v H. unfold model_at, push. apply nth_set_nth_same. exact H. Qed.

Lemma model_at_push_other : forall md l v l', vidx l' <> vidx l ->
  model_at (push md l v) l' = model_at md l'.
Proof. intros md l v l' H. unfold model_at, push. apply nth_set_nth_neq. exact H. Qed.

Lemma push_undo : forall md l v, model_at md l = 0 -> set_nth (vidx l) 0 (push md l v) = md.
Proof. intros md l v H. unfold push. apply set_nth_undo. exact H. Qed.

Lemma signed_lvl_abs : forall l v, 0 <= v -> Z.abs (signed_lvl l v) = v.
Proof. intros l v H. unfold signed_lvl. destruct (0 <? l); lia. Qed.

Lemma signed_lvl_sign : forall l v, 1 <= v -> l <> 0 -> (0 <? signed_lvl l v) = (0 <? l).
Proof.
  intros l v H Hl. unfold signed_lvl.
  destruct (Z.ltb_spec 0 l); [destruct (Z.ltb_spec 0 v); lia|destruct (Z.ltb_spec 0 (- v)); lia].
Qed.

(* ------------------------------------------------------------------ *)
(* 2. the checkers only look at the bindings of the trail literals      *)

Lemma reasons_wfb_ext : forall n rs rs' rt md,
  (forall l, In l rt -> reason_at rs' l = reason_at rs l) ->
  reasons_wfb n rs' md rt = reasons_wfb n rs md rt.
Proof.
  intros n rs rs' rt. induction rt as [|l r IH]; intros md H; [reflexivity|].
  cbn [reasons_wfb]. rewrite (H l (or_introl eq_refl)).
  rewrite IH; [reflexivity|]. intros l' Hl'. apply H. right. exact Hl'.
Qed.

Lemma forallb_ext_in : forall (A : Type) (f g : A -> bool) l,
  (forall x, In x l -> f x = g x) -> forallb f l = forallb g l.
Proof.
  intros A f g l. induction l as [|x r IH]; intros H; [reflexivity|].
  cbn [forallb]. rewrite (H x (or_introl eq_refl)). rewrite IH; [reflexivity|].
  intros y Hy. apply H. right. exact Hy.
Qed.

Lemma trail_okb_ext : forall md md' rt,
  (forall l, In l rt -> model_at md' l = model_at md l) ->
  trail_okb md' rt = trail_okb md rt.
Proof.
  intros md md' rt. induction rt as [|l r IH]; intros H; [reflexivity|].
  cbn [trail_okb]. rewrite (H l (or_introl eq_refl)).
  rewrite IH by (intros l' Hl'; apply H; right; exact Hl').
  f_equal. f_equal. apply forallb_ext_in. intros l' Hl'. rewrite (H l' (or_intror Hl')). reflexivity.
Qed.

Lemma decisions_okb_ext : forall rs rs' md md' rt,
  (forall l, In l rt -> reason_at rs' l = reason_at rs l) ->
  (forall l, In l rt -> model_at md' l = model_at md l) ->
  decisions_okb rs' md' rt = decisions_okb rs md rt.
Proof.
  intros rs rs' md md' rt. induction rt as [|l r IH]; intros H1 H2; [reflexivity|].
  cbn [decisions_okb]. rewrite (H1 l (or_introl eq_refl)), (H2 l (or_introl eq_refl)).
  rewrite IH; [|intros l' Hl'; apply H1; right; exact Hl'|intros l' Hl'; apply H2; right; exact Hl'].
  f_equal. destruct (reason_at rs l); [reflexivity|]. f_equal.
  apply forallb_ext_in. intros l' Hl'. rewrite (H2 l' (or_intror Hl')). reflexivity.
Qed.

Lemma trail_okb_nonzero : forall md rt l, trail_okb md rt = true -> In l rt ->
  model_at md l <> 0.
Proof.
  intros md rt. induction rt as [|x r IH]; intros l H Hin; [destruct Hin|].
  destruct (trail_okb_cons _ _ _ H) as [_ [H2 [_ [_ H5]]]].
  destruct Hin as [<-|Hin]; [exact H2|apply IH; assumption].
Qed.

Lemma assigned_okb_intro : forall md tr,
  (forall j, nth j md 0 <> 0 -> exists l, In l tr /\ vidx l = j) -> assigned_okb md tr = true.
Proof.
  intros md tr H. unfold assigned_okb. apply forallb_forall. intros j _.
  destruct (Z.eqb_spec (nth j md 0) 0) as [E|E]; [reflexivity|]. cbn [orb].
  destruct (H j E) as [l [Hl Hv]]. apply existsb_exists. exists l. split; [exact Hl|].
  apply Nat.eqb_eq. exact Hv.
Qed.

(* ------------------------------------------------------------------ *)
(* 3. well-formed bindings; push, pop, cleanupBindings                  *)

Definition wf (n : nat) (tr : list lit) (md : list Z) (rs : list (option pbc)) (lvl : Z) : Prop :=
  List.length md = n /\ List.length rs = n /\
  reasons_wfb n rs md (rev tr) = true /\
  trail_okb md (rev tr) = true /\
  (forall j, nth j md 0 <> 0 -> exists l, In l tr /\ vidx l = j) /\
  (forall l, In l tr -> Z.abs (model_at md l) <= lvl) /\
  decisions_okb rs md (rev tr) = true /\
  (forall j, nth j md 0 = 0 -> nth j rs None = None) /\
  1 <= lvl.

Lemma wf_distinct : forall n tr md rs lvl l l', wf n tr md rs lvl ->
  In l' tr -> model_at md l = 0 -> vidx l' <> vidx l.
Proof.
  intros n tr md rs lvl l l' [_ [_ [_ [H4 _]]]] Hin Hz E.
  apply (trail_okb_nonzero md (rev tr) l' H4); [apply in_rev in Hin; exact Hin|].
  unfold model_at in *. rewrite E. exact Hz.
Qed.

Lemma push_wf : forall n tr md rs lvl l v (o : option pbc),
  wf n tr md rs lvl -> free_lit md l = true -> lvl <= v ->
  match o with
  | None => v = 1 \/ lvl < v
  | Some c => reason_okb n (push md l v) c l = true
  end ->
  wf n (tr ++ [l]) (push md l v)
     (match o with None => rs | Some c => set_nth_g (vidx l) (Some c) rs end) v.
Proof.
  intros n tr md rs lvl l v o W Hf Hv Ho.
  pose proof (fun l' H => wf_distinct n tr md rs lvl l l' W H) as Hd.
  destruct W as [W1 [W2 [W3 [W4 [W5 [W6 [W7 [W8 W9]]]]]]]].
  destruct (free_lit_spec _ _ Hf) as [Hl0 [Hlt Hz]]. specialize (fun l' H => Hd l' H Hz).
  set (rs' := match o with None => rs | Some c => set_nth_g (vidx l) (Some c) rs end).
  assert (Hv1 : 1 <= v) by lia.
  assert (Hml : model_at (push md l v) l = signed_lvl l v) by (apply model_at_push_same; exact Hlt).
  assert (Hmo : forall l', In l' (rev tr) -> model_at (push md l v) l' = model_at md l').
  { intros l' H. apply model_at_push_other. apply Hd. apply in_rev. exact H. }
  assert (Hro : forall l', In l' (rev tr) -> reason_at rs' l' = reason_at rs l').
  { intros l' H. unfold rs'. destruct o; [|reflexivity]. unfold reason_at.
    apply nth_set_nth_g_neq. apply Hd. apply in_rev. exact H. }
  assert (Hrl : reason_at rs' l = o).
  { unfold rs'. destruct o as [c|].
    - unfold reason_at. apply nth_set_nth_g_same. lia.
    - unfold reason_at. apply W8. exact Hz. }
  assert (Hsg : (0 <? signed_lvl l v) = (0 <? l)) by (apply signed_lvl_sign; assumption).
  assert (Hab : Z.abs (signed_lvl l v) = v) by (apply signed_lvl_abs; lia).
  assert (Hnz : signed_lvl l v <> 0) by lia.
  unfold wf. rewrite rev_unit.
  split; [unfold push; rewrite set_nth_length; exact W1|].
  split; [unfold rs'; destruct o; [rewrite set_nth_g_length|]; exact W2|].
  split; [|split; [|split; [|split; [|split; [|split]]]]].
  - cbn [reasons_wfb]. rewrite Hrl. rewrite (push_undo _ _ _ Hz).
    rewrite (reasons_wfb_ext n rs rs' (rev tr) md Hro). rewrite W3.
    unfold trail_lit_okb. rewrite Hml, Hsg. rewrite eqb_reflx. rewrite orb_true_r.
    destruct o as [c|]; [rewrite Ho|]; reflexivity.
  - cbn [trail_okb]. rewrite Hml, Hsg, eqb_reflx.
    rewrite (trail_okb_ext md (push md l v) (rev tr) Hmo), W4.
    apply Z.eqb_neq in Hl0. rewrite Hl0. apply Z.eqb_neq in Hnz. rewrite Hnz.
    cbn [negb andb]. rewrite andb_true_r. apply forallb_forall. intros l' Hl'.
    rewrite (Hmo l' Hl'). rewrite Hab.
    apply andb_true_iff. split.
    + apply negb_true_iff. apply Nat.eqb_neq. apply Hd. apply in_rev. exact Hl'.
    + apply Z.leb_le. specialize (W6 l' (proj2 (in_rev tr l') Hl')). lia.
  - intros j Hj. destruct (Nat.eq_dec j (vidx l)) as [E|E].
    + exists l. split; [apply in_or_app; right; left; reflexivity|congruence].
    + unfold push in Hj. rewrite nth_set_nth_neq in Hj by exact E.
      destruct (W5 j Hj) as [l' [H1 H2]]. exists l'. split; [apply in_or_app; left; exact H1|exact H2].
  - intros l' Hl'. apply in_app_or in Hl'. destruct Hl' as [Hl'|[<-|[]]].
    + rewrite (Hmo l' (proj1 (in_rev tr l') Hl')). specialize (W6 l' Hl'). lia.
    + rewrite Hml. lia.
  - cbn [decisions_okb]. rewrite Hrl.
    rewrite (decisions_okb_ext rs rs' md (push md l v) (rev tr) Hro Hmo), W7. rewrite andb_true_r.
    destruct o as [c|]; [reflexivity|]. rewrite Hml, Hab.
    destruct Ho as [->|Ho]; [reflexivity|].
    apply orb_true_iff. right. apply forallb_forall. intros l' Hl'. rewrite (Hmo l' Hl').
    apply negb_true_iff. apply Z.eqb_neq. specialize (W6 l' (proj2 (in_rev tr l') Hl')). lia.
  - intros j Hj. destruct (Nat.eq_dec j (vidx l)) as [E|E].
    + subst j. unfold push in Hj. rewrite nth_set_nth_same in Hj by exact Hlt. congruence.
    + unfold push in Hj. rewrite nth_set_nth_neq in Hj by exact E.
      unfold rs'. destruct o; [rewrite nth_set_nth_g_neq by exact E|]; apply W8; exact Hj.
  - exact Hv1.
Qed.

Lemma pop_wf : forall n tr md rs lvl l,
  wf n (tr ++ [l]) md rs lvl ->
  wf n tr (set_nth (vidx l) 0 md) (set_nth_g (vidx l) None rs) lvl.
Proof.
  intros n tr md rs lvl l [W1 [W2 [W3 [W4 [W5 [W6 [W7 [W8 W9]]]]]]]].
  rewrite rev_unit in W3, W4, W7.
  destruct (trail_okb_cons _ _ _ W4) as [_ [_ [_ [B4 B5]]]].
  assert (Hd : forall l', In l' (rev tr) -> vidx l' <> vidx l) by (intros l' H; exact (proj1 (B4 l' H))).
  assert (Hmo : forall l', In l' (rev tr) -> model_at (set_nth (vidx l) 0 md) l' = model_at md l').
  { intros l' H. unfold model_at. apply nth_set_nth_neq. apply Hd. exact H. }
  assert (Hro : forall l', In l' (rev tr) ->
                reason_at (set_nth_g (vidx l) None rs) l' = reason_at rs l').
  { intros l' H. unfold reason_at. apply nth_set_nth_g_neq. apply Hd. exact H. }
  cbn [reasons_wfb] in W3. apply andb_true_iff in W3. destruct W3 as [_ W3].
  cbn [decisions_okb] in W7. apply andb_true_iff in W7. destruct W7 as [_ W7].
  unfold wf.
  split; [rewrite set_nth_length; exact W1|]. split; [rewrite set_nth_g_length; exact W2|].
  split; [|split; [|split; [|split; [|split; [|split]]]]].
  - rewrite (reasons_wfb_ext n rs _ (rev tr) _ Hro). exact W3.
  - rewrite (trail_okb_ext md _ (rev tr) Hmo). exact B5.
  - intros j Hj. destruct (Nat.eq_dec j (vidx l)) as [E|E].
    + subst j. rewrite nth_set_nth_zero in Hj. congruence.
    + rewrite nth_set_nth_neq in Hj by exact E. destruct (W5 j Hj) as [l' [H1 H2]].
      apply in_app_or in H1. destruct H1 as [H1|[<-|[]]]; [|congruence].
      exists l'. split; assumption.
  - intros l' Hl'. rewrite (Hmo l' (proj1 (in_rev tr l') Hl')). apply W6. apply in_or_app. left. exact Hl'.
  - rewrite (decisions_okb_ext rs _ md _ (rev tr) Hro Hmo). exact W7.
  - intros j Hj. destruct (Nat.eq_dec j (vidx l)) as [E|E].
    + subst j. destruct (Nat.lt_ge_cases (vidx l) (List.length rs)) as [L|L].
      * apply nth_set_nth_g_same. exact L.
      * apply nth_overflow. rewrite set_nth_g_length. exact L.
    + rewrite nth_set_nth_neq in Hj by exact E. rewrite nth_set_nth_g_neq by exact E. apply W8. exact Hj.
  - exact W9.
Qed.

Definition zero_list (d : list lit) (md : list Z) : list Z :=
  fold_left (fun m l => set_nth (vidx l) 0 m) d md.
Definition none_list (d : list lit) (rs : list (option pbc)) : list (option pbc) :=
  fold_left (fun r l => set_nth_g (vidx l) None r) d rs.

Lemma cleanup_bindings_eq : forall bl tr md rs,
  cleanup_bindings bl tr md rs =
  (fst (split_trail md bl tr), zero_list (snd (split_trail md bl tr)) md,
   none_list (snd (split_trail md bl tr)) rs).
Proof. intros. unfold cleanup_bindings. destruct (split_trail md bl tr). reflexivity. Qed.

Lemma zero_list_comm : forall d md i,
  zero_list d (set_nth i 0 md) = set_nth i 0 (zero_list d md).
Proof.
  induction d as [|l d IH]; intros md i; [reflexivity|].
  unfold zero_list in *. cbn [fold_left].
  destruct (Nat.eq_dec i (vidx l)) as [E|E].
  - subst i. rewrite set_nth_idem. rewrite <- IH. rewrite set_nth_idem. reflexivity.
  - rewrite (set_nth_comm md (vidx l) i 0 0) by congruence. apply IH.
Qed.

Lemma set_nth_g_comm : forall (A : Type) (l : list A) i j x y,
  i <> j -> set_nth_g i x (set_nth_g j y l) = set_nth_g j y (set_nth_g i x l).
Proof.
  induction l as [|w r IH]; intros i j x y H; [reflexivity|].
  destruct i as [|i]; destruct j as [|j]; cbn [set_nth_g]; try reflexivity; [lia|].
  f_equal. apply IH. lia.
Qed.

Lemma set_nth_g_idem : forall (A : Type) (l : list A) i x y,
  set_nth_g i x (set_nth_g i y l) = set_nth_g i x l.
Proof.
  induction l as [|w r IH]; intros i x y; [reflexivity|].
  destruct i as [|i]; cbn [set_nth_g]; [reflexivity|]. f_equal. apply IH.
Qed.

Lemma none_list_comm : forall d rs i,
  none_list d (set_nth_g i None rs) = set_nth_g i None (none_list d rs).
Proof.
  induction d as [|l d IH]; intros rs i; [reflexivity|].
  unfold none_list in *. cbn [fold_left].
  destruct (Nat.eq_dec i (vidx l)) as [E|E].
  - subst i. rewrite set_nth_g_idem. rewrite <- IH. rewrite set_nth_g_idem. reflexivity.
  - rewrite (set_nth_g_comm _ rs (vidx l) i None None) by congruence. apply IH.
Qed.

Lemma pop_many_wf : forall n d k md rs lvl,
  wf n (k ++ d) md rs lvl -> wf n k (zero_list d md) (none_list d rs) lvl.
Proof.
  intros n d. induction d as [|l d IH] using rev_ind; intros k md rs lvl W.
  - rewrite app_nil_r in W. exact W.
  - rewrite app_assoc in W. apply pop_wf in W. apply IH in W.
    unfold zero_list, none_list. rewrite !fold_left_app. cbn [fold_left].
    fold (zero_list d md). fold (none_list d rs).
    rewrite zero_list_comm, none_list_comm in W. exact W.
Qed.

Lemma nth_zero_list : forall d md j,
  nth j (zero_list d md) 0 = if existsb (fun l => Nat.eqb (vidx l) j) d then 0 else nth j md 0.
Proof.
  induction d as [|l d IH]; intros md j; [reflexivity|].
  unfold zero_list in *. cbn [fold_left existsb]. rewrite IH.
  destruct (existsb (fun l0 => Nat.eqb (vidx l0) j) d); [rewrite orb_true_r; reflexivity|].
  rewrite orb_false_r. destruct (Nat.eqb_spec (vidx l) j) as [E|E].
  - subst j. apply nth_set_nth_zero.
  - apply nth_set_nth_neq. congruence.
Qed.

Lemma zero_list_length : forall d md, List.length (zero_list d md) = List.length md.
Proof.
  induction d as [|l d IH]; intros md; [reflexivity|].
  unfold zero_list in *. cbn [fold_left]. rewrite IH. apply set_nth_length.
Qed.

Lemma split_trail_spec : forall md bl tr k d, split_trail md bl tr = (k, d) ->
  tr = k ++ d /\ (forall l, In l k -> Z.abs (model_at md l) <= bl) /\
  match d with [] => True | x :: _ => bl < Z.abs (model_at md x) end.
Proof.
  intros md bl tr. induction tr as [|l r IH]; intros k d H; cbn [split_trail] in H.
  - injection H as <- <-. split; [reflexivity|]. split; [intros l []|exact I].
  - destruct (Z.leb_spec (Z.abs (model_at md l)) bl) as [L|L].
    + destruct (split_trail md bl r) as [k' d'] eqn:E. injection H as <- <-.
      destruct (IH k' d' eq_refl) as [I1 [I2 I3]]. split; [cbn [app]; f_equal; exact I1|].
      split; [|exact I3]. intros x [<-|Hx]; [exact L|apply I2; exact Hx].
    + injection H as <- <-. split; [reflexivity|]. split; [intros x []|exact L].
Qed.

Lemma wf_lower : forall n k md rs lvl bl, wf n k md rs lvl ->
  (forall l, In l k -> Z.abs (model_at md l) <= bl) -> 1 <= bl -> wf n k md rs bl.
Proof.
  intros n k md rs lvl bl [W1 [W2 [W3 [W4 [W5 [W6 [W7 [W8 W9]]]]]]]] H1 H2.
  unfold wf. repeat split; assumption.
Qed.

(* cleanupBindings(bl) on well-formed bindings *)
Lemma cleanup_wf : forall n tr md rs lvl bl tr1 md1 rs1,
  wf n tr md rs lvl -> 1 <= bl ->
  cleanup_bindings bl tr md rs = (tr1, md1, rs1) ->
  wf n tr1 md1 rs1 bl /\ exists d, tr = tr1 ++ d /\ md1 = zero_list d md /\ rs1 = none_list d rs.
Proof.
  intros n tr md rs lvl bl tr1 md1 rs1 W Hbl H. rewrite cleanup_bindings_eq in H.
  destruct (split_trail md bl tr) as [k d] eqn:E. cbn [fst snd] in H. injection H as <- <- <-.
  destruct (split_trail_spec _ _ _ _ _ E) as [S1 [S2 _]]. subst tr.
  split; [|exists d; split; [reflexivity|split; reflexivity]].
  apply wf_lower with (lvl := lvl); [apply pop_many_wf; exact W| |exact Hbl].
  intros l Hl. unfold model_at. rewrite nth_zero_list.
  destruct (existsb _ d); [lia|]. apply S2. exact Hl.
Qed.

(* ------------------------------------------------------------------ *)
(* 4. entailment                                                        *)

(* the total model m agrees with the bindings *)
Definition agrees (m : model) (md : list Z) : Prop :=
  forall j, nth j md 0 <> 0 -> var_val m (1 + Z.of_nat j) = (0 <? nth j md 0).

Lemma vidx_var : forall l, l <> 0 -> 1 + Z.of_nat (vidx l) = Z.abs l.
Proof. intros l H. unfold vidx. lia. Qed.

Lemma lit_val_of_var : forall (m : model) l, l <> 0 ->
  var_val m (1 + Z.of_nat (vidx l)) = (0 <? l) -> lit_val m l = true.
Proof.
  intros m l Hl H. rewrite (vidx_var l Hl) in H. unfold lit_val.
  destruct (Z.ltb_spec 0 l) as [L|L].
  - rewrite Z.abs_eq in H by lia. exact H.
  - rewrite Z.abs_neq in H by lia. rewrite H. reflexivity.
Qed.

Lemma var_of_lit_val : forall (m : model) l, l <> 0 ->
  lit_val m l = true -> var_val m (1 + Z.of_nat (vidx l)) = (0 <? l).
Proof.
  intros m l Hl H. rewrite (vidx_var l Hl). unfold lit_val in H.
  destruct (Z.ltb_spec 0 l) as [L|L].
  - rewrite Z.abs_eq by lia. exact H.
  - rewrite Z.abs_neq by lia. apply negb_true_iff in H. exact H.
Qed.

Lemma nfsum_md_set : forall ws md k a, (k < List.length md)%nat ->
  nfsum (set_nth k a md) ws =
  nfsum md ws - nf (nth k md 0) (nth k ws 0) + nf a (nth k ws 0).
Proof.
  induction ws as [|w r IH]; intros md k a H.
  - cbn [nfsum]. destruct k; cbn [nth]; unfold nf; cbn; lia.
  - destruct md as [|a0 m]; [cbn in H; lia|].
    destruct k as [|k]; cbn [set_nth]; rewrite !nfsum_cons; cbn [hd tl nth].
    + lia.
    + rewrite IH by (cbn in H; lia). lia.
Qed.

(* a constraint (as a pbSet) that propagated the literal of variable v, true in
   md: every model of it that agrees with the other bindings agrees on v *)
Lemma forced_pbset : forall (m : model) md ws d v,
  (v < List.length md)%nat -> nth v md 0 <> 0 -> nth v ws 0 <> 0 ->
  not_falsified (nth v md 0) (nth v ws 0) = true ->
  nfsum md ws - Z.abs (nth v ws 0) < d ->
  d <= set_lhs m 1 ws ->
  (forall j, j <> v -> nth j md 0 <> 0 -> var_val m (1 + Z.of_nat j) = (0 <? nth j md 0)) ->
  var_val m (1 + Z.of_nat v) = (0 <? nth v md 0).
Proof.
  intros m md ws d v Hv Ha Hw Hnf Hs Hsat Hag.
  set (a := nth v md 0) in *. set (w := nth v ws 0) in *.
  destruct (Bool.bool_dec (var_val m (1 + Z.of_nat v)) (0 <? a)) as [E|E]; [exact E|exfalso].
  assert (Hag' : forall j, nth j (set_nth v (- a) md) 0 <> 0 ->
                 var_val m (1 + Z.of_nat j) = (0 <? nth j (set_nth v (- a) md) 0)).
  { intros j Hj. destruct (Nat.eq_dec j v) as [->|Ne].
    - rewrite nth_set_nth_same by exact Hv.
      destruct (var_val m (1 + Z.of_nat v)); destruct (Z.ltb_spec 0 a); destruct (Z.ltb_spec 0 (- a));
        try reflexivity; try congruence; lia.
    - rewrite nth_set_nth_neq in * by exact Ne. apply Hag; assumption. }
  pose proof (lhs_le_nfsum m ws _ 1 Hag') as Hle.
  rewrite nfsum_md_set in Hle by exact Hv. fold a w in Hle.
  assert (H1 : nf a w = Z.abs w) by (unfold nf; destruct (Z.eqb_spec w 0); [lia|rewrite Hnf; reflexivity]).
  assert (H2 : nf (- a) w = 0).
  { unfold nf, not_falsified in *. destruct (Z.eqb_spec w 0); [reflexivity|].
    destruct (Z.eqb_spec a 0); [lia|]. destruct (Z.eqb_spec (- a) 0); [lia|]. cbn [orb] in *.
    destruct (Z.ltb_spec 0 a); destruct (Z.ltb_spec 0 w); destruct (Z.ltb_spec 0 (- a));
      cbn [Bool.eqb] in *; try reflexivity; try discriminate; lia. }
  lia.
Qed.

(* the same for a reason in the sense of reason_okb *)
Lemma forced_entailed : forall n (m : model) md c l,
  reason_okb n md c l = true -> (vidx l < List.length md)%nat -> l <> 0 ->
  model_at md l <> 0 -> (0 <? model_at md l) = (0 <? l) ->
  sat_pbc m c = true ->
  (forall j, j <> vidx l -> nth j md 0 <> 0 -> var_val m (1 + Z.of_nat j) = (0 <? nth j md 0)) ->
  lit_val m l = true.
Proof.
  intros n m md c l Hr Hlt Hl0 Hnz Hsg Hsat Hag. unfold reason_okb in Hr.
  apply andb_true_iff in Hr. destruct Hr as [Hr H4].
  apply andb_true_iff in Hr. destruct Hr as [Hr H3].
  apply andb_true_iff in Hr. destruct Hr as [H1 H2].
  apply negb_true_iff in H2. apply Z.eqb_neq in H2. apply Z.ltb_lt in H4.
  rewrite <- (pbset_roundtrip n c m H1) in Hsat. apply sat_pbset_iff in Hsat.
  apply lit_val_of_var; [exact Hl0|]. rewrite <- Hsg. unfold model_at in *.
  apply (forced_pbset m md (fst (pbset_of n c)) (snd (pbset_of n c)) (vidx l)); assumption.
Qed.

(* a constraint falsified by bindings with which m agrees is not satisfied by m *)
Lemma confl_not_sat : forall n (m : model) md c,
  confl_chk n md c = true -> agrees m md -> sat_pbc m c = false.
Proof.
  intros n m md c H Hag. unfold confl_chk in H. apply andb_true_iff in H. destruct H as [H1 H2].
  destruct (sat_pbc m c) eqn:E; [exfalso|reflexivity].
  rewrite <- (pbset_roundtrip n c m H1) in E. apply sat_pbset_iff in E.
  pose proof (lhs_le_nfsum m (fst (pbset_of n c)) md 1 Hag) as Hle.
  unfold conflicting in H2. apply Z.ltb_lt in H2. lia.
Qed.

(* at level 1 every binding is a fact *)
Lemma facts_agree : forall n tr md rs (m : model),
  wf n tr md rs 1 ->
  (forall l, In l tr -> Z.abs (model_at md l) = 1 -> lit_val m l = true) ->
  agrees m md.
Proof.
  intros n tr md rs m [_ [_ [_ [W4 [W5 [W6 _]]]]]] Hf j Hj.
  destruct (W5 j Hj) as [l [Hl Hv]]. subst j.
  change (nth (vidx l) md 0) with (model_at md l) in *.
  destruct (trail_okb_in md (rev tr) l W4 (proj1 (in_rev tr l) Hl)) as [Hl0 Hsg].
  specialize (W6 l Hl). rewrite Hsg. apply var_of_lit_val; [exact Hl0|].
  apply Hf; [exact Hl|lia].
Qed.

(* Sat answers *)
Lemma read_model_var : forall md l, l <> 0 ->
  var_val (read_model md) (Z.abs l) = (0 <? model_at md l).
Proof.
  intros md l Hl. unfold var_val, read_model, model_at.
  change false with (0 <? 0). rewrite map_nth. unfold vidx. reflexivity.
Qed.

Lemma poss_lhs_read : forall md (ts : list term),
  all_assigned md = true ->
  forallb (fun t : term => (1 <=? Z.abs (snd t)) && (Z.abs (snd t) <=? Z.of_nat (List.length md))) ts = true ->
  poss md ts = lhs (read_model md) ts.
Proof.
  intros md ts Hall. induction ts as [|t r IH]; intros H; [reflexivity|].
  cbn [forallb] in H. apply andb_true_iff in H. destruct H as [Ht Hr].
  cbn [poss lhs]. rewrite (IH Hr). f_equal. unfold term_val.
  apply andb_true_iff in Ht. destruct Ht as [T1 T2]. apply Z.leb_le in T1. apply Z.leb_le in T2.
  set (l := snd t) in *. assert (Hl : l <> 0) by lia.
  assert (Hin : (vidx l < List.length md)%nat) by (unfold vidx; lia).
  assert (Ha : model_at md l <> 0).
  { unfold all_assigned in Hall. rewrite forallb_forall in Hall.
    specialize (Hall (model_at md l) (nth_In md 0 Hin)). apply negb_true_iff in Hall.
    apply Z.eqb_neq in Hall. exact Hall. }
  unfold lit_false, lit_val. pose proof (read_model_var md l Hl) as Hv.
  destruct (Z.eqb_spec (model_at md l) 0) as [E|E]; [congruence|]. cbn [negb andb].
  destruct (Z.ltb_spec 0 l) as [L|L].
  - rewrite Z.abs_eq in Hv by lia. rewrite Hv.
    destruct (0 <? model_at md l); reflexivity.
  - rewrite Z.abs_neq in Hv by lia. rewrite Hv.
    destruct (0 <? model_at md l); reflexivity.
Qed.

Lemma answer_sat_sound : forall P n md,
  List.length md = n -> pvars_inb n P = true -> all_assigned md = true ->
  (forall c, In c P -> falsified_by md c = false) ->
  List.length (read_model md) = n /\ sat_problem (read_model md) P = true.
Proof.
  intros P n md Hn Hv Hall Hf. split; [unfold read_model; rewrite map_length; exact Hn|].
  unfold sat_problem. apply forallb_forall. intros c Hc.
  unfold pvars_inb in Hv. rewrite forallb_forall in Hv. specialize (Hv c Hc). rewrite <- Hn in Hv.
  specialize (Hf c Hc). unfold falsified_by in Hf. apply Z.ltb_ge in Hf.
  unfold sat_pbc. apply Z.leb_le. rewrite <- (poss_lhs_read md (terms c) Hall Hv). exact Hf.
Qed.

(* ------------------------------------------------------------------ *)
(* 5. what a call of cuttingPlanes that learns something looks like     *)

Lemma walk_zero : forall pb rt md md' l r, walk pb md rt = WStop md' l r ->
  exists pre, rt = pre ++ l :: r /\ md' = zero_list pre md.
Proof.
  intros pb rt. induction rt as [|x rt IH]; intros md md' l r H; cbn [walk] in H; [discriminate|].
  destruct (falsifies pb x).
  - injection H as <- <- <-. exists []. split; reflexivity.
  - destruct (IH _ _ _ _ H) as [pre [H1 H2]]. exists (x :: pre). split; [cbn [app]; f_equal; exact H1|exact H2].
Qed.

Lemma zero_list_app : forall a b md, zero_list (a ++ b) md = zero_list b (zero_list a md).
Proof. intros. unfold zero_list. apply fold_left_app. Qed.

Section Finish.
Variable n : nat.
Variable P : problem.
Variable rs : list (option pbc).
Hypothesis HP : forall i c, nth i rs None = Some c -> In c P.
Variable md0 : list Z.

Lemma loop_finish : forall fuel pb md rt lvl r md',
  Inv n P rs pb md rt -> Aux md0 md rt ->
  (forall l, In l rt -> Z.abs (model_at md l) <= lvl) ->
  cp_loop fuel n rs pb md rt lvl = (r, md') ->
  match r with
  | CPUnits _ | CPLearn _ _ _ =>
    exists pb' pre rt' lvl' u,
      rt = pre ++ rt' /\ md' = zero_list pre md /\
      Inv n P rs pb' md' rt' /\ Aux md0 md' rt' /\
      (forall l, In l rt' -> Z.abs (model_at md' l) <= lvl') /\
      only_falsified pb' md' lvl' rt' None = Some u /\ r = cp_finish pb' md' u
  | _ => True
  end.
Proof.
  induction fuel as [|f IH]; intros pb md rt lvl r md' HI HA HJ H; cbn [cp_loop] in H.
  - injection H as <- <-. exact I.
  - destruct (only_falsified pb md lvl rt None) as [u|] eqn:Eo.
    + injection H as <- <-.
      assert (G : exists pb' pre rt' lvl' u0,
                rt = pre ++ rt' /\ md = zero_list pre md /\ Inv n P rs pb' md rt' /\ Aux md0 md rt' /\
                (forall l, In l rt' -> Z.abs (model_at md l) <= lvl') /\
                only_falsified pb' md lvl' rt' None = Some u0 /\ cp_finish pb md u = cp_finish pb' md u0).
      { exists pb, [], rt, lvl, u. split; [reflexivity|]. split; [reflexivity|].
        exact (conj HI (conj HA (conj HJ (conj Eo eq_refl)))). }
      destruct (cp_finish pb md u); try exact I; exact G.
    + destruct (lvl =? 1); [injection H as <- <-; exact I|].
      destruct rt as [|x rt0]; [injection H as <- <-; exact I|].
      pose proof (walk_inv n P rs md0 pb (x :: rt0) md HI HA) as HW.
      destruct (walk pb md (x :: rt0)) as [md1|md1 l r1] eqn:Ew; [injection H as <- <-; exact I|].
      destruct HW as [HI' [HA' [Hf _]]].
      destruct (walk_zero _ _ _ _ _ _ Ew) as [pre1 [Hp1 Hz1]].
      pose proof (levels_after_walk n P rs HP md0 _ _ _ HA') as HJ'.
      cbv zeta in H.
      destruct (round_to_one md1 (vidx l) pb) as [pb1|] eqn:E1; [|injection H as <- <-; exact I].
      assert (K : forall pbn, Inv n P rs pbn md1 (l :: r1) ->
                  cp_loop f n rs pbn md1 (l :: r1) (Z.abs (model_at md1 l)) = (r, md') ->
                  match r with
                  | CPUnits _ | CPLearn _ _ _ =>
                    exists pb' pre rt' lvl' u,
                      x :: rt0 = pre ++ rt' /\ md' = zero_list pre md /\
                      Inv n P rs pb' md' rt' /\ Aux md0 md' rt' /\
                      (forall l, In l rt' -> Z.abs (model_at md' l) <= lvl') /\
                      only_falsified pb' md' lvl' rt' None = Some u /\ r = cp_finish pb' md' u
                  | _ => True
                  end).
      { intros pbn HIn Hn. specialize (IH pbn md1 (l :: r1) _ r md' HIn HA' HJ' Hn).
        destruct r; try exact I;
          destruct IH as [pb' [pre2 [rt' [lvl' [u [A1 [A2 [A3 [A4 [A5 [A6 A7]]]]]]]]]]];
          exists pb', (pre1 ++ pre2), rt', lvl', u;
          (split; [rewrite Hp1, A1, app_assoc; reflexivity|]);
          (split; [rewrite zero_list_app, <- Hz1; exact A2|]);
          exact (conj A3 (conj A4 (conj A5 (conj A6 A7)))). }
      destruct (reason_at rs l) as [c|] eqn:Ec.
      * destruct (round_to_one md1 (vidx l) (pbset_of n c)) as [pb2|] eqn:E2; [|injection H as <- <-; exact I].
        apply (K (clash pb1 pb2)); [|exact H]. exact (resolve_inv n P rs HP _ _ _ _ _ _ _ HI' Ec E1 E2).
      * apply (K pb1); [|exact H]. exact (decide_inv n P rs _ _ _ _ _ HI' E1).
Qed.

End Finish.

(* levels do not increase along the reversed trail *)
Fixpoint mono (md : list Z) (rt : list lit) : Prop :=
  match rt with
  | [] => True
  | l :: r => (forall l', In l' r -> Z.abs (model_at md l') <= Z.abs (model_at md l)) /\ mono md r
  end.

Lemma mono_of : forall md0 md rt, trail_okb md0 rt = true ->
  (forall l, In l rt -> model_at md l = model_at md0 l) -> mono md rt.
Proof.
  intros md0 md rt. induction rt as [|l r IH]; intros H Ha; [exact I|].
  destruct (trail_okb_cons _ _ _ H) as [_ [_ [_ [B4 B5]]]]. split.
  - intros l' Hl'. rewrite (Ha l' (or_intror Hl')), (Ha l (or_introl eq_refl)). exact (proj2 (B4 l' Hl')).
  - apply IH; [exact B5|]. intros x Hx. apply Ha. right. exact Hx.
Qed.

Lemma of_spec : forall pb md lvl rt res u,
  mono md rt -> (forall l, In l rt -> Z.abs (model_at md l) <= lvl) ->
  only_falsified pb md lvl rt res = Some u ->
  match res with
  | Some x => u = x /\ (forall l, In l rt -> Z.abs (model_at md l) = lvl -> falsifies pb l = false)
  | None => In u rt /\ falsifies pb u = true /\ Z.abs (model_at md u) = lvl /\
            (forall l, In l rt -> l <> u -> Z.abs (model_at md l) = lvl -> falsifies pb l = false)
  end.
Proof.
  intros pb md lvl rt. induction rt as [|l r IH]; intros res u Hm HJ H; cbn [only_falsified] in H.
  - subst res. split; [reflexivity|intros l []].
  - destruct Hm as [Hm1 Hm2].
    assert (HJr : forall x, In x r -> Z.abs (model_at md x) <= lvl) by (intros x Hx; apply HJ; right; exact Hx).
    destruct (Z.eqb_spec (Z.abs (model_at md l)) lvl) as [E|E]; cbn [negb] in H.
    + destruct (falsifies pb l) eqn:Ef.
      * destruct res as [x|]; [discriminate|].
        destruct (IH (Some l) u Hm2 HJr H) as [-> I2].
        split; [left; reflexivity|]. split; [exact Ef|]. split; [exact E|].
        intros x [<-|Hx] Hne Hlv; [congruence|apply I2; assumption].
      * specialize (IH res u Hm2 HJr H). destruct res as [x|].
        -- destruct IH as [I1 I2]. split; [exact I1|]. intros y [<-|Hy] Hlv; [exact Ef|apply I2; assumption].
        -- destruct IH as [I1 [I2 [I3 I4]]]. split; [right; exact I1|]. split; [exact I2|]. split; [exact I3|].
           intros y [<-|Hy] Hne Hlv; [exact Ef|apply I4; assumption].
    + subst res. split; [reflexivity|].
      assert (Hlt : Z.abs (model_at md l) < lvl) by (specialize (HJ l (or_introl eq_refl)); lia).
      intros y [<-|Hy] Hlv; [lia|]. specialize (Hm1 y Hy). lia.
Qed.

(* backtrackLevel *)
Lemma bt_ws_spec : forall ws i v lvl assign maxl,
  let R := backtrack_ws i v lvl assign ws maxl in
  maxl <= R /\
  (forall k, nth k ws 0 <> 0 -> (i + k)%nat <> v -> Z.abs (nth k assign 0) <> lvl ->
             Z.abs (nth k assign 0) <= R) /\
  (R = maxl \/ exists k, R = Z.abs (nth k assign 0) /\ R <> lvl).
Proof.
  induction ws as [|w r IH]; intros i v lvl assign maxl; cbn [backtrack_ws].
  - split; [lia|]. split; [|left; reflexivity]. intros k H. destruct k; cbn in H; congruence.
  - set (li := Z.abs (hd 0 assign)).
    set (maxl' := if (w =? 0) || Nat.eqb i v then maxl
                  else if (maxl <? li) && negb (li =? lvl) then li else maxl).
    destruct (IH (S i) v lvl (tl assign) maxl') as [I1 [I2 I3]].
    assert (Hm : maxl <= maxl').
    { unfold maxl'. destruct ((w =? 0) || Nat.eqb i v); [lia|].
      destruct (Z.ltb_spec maxl li); cbn [andb]; [destruct (negb (li =? lvl)); lia|lia]. }
    split; [lia|]. split.
    + intros k Hk Hne Hl. destruct k as [|k].
      * cbn [nth] in Hk. rewrite hd_nth in Hl |- *. fold li in Hl |- *.
        assert (li <= maxl'); [|lia]. unfold maxl'.
        destruct (Z.eqb_spec w 0); [congruence|]. destruct (Nat.eqb_spec i v); [lia|]. cbn [orb].
        destruct (Z.ltb_spec maxl li); cbn [andb]; [|lia].
        destruct (Z.eqb_spec li lvl); [congruence|]. cbn [negb]. lia.
      * cbn [nth] in Hk. rewrite (hd_tl_nth k assign) in Hl |- *.
        apply I2; [exact Hk|lia|exact Hl].
    + destruct I3 as [I3|[k [K1 K2]]].
      * assert (Hc : maxl' = maxl \/ (maxl' = li /\ li <> lvl)).
        { unfold maxl'. destruct ((w =? 0) || Nat.eqb i v); [left; reflexivity|].
          destruct (Z.ltb_spec maxl li); cbn [andb]; [|left; reflexivity].
          destruct (Z.eqb_spec li lvl); cbn [negb]; [left; reflexivity|right; split; [reflexivity|assumption]]. }
        destruct Hc as [Hc|[Hc1 Hc2]]; [left; rewrite I3; exact Hc|].
        right. exists 0%nat. rewrite hd_nth. fold li. rewrite I3, Hc1. split; [reflexivity|exact Hc2].
      * right. exists (S k). rewrite (hd_tl_nth k assign). split; assumption.
Qed.

Lemma bt_spec : forall md v pb,
  let R := backtrack_level md v pb in
  1 <= R /\
  (forall j, nth j (fst pb) 0 <> 0 -> j <> v -> Z.abs (nth j md 0) <> Z.abs (nth v md 0) ->
             Z.abs (nth j md 0) <= R) /\
  (R = 1 \/ exists j, R = Z.abs (nth j md 0) /\ R <> Z.abs (nth v md 0)).
Proof.
  intros md v pb. unfold backtrack_level.
  destruct (bt_ws_spec (fst pb) 0 v (Z.abs (nth v md 0)) md 1) as [I1 [I2 I3]].
  split; [exact I1|]. split; [|exact I3]. intros j H1 H2 H3. apply I2; [exact H1|cbn; exact H2|exact H3].
Qed.

(* roundToOne keeps the signs and only removes literals *)
Lemma weaken_ws_nth : forall wi ws assign w k j, weaken_ws wi assign ws = (w, k) ->
  nth j w 0 = nth j ws 0 \/ nth j w 0 = 0.
Proof.
  intros wi ws. induction ws as [|wj r IH]; intros assign w k j H; cbn [weaken_ws] in H.
  - injection H as <- <-. left. reflexivity.
  - destruct (weaken_ws wi (tl assign) r) as [r' k'] eqn:E.
    destruct (wj =? 0); [|destruct (negb (Z.rem wj wi =? 0) && not_falsified (hd 0 assign) wj)];
      injection H as <- <-; (destruct j as [|j]; cbn [nth]; [auto|exact (IH _ _ _ j E)]).
Qed.

Lemma nth_map_div_w : forall c (w : list Z) j, nth j (map (div_w c) w) 0 = div_w c (nth j w 0).
Proof. intros c w j. exact (map_nth (div_w c) w 0 j). Qed.

Lemma round_sign : forall md v s s' j, round_to_one md v s = Some s' ->
  nth j (fst s') 0 <> 0 ->
  nth j (fst s) 0 <> 0 /\ (0 <? nth j (fst s') 0) = (0 <? nth j (fst s) 0).
Proof.
  intros md v [ws d] s' j H Hj. unfold round_to_one in H. cbn [fst snd] in *.
  destruct (Z.abs (nth v ws 0) =? 1); [injection H as <-; cbn [fst] in *; split; [exact Hj|reflexivity]|].
  destruct (Z.eqb_spec (Z.abs (nth v ws 0)) 0) as [E0|E0]; [discriminate|]. injection H as <-.
  unfold divide_by, weaken_round in Hj |- *. cbn [fst snd] in Hj |- *.
  destruct (weaken_ws (Z.abs (nth v ws 0)) md ws) as [w k] eqn:E. cbn [fst snd] in Hj |- *.
  rewrite nth_map_div_w in Hj |- *.
  pose proof (div_w_spec (Z.abs (nth v ws 0)) (nth j w 0) ltac:(lia)) as S.
  destruct (weaken_ws_nth _ _ _ _ _ j E) as [Hn|Hn].
  - rewrite Hn in *. split; [lia|]. destruct (Z.ltb_spec 0 (div_w (Z.abs (nth v ws 0)) (nth j ws 0)));
      destruct (Z.ltb_spec 0 (nth j ws 0)); try reflexivity; lia.
  - rewrite Hn in Hj. cbn in Hj. congruence.
Qed.

(* ------------------------------------------------------------------ *)
(* 6. a constraint and its pbSet                                        *)

Lemma nfsum_ws_set : forall ws md k x, (k < List.length ws)%nat ->
  nfsum md (set_nth k x ws) = nfsum md ws - nf (nth k md 0) (nth k ws 0) + nf (nth k md 0) x.
Proof.
  induction ws as [|w r IH]; intros md k x H; [cbn in H; lia|].
  destruct k as [|k]; cbn [set_nth]; rewrite !nfsum_cons; cbn [nth].
  - rewrite hd_nth. lia.
  - rewrite IH by (cbn in H; lia). rewrite <- !hd_tl_nth. lia.
Qed.

Lemma nf_signed : forall md (t : term), 0 <= fst t -> snd t <> 0 ->
  nf (model_at md (snd t)) (signed_w t) = if lit_false md (snd t) then 0 else fst t.
Proof.
  intros md [w l] Hw Hl. cbn [fst snd] in *. unfold nf, signed_w, lit_false, not_falsified. cbn [fst snd].
  set (a := model_at md l).
  destruct (Z.ltb_spec 0 l).
  - destruct (Z.eqb_spec w 0); [subst; destruct (negb (a =? 0) && negb (Bool.eqb (0 <? a) true)); reflexivity|].
    destruct (Z.eqb_spec a 0); cbn [negb andb orb]; [lia|].
    destruct (Z.ltb_spec 0 a); destruct (Z.ltb_spec 0 w); cbn [Bool.eqb negb]; lia.
  - destruct (Z.eqb_spec (- w) 0); [assert (w = 0) by lia; subst;
      destruct (negb (a =? 0) && negb (Bool.eqb (0 <? a) false)); reflexivity|].
    destruct (Z.eqb_spec a 0); cbn [negb andb orb]; [lia|].
    destruct (Z.ltb_spec 0 a); destruct (Z.ltb_spec 0 (- w)); cbn [Bool.eqb negb]; lia.
Qed.

Definition tidx (t : term) : nat := Z.to_nat (Z.abs (snd t) - 1).

Lemma fold_upd_length : forall ts ws, List.length (fold_left upd ts ws) = List.length ws.
Proof.
  induction ts as [|t ts IH]; intros ws; [reflexivity|]. cbn [fold_left]. rewrite IH.
  unfold upd. apply set_nth_length.
Qed.

Lemma fold_upd_nth_other : forall ts ws k, (forall t, In t ts -> tidx t <> k) ->
  nth k (fold_left upd ts ws) 0 = nth k ws 0.
Proof.
  induction ts as [|t ts IH]; intros ws k H; [reflexivity|]. cbn [fold_left].
  rewrite IH by (intros t' Ht'; apply H; right; exact Ht').
  unfold upd. apply nth_set_nth_neq. intros E. apply (H t (or_introl eq_refl)). unfold tidx. congruence.
Qed.

Definition terms_ok (len : nat) (ts : list term) : Prop :=
  NoDup (map (fun t : term => Z.abs (snd t)) ts) /\
  forall t, In t ts -> 0 <= fst t /\ 1 <= Z.abs (snd t) <= Z.of_nat len.

Lemma terms_ok_cons : forall len t ts, terms_ok len (t :: ts) ->
  terms_ok len ts /\ (forall t', In t' ts -> tidx t' <> tidx t) /\
  0 <= fst t /\ 1 <= Z.abs (snd t) <= Z.of_nat len.
Proof.
  intros len t ts [H1 H2]. cbn [map] in H1. inversion H1 as [|x l Hn Hd]; subst.
  split; [split; [exact Hd|intros t' Ht'; apply H2; right; exact Ht']|].
  split; [|apply H2; left; reflexivity].
  intros t' Ht' E. apply Hn. apply in_map_iff. exists t'. split; [|exact Ht'].
  destruct (H2 t' (or_intror Ht')) as [_ B1]. destruct (H2 t (or_introl eq_refl)) as [_ B2].
  unfold tidx in E. lia.
Qed.

Lemma fold_upd_nfsum : forall md ts ws, terms_ok (List.length ws) ts ->
  (forall t, In t ts -> nth (tidx t) ws 0 = 0) ->
  nfsum md (fold_left upd ts ws) = nfsum md ws + poss md ts.
Proof.
  intros md ts. induction ts as [|t ts IH]; intros ws Hok Hz; cbn [fold_left poss]; [lia|].
  destruct (terms_ok_cons _ _ _ Hok) as [Hok' [Hd [Hw Hr]]].
  rewrite IH.
  - unfold upd. rewrite nfsum_ws_set by lia. fold (tidx t). rewrite (Hz t (or_introl eq_refl)).
    assert (Hl : snd t <> 0) by lia.
    pose proof (nf_signed md t Hw Hl) as Hs. unfold model_at, vidx in Hs. unfold tidx. rewrite Hs.
    unfold nf. cbn. lia.
  - unfold upd. rewrite set_nth_length. exact Hok'.
  - intros t' Ht'. unfold upd. rewrite nth_set_nth_neq by (apply Hd; exact Ht').
    apply Hz. right. exact Ht'.
Qed.

Lemma fold_upd_nth : forall ts ws t, terms_ok (List.length ws) ts -> In t ts ->
  nth (tidx t) (fold_left upd ts ws) 0 = signed_w t.
Proof.
  induction ts as [|t0 ts IH]; intros ws t Hok Hin; [destruct Hin|].
  destruct (terms_ok_cons _ _ _ Hok) as [Hok' [Hd [Hw Hr]]]. cbn [fold_left].
  destruct Hin as [->|Hin].
  - rewrite fold_upd_nth_other by exact Hd. unfold upd. apply nth_set_nth_same. lia.
  - apply IH; [|exact Hin]. unfold upd. rewrite set_nth_length. exact Hok'.
Qed.

Lemma nodup_z_intro : forall l, NoDup l -> nodup_z l = true.
Proof.
  induction l as [|x r IH]; intros H; [reflexivity|]. inversion H as [|? ? Hn Hd]; subst.
  cbn [nodup_z]. rewrite (IH Hd). rewrite andb_true_r. apply negb_true_iff.
  destruct (existsb (Z.eqb x) r) eqn:E; [|reflexivity].
  apply existsb_exists in E. destruct E as [y [Hy Hxy]]. apply Z.eqb_eq in Hxy. subst y. contradiction.
Qed.

Lemma pbc_ok_iff : forall n c, pbc_ok n c = true <-> terms_ok n (terms c).
Proof.
  intros n c. unfold pbc_ok, terms_ok. split.
  - intros H. apply andb_true_iff in H. destruct H as [H1 H2]. split; [apply nodup_z_NoDup; exact H1|].
    rewrite forallb_forall in H2. intros t Ht. specialize (H2 t Ht). lia.
  - intros [H1 H2]. apply andb_true_iff. split; [apply nodup_z_intro; exact H1|].
    apply forallb_forall. intros t Ht. specialize (H2 t Ht). lia.
Qed.

Lemma pbset_of_fold : forall n c, pbset_of n c = (fold_left upd (terms c) (repeat 0 n), degree c).
Proof. reflexivity. Qed.

Lemma nfsum_zeros : forall k md, nfsum md (repeat 0 k) = 0.
Proof.
  induction k as [|k IH]; intros md; [reflexivity|]. cbn [repeat]. rewrite nfsum_cons, IH. reflexivity.
Qed.

Lemma pbset_of_nfsum : forall n c md, pbc_ok n c = true ->
  nfsum md (fst (pbset_of n c)) = poss md (terms c).
Proof.
  intros n c md H. apply pbc_ok_iff in H. rewrite pbset_of_fold. cbn [fst].
  rewrite fold_upd_nfsum.
  - rewrite nfsum_zeros. lia.
  - rewrite repeat_length. exact H.
  - intros t _. apply nth_repeat.
Qed.

Lemma pbset_of_nth : forall n c t, pbc_ok n c = true -> In t (terms c) ->
  nth (tidx t) (fst (pbset_of n c)) 0 = signed_w t.
Proof.
  intros n c t H Hin. apply pbc_ok_iff in H. rewrite pbset_of_fold. cbn [fst].
  apply fold_upd_nth; [rewrite repeat_length; exact H|exact Hin].
Qed.

(* poss and the terms of a pbSet *)
Lemma poss_perm : forall md a b, Permutation a b -> poss md a = poss md b.
Proof. intros md a b H. induction H; cbn [poss]; lia. Qed.

Lemma hd_skipn : forall k (md : list Z), hd 0 (skipn k md) = nth k md 0.
Proof.
  induction k as [|k IH]; intros md; [symmetry; apply hd_nth|].
  destruct md as [|a m]; [reflexivity|]. cbn [skipn nth]. apply IH.
Qed.

Lemma tl_skipn : forall k (md : list Z), tl (skipn k md) = skipn (S k) md.
Proof.
  induction k as [|k IH]; intros md; [destruct md; reflexivity|].
  destruct md as [|a m]; [reflexivity|]. cbn [skipn]. rewrite IH. destruct m; reflexivity.
Qed.

Lemma poss_set_terms : forall ws md k,
  poss md (set_terms (1 + Z.of_nat k) ws) = nfsum (skipn k md) ws.
Proof.
  induction ws as [|w r IH]; intros md k; [reflexivity|].
  cbn [set_terms]. rewrite nfsum_cons, hd_skipn, tl_skipn.
  replace (1 + Z.of_nat k + 1) with (1 + Z.of_nat (S k)) by lia.
  destruct (Z.eqb_spec w 0) as [E|E].
  - rewrite IH. subst w. unfold nf. cbn. lia.
  - cbn [poss]. rewrite IH. f_equal.
    unfold nf, lit_false, not_falsified, model_at, vidx.
    destruct (Z.eqb_spec w 0); [congruence|].
    destruct (Z.ltb_spec w 0); cbn [fst snd].
    + replace (Z.to_nat (Z.abs (- (1 + Z.of_nat k)) - 1)) with k by lia.
      set (a := nth k md 0). destruct (Z.eqb_spec a 0); cbn [negb andb orb]; [lia|].
      destruct (Z.ltb_spec 0 a); destruct (Z.ltb_spec 0 (- (1 + Z.of_nat k)));
        destruct (Z.ltb_spec 0 w); cbn [Bool.eqb negb]; lia.
    + replace (Z.to_nat (Z.abs (1 + Z.of_nat k) - 1)) with k by lia.
      set (a := nth k md 0). destruct (Z.eqb_spec a 0); cbn [negb andb orb]; [lia|].
      destruct (Z.ltb_spec 0 a); destruct (Z.ltb_spec 0 (1 + Z.of_nat k));
        destruct (Z.ltb_spec 0 w); cbn [Bool.eqb negb]; lia.
Qed.

Lemma poss_set_terms1 : forall ws md, poss md (set_terms 1 ws) = nfsum md ws.
Proof. intros ws md. exact (poss_set_terms ws md 0). Qed.

Lemma poss_cap_first : forall md d ts, poss md (cap_first d ts) <= poss md ts.
Proof.
  intros md d [|t r]; [cbn; lia|]. cbn [cap_first poss fst snd].
  unfold cap. destruct (lit_false md (snd t)); destruct (Z.ltb_spec d (fst t)); lia.
Qed.

(* the terms of a pbSet: positive weights, variables v .. v+len-1, increasing *)
Lemma set_terms_bounds : forall ws v t, 0 <= v -> In t (set_terms v ws) ->
  0 < fst t /\ v <= Z.abs (snd t) < v + Z.of_nat (List.length ws).
Proof.
  induction ws as [|w r IH]; intros v t Hv H; [destruct H|]. cbn [set_terms] in H. cbn [List.length].
  destruct (Z.eqb_spec w 0).
  - specialize (IH (v + 1) t ltac:(lia) H). lia.
  - destruct H as [<-|H]; [destruct (Z.ltb_spec w 0); cbn [fst snd]; lia|specialize (IH (v + 1) t ltac:(lia) H); lia].
Qed.

Lemma set_terms_nodup : forall ws v, 0 < v ->
  NoDup (map (fun t : term => Z.abs (snd t)) (set_terms v ws)).
Proof.
  induction ws as [|w r IH]; intros v Hv; [constructor|]. cbn [set_terms].
  destruct (Z.eqb_spec w 0); [apply IH; lia|]. cbn [map]. constructor; [|apply IH; lia].
  intros Hin. apply in_map_iff in Hin. destruct Hin as [t [Ht Hin]].
  pose proof (set_terms_bounds r (v + 1) t ltac:(lia) Hin) as B. destruct (Z.ltb_spec w 0); cbn [snd] in Ht; lia.
Qed.

Lemma set_terms_in : forall ws v j, nth j ws 0 <> 0 ->
  In (Z.abs (nth j ws 0), if nth j ws 0 <? 0 then - (v + Z.of_nat j) else v + Z.of_nat j)
     (set_terms v ws).
Proof.
  induction ws as [|w r IH]; intros v j H; [destruct j; cbn in H; congruence|].
  cbn [set_terms]. destruct j as [|j].
  - cbn [nth] in *. destruct (Z.eqb_spec w 0); [congruence|]. left.
    replace (v + Z.of_nat 0) with v by lia. destruct (Z.ltb_spec w 0); f_equal; lia.
  - cbn [nth] in *. specialize (IH (v + 1) j H).
    replace (v + Z.of_nat (S j)) with (v + 1 + Z.of_nat j) by lia.
    destruct (Z.eqb_spec w 0); [exact IH|right; exact IH].
Qed.

(* ------------------------------------------------------------------ *)
(* 7. the learned constraint                                            *)

Lemma simplify_learn_shape : forall ts d c,
  simplify_pb (PBC ts d) = Some ([], Some c) -> c = PBC (sort_terms (cap_first d ts)) d.
Proof.
  intros ts d c H. unfold simplify_pb in H. cbn [terms degree] in H.
  destruct (zsum (map fst ts) - d <? 0); [discriminate|].
  destruct (split_units (zsum (map fst ts) - d) ts) as [us rest] eqn:E.
  destruct (Proofs.PBNorm.split_units_spec _ _ _ _ E) as [Hts _].
  destruct (d - zsum (map fst us) <=? 0); [discriminate|].
  injection H as H1 H2. apply map_eq_nil in H1. subst us. cbn [app map zsum] in *. subst rest.
  rewrite Z.sub_0_r in H2. symmetry. exact H2.
Qed.

Lemma terms_ok_perm : forall len a b, Permutation a b -> terms_ok len a -> terms_ok len b.
Proof.
  intros len a b Hp [H1 H2]. split.
  - apply (Permutation_NoDup (Permutation_map _ Hp)). exact H1.
  - intros t Ht. apply H2. apply (Permutation_in _ (Permutation_sym Hp)). exact Ht.
Qed.

Lemma terms_ok_cap_first : forall len d ts, 0 <= d -> terms_ok len ts -> terms_ok len (cap_first d ts).
Proof.
  intros len d [|t r] Hd [H1 H2]; [split; assumption|]. cbn [cap_first]. split; [exact H1|].
  intros x [<-|Hx]; [|apply H2; right; exact Hx]. cbn [fst snd].
  destruct (H2 t (or_introl eq_refl)) as [B1 B2]. split; [|exact B2].
  unfold cap. destruct (Z.ltb_spec d (fst t)); lia.
Qed.

Lemma terms_ok_set_terms : forall ws, terms_ok (List.length ws) (set_terms 1 ws).
Proof.
  intros ws. split; [apply set_terms_nodup; lia|].
  intros t Ht. pose proof (set_terms_bounds ws 1 t ltac:(lia) Ht). lia.
Qed.

Lemma cap_first_in : forall d ts (w : Z) (l : lit), In (w, l) ts -> w <= d -> In (w, l) (cap_first d ts).
Proof.
  intros d [|t r] w l H Hw; [destruct H|]. cbn [cap_first]. destruct H as [->|H]; [|right; exact H].
  left. cbn [fst snd]. unfold cap. destruct (Z.ltb_spec d w); [lia|reflexivity].
Qed.

(* the constraint handed back by cuttingPlanes for the pbSet (ws, d) *)
Definition learned_of (ws : list Z) (d : Z) : pbc :=
  PBC (sort_terms (cap_first d (sort_terms (set_terms 1 ws)))) d.

Lemma learned_of_perm : forall ws d,
  Permutation (terms (learned_of ws d)) (cap_first d (sort_terms (set_terms 1 ws))).
Proof. intros. apply Proofs.PBNorm.sort_terms_perm. Qed.

Lemma learned_of_ok : forall ws d, 0 <= d -> pbc_ok (List.length ws) (learned_of ws d) = true.
Proof.
  intros ws d Hd. apply pbc_ok_iff.
  apply (terms_ok_perm _ _ _ (Permutation_sym (learned_of_perm ws d))).
  apply terms_ok_cap_first; [exact Hd|].
  apply (terms_ok_perm _ _ _ (Permutation_sym (Proofs.PBNorm.sort_terms_perm _))).
  apply terms_ok_set_terms.
Qed.

Lemma learned_of_poss : forall ws d md, poss md (terms (learned_of ws d)) <= nfsum md ws.
Proof.
  intros ws d md. rewrite (poss_perm md _ _ (learned_of_perm ws d)).
  pose proof (poss_cap_first md d (sort_terms (set_terms 1 ws))) as H.
  rewrite (poss_perm md _ _ (Proofs.PBNorm.sort_terms_perm (set_terms 1 ws))) in H.
  rewrite poss_set_terms1 in H. exact H.
Qed.

Lemma learned_of_in : forall ws d j, 1 <= d -> Z.abs (nth j ws 0) = 1 ->
  In (1, if nth j ws 0 <? 0 then - (1 + Z.of_nat j) else 1 + Z.of_nat j) (terms (learned_of ws d)).
Proof.
  intros ws d j Hd Hj.
  apply (Permutation_in _ (Permutation_sym (learned_of_perm ws d))).
  apply cap_first_in; [|exact Hd].
  apply (Permutation_in _ (Permutation_sym (Proofs.PBNorm.sort_terms_perm _))).
  rewrite <- Hj. apply set_terms_in. lia.
Qed.

(* the un-simplified constraint (commit 0a73d0f: learned when every unit found by
   SimplifyPB is already a fact) *)
Definition full_of (ws : list Z) (d : Z) : pbc := PBC (sort_terms (set_terms 1 ws)) d.

Lemma full_of_ok : forall ws d, pbc_ok (List.length ws) (full_of ws d) = true.
Proof.
  intros ws d. apply pbc_ok_iff.
  apply (terms_ok_perm _ _ _ (Permutation_sym (Proofs.PBNorm.sort_terms_perm _))).
  apply terms_ok_set_terms.
Qed.

Lemma full_of_poss : forall ws d md, poss md (terms (full_of ws d)) <= nfsum md ws.
Proof.
  intros ws d md. cbn [full_of terms].
  rewrite (poss_perm md _ _ (Proofs.PBNorm.sort_terms_perm (set_terms 1 ws))).
  rewrite poss_set_terms1. lia.
Qed.

Lemma full_of_in : forall ws d j, Z.abs (nth j ws 0) = 1 ->
  In (1, if nth j ws 0 <? 0 then - (1 + Z.of_nat j) else 1 + Z.of_nat j) (terms (full_of ws d)).
Proof.
  intros ws d j Hj. cbn [full_of terms].
  apply (Permutation_in _ (Permutation_sym (Proofs.PBNorm.sort_terms_perm _))).
  rewrite <- Hj. apply set_terms_in. lia.
Qed.

(* arithmetic of "the learned constraint propagates the unit after the jump" *)
Lemma nfsum_ext : forall ws a b,
  (forall j, nf (nth j a 0) (nth j ws 0) = nf (nth j b 0) (nth j ws 0)) -> nfsum a ws = nfsum b ws.
Proof.
  induction ws as [|w r IH]; intros a b H; [reflexivity|]. rewrite !nfsum_cons.
  pose proof (H 0%nat) as H0. cbn [nth] in H0. rewrite !hd_nth in H0. rewrite H0. f_equal.
  apply IH. intros j. specialize (H (S j)). cbn [nth] in H. rewrite !hd_tl_nth in H. exact H.
Qed.

Lemma assert_arith : forall ws card md' md1 v,
  nfsum md' ws < card -> Z.abs (nth v ws 0) = 1 ->
  nth v md' 0 <> 0 -> not_falsified (nth v md' 0) (nth v ws 0) = false ->
  nth v md1 0 = 0 ->
  (forall j, j <> v -> nth j md1 0 = nth j md' 0 \/
             (nth j md1 0 = 0 /\ (nth j ws 0 = 0 \/ not_falsified (nth j md' 0) (nth j ws 0) = true))) ->
  nfsum md1 ws - 1 < card.
Proof.
  intros ws card md' md1 v Hc Hw Ha Hf Hz Ho.
  assert (Hv : (v < List.length md')%nat) by (apply nth_nonzero_lt; exact Ha).
  assert (E1 : nfsum (set_nth v 0 md') ws = nfsum md' ws + 1).
  { rewrite nfsum_md_set by exact Hv. unfold nf. rewrite Hf.
    destruct (Z.eqb_spec (nth v ws 0) 0); [lia|]. cbn. lia. }
  assert (E2 : nfsum md1 ws = nfsum (set_nth v 0 md') ws).
  { apply nfsum_ext. intros j. destruct (Nat.eq_dec j v) as [->|Ne].
    - rewrite nth_set_nth_zero, Hz. reflexivity.
    - rewrite nth_set_nth_neq by exact Ne. destruct (Ho j Ne) as [->|[H1 H2]]; [reflexivity|].
      rewrite H1. unfold nf. destruct (Z.eqb_spec (nth j ws 0) 0); [reflexivity|].
      destruct H2 as [H2|H2]; [congruence|]. rewrite H2. reflexivity. }
  lia.
Qed.

(* cleanupBindings cuts the trail where the levels exceed bl *)
Lemma mono_app_one : forall md a x, mono md (a ++ [x]) ->
  mono md a /\ forall y, In y a -> Z.abs (model_at md x) <= Z.abs (model_at md y).
Proof.
  intros md a x. induction a as [|h a IH]; intros H; [split; [exact I|intros y []]|].
  cbn [app mono] in H. destruct H as [H1 H2]. destruct (IH H2) as [I1 I2]. split.
  - split; [|exact I1]. intros l' Hl'. apply H1. apply in_or_app. left. exact Hl'.
  - intros y [<-|Hy]; [apply H1; apply in_or_app; right; left; reflexivity|apply I2; exact Hy].
Qed.

Lemma split_trail_all : forall md bl tr k d, split_trail md bl tr = (k, d) ->
  mono md (rev tr) -> forall l, In l d -> bl < Z.abs (model_at md l).
Proof.
  intros md bl tr. induction tr as [|x r IH]; intros k d H Hm l Hl; cbn [split_trail] in H.
  - injection H as <- <-. destruct Hl.
  - cbn [rev] in Hm. destruct (mono_app_one _ _ _ Hm) as [M1 M2].
    destruct (Z.leb_spec (Z.abs (model_at md x)) bl) as [L|L].
    + destruct (split_trail md bl r) as [k' d'] eqn:E. injection H as <- <-.
      exact (IH k' d' eq_refl M1 l Hl).
    + injection H as <- <-. destruct Hl as [<-|Hl]; [exact L|].
      specialize (M2 l (proj1 (in_rev r l) Hl)). lia.
Qed.

Lemma split_trail_ext : forall md md' bl a,
  (forall l, In l a -> model_at md' l = model_at md l) -> split_trail md' bl a = split_trail md bl a.
Proof.
  intros md md' bl a. induction a as [|x r IH]; intros H; [reflexivity|]. cbn [split_trail].
  rewrite (H x (or_introl eq_refl)). rewrite IH by (intros l Hl; apply H; right; exact Hl). reflexivity.
Qed.

Lemma split_trail_app_stop : forall md bl a b x, In x a -> bl < Z.abs (model_at md x) ->
  split_trail md bl (a ++ b) = (fst (split_trail md bl a), snd (split_trail md bl a) ++ b).
Proof.
  intros md bl a b. induction a as [|h a IH]; intros x Hx Hl; [destruct Hx|].
  cbn [app split_trail]. destruct (Z.leb_spec (Z.abs (model_at md h)) bl) as [L|L].
  - destruct Hx as [<-|Hx]; [lia|]. rewrite (IH x Hx Hl).
    destruct (split_trail md bl a) as [k d]. reflexivity.
  - reflexivity.
Qed.

Lemma existsb_rev : forall (A : Type) (f : A -> bool) l, existsb f (rev l) = existsb f l.
Proof.
  intros A f l. induction l as [|x r IH]; [reflexivity|]. cbn [rev existsb].
  rewrite existsb_app. cbn [existsb]. rewrite IH. destruct (f x); destruct (existsb f r); reflexivity.
Qed.

Lemma vidx_opp : forall u, vidx (- u) = vidx u.
Proof. intros u. unfold vidx. rewrite Z.abs_opp. reflexivity. Qed.

Lemma not_falsified_sign : forall a w w', (0 <? w) = (0 <? w') -> not_falsified a w = not_falsified a w'.
Proof. intros a w w' H. unfold not_falsified. rewrite H. reflexivity. Qed.

Section Assert.
Variable n : nat.
Variable P : problem.
Variable rs : list (option pbc).
Hypothesis HP : forall i c, nth i rs None = Some c -> In c P.
Variables (tr : list lit) (md0 : list Z) (lvl0 : Z).
Hypothesis W : wf n tr md0 rs lvl0.
Variables (pb : pbset) (pre rt' : list lit) (md' : list Z) (L : Z) (u : lit).
Hypothesis Hsplit : rev tr = pre ++ rt'.
Hypothesis Hmd' : md' = zero_list pre md0.
Hypothesis HI : Inv n P rs pb md' rt'.
Hypothesis HA : Aux md0 md' rt'.
Hypothesis HJ : forall l, In l rt' -> Z.abs (model_at md' l) <= L.
Hypothesis Ho : only_falsified pb md' L rt' None = Some u.

Lemma fin_tr : tr = rev rt' ++ rev pre.
Proof. rewrite <- (rev_involutive tr), Hsplit, rev_app_distr. reflexivity. Qed.

Lemma fin_of :
  In u rt' /\ falsifies pb u = true /\ Z.abs (model_at md' u) = L /\
  (forall l, In l rt' -> l <> u -> Z.abs (model_at md' l) = L -> falsifies pb l = false).
Proof.
  destruct HA as [A1 [A2 _]].
  exact (of_spec pb md' L rt' None u (mono_of md0 md' rt' A1 A2) HJ Ho).
Qed.

Lemma fin_u : model_at md' u = model_at md0 u /\ u <> 0 /\ (0 <? model_at md0 u) = (0 <? u) /\
              model_at md0 u <> 0 /\ In u tr /\ (vidx u < n)%nat.
Proof.
  destruct HA as [A1 [A2 _]]. destruct fin_of as [F1 _].
  destruct (trail_okb_in md0 rt' u A1 F1) as [T1 T2].
  pose proof (trail_okb_nonzero md0 rt' u A1 F1) as T3.
  split; [apply A2; exact F1|]. split; [exact T1|]. split; [exact T2|]. split; [exact T3|]. split.
  - apply in_rev. rewrite Hsplit. apply in_or_app. right. exact F1.
  - destruct W as [W1 _]. rewrite <- W1. apply nth_nonzero_lt. exact T3.
Qed.

Lemma fin_md'_nth : forall j, nth j md' 0 = 0 \/ nth j md' 0 = nth j md0 0.
Proof.
  intros j. rewrite Hmd', nth_zero_list. destruct (existsb _ pre); [left|right]; reflexivity.
Qed.

(* a literal of pb falsified by md', other than the one of u, is below level L *)
Lemma fin_falsified : forall j, j <> vidx u -> nth j (fst pb) 0 <> 0 ->
  not_falsified (nth j md' 0) (nth j (fst pb) 0) = false -> Z.abs (nth j md' 0) < L.
Proof.
  intros j Hj Hw Hf. destruct HA as [A1 [A2 A3]]. destruct fin_of as [_ [_ [_ F4]]].
  assert (Ha : nth j md' 0 <> 0).
  { intros E. rewrite E in Hf. unfold not_falsified in Hf. cbn in Hf. discriminate. }
  destruct (A3 j Ha) as [l [Hl Hv]]. subst j.
  change (nth (vidx l) md' 0) with (model_at md' l) in *.
  destruct (trail_okb_in md0 rt' l A1 Hl) as [Hl0 Hsg]. rewrite <- (A2 l Hl) in Hsg.
  assert (Hne : l <> u) by congruence.
  assert (Hfl : falsifies pb l = true).
  { apply falsifies_of_spec; [exact Hw|]. unfold not_falsified in Hf.
    destruct (Z.eqb_spec (model_at md' l) 0); [congruence|]. cbn [orb] in Hf. rewrite Hsg in Hf.
    destruct (Z.ltb_spec 0 l); destruct (Z.ltb_spec 0 (nth (vidx l) (fst pb) 0));
      destruct (Z.ltb_spec (nth (vidx l) (fst pb) 0) 0); cbn [Bool.eqb] in Hf; try discriminate;
      try reflexivity; lia. }
  specialize (HJ l Hl).
  destruct (Z.eq_dec (Z.abs (model_at md' l)) L) as [E|E]; [|lia].
  rewrite (F4 l Hl Hne E) in Hfl. discriminate.
Qed.

(* level 1: the conflict only involves facts *)
Lemma fin_unsat : Top P md0 rt' -> L = 1 -> forall m : model, sat_problem m P = false.
Proof.
  intros HT HL. destruct HI as [HD [_ [HC _]]].
  apply (unsat_of_agree n P rs HP pb md' HD HC).
  apply (agree_lvl1 n P rs HP md0 md' rt' HA HT). rewrite <- HL. exact HJ.
Qed.

Lemma fin_cleanup : forall bl, bl < L ->
  cleanup_bindings bl tr md' rs = cleanup_bindings bl tr md0 rs.
Proof.
  intros bl Hbl. destruct HA as [A1 [A2 A3]]. destruct fin_of as [F1 [_ [F3 _]]].
  rewrite !cleanup_bindings_eq. rewrite fin_tr.
  assert (Hu : In u (rev rt')) by (apply in_rev in F1; exact F1).
  assert (Hext : forall l, In l (rev rt') -> model_at md' l = model_at md0 l)
    by (intros l Hl; apply A2; apply in_rev; exact Hl).
  rewrite (split_trail_app_stop md' bl (rev rt') (rev pre) u Hu ltac:(lia)).
  rewrite (split_trail_app_stop md0 bl (rev rt') (rev pre) u Hu ltac:(rewrite <- (Hext u Hu); lia)).
  rewrite (split_trail_ext md0 md' bl (rev rt') Hext). cbn [fst snd].
  f_equal. f_equal.
  set (d1 := snd (split_trail md0 bl (rev rt'))).
  apply (nth_ext _ _ 0 0).
  - rewrite !zero_list_length. rewrite Hmd', zero_list_length. reflexivity.
  - intros j _. rewrite !nth_zero_list.
    destruct (existsb (fun l => Nat.eqb (vidx l) j) (d1 ++ rev pre)) eqn:E; [reflexivity|].
    rewrite existsb_app in E. apply orb_false_iff in E. destruct E as [_ E]. rewrite existsb_rev in E.
    rewrite Hmd', nth_zero_list, E. reflexivity.
Qed.

Lemma fin_bt : 2 <= L -> 1 <= backtrack_level md' (vidx u) pb < L.
Proof.
  intros HL. destruct (bt_spec md' (vidx u) pb) as [B1 [_ B3]]. split; [exact B1|].
  destruct fin_of as [_ [_ [F3 _]]]. unfold model_at in F3.
  destruct B3 as [->|[j [B3 B4]]]; [lia|]. rewrite B3 in *. rewrite F3 in B4.
  destruct (Z.eq_dec (nth j md' 0) 0) as [E|E]; [rewrite E in B1; cbn in B1; lia|].
  destruct HA as [_ [_ A3]]. destruct (A3 j E) as [l [Hl Hv]]. subst j. specialize (HJ l Hl).
  unfold model_at in HJ. lia.
Qed.

Lemma fin_learn : forall c props nl, 2 <= L -> cp_finish pb md' u = CPLearn c props nl ->
  props = [- u] /\ nl = backtrack_level md' (vidx u) pb /\
  forall k md1 rs1, cleanup_bindings nl tr md0 rs = (k, md1, rs1) ->
    free_lit md1 (- u) = true /\ reason_okb n (push md1 (- u) nl) c (- u) = true.
Proof.
  intros c props nl0 HL H. unfold cp_finish in H.
  destruct (round_to_one md' (vidx u) pb) as [pb1|] eqn:E1; [|discriminate].
  destruct (Z.ltb_spec (snd pb1) 1) as [Ld|Ld]; [discriminate|]. cbv zeta in H.
  destruct (simplify_pb (PBC (sort_terms (set_terms 1 (fst pb1))) (snd pb1))) as [[us rest]|] eqn:Es;
    [|discriminate].
  destruct (forallb (is_fact md') us); [|discriminate].
  assert (Hsh : props = [- u] /\ nl0 = backtrack_level md' (vidx u) pb /\
                (c = learned_of (fst pb1) (snd pb1) \/ c = full_of (fst pb1) (snd pb1))).
  { destruct us as [|u0 us].
    - destruct rest as [c'|]; [|discriminate]. injection H as <- <- <-.
      apply simplify_learn_shape in Es. subst c'. split; [reflexivity|]. split; [reflexivity|left; reflexivity].
    - injection H as <- <- <-. split; [reflexivity|]. split; [reflexivity|right; reflexivity]. }
  destruct Hsh as [-> [-> Hc]]. clear H Es. split; [reflexivity|]. split; [reflexivity|].
  set (nl := backtrack_level md' (vidx u) pb). set (ws1 := fst pb1). set (d := snd pb1) in *.
  destruct (fin_bt HL) as [Hnl1 Hnl2]. fold nl in Hnl1, Hnl2.
  intros k md1 rs1 Hcl.
  destruct fin_u as [U1 [U2 [U3 [U4 [U5 U6]]]]].
  destruct fin_of as [F1 [F2 [F3 F4]]].
  destruct (falsifies_spec _ _ F2) as [Hz Hsg].
  pose proof (round_weight _ _ _ _ E1 Hz) as Hw1. fold ws1 in Hw1.
  destruct HI as [HD [HLen [HC HR]]].
  destruct (round_conflicting _ _ _ _ E1 HC) as [HC1 _].
  assert (Hlen1 : List.length ws1 = n) by (unfold ws1; rewrite (round_length _ _ _ _ E1); exact HLen).
  destruct W as [W1 [W2 [W3 [W4 _]]]].
  (* the cut *)
  rewrite <- (fin_cleanup nl Hnl2) in Hcl. rewrite cleanup_bindings_eq in Hcl.
  destruct (split_trail md' nl tr) as [k' dd] eqn:Esp. cbn [fst snd] in Hcl. injection Hcl as <- <- <-.
  pose proof (fin_cleanup nl Hnl2) as Hcl2. rewrite !cleanup_bindings_eq, Esp in Hcl2. cbn [fst snd] in Hcl2.
  destruct (split_trail md0 nl tr) as [k0 d0] eqn:Esp0. cbn [fst snd] in Hcl2.
  injection Hcl2 as Hk Hmd1 _. subst k0.
  destruct (split_trail_spec _ _ _ _ _ Esp0) as [S1 [S2 _]].
  assert (Hmono : mono md0 (rev tr)) by (apply (mono_of md0 md0 (rev tr) W4); reflexivity).
  pose proof (split_trail_all _ _ _ _ _ Esp0 Hmono) as Hd0.
  assert (Hdd : dd = d0).
  { destruct (split_trail_spec _ _ _ _ _ Esp) as [S1' _]. rewrite S1 in S1'.
    apply app_inv_head in S1'. symmetry. exact S1'. }
  subst dd.
  assert (Hud : In u d0).
  { rewrite S1 in U5. apply in_app_or in U5. destruct U5 as [U5|U5]; [|exact U5].
    specialize (S2 u U5). rewrite <- U1 in S2. lia. }
  assert (Hz1 : nth (vidx u) (zero_list d0 md') 0 = 0).
  { rewrite nth_zero_list.
    assert (E : existsb (fun l => Nat.eqb (vidx l) (vidx u)) d0 = true)
      by (apply existsb_exists; exists u; split; [exact Hud|apply Nat.eqb_refl]).
    rewrite E. reflexivity. }
  assert (Hx0 : - u <> 0) by lia.
  assert (Hlen' : List.length (zero_list d0 md') = n).
  { rewrite zero_list_length, Hmd', zero_list_length. exact W1. }
  assert (Hfree : free_lit (zero_list d0 md') (- u) = true).
  { apply free_lit_intro; [exact Hx0|rewrite vidx_opp, Hlen'; exact U6|].
    unfold model_at. rewrite vidx_opp. exact Hz1. }
  split; [exact Hfree|].
  set (md1 := zero_list d0 md') in *. set (x := - u) in *.
  set (md2 := push md1 x nl).
  (* the weight of x in ws1 *)
  assert (Hw1' : nth (vidx u) ws1 0 = if 0 <? x then 1 else -1).
  { rewrite Hw1. unfold x. destruct (Z.ltb_spec 0 u); destruct (Z.ltb_spec (nth (vidx u) (fst pb) 0) 0);
      try discriminate; destruct (Z.ltb_spec 0 (nth (vidx u) (fst pb) 0)); destruct (Z.ltb_spec 0 (- u));
      try reflexivity; lia. }
  assert (Habs : Z.abs (nth (vidx u) ws1 0) = 1) by (rewrite Hw1'; destruct (0 <? x); reflexivity).
  assert (Hin : In (1, x) (terms c)).
  { assert (Hi : In (1, if nth (vidx u) ws1 0 <? 0 then - (1 + Z.of_nat (vidx u)) else 1 + Z.of_nat (vidx u))
                    (terms c))
      by (destruct Hc as [-> | ->]; [apply (learned_of_in ws1 d (vidx u) Ld Habs)|apply (full_of_in ws1 d (vidx u) Habs)]).
    replace (if nth (vidx u) ws1 0 <? 0 then - (1 + Z.of_nat (vidx u)) else 1 + Z.of_nat (vidx u))
      with x in Hi; [exact Hi|].
    rewrite (vidx_var u U2). rewrite Hw1'. unfold x.
    destruct (Z.ltb_spec 0 (- u)); [destruct (Z.ltb_spec 1 0); lia|destruct (Z.ltb_spec (-1) 0); lia]. }
  assert (Hok : pbc_ok n c = true)
    by (rewrite <- Hlen1; destruct Hc as [-> | ->]; [apply learned_of_ok; lia|apply full_of_ok]).
  pose proof (pbset_of_nth n _ (1, x) Hok Hin) as Hwx.
  unfold tidx, signed_w in Hwx. cbn [fst snd] in Hwx. fold (vidx x) in Hwx.
  assert (Hm2x : model_at md2 x = signed_lvl x nl).
  { unfold md2. apply model_at_push_same. unfold x. rewrite vidx_opp. rewrite Hlen'. exact U6. }
  unfold reason_okb. rewrite Hok, Hwx. cbn [andb].
  assert (Hs2 : (0 <? signed_lvl x nl) = (0 <? x)) by (apply signed_lvl_sign; [lia|exact Hx0]).
  apply andb_true_iff. split; [apply andb_true_iff; split|].
  - destruct (0 <? x); reflexivity.
  - rewrite Hm2x. unfold not_falsified. rewrite Hs2.
    destruct (0 <? x); cbn; rewrite orb_true_r; reflexivity.
  - apply Z.ltb_lt. replace (snd (pbset_of n c)) with d by (destruct Hc as [-> | ->]; reflexivity).
    rewrite (pbset_of_nfsum n _ md2 Hok).
    assert (Hp : poss md2 (terms c) <= nfsum md2 ws1)
      by (destruct Hc as [-> | ->]; [apply learned_of_poss|apply full_of_poss]).
    replace (Z.abs (if 0 <? x then 1 else - (1))) with 1 by (destruct (0 <? x); reflexivity).
    (* nfsum md2 ws1 = nfsum md1 ws1 *)
    assert (E2 : nfsum md2 ws1 = nfsum md1 ws1).
    { assert (Hundo : set_nth (vidx x) 0 md2 = md1)
        by (apply push_undo; unfold model_at, x; rewrite vidx_opp; exact Hz1).
      rewrite <- Hundo. symmetry. apply nfsum_zero_at. right.
      change (nth (vidx x) md2 0) with (model_at md2 x). rewrite Hm2x.
      unfold x at 2. rewrite vidx_opp, Hw1'. unfold not_falsified. rewrite Hs2.
      destruct (0 <? x); cbn; rewrite orb_true_r; reflexivity. }
    assert (E3 : nfsum md1 ws1 - 1 < d).
    { unfold conflicting in HC1. apply Z.ltb_lt in HC1. fold ws1 d in HC1.
      apply (assert_arith ws1 d md' md1 (vidx u) HC1 Habs).
      - change (nth (vidx u) md' 0) with (model_at md' u). rewrite U1. exact U4.
      - change (nth (vidx u) md' 0) with (model_at md' u). rewrite U1, Hw1'.
        unfold not_falsified. destruct (Z.eqb_spec (model_at md0 u) 0); [congruence|]. cbn [orb].
        rewrite U3. unfold x. destruct (Z.ltb_spec 0 u); destruct (Z.ltb_spec 0 (- u)); try reflexivity; lia.
      - exact Hz1.
      - intros j Hj. unfold md1. rewrite nth_zero_list.
        destruct (existsb (fun l => Nat.eqb (vidx l) j) d0) eqn:Ee; [|left; reflexivity]. right.
        split; [reflexivity|].
        destruct (Z.eq_dec (nth j ws1 0) 0) as [Ew|Ew]; [left; exact Ew|right].
        destruct (not_falsified (nth j md' 0) (nth j ws1 0)) eqn:Enf; [reflexivity|exfalso].
        destruct (round_sign _ _ _ _ j E1 Ew) as [Hpbj Hsj]. fold ws1 in Hsj.
        rewrite (not_falsified_sign _ _ _ Hsj) in Enf.
        pose proof (fin_falsified j Hj Hpbj Enf) as Hlt.
        assert (Ha : nth j md' 0 <> 0).
        { intros E. rewrite E in Enf. unfold not_falsified in Enf. cbn in Enf. discriminate. }
        destruct (bt_spec md' (vidx u) pb) as [_ [B2 _]]. fold nl in B2.
        assert (Hle : Z.abs (nth j md' 0) <= nl).
        { apply B2; [exact Hpbj|exact Hj|]. unfold model_at in F3. rewrite F3. lia. }
        apply existsb_exists in Ee. destruct Ee as [l [Hl He]]. apply Nat.eqb_eq in He. subst j.
        specialize (Hd0 l Hl). destruct (fin_md'_nth (vidx l)) as [E|E]; [congruence|].
        unfold model_at in Hd0. rewrite E in Hle. lia. }
    lia.
Qed.

Lemma zsum_poss_nil : forall ts : list term, zsum (map fst ts) = poss [] ts.
Proof.
  induction ts as [|t r IH]; [reflexivity|]. cbn [map zsum poss]. rewrite IH.
  unfold lit_false, model_at. destruct (vidx (snd t)); reflexivity.
Qed.

Lemma split_units_all : forall th ts, (forall t, In t ts -> th < fst t) -> split_units th ts = (ts, []).
Proof.
  intros th ts. induction ts as [|t r IH]; intros H; [reflexivity|]. cbn [split_units].
  destruct (Z.ltb_spec th (fst t)) as [Lt0|Lt0]; [|specialize (H t (or_introl eq_refl)); lia].
  rewrite IH by (intros x Hx; apply H; right; exact Hx). reflexivity.
Qed.

(* level 1: when the analysis ends on a fact u, every literal of the constraint
   is a unit, in particular the negation of u *)
Lemma fin_units_all : L = 1 -> forall us, cp_finish pb md' u = CPUnits us -> In (- u) us.
Proof.
  intros HL us H. unfold cp_finish in H.
  destruct (round_to_one md' (vidx u) pb) as [pb1|] eqn:E1; [|discriminate].
  destruct (Z.ltb_spec (snd pb1) 1) as [Ld|Ld]; [discriminate|].
  cbv zeta in H. set (ts := sort_terms (set_terms 1 (fst pb1))) in *.
  destruct (simplify_pb (PBC ts (snd pb1))) as [[us' rest]|] eqn:Es; [|discriminate].
  destruct (forallb (is_fact md') us');
    [destruct us' as [|u0 us']; [destruct rest; discriminate|discriminate]|]. injection H as <-.
  set (ws1 := fst pb1) in *. set (d := snd pb1) in *.
  destruct fin_u as [U1 [U2 [U3 [U4 [U5 U6]]]]].
  destruct fin_of as [F1 [F2 [F3 F4]]].
  destruct (falsifies_spec _ _ F2) as [Hz Hsg].
  pose proof (round_weight _ _ _ _ E1 Hz) as Hw1. fold ws1 in Hw1.
  destruct HI as [HD [HLen [HC HR]]].
  destruct (round_conflicting _ _ _ _ E1 HC) as [HC1 _].
  unfold conflicting in HC1. apply Z.ltb_lt in HC1. fold ws1 d in HC1.
  assert (Hw1' : nth (vidx u) ws1 0 = if 0 <? - u then 1 else -1).
  { rewrite Hw1. destruct (Z.ltb_spec 0 u); destruct (Z.ltb_spec (nth (vidx u) (fst pb) 0) 0);
      try discriminate; destruct (Z.ltb_spec 0 (nth (vidx u) (fst pb) 0)); destruct (Z.ltb_spec 0 (- u));
      try reflexivity; lia. }
  assert (Habs : Z.abs (nth (vidx u) ws1 0) = 1) by (rewrite Hw1'; destruct (0 <? - u); reflexivity).
  assert (Ha : nth (vidx u) md' 0 <> 0).
  { change (nth (vidx u) md' 0) with (model_at md' u). rewrite U1. exact U4. }
  assert (Hv : (vidx u < List.length md')%nat) by (apply nth_nonzero_lt; exact Ha).
  assert (Hfu : not_falsified (nth (vidx u) md' 0) (nth (vidx u) ws1 0) = false).
  { change (nth (vidx u) md' 0) with (model_at md' u). rewrite U1, Hw1'.
    unfold not_falsified. destruct (Z.eqb_spec (model_at md0 u) 0); [congruence|]. cbn [orb].
    rewrite U3. destruct (Z.ltb_spec 0 u); destruct (Z.ltb_spec 0 (- u)); try reflexivity; lia. }
  (* the sum of all the weights is at most the degree *)
  assert (E1' : nfsum (set_nth (vidx u) 0 md') ws1 = nfsum md' ws1 + 1).
  { rewrite nfsum_md_set by exact Hv. unfold nf. rewrite Hfu.
    destruct (Z.eqb_spec (nth (vidx u) ws1 0) 0); [lia|]. cbn. lia. }
  assert (E2 : nfsum [] ws1 = nfsum (set_nth (vidx u) 0 md') ws1).
  { apply nfsum_ext. intros j.
    assert (Hnil : nth j (@nil Z) 0 = 0) by (destruct j; reflexivity). rewrite Hnil.
    destruct (Nat.eq_dec j (vidx u)) as [->|Ne]; [rewrite nth_set_nth_zero; reflexivity|].
    rewrite nth_set_nth_neq by exact Ne. unfold nf.
    destruct (Z.eqb_spec (nth j ws1 0) 0) as [Ew|Ew]; [reflexivity|].
    destruct (not_falsified (nth j md' 0) (nth j ws1 0)) eqn:Enf; [reflexivity|exfalso].
    destruct (round_sign _ _ _ _ j E1 Ew) as [Hpbj Hsj]. fold ws1 in Hsj.
    rewrite (not_falsified_sign _ _ _ Hsj) in Enf.
    pose proof (fin_falsified j Ne Hpbj Enf) as Hlt.
    assert (E0 : nth j md' 0 = 0) by lia. rewrite E0 in Enf. unfold not_falsified in Enf. cbn in Enf. discriminate. }
  assert (Hsum : zsum (map fst ts) <= d).
  { rewrite zsum_poss_nil. unfold ts. rewrite (poss_perm [] _ _ (Proofs.PBNorm.sort_terms_perm _)).
    rewrite poss_set_terms1. lia. }
  (* so every literal is a unit *)
  unfold simplify_pb in Es. cbn [terms degree] in Es.
  destruct (Z.ltb_spec (zsum (map fst ts) - d) 0) as [Lt|Lt]; [discriminate|].
  assert (Hth : zsum (map fst ts) - d = 0) by lia. rewrite Hth in Es.
  rewrite split_units_all in Es.
  - assert (Hus : us' = map snd ts) by (destruct (d - zsum (map fst ts) <=? 0); injection Es as <- _; reflexivity).
    rewrite Hus.
    assert (Hin : In (1, - u) (set_terms 1 ws1)).
    { pose proof (set_terms_in ws1 1 (vidx u) ltac:(lia)) as Hi. rewrite Habs in Hi.
      replace (if nth (vidx u) ws1 0 <? 0 then - (1 + Z.of_nat (vidx u)) else 1 + Z.of_nat (vidx u))
        with (- u) in Hi; [exact Hi|].
      rewrite (vidx_var u U2). rewrite Hw1'.
      destruct (Z.ltb_spec 0 (- u)); [destruct (Z.ltb_spec 1 0); lia|destruct (Z.ltb_spec (-1) 0); lia]. }
    apply (Permutation_in _ (Permutation_sym (Proofs.PBNorm.sort_terms_perm _))) in Hin.
    change (- u) with (snd (1, - u)). apply in_map. exact Hin.
  - intros t Ht. unfold ts in Ht. apply (Permutation_in _ (Proofs.PBNorm.sort_terms_perm _)) in Ht.
    pose proof (set_terms_bounds _ 1 t ltac:(lia) Ht). lia.
Qed.

Lemma fin_md'_levels : L = 1 -> forall j, Z.abs (nth j md' 0) <= 1.
Proof.
  intros HL j. destruct (Z.eq_dec (nth j md' 0) 0) as [E|E]; [rewrite E; cbn; lia|].
  destruct HA as [_ [_ A3]]. destruct (A3 j E) as [l [Hl Hv]]. subst j.
  specialize (HJ l Hl). unfold model_at in HJ. lia.
Qed.

Lemma fin_learn_shape : forall c props nl, cp_finish pb md' u = CPLearn c props nl ->
  props = [- u] /\ nl = backtrack_level md' (vidx u) pb.
Proof.
  intros c props nl H. unfold cp_finish in H.
  destruct (round_to_one md' (vidx u) pb) as [pb1|]; [|discriminate].
  destruct (snd pb1 <? 1); [discriminate|]. cbv zeta in H.
  destruct (simplify_pb _) as [[us rest]|]; [|discriminate].
  destruct (forallb (is_fact md') us); [|discriminate].
  destruct us as [|u0 us].
  - destruct rest as [c'|]; [|discriminate]. injection H as _ <- <-. split; reflexivity.
  - injection H as _ <- <-. split; reflexivity.
Qed.

Lemma fin_bt1 : L = 1 -> backtrack_level md' (vidx u) pb = 1.
Proof.
  intros HL. destruct (bt_spec md' (vidx u) pb) as [B1 [_ B3]].
  destruct B3 as [B3|[j [B3 B4]]]; [exact B3|].
  pose proof (fin_md'_levels HL j). lia.
Qed.

Lemma mono_app : forall md a b, mono md (a ++ b) ->
  forall x y, In x a -> In y b -> Z.abs (model_at md y) <= Z.abs (model_at md x).
Proof.
  intros md a b. induction a as [|h a IH]; intros H x y Hx Hy; [destruct Hx|].
  cbn [app mono] in H. destruct H as [H1 H2]. destruct Hx as [<-|Hx].
  - apply H1. apply in_or_app. right. exact Hy.
  - apply IH; assumption.
Qed.

(* when the analysis ends at a level >= 2 the walk has not touched the facts *)
Lemma fin_md'_facts : 2 <= L -> forall j, Z.abs (nth j md0 0) = 1 -> nth j md' 0 = nth j md0 0.
Proof.
  intros HL j Hj. rewrite Hmd', nth_zero_list.
  destruct (existsb (fun l => Nat.eqb (vidx l) j) pre) eqn:E; [exfalso|reflexivity].
  apply existsb_exists in E. destruct E as [l [Hl He]]. apply Nat.eqb_eq in He. subst j.
  destruct W as [_ [_ [_ [W4 _]]]].
  assert (Hmono : mono md0 (rev tr)) by (apply (mono_of md0 md0 (rev tr) W4); reflexivity).
  rewrite Hsplit in Hmono.
  destruct fin_of as [F1 [_ [F3 _]]]. destruct fin_u as [U1 _].
  pose proof (mono_app md0 pre rt' Hmono l u Hl F1) as Hle.
  rewrite <- U1 in Hle. unfold model_at in Hle at 2. lia.
Qed.

End Assert.

(* ------------------------------------------------------------------ *)
(* 8. the invariant of the search                                       *)

Definition entails (P : problem) (c : pbc) : Prop :=
  forall m : model, sat_problem m P = true -> sat_pbc m c = true.
Definition entails_lit (P : problem) (l : lit) : Prop :=
  forall m : model, sat_problem m P = true -> lit_val m l = true.
Definition unsatP (P : problem) : Prop := forall m : model, sat_problem m P = false.

(* the facts: the level-1 literals are consequences of P *)
Definition facts (P : problem) (tr : list lit) (md : list Z) : Prop :=
  forall l, In l tr -> Z.abs (model_at md l) = 1 -> entails_lit P l.

Definition good (P : problem) (n : nat) (s : pstate) : Prop :=
  wf n (ps_trail s) (ps_model s) (ps_reason s) (ps_lvl s) /\
  reasons_in P (ps_ghost s) (ps_reason s) /\
  ((forall c, In c (ps_ghost s) -> entails P c) /\ incl (ps_learned s) (ps_ghost s)) /\
  facts P (ps_trail s) (ps_model s) /\
  (forall u, In u (ps_pending s) -> u <> 0 /\ (vidx u < n)%nat /\ entails_lit P u) /\
  (ps_pending s <> [] -> ps_lvl s = 1) /\
  (ps_trail s = [] -> ps_lvl s = 1).

(* The one situation in which [good] is lost.  When the analysis ends on a
   level-1 literal u (a fact: the problem has no model) and cuttingPlanes
   returns units, cleanupBindings(1) does not cut the trail: the entries that
   the walk has zeroed count as "level 0" and stay on the trail, unassigned.
   The units are then treated one by one; one of them is the negation of u
   (fin_units_all), and the test "false at level 1" on it ends the search with
   Unsat.  Until then the configuration is [doom]ed: P has no model, everything
   is at level <= 1, and a pending unit is false at level 1.  No decision, no
   conflict analysis, no restart and no Sat answer can happen in such a
   configuration (they need an empty pending list). *)
Definition doom (P : problem) (s : pstate) : Prop :=
  unsatP P /\ ps_lvl s = 1 /\
  (forall j, Z.abs (nth j (ps_model s) 0) <= 1) /\
  exists x, In x (ps_pending s) /\ Z.abs (model_at (ps_model s) x) = 1 /\
            lit_false (ps_model s) x = true.

Definition ginv (P : problem) (n : nat) (cf : pconfig) : Prop :=
  match cf with
  | PRunning s => List.length (ps_model s) = n /\ (good P n s \/ doom P s)
  | PFinal PUnsat => unsatP P
  | PFinal (PSat m) => List.length m = n /\ (pvars_inb n P = true -> sat_problem m P = true)
  | PCrashed => False
  end.

Lemma sat_app : forall (m : model) P L, sat_problem m P = true ->
  (forall c, In c L -> entails P c) -> sat_problem m (P ++ L) = true.
Proof.
  intros m P L H HL. unfold sat_problem in *. rewrite forallb_app, H. cbn [andb].
  apply forallb_forall. intros c Hc. apply (HL c Hc). exact H.
Qed.

Lemma entails_in : forall P L c, (forall c', In c' L -> entails P c') -> In c (P ++ L) -> entails P c.
Proof.
  intros P L c HL Hc. apply in_app_or in Hc. destruct Hc as [Hc|Hc]; [|apply HL; exact Hc].
  intros m Hm. unfold sat_problem in Hm. rewrite forallb_forall in Hm. apply Hm. exact Hc.
Qed.

Lemma nth_set_nth_g_cases : forall (A : Type) (l : list A) k j x d,
  nth j (set_nth_g k x l) d = nth j l d \/ (j = k /\ nth j (set_nth_g k x l) d = x).
Proof.
  intros A l k j x d. destruct (Nat.eq_dec j k) as [->|Ne]; [|left; apply nth_set_nth_g_neq; exact Ne].
  destruct (Nat.lt_ge_cases k (List.length l)) as [L|L].
  - right. split; [reflexivity|apply nth_set_nth_g_same; exact L].
  - left. rewrite !nth_overflow; [reflexivity|exact L|rewrite set_nth_g_length; exact L].
Qed.

Lemma nth_none_list : forall d rs j,
  nth j (none_list d rs) None = nth j rs None \/ nth j (none_list d rs) None = None.
Proof.
  induction d as [|l d IH]; intros rs j; [left; reflexivity|].
  unfold none_list in *. cbn [fold_left].
  destruct (IH (set_nth_g (vidx l) None rs) j) as [H|H]; [|right; exact H].
  rewrite H. destruct (nth_set_nth_g_cases _ rs (vidx l) j None None) as [H'|[_ H']]; [left|right]; exact H'.
Qed.

Lemma facts_push : forall P n tr md rs lvl l v,
  wf n tr md rs lvl -> free_lit md l = true -> facts P tr md ->
  (v = 1 -> entails_lit P l) -> 0 <= v ->
  facts P (tr ++ [l]) (push md l v).
Proof.
  intros P n tr md rs lvl l v W Hf HF Hl Hv x Hx Hlv.
  destruct (free_lit_spec _ _ Hf) as [_ [Hlt Hz]].
  apply in_app_or in Hx. destruct Hx as [Hx|[<-|[]]].
  - rewrite model_at_push_other in Hlv by (exact (wf_distinct n tr md rs lvl l x W Hx Hz)).
    apply HF; assumption.
  - rewrite model_at_push_same in Hlv by exact Hlt. rewrite signed_lvl_abs in Hlv by exact Hv.
    apply Hl. exact Hlv.
Qed.

Lemma facts_cleanup : forall P tr md k d, tr = k ++ d -> facts P tr md -> facts P k (zero_list d md).
Proof.
  intros P tr md k d Htr HF l Hl Hlv. unfold model_at in Hlv. rewrite nth_zero_list in Hlv.
  destruct (existsb _ d); [cbn in Hlv; lia|]. apply HF; [rewrite Htr; apply in_or_app; left; exact Hl|exact Hlv].
Qed.

Lemma reasons_in_cleanup : forall P L rs d, reasons_in P L rs -> reasons_in P L (none_list d rs).
Proof.
  intros P L rs d H i c Hc. destruct (nth_none_list d rs i) as [E|E]; rewrite E in Hc; [|discriminate].
  apply (H i c Hc).
Qed.

Lemma good_length : forall P n s, good P n s -> List.length (ps_model s) = n.
Proof. intros P n s [[W1 _] _]. exact W1. Qed.

Lemma in_app_incl : forall (P L G : list pbc) c, incl L G -> In c (P ++ L) -> In c (P ++ G).
Proof.
  intros P L G c H Hc. apply in_app_or in Hc. apply in_or_app.
  destruct Hc as [Hc|Hc]; [left; exact Hc|right; apply H; exact Hc].
Qed.

Section StepLemmas.
Variable P : problem.
Variable n : nat.

Lemma step_decide : forall tr md rs L lvl G l,
  good P n (PState tr md rs L lvl [] G) -> free_lit md l = true ->
  good P n (PState (tr ++ [l]) (push md l (lvl + 1)) rs L (lvl + 1) [] G).
Proof.
  intros tr md rs L lvl G l [W [G2 [G3 [G4 [G5 [G6 G7]]]]]] Hf. cbn [ps_trail ps_model ps_reason ps_learned ps_lvl ps_pending ps_ghost] in *.
  assert (Hl : 1 <= lvl) by (destruct W as [_ [_ [_ [_ [_ [_ [_ [_ W9]]]]]]]]; exact W9).
  split; [|split; [exact G2|split; [exact G3|split; [|split; [exact G5|split]]]]];
    cbn [ps_trail ps_model ps_reason ps_learned ps_lvl ps_pending ps_ghost].
  - apply (push_wf n tr md rs lvl l (lvl + 1) None W Hf); [lia|right; lia].
  - apply (facts_push P n tr md rs lvl l (lvl + 1) W Hf G4); lia.
  - intros H. congruence.
  - intros H. destruct tr; discriminate.
Qed.

Lemma step_propagate : forall tr md rs L lvl pend G l c,
  good P n (PState tr md rs L lvl pend G) -> In c (P ++ L) -> prop_chk n md c l lvl = true ->
  good P n (PState (tr ++ [l]) (push md l lvl) (set_nth_g (vidx l) (Some c) rs) L lvl pend G).
Proof.
  intros tr md rs L lvl pend G l c [W [G2 [G3 [G4 [G5 [G6 G7]]]]]] Hc Hp.
  assert (HcG : In c (P ++ G)) by (apply (in_app_incl P L G c (proj2 G3)); exact Hc).
  cbn [ps_trail ps_model ps_reason ps_learned ps_lvl ps_pending ps_ghost] in *.
  unfold prop_chk in Hp. apply andb_true_iff in Hp. destruct Hp as [Hf Hr].
  assert (Hl : 1 <= lvl) by (destruct W as [_ [_ [_ [_ [_ [_ [_ [_ W9]]]]]]]]; exact W9).
  destruct (free_lit_spec _ _ Hf) as [Hl0 [Hlt Hz]].
  split; [|split; [|split; [exact G3|split; [|split; [exact G5|split]]]]];
    cbn [ps_trail ps_model ps_reason ps_learned ps_lvl ps_pending ps_ghost].
  - apply (push_wf n tr md rs lvl l lvl (Some c) W Hf); [lia|exact Hr].
  - intros i c' Hi. destruct (nth_set_nth_g_cases _ rs (vidx l) i (Some c) None) as [E|[_ E]];
      rewrite E in Hi; [apply (G2 i c' Hi)|injection Hi as <-; exact HcG].
  - apply (facts_push P n tr md rs lvl l lvl W Hf G4); [|lia].
    intros -> m Hm.
    assert (Hag : agrees m md).
    { apply (facts_agree n tr md rs m W). intros x Hx Hlv. apply (G4 x Hx Hlv m Hm). }
    apply (forced_entailed n m (push md l 1) c l Hr).
    + unfold push. rewrite set_nth_length. exact Hlt.
    + exact Hl0.
    + rewrite model_at_push_same by exact Hlt. unfold signed_lvl. destruct (0 <? l); lia.
    + rewrite model_at_push_same by exact Hlt. apply signed_lvl_sign; [lia|exact Hl0].
    + apply (entails_in P G c (proj1 G3) HcG m Hm).
    + intros j Hj Hnz. unfold push in *. rewrite nth_set_nth_neq in * by exact Hj. apply Hag. exact Hnz.
  - exact G6.
  - intros H. destruct tr; discriminate.
Qed.

Lemma step_forget : forall tr md rs L lvl pend G L',
  good P n (PState tr md rs L lvl pend G) -> incl L' L ->
  good P n (PState tr md rs L' lvl pend G).
Proof.
  intros tr md rs L lvl pend G L' [W [G2 [[G3 G3'] [G4 [G5 [G6 G7]]]]]] Hi.
  cbn [ps_trail ps_model ps_reason ps_learned ps_lvl ps_pending ps_ghost] in *.
  split; [exact W|]. split; [exact G2|].
  split; [split; [exact G3|intros c Hc; apply G3'; apply Hi; exact Hc]|].
  split; [exact G4|]. split; [exact G5|]. split; assumption.
Qed.

Lemma step_restart : forall tr md rs L lvl G tr1 md1 rs1,
  good P n (PState tr md rs L lvl [] G) -> cleanup_bindings 1 tr md rs = (tr1, md1, rs1) ->
  good P n (PState tr1 md1 rs1 L 1 [] G).
Proof.
  intros tr md rs L lvl G tr1 md1 rs1 [W [G2 [G3 [G4 [G5 [G6 G7]]]]]] Hc.
  cbn [ps_trail ps_model ps_reason ps_learned ps_lvl ps_pending ps_ghost] in *.
  destruct (cleanup_wf n tr md rs lvl 1 tr1 md1 rs1 W ltac:(lia) Hc) as [W' [d [Htr [Hmd Hrs]]]].
  split; [exact W'|]. split; [rewrite Hrs; apply reasons_in_cleanup; exact G2|]. split; [exact G3|].
  split; [rewrite Hmd; apply (facts_cleanup P tr md tr1 d Htr G4)|]. split; [exact G5|].
  split; reflexivity.
Qed.

Lemma step_top_conflict : forall tr md rs L pend G c,
  good P n (PState tr md rs L 1 pend G) -> In c (P ++ L) -> confl_chk n md c = true -> unsatP P.
Proof.
  intros tr md rs L pend G c [W [G2 [G3 [G4 _]]]] Hc Hk m.
  assert (HcG : In c (P ++ G)) by (apply (in_app_incl P L G c (proj2 G3)); exact Hc).
  cbn [ps_trail ps_model ps_reason ps_learned ps_lvl ps_pending ps_ghost] in *.
  destruct (sat_problem m P) eqn:Em; [exfalso|reflexivity].
  assert (Hag : agrees m md).
  { apply (facts_agree n tr md rs m W). intros x Hx Hlv. apply (G4 x Hx Hlv m Em). }
  pose proof (confl_not_sat n m md c Hk Hag) as Hns.
  rewrite (entails_in P G c (proj1 G3) HcG m Em) in Hns. discriminate.
Qed.

End StepLemmas.

Section UnitStep.
Variable P : problem.
Variable n : nat.

(* a unit that is a consequence of P and false at level 1: P has no model *)
Lemma unit_false_unsat : forall tr md0 md' rs lvl u,
  wf n tr md0 rs lvl -> facts P tr md0 -> u <> 0 -> entails_lit P u ->
  (forall j, nth j md' 0 = 0 \/ nth j md' 0 = nth j md0 0) ->
  Z.abs (model_at md' u) = 1 -> lit_false md' u = true -> unsatP P.
Proof.
  intros tr md0 md' rs lvl u W HF Hu0 Hue Hmd E1 E2.
  assert (Ea : model_at md' u = model_at md0 u).
  { unfold model_at in *. destruct (Hmd (vidx u)) as [E|E]; [rewrite E in E1; cbn in E1; lia|exact E]. }
  rewrite Ea in E1. unfold lit_false in E2. rewrite Ea in E2.
  destruct W as [_ [_ [_ [W4 [W5 _]]]]].
  assert (Hnz : nth (vidx u) md0 0 <> 0) by (unfold model_at in E1; lia).
  destruct (W5 _ Hnz) as [l [Hl Hv]].
  destruct (trail_okb_in md0 (rev tr) l W4 (proj1 (in_rev tr l) Hl)) as [Hl0 Hsg].
  assert (Hml : model_at md0 l = model_at md0 u) by (unfold model_at; rewrite Hv; reflexivity).
  intros m. destruct (sat_problem m P) eqn:Em; [exfalso|reflexivity].
  assert (Hfl : entails_lit P l) by (apply HF; [exact Hl|rewrite Hml; exact E1]).
  pose proof (var_of_lit_val m l Hl0 (Hfl m Em)) as V1.
  pose proof (var_of_lit_val m u Hu0 (Hue m Em)) as V2.
  rewrite Hv in V1. rewrite V1 in V2. rewrite <- Hsg, Hml in V2.
  apply andb_true_iff in E2. destruct E2 as [_ E2]. rewrite V2 in E2. rewrite eqb_reflx in E2. discriminate.
Qed.

(* a unit that is not at level 1 is free after cleanupBindings(1), and binding it
   at level 1 keeps everything in order *)
Lemma unit_push_good : forall tr md0 md' rs G lvl u tr1 md1 rs1,
  wf n tr md0 rs lvl -> reasons_in P G rs -> facts P tr md0 ->
  u <> 0 -> (vidx u < n)%nat -> entails_lit P u ->
  (forall j, nth j md' 0 = 0 \/ nth j md' 0 = nth j md0 0) ->
  (forall j, Z.abs (nth j md0 0) = 1 -> nth j md' 0 = nth j md0 0) ->
  cleanup_bindings 1 tr md' rs = cleanup_bindings 1 tr md0 rs ->
  Z.abs (model_at md' u) <> 1 ->
  cleanup_bindings 1 tr md' rs = (tr1, md1, rs1) ->
  wf n (tr1 ++ [u]) (push md1 u 1) rs1 1 /\ reasons_in P G rs1 /\
  facts P (tr1 ++ [u]) (push md1 u 1).
Proof.
  intros tr md0 md' rs G lvl u tr1 md1 rs1 W HR HF Hu0 Hur Hue Hmd Hmd1 Hcl Hn1 Ec.
  rewrite Hcl in Ec.
  destruct (cleanup_wf n tr md0 rs lvl 1 tr1 md1 rs1 W ltac:(lia) Ec) as [W' [d [Htr [Hm1 Hr1]]]].
  assert (HR1 : reasons_in P G rs1) by (rewrite Hr1; apply reasons_in_cleanup; exact HR).
  assert (HF1 : facts P tr1 md1) by (rewrite Hm1; apply (facts_cleanup P tr md0 tr1 d Htr HF)).
  assert (Hfree : free_lit md1 u = true).
  { apply free_lit_intro; [exact Hu0|destruct W' as [W1 _]; rewrite W1; exact Hur|].
    destruct (Z.eq_dec (model_at md1 u) 0) as [E|E]; [exact E|exfalso].
    destruct W' as [_ [_ [_ [_ [W5 [W6 _]]]]]].
    destruct (W5 (vidx u) E) as [l [Hl Hv]]. specialize (W6 l Hl).
    assert (Hml : model_at md1 l = model_at md1 u) by (unfold model_at; rewrite Hv; reflexivity).
    assert (H1 : Z.abs (model_at md1 u) = 1) by (rewrite <- Hml; rewrite <- Hml in E; lia).
    assert (H0 : model_at md1 u = model_at md0 u).
    { assert (Hz : model_at md1 u = 0 \/ model_at md1 u = model_at md0 u).
      { unfold model_at. rewrite Hm1, nth_zero_list. destruct (existsb _ d); [left|right]; reflexivity. }
      destruct Hz as [Hz|Hz]; [congruence|exact Hz]. }
    rewrite H0 in H1. apply Hn1. unfold model_at in *. rewrite (Hmd1 _ H1). exact H1. }
  split; [|split; [exact HR1|]].
  - apply (push_wf n tr1 md1 rs1 1 u 1 None W' Hfree); [lia|left; reflexivity].
  - apply (facts_push P n tr1 md1 rs1 1 u 1 W' Hfree HF1); [intros _; exact Hue|lia].
Qed.

End UnitStep.

(* ------------------------------------------------------------------ *)
(* 9. the conflict step                                                 *)

Lemma wf_state_wf3b : forall n tr md rs lvl c,
  wf n tr md rs lvl -> confl_chk n md c = true -> state_wf3b (State tr md rs c lvl) = true.
Proof.
  intros n tr md rs lvl c [W1 [W2 [W3 [W4 [W5 [W6 [W7 _]]]]]]] Hk.
  unfold confl_chk in Hk. apply andb_true_iff in Hk. destruct Hk as [K1 K2].
  unfold state_wf3b, state_wf2b, state_wfb, st_n. cbn [st_trail st_model st_reason st_confl st_lvl].
  rewrite W1, K1, K2, W3, W4, W7. cbn [andb]. rewrite andb_true_r.
  apply andb_true_iff. split; [apply assigned_okb_intro; exact W5|].
  apply forallb_forall. intros l Hl. apply Z.leb_le. apply W6. exact Hl.
Qed.

Lemma sat_app_l : forall (m : model) P L, sat_problem m (P ++ L) = true -> sat_problem m P = true.
Proof.
  intros m P L H. unfold sat_problem in *. rewrite forallb_app in H.
  apply andb_true_iff in H. exact (proj1 H).
Qed.

Lemma unsat_app : forall P L, (forall c, In c L -> entails P c) -> unsatP (P ++ L) -> unsatP P.
Proof.
  intros P L HL H m. destruct (sat_problem m P) eqn:E; [|reflexivity].
  rewrite <- (H m). symmetry. apply sat_app; assumption.
Qed.

Lemma simplify_units_in : forall c us rest, simplify_pb c = Some (us, rest) ->
  forall x, In x us -> exists w, In (w, x) (terms c).
Proof.
  intros [ts d] us rest H x Hx. unfold simplify_pb in H. cbn [terms degree] in *.
  destruct (zsum (map fst ts) - d <? 0); [discriminate|].
  destruct (split_units (zsum (map fst ts) - d) ts) as [us' rest'] eqn:E.
  destruct (Proofs.PBNorm.split_units_spec _ _ _ _ E) as [Hts _].
  assert (Hus : us = map snd us') by (destruct (d - zsum (map fst us') <=? 0); injection H as <- _; reflexivity).
  subst us. apply in_map_iff in Hx. destruct Hx as [[w y] [<- Hin]]. exists w.
  rewrite Hts. apply in_or_app. left. exact Hin.
Qed.

Lemma cp_finish_units : forall pb md u us, cp_finish pb md u = CPUnits us ->
  us <> [] /\
  (forall x, In x us -> x <> 0 /\ (vidx x < List.length (fst pb))%nat) /\
  exists x, In x us /\ is_fact md x = false.
Proof.
  intros pb md u us H. unfold cp_finish in H.
  destruct (round_to_one md (vidx u) pb) as [pb1|] eqn:E1; [|discriminate].
  destruct (snd pb1 <? 1); [discriminate|]. cbv zeta in H.
  destruct (simplify_pb (PBC (sort_terms (set_terms 1 (fst pb1))) (snd pb1))) as [[us' rest]|] eqn:Es;
    [|discriminate].
  destruct (forallb (is_fact md) us') eqn:Ef;
    [destruct us' as [|u0 us']; [destruct rest; discriminate|discriminate]|]. injection H as <-.
  split; [intros ->; discriminate|]. split.
  - intros x Hx. destruct (simplify_units_in _ _ _ Es x Hx) as [w Hw]. cbn [terms] in Hw.
    apply (Permutation_in _ (Proofs.PBNorm.sort_terms_perm _)) in Hw.
    pose proof (set_terms_bounds _ 1 _ ltac:(lia) Hw) as B. cbn [snd] in B.
    rewrite (round_length _ _ _ _ E1) in B. unfold vidx. split; lia.
  - destruct (forallb_forall (is_fact md) us') as [_ Hall].
    destruct (existsb (fun x => negb (is_fact md x)) us') eqn:Ee.
    + apply existsb_exists in Ee. destruct Ee as [x [Hx Hn]]. exists x. split; [exact Hx|].
      apply negb_true_iff in Hn. exact Hn.
    + exfalso. rewrite Hall in Ef; [discriminate|]. intros x Hx.
      destruct (is_fact md x) eqn:E; [reflexivity|].
      assert (existsb (fun x0 => negb (is_fact md x0)) us' = true)
        by (apply existsb_exists; exists x; split; [exact Hx|rewrite E; reflexivity]).
      congruence.
Qed.

Lemma walk_length : forall pb rt md,
  match walk pb md rt with
  | WEmpty m | WStop m _ _ => List.length m = List.length md
  end.
Proof.
  intros pb rt. induction rt as [|x rt IH]; intros md; cbn [walk]; [reflexivity|].
  destruct (falsifies pb x); [reflexivity|].
  specialize (IH (set_nth (vidx x) 0 md)). rewrite set_nth_length in IH. exact IH.
Qed.

Lemma cp_loop_length : forall fuel n rs pb md rt lvl,
  List.length (snd (cp_loop fuel n rs pb md rt lvl)) = List.length md.
Proof.
  induction fuel as [|f IH]; intros n rs pb md rt lvl; cbn [cp_loop]; [reflexivity|].
  destruct (only_falsified pb md lvl rt None); [reflexivity|].
  destruct (lvl =? 1); [reflexivity|]. destruct rt as [|x rt0]; [reflexivity|].
  pose proof (walk_length pb (x :: rt0) md) as HW.
  destruct (walk pb md (x :: rt0)) as [md1|md1 l r]; [exact HW|]. cbv zeta.
  destruct (round_to_one md1 (vidx l) pb); [|exact HW].
  destruct (reason_at rs l).
  - destruct (round_to_one md1 (vidx l) (pbset_of n p0)); [|exact HW]. rewrite IH. exact HW.
  - rewrite IH. exact HW.
Qed.

Lemma cleanup_length : forall bl tr md rs tr1 md1 rs1,
  cleanup_bindings bl tr md rs = (tr1, md1, rs1) -> List.length md1 = List.length md.
Proof.
  intros bl tr md rs tr1 md1 rs1 H. rewrite cleanup_bindings_eq in H. injection H as _ <- _.
  apply zero_list_length.
Qed.

Lemma units_succ_len : forall n s us md, List.length md = n ->
  match units_succ s md us with
  | PRunning s' => List.length (ps_model s') = n
  | PFinal (PSat _) => False
  | _ => True
  end.
Proof.
  intros n s us. induction us as [|u rest IH]; intros md H; cbn [units_succ]; [exact H|].
  destruct ((Z.abs (model_at md u) =? 1) && lit_false md u); [exact I|].
  destruct (Z.abs (model_at md u) =? 1); [apply IH; exact H|].
  destruct (cleanup_bindings 1 (ps_trail s) md (ps_reason s)) as [[tr1 md1] rs1] eqn:E.
  pose proof (cleanup_length _ _ _ _ _ _ _ E) as HL.
  cbn [ps_model]. unfold push. rewrite set_nth_length. lia.
Qed.

Lemma fold_push_length : forall props md v,
  List.length (fold_left (fun m l => push m l v) props md) = List.length md.
Proof.
  induction props as [|x r IH]; intros md v; [reflexivity|]. cbn [fold_left]. rewrite IH.
  unfold push. apply set_nth_length.
Qed.

Lemma conflict_succ_len : forall n s c, List.length (ps_model s) = n ->
  match conflict_succ s c with
  | PRunning s' => List.length (ps_model s') = n
  | PFinal (PSat _) => False
  | _ => True
  end.
Proof.
  intros n s c H. unfold conflict_succ.
  pose proof (cp_loop_length (cp_fuel (cp_state s c)) (st_n (cp_state s c)) (ps_reason s)
                (pbset_of (st_n (cp_state s c)) c) (ps_model s) (rev (ps_trail s)) (ps_lvl s)) as HL.
  change (cp_loop _ _ _ _ _ _ _) with (cutting_planes_full (cp_state s c)) in HL.
  destruct (cutting_planes_full (cp_state s c)) as [r md']. cbn [snd] in HL. rewrite H in HL.
  destruct r as [| | | |us|c' props nl]; try exact I.
  - apply units_succ_len. exact HL.
  - destruct (nl =? 1); [apply units_succ_len; exact HL|].
    destruct (cleanup_bindings nl (ps_trail s) md' (ps_reason s)) as [[tr1 md1] rs1] eqn:E.
    cbn [ps_model]. rewrite fold_push_length. rewrite (cleanup_length _ _ _ _ _ _ _ E). exact HL.
Qed.

Lemma cleanup_noop : forall bl tr md rs, (forall j, Z.abs (nth j md 0) <= bl) ->
  cleanup_bindings bl tr md rs = (tr, md, rs).
Proof.
  intros bl tr md rs H. rewrite cleanup_bindings_eq.
  assert (E : split_trail md bl tr = (tr, [])).
  { induction tr as [|l r IH]; [reflexivity|]. cbn [split_trail].
    destruct (Z.leb_spec (Z.abs (model_at md l)) bl) as [Le|Le]; [rewrite IH; reflexivity|].
    specialize (H (vidx l)). unfold model_at in Le. lia. }
  rewrite E. reflexivity.
Qed.

(* skipped = already a fact *)
Lemma skip_is_fact : forall md u, Z.abs (model_at md u) = 1 ->
  is_fact md u = negb (lit_false md u).
Proof.
  intros md u H. unfold is_fact, lit_false. rewrite H. cbn [Z.eqb Pos.eqb andb].
  destruct (Z.eqb_spec (model_at md u) 0) as [E|E]; [rewrite E in H; cbn in H; lia|].
  cbn [negb andb]. rewrite negb_involutive. reflexivity.
Qed.

(* the units branch in a doomed situation *)
Definition doomed_cf (P : problem) (n : nat) (cf : pconfig) : Prop :=
  match cf with
  | PRunning s' => List.length (ps_model s') = n /\ doom P s'
  | PFinal PUnsat => unsatP P
  | _ => False
  end.

Lemma doomed_ginv : forall P n cf, doomed_cf P n cf -> ginv P n cf.
Proof.
  intros P n [s'|[m|]|] H; cbn [doomed_cf ginv] in *; try exact H; try contradiction.
  split; [exact (proj1 H)|right; exact (proj2 H)].
Qed.

Lemma units_doom : forall P n tr md rs L lvl pend G us md',
  unsatP P -> List.length md' = n -> (forall j, Z.abs (nth j md' 0) <= 1) ->
  (exists x, In x us /\ Z.abs (model_at md' x) = 1 /\ lit_false md' x = true) ->
  doomed_cf P n (units_succ (PState tr md rs L lvl pend G) md' us).
Proof.
  intros P n tr md rs L lvl pend G us. induction us as [|u0 rest IH];
    intros md' HU Hlen Hlv [x [Hx [Hx1 Hx2]]]; [destruct Hx|].
  cbn [units_succ ps_trail ps_reason ps_learned ps_ghost].
  destruct ((Z.abs (model_at md' u0) =? 1) && lit_false md' u0) eqn:Et; [exact HU|].
  assert (Hxr : In x rest).
  { destruct Hx as [->|Hx]; [|exact Hx]. rewrite Hx1, Hx2 in Et. cbn in Et. discriminate. }
  destruct (Z.eqb_spec (Z.abs (model_at md' u0)) 1) as [E1|E1].
  - apply IH; try assumption. exists x. split; [exact Hxr|]. split; assumption.
  - rewrite (cleanup_noop 1 tr md' rs Hlv). cbn [doomed_cf ps_model].
    assert (Hne : vidx x <> vidx u0).
    { intros E. apply E1. unfold model_at in *. rewrite <- E. exact Hx1. }
    split; [unfold push; rewrite set_nth_length; exact Hlen|].
    split; [exact HU|]. cbn [ps_lvl ps_model ps_pending]. split; [reflexivity|]. split.
    + intros j. unfold push. destruct (Nat.eq_dec j (vidx u0)) as [->|Ne].
      * destruct (Nat.lt_ge_cases (vidx u0) (List.length md')) as [Lt|Ge].
        -- rewrite nth_set_nth_same by exact Lt. rewrite signed_lvl_abs; lia.
        -- rewrite nth_overflow by (rewrite set_nth_length; exact Ge). cbn. lia.
      * rewrite nth_set_nth_neq by exact Ne. apply Hlv.
    + exists x. split; [exact Hxr|]. unfold lit_false. rewrite (model_at_push_other md' u0 1 x Hne).
      split; assumption.
Qed.

Lemma cp_empty_trail : forall md rs c,
  cutting_planes_full (State [] md rs c 1) = (CPUnsat, md).
Proof. reflexivity. Qed.

(* what a conflict step achieves *)
Definition new_fact (s s' : pstate) : Prop :=
  exists x, In x (ps_trail s') /\ Z.abs (model_at (ps_model s') x) = 1 /\
            Z.abs (model_at (ps_model s) x) <> 1.

Definition new_asserting (n : nat) (s s' : pstate) : Prop :=
  exists c' x,
    ps_ghost s' = c' :: ps_ghost s /\ ps_learned s' = c' :: ps_learned s /\
    2 <= ps_lvl s' < ps_lvl s /\
    reason_at (ps_reason s') x = Some c' /\
    Z.abs (model_at (ps_model s') x) = ps_lvl s' /\
    reason_okb n (ps_model s') c' x = true.

Definition progress (P : problem) (n : nat) (s : pstate) (cf : pconfig) : Prop :=
  match cf with
  | PFinal PUnsat => True
  | PRunning s' =>
    doom P s' \/ (ps_ghost s' = ps_ghost s /\ new_fact s s') \/ new_asserting n s s'
  | _ => False
  end.

Lemma doomed_progress : forall P n s cf, doomed_cf P n cf -> progress P n s cf.
Proof.
  intros P n s [s'|[m|]|] H; cbn [doomed_cf progress] in *; try exact I; try contradiction.
  left. exact (proj2 H).
Qed.

Section ConflictStep.
Variable P : problem.
Variable n : nat.

(* the units branch from well-formed bindings md0; md' is md0 (next unit of a
   pending list) or what cuttingPlanes left of it after an analysis that ended
   at a level >= 2 *)
Lemma units_branch_good : forall tr md0 rs L lvl G us md',
  wf n tr md0 rs lvl -> reasons_in P G rs ->
  ((forall c, In c G -> entails P c) /\ incl L G) -> facts P tr md0 ->
  (forall j, nth j md' 0 = 0 \/ nth j md' 0 = nth j md0 0) ->
  (forall j, Z.abs (nth j md0 0) = 1 -> nth j md' 0 = nth j md0 0) ->
  cleanup_bindings 1 tr md' rs = cleanup_bindings 1 tr md0 rs ->
  (forall x, In x us -> x <> 0 /\ (vidx x < n)%nat /\ entails_lit P x) ->
  (md' = md0 /\ lvl = 1) \/ (exists x, In x us /\ is_fact md' x = false) ->
  ginv P n (units_succ (PState tr md0 rs L lvl [] G) md' us) /\
  ((exists x, In x us /\ is_fact md' x = false) ->
   match units_succ (PState tr md0 rs L lvl [] G) md' us with
   | PFinal PUnsat => True
   | PRunning s' => ps_ghost s' = G /\ new_fact (PState tr md0 rs L lvl [] G) s'
   | _ => False
   end).
Proof.
  intros tr md0 rs L lvl G us. induction us as [|u rest IH];
    intros md' W HR HL HF Hmd Hmd1 Hcl Hus Hex.
  - split; [|intros [x [[] _]]].
    destruct Hex as [[-> ->]|[x [[] _]]]. cbn [units_succ ginv ps_trail ps_model ps_reason ps_learned ps_ghost].
    split; [destruct W as [W1 _]; exact W1|]. left.
    split; [exact W|]. split; [exact HR|]. split; [exact HL|]. split; [exact HF|].
    cbn [ps_pending ps_lvl ps_trail]. split; [intros x []|]. split; [intros H; congruence|reflexivity].
  - cbn [units_succ ps_trail ps_reason ps_learned ps_ghost].
    destruct (Hus u (or_introl eq_refl)) as [Hu0 [Hur Hue]].
    destruct (Z.eqb_spec (Z.abs (model_at md' u)) 1) as [E1|E1]; cbn [andb].
    + destruct (lit_false md' u) eqn:E2.
      * split; [|intros _; exact I].
        cbn [ginv]. exact (unit_false_unsat P n tr md0 md' rs lvl u W HF Hu0 Hue Hmd E1 E2).
      * assert (Hrest : forall x, In x (u :: rest) -> is_fact md' x = false -> In x rest).
        { intros x [<-|Hx] Hxf; [|exact Hx]. rewrite (skip_is_fact md' u E1), E2 in Hxf. discriminate. }
        destruct (IH md' W HR HL HF Hmd Hmd1 Hcl (fun x Hx => Hus x (or_intror Hx))) as [I1 I2].
        { destruct Hex as [Hex|[x [Hx Hxf]]]; [left; exact Hex|right; exists x; split; [apply Hrest|]; assumption]. }
        split; [exact I1|]. intros [x [Hx Hxf]]. apply I2. exists x. split; [apply Hrest|]; assumption.
    + destruct (cleanup_bindings 1 tr md' rs) as [[tr1 md1] rs1] eqn:Ec.
      destruct (unit_push_good P n tr md0 md' rs G lvl u tr1 md1 rs1 W HR HF Hu0 Hur Hue Hmd Hmd1 (eq_trans Ec Hcl) E1 Ec)
        as [W' [HR' HF']].
      split.
      * cbn [ginv ps_model]. split; [destruct W' as [W1 _]; exact W1|]. left.
        split; [exact W'|]. split; [exact HR'|]. split; [exact HL|]. split; [exact HF'|].
        cbn [ps_pending ps_lvl ps_trail]. split; [intros x Hx; apply Hus; right; exact Hx|].
        split; [reflexivity|]. intros H. destruct tr1; discriminate.
      * intros _. cbn [ps_ghost]. split; [reflexivity|]. exists u.
        cbn [ps_trail ps_model]. split; [apply in_or_app; right; left; reflexivity|]. split.
        -- assert (Hl1 : List.length md1 = n)
             by (destruct W' as [W1 _]; unfold push in W1; rewrite set_nth_length in W1; exact W1).
           rewrite model_at_push_same by (rewrite Hl1; exact Hur). rewrite signed_lvl_abs; lia.
        -- intros E. apply E1. unfold model_at in *. rewrite (Hmd1 _ E). exact E.
Qed.

Lemma conflict_good : forall tr md rs L lvl G c,
  good P n (PState tr md rs L lvl [] G) -> In c (P ++ L) -> confl_chk n md c = true ->
  ginv P n (conflict_succ (PState tr md rs L lvl [] G) c) /\
  progress P n (PState tr md rs L lvl [] G) (conflict_succ (PState tr md rs L lvl [] G) c).
Proof.
  intros tr md rs L lvl G c [W [G2 [[G3 G3'] [G4 [G5 [G6 G7]]]]]] Hc0 Hk.
  assert (Hc : In c (P ++ G)) by (apply (in_app_incl P L G c G3'); exact Hc0).
  cbn [ps_trail ps_model ps_reason ps_learned ps_lvl ps_pending ps_ghost] in *.
  set (s := PState tr md rs L lvl [] G). set (st := cp_state s c).
  assert (Hn : st_n st = n) by (destruct W as [W1 _]; exact W1).
  pose proof (wf_state_wf3b n tr md rs lvl c W Hk) as Hwf3. fold st in Hwf3.
  assert (Hwf2 : state_wf2b st = true)
    by (unfold state_wf3b in Hwf3; apply andb_true_iff in Hwf3; exact (proj1 Hwf3)).
  set (P' := P ++ G).
  assert (Htop : forall l, In l tr -> Z.abs (model_at md l) = 1 ->
                 forall m : model, sat_problem m P' = true -> lit_val m l = true).
  { intros l Hl Hlv m Hm. apply (G4 l Hl Hlv). exact (sat_app_l m P G Hm). }
  assert (HentP : forall c0, entails P' c0 -> entails P c0).
  { intros c0 H m Hm. apply H. apply sat_app; assumption. }
  pose proof (cp_sound P' st Hwf2 Hc G2 Htop) as Hs.
  pose proof (cp_total st Hwf3) as Ht.
  destruct (wf2_inv P' st Hwf2 Hc) as [HI0 [HA0 HJ0]].
  pose proof (conflict_succ_len n s c (proj1 W)) as HSL.
  unfold conflict_succ in *. fold st in HSL |- *. unfold cutting_planes in Hs, Ht.
  pose proof (loop_finish (st_n st) P' rs G2 md (cp_fuel st) (pbset_of (st_n st) c) md (rev tr) lvl) as HFin.
  change (cp_loop (cp_fuel st) (st_n st) rs (pbset_of (st_n st) c) md (rev tr) lvl)
    with (cutting_planes_full st) in HFin.
  destruct (cutting_planes_full st) as [r md'] eqn:Ecp. cbn [fst] in Hs, Ht.
  specialize (HFin r md' HI0 HA0 HJ0 eq_refl). rewrite Hn in *.
  assert (Hpanic : match r with CPPanic | CPPanicArith | CPFuel => False | _ => True end).
  { destruct tr as [|x tr0]; [|apply Ht; discriminate].
    unfold st, cp_state, s in Ecp.
    cbn [ps_trail ps_model ps_reason ps_lvl] in Ecp. rewrite (G7 eq_refl) in Ecp.
    rewrite cp_empty_trail in Ecp.
    injection Ecp as <- _. exact I. }
  destruct r as [| | | |us|c' props nl]; try (destruct Hpanic).
  - (* Unsat *) split; [|exact I]. cbn [ginv]. apply (unsat_app P G G3). exact Hs.
  - (* units *)
    destruct HFin as [pb [pre [rt' [L_ [u [F1 [F2 [F3 [F4 [F5 [F6 F7]]]]]]]]]]].
    destruct (fin_u n rs tr md lvl W pb pre rt' md' L_ u F1 F4 F5 F6) as [U1 [U2 [U3 [U4 [U5 U6]]]]].
    destruct (fin_of md pb rt' md' L_ u F4 F5 F6) as [O1 [O2 [O3 O4]]].
    assert (HL1 : 1 <= L_) by (rewrite <- O3, U1; lia).
    assert (HT' : Top P' md rt').
    { intros l Hl Hlv. apply Htop; [|exact Hlv]. apply in_rev. rewrite F1. apply in_or_app. right. exact Hl. }
    destruct (Z.eq_dec L_ 1) as [E1|E1].
    +
      assert (HU : unsatP P)
        by (apply (unsat_app P G G3); exact (fin_unsat n P' rs G2 md pb rt' md' L_ F3 F4 F5 HT' E1)).
      assert (Hlen' : List.length md' = n) by (rewrite F2, zero_list_length; exact (proj1 W)).
      assert (Hkill : Z.abs (model_at md' (- u)) = 1 /\ lit_false md' (- u) = true).
      { unfold lit_false, model_at. rewrite vidx_opp. fold (model_at md' u). split; [lia|].
        rewrite U1. destruct (Z.eqb_spec (model_at md u) 0) as [E0|E0]; [congruence|]. rewrite U3.
        destruct (Z.ltb_spec 0 u); destruct (Z.ltb_spec 0 (- u)); try reflexivity; lia. }
      assert (Hd : doomed_cf P n (units_succ s md' us)).
      { apply units_doom; [exact HU|exact Hlen'| |].
        * eapply fin_md'_levels; eassumption.
        * exists (- u). split; [|exact Hkill].
          eapply fin_units_all; try eassumption. symmetry. exact F7. }
      split; [apply doomed_ginv|apply doomed_progress]; exact Hd.
    + destruct (cp_finish_units _ _ _ _ (eq_sym F7)) as [Hne [Hnz Hnf]].
      assert (HLen : List.length (fst pb) = n) by (exact (proj1 (proj2 F3))).
      assert (Hp1 := fin_md'_nth md pre md' F2).
      assert (Hp2 : forall j, Z.abs (nth j md 0) = 1 -> nth j md' 0 = nth j md 0)
        by (eapply fin_md'_facts; try eassumption; lia).
      assert (Hp3 : cleanup_bindings 1 tr md' rs = cleanup_bindings 1 tr md rs)
        by (apply (fin_cleanup n P' rs G2 tr md pb pre rt' md' L_ u F1 F2 F4 F5 F6 1); lia).
      assert (Hp4 : forall x, In x us -> x <> 0 /\ (vidx x < n)%nat /\ entails_lit P x).
      { intros x Hx. destruct (Hnz x Hx) as [Hx0 Hxr]. rewrite HLen in Hxr.
        split; [exact Hx0|]. split; [exact Hxr|]. intros m Hm.
        specialize (Hs m (sat_app m P G Hm G3)). rewrite forallb_forall in Hs. apply Hs. exact Hx. }
      destruct (units_branch_good tr md rs L lvl G us md' W G2 (conj G3 G3') G4 Hp1 Hp2 Hp3 Hp4 (or_intror Hnf))
        as [I1 I2].
      split; [exact I1|]. specialize (I2 Hnf). fold s in I2.
      destruct (units_succ s md' us) as [s'|[m|]|]; cbn [progress]; try exact I2.
      right. left. exact I2.
  - (* a learned constraint *)
    destruct HFin as [pb [pre [rt' [L_ [u [F1 [F2 [F3 [F4 [F5 [F6 F7]]]]]]]]]]].
    destruct (fin_u n rs tr md lvl W pb pre rt' md' L_ u F1 F4 F5 F6) as [U1 [U2 [U3 [U4 [U5 U6]]]]].
    destruct (fin_of md pb rt' md' L_ u F4 F5 F6) as [O1 [O2 [O3 O4]]].
    assert (HL1 : 1 <= L_) by (rewrite <- O3, U1; lia).
    assert (HT' : Top P' md rt').
    { intros l Hl Hlv. apply Htop; [|exact Hlv]. apply in_rev. rewrite F1. apply in_or_app. right. exact Hl. }
    destruct (Z.eq_dec L_ 1) as [E1|E1].
    +
      assert (HU : unsatP P)
        by (apply (unsat_app P G G3); exact (fin_unsat n P' rs G2 md pb rt' md' L_ F3 F4 F5 HT' E1)).
      assert (Hlen' : List.length md' = n) by (rewrite F2, zero_list_length; exact (proj1 W)).
      assert (Hkill : Z.abs (model_at md' (- u)) = 1 /\ lit_false md' (- u) = true).
      { unfold lit_false, model_at. rewrite vidx_opp. fold (model_at md' u). split; [lia|].
        rewrite U1. destruct (Z.eqb_spec (model_at md u) 0) as [E0|E0]; [congruence|]. rewrite U3.
        destruct (Z.ltb_spec 0 u); destruct (Z.ltb_spec 0 (- u)); try reflexivity; lia. }
      assert (Hshape : props = [- u] /\ nl = backtrack_level md' (vidx u) pb)
        by (eapply fin_learn_shape; symmetry; exact F7).
      destruct Hshape as [-> Hnl].
      assert (Hbt : backtrack_level md' (vidx u) pb = 1) by (eapply fin_bt1; eassumption).
      rewrite Hnl, Hbt. cbn [Z.eqb Pos.eqb].
      assert (Hd : doomed_cf P n (units_succ s md' [- u])).
      { apply units_doom; [exact HU|exact Hlen'| |].
        * eapply fin_md'_levels; eassumption.
        * exists (- u). split; [left; reflexivity|exact Hkill]. }
      split; [apply doomed_ginv|apply doomed_progress]; exact Hd.
    + assert (HL2 : 2 <= L_) by lia.
      destruct (fin_learn n P' rs G2 tr md lvl W pb pre rt' md' L_ u F1 F2 F3 F4 F5 F6 c' props nl HL2 (eq_sym F7))
        as [Hprops [Hnl Hcut]].
      destruct (fin_bt n P' rs G2 md pb rt' md' L_ u F4 F5 F6 HL2) as [B1 B2]. rewrite <- Hnl in B1, B2.
      assert (Hc'e : entails P c') by (apply HentP; exact Hs).
      subst props.
      destruct (Z.eqb_spec nl 1) as [En|En].
      * (* the unit is a fact *)
        clear Hnl. subst nl.
        destruct (cleanup_bindings 1 tr md rs) as [[k md1] rs1] eqn:Ec1.
        destruct (Hcut k md1 rs1 eq_refl) as [Hfree Hrok].
        destruct (cleanup_wf n tr md rs lvl 1 k md1 rs1 W ltac:(lia) Ec1) as [W1 [d [Htr [Hm1 Hr1]]]].
        assert (HF1 : facts P k md1) by (rewrite Hm1; apply (facts_cleanup P tr md k d Htr G4)).
        destruct (free_lit_spec _ _ Hfree) as [Hx0 [Hxlt Hxz]].
        assert (Hxe : entails_lit P (- u)).
        { intros m Hm.
          assert (Hag : agrees m md1).
          { apply (facts_agree n k md1 rs1 m W1). intros y Hy Hlv. apply (HF1 y Hy Hlv m Hm). }
          apply (forced_entailed n m (push md1 (- u) 1) c' (- u) Hrok).
          - unfold push. rewrite set_nth_length. exact Hxlt.
          - exact Hx0.
          - rewrite model_at_push_same by exact Hxlt. unfold signed_lvl. destruct (0 <? - u); lia.
          - rewrite model_at_push_same by exact Hxlt. apply signed_lvl_sign; [lia|exact Hx0].
          - apply (Hc'e m Hm).
          - intros j Hj Hnz. unfold push in *. rewrite nth_set_nth_neq in * by exact Hj. apply Hag. exact Hnz. }
        assert (Hxr : (vidx (- u) < n)%nat) by (destruct W1 as [W11 _]; rewrite <- W11; exact Hxlt).
        assert (Hp1 := fin_md'_nth md pre md' F2).
        assert (Hp2 : forall j, Z.abs (nth j md 0) = 1 -> nth j md' 0 = nth j md 0)
          by (eapply fin_md'_facts; try eassumption).
        assert (Hp3 : cleanup_bindings 1 tr md' rs = cleanup_bindings 1 tr md rs)
          by (apply (fin_cleanup n P' rs G2 tr md pb pre rt' md' L_ u F1 F2 F4 F5 F6 1); lia).
        assert (Hp4 : forall x, In x [- u] -> x <> 0 /\ (vidx x < n)%nat /\ entails_lit P x)
          by (intros x [<-|[]]; split; [exact Hx0|]; split; [exact Hxr|exact Hxe]).
        assert (Hnf : exists x, In x [- u] /\ is_fact md' x = false).
        { exists (- u). split; [left; reflexivity|].
          unfold is_fact, model_at. rewrite vidx_opp. fold (model_at md' u).
          destruct (Z.eqb_spec (Z.abs (model_at md' u)) 1) as [E|E]; [lia|reflexivity]. }
        destruct (units_branch_good tr md rs L lvl G [- u] md' W G2 (conj G3 G3') G4 Hp1 Hp2 Hp3 Hp4 (or_intror Hnf))
          as [I1 I2].
        split; [exact I1|]. specialize (I2 Hnf). fold s in I2.
        destruct (units_succ s md' [- u]) as [s'|[m|]|]; cbn [progress]; try exact I2.
        right. left. exact I2.
      * (* back-jump to level nl >= 2 *)
        unfold s. cbn [ps_trail ps_reason ps_learned ps_ghost].
        rewrite (fin_cleanup n P' rs G2 tr md pb pre rt' md' L_ u F1 F2 F4 F5 F6 nl B2).
        destruct (cleanup_bindings nl tr md rs) as [[k md1] rs1] eqn:Ec1.
        destruct (Hcut k md1 rs1 eq_refl) as [Hfree Hrok].
        destruct (cleanup_wf n tr md rs lvl nl k md1 rs1 W B1 Ec1) as [W1 [d [Htr [Hm1 Hr1]]]].
        assert (HF1 : facts P k md1) by (rewrite Hm1; apply (facts_cleanup P tr md k d Htr G4)).
        assert (HR1 : reasons_in P G rs1) by (rewrite Hr1; apply reasons_in_cleanup; exact G2).
        cbn [fold_left].
        pose proof (push_wf n k md1 rs1 nl (- u) nl (Some c') W1 Hfree ltac:(lia) Hrok) as W2.
        destruct (free_lit_spec _ _ Hfree) as [Hx0 [Hxlt Hxz]].
        assert (Hprog : progress P n (PState tr md rs L lvl [] G)
                  (PRunning (PState (k ++ [- u]) (push md1 (- u) nl)
                                    (set_nth_g (vidx (- u)) (Some c') rs1) (c' :: L) nl [] (c' :: G)))).
        { cbn [progress]. right. right. exists c', (- u).
          cbn [ps_trail ps_model ps_reason ps_learned ps_lvl ps_pending ps_ghost].
          split; [reflexivity|]. split; [reflexivity|]. split.
          - destruct W as [_ [_ [_ [_ [_ [W6 _]]]]]]. specialize (W6 u U5). rewrite <- U1 in W6. lia.
          - split; [|split; [|exact Hrok]].
            + unfold reason_at. apply nth_set_nth_g_same.
              destruct W1 as [W11 [W12 _]]. rewrite W12, <- W11. exact Hxlt.
            + rewrite model_at_push_same by exact Hxlt. apply signed_lvl_abs. lia. }
        split; [|exact Hprog].
        cbn [ginv ps_model].
        split; [destruct W2 as [W21 _]; exact W21|]. left.
        split; [exact W2|]. cbn [ps_trail ps_model ps_reason ps_learned ps_lvl ps_pending ps_ghost].
        split; [|split; [|split; [|split; [|split]]]].
        -- intros i c0 Hi.
           destruct (nth_set_nth_g_cases _ rs1 (vidx (- u)) i (Some c') None) as [E|[_ E]]; rewrite E in Hi.
           ++ specialize (HR1 i c0 Hi). apply in_app_or in HR1. apply in_or_app.
              destruct HR1 as [H|H]; [left; exact H|right; right; exact H].
           ++ injection Hi as <-. apply in_or_app. right. left. reflexivity.
        -- split; [intros c0 [<-|H0]; [exact Hc'e|apply G3; exact H0]|].
           intros c0 [<-|H0]; [left; reflexivity|right; apply G3'; exact H0].
        -- apply (facts_push P n k md1 rs1 nl (- u) nl W1 Hfree HF1); [intros E; lia|lia].
        -- intros x [].
        -- intros H. congruence.
        -- intros H. destruct k; discriminate.
Qed.

End ConflictStep.

(* ------------------------------------------------------------------ *)
(* 10. every step keeps the invariant                                   *)

Lemma conflict_no_panic : forall P n tr md rs L lvl G c,
  good P n (PState tr md rs L lvl [] G) -> confl_chk n md c = true ->
  state_wf3b (cp_state (PState tr md rs L lvl [] G) c) = true /\
  match cutting_planes (cp_state (PState tr md rs L lvl [] G) c) with
  | CPPanic | CPPanicArith | CPFuel => False
  | _ => True
  end.
Proof.
  intros P n tr md rs L lvl G c [W [_ [_ [_ [_ [_ G7]]]]]] Hk.
  cbn [ps_trail ps_model ps_reason ps_learned ps_lvl ps_pending ps_ghost] in *.
  pose proof (wf_state_wf3b n tr md rs lvl c W Hk) as Hwf3. split; [exact Hwf3|].
  destruct tr as [|x tr0].
  - rewrite (G7 eq_refl). unfold cutting_planes, cp_state. cbn [ps_trail ps_model ps_reason ps_lvl].
    rewrite cp_empty_trail. exact I.
  - apply (cp_total _ Hwf3). discriminate.
Qed.

Lemma units_succ_pending : forall tr md rs L lvl pend G md' us,
  units_succ (PState tr md rs L lvl pend G) md' us = units_succ (PState tr md rs L lvl [] G) md' us.
Proof.
  intros tr md rs L lvl pend G md' us. induction us as [|u r IH]; [reflexivity|].
  cbn [units_succ ps_trail ps_reason ps_learned ps_ghost]. rewrite IH. reflexivity.
Qed.

Lemma doom_propagate : forall P tr md rs L lvl pend G l tr' rs',
  doom P (PState tr md rs L lvl pend G) -> free_lit md l = true ->
  doom P (PState tr' (push md l lvl) rs' L lvl pend G).
Proof.
  intros P tr md rs L lvl pend G l tr' rs' [HU [Hl [Hlv [x [Hx [Hx1 Hx2]]]]]] Hf.
  cbn [ps_lvl ps_model ps_pending] in *. subst lvl.
  destruct (free_lit_spec _ _ Hf) as [_ [Hlt Hz]].
  assert (Hne : vidx x <> vidx l).
  { intros E. unfold model_at in Hx1, Hz. rewrite E, Hz in Hx1. cbn in Hx1. lia. }
  split; [exact HU|]. cbn [ps_lvl ps_model ps_pending]. split; [reflexivity|]. split.
  - intros j. unfold push. destruct (Nat.eq_dec j (vidx l)) as [->|Ne].
    + rewrite nth_set_nth_same by exact Hlt. rewrite signed_lvl_abs; lia.
    + rewrite nth_set_nth_neq by exact Ne. apply Hlv.
  - exists x. split; [exact Hx|]. unfold lit_false. rewrite (model_at_push_other md l 1 x Hne).
    split; assumption.
Qed.

Lemma doom_no_pending : forall P tr md rs L lvl G, ~ doom P (PState tr md rs L lvl [] G).
Proof. intros P tr md rs L lvl G [_ [_ [_ [x [[] _]]]]]. Qed.

Lemma step_ginv : forall P n a b, ginv P n a -> pstep P n a b -> ginv P n b.
Proof.
  intros P n a b Ha Hs. inversion Hs; subst; clear Hs; cbn [ginv] in Ha; destruct Ha as [Hlen Ha];
    cbn [ps_model] in Hlen.
  - (* decide *) destruct Ha as [Ha|Ha]; [|destruct (doom_no_pending _ _ _ _ _ _ _ Ha)].
    cbn [ginv ps_model]. split; [unfold push; rewrite set_nth_length; exact Hlen|].
    left; apply step_decide; assumption.
  - (* propagate *) cbn [ginv ps_model]. split; [unfold push; rewrite set_nth_length; exact Hlen|].
    destruct Ha as [Ha|Ha]; [left; apply step_propagate; assumption|right].
    match goal with Hp : prop_chk _ _ _ _ _ = true |- _ =>
      unfold prop_chk in Hp; apply andb_true_iff in Hp; eapply doom_propagate; [exact Ha|exact (proj1 Hp)] end.
  - (* conflict *)
    destruct Ha as [Ha|Ha]; [eapply proj1; apply conflict_good; assumption|destruct (doom_no_pending _ _ _ _ _ _ _ Ha)].
  - (* next unit *)
    destruct Ha as [Ha|Ha].
    + rewrite units_succ_pending.
      destruct Ha as [W [G2 [G3 [G4 [G5 [G6 _]]]]]].
      cbn [ps_trail ps_model ps_reason ps_learned ps_lvl ps_pending ps_ghost] in *.
      apply (units_branch_good P n tr md rs L lvl G (u :: rest) md W G2 G3 G4);
        [intros j; right; reflexivity|intros j _; reflexivity|reflexivity|exact G5|].
      left. split; [reflexivity|apply G6; discriminate].
    + destruct Ha as [HU [_ [Hlv Hk]]]. cbn [ps_model ps_pending] in *.
      apply doomed_ginv. apply units_doom; assumption.
  - (* top-level conflict *) cbn [ginv].
    destruct Ha as [Ha|Ha]; [eapply step_top_conflict; eassumption|exact (proj1 Ha)].
  - (* restart *)
    destruct Ha as [Ha|Ha]; [|destruct (doom_no_pending _ _ _ _ _ _ _ Ha)].
    destruct (cleanup_bindings 1 tr md rs) as [[tr1 md1] rs1] eqn:Ec. cbn [ginv ps_model].
    split; [rewrite (cleanup_length _ _ _ _ _ _ _ Ec); exact Hlen|].
    left; eapply step_restart; eassumption.
  - (* forget *) cbn [ginv ps_model]. split; [exact Hlen|].
    destruct Ha as [Ha|Ha]; [left; eapply step_forget; eassumption|right; exact Ha].
  - (* Sat *) cbn [ginv].
    split; [unfold read_model; rewrite map_length; exact Hlen|]. intros Hv.
    apply (answer_sat_sound P n md Hlen Hv); assumption.
Qed.

Lemma run_ginv : forall P n a b, ginv P n a -> prun P n a b -> ginv P n b.
Proof.
  intros P n a b Ha Hr. induction Hr as [a|a b c Hr IH Hs]; [exact Ha|].
  eapply step_ginv; [apply IH; exact Ha|exact Hs].
Qed.

(* ------------------------------------------------------------------ *)
(* 11. the initial configuration                                        *)

Definition init_ok (P : problem) (n : nat) (units : list lit) : Prop :=
  init_free (repeat 0 n) units = true /\ forall u, In u units -> entails_lit P u.

Lemma wf_empty : forall n, wf n [] (repeat 0 n) (repeat None n) 1.
Proof.
  intros n. unfold wf. cbn [rev reasons_wfb trail_okb decisions_okb].
  rewrite !repeat_length. repeat split; try reflexivity; try lia.
  - intros j Hj. rewrite nth_repeat in Hj. congruence.
  - intros l [].
  - intros j _. apply nth_repeat.
Qed.

Lemma init_fold_wf : forall P n units tr md,
  wf n tr md (repeat None n) 1 -> facts P tr md -> init_free md units = true ->
  (forall u, In u units -> entails_lit P u) ->
  wf n (tr ++ units) (fold_left (fun m l => push m l 1) units md) (repeat None n) 1 /\
  facts P (tr ++ units) (fold_left (fun m l => push m l 1) units md).
Proof.
  intros P n units. induction units as [|u r IH]; intros tr md W HF Hfree Hu.
  - rewrite app_nil_r. split; assumption.
  - cbn [init_free] in Hfree. apply andb_true_iff in Hfree. destruct Hfree as [F1 F2].
    cbn [fold_left]. replace (tr ++ u :: r) with ((tr ++ [u]) ++ r) by (rewrite <- app_assoc; reflexivity).
    apply IH; [|  |exact F2|intros x Hx; apply Hu; right; exact Hx].
    + exact (push_wf n tr md (repeat None n) 1 u 1 None W F1 ltac:(lia) (or_introl eq_refl)).
    + apply (facts_push P n tr md (repeat None n) 1 u 1 W F1 HF); [intros _; apply Hu; left; reflexivity|lia].
Qed.

Lemma init_ginv : forall P n units, init_ok P n units -> ginv P n (init_pconfig n units).
Proof.
  intros P n units [H1 H2]. unfold init_pconfig, init_pstate. cbn [ginv ps_model].
  destruct (init_fold_wf P n units [] (repeat 0 n) (wf_empty n) (fun l (H : In l []) => match H with end) H1 H2)
    as [W HF].
  cbn [app] in W, HF.
  split; [destruct W as [W1 _]; exact W1|]. left.
  split; [exact W|]. cbn [ps_trail ps_model ps_reason ps_learned ps_lvl ps_pending ps_ghost].
  split; [intros i c Hi; rewrite nth_repeat in Hi; discriminate|].
  split; [split; [intros c []|intros c []]|].
  split; [exact HF|]. split; [intros u []|]. split; reflexivity.
Qed.

Lemma init_okb_ok : forall P n units, init_okb P n units = true -> init_ok P n units.
Proof.
  intros P n units H. unfold init_okb in H. apply andb_true_iff in H. destruct H as [H1 H2].
  split; [exact H1|]. intros u Hu m Hm. rewrite forallb_forall in H2. specialize (H2 u Hu).
  apply existsb_exists in H2. destruct H2 as [c [Hc Hp]].
  unfold prop_chk in Hp. apply andb_true_iff in Hp. destruct Hp as [Hf Hr].
  destruct (free_lit_spec _ _ Hf) as [Hu0 [Hlt Hz]].
  apply (forced_entailed n m (push (repeat 0 n) u 1) c u Hr).
  - unfold push. rewrite set_nth_length. exact Hlt.
  - exact Hu0.
  - rewrite model_at_push_same by exact Hlt. unfold signed_lvl. destruct (0 <? u); lia.
  - rewrite model_at_push_same by exact Hlt. apply signed_lvl_sign; [lia|exact Hu0].
  - unfold sat_problem in Hm. rewrite forallb_forall in Hm. apply Hm. exact Hc.
  - intros j Hj Hnz. unfold push in Hnz. rewrite nth_set_nth_neq in Hnz by exact Hj.
    rewrite nth_repeat in Hnz. congruence.
Qed.

(* ------------------------------------------------------------------ *)
(* 12. the theorems about every run                                     *)

Theorem search_pb_invariant : forall P n units s,
  init_ok P n units -> prun P n (init_pconfig n units) (PRunning s) ->
  List.length (ps_model s) = n /\ (good P n s \/ doom P s).
Proof.
  intros P n units s Hi Hr. exact (run_ginv P n _ _ (init_ginv P n units Hi) Hr).
Qed.

(* outside the units loop the invariant [good] holds, whatever the problem *)
Theorem search_pb_invariant_good : forall P n units tr md rs L lvl G,
  init_ok P n units -> prun P n (init_pconfig n units) (PRunning (PState tr md rs L lvl [] G)) ->
  good P n (PState tr md rs L lvl [] G).
Proof.
  intros P n units tr md rs L lvl G Hi Hr.
  destruct (search_pb_invariant P n units _ Hi Hr) as [_ [H|H]]; [exact H|].
  destruct (doom_no_pending _ _ _ _ _ _ _ H).
Qed.

(* [G] is the ghost component: every constraint learned so far, forgotten or not *)
Theorem search_pb_invariant_expanded : forall P n units tr md rs L lvl G,
  init_ok P n units -> prun P n (init_pconfig n units) (PRunning (PState tr md rs L lvl [] G)) ->
  wf n tr md rs lvl /\
  reasons_in P G rs /\
  (forall c, In c G -> entails P c) /\ incl L G /\
  facts P tr md.
Proof.
  intros P n units tr md rs L lvl G Hi Hr.
  destruct (search_pb_invariant_good P n units tr md rs L lvl G Hi Hr) as [H1 [H2 [[H3 H3'] [H4 _]]]].
  exact (conj H1 (conj H2 (conj H3 (conj H3' H4)))).
Qed.

(* and on a satisfiable problem it holds everywhere *)
Theorem search_pb_invariant_sat : forall P n units s (m : model),
  init_ok P n units -> sat_problem m P = true ->
  prun P n (init_pconfig n units) (PRunning s) -> good P n s.
Proof.
  intros P n units s m Hi Hm Hr. destruct (search_pb_invariant P n units s Hi Hr) as [_ [H|H]]; [exact H|].
  destruct H as [HU _]. rewrite (HU m) in Hm. discriminate.
Qed.

Theorem search_pb_unsat_sound : forall P n units,
  init_ok P n units -> prun P n (init_pconfig n units) (PFinal PUnsat) ->
  forall m : model, sat_problem m P = false.
Proof.
  intros P n units Hi Hr. exact (run_ginv P n _ _ (init_ginv P n units Hi) Hr).
Qed.

Theorem search_pb_sat_sound : forall P n units m,
  init_ok P n units -> pvars_inb n P = true ->
  prun P n (init_pconfig n units) (PFinal (PSat m)) ->
  List.length m = n /\ sat_problem m P = true.
Proof.
  intros P n units m Hi Hv Hr.
  destruct (run_ginv P n _ _ (init_ginv P n units Hi) Hr) as [H1 H2]. split; [exact H1|exact (H2 Hv)].
Qed.

(* no run crashes: cuttingPlanes never panics and never runs out of fuel *)
Theorem search_pb_no_crash : forall P n units,
  init_ok P n units -> ~ prun P n (init_pconfig n units) PCrashed.
Proof.
  intros P n units Hi Hr. exact (run_ginv P n _ _ (init_ginv P n units Hi) Hr).
Qed.

(* at every conflict of every run the state handed to cuttingPlanes meets
   state_wf3b (the hypothesis of C14_search_sound and C14_search_total) and the
   call answers: no panic, no fuel *)
Theorem search_pb_no_panic : forall P n units tr md rs L lvl G c,
  init_ok P n units ->
  prun P n (init_pconfig n units) (PRunning (PState tr md rs L lvl [] G)) ->
  In c (P ++ L) -> confl_chk n md c = true ->
  state_wf3b (cp_state (PState tr md rs L lvl [] G) c) = true /\
  match cutting_planes (cp_state (PState tr md rs L lvl [] G) c) with
  | CPPanic | CPPanicArith | CPFuel => False
  | _ => True
  end.
Proof.
  intros P n units tr md rs L lvl G c Hi Hr Hc Hk.
  apply (conflict_no_panic P n tr md rs L lvl G c); [|exact Hk].
  exact (search_pb_invariant_good P n units tr md rs L lvl G Hi Hr).
Qed.

Lemma cons_neq : forall (A : Type) (x : A) (l : list A), x :: l <> l.
Proof.
  intros A x l H. assert (E : List.length (x :: l) = List.length l) by (rewrite H; reflexivity).
  cbn in E. lia.
Qed.

(* PROGRESS (what commit 0a73d0f buys).  Every conflict step of every run either
   ends the run with Unsat, or leads to a doomed configuration (P has no model
   and the units loop ends with Unsat), or binds a NEW level-1 fact (a literal
   that was not at level 1 before) without touching the list of learned
   constraints, or learns a constraint that is asserting: after the back-jump to
   a level >= 2 below the conflict level, it is an acceptable reason
   (reason_okb) of the literal bound at that level. *)
Theorem search_pb_conflict_progress : forall P n units tr md rs L lvl G c,
  init_ok P n units ->
  prun P n (init_pconfig n units) (PRunning (PState tr md rs L lvl [] G)) ->
  In c (P ++ L) -> confl_chk n md c = true ->
  progress P n (PState tr md rs L lvl [] G) (conflict_succ (PState tr md rs L lvl [] G) c).
Proof.
  intros P n units tr md rs L lvl G c Hi Hr Hc Hk.
  apply (conflict_good P n tr md rs L lvl G c); [|exact Hc|exact Hk].
  exact (search_pb_invariant_good P n units tr md rs L lvl G Hi Hr).
Qed.

(* in particular a conflict step never leads to a configuration with the same
   learned constraints and no new fact (unless doomed) *)
Theorem search_pb_conflict_not_stationary : forall P n units tr md rs L lvl G c s',
  init_ok P n units ->
  prun P n (init_pconfig n units) (PRunning (PState tr md rs L lvl [] G)) ->
  In c (P ++ L) -> confl_chk n md c = true ->
  conflict_succ (PState tr md rs L lvl [] G) c = PRunning s' ->
  doom P s' \/ ps_ghost s' <> G \/
  exists x, In x (ps_trail s') /\ Z.abs (model_at (ps_model s') x) = 1 /\ Z.abs (model_at md x) <> 1.
Proof.
  intros P n units tr md rs L lvl G c s' Hi Hr Hc Hk E.
  pose proof (search_pb_conflict_progress P n units tr md rs L lvl G c Hi Hr Hc Hk) as Hp.
  rewrite E in Hp. cbn [progress] in Hp.
  destruct Hp as [Hp|[[_ Hp]|[c' [x [Hg _]]]]]; [left; exact Hp|right; right; exact Hp|].
  right. left. cbn [ps_ghost] in Hg. rewrite Hg. apply cons_neq.
Qed.

(* ------------------------------------------------------------------ *)
(* 13. the executable replay produces runs                              *)

Lemma terms_eqb_eq : forall a b, terms_eqb a b = true -> a = b.
Proof.
  induction a as [|[w l] a IH]; intros [|[w' l'] b] H; cbn [terms_eqb] in H; try discriminate; [reflexivity|].
  apply andb_true_iff in H. destruct H as [H1 H2]. unfold term_eqb in H1. cbn [fst snd] in H1.
  apply andb_true_iff in H1. destruct H1 as [E1 E2]. apply Z.eqb_eq in E1. apply Z.eqb_eq in E2.
  subst. f_equal. apply IH. exact H2.
Qed.

Lemma pbc_eqb_eq : forall c d, pbc_eqb c d = true -> c = d.
Proof.
  intros [ts1 d1] [ts2 d2] H. unfold pbc_eqb in H. cbn [terms degree] in H.
  apply andb_true_iff in H. destruct H as [H1 H2]. apply terms_eqb_eq in H1. apply Z.eqb_eq in H2.
  subst. reflexivity.
Qed.

Lemma pselect_mask_incl : forall (A : Type) (mask : list bool) (l : list A), incl (pselect_mask mask l) l.
Proof.
  intros A mask. induction mask as [|b ms IH]; intros l x H; [destruct H|].
  destruct l as [|y ys]; [destruct H|]. cbn [pselect_mask] in H. destruct b.
  - destruct H as [<-|H]; [left; reflexivity|right; apply IH; exact H].
  - right. apply IH. exact H.
Qed.

Lemma no_pending_spec : forall s, no_pending s = true -> ps_pending s = [].
Proof. intros s H. unfold no_pending in H. destruct (ps_pending s); [reflexivity|discriminate]. Qed.

Lemma preplay_step_sound : forall P n s k cf,
  preplay_step P n s k = Some cf -> pstep P n (PRunning s) cf.
Proof.
  intros P n [tr md rs L lvl pend G] k cf H. unfold preplay_step in H.
  cbn [ps_trail ps_model ps_reason ps_learned ps_lvl ps_pending ps_ghost] in H.
  destruct k as [l|l i|i| |i| |keep|].
  - destruct (no_pending _ && free_lit md l) eqn:E; [|discriminate]. injection H as <-.
    apply andb_true_iff in E. destruct E as [E1 E2]. apply no_pending_spec in E1. cbn in E1. subst pend.
    apply St_decide. exact E2.
  - destruct (nth_error (P ++ L) i) as [c|] eqn:Ec; [|discriminate].
    destruct (prop_chk n md c l lvl) eqn:E; [|discriminate]. injection H as <-.
    apply St_propagate; [exact (nth_error_In _ _ Ec)|exact E].
  - destruct (nth_error (P ++ L) i) as [c|] eqn:Ec; [|discriminate].
    destruct (no_pending _ && confl_chk n md c) eqn:E; [|discriminate]. injection H as <-.
    apply andb_true_iff in E. destruct E as [E1 E2]. apply no_pending_spec in E1. cbn in E1. subst pend.
    apply St_conflict; [exact (nth_error_In _ _ Ec)|exact E2].
  - destruct pend as [|u rest]; [discriminate|]. injection H as <-. apply St_next_unit.
  - destruct (nth_error (P ++ L) i) as [c|] eqn:Ec; [|discriminate].
    destruct ((lvl =? 1) && confl_chk n md c) eqn:E; [|discriminate]. injection H as <-.
    apply andb_true_iff in E. destruct E as [E1 E2]. apply Z.eqb_eq in E1. subst lvl.
    apply (St_top_conflict P n tr md rs L pend G c); [exact (nth_error_In _ _ Ec)|exact E2].
  - destruct (no_pending _) eqn:E1; [|discriminate]. injection H as <-.
    apply no_pending_spec in E1. cbn in E1. subst pend. apply St_restart.
  - injection H as <-. apply St_forget. exact (pselect_mask_incl _ keep L).
  - destruct (no_pending _ && all_assigned md && forallb (fun c => negb (falsified_by md c)) P) eqn:E;
      [|discriminate]. injection H as <-.
    apply andb_true_iff in E. destruct E as [E E3]. apply andb_true_iff in E. destruct E as [E1 E2].
    apply no_pending_spec in E1. cbn in E1. subst pend.
    apply St_answer_sat; [exact E2|]. intros c Hc. rewrite forallb_forall in E3.
    apply negb_true_iff. apply E3. exact Hc.
Qed.

Lemma preplay_from_run : forall P n ks cf0 cf cf',
  prun P n cf0 cf -> preplay_from P n cf ks = Some cf' -> prun P n cf0 cf'.
Proof.
  intros P n ks. induction ks as [|k r IH]; intros cf0 cf cf' Hr H; cbn [preplay_from] in H.
  - injection H as <-. exact Hr.
  - destruct cf as [s| |]; try discriminate.
    destruct (preplay_step P n s k) as [cf1|] eqn:E; [|discriminate].
    apply (IH cf0 cf1 cf'); [|exact H]. eapply prun_step; [exact Hr|].
    exact (preplay_step_sound P n s k cf1 E).
Qed.

Theorem replay_pb_sound : forall P n units ks cf, replay_pb P n units ks = Some cf ->
  init_ok P n units /\ prun P n (init_pconfig n units) cf.
Proof.
  intros P n units ks cf H. unfold replay_pb in H.
  destruct (init_okb P n units) eqn:E; [|discriminate].
  split; [apply init_okb_ok; exact E|]. eapply preplay_from_run; [apply prun_refl|exact H].
Qed.

Theorem replay_pb_unsat : forall P n units ks, replay_pb P n units ks = Some (PFinal PUnsat) ->
  forall m : model, sat_problem m P = false.
Proof.
  intros P n units ks H. destruct (replay_pb_sound _ _ _ _ _ H) as [Hi Hr].
  exact (search_pb_unsat_sound P n units Hi Hr).
Qed.

Theorem replay_pb_sat : forall P n units ks m, pvars_inb n P = true ->
  replay_pb P n units ks = Some (PFinal (PSat m)) -> List.length m = n /\ sat_problem m P = true.
Proof.
  intros P n units ks m Hv H. destruct (replay_pb_sound _ _ _ _ _ H) as [Hi Hr].
  exact (search_pb_sat_sound P n units m Hi Hv Hr).
Qed.

(* ------------------------------------------------------------------ *)
(* 14. problems and runs used as Examples in Properties/C14c.v          *)

(* 3 pigeons, 2 holes, with cardinality constraints: variable 2(i-1)+j is
   "pigeon i in hole j" *)
Definition ex_php : problem :=
  [card_pbc [1; 2] 1; card_pbc [3; 4] 1; card_pbc [5; 6] 1;
   card_pbc [-1; -3; -5] 2; card_pbc [-2; -4; -6] 2].
Definition ex_php_run : list pcmd :=
  [KDecide 1; KPropagate (-3) 3; KPropagate (-5) 3; KPropagate 4 1; KPropagate 6 2;
   KConflict 4;            (* cuttingPlanes: units ~x1, ~x2; ~x1 is pushed *)
   KNextUnit;              (* ~x2 is pushed *)
   KTopConflict 0].        (* x1 + x2 >= 1 is falsified at level 1 *)

(* the problem on which the code before 2aa45b5 answered Unsat
   (Eq([7 5 -1 -8 6 4],[-1 4 -1 -2 -4 -4],-5)); two constraints are learned,
   two back-jumps, then Sat *)
Definition ex_sat : problem :=
  [PBC [(4, 5); (4, -6); (4, -4); (2, 8); (1, -7); (1, 1)] 7;
   PBC [(4, -5); (4, 6); (4, 4); (2, -8); (1, 7); (1, -1)] 9].
Definition ex_sat_run1 : list pcmd :=
  [KDecide (-1); KDecide (-8); KDecide (-7); KDecide (-6); KPropagate (-5) 1; KPropagate 4 1;
   KConflict 0].           (* learns x1 + x7 + x8 >= 1, back-jump to level 3, x7 *)
Definition ex_sat_run : list pcmd :=
  ex_sat_run1 ++
  [KDecide 5; KPropagate 6 1; KPropagate 4 1;
   KConflict 0;            (* learns x1 + x8 >= 1, back-jump to level 2, x8 *)
   KForget [true; false];  (* the first learned constraint is not a reason any more *)
   KDecide (-7); KDecide 5; KPropagate 6 1; KPropagate 4 1; KDecide 2; KDecide 3; KAnswerSat].

(* the run of the real solver on the input of Proofs/CPSearch.v cp_old_diverges
   (unit fact ~x3), as observed with the tracing hooks: three calls of
   cuttingPlanes: the unit x1; the constraint 2 ~x1 + x2 + x4 + ~x5 >= 2 with a
   back-jump to level 2; the unit ~x1, false at level 1: Unsat *)
Definition ex_go : problem :=
  [PBC [(1, -3)] 1; PBC [(4, 1); (3, -4); (3, -2); (3, 5)] 8;
   PBC [(4, -1); (3, 4); (3, 2); (3, -5)] 5; PBC [(5, 5); (3, -4); (1, 1)] 2].
Definition ex_go_run : list pcmd :=
  [KDecide (-1); KPropagate (-4) 1; KPropagate (-2) 1; KPropagate 5 1; KConflict 2;
   KDecide 5; KDecide (-4); KConflict 2; KPropagate (-2) 1; KConflict 2].

(* a run that FORGETS A REASON, as the real reduceLearnedPB does: after the first
   conflict x7 is bound with the learned constraint x1 + x7 + x8 >= 1 as reason;
   that constraint is forgotten at once; the next call of cuttingPlanes resolves
   on x7 with the forgotten constraint (still in s.reason), learns x1 + x8 >= 1,
   and the search goes on to Sat *)
Definition ex_forget_run1 : list pcmd := ex_sat_run1 ++ [KForget [false]].
Definition ex_forget_run : list pcmd :=
  ex_forget_run1 ++
  [KDecide 5; KPropagate 6 1; KPropagate 4 1; KConflict 0;
   KDecide (-7); KDecide 5; KPropagate 6 1; KPropagate 4 1; KDecide 2; KDecide 3; KAnswerSat].

(* the input on which the search did not terminate before commit 0a73d0f
   (satisfiable, 7 variables; Proofs/CPSearch.v go_A, go_B) *)
Definition ex_live : problem := [go_A; go_B].
(* first conflict: the unit x4, a new fact; the configuration is then
   S = (trail [x4], level 1, nothing learned) *)
Definition ex_live_pre : list pcmd :=
  [KDecide (-1); KDecide (-7); KDecide (-6); KPropagate 4 0; KPropagate 5 0; KPropagate (-3) 0;
   KConflict 1].
(* from S: three decisions, two propagations, and the second constraint is falsified *)
Definition ex_live_dp : list pcmd :=
  [KDecide (-1); KDecide (-7); KDecide (-6); KPropagate 5 0; KPropagate (-3) 0].
(* the run of the real solver at 0a73d0f (two conflicts, then Sat) *)
Definition ex_live_run : list pcmd :=
  ex_live_pre ++
  [KDecide (-3); KDecide (-7); KDecide (-6); KPropagate 5 0; KPropagate (-1) 0;
   KConflict 1;      (* learns 2 x4 + x2 + x3 + x7 >= 4, back-jump to level 2, x7 *)
   KDecide 5; KDecide (-6); KPropagate (-1) 0; KPropagate 2 1; KAnswerSat].

(* BEFORE 0a73d0f the conflict step maps the configuration reached from S by
   ex_live_dp back to S: cuttingPlanes returns the unit x4, which is already a
   fact, and nothing else: the search can go round for ever *)
Lemma livelock_old :
  exists S s1,
    replay_pb ex_live 7 [] ex_live_pre = Some (PRunning S) /\
    preplay_from ex_live 7 (PRunning S) ex_live_dp = Some (PRunning s1) /\
    ps_pending s1 = [] /\ confl_chk 7 (ps_model s1) go_B = true /\
    fst (cutting_planes_mid_full (cp_state s1 go_B)) = CPUnits [4] /\
    conflict_succ_old s1 go_B = PRunning S.
Proof. eexists. eexists. vm_compute. repeat split. Qed.

(* AFTER: the same step learns the whole constraint, which is asserting, and
   jumps back to level 3 *)
Lemma livelock_new :
  exists S s1,
    replay_pb ex_live 7 [] ex_live_pre = Some (PRunning S) /\
    preplay_from ex_live 7 (PRunning S) ex_live_dp = Some (PRunning s1) /\
    conflict_succ s1 go_B =
      PRunning (PState [4; -1; -7; 6] [-2; 0; 0; 1; 0; 3; -3]
                 [None; None; None; None; None;
                  Some (PBC [(3, 4); (1, -1); (1, 2); (1, 5); (1, 6); (1, 7)] 7); None]
                 [PBC [(3, 4); (1, -1); (1, 2); (1, 5); (1, 6); (1, 7)] 7] 3 []
                 [PBC [(3, 4); (1, -1); (1, 2); (1, 5); (1, 6); (1, 7)] 7]).
Proof. eexists. eexists. vm_compute. repeat split. Qed.
