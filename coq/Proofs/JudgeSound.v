(* Soundness of the judges (Judge/*.v): an [Ok] verdict on (case, observables
   of the Go implementation) implies the property-level statement about those
   observables.  The statements are about the core judge functions, after
   decoding; where a judge has no separate core (C04, C05) the decoders'
   results are hypotheses. *)
From Coq Require Import List ZArith Lia Bool String NArith Permutation.
From GS Require Import Spec.Base Spec.PB Spec.Solver Spec.URef.
From GS Require Import Judge.Sx Judge.JCommon Judge.J01 Judge.J03 Judge.J04 Judge.J05 Judge.J09 Judge.J14.
Import ListNotations.
Open Scope Z_scope.
Open Scope list_scope.

(* the answer (verdict code, model) is correct for P over n variables *)
Definition solve_correct (n : nat) (P : uproblem) (vd : Z) (m : list bool) : Prop :=
  (vd = 1 /\ List.length m = n /\ sat_uproblem m P = true) \/
  (vd = 2 /\ forall m', List.length m' = n -> sat_uproblem m' P = false).

(* ------------------------------------------------------------------ *)
(* C01 / C02 / C14: judge_solve                                         *)

Theorem judge_solve_sound : forall n P vd m i,
  judge_solve n P vd m = Ok i -> solve_correct n P vd m.
Proof.
  intros n P vd m i H. unfold judge_solve in H. unfold solve_correct.
  destruct (vd =? 1) eqn:E1.
  - apply Z.eqb_eq in E1. left.
    destruct (Nat.eqb (List.length m) n) eqn:EL; cbn [negb] in H; [|discriminate].
    apply Nat.eqb_eq in EL.
    destruct (sat_uproblem m P) eqn:ES; [auto|].
    destruct (uref_solve n P); discriminate.
  - destruct (vd =? 2) eqn:E2; [|discriminate]. apply Z.eqb_eq in E2. right.
    destruct (uref_solve n P) eqn:Eu; [discriminate|].
    split; [exact E2|]. apply uref_solve_none. exact Eu.
Qed.

(* and the judge is complete: it accepts every correct answer *)
Theorem judge_solve_complete : forall n P vd m,
  solve_correct n P vd m -> exists i, judge_solve n P vd m = Ok i.
Proof.
  intros n P vd m [[-> [L S]]|[-> H]]; unfold judge_solve.
  - cbn [Z.eqb Pos.eqb]. rewrite (proj2 (Nat.eqb_eq _ _) L), S. cbn [negb]. eexists; reflexivity.
  - cbn [Z.eqb Pos.eqb]. destruct (uref_solve n P) as [m0|] eqn:E; [|eexists; reflexivity].
    apply uref_solve_some in E. destruct E as [L S]. rewrite (H m0 L) in S. discriminate.
Qed.

(* ------------------------------------------------------------------ *)
(* C03: judge_opt                                                       *)

Definition opt_correct (n : nat) (P : uproblem) (c : cost) (vd w : Z) (m : list bool) : Prop :=
  (vd = 2 /\ w = -1 /\ forall m', List.length m' = n -> sat_uproblem m' P = false) \/
  (vd = 1 /\ List.length m = n /\ sat_uproblem m P = true /\ cost_of m c = w /\
   forall m', List.length m' = n -> sat_uproblem m' P = true -> w <= cost_of m' c).

Theorem judge_opt_sound : forall n P c vd w m i,
  judge_opt n P c vd w m = Ok i -> opt_correct n P c vd w m.
Proof.
  intros n P c vd w m i H. unfold judge_opt in H. rewrite umin_spec in H. unfold umin_dec in H.
  unfold opt_correct.
  destruct (min_cost n (fun m0 => sat_uproblem m0 P) (fun m0 => cost_of m0 c)) as [best|] eqn:Em.
  - right. destruct (vd =? 2); [discriminate|].
    destruct (vd =? 1) eqn:E1; cbn [negb] in H; [|discriminate]. apply Z.eqb_eq in E1.
    destruct (Nat.eqb (List.length m) n) eqn:EL; cbn [negb] in H; [|discriminate].
    apply Nat.eqb_eq in EL.
    destruct (sat_uproblem m P) eqn:ES; cbn [negb] in H; [|discriminate].
    destruct (cost_of m c =? w) eqn:EC; cbn [negb] in H; [|discriminate]. apply Z.eqb_eq in EC.
    destruct (w =? best) eqn:EB; cbn [negb] in H; [|discriminate]. apply Z.eqb_eq in EB. subst best.
    apply min_cost_some in Em. destruct Em as [_ Hmin].
    repeat split; auto.
  - left. destruct (vd =? 2) eqn:E2.
    + apply Z.eqb_eq in E2. destruct (w =? -1) eqn:EW; [|discriminate]. apply Z.eqb_eq in EW.
      split; [exact E2|split; [exact EW|]]. apply (min_cost_none _ _ _ Em).
    + destruct (vd =? 1); discriminate.
Qed.

(* the delivered model is an optimum in the sense of Spec/Solver.v, stated on user constraints *)
Corollary judge_opt_sat_optimum : forall n P c w m i,
  judge_opt n P c 1 w m = Ok i ->
  List.length m = n /\ sat_uproblem m P = true /\ cost_of m c = w /\
  forall m', List.length m' = n -> sat_uproblem m' P = true -> cost_of m c <= cost_of m' c.
Proof.
  intros n P c w m i H. apply judge_opt_sound in H.
  destruct H as [[H _]|[_ [L [S [C M]]]]]; [discriminate|].
  repeat split; auto. rewrite C. exact M.
Qed.

(* ------------------------------------------------------------------ *)
(* C05: counting and enumeration                                        *)

Lemma eqb_bools_eq : forall a b, eqb_bools a b = true <-> a = b.
Proof.
  induction a as [|x a IH]; intros [|y b]; cbn [eqb_bools]; split; intros H; try reflexivity; try discriminate.
  - apply andb_true_iff in H. destruct H as [H1 H2]. apply eqb_prop in H1. apply IH in H2. congruence.
  - injection H as -> ->. rewrite eqb_reflx. apply IH. reflexivity.
Qed.

Lemma nodupb_NoDup : forall l, nodupb l = true -> NoDup l.
Proof.
  induction l as [|x l IH]; intros H; [constructor|]. cbn [nodupb] in H.
  apply andb_true_iff in H. destruct H as [H1 H2]. apply negb_true_iff in H1.
  constructor; [|apply IH; exact H2]. intros Hin.
  assert (existsb (eqb_bools x) l = true).
  { apply existsb_exists. exists x. split; [exact Hin|]. apply eqb_bools_eq. reflexivity. }
  congruence.
Qed.

Definition enum_correct (n : nat) (P : uproblem) (cnt en closed : Z) (models : list (list bool)) : Prop :=
  Permutation models (filter (fun m => sat_uproblem m P) (all_models n)) /\
  cnt = Z.of_nat (List.length models) /\ en = Z.of_nat (List.length models) /\ closed = 1.

Theorem judge_C05_sound : forall pb st cnt en closed ms n P models i,
  duproblem pb = Some (n, P) -> omap dbools ms = Some models ->
  judge_C05 (L [pb; L [I st; I cnt; I en; I closed; L ms]]) = Ok i ->
  maxvar_uproblem P <= Z.of_nat n /\ enum_correct n P cnt en closed models.
Proof.
  intros pb st cnt en closed ms n P models i Hd Hm H. unfold judge_C05 in H. rewrite Hd in H.
  destruct (Z.of_nat n <? maxvar_uproblem P) eqn:En; [discriminate|]. apply Z.ltb_ge in En.
  split; [exact En|].
  destruct (st =? 1); [discriminate|]. destruct (st =? 2); [discriminate|]. rewrite Hm in H.
  destruct (cnt =? Z.of_N (ucount n P)) eqn:E1; cbn [negb] in H; [|discriminate]. apply Z.eqb_eq in E1.
  destruct (en =? Z.of_N (ucount n P)) eqn:E2; cbn [negb] in H; [|discriminate]. apply Z.eqb_eq in E2.
  destruct (Z.of_nat (List.length models) =? en) eqn:E3; cbn [negb] in H; [|discriminate]. apply Z.eqb_eq in E3.
  destruct (forallb (fun m => Nat.eqb (List.length m) n) models) eqn:E4; cbn [negb] in H; [|discriminate].
  destruct (forallb (fun m => sat_uproblem m P) models) eqn:E5; cbn [negb] in H; [|discriminate].
  destruct (nodupb models) eqn:E6; cbn [negb] in H; [|discriminate].
  destruct (closed =? 1) eqn:E7; cbn [negb] in H; [|discriminate]. apply Z.eqb_eq in E7.
  unfold enum_correct. split; [|split; [lia|split; [lia|exact E7]]].
  apply NoDup_Permutation_bis.
  - apply nodupb_NoDup. exact E6.
  - rewrite ucount_spec in E2. unfold ucount_dec in E2. rewrite count_models_spec in E2. lia.
  - intros m Hin. apply filter_In. rewrite forallb_forall in E4, E5. split.
    + apply all_models_complete. apply Nat.eqb_eq. apply E4. exact Hin.
    + apply E5. exact Hin.
Qed.

(* ------------------------------------------------------------------ *)
(* C04: MaxSAT                                                          *)

Lemma maxsat_opt_spec : forall n cs,
  maxsat_opt n cs = min_cost n (fun m => sat_uproblem m (hard_of cs)) (fun m => violated m (soft_of cs)).
Proof.
  intros n cs. unfold maxsat_opt.
  rewrite (min_pruned_spec _ _ (uprune_sound (hard_of cs))). reflexivity.
Qed.

Definition maxsat_correct (n : nat) (cs : list (Z * uc)) (vd cst : Z) (m : list bool) : Prop :=
  (vd = 2 /\ forall m', List.length m' = n -> sat_uproblem m' (hard_of cs) = false) \/
  (vd = 1 /\ List.length m = n /\ sat_uproblem m (hard_of cs) = true /\
   violated m (soft_of cs) = cst /\
   forall m', List.length m' = n -> sat_uproblem m' (hard_of cs) = true ->
              cst <= violated m' (soft_of cs)).

Theorem judge_C04_sound : forall nn cs st vd cst ms keysok n cs' m i,
  dnat nn = Some n -> omap dwuc cs = Some cs' -> dbools ms = Some m ->
  judge_C04 (L [L [nn; L cs]; L [I st; I vd; I cst; ms; I keysok]]) = Ok i ->
  maxvar_uproblem (map snd cs') <= Z.of_nat n /\
  (forall wc, In wc cs' -> 0 <= fst wc) /\
  maxsat_correct n cs' vd cst m /\
  (vd = 1 -> keysok = 1) /\
  (vd = 2 <-> forall m', List.length m' = n -> sat_uproblem m' (hard_of cs') = false).
Proof.
  intros nn cs st vd cst ms keysok n cs' m i Hn Hc Hm H. unfold judge_C04 in H.
  rewrite Hn, Hc, Hm in H.
  destruct (Z.of_nat n <? maxvar_uproblem (map snd cs')) eqn:En; [discriminate|]. apply Z.ltb_ge in En.
  destruct (existsb (fun wc => fst wc <? 0) cs') eqn:Ew; [discriminate|].
  split; [exact En|]. split.
  { intros wc Hin. destruct (fst wc <? 0) eqn:E; [|apply Z.ltb_ge in E; exact E].
    assert (existsb (fun wc => fst wc <? 0) cs' = true) by (apply existsb_exists; exists wc; auto).
    congruence. }
  unfold status_fail in H. destruct (st =? 1); [discriminate|]. destruct (st =? 2); [discriminate|].
  rewrite maxsat_opt_spec in H. unfold maxsat_correct.
  destruct (min_cost n _ _) as [best|] eqn:Eb.
  - destruct (vd =? 2) eqn:E2; [discriminate|]. apply Z.eqb_neq in E2.
    destruct (vd =? 1) eqn:E1; cbn [negb] in H; [|discriminate]. apply Z.eqb_eq in E1.
    destruct (Nat.eqb (List.length m) n) eqn:EL; cbn [negb] in H; [|discriminate]. apply Nat.eqb_eq in EL.
    destruct (keysok =? 1) eqn:EK; cbn [negb] in H; [|discriminate]. apply Z.eqb_eq in EK.
    destruct (sat_uproblem m (hard_of cs')) eqn:ES; cbn [negb] in H; [|discriminate].
    destruct (violated m (soft_of cs') =? cst) eqn:EV; cbn [negb] in H; [|discriminate]. apply Z.eqb_eq in EV.
    destruct (cst =? best) eqn:EB; cbn [negb] in H; [|discriminate]. apply Z.eqb_eq in EB. subst best.
    apply min_cost_some in Eb. destruct Eb as [_ Hmin].
    split; [right; repeat split; auto|]. split; [intros _; exact EK|].
    split; [intros A; contradiction|]. intros A. rewrite (A m EL) in ES. discriminate.
  - pose proof (min_cost_none _ _ _ Eb) as Hnone.
    destruct (vd =? 2) eqn:E2.
    + apply Z.eqb_eq in E2. split; [left; split; assumption|].
      split; [intros A; lia|]. split; [intros _; exact Hnone|intros _; exact E2].
    + destruct (vd =? 1); discriminate.
Qed.

(* ------------------------------------------------------------------ *)
(* C14: entailment of a learned constraint                              *)

Lemma sat_uproblem_app : forall m P Q, sat_uproblem m (P ++ Q) = sat_uproblem m P && sat_uproblem m Q.
Proof. intros. unfold sat_uproblem. apply forallb_app. Qed.

Lemma no_model_with : forall n P c, uref_solve n (P ++ [c]) = None ->
  forall m, List.length m = n -> sat_uproblem m P = true -> sat_uc m c = false.
Proof.
  intros n P c H m L S. pose proof (uref_solve_none _ _ H m L) as E.
  rewrite sat_uproblem_app, S in E. cbn [sat_uproblem forallb andb] in E.
  rewrite andb_true_r in E. exact E.
Qed.

Theorem entailed_sound : forall n P c, entailed n P c = true ->
  forall m, List.length m = n -> sat_uproblem m P = true -> sat_uc m c = true.
Proof.
  intros n P c H m L S. unfold entailed in H. unfold sat_uc.
  destruct (u_rel c).
  - destruct (uref_solve n (P ++ [UC (u_terms c) Le (u_rhs c - 1)])) eqn:E; [discriminate|].
    pose proof (no_model_with _ _ _ E m L S) as X. unfold sat_uc in X. cbn [u_rel u_terms u_rhs] in X.
    apply Z.leb_gt in X. apply Z.leb_le. lia.
  - destruct (uref_solve n (P ++ [UC (u_terms c) Ge (u_rhs c + 1)])) eqn:E; [discriminate|].
    pose proof (no_model_with _ _ _ E m L S) as X. unfold sat_uc in X. cbn [u_rel u_terms u_rhs] in X.
    apply Z.leb_gt in X. apply Z.leb_le. lia.
  - destruct (uref_solve n (P ++ [UC (u_terms c) Le (u_rhs c - 1)])) eqn:E1; [discriminate|].
    destruct (uref_solve n (P ++ [UC (u_terms c) Ge (u_rhs c + 1)])) eqn:E2; [discriminate|].
    pose proof (no_model_with _ _ _ E1 m L S) as X1. pose proof (no_model_with _ _ _ E2 m L S) as X2.
    unfold sat_uc in X1, X2. cbn [u_rel u_terms u_rhs] in X1, X2.
    apply Z.leb_gt in X1. apply Z.leb_gt in X2. apply Z.eqb_eq. lia.
Qed.

Theorem first_not_entailed_sound : forall n P cs k, first_not_entailed n P cs k = None ->
  forall c, In c cs -> forall m, List.length m = n -> sat_uproblem m P = true -> sat_uc m c = true.
Proof.
  intros n P. induction cs as [|c0 cs IH]; intros k H c Hin; [destruct Hin|].
  cbn [first_not_entailed] in H. destruct (entailed n P c0) eqn:E; [|discriminate].
  destruct Hin as [<-|Hin]; [apply entailed_sound; exact E|apply (IH _ H c Hin)].
Qed.
