(* Soundness of the judges (Judge/*.v): an [Ok] verdict on (case, observables
   of the Go implementation) implies the property-level statement about those
   observables.  The statements are about the core judge functions, after
   decoding; where a judge has no separate core (C04, C05) the decoders'
   results are hypotheses. *)
From Coq Require Import List ZArith Lia Bool String NArith Permutation.
From GS Require Import Spec.Base Spec.PB Spec.Solver Spec.URef.
From GS Require Import Judge.Sx Judge.JCommon Judge.J01 Judge.J03 Judge.J04 Judge.J05 Judge.J09 Judge.J14.
From GS Require Import Proofs.Solve.
From GS Require Proofs.Rup Proofs.PBNorm.
From GS Require Import Model.Rup.
From GS Require Import Judge.J11.
Import ListNotations.
Open Scope Z_scope.
Open Scope list_scope.

(* the answer (verdict code, model) is correct for P over n variables *)
Definition solve_correct (n : nat) (P : uproblem) (vd : Z) (m : list bool) : Prop :=
  (vd = 1 /\ List.length m = n /\ sat_uproblem m P = true) \/
  (vd = 2 /\ forall m', List.length m' = n -> sat_uproblem m' P = false).

(* ------------------------------------------------------------------ *)
(* C01 / C02 / C14: judge_solve                                         *)

Theorem judge_solve_sound : forall n P vd m i,
  judge_solve n P vd m = Ok i -> solve_correct n P vd m.
Proof.
  intros n P vd m i H. unfold judge_solve in H. unfold solve_correct.
  destruct (vd =? 1) eqn:E1.
  - apply Z.eqb_eq in E1. left.
    destruct (Nat.eqb (List.length m) n) eqn:EL; cbn [negb] in H; [|discriminate].
    apply Nat.eqb_eq in EL.
    destruct (sat_uproblem m P) eqn:ES; [auto|].
    destruct (uref_solve n P); discriminate.
  - destruct (vd =? 2) eqn:E2; [|discriminate]. apply Z.eqb_eq in E2. right.
    destruct (uref_solve n P) eqn:Eu; [discriminate|].
    split; [exact E2|]. apply uref_solve_none. exact Eu.
Qed.

(* and the judge is complete: it accepts every correct answer *)
Theorem judge_solve_complete : forall n P vd m,
  solve_correct n P vd m -> exists i, judge_solve n P vd m = Ok i.
Proof.
  intros n P vd m [[-> [L S]]|[-> H]]; unfold judge_solve.
  - cbn [Z.eqb Pos.eqb]. rewrite (proj2 (Nat.eqb_eq _ _) L), S. cbn [negb]. eexists; reflexivity.
  - cbn [Z.eqb Pos.eqb]. destruct (uref_solve n P) as [m0|] eqn:E; [|eexists; reflexivity].
    apply uref_solve_some in E. destruct E as [L S]. rewrite (H m0 L) in S. discriminate.
Qed.

(* ------------------------------------------------------------------ *)
(* C03: judge_opt                                                       *)

Definition opt_correct (n : nat) (P : uproblem) (c : cost) (vd w : Z) (m : list bool) : Prop :=
  (vd = 2 /\ w = -1 /\ forall m', List.length m' = n -> sat_uproblem m' P = false) \/
  (vd = 1 /\ List.length m = n /\ sat_uproblem m P = true /\ cost_of m c = w /\
   forall m', List.length m' = n -> sat_uproblem m' P = true -> w <= cost_of m' c).

Theorem judge_opt_sound : forall n P c vd w m i,
  judge_opt n P c vd w m = Ok i -> opt_correct n P c vd w m.
Proof.
  intros n P c vd w m i H. unfold judge_opt in H. rewrite umin_spec in H. unfold umin_dec in H.
  unfold opt_correct.
  destruct (min_cost n (fun m0 => sat_uproblem m0 P) (fun m0 => cost_of m0 c)) as [best|] eqn:Em.
  - right. destruct (vd =? 2); [discriminate|].
    destruct (vd =? 1) eqn:E1; cbn [negb] in H; [|discriminate]. apply Z.eqb_eq in E1.
    destruct (Nat.eqb (List.length m) n) eqn:EL; cbn [negb] in H; [|discriminate].
    apply Nat.eqb_eq in EL.
    destruct (sat_uproblem m P) eqn:ES; cbn [negb] in H; [|discriminate].
    destruct (cost_of m c =? w) eqn:EC; cbn [negb] in H; [|discriminate]. apply Z.eqb_eq in EC.
    destruct (w =? best) eqn:EB; cbn [negb] in H; [|discriminate]. apply Z.eqb_eq in EB. subst best.
    apply min_cost_some in Em. destruct Em as [_ Hmin].
    repeat split; auto.
  - left. destruct (vd =? 2) eqn:E2.
    + apply Z.eqb_eq in E2. destruct (w =? -1) eqn:EW; [|discriminate]. apply Z.eqb_eq in EW.
      split; [exact E2|split; [exact EW|]]. apply (min_cost_none _ _ _ Em).
    + destruct (vd =? 1); discriminate.
Qed.

(* the delivered model is an optimum in the sense of Spec/Solver.v, stated on user constraints *)
Corollary judge_opt_sat_optimum : forall n P c w m i,
  judge_opt n P c 1 w m = Ok i ->
  List.length m = n /\ sat_uproblem m P = true /\ cost_of m c = w /\
  forall m', List.length m' = n -> sat_uproblem m' P = true -> cost_of m c <= cost_of m' c.
Proof.
  intros n P c w m i H. apply judge_opt_sound in H.
  destruct H as [[H _]|[_ [L [S [C M]]]]]; [discriminate|].
  repeat split; auto. rewrite C. exact M.
Qed.

(* ------------------------------------------------------------------ *)
(* C05: counting and enumeration                                        *)

Lemma eqb_bools_eq : forall a b, eqb_bools a b = true <-> a = b.
Proof.
  induction a as [|x a IH]; intros [|y b]; cbn [eqb_bools]; split; intros H; try reflexivity; try discriminate.
  - apply andb_true_iff in H. destruct H as [H1 H2]. apply eqb_prop in H1. apply IH in H2. congruence.
  - injection H as -> ->. rewrite eqb_reflx. apply IH. reflexivity.
Qed.

Lemma nodupb_NoDup : forall l, nodupb l = true -> NoDup l.
Proof.
  induction l as [|x l IH]; intros H; [constructor|]. cbn [nodupb] in H.
  apply andb_true_iff in H. destruct H as [H1 H2]. apply negb_true_iff in H1.
  constructor; [|apply IH; exact H2]. intros Hin.
  assert (existsb (eqb_bools x) l = true).
  { apply existsb_exists. exists x. split; [exact Hin|]. apply eqb_bools_eq. reflexivity. }
  congruence.
Qed.

Definition enum_correct (n : nat) (P : uproblem) (cnt en closed : Z) (models : list (list bool)) : Prop :=
  Permutation models (filter (fun m => sat_uproblem m P) (all_models n)) /\
  cnt = Z.of_nat (List.length models) /\ en = Z.of_nat (List.length models) /\ closed = 1.

Theorem judge_C05_sound : forall pb st cnt en closed ms n P models i,
  duproblem pb = Some (n, P) -> omap dbools ms = Some models ->
  judge_C05 (L [pb; L [I st; I cnt; I en; I closed; L ms]]) = Ok i ->
  maxvar_uproblem P <= Z.of_nat n /\ enum_correct n P cnt en closed models.
Proof.
  intros pb st cnt en closed ms n P models i Hd Hm H. unfold judge_C05 in H. rewrite Hd in H.
  destruct (Z.of_nat n <? maxvar_uproblem P) eqn:En; [discriminate|]. apply Z.ltb_ge in En.
  split; [exact En|].
  destruct (st =? 1); [discriminate|]. destruct (st =? 2); [discriminate|]. rewrite Hm in H.
  destruct (cnt =? Z.of_N (ucount n P)) eqn:E1; cbn [negb] in H; [|discriminate]. apply Z.eqb_eq in E1.
  destruct (en =? Z.of_N (ucount n P)) eqn:E2; cbn [negb] in H; [|discriminate]. apply Z.eqb_eq in E2.
  destruct (Z.of_nat (List.length models) =? en) eqn:E3; cbn [negb] in H; [|discriminate]. apply Z.eqb_eq in E3.
  destruct (forallb (fun m => Nat.eqb (List.length m) n) models) eqn:E4; cbn [negb] in H; [|discriminate].
  destruct (forallb (fun m => sat_uproblem m P) models) eqn:E5; cbn [negb] in H; [|discriminate].
  destruct (nodupb models) eqn:E6; cbn [negb] in H; [|discriminate].
  destruct (closed =? 1) eqn:E7; cbn [negb] in H; [|discriminate]. apply Z.eqb_eq in E7.
  unfold enum_correct. split; [|split; [lia|split; [lia|exact E7]]].
  apply NoDup_Permutation_bis.
  - apply nodupb_NoDup. exact E6.
  - rewrite ucount_spec in E2. unfold ucount_dec in E2. rewrite count_models_spec in E2. lia.
  - intros m Hin. apply filter_In. rewrite forallb_forall in E4, E5. split.
    + apply all_models_complete. apply Nat.eqb_eq. apply E4. exact Hin.
    + apply E5. exact Hin.
Qed.

(* ------------------------------------------------------------------ *)
(* C04: MaxSAT                                                          *)

Lemma maxsat_opt_spec : forall n cs,
  maxsat_opt n cs = min_cost n (fun m => sat_uproblem m (hard_of cs)) (fun m => violated m (soft_of cs)).
Proof.
  intros n cs. unfold maxsat_opt.
  rewrite (min_pruned_spec _ _ (uprune_sound (hard_of cs))). reflexivity.
Qed.

Definition maxsat_correct (n : nat) (cs : list (Z * uc)) (vd cst : Z) (m : list bool) : Prop :=
  (vd = 2 /\ forall m', List.length m' = n -> sat_uproblem m' (hard_of cs) = false) \/
  (vd = 1 /\ List.length m = n /\ sat_uproblem m (hard_of cs) = true /\
   violated m (soft_of cs) = cst /\
   forall m', List.length m' = n -> sat_uproblem m' (hard_of cs) = true ->
              cst <= violated m' (soft_of cs)).

Theorem judge_C04_sound : forall nn cs st vd cst ms keysok n cs' m i,
  dnat nn = Some n -> omap dwuc cs = Some cs' -> dbools ms = Some m ->
  judge_C04 (L [L [nn; L cs]; L [I st; I vd; I cst; ms; I keysok]]) = Ok i ->
  maxvar_uproblem (map snd cs') <= Z.of_nat n /\
  (forall wc, In wc cs' -> 0 <= fst wc) /\
  maxsat_correct n cs' vd cst m /\
  (vd = 1 -> keysok = 1) /\
  (vd = 2 <-> forall m', List.length m' = n -> sat_uproblem m' (hard_of cs') = false).
Proof.
  intros nn cs st vd cst ms keysok n cs' m i Hn Hc Hm H. unfold judge_C04 in H.
  rewrite Hn, Hc, Hm in H.
  destruct (Z.of_nat n <? maxvar_uproblem (map snd cs')) eqn:En; [discriminate|]. apply Z.ltb_ge in En.
  destruct (existsb (fun wc => fst wc <? 0) cs') eqn:Ew; [discriminate|].
  split; [exact En|]. split.
  { intros wc Hin. destruct (fst wc <? 0) eqn:E; [|apply Z.ltb_ge in E; exact E].
    assert (existsb (fun wc => fst wc <? 0) cs' = true) by (apply existsb_exists; exists wc; auto).
    congruence. }
  unfold status_fail in H. destruct (st =? 1); [discriminate|]. destruct (st =? 2); [discriminate|].
  rewrite maxsat_opt_spec in H. unfold maxsat_correct.
  destruct (min_cost n _ _) as [best|] eqn:Eb.
  - destruct (vd =? 2) eqn:E2; [discriminate|]. apply Z.eqb_neq in E2.
    destruct (vd =? 1) eqn:E1; cbn [negb] in H; [|discriminate]. apply Z.eqb_eq in E1.
    destruct (Nat.eqb (List.length m) n) eqn:EL; cbn [negb] in H; [|discriminate]. apply Nat.eqb_eq in EL.
    destruct (keysok =? 1) eqn:EK; cbn [negb] in H; [|discriminate]. apply Z.eqb_eq in EK.
    destruct (sat_uproblem m (hard_of cs')) eqn:ES; cbn [negb] in H; [|discriminate].
    destruct (violated m (soft_of cs') =? cst) eqn:EV; cbn [negb] in H; [|discriminate]. apply Z.eqb_eq in EV.
    destruct (cst =? best) eqn:EB; cbn [negb] in H; [|discriminate]. apply Z.eqb_eq in EB. subst best.
    apply min_cost_some in Eb. destruct Eb as [_ Hmin].
    split; [right; repeat split; auto|]. split; [intros _; exact EK|].
    split; [intros A; contradiction|]. intros A. rewrite (A m EL) in ES. discriminate.
  - pose proof (min_cost_none _ _ _ Eb) as Hnone.
    destruct (vd =? 2) eqn:E2.
    + apply Z.eqb_eq in E2. split; [left; split; assumption|].
      split; [intros A; lia|]. split; [intros _; exact Hnone|intros _; exact E2].
    + destruct (vd =? 1); discriminate.
Qed.

(* ------------------------------------------------------------------ *)
(* C14: entailment of a learned constraint                              *)

Lemma sat_uproblem_app : forall m P Q, sat_uproblem m (P ++ Q) = sat_uproblem m P && sat_uproblem m Q.
Proof. intros. unfold sat_uproblem. apply forallb_app. Qed.

Lemma no_model_with : forall n P c, uref_solve n (P ++ [c]) = None ->
  forall m, List.length m = n -> sat_uproblem m P = true -> sat_uc m c = false.
Proof.
  intros n P c H m L S. pose proof (uref_solve_none _ _ H m L) as E.
  rewrite sat_uproblem_app, S in E. cbn [sat_uproblem forallb andb] in E.
  rewrite andb_true_r in E. exact E.
Qed.

Theorem entailed_sound : forall n P c, entailed n P c = true ->
  forall m, List.length m = n -> sat_uproblem m P = true -> sat_uc m c = true.
Proof.
  intros n P c H m L S. unfold entailed in H. unfold sat_uc.
  destruct (u_rel c).
  - destruct (uref_solve n (P ++ [UC (u_terms c) Le (u_rhs c - 1)])) eqn:E; [discriminate|].
    pose proof (no_model_with _ _ _ E m L S) as X. unfold sat_uc in X. cbn [u_rel u_terms u_rhs] in X.
    apply Z.leb_gt in X. apply Z.leb_le. lia.
  - destruct (uref_solve n (P ++ [UC (u_terms c) Ge (u_rhs c + 1)])) eqn:E; [discriminate|].
    pose proof (no_model_with _ _ _ E m L S) as X. unfold sat_uc in X. cbn [u_rel u_terms u_rhs] in X.
    apply Z.leb_gt in X. apply Z.leb_le. lia.
  - destruct (uref_solve n (P ++ [UC (u_terms c) Le (u_rhs c - 1)])) eqn:E1; [discriminate|].
    destruct (uref_solve n (P ++ [UC (u_terms c) Ge (u_rhs c + 1)])) eqn:E2; [discriminate|].
    pose proof (no_model_with _ _ _ E1 m L S) as X1. pose proof (no_model_with _ _ _ E2 m L S) as X2.
    unfold sat_uc in X1, X2. cbn [u_rel u_terms u_rhs] in X1, X2.
    apply Z.leb_gt in X1. apply Z.leb_gt in X2. apply Z.eqb_eq. lia.
Qed.

Theorem first_not_entailed_sound : forall n P cs k, first_not_entailed n P cs k = None ->
  forall c, In c cs -> forall m, List.length m = n -> sat_uproblem m P = true -> sat_uc m c = true.
Proof.
  intros n P. induction cs as [|c0 cs IH]; intros k H c Hin; [destruct Hin|].
  cbn [first_not_entailed] in H. destruct (entailed n P c0) eqn:E; [|discriminate].
  destruct Hin as [<-|Hin]; [apply entailed_sound; exact E|apply (IH _ H c Hin)].
Qed.

(* ------------------------------------------------------------------ *)
(* C09 / C10: histories                                                 *)

Lemma maxvar_terms_ge : forall ts t, In t ts -> Z.abs (snd t) <= maxvar_terms ts.
Proof.
  induction ts as [|x ts IH]; intros t H; [destruct H|]. cbn [maxvar_terms].
  destruct H as [<-|H]; [apply Z.le_max_l|].
  apply (Z.le_trans _ _ _ (IH t H)). apply Z.le_max_r.
Qed.

Lemma maxvar_terms_nonneg : forall ts, 0 <= maxvar_terms ts.
Proof.
  induction ts as [|x ts IH]; cbn [maxvar_terms]; [lia|].
  apply (Z.le_trans _ _ _ IH). apply Z.le_max_r.
Qed.

Lemma maxvar_uproblem_nonneg : forall P, 0 <= maxvar_uproblem P.
Proof. induction P as [|c P IH]; cbn [maxvar_uproblem]; [lia|]. pose proof (maxvar_terms_nonneg (u_terms c)). lia. Qed.

Lemma maxvar_uproblem_app : forall P Q,
  maxvar_uproblem (P ++ Q) = Z.max (maxvar_uproblem P) (maxvar_uproblem Q).
Proof.
  induction P as [|c P IH]; intros Q; cbn [app maxvar_uproblem].
  - pose proof (maxvar_uproblem_nonneg Q). lia.
  - rewrite IH. lia.
Qed.

Lemma sat_uc_fit : forall N m c, wf_uc c -> maxvar_terms (u_terms c) <= Z.of_nat N ->
  sat_uc (fit N m) c = sat_uc m c.
Proof.
  intros N m c Hwf Hm. unfold sat_uc. rewrite lhs_fit; [reflexivity|].
  intros l Hl. split; [apply (Hwf l Hl)|].
  apply in_map_iff in Hl. destruct Hl as [t [<- Ht]].
  apply (Z.le_trans _ _ _ (maxvar_terms_ge _ t Ht)). exact Hm.
Qed.

Lemma sat_uproblem_fit : forall N m P, Forall wf_uc P -> maxvar_uproblem P <= Z.of_nat N ->
  sat_uproblem (fit N m) P = sat_uproblem m P.
Proof.
  intros N m P. unfold sat_uproblem. induction P as [|c P IH]; intros Hwf Hm; [reflexivity|].
  inversion Hwf as [|? ? Hc HP]; subst. cbn [maxvar_uproblem] in Hm.
  pose proof (maxvar_uproblem_nonneg P). pose proof (maxvar_terms_nonneg (u_terms c)).
  cbn [forallb]. rewrite IH by (try assumption; lia). rewrite sat_uc_fit by (try assumption; lia).
  reflexivity.
Qed.

(* an Unsat verdict over n variables excludes models of every length when the
   problem only mentions variables 1..n *)
Lemma unsat_any_length : forall n P, Forall wf_uc P -> maxvar_uproblem P <= Z.of_nat n ->
  (forall m, List.length m = n -> sat_uproblem m P = false) -> forall m, sat_uproblem m P = false.
Proof.
  intros n P Hwf Hm H. apply (no_model_any_length (fun m => sat_uproblem m P) n); [|exact H].
  intros m. apply sat_uproblem_fit; assumption.
Qed.

Definition wf_hop (o : hop) : Prop := match o with HSolve => True | HAdd c => wf_uc c end.

(* every answered Solve is correct for the conjunction of the constraints
   added so far, over the variables seen so far *)
Fixpoint history_correct (n : nat) (P : uproblem) (ops : list hop) (answers : list (Z * list bool)) : Prop :=
  match ops with
  | [] => answers = []
  | HAdd c :: r =>
      history_correct (Nat.max n (Z.to_nat (maxvar_terms (u_terms c)))) (P ++ [c]) r answers
  | HSolve :: r =>
      match answers with
      | [] => False
      | (vd, m) :: ar => solve_correct n P vd m /\ history_correct n P r ar
      end
  end.

(* after an Unsat answer every later answer is Unsat *)
Fixpoint sticky (dead : bool) (ops : list hop) (answers : list (Z * list bool)) : Prop :=
  match ops with
  | [] => True
  | HAdd _ :: r => sticky dead r answers
  | HSolve :: r =>
      match answers with
      | [] => True
      | (vd, _) :: ar => (dead = true -> vd = 2) /\ sticky (dead || (vd =? 2)) r ar
      end
  end.

Theorem judge_history_sound : forall ops n P dead ans k i,
  judge_history n P dead ops ans k = Ok i ->
  Forall wf_uc P -> Forall wf_hop ops -> maxvar_uproblem P <= Z.of_nat n ->
  (dead = true -> forall m, sat_uproblem m P = false) ->
  history_correct n P ops ans /\ sticky dead ops ans.
Proof.
  induction ops as [|o ops IH]; intros n P dead ans k i H HwfP Hops Hmax Hdead.
  - cbn [judge_history] in H. destruct ans; [|discriminate]. split; [reflexivity|exact Logic.I].
  - inversion Hops as [|? ? Ho Hr]; subst. destruct o as [|c].
    + cbn [judge_history] in H. destruct ans as [|[vd m] ar]; [discriminate|].
      cbn [history_correct sticky]. destruct dead.
      * destruct (vd =? 2) eqn:E2; [|discriminate]. apply Z.eqb_eq in E2.
        destruct (IH _ _ _ _ _ _ H HwfP Hr Hmax Hdead) as [A B].
        split; [split; [|exact A]|split; [intros _; exact E2|exact B]].
        right. split; [exact E2|]. intros m' _. apply Hdead. reflexivity.
      * destruct (judge_solve n P vd m) as [j| |] eqn:Ej; try discriminate.
        pose proof (judge_solve_sound _ _ _ _ _ Ej) as Hc.
        assert (Hd' : (vd =? 2) = true -> forall m0, sat_uproblem m0 P = false).
        { intros E2. apply Z.eqb_eq in E2. destruct Hc as [[E1 _]|[_ Hc]]; [lia|].
          apply (unsat_any_length n P HwfP Hmax Hc). }
        destruct (IH _ _ _ _ _ _ H HwfP Hr Hmax Hd') as [A B].
        split; [split; assumption|split; [discriminate|exact B]].
    + cbn [judge_history] in H. cbn [history_correct sticky]. cbn [wf_hop] in Ho.
      apply (IH _ _ _ _ _ _ H).
      * apply Forall_app. split; [exact HwfP|constructor; [exact Ho|constructor]].
      * exact Hr.
      * rewrite maxvar_uproblem_app. cbn [maxvar_uproblem].
        pose proof (maxvar_terms_nonneg (u_terms c)). lia.
      * intros Hd m. rewrite sat_uproblem_app, (Hdead Hd m). reflexivity.
Qed.

(* the top-level call: dead = false *)
Corollary judge_history_top : forall ops n P ans i,
  judge_history n P false ops ans 0 = Ok i ->
  Forall wf_uc P -> Forall wf_hop ops -> maxvar_uproblem P <= Z.of_nat n ->
  history_correct n P ops ans /\ sticky false ops ans.
Proof.
  intros ops n P ans i H H1 H2 H3. apply (judge_history_sound _ _ _ _ _ _ _ H H1 H2 H3). discriminate.
Qed.

(* what the decoders deliver is well formed *)
Lemma omap_Forall : forall (A B : Type) (f : A -> option B) (Q : B -> Prop),
  (forall a b, f a = Some b -> Q b) -> forall l l', omap f l = Some l' -> Forall Q l'.
Proof.
  intros A B f Q Hf. induction l as [|a l IH]; intros l' H; cbn [omap] in H.
  - injection H as <-. constructor.
  - destruct (f a) as [b|] eqn:Ea; [|discriminate]. destruct (omap f l) as [bs|]; [|discriminate].
    injection H as <-. constructor; [apply (Hf a b Ea)|apply IH; reflexivity].
Qed.

Lemma dterm_wf : forall s t, dterm s = Some t -> snd t <> 0.
Proof.
  intros s t H. unfold dterm in H.
  destruct s as [z|[|[w|?] [|[l|?] [|? ?]]]]; try discriminate.
  destruct (l =? 0) eqn:E; [discriminate|]. injection H as <-. apply Z.eqb_neq in E. exact E.
Qed.

Lemma duc_wf : forall s c, duc s = Some c -> wf_uc c.
Proof.
  intros s c H. unfold duc in H.
  destruct s as [z|[|[r|?] [|[rhs|?] ts]]]; try discriminate.
  destruct (drel r); [|discriminate]. destruct (omap dterm ts) as [ts'|] eqn:E; [|discriminate].
  injection H as <-. unfold wf_uc. cbn [u_terms].
  pose proof (omap_Forall _ _ dterm (fun t => snd t <> 0) dterm_wf ts ts' E) as HF.
  intros l Hl. apply in_map_iff in Hl. destruct Hl as [t [<- Ht]].
  rewrite Forall_forall in HF. apply HF. exact Ht.
Qed.

Lemma duproblem_wf : forall s n P, duproblem s = Some (n, P) -> Forall wf_uc P.
Proof.
  intros s n P H. unfold duproblem in H.
  destruct s as [z|[|nn [|[?|cs] [|? ?]]]]; try discriminate.
  destruct (dnat nn); [|discriminate]. destruct (omap duc cs) as [cs'|] eqn:E; [|discriminate].
  injection H as _ <-. apply (omap_Forall _ _ duc wf_uc duc_wf cs cs' E).
Qed.

Lemma dhop_wf : forall s o, dhop s = Some o -> wf_hop o.
Proof.
  intros s o H. unfold dhop in H.
  destruct s as [z|[|[z|?] rest]]; try discriminate.
  destruct z as [|p|p]; [destruct rest; [injection H as <-; exact Logic.I|discriminate]| |discriminate].
  destruct p; try discriminate.
  destruct (duc (L rest)) as [c|] eqn:E; [|discriminate]. injection H as <-. apply (duc_wf _ _ E).
Qed.

(* the whole C09 judge, decoding included *)
Theorem judge_C09_sound : forall pb ops st answers n P ops' ans i,
  duproblem pb = Some (n, P) -> omap dhop ops = Some ops' -> omap danswer answers = Some ans ->
  judge_C09 (L [L [pb; L ops]; L (I st :: answers)]) = Ok i ->
  history_correct n P ops' ans /\ sticky false ops' ans.
Proof.
  intros pb ops st answers n P ops' ans i Hp Ho Ha H. unfold judge_C09 in H. rewrite Hp, Ho, Ha in H.
  destruct (Z.of_nat n <? maxvar_uproblem P) eqn:En; [discriminate|]. apply Z.ltb_ge in En.
  unfold status_fail in H. destruct (st =? 1); [discriminate|]. destruct (st =? 2); [discriminate|].
  apply (judge_history_top _ _ _ _ _ H); [apply (duproblem_wf _ _ _ Hp)| |exact En].
  apply (omap_Forall _ _ dhop wf_hop dhop_wf ops ops' Ho).
Qed.

(* C10: every round is answered correctly for base + this round's assumptions *)
Lemma sat_unit_ucs : forall m ls, sat_uproblem m (map unit_uc ls) = forallb (lit_val m) ls.
Proof.
  intros m ls. unfold sat_uproblem. induction ls as [|l ls IH]; [reflexivity|].
  cbn [map forallb]. rewrite IH. f_equal. unfold sat_uc, unit_uc. cbn [u_rel u_terms u_rhs lhs].
  unfold term_val. cbn [fst snd]. destruct (lit_val m l); reflexivity.
Qed.

Definition round_correct (n : nat) (P : uproblem) (ls : list Z) (a : Z * list bool) : Prop :=
  (fst a = 1 /\ List.length (snd a) = n /\ sat_uproblem (snd a) P = true /\
   forallb (lit_val (snd a)) ls = true) \/
  (fst a = 2 /\ forall m', List.length m' = n -> sat_uproblem m' P = true ->
                            forallb (lit_val m') ls = false).

Theorem judge_rounds_sound : forall rounds n P ans k i,
  judge_rounds n P rounds ans k = Ok i -> Forall2 (round_correct n P) rounds ans.
Proof.
  induction rounds as [|ls r IH]; intros n P ans k i H; destruct ans as [|[vd m] ar];
    cbn [judge_rounds] in H; try discriminate; [constructor|].
  destruct (judge_solve n (P ++ map unit_uc ls) vd m) as [j| |] eqn:Ej; try discriminate.
  constructor; [|apply (IH _ _ _ _ _ H)].
  apply judge_solve_sound in Ej. unfold round_correct. cbn [fst snd].
  destruct Ej as [[E1 [L S]]|[E2 Hn]].
  - left. rewrite sat_uproblem_app, sat_unit_ucs in S. apply andb_true_iff in S. tauto.
  - right. split; [exact E2|]. intros m' L' S'. specialize (Hn m' L').
    rewrite sat_uproblem_app, sat_unit_ucs, S' in Hn. exact Hn.
Qed.

(* ------------------------------------------------------------------ *)
(* C12: the unit-propagation-pruned CNF search of Judge/J11.v           *)

Lemma prefix_clause_wf : forall pre, wf_clause (prefix_clause pre (Z.of_nat (List.length pre))).
Proof.
  induction pre as [|b pre IH]; intros l Hl; [destruct Hl|].
  cbn [prefix_clause] in Hl.
  replace (Z.of_nat (List.length (b :: pre)) - 1) with (Z.of_nat (List.length pre)) in Hl
    by (cbn [List.length]; lia).
  destruct Hl as [<-|Hl]; [|apply (IH l Hl)].
  cbn [List.length]. destruct b; lia.
Qed.

(* the clause forbidding the prefix is falsified by every extension of the prefix *)
Lemma prefix_clause_false : forall pre suf,
  sat_clause (rev pre ++ suf) (prefix_clause pre (Z.of_nat (List.length pre))) = false.
Proof.
  induction pre as [|b pre IH]; intros suf; [reflexivity|].
  cbn [prefix_clause].
  replace (Z.of_nat (List.length (b :: pre)) - 1) with (Z.of_nat (List.length pre))
    by (cbn [List.length]; lia).
  unfold sat_clause. cbn [existsb]. fold (sat_clause (rev (b :: pre) ++ suf) (prefix_clause pre (Z.of_nat (List.length pre)))).
  cbn [rev]. rewrite <- app_assoc. cbn [app]. rewrite IH, orb_false_r.
  set (k := Z.of_nat (List.length (b :: pre))).
  assert (Hk : 0 < k) by (unfold k; cbn [List.length]; lia).
  assert (Hv : var_val (rev pre ++ b :: suf) k = b).
  { unfold var_val. rewrite app_nth2 by (rewrite rev_length; unfold k; cbn [List.length]; lia).
    rewrite rev_length. replace (Z.to_nat (k - 1) - List.length pre)%nat with O
      by (unfold k; cbn [List.length]; lia). reflexivity. }
  unfold lit_val. destruct b.
  - replace (0 <? - k) with false by (symmetry; apply Z.ltb_ge; lia).
    rewrite Z.opp_involutive, Hv. reflexivity.
  - replace (0 <? k) with true by (symmetry; apply Z.ltb_lt; lia). exact Hv.
Qed.

Theorem prune_up_sound : forall n F pre, wf_cnf F -> prune_up n F pre = true ->
  forall suf, sat_cnf (rev pre ++ suf) F = false.
Proof.
  intros n F pre Hwf H suf. unfold prune_up in H.
  destruct pre as [|b pre]; [discriminate|].
  destruct (rup_line (S n) F (prefix_clause (b :: pre) (Z.of_nat (List.length (b :: pre))))) as [[|]|] eqn:E;
    try discriminate.
  destruct (sat_cnf (rev (b :: pre) ++ suf) F) eqn:Es; [|reflexivity].
  pose proof (Proofs.Rup.rup_sound _ _ _ Hwf (prefix_clause_wf (b :: pre)) E _ Es) as Hc.
  rewrite prefix_clause_false in Hc. discriminate.
Qed.

Theorem cnf_solve_up_none : forall n F, wf_cnf F -> cnf_solve_up n F = None ->
  forall m, List.length m = n -> sat_cnf m F = false.
Proof.
  intros n F Hwf H m L. unfold cnf_solve_up in H.
  exact (find_pruned_none n (prune_up n F) (fun m => sat_cnf m F)
           (fun pre Hp => prune_up_sound n F pre Hwf Hp) [] H m L).
Qed.

(* no well-formedness needed: a returned model is checked *)
Theorem cnf_solve_up_some : forall n F m, cnf_solve_up n F = Some m ->
  List.length m = n /\ sat_cnf m F = true.
Proof.
  intros n F m H. unfold cnf_solve_up in H. apply find_pruned_some in H.
  destruct H as [Hp [Hl _]]. split; [exact Hl|exact Hp].
Qed.

(* hence [export_has_model] decides whether the exported CNF has a model
   extending the environment on the named variables *)
Theorem export_has_model_spec : forall nb F names env,
  wf_cnf F -> (forall p, In p names -> snd p <> 0) ->
  (export_has_model nb F names env = true <->
   exists m, List.length m = nb /\ sat_cnf m F = true /\
             forall p, In p names -> var_val env (fst p) = lit_val m (snd p)).
Proof.
  intros nb F names env Hwf Hnm. unfold export_has_model.
  set (units := map (fun p : Z * Z => if var_val env (fst p) then [snd p] else [- snd p]) names).
  assert (Hwu : wf_cnf (units ++ F)).
  { intros c Hc. apply in_app_iff in Hc. destruct Hc as [Hc|Hc]; [|apply (Hwf c Hc)].
    unfold units in Hc. apply in_map_iff in Hc. destruct Hc as [[v x] [<- Hp]].
    pose proof (Hnm _ Hp) as Hz. cbn [fst snd] in *. intros l Hl.
    destruct (var_val env v); destruct Hl as [<-|[]]; lia. }
  assert (Hone : forall m p, In p names ->
            (sat_clause m (if var_val env (fst p) then [snd p] else [- snd p]) = true <->
             var_val env (fst p) = lit_val m (snd p))).
  { intros m [v x] Hp. pose proof (Hnm _ Hp) as Hz. cbn [fst snd] in *. unfold sat_clause.
    destruct (var_val env v); cbn [existsb]; rewrite orb_false_r.
    - split; intros A; symmetry; exact A.
    - rewrite Proofs.PBNorm.lit_val_opp by exact Hz. rewrite negb_true_iff.
      split; intros A; symmetry; exact A. }
  assert (Hu : forall m, sat_cnf m units = true <->
                         forall p, In p names -> var_val env (fst p) = lit_val m (snd p)).
  { intros m. unfold sat_cnf, units. rewrite forallb_forall. split.
    - intros H p Hp. apply (Hone m p Hp). apply H. apply in_map_iff. exists p. split; [reflexivity|exact Hp].
    - intros H c Hc. apply in_map_iff in Hc. destruct Hc as [p [<- Hp]].
      apply (Hone m p Hp). apply H. exact Hp. }
  destruct (cnf_solve_up nb (units ++ F)) as [m|] eqn:E.
  - split; [intros _|reflexivity]. apply cnf_solve_up_some in E. destruct E as [L S].
    unfold sat_cnf in S. rewrite forallb_app in S. apply andb_true_iff in S. destruct S as [S1 S2].
    exists m. split; [exact L|split; [exact S2|]]. apply Hu. exact S1.
  - split; [discriminate|]. intros [m [L [S Hp]]].
    pose proof (cnf_solve_up_none nb _ Hwu E m L) as X.
    pose proof (proj2 (Hu m) Hp) as Y.
    unfold sat_cnf in X, S, Y. rewrite forallb_app in X.
    pose proof (eq_trans (eq_sym (f_equal2 andb Y S)) X) as Z0. discriminate.
Qed.

(* ------------------------------------------------------------------ *)
(* The case-level judges, decoding included                             *)

Lemma status_fail_not_ok : forall st v i, status_fail st = Some v -> v <> Ok i.
Proof.
  intros st v i H. unfold status_fail in H.
  destruct (st =? 1); [injection H as <-; discriminate|].
  destruct (st =? 2); [injection H as <-; discriminate|discriminate].
Qed.

Theorem judge_solve_case_sound : forall pb st vd ms n P m i,
  duproblem pb = Some (n, P) -> dbools ms = Some m ->
  judge_solve_case (L [pb; L [I st; I vd; ms]]) = Ok i ->
  maxvar_uproblem P <= Z.of_nat n /\ Forall wf_uc P /\ solve_correct n P vd m.
Proof.
  intros pb st vd ms n P m i Hp Hm H. unfold judge_solve_case in H. rewrite Hp, Hm in H.
  destruct (Z.of_nat n <? maxvar_uproblem P) eqn:En; [discriminate|]. apply Z.ltb_ge in En.
  split; [exact En|]. split; [apply (duproblem_wf _ _ _ Hp)|].
  destruct (status_fail st) as [v|] eqn:Es; [exfalso; apply (status_fail_not_ok _ _ i Es); exact H|].
  apply (judge_solve_sound _ _ _ _ _ H).
Qed.

Theorem judge_C03_sound : forall pb cts st vd w ms n P c m i,
  duproblem pb = Some (n, P) -> omap dterm cts = Some c -> dbools ms = Some m ->
  judge_C03 (L [L [pb; L cts]; L [I st; I vd; I w; ms]]) = Ok i ->
  Z.max (maxvar_uproblem P) (maxvar_terms c) <= Z.of_nat n /\ opt_correct n P c vd w m.
Proof.
  intros pb cts st vd w ms n P c m i Hp Hc Hm H. unfold judge_C03 in H. rewrite Hp, Hc, Hm in H.
  destruct (Z.of_nat n <? Z.max (maxvar_uproblem P) (maxvar_terms c)) eqn:En; [discriminate|].
  apply Z.ltb_ge in En. split; [exact En|].
  destruct (status_fail st) as [v|] eqn:Es; [exfalso; apply (status_fail_not_ok _ _ i Es); exact H|].
  apply (judge_opt_sound _ _ _ _ _ _ _ H).
Qed.

Theorem judge_C10_sound : forall pb rounds st answers n P rs ans i,
  duproblem pb = Some (n, P) -> dZss rounds = Some rs -> omap danswer answers = Some ans ->
  judge_C10 (L [L [pb; rounds]; L (I st :: answers)]) = Ok i ->
  maxvar_uproblem P <= Z.of_nat n /\ Forall2 (round_correct n P) rs ans.
Proof.
  intros pb rounds st answers n P rs ans i Hp Hr Ha H. unfold judge_C10 in H. rewrite Hp, Hr, Ha in H.
  destruct (Z.of_nat n <? maxvar_uproblem P) eqn:En; [discriminate|]. apply Z.ltb_ge in En.
  split; [exact En|].
  destruct (existsb _ rs); [discriminate|].
  destruct (status_fail st) as [v|] eqn:Es; [exfalso; apply (status_fail_not_ok _ _ i Es); exact H|].
  apply (judge_rounds_sound _ _ _ _ _ _ H).
Qed.

Theorem judge_C14_sound : forall pb st vd ms learned n P m ls i,
  duproblem pb = Some (n, P) -> dbools ms = Some m -> omap duc learned = Some ls ->
  judge_C14 (L [pb; L [I st; I vd; ms; L learned]]) = Ok i ->
  solve_correct n P vd m /\
  forall c, In c ls -> forall m', List.length m' = n -> sat_uproblem m' P = true -> sat_uc m' c = true.
Proof.
  intros pb st vd ms learned n P m ls i Hp Hm Hl H. unfold judge_C14 in H. rewrite Hp, Hm, Hl in H.
  destruct (Z.of_nat n <? Z.max (maxvar_uproblem P) (maxvar_uproblem ls)); [discriminate|].
  destruct (status_fail st) as [v|] eqn:Es; [exfalso; apply (status_fail_not_ok _ _ i Es); exact H|].
  destruct (judge_solve n P vd m) as [j| |] eqn:Ej; try discriminate.
  destruct (first_not_entailed n P ls 0) eqn:Ef; [discriminate|].
  split; [apply (judge_solve_sound _ _ _ _ _ Ej)|apply (first_not_entailed_sound _ _ _ _ Ef)].
Qed.

(* examples showing the hypotheses / conclusions are inhabited *)
Example ex_judge_solve : judge_solve 2 [UC [(1, 1); (1, 2)] Ge 1] 1 [true; false] = Ok [1].
Proof. vm_compute. reflexivity. Qed.
Example ex_judge_opt : judge_opt 2 [UC [(1, 1); (1, 2)] Ge 1] [(3, 1); (2, 2)] 1 2 [false; true] = Ok [1; 2].
Proof. vm_compute. reflexivity. Qed.
Example ex_judge_history :
  judge_history 2 [UC [(1, 1); (1, 2)] Ge 1] false [HSolve; HAdd (UC [(1, 1)] Le 0); HAdd (UC [(1, 2)] Le 0); HSolve; HSolve]
                [(1, [true; false]); (2, []); (2, [])] 0 = Ok [3].
Proof. vm_compute. reflexivity. Qed.
Example ex_entailed : entailed 2 [UC [(1, 1); (1, 2)] Ge 2] (UC [(1, 1)] Ge 1) = true.
Proof. vm_compute. reflexivity. Qed.
Example ex_prune_up : prune_up 3 [[1; 2]; [-1; 3]; [-3]] [true] = true /\ wf_cnf [[1; 2]; [-1; 3]; [-3]].
Proof.
  split; [vm_compute; reflexivity|]. intros c Hc l Hl. simpl in Hc.
  destruct Hc as [<-|[<-|[<-|[]]]]; simpl in Hl; intuition lia.
Qed.
