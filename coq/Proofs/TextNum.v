(* Decimal integers: the printer [print_Zl] (fmt %d) and the reader [atoi]
   (strconv.Atoi) of Model/Text.v are inverse of each other, and the shape of
   a printed integer. *)
From Coq Require Import List ZArith Bool NArith String Ascii Lia.
From GS Require Import Spec.Base Model.Text.
Import ListNotations.
Open Scope Z_scope.

(* ------------------------------------------------------------------ *)
(* bytes *)

Lemma code_chr : forall z, 0 <= z < 256 -> code (chr z) = z.
Proof.
  intros z Hz. unfold code, chr. rewrite N_ascii_embedding.
  - apply Z2N.id. lia.
  - change 256%N with (Z.to_N 256). apply Z2N.inj_lt; lia.
Qed.

Lemma code_inj : forall a b, code a = code b -> a = b.
Proof.
  intros a b H. unfold code in H. apply N2Z.inj in H.
  rewrite <- (ascii_N_embedding a), <- (ascii_N_embedding b). rewrite H. reflexivity.
Qed.

Lemma code_range : forall c, 0 <= code c < 256.
Proof.
  intros c. unfold code. pose proof (N_ascii_bounded c) as H. split; [lia|].
  change 256 with (Z.of_N 256). apply N2Z.inj_lt. exact H.
Qed.

Lemma eqb_code : forall a b, Ascii.eqb a b = (code a =? code b).
Proof.
  intros a b. destruct (Ascii.eqb_spec a b) as [->|N].
  - symmetry. apply Z.eqb_refl.
  - symmetry. apply Z.eqb_neq. intro H. apply N. apply code_inj. exact H.
Qed.

Lemma eqb_chr : forall z c, 0 <= z < 256 -> Ascii.eqb (chr z) c = (z =? code c).
Proof. intros z c Hz. rewrite eqb_code, code_chr by exact Hz. reflexivity. Qed.

(* ------------------------------------------------------------------ *)
(* digits *)

Definition isdig (d : Z) : Prop := 0 <= d < 10.

Lemma digit_of_char : forall d, isdig d -> digit_of (digit_char d) = Some d.
Proof.
  intros d Hd. unfold isdig in Hd. unfold digit_of, digit_char.
  rewrite code_chr by lia.
  replace (48 <=? 48 + d) with true by (symmetry; apply Z.leb_le; lia).
  replace (48 + d <=? 57) with true by (symmetry; apply Z.leb_le; lia).
  cbv zeta. cbn [andb]. f_equal. lia.
Qed.

Lemma code_digit_char : forall d, isdig d -> code (digit_char d) = 48 + d.
Proof. intros d Hd. unfold isdig in Hd. unfold digit_char. apply code_chr. lia. Qed.

Definition val_le (ds : list Z) : Z := fold_right (fun d a => d + 10 * a) 0 ds.
Definition val_be (a : Z) (ds : list Z) : Z := fold_left (fun a d => a * 10 + d) ds a.

Lemma val_be_rev : forall ds, val_be 0 (rev ds) = val_le ds.
Proof.
  induction ds as [|d r IH]; [reflexivity|].
  change (val_le (d :: r)) with (d + 10 * val_le r).
  unfold val_be in *. cbn [rev]. rewrite fold_left_app. cbn [fold_left]. rewrite IH. lia.
Qed.

Lemma le_digits_spec : forall f n,
  0 <= n < 2 ^ Z.of_nat f ->
  (0 < f)%nat ->
  Forall isdig (le_digits f n) /\ val_le (le_digits f n) = n /\ le_digits f n <> [].
Proof.
  induction f as [|f IH]; intros n Hn Hf; [lia|].
  cbn [le_digits].
  assert (Hd : isdig (n mod 10)) by (unfold isdig; apply Z.mod_pos_bound; lia).
  destruct (n <? 10) eqn:E.
  - apply Z.ltb_lt in E. repeat split.
    + constructor; [exact Hd|constructor].
    + change (val_le [n mod 10]) with (n mod 10 + 10 * 0). rewrite Z.mod_small by lia. lia.
    + discriminate.
  - apply Z.ltb_ge in E.
    assert (Hp : 2 ^ Z.of_nat (S f) = 2 * 2 ^ Z.of_nat f).
    { rewrite Nat2Z.inj_succ, Z.pow_succ_r by lia. reflexivity. }
    assert (Hq : 0 <= n / 10 < 2 ^ Z.of_nat f).
    { split; [apply Z.div_pos; lia|].
      apply Z.div_lt_upper_bound; lia. }
    assert (Hf' : (0 < f)%nat).
    { destruct f; [|lia]. simpl in Hq.
      assert (1 <= n / 10) by (apply Z.div_le_lower_bound; lia). lia. }
    destruct (IH (n / 10) Hq Hf') as [H1 [H2 _]]. repeat split.
    + constructor; assumption.
    + change (val_le (n mod 10 :: le_digits f (n / 10)))
        with (n mod 10 + 10 * val_le (le_digits f (n / 10))). rewrite H2.
      pose proof (Z.div_mod n 10). lia.
    + discriminate.
Qed.

(* the digits of n, most significant first *)
Definition dlist (n : Z) : list Z := rev (le_digits (S (Z.to_nat (Z.log2 n))) n).

Lemma print_nat_Z_dlist : forall n, print_nat_Z n = map digit_char (dlist n).
Proof. reflexivity. Qed.

Lemma dlist_spec : forall n, 0 <= n ->
  Forall isdig (dlist n) /\ val_be 0 (dlist n) = n /\ dlist n <> [].
Proof.
  intros n Hn. unfold dlist.
  assert (Hb : 0 <= n < 2 ^ Z.of_nat (S (Z.to_nat (Z.log2 n)))).
  { split; [exact Hn|]. rewrite Nat2Z.inj_succ, Z2Nat.id by apply Z.log2_nonneg.
    destruct (Z.eq_dec n 0) as [->|Hz]; [simpl; lia|].
    apply Z.log2_spec. lia. }
  destruct (le_digits_spec _ n Hb) as [H1 [H2 H3]]; [lia|]. repeat split.
  - apply Forall_rev. exact H1.
  - rewrite val_be_rev. exact H2.
  - intro H. apply H3. apply (f_equal (@rev Z)) in H. rewrite rev_involutive in H. exact H.
Qed.

Lemma read_digits_map : forall ds a, Forall isdig ds ->
  read_digits a (map digit_char ds) = Some (val_be a ds).
Proof.
  induction ds as [|d r IH]; intros a H; [reflexivity|].
  inversion H as [|x y Hd Hr]; subst. cbn [map read_digits].
  rewrite digit_of_char by exact Hd. rewrite IH by exact Hr. reflexivity.
Qed.

Lemma read_digits_print_nat : forall n, 0 <= n -> read_digits 0 (print_nat_Z n) = Some n.
Proof.
  intros n Hn. destruct (dlist_spec n Hn) as [H1 [H2 _]].
  rewrite print_nat_Z_dlist, read_digits_map by exact H1. rewrite H2. reflexivity.
Qed.

(* ------------------------------------------------------------------ *)
(* shape of a printed integer *)

Definition is_digit (c : ascii) : bool := (48 <=? code c) && (code c <=? 57).

Lemma is_digit_char : forall d, isdig d -> is_digit (digit_char d) = true.
Proof.
  intros d Hd. unfold is_digit. rewrite code_digit_char by exact Hd.
  unfold isdig in Hd. apply andb_true_iff. split; apply Z.leb_le; lia.
Qed.

Lemma print_nat_Z_digits : forall n, 0 <= n -> forallb is_digit (print_nat_Z n) = true.
Proof.
  intros n Hn. destruct (dlist_spec n Hn) as [H1 _]. rewrite print_nat_Z_dlist.
  induction H1 as [|d r Hd Hr IH]; [reflexivity|].
  cbn [map forallb]. rewrite is_digit_char by exact Hd. exact IH.
Qed.

Lemma print_nat_Z_nonempty : forall n, 0 <= n -> print_nat_Z n <> [].
Proof.
  intros n Hn. destruct (dlist_spec n Hn) as [_ [_ H3]]. rewrite print_nat_Z_dlist.
  destruct (dlist n); [congruence|discriminate].
Qed.

(* a byte of a printed integer: a digit or '-' *)
Definition is_numchar (c : ascii) : bool := is_digit c || Ascii.eqb c "-"%char.

Lemma print_Zl_cases : forall z,
  (z < 0 /\ print_Zl z = "-"%char :: print_nat_Z (- z)) \/
  (0 <= z /\ print_Zl z = print_nat_Z z).
Proof.
  intros z. unfold print_Zl. destruct (z <? 0) eqn:E.
  - left. apply Z.ltb_lt in E. auto.
  - right. apply Z.ltb_ge in E. auto.
Qed.

Lemma print_Zl_numchars : forall z, forallb is_numchar (print_Zl z) = true.
Proof.
  intros z.
  assert (H : forall l, forallb is_digit l = true -> forallb is_numchar l = true).
  { induction l as [|c l IH]; [reflexivity|]. cbn [forallb]. intros E.
    apply andb_true_iff in E. destruct E as [E1 E2]. unfold is_numchar at 1.
    rewrite E1, IH by exact E2. reflexivity. }
  destruct (print_Zl_cases z) as [[Hz ->]|[Hz ->]].
  - cbn [forallb]. rewrite H by (apply print_nat_Z_digits; lia). reflexivity.
  - apply H. apply print_nat_Z_digits. exact Hz.
Qed.

Lemma print_Zl_nonempty : forall z, print_Zl z <> [].
Proof.
  intros z. destruct (print_Zl_cases z) as [[Hz ->]|[Hz ->]]; [discriminate|].
  apply print_nat_Z_nonempty. exact Hz.
Qed.

Lemma is_digit_digit_of : forall c, is_digit c = true -> exists d, digit_of c = Some d /\ isdig d.
Proof.
  intros c H. unfold is_digit in H. unfold digit_of. rewrite H.
  apply andb_true_iff in H. destruct H as [H1 H2].
  apply Z.leb_le in H1. apply Z.leb_le in H2.
  exists (code c - 48). split; [reflexivity|unfold isdig; lia].
Qed.

Lemma is_digit_not : forall c x, is_digit c = true -> is_digit x = false -> Ascii.eqb c x = false.
Proof.
  intros c x H1 H2. destruct (Ascii.eqb_spec c x) as [->|]; [congruence|reflexivity].
Qed.

(* ------------------------------------------------------------------ *)
(* round trip *)

Theorem atoi_print_Zl : forall z, atoi (print_Zl z) = Some z.
Proof.
  intros z. destruct (print_Zl_cases z) as [[Hz ->]|[Hz E]].
  - cbn [atoi]. change (Ascii.eqb "-" "-") with true. cbv iota.
    pose proof (print_nat_Z_nonempty (- z) ltac:(lia)) as Hne.
    destruct (print_nat_Z (- z)) as [|c r] eqn:E; [congruence|].
    rewrite <- E, read_digits_print_nat by lia. simpl. f_equal. lia.
  - rewrite E.
    pose proof (print_nat_Z_nonempty z Hz) as Hne.
    pose proof (print_nat_Z_digits z Hz) as Hd.
    destruct (print_nat_Z z) as [|c r] eqn:E2; [congruence|].
    cbn [forallb] in Hd. apply andb_true_iff in Hd. destruct Hd as [Hc _].
    unfold atoi.
    rewrite (is_digit_not c "-"%char Hc) by reflexivity.
    rewrite (is_digit_not c "+"%char Hc) by reflexivity.
    rewrite <- E2. apply read_digits_print_nat. exact Hz.
Qed.

(* '+' in front of a non-negative integer is read as well *)
Lemma atoi_plus_print_Zl : forall z, 0 <= z -> atoi ("+"%char :: print_Zl z) = Some z.
Proof.
  intros z Hz. destruct (print_Zl_cases z) as [[Hz' _]|[_ E]]; [lia|]. rewrite E.
  cbn [atoi]. change (Ascii.eqb "+" "-") with false. change (Ascii.eqb "+" "+") with true.
  cbv iota.
  pose proof (print_nat_Z_nonempty z Hz) as Hne.
  destruct (print_nat_Z z) as [|c r] eqn:E2; [congruence|].
  rewrite <- E2. apply read_digits_print_nat. exact Hz.
Qed.

Theorem read_Z_print_Z : forall z, read_Z (print_Z z) = Some z.
Proof.
  intros z. unfold read_Z, print_Z. rewrite list_ascii_of_string_of_list_ascii.
  apply atoi_print_Zl.
Qed.

(* a printed integer is canonical: no leading zero except "0" itself *)
Lemma le_digits_top : forall f n, 0 <= n < 2 ^ Z.of_nat f -> (0 < f)%nat -> 0 < n ->
  last (le_digits f n) 0 <> 0.
Proof.
  induction f as [|f IH]; intros n Hn Hf Hp; [lia|].
  cbn [le_digits]. destruct (n <? 10) eqn:E.
  - apply Z.ltb_lt in E. simpl. rewrite Z.mod_small by lia. lia.
  - apply Z.ltb_ge in E.
    assert (Hp2 : 2 ^ Z.of_nat (S f) = 2 * 2 ^ Z.of_nat f).
    { rewrite Nat2Z.inj_succ, Z.pow_succ_r by lia. reflexivity. }
    assert (Hq : 0 <= n / 10 < 2 ^ Z.of_nat f).
    { split; [apply Z.div_pos; lia|]. apply Z.div_lt_upper_bound; lia. }
    assert (H1 : 1 <= n / 10) by (apply Z.div_le_lower_bound; lia).
    assert (Hf' : (0 < f)%nat) by (destruct f; [simpl in Hq; lia|lia]).
    specialize (IH (n / 10) Hq Hf' ltac:(lia)).
    destruct (le_digits_spec f (n / 10) Hq Hf') as [_ [_ Hne]].
    destruct (le_digits f (n / 10)) as [|x r] eqn:E2; [congruence|].
    exact IH.
Qed.

Lemma dlist_no_leading_zero : forall n, 0 < n -> hd 0 (dlist n) <> 0.
Proof.
  intros n Hn. unfold dlist.
  assert (Hb : 0 <= n < 2 ^ Z.of_nat (S (Z.to_nat (Z.log2 n)))).
  { split; [lia|]. rewrite Nat2Z.inj_succ, Z2Nat.id by apply Z.log2_nonneg.
    apply Z.log2_spec. lia. }
  pose proof (le_digits_top _ n Hb ltac:(lia) Hn) as H.
  remember (le_digits (S (Z.to_nat (Z.log2 n))) n) as l eqn:El. clear El Hb.
  destruct l as [|x r] using rev_ind; [simpl in H; congruence|].
  rewrite last_last in H. rewrite rev_app_distr. simpl. exact H.
Qed.
