(* Proofs/Learn.v -- correctness of the conflict analysis of Model/Learn.v
   (learn.go, sort.go, backtrackData/cleanupBindings/conflict branch of
   propagateAndSearch in solver.go). *)
From Coq Require Import List ZArith Lia Bool Arith Permutation Sorted.
From GS Require Import Spec.Base Spec.PB Model.Rup Proofs.Rup Model.Learn.
Import ListNotations.
Open Scope Z_scope.

(* ================================================================== *)
(* 0. Literals, assignments                                            *)

Lemma lvar_opp : forall l, lvar (- l) = lvar l.
Proof. intros. unfold lvar. apply Z.abs_opp. Qed.

Lemma lvar_eq_cases : forall a b, lvar a = lvar b -> a = b \/ a = - b.
Proof. unfold lvar. intros a b H. lia. Qed.

Lemma pos_opp : forall l, l <> 0 -> (0 <? - l) = negb (0 <? l).
Proof.
  intros l H. destruct (0 <? l) eqn:E; [apply Z.ltb_lt in E|apply Z.ltb_ge in E]; simpl.
  - apply Z.ltb_ge. lia.
  - apply Z.ltb_lt. lia.
Qed.

Lemma lit_false_opp : forall st l, l <> 0 -> lit_false st (- l) = lit_true st l.
Proof.
  intros st l H. unfold lit_false, lit_true. rewrite lvar_opp, pos_opp by exact H.
  destruct (s_model st (lvar l) =? 0); simpl; [reflexivity|].
  destruct (0 <? s_model st (lvar l)); destruct (0 <? l); reflexivity.
Qed.

Lemma lit_true_opp : forall st l, l <> 0 -> lit_true st (- l) = lit_false st l.
Proof.
  intros st l H. rewrite <- (Z.opp_involutive l) at 2.
  rewrite lit_false_opp by lia. reflexivity.
Qed.

Lemma lit_true_false : forall st l, lit_true st l = true -> lit_false st l = true -> False.
Proof.
  intros st l. unfold lit_true, lit_false.
  destruct (s_model st (lvar l) =? 0); simpl; [discriminate|].
  destruct (Bool.eqb _ _); simpl; discriminate.
Qed.

Lemma lit_false_bound : forall st l, lit_false st l = true -> s_model st (lvar l) <> 0.
Proof.
  intros st l. unfold lit_false. destruct (s_model st (lvar l) =? 0) eqn:E; simpl; [discriminate|].
  intros _. apply Z.eqb_neq. exact E.
Qed.

Lemma c_lits_clause : forall c, c_lits (clause_pbc c) = c.
Proof.
  intros c. unfold c_lits, clause_pbc, unit_terms. cbn [terms]. rewrite map_map. cbn [snd].
  apply map_id.
Qed.

Lemma sat_clause_exists : forall m c, sat_clause m c = true <-> exists l, In l c /\ lit_val m l = true.
Proof. intros. unfold sat_clause. apply existsb_exists. Qed.

(* ================================================================== *)
(* 1. The invariant of a state reached by propagation                  *)

(* What it means for the constraint c to have propagated the trail literal l
   when the trail was t1: the literals of c whose negations are in t1 (they
   are false), together with c, force l.  This is the hypothesis named
   C02_antecedent in the task: it is a property of the propagation engine
   (Proofs/Propagate.v does not exist in this tree at the time of writing),
   so it is part of [state_ok].                                            *)
Definition reason_ok (t1 : list lit) (l : lit) (c : pbc) : Prop :=
  (forall x, In x (c_lits c) -> x <> 0) /\
  forall m, sat_pbc m c = true ->
    lit_val m l = true \/ exists x, In x (c_lits c) /\ In (- x) t1 /\ lit_val m x = true.

(* the same when c is a clause: c contains l and every other literal of c
   is false and was so when l was propagated                               *)
Definition clause_reason_ok (t1 : list lit) (l : lit) (c : pbc) : Prop :=
  exists cl, c = clause_pbc cl /\ wf_clause cl /\ In l cl /\
             forall x, In x cl -> x <> l -> In (- x) t1.

Lemma clause_reason_is_reason : forall t1 l c, clause_reason_ok t1 l c -> reason_ok t1 l c.
Proof.
  intros t1 l c [cl [-> [Hwf [Hl Ho]]]]. split.
  - rewrite c_lits_clause. exact Hwf.
  - intros m Hs. rewrite sat_clause_pbc in Hs. apply sat_clause_exists in Hs.
    destruct Hs as [x [Hx Hv]]. destruct (Z.eq_dec x l) as [->|Hne]; [left; exact Hv|].
    right. exists x. rewrite c_lits_clause. auto.
Qed.

Record state_ok (st : lstate) (lvl : Z) : Prop := {
  ok_nz : forall l, In l (s_trail st) -> l <> 0;
  ok_nodup : NoDup (map lvar (s_trail st));
  (* every trail literal is true under [model] *)
  ok_true : forall l, In l (s_trail st) -> lit_true st l = true;
  (* every bound variable is on the trail *)
  ok_bound : forall v, s_model st v <> 0 -> exists l, In l (s_trail st) /\ lvar l = v;
  (* levels are non-decreasing along the trail, and at most the current one *)
  ok_mono : forall t1 l t2, s_trail st = t1 ++ l :: t2 ->
            forall l', In l' t1 -> lvl_of st (lvar l') <= lvl_of st (lvar l);
  ok_max : forall l, In l (s_trail st) -> lvl_of st (lvar l) <= lvl;
  (* a variable with a reason was propagated by it *)
  ok_reason : forall t1 l t2 c, s_trail st = t1 ++ l :: t2 ->
              s_reason st (lvar l) = Some c -> reason_ok t1 l c
}.

(* the conflict constraint: the literals the analysis uses (the false ones)
   have distinct variables, one of them is of the current level, and the
   constraint entails their disjunction (it is falsified)                  *)
Record confl_ok (st : lstate) (lvl : Z) (confl : pbc) : Prop := {
  cf_nz : forall x, In x (c_lits confl) -> x <> 0;
  cf_nodup : NoDup (map lvar (filter (lit_false st) (c_lits confl)));
  cf_lvl : exists x, In x (c_lits confl) /\ lit_false st x = true /\ lvl_of st (lvar x) = lvl;
  cf_false : forall m, sat_pbc m confl = true ->
             exists x, In x (c_lits confl) /\ lit_false st x = true /\ lit_val m x = true
}.

(* a conflicting clause: all its literals are false *)
Definition clause_confl (st : lstate) (confl : pbc) : Prop :=
  exists cc, confl = clause_pbc cc /\ forall x, In x cc -> lit_false st x = true.

Lemma clause_confl_false : forall st confl, clause_confl st confl ->
  forall m, sat_pbc m confl = true ->
  exists x, In x (c_lits confl) /\ lit_false st x = true /\ lit_val m x = true.
Proof.
  intros st confl [cc [-> Hf]] m Hs. rewrite sat_clause_pbc in Hs.
  apply sat_clause_exists in Hs. destruct Hs as [x [Hx Hv]].
  exists x. rewrite c_lits_clause. auto.
Qed.

(* any sorting function is good: a permutation, ordered by decreasing level *)
Definition by_level (st : lstate) (a b : lit) : Prop := lvl_of st (lvar b) <= lvl_of st (lvar a).
Definition sort_ok (srt : lstate -> list lit -> list lit) : Prop :=
  forall st l, Permutation l (srt st l) /\ StronglySorted (by_level st) (srt st l).

(* ---- consequences of state_ok ---- *)

Section StateFacts.
Variables (st : lstate) (lvl : Z).
Hypothesis OK : state_ok st lvl.

Lemma trail_false_opp : forall t, In t (s_trail st) -> lit_false st (- t) = true.
Proof.
  intros t Ht. rewrite lit_false_opp by (apply (ok_nz _ _ OK); exact Ht).
  apply (ok_true _ _ OK). exact Ht.
Qed.

Lemma false_on_trail : forall x, x <> 0 -> lit_false st x = true -> In (- x) (s_trail st).
Proof.
  intros x Hx Hf. destruct (ok_bound _ _ OK _ (lit_false_bound _ _ Hf)) as [l [Hl Hv]].
  destruct (lvar_eq_cases _ _ Hv) as [-> | ->]; [|exact Hl].
  exfalso. exact (lit_true_false _ _ (ok_true _ _ OK _ Hl) Hf).
Qed.

Lemma trail_var_inj : forall a b, In a (s_trail st) -> In b (s_trail st) -> lvar a = lvar b -> a = b.
Proof.
  intros a b Ha Hb E. pose proof (ok_nodup _ _ OK) as ND.
  revert Ha Hb ND. generalize (s_trail st) as tr. induction tr as [|x tr IH]; intros Ha Hb ND; [destruct Ha|].
  cbn [map] in ND. inversion ND as [|? ? Hn ND']; subst.
  destruct Ha as [->|Ha]; destruct Hb as [->|Hb]; auto.
  - exfalso. apply Hn. rewrite E. apply in_map. exact Hb.
  - exfalso. apply Hn. rewrite <- E. apply in_map. exact Ha.
Qed.

Lemma trail_not_both : forall t, In t (s_trail st) -> In (- t) (s_trail st) -> False.
Proof.
  intros t H1 H2. assert (E : - t = t) by (apply trail_var_inj; auto; apply lvar_opp).
  pose proof (ok_nz _ _ OK _ H1). lia.
Qed.

Lemma split_unique : forall a t b a' b',
  s_trail st = a ++ t :: b -> s_trail st = a' ++ t :: b' -> a = a' /\ b = b'.
Proof.
  intros a t b a' b' E1 E2. pose proof (ok_nodup _ _ OK) as ND. rewrite E1 in ND.
  rewrite E1 in E2. clear E1. revert a' E2 ND.
  induction a as [|x a IH]; intros a' E2 ND.
  - destruct a' as [|y a']; cbn [app] in *.
    + injection E2 as ->. auto.
    + injection E2 as -> ->. exfalso. cbn [map] in ND. inversion ND as [|? ? Hn _]; subst.
      apply Hn. rewrite map_app. apply in_or_app. right. left. reflexivity.
  - destruct a' as [|y a']; cbn [app] in *.
    + injection E2 as -> <-. exfalso. cbn [map] in ND. inversion ND as [|? ? Hn _]; subst.
      apply Hn. rewrite map_app. apply in_or_app. right. left. reflexivity.
    + injection E2 as -> E2. cbn [map] in ND. inversion ND as [|? ? _ ND']; subst.
      destruct (IH a' E2 ND') as [-> ->]. auto.
Qed.

Lemma trail_lvl_pos : forall t, In t (s_trail st) -> 1 <= lvl_of st (lvar t).
Proof.
  intros t Ht. pose proof (ok_true _ _ OK _ Ht) as H. unfold lit_true in H. unfold lvl_of.
  destruct (s_model st (lvar t) =? 0) eqn:E; simpl in H; [discriminate|].
  apply Z.eqb_neq in E. lia.
Qed.

End StateFacts.

(* ================================================================== *)
(* 2. Sorting                                                          *)

Lemma insert_lit_perm : forall st x l, Permutation (x :: l) (insert_lit st x l).
Proof.
  intros st x. induction l as [|y l IH]; cbn [insert_lit]; [apply Permutation_refl|].
  destruct (lvl_of st (lvar y) <? lvl_of st (lvar x)); [apply Permutation_refl|].
  eapply perm_trans; [apply perm_swap|]. apply perm_skip. exact IH.
Qed.

Lemma insert_lit_sorted : forall st x l, StronglySorted (by_level st) l ->
  StronglySorted (by_level st) (insert_lit st x l).
Proof.
  intros st x. induction l as [|y l IH]; intros Hs; cbn [insert_lit].
  - constructor; constructor.
  - inversion Hs as [|? ? Hs' Hall]; subst.
    destruct (lvl_of st (lvar y) <? lvl_of st (lvar x)) eqn:E.
    + apply Z.ltb_lt in E. constructor; [exact Hs|]. constructor.
      * unfold by_level. lia.
      * eapply Forall_impl; [|exact Hall]. unfold by_level. intros a Ha. lia.
    + apply Z.ltb_ge in E. constructor; [apply IH; exact Hs'|].
      apply (Permutation_Forall (insert_lit_perm st x l)). constructor; [exact E|exact Hall].
Qed.

Theorem sort_literals_ok : sort_ok sort_literals.
Proof.
  intros st l. unfold sort_literals.
  assert (G : forall l acc, StronglySorted (by_level st) acc ->
          Permutation (acc ++ l) (fold_left (fun s x => insert_lit st x s) l acc) /\
          StronglySorted (by_level st) (fold_left (fun s x => insert_lit st x s) l acc)).
  { clear l. induction l as [|x l IH]; intros acc Hs; cbn [fold_left].
    - rewrite app_nil_r. split; [apply Permutation_refl|exact Hs].
    - destruct (IH (insert_lit st x acc) (insert_lit_sorted st x acc Hs)) as [P S].
      split; [|exact S]. eapply perm_trans; [|exact P].
      eapply perm_trans; [apply Permutation_sym; apply Permutation_middle|].
      change (x :: acc ++ l) with ((x :: acc) ++ l). apply Permutation_app_tail.
      apply insert_lit_perm. }
  destruct (G l [] (SSorted_nil _)) as [P S]. split; [exact P|exact S].
Qed.

Lemma filter_sorted : forall (R : lit -> lit -> Prop) f l, StronglySorted R l -> StronglySorted R (filter f l).
Proof.
  intros R f. induction l as [|x l IH]; intros Hs; cbn [filter]; [constructor|].
  inversion Hs as [|? ? Hs' Hall]; subst. destruct (f x); [|apply IH; exact Hs'].
  constructor; [apply IH; exact Hs'|].
  apply Forall_forall. intros y Hy. apply filter_In in Hy. destruct Hy as [Hy _].
  rewrite Forall_forall in Hall. auto.
Qed.

(* ================================================================== *)
(* 3. The analysis loop                                                *)

Lemma bset_eq : forall f v, bset f v v = true.
Proof. intros. unfold bset. rewrite Z.eqb_refl. reflexivity. Qed.
Lemma bset_neq : forall f v x, x <> v -> bset f v x = f x.
Proof. intros f v x H. unfold bset. apply Z.eqb_neq in H. rewrite H. reflexivity. Qed.
Lemma bset_mono : forall f v x, f x = true -> bset f v x = true.
Proof. intros f v x H. unfold bset. destruct (x =? v); auto. Qed.
Lemma bset_cases : forall f v x, bset f v x = true -> x = v \/ f x = true.
Proof. intros f v x. unfold bset. destruct (x =? v) eqn:E; [apply Z.eqb_eq in E; auto|auto]. Qed.

Lemma filter_bset_count : forall (f : Z -> bool) t rt,
  NoDup (map lvar rt) -> In t rt -> f (lvar t) = false ->
  length (filter (fun y => bset f (lvar t) (lvar y)) rt) = S (length (filter (fun y => f (lvar y)) rt)).
Proof.
  intros f t. induction rt as [|y rt IH]; intros ND Hin Hf; [destruct Hin|].
  cbn [map] in ND. inversion ND as [|? ? Hn ND']; subst. cbn [filter].
  destruct Hin as [->|Hin].
  - rewrite bset_eq, Hf. cbn [length]. f_equal.
    f_equal. apply filter_ext_in. intros z Hz. apply bset_neq.
    intro E. apply Hn. rewrite <- E. apply in_map. exact Hz.
  - assert (Hne : lvar y <> lvar t).
    { intro E. apply Hn. rewrite E. apply in_map. exact Hin. }
    rewrite bset_neq by exact Hne. destruct (f (lvar y)); cbn [length]; rewrite IH; auto.
Qed.

Lemma NoDup_app_l : forall (A : Type) (l1 l2 : list A), NoDup (l1 ++ l2) -> NoDup l1.
Proof.
  intros A. induction l1 as [|x l1 IH]; intros l2 H; [constructor|].
  cbn [app] in H. inversion H as [|? ? Hn H']; subst. constructor.
  - intro Hx. apply Hn. apply in_or_app. left. exact Hx.
  - apply (IH l2). exact H'.
Qed.

Lemma first_marked_app : forall f l1 l2,
  first_marked f (l1 ++ l2) =
  match first_marked f l1 with Some x => Some x | None => first_marked f l2 end.
Proof.
  intros f. induction l1 as [|x l1 IH]; intros l2; cbn [app first_marked]; [reflexivity|].
  destruct (f (lvar x)); [reflexivity|apply IH].
Qed.

Lemma first_marked_filter : forall f l,
  first_marked f l = match filter (fun y => f (lvar y)) l with [] => None | x :: _ => Some x end.
Proof.
  intros f. induction l as [|x l IH]; cbn [first_marked filter]; [reflexivity|].
  destruct (f (lvar x)); [reflexivity|exact IH].
Qed.

Lemma filter_rev : forall (A : Type) (f : A -> bool) l, filter f (rev l) = rev (filter f l).
Proof.
  intros A f. induction l as [|x l IH]; [reflexivity|]. cbn [rev filter].
  rewrite filter_app, IH. cbn [filter]. destruct (f x); cbn [rev]; [reflexivity|].
  apply app_nil_r.
Qed.

Section Analysis.
Variables (st : lstate) (lvl : Z) (confl : pbc).
Hypothesis OK : state_ok st lvl.

(* the (false) constraint literal x is in the clause under construction, or
   its variable is marked at the current level                            *)
Definition Cov (a : acc) (x : lit) : Prop := In x (a_lits a) \/ a_metLvl a (lvar x) = true.

Record ext (a a' : acc) : Prop := {
  ext_lits : forall x, In x (a_lits a) -> In x (a_lits a');
  ext_mlvl : forall v, a_metLvl a v = true -> a_metLvl a' v = true;
  ext_met : forall v, a_met a v = true -> a_met a' v = true;
  ext_used : forall c, In c (a_used a) -> In c (a_used a')
}.

Lemma ext_refl : forall a, ext a a.
Proof. intros a. constructor; auto. Qed.
Lemma ext_trans : forall a b c, ext a b -> ext b c -> ext a c.
Proof.
  intros a b c [A1 A2 A3 A4] [B1 B2 B3 B4]. constructor; auto.
Qed.
Lemma Cov_ext : forall a a' x, ext a a' -> Cov a x -> Cov a' x.
Proof. intros a a' x E [H|H]; [left; apply (ext_lits _ _ E)|right; apply (ext_mlvl _ _ E)]; exact H. Qed.

(* the trail literal t has been resolved on *)
Definition Res (a : acc) (t : lit) : Prop :=
  exists t1 t2, s_trail st = t1 ++ t :: t2 /\
  match s_reason st (lvar t) with
  | Some c => In c (a_used a) /\ forall x, In x (c_lits c) -> In (- x) t1 -> Cov a x
  | None => In (clause_pbc [t]) (a_used a) /\ s_assumptions st (lvar t) = false /\
            exists t', In t' t1 /\ lvl_of st (lvar t') = lvl
  end.

Lemma Res_ext : forall a a' t, ext a a' -> Res a t -> Res a' t.
Proof.
  intros a a' t E [t1 [t2 [Hs H]]]. exists t1, t2. split; [exact Hs|].
  destruct (s_reason st (lvar t)) as [c|].
  - destruct H as [Hu Hc]. split; [apply (ext_used _ _ E); exact Hu|].
    intros x Hx Hn. apply (Cov_ext a); auto.
  - destruct H as [Hu H]. split; [apply (ext_used _ _ E); exact Hu|exact H].
Qed.

(* [rt]: the part of the trail not yet visited, reversed; [dn]: the rest *)
Record WInv (rt dn : list lit) (a : acc) : Prop := {
  w_split : s_trail st = rev rt ++ dn;
  w_lits : forall x, In x (a_lits a) ->
           x <> 0 /\ lit_false st x = true /\ lvl_of st (lvar x) <> lvl /\ a_met a (lvar x) = true;
  w_mlvl : forall v, a_metLvl a v = true ->
           a_met a v = true /\ lvl_of st v = lvl /\ exists t, In t (s_trail st) /\ lvar t = v;
  w_low : forall x, x <> 0 -> lit_false st x = true -> a_met a (lvar x) = true ->
          lvl_of st (lvar x) <> lvl -> In x (a_lits a);
  w_pend : forall t, In t rt -> lvl_of st (lvar t) = lvl -> a_met a (lvar t) = true ->
           a_metLvl a (lvar t) = true;
  w_done : forall t, In t dn -> lvl_of st (lvar t) = lvl -> a_met a (lvar t) = true;
  w_nb : a_nb a = length (filter (fun t => a_metLvl a (lvar t)) rt)
}.

(* what has been resolved on so far *)
Record WRes (dn : list lit) (a : acc) : Prop := {
  w_res : forall t, In t dn -> a_metLvl a (lvar t) = true -> Res a t;
  w_prov : forall c, In c (a_used a) -> exists t, In t dn /\ a_metLvl a (lvar t) = true /\
           (s_reason st (lvar t) = Some c \/ (s_reason st (lvar t) = None /\ c = clause_pbc [t]))
}.

Lemma rt_nodup : forall rt dn, s_trail st = rev rt ++ dn -> NoDup (map lvar rt).
Proof.
  intros rt dn E. pose proof (ok_nodup _ _ OK) as ND. rewrite E, map_app in ND.
  apply NoDup_app_l in ND. rewrite map_rev in ND.
  apply NoDup_rev in ND. rewrite rev_involutive in ND. exact ND.
Qed.

Lemma in_rt_trail : forall rt dn t, s_trail st = rev rt ++ dn -> In t rt -> In t (s_trail st).
Proof. intros rt dn t E H. rewrite E. apply in_or_app. left. apply in_rev in H. exact H. Qed.
Lemma in_dn_trail : forall rt dn t, s_trail st = rev rt ++ dn -> In t dn -> In t (s_trail st).
Proof. intros rt dn t E H. rewrite E. apply in_or_app. right. exact H. Qed.

Lemma add_lit_inv : forall rt dn a x, WInv rt dn a -> x <> 0 ->
  WInv rt dn (add_lit true st lvl a x) /\ ext a (add_lit true st lvl a x) /\
  (lit_false st x = true -> In (- x) rt -> Cov (add_lit true st lvl a x) x) /\
  (forall t, In t dn -> a_metLvl (add_lit true st lvl a x) (lvar t) = true -> a_metLvl a (lvar t) = true) /\
  a_used (add_lit true st lvl a x) = a_used a.
Proof.
  intros rt dn a x W Hx. unfold add_lit. cbn [andb].
  destruct (a_met a (lvar x)) eqn:Emet.
  { split; [exact W|]. split; [apply ext_refl|]. split; [|auto]. intros Hf Hin.
    destruct (Z.eq_dec (lvl_of st (lvar x)) lvl) as [El|El].
    - right. rewrite <- (lvar_opp x). apply (w_pend _ _ _ W); rewrite ?lvar_opp; auto.
    - left. apply (w_low _ _ _ W); auto. }
  destruct (lit_false st x) eqn:Ef; cbn [negb].
  2:{ split; [exact W|]. split; [apply ext_refl|]. split; [discriminate|auto]. }
  assert (Hnm : a_metLvl a (lvar x) = false).
  { destruct (a_metLvl a (lvar x)) eqn:E; [|reflexivity].
    destruct (w_mlvl _ _ _ W _ E) as [H _]. congruence. }
  assert (Htr : In (- x) (s_trail st)) by (apply (false_on_trail st lvl OK); auto).
  destruct (lvl_of st (lvar x) =? lvl) eqn:El; [apply Z.eqb_eq in El|apply Z.eqb_neq in El].
  - (* marked at the current level *)
    assert (Hrt : In (- x) rt).
    { rewrite (w_split _ _ _ W) in Htr. apply in_app_or in Htr. destruct Htr as [H|H].
      - apply in_rev. exact H.
      - exfalso. pose proof (w_done _ _ _ W _ H) as Hd. rewrite lvar_opp in Hd.
        rewrite (Hd El) in Emet. discriminate. }
    split; [|split; [|split; [|split]]].
    + constructor; cbn [a_met a_metLvl a_lits a_nb a_used].
      * exact (w_split _ _ _ W).
      * intros y Hy. destruct (w_lits _ _ _ W y Hy) as [H1 [H2 [H3 H4]]].
        repeat split; auto. apply bset_mono. exact H4.
      * intros v Hv. apply bset_cases in Hv. destruct Hv as [->|Hv].
        -- split; [apply bset_eq|]. split; [exact El|]. exists (- x). split; [exact Htr|apply lvar_opp].
        -- destruct (w_mlvl _ _ _ W v Hv) as [H1 [H2 H3]]. split; [apply bset_mono; exact H1|auto].
      * intros y Hy Hfy Hmy Hly. apply bset_cases in Hmy. destruct Hmy as [E|Hmy].
        -- exfalso. apply Hly. rewrite E. exact El.
        -- apply (w_low _ _ _ W); auto.
      * intros t Ht Hl Hm. apply bset_cases in Hm. destruct Hm as [E|Hm].
        -- rewrite E. apply bset_eq.
        -- apply bset_mono. apply (w_pend _ _ _ W); auto.
      * intros t Ht Hl. apply bset_mono. apply (w_done _ _ _ W); auto.
      * rewrite (w_nb _ _ _ W). rewrite <- (lvar_opp x).
        symmetry. apply filter_bset_count.
        -- exact (rt_nodup _ _ (w_split _ _ _ W)).
        -- exact Hrt.
        -- rewrite lvar_opp. exact Hnm.
    + constructor; cbn [a_met a_metLvl a_lits a_nb a_used]; auto using bset_mono.
    + intros _ _. right. cbn [a_metLvl]. apply bset_eq.
    + cbn [a_metLvl]. intros t Ht Hm. apply bset_cases in Hm. destruct Hm as [E|Hm]; [|exact Hm].
      exfalso. pose proof (w_done _ _ _ W t Ht) as Hd. rewrite E in Hd.
      rewrite (Hd El) in Emet. discriminate.
    + reflexivity.
  - (* a literal of a lower level: goes into the clause *)
    split; [|split; [|split; [|split]]].
    + constructor; cbn [a_met a_metLvl a_lits a_nb a_used].
      * exact (w_split _ _ _ W).
      * intros y Hy. apply in_app_or in Hy. destruct Hy as [Hy|[<-|[]]].
        -- destruct (w_lits _ _ _ W y Hy) as [H1 [H2 [H3 H4]]].
           repeat split; auto. apply bset_mono. exact H4.
        -- repeat split; auto. apply bset_eq.
      * intros v Hv. destruct (w_mlvl _ _ _ W v Hv) as [H1 [H2 H3]].
        split; [apply bset_mono; exact H1|auto].
      * intros y Hy Hfy Hmy Hly. apply in_or_app. apply bset_cases in Hmy. destruct Hmy as [E|Hmy].
        -- right. left. destruct (lvar_eq_cases _ _ E) as [-> | ->]; [reflexivity|].
           exfalso. rewrite lit_false_opp in Hfy by exact Hx.
           exact (lit_true_false _ _ Hfy Ef).
        -- left. apply (w_low _ _ _ W); auto.
      * intros t Ht Hl Hm. apply bset_cases in Hm. destruct Hm as [E|Hm].
        -- exfalso. apply El. rewrite <- E. exact Hl.
        -- apply (w_pend _ _ _ W); auto.
      * intros t Ht Hl. apply bset_mono. apply (w_done _ _ _ W); auto.
      * exact (w_nb _ _ _ W).
    + constructor; cbn [a_met a_metLvl a_lits a_nb a_used]; auto using bset_mono.
      intros y Hy. apply in_or_app. auto.
    + intros _ _. left. cbn [a_lits]. apply in_or_app. right. left. reflexivity.
    + cbn [a_metLvl]. auto.
    + reflexivity.
Qed.

Lemma add_lits_inv : forall rt dn ls a, WInv rt dn a -> (forall x, In x ls -> x <> 0) ->
  WInv rt dn (add_lits true st lvl ls a) /\ ext a (add_lits true st lvl ls a) /\
  (forall x, In x ls -> lit_false st x = true -> In (- x) rt -> Cov (add_lits true st lvl ls a) x) /\
  (forall t, In t dn -> a_metLvl (add_lits true st lvl ls a) (lvar t) = true -> a_metLvl a (lvar t) = true) /\
  a_used (add_lits true st lvl ls a) = a_used a.
Proof.
  intros rt dn. unfold add_lits. induction ls as [|y ls IH]; intros a W Hnz; cbn [fold_left].
  - split; [exact W|]. split; [apply ext_refl|]. split; [intros x []|auto].
  - destruct (add_lit_inv rt dn a y W (Hnz y (or_introl eq_refl))) as [W1 [E1 [C1 [N1 U1]]]].
    destruct (IH _ W1 (fun x Hx => Hnz x (or_intror Hx))) as [W2 [E2 [C2 [N2 U2]]]].
    split; [exact W2|]. split; [eapply ext_trans; eauto|]. split; [|split].
    + intros x [<-|Hx] Hf Hin.
      * apply (Cov_ext _ _ _ E2). apply C1; auto.
      * apply C2; auto.
    + intros t Ht Hm. apply N1; auto.
    + rewrite U2. exact U1.
Qed.

Lemma add_lits_nb : forall chk ls a, (a_nb a <= a_nb (add_lits chk st lvl ls a))%nat.
Proof.
  intros chk. unfold add_lits. induction ls as [|y ls IH]; intros a; cbn [fold_left]; [lia|].
  eapply Nat.le_trans; [|apply IH]. unfold add_lit.
  destruct (chk && a_met a (lvar y)); [lia|].
  destruct (negb (lit_false st y)); [lia|].
  destruct (lvl_of st (lvar y) =? lvl); cbn [a_nb]; lia.
Qed.

(* addClauseLits does not look at met[]: with distinct variables it makes
   no difference *)
Lemma add_lit_met_other : forall chk a x v, v <> lvar x ->
  a_met (add_lit chk st lvl a x) v = a_met a v.
Proof.
  intros chk a x v Hv. unfold add_lit.
  destruct (chk && a_met a (lvar x)); [reflexivity|].
  destruct (negb (lit_false st x)); [reflexivity|].
  destruct (lvl_of st (lvar x) =? lvl); cbn [a_met]; apply bset_neq; exact Hv.
Qed.

Lemma add_lit_nonfalse : forall chk a x, lit_false st x = false -> add_lit chk st lvl a x = a.
Proof.
  intros chk a x H. unfold add_lit. rewrite H. cbn [negb].
  destruct (chk && a_met a (lvar x)); reflexivity.
Qed.

Lemma add_lits_false_true : forall ls a,
  NoDup (map lvar (filter (lit_false st) ls)) ->
  (forall x, In x ls -> lit_false st x = true -> a_met a (lvar x) = false) ->
  add_lits false st lvl ls a = add_lits true st lvl ls a.
Proof.
  unfold add_lits. induction ls as [|y ls IH]; intros a ND Hm; cbn [fold_left]; [reflexivity|].
  cbn [filter] in ND. destruct (lit_false st y) eqn:Ef.
  - assert (E : add_lit false st lvl a y = add_lit true st lvl a y).
    { unfold add_lit. rewrite (Hm y (or_introl eq_refl) Ef). reflexivity. }
    rewrite E. cbn [map] in ND. inversion ND as [|? ? Hn ND']; subst.
    apply IH; [exact ND'|]. intros x Hx Hfx.
    rewrite add_lit_met_other; [apply Hm; [right; exact Hx|exact Hfx]|].
    intro Ev. apply Hn. rewrite <- Ev. apply in_map. apply filter_In. auto.
  - rewrite !add_lit_nonfalse by exact Ef. apply IH; [exact ND|]. intros x Hx. apply Hm. right. exact Hx.
Qed.

Definition CC (a : acc) : Prop :=
  forall x, In x (c_lits confl) -> lit_false st x = true -> Cov a x.

Lemma CC_ext : forall a a', ext a a' -> CC a -> CC a'.
Proof. intros a a' E H x Hx Hf. apply (Cov_ext a); auto. Qed.

Lemma filter_false_nil : forall (A : Type) (l : list A), filter (fun _ => false) l = [].
Proof. induction l; auto. Qed.

Lemma WInv_init : WInv (rev (s_trail st)) [] acc0.
Proof.
  constructor; unfold acc0; cbn [a_met a_metLvl a_lits a_nb a_used].
  - rewrite rev_involutive, app_nil_r. reflexivity.
  - intros x [].
  - discriminate.
  - discriminate.
  - discriminate.
  - intros t [].
  - rewrite filter_false_nil. reflexivity.
Qed.

Hypothesis CF : confl_ok st lvl confl.

Lemma start_inv :
  let a0 := add_clause_lits st confl lvl acc0 in
  WInv (rev (s_trail st)) [] a0 /\ CC a0 /\ (1 <= a_nb a0)%nat /\ a_used a0 = [].
Proof.
  cbn zeta. unfold add_clause_lits.
  rewrite add_lits_false_true; [|exact (cf_nodup _ _ _ CF)|reflexivity].
  destruct (add_lits_inv _ _ (c_lits confl) acc0 WInv_init (cf_nz _ _ _ CF)) as [W [E [C [_ U]]]].
  assert (HC : CC (add_lits true st lvl (c_lits confl) acc0)).
  { intros x Hx Hf. apply C; auto. apply in_rev. rewrite rev_involutive.
    apply (false_on_trail st lvl OK); auto. apply (cf_nz _ _ _ CF). exact Hx. }
  split; [exact W|]. split; [exact HC|]. split.
  - destruct (cf_lvl _ _ _ CF) as [x [Hx [Hf Hl]]].
    destruct (HC x Hx Hf) as [Hin|Hm].
    + exfalso. destruct (w_lits _ _ _ W x Hin) as [_ [_ [H _]]]. auto.
    + rewrite (w_nb _ _ _ W).
      assert (Hin : In (- x) (filter (fun t => a_metLvl (add_lits true st lvl (c_lits confl) acc0) (lvar t))
                                (rev (s_trail st)))).
      { apply filter_In. split.
        - apply in_rev. rewrite rev_involutive. apply (false_on_trail st lvl OK); auto.
          apply (cf_nz _ _ _ CF). exact Hx.
        - rewrite lvar_opp. exact Hm. }
      destruct (filter _ _); [destruct Hin|cbn [length]; lia].
  - rewrite U. reflexivity.
Qed.

(* ---- one step of the pointer: a literal that is not marked ---- *)
Lemma skip_inv : forall t r dn a met',
  WInv (t :: r) dn a -> a_metLvl a (lvar t) = false ->
  (forall v, a_met a v = true -> met' v = true) ->
  (forall v, met' v = true -> a_met a v = true \/ (v = lvar t /\ lvl_of st v = lvl)) ->
  (lvl_of st (lvar t) = lvl -> met' (lvar t) = true) ->
  WInv r (t :: dn) (Acc met' (a_metLvl a) (a_lits a) (a_nb a) (a_used a)).
Proof.
  intros t r dn a met' W Hm Hup Hdn Ht.
  pose proof (rt_nodup _ _ (w_split _ _ _ W)) as ND. cbn [map] in ND.
  inversion ND as [|? ? Hn ND']; subst.
  constructor; cbn [a_met a_metLvl a_lits a_nb a_used].
  - rewrite (w_split _ _ _ W). cbn [rev]. rewrite <- app_assoc. reflexivity.
  - intros x Hx. destruct (w_lits _ _ _ W x Hx) as [H1 [H2 [H3 H4]]]. repeat split; auto.
  - intros v Hv. destruct (w_mlvl _ _ _ W v Hv) as [H1 H2]. split; auto.
  - intros x Hx Hf Hmx Hl. destruct (Hdn _ Hmx) as [H|[_ H]]; [|contradiction].
    apply (w_low _ _ _ W); auto.
  - intros t' Ht' Hl Hmt. destruct (Hdn _ Hmt) as [H|[E _]].
    + apply (w_pend _ _ _ W); auto. right. exact Ht'.
    + exfalso. apply Hn. rewrite <- E. apply in_map. exact Ht'.
  - intros t' [<-|Ht'] Hl; [auto|]. apply Hup. apply (w_done _ _ _ W); auto.
  - rewrite (w_nb _ _ _ W). cbn [filter]. rewrite Hm. reflexivity.
Qed.

Lemma acc_eta : forall a, a = Acc (a_met a) (a_metLvl a) (a_lits a) (a_nb a) (a_used a).
Proof. intros []. reflexivity. Qed.

Lemma WRes_skip : forall t dn a met',
  WRes dn a -> a_metLvl a (lvar t) = false ->
  (forall v, a_met a v = true -> met' v = true) ->
  WRes (t :: dn) (Acc met' (a_metLvl a) (a_lits a) (a_nb a) (a_used a)).
Proof.
  intros t dn a met' R Hm Hup.
  assert (E : ext a (Acc met' (a_metLvl a) (a_lits a) (a_nb a) (a_used a))).
  { constructor; cbn [a_met a_metLvl a_lits a_nb a_used]; auto. }
  constructor; cbn [a_met a_metLvl a_lits a_nb a_used].
  - intros t' [<-|Ht'] Hmt; [congruence|]. apply (Res_ext a); [exact E|].
    apply (w_res _ _ R); auto.
  - intros c Hc. destruct (w_prov _ _ R c Hc) as [t' [H1 H2]]. exists t'. split; [right; exact H1|exact H2].
Qed.

(* ---- the loop ---- *)
Lemma walk_inv : forall rt dn a, WInv rt dn a -> WRes dn a -> CC a -> (1 <= a_nb a)%nat ->
  match walk st lvl rt a with
  | WDone a' => exists rt' dn', WInv rt' dn' a' /\ WRes dn' a' /\ CC a' /\ a_nb a' = 1%nat
  | WTop => exists t, In t (s_trail st) /\ s_assumptions st (lvar t) = true /\
                      lvl_of st (lvar t) = lvl
  | WPanic => False
  end.
Proof.
  induction rt as [|t r IH]; intros dn a W R C Hnb.
  - cbn [walk]. destruct (a_nb a <=? 1)%nat eqn:E.
    + apply Nat.leb_le in E. exists [], dn. split; [exact W|split; [exact R|split; [exact C|lia]]].
    + apply Nat.leb_gt in E. rewrite (w_nb _ _ _ W) in E. cbn in E. lia.
  - cbn [walk]. destruct (a_nb a <=? 1)%nat eqn:E.
    { apply Nat.leb_le in E. exists (t :: r), dn. split; [exact W|split; [exact R|split; [exact C|lia]]]. }
    apply Nat.leb_gt in E.
    destruct (a_metLvl a (lvar t)) eqn:Em; cbn [negb].
    + (* a marked literal *)
      destruct (w_mlvl _ _ _ W _ Em) as [Hmet [Hlvl _]].
      assert (Htr : In t (s_trail st)) by (apply (in_rt_trail _ _ _ (w_split _ _ _ W)); left; reflexivity).
      destruct (s_assumptions st (lvar t)) eqn:Ea.
      { exists t. auto. }
      assert (Hsp : s_trail st = rev r ++ t :: dn).
      { rewrite (w_split _ _ _ W). cbn [rev]. rewrite <- app_assoc. reflexivity. }
      pose proof (rt_nodup _ _ (w_split _ _ _ W)) as ND. cbn [map] in ND.
      inversion ND as [|? ? Hn ND']; subst.
      (* the state after ptr--, nbLvl-- *)
      set (a1 := Acc (a_met a) (a_metLvl a) (a_lits a) (pred (a_nb a)) (a_used a)).
      assert (W1 : WInv r (t :: dn) a1).
      { constructor; unfold a1; cbn [a_met a_metLvl a_lits a_nb a_used].
        - exact Hsp.
        - exact (w_lits _ _ _ W).
        - exact (w_mlvl _ _ _ W).
        - exact (w_low _ _ _ W).
        - intros t' Ht'. apply (w_pend _ _ _ W). right. exact Ht'.
        - intros t' [<-|Ht'] Hl; [exact Hmet|]. apply (w_done _ _ _ W); auto.
        - rewrite (w_nb _ _ _ W). cbn [filter]. rewrite Em. reflexivity. }
      assert (E1 : ext a a1).
      { constructor; unfold a1; cbn [a_met a_metLvl a_lits a_nb a_used]; auto. }
      (* another marked literal is still pending *)
      assert (Hpend : exists t', In t' (rev r) /\ lvl_of st (lvar t') = lvl).
      { rewrite (w_nb _ _ _ W) in E. cbn [filter] in E. rewrite Em in E. cbn [length] in E.
        destruct (filter (fun t0 => a_metLvl a (lvar t0)) r) as [|t' f] eqn:Ef; [cbn in E; lia|].
        assert (Hin : In t' (filter (fun t0 => a_metLvl a (lvar t0)) r)) by (rewrite Ef; left; reflexivity).
        apply filter_In in Hin. destruct Hin as [Hin Hmk].
        exists t'. split; [apply in_rev in Hin; exact Hin|].
        apply (w_mlvl _ _ _ W _ Hmk). }
      destruct (s_reason st (lvar t)) as [c|] eqn:Er.
      * (* resolution with the reason *)
        destruct (ok_reason _ _ OK _ _ _ _ Hsp Er) as [Hcnz _].
        destruct (add_lits_inv r (t :: dn) (c_lits c) a1 W1 Hcnz) as [W2 [E2 [C2 [N2 U2]]]].
        set (a2 := add_lits true st lvl (c_lits c) a1) in *.
        set (a3 := Acc (a_met a2) (a_metLvl a2) (a_lits a2) (a_nb a2) (c :: a_used a2)).
        assert (E3 : ext a2 a3).
        { constructor; unfold a3; cbn [a_met a_metLvl a_lits a_nb a_used]; auto.
          intros c' Hc'. right. exact Hc'. }
        assert (E03 : ext a a3) by (eapply ext_trans; [exact E1|]; eapply ext_trans; eauto).
        apply (IH (t :: dn) a3).
        -- constructor; unfold a3; cbn [a_met a_metLvl a_lits a_nb a_used]; apply W2.
        -- constructor.
           ++ intros t' [<-|Ht'] Hmt.
              ** exists (rev r), dn. split; [exact Hsp|]. rewrite Er. split.
                 --- unfold a3. cbn [a_used]. left. reflexivity.
                 --- intros x Hx Hin. apply (Cov_ext a2); [exact E3|].
                     apply C2; auto.
                     +++ rewrite <- (Z.opp_involutive x). apply (trail_false_opp st lvl OK).
                         rewrite Hsp. apply in_or_app. left. exact Hin.
                     +++ apply in_rev. exact Hin.
              ** apply (Res_ext a); [exact E03|]. apply (w_res _ _ R); auto.
                 apply (N2 t'); [right; exact Ht'|exact Hmt].
           ++ unfold a3. cbn [a_used a_metLvl]. intros c' [<-|Hc'].
              ** exists t. split; [left; reflexivity|]. split; [|left; exact Er].
                 apply (ext_mlvl _ _ E2). exact Em.
              ** rewrite U2 in Hc'. unfold a1 in Hc'. cbn [a_used] in Hc'.
                 destruct (w_prov _ _ R c' Hc') as [t' [H1 [H2 H3]]]. exists t'.
                 split; [right; exact H1|]. split; [|exact H3].
                 apply (ext_mlvl _ _ E2). exact H2.
        -- apply (CC_ext a); auto.
        -- unfold a3. cbn [a_nb]. pose proof (add_lits_nb true (c_lits c) a1) as Hle.
           fold a2 in Hle. unfold a1 in Hle at 1. cbn [a_nb] in Hle. lia.
      * (* no reason: the literal is simply dropped *)
        set (a3 := Acc (a_met a1) (a_metLvl a1) (a_lits a1) (a_nb a1) (clause_pbc [t] :: a_used a1)).
        assert (E3 : ext a a3).
        { constructor; unfold a3, a1; cbn [a_met a_metLvl a_lits a_nb a_used]; auto.
          intros c' Hc'. right. exact Hc'. }
        apply (IH (t :: dn) a3).
        -- constructor; unfold a3; cbn [a_met a_metLvl a_lits a_nb a_used]; apply W1.
        -- constructor.
           ++ intros t' [<-|Ht'] Hmt.
              ** exists (rev r), dn. split; [exact Hsp|]. rewrite Er. split; [|split].
                 --- unfold a3. cbn [a_used]. left. reflexivity.
                 --- exact Ea.
                 --- exact Hpend.
              ** apply (Res_ext a); [exact E3|]. apply (w_res _ _ R); auto.
           ++ unfold a3, a1. cbn [a_used a_metLvl]. intros c' [<-|Hc'].
              ** exists t. split; [left; reflexivity|]. split; [exact Em|]. right. auto.
              ** destruct (w_prov _ _ R c' Hc') as [t' [H1 H2]]. exists t'.
                 split; [right; exact H1|exact H2].
        -- apply (CC_ext a); auto.
        -- unfold a3, a1. cbn [a_nb]. lia.
    + (* not marked: skipped, and met if it is of the current level *)
      destruct (lvl_of st (lvar t) =? lvl) eqn:El; [apply Z.eqb_eq in El|apply Z.eqb_neq in El].
      * apply (IH (t :: dn)).
        -- apply skip_inv; auto using bset_mono, bset_eq.
           intros v Hv. apply bset_cases in Hv. destruct Hv as [->|Hv]; auto.
        -- apply WRes_skip; auto using bset_mono.
        -- apply (CC_ext a); [|exact C].
           constructor; cbn [a_met a_metLvl a_lits a_nb a_used]; auto using bset_mono.
        -- exact Hnb.
      * rewrite (acc_eta a). apply (IH (t :: dn)).
        -- apply skip_inv; auto; intros H; contradiction.
        -- apply WRes_skip; auto.
        -- rewrite <- acc_eta. exact C.
        -- cbn [a_nb]. exact Hnb.
Qed.

(* ---- the analysis as a whole ---- *)
Theorem analyze_inv :
  match analyze st confl lvl with
  | WDone a => exists rt dn, WInv rt dn a /\ WRes dn a /\ CC a /\ a_nb a = 1%nat
  | WTop => exists t, In t (s_trail st) /\ s_assumptions st (lvar t) = true /\
                      lvl_of st (lvar t) = lvl
  | WPanic => False
  end.
Proof.
  unfold analyze. destruct start_inv as [W [C [Hnb Hu]]].
  apply (walk_inv _ [] _ W); auto.
  constructor.
  - intros t [].
  - rewrite Hu. intros c [].
Qed.

(* ================================================================== *)
(* 4. The learned clause                                               *)

Variable srt : lstate -> list lit -> list lit.
Hypothesis SRT : sort_ok srt.

Definition learned_lits (r : result) : option (list lit) :=
  match r with
  | LearnedClause c => Some c
  | LearnedUnit u => Some [u]
  | _ => None
  end.

Lemma learn_clause_done : forall a, analyze st confl lvl = WDone a ->
  learned_lits (learn_clause_gen srt confl lvl st) =
  Some (minimize_learned st (a_met a) (finish srt st a)).
Proof.
  intros a H. unfold learn_clause_gen. rewrite H.
  destruct (minimize_learned st (a_met a) (finish srt st a)) as [|x [|y r]]; reflexivity.
Qed.

Lemma lits_level : forall rt dn a x, WInv rt dn a -> In x (a_lits a) -> lvl_of st (lvar x) < lvl.
Proof.
  intros rt dn a x W Hx. destruct (w_lits _ _ _ W x Hx) as [H1 [H2 [H3 _]]].
  pose proof (false_on_trail st lvl OK x H1 H2) as Ht.
  pose proof (ok_max _ _ OK _ Ht) as Hm. rewrite lvar_opp in Hm. lia.
Qed.

(* the final scan finds THE literal of the current level that is left *)
Lemma uip_unique : forall rt dn a, WInv rt dn a -> a_nb a = 1%nat ->
  exists u, first_marked (a_metLvl a) (s_trail st) = Some u /\ In u rt /\
            a_metLvl a (lvar u) = true /\ lvl_of st (lvar u) = lvl /\
            forall t, In t rt -> a_metLvl a (lvar t) = true -> t = u.
Proof.
  intros rt dn a W Hnb. rewrite (w_nb _ _ _ W) in Hnb.
  destruct (filter (fun t => a_metLvl a (lvar t)) rt) as [|u [|u' f]] eqn:Ef; try discriminate.
  assert (Hu : In u (filter (fun t => a_metLvl a (lvar t)) rt)) by (rewrite Ef; left; reflexivity).
  apply filter_In in Hu. destruct Hu as [Hin Hm].
  exists u. split; [|split; [exact Hin|split; [exact Hm|split]]].
  - rewrite (w_split _ _ _ W), first_marked_app, first_marked_filter, filter_rev, Ef. reflexivity.
  - apply (w_mlvl _ _ _ W _ Hm).
  - intros t Ht Hmt.
    assert (H : In t (filter (fun t => a_metLvl a (lvar t)) rt)) by (apply filter_In; auto).
    rewrite Ef in H. destruct H as [H|[]]. auto.
Qed.

(* after sorting: the asserting literal first, then a permutation of lits[1:] *)
Lemma finish_shape : forall rt dn a u, WInv rt dn a ->
  first_marked (a_metLvl a) (s_trail st) = Some u -> lvl_of st (lvar u) = lvl ->
  exists rest, finish srt st a = (- u) :: rest /\ Permutation (a_lits a) rest /\
               StronglySorted (by_level st) rest.
Proof.
  intros rt dn a u W Hf Hl. unfold finish. rewrite Hf. cbv beta iota zeta. unfold lneg.
  destruct (SRT st (- u :: a_lits a)) as [P S].
  destruct (srt st (- u :: a_lits a)) as [|h rest] eqn:Es.
  { apply Permutation_length in P. discriminate. }
  assert (Hh : h = - u).
  { assert (Hin : In (- u) (h :: rest)) by (apply (Permutation_in _ P); left; reflexivity).
    destruct Hin as [Hin|Hin]; [exact Hin|].
    inversion S as [|? ? _ Hall]; subst. rewrite Forall_forall in Hall.
    pose proof (Hall _ Hin) as Hb. unfold by_level in Hb. rewrite lvar_opp, Hl in Hb.
    assert (Hh : In h (- u :: a_lits a)) by (apply (Permutation_in _ (Permutation_sym P)); left; reflexivity).
    destruct Hh as [Hh|Hh]; [auto|]. pose proof (lits_level _ _ _ _ W Hh). lia. }
  subst h. exists rest. split; [exact Es|]. split.
  - apply Permutation_cons_inv in P. exact P.
  - inversion S; assumption.
Qed.

(* ---- everything about a finished analysis ---- *)
Section Finished.
Variables (a : acc) (rt dn : list lit) (u : lit) (rest : list lit).
Hypothesis W : WInv rt dn a.
Hypothesis R : WRes dn a.
Hypothesis C : CC a.
Hypothesis Hu_in : In u rt.
Hypothesis Hu_m : a_metLvl a (lvar u) = true.
Hypothesis Hu_l : lvl_of st (lvar u) = lvl.
Hypothesis Hu_uniq : forall t, In t rt -> a_metLvl a (lvar t) = true -> t = u.
Hypothesis Hperm : Permutation (a_lits a) rest.
Hypothesis Hsorted : StronglySorted (by_level st) rest.

(* [k]: which literals of lits[1:] are kept; minimizeLearned is
   [k = keep_lit st (a_met a)], no minimization is [k = fun _ => true] *)
Variable k : lit -> bool.
Hypothesis Hk : forall x, k x = false -> keep_lit st (a_met a) x = false.

Definition removed_by (l : list lit) : list pbc :=
  flat_map (fun l => if k l then []
                     else match s_reason st (lvar l) with Some c => [c] | None => [] end) l.

Let learned := (- u) :: filter k rest.
Let ants := a_used a ++ removed_by rest.

Lemma u_trail : In u (s_trail st).
Proof. exact (in_rt_trail _ _ _ (w_split _ _ _ W) Hu_in). Qed.

Lemma learned_in : forall x, In x learned -> x = - u \/ In x (a_lits a).
Proof.
  intros x [H|H]; [left; auto|right]. apply filter_In in H. destruct H as [H _].
  apply (Permutation_in _ (Permutation_sym Hperm)). exact H.
Qed.

Lemma fin_falsified : forall x, In x learned -> lit_false st x = true.
Proof.
  intros x Hx. destruct (learned_in x Hx) as [->|H].
  - apply (trail_false_opp st lvl OK). exact u_trail.
  - apply (w_lits _ _ _ W x H).
Qed.

Lemma fin_nonzero : forall x, In x learned -> x <> 0.
Proof.
  intros x Hx. destruct (learned_in x Hx) as [->|H].
  - pose proof (ok_nz _ _ OK _ u_trail). lia.
  - apply (w_lits _ _ _ W x H).
Qed.

Lemma fin_asserting :
  exists tl_, learned = (- u) :: tl_ /\ lvl_of st (lvar (- u)) = lvl /\
              forall x, In x tl_ -> lvl_of st (lvar x) < lvl.
Proof.
  exists (filter k rest). split; [reflexivity|]. split.
  - rewrite lvar_opp. exact Hu_l.
  - intros x Hx. apply filter_In in Hx. destruct Hx as [Hx _].
    apply (lits_level _ _ _ _ W). apply (Permutation_in _ (Permutation_sym Hperm)). exact Hx.
Qed.

(* every literal of the trail that the analysis met (Cov) is either the
   negation of a learned literal, or was propagated by an antecedent whose
   other (earlier) false literals were met as well                         *)
Lemma cut : forall t1 t t2, s_trail st = t1 ++ t :: t2 -> Cov a (- t) ->
  In (- t) learned \/
  (exists c, s_reason st (lvar t) = Some c /\ In c ants /\
             forall x, In x (c_lits c) -> In (- x) t1 -> Cov a x) \/
  (s_reason st (lvar t) = None /\ In (clause_pbc [t]) ants /\
   s_assumptions st (lvar t) = false /\ exists t', In t' t1 /\ lvl_of st (lvar t') = lvl).
Proof.
  intros t1 t t2 Hsp [Hin|Hm].
  - (* - t is in the clause before minimization *)
    assert (Hr : In (- t) rest) by (apply (Permutation_in _ Hperm); exact Hin).
    destruct (k (- t)) eqn:Ek0.
    + left. right. apply filter_In. auto.
    + right. left. pose proof (Hk _ Ek0) as Ek. unfold keep_lit in Ek. rewrite lvar_opp in Ek.
      destruct (s_reason st (lvar t)) as [c|] eqn:Er; [|discriminate].
      exists c. split; [reflexivity|]. split.
      * apply in_or_app. right. unfold removed_by. apply in_flat_map.
        exists (- t). split; [exact Hr|]. rewrite Ek0, lvar_opp, Er.
        left. reflexivity.
      * intros x Hx Hx1. left.
        destruct (ok_reason _ _ OK _ _ _ _ Hsp Er) as [Hnz _].
        assert (Hxt : In (- x) (s_trail st)) by (rewrite Hsp; apply in_or_app; left; exact Hx1).
        apply (w_low _ _ _ W).
        -- apply Hnz. exact Hx.
        -- rewrite <- (Z.opp_involutive x). apply (trail_false_opp st lvl OK). exact Hxt.
        -- destruct (existsb (fun x0 => negb (a_met a (lvar x0))) (c_lits c)) eqn:Ee; [discriminate|].
           destruct (a_met a (lvar x)) eqn:Em; [reflexivity|].
           assert (existsb (fun x0 => negb (a_met a (lvar x0))) (c_lits c) = true).
           { apply existsb_exists. exists x. rewrite Em. auto. }
           congruence.
        -- pose proof (ok_mono _ _ OK _ _ _ Hsp _ Hx1) as Hle. rewrite lvar_opp in Hle.
           pose proof (lits_level _ _ _ _ W Hin) as Hlt. rewrite lvar_opp in Hlt. lia.
  - rewrite lvar_opp in Hm.
    assert (Ht : In t (s_trail st)) by (rewrite Hsp; apply in_or_app; right; left; reflexivity).
    rewrite (w_split _ _ _ W) in Ht. apply in_app_or in Ht. destruct Ht as [Ht|Ht].
    + apply in_rev in Ht. rewrite (Hu_uniq t Ht Hm). left. left. reflexivity.
    + right. destruct (w_res _ _ R t Ht Hm) as [t1' [t2' [Hsp' Hres]]].
      destruct (split_unique st lvl OK _ _ _ _ _ Hsp Hsp') as [<- <-].
      destruct (s_reason st (lvar t)) as [c|].
      * left. exists c. destruct Hres as [H1 H2]. split; [reflexivity|]. split; [|exact H2].
        apply in_or_app. left. exact H1.
      * right. destruct Hres as [H1 H2]. split; [reflexivity|]. split; [|exact H2].
        apply in_or_app. left. exact H1.
Qed.

(* induction along the trail *)
Lemma trail_order_ind : forall (P : lit -> Prop) (tr : list lit),
  (forall t1 t t2, tr = t1 ++ t :: t2 -> (forall t', In t' t1 -> P t') -> P t) ->
  forall t, In t tr -> P t.
Proof.
  intros P tr Hstep.
  assert (G : forall n t1 t t2, (length t1 <= n)%nat -> tr = t1 ++ t :: t2 -> P t).
  { induction n as [|n IH]; intros t1 t t2 Hlen Hsp.
    - destruct t1; [|cbn in Hlen; lia]. apply (Hstep [] t t2 Hsp). intros t' [].
    - apply (Hstep t1 t t2 Hsp). intros t' Ht'. apply in_split in Ht'.
      destruct Ht' as [p [q ->]]. apply (IH p t' (q ++ t :: t2)).
      + rewrite app_length in Hlen. cbn [length] in Hlen. lia.
      + rewrite Hsp, <- app_assoc. reflexivity. }
  intros t Ht. apply in_split in Ht. destruct Ht as [t1 [t2 Hsp]].
  exact (G (length t1) t1 t t2 (Nat.le_refl _) Hsp).
Qed.

(* -------- entailment -------- *)
Lemma fin_entailed : forall m, sat_pbc m confl = true ->
  (forall c, In c ants -> sat_pbc m c = true) -> sat_clause m learned = true.
Proof.
  intros m Hc Ha. destruct (sat_clause m learned) eqn:Es; [reflexivity|exfalso].
  assert (Hfalse : forall x, In x learned -> lit_val m x = false).
  { intros x Hx. destruct (lit_val m x) eqn:E; [|reflexivity].
    assert (sat_clause m learned = true) by (apply sat_clause_exists; eauto). congruence. }
  assert (Hall : forall t, In t (s_trail st) -> Cov a (- t) -> lit_val m t = true).
  { apply (trail_order_ind (fun t => Cov a (- t) -> lit_val m t = true)).
    intros t1 t t2 Hsp IH Hcov.
    assert (Htnz : t <> 0).
    { apply (ok_nz _ _ OK). rewrite Hsp. apply in_or_app. right. left. reflexivity. }
    destruct (cut t1 t t2 Hsp Hcov) as [Hl|[[c [Er [Hin Hcv]]]|[Er [Hin _]]]].
    - pose proof (Hfalse _ Hl) as Hv. rewrite lit_val_opp in Hv by exact Htnz.
      apply negb_false_iff in Hv. exact Hv.
    - destruct (ok_reason _ _ OK _ _ _ _ Hsp Er) as [Hnz Hent].
      destruct (Hent m (Ha c Hin)) as [Hv|[x [Hx [Hx1 Hv]]]]; [exact Hv|exfalso].
      assert (Hv' : lit_val m (- x) = true).
      { apply IH; [exact Hx1|]. rewrite Z.opp_involutive. apply Hcv; auto. }
      rewrite lit_val_opp in Hv' by (apply Hnz; exact Hx). rewrite Hv in Hv'. discriminate.
    - pose proof (Ha _ Hin) as Hs. rewrite sat_clause_pbc in Hs. unfold sat_clause in Hs.
      cbn [existsb] in Hs. rewrite orb_false_r in Hs. exact Hs. }
  destruct (cf_false _ _ _ CF m Hc) as [x [Hx [Hf Hv]]].
  assert (Hxnz : x <> 0) by (apply (cf_nz _ _ _ CF); exact Hx).
  assert (Hv' : lit_val m (- x) = true).
  { apply Hall; [apply (false_on_trail st lvl OK); auto|].
    rewrite Z.opp_involutive. apply C; auto. }
  rewrite lit_val_opp in Hv' by exact Hxnz. rewrite Hv in Hv'. discriminate.
Qed.

(* -------- where the antecedents come from -------- *)
Lemma fin_antecedents : forall c, In c ants ->
  (exists t, In t (s_trail st) /\ s_reason st (lvar t) = Some c) \/
  (exists t t1 t2, s_trail st = t1 ++ t :: t2 /\ c = clause_pbc [t] /\
       s_reason st (lvar t) = None /\ s_assumptions st (lvar t) = false /\
       lvl_of st (lvar t) = lvl /\ exists t', In t' t1 /\ lvl_of st (lvar t') = lvl).
Proof.
  intros c Hc. apply in_app_or in Hc. destruct Hc as [Hc|Hc].
  - destruct (w_prov _ _ R c Hc) as [t [Ht [Hm Hr]]].
    pose proof (in_dn_trail _ _ _ (w_split _ _ _ W) Ht) as Htr.
    destruct Hr as [Hr|[Hr ->]]; [left; exists t; auto|right].
    destruct (w_res _ _ R t Ht Hm) as [t1 [t2 [Hsp Hres]]]. rewrite Hr in Hres.
    destruct Hres as [_ [Ha He]]. exists t, t1, t2. repeat split; auto.
    apply (w_mlvl _ _ _ W _ Hm).
  - left. unfold removed_by in Hc. apply in_flat_map in Hc.
    destruct Hc as [x [Hx Hc]]. destruct (k x); [destruct Hc|].
    destruct (s_reason st (lvar x)) as [c'|] eqn:Er; [|destruct Hc].
    destruct Hc as [<-|[]]. exists (- x). rewrite lvar_opp. split; [|exact Er].
    assert (Hxl : In x (a_lits a)) by (apply (Permutation_in _ (Permutation_sym Hperm)); exact Hx).
    destruct (w_lits _ _ _ W x Hxl) as [H1 [H2 _]]. apply (false_on_trail st lvl OK); auto.
Qed.

(* -------- removing literals is self-subsumption -------- *)
Lemma fin_minimize : forall m, sat_clause m (- u :: rest) = true ->
  (forall c, In c (removed_by rest) -> sat_pbc m c = true) -> sat_clause m learned = true.
Proof.
  intros m Hpre Ha. destruct (sat_clause m learned) eqn:Es; [reflexivity|exfalso].
  assert (Hfalse : forall x, In x learned -> lit_val m x = false).
  { intros x Hx. destruct (lit_val m x) eqn:E; [|reflexivity].
    assert (sat_clause m learned = true) by (apply sat_clause_exists; eauto). congruence. }
  assert (Hall : forall t, In t (s_trail st) -> In (- t) rest -> lit_val m t = true).
  { apply (trail_order_ind (fun t => In (- t) rest -> lit_val m t = true)).
    intros t1 t t2 Hsp IH Hr.
    assert (Htnz : t <> 0).
    { apply (ok_nz _ _ OK). rewrite Hsp. apply in_or_app. right. left. reflexivity. }
    assert (Hin : In (- t) (a_lits a)) by (apply (Permutation_in _ (Permutation_sym Hperm)); exact Hr).
    destruct (k (- t)) eqn:Ek0.
    - assert (Hl : In (- t) learned) by (right; apply filter_In; auto).
      pose proof (Hfalse _ Hl) as Hv. rewrite lit_val_opp in Hv by exact Htnz.
      apply negb_false_iff in Hv. exact Hv.
    - pose proof (Hk _ Ek0) as Ek. unfold keep_lit in Ek. rewrite lvar_opp in Ek.
      destruct (s_reason st (lvar t)) as [c|] eqn:Er; [|discriminate].
      assert (Hc : In c (removed_by rest)).
      { unfold removed_by. apply in_flat_map. exists (- t). split; [exact Hr|].
        rewrite Ek0, lvar_opp, Er. left. reflexivity. }
      destruct (ok_reason _ _ OK _ _ _ _ Hsp Er) as [Hnz Hent].
      destruct (Hent m (Ha c Hc)) as [Hv|[x [Hx [Hx1 Hv]]]]; [exact Hv|exfalso].
      assert (Hxt : In (- x) (s_trail st)) by (rewrite Hsp; apply in_or_app; left; exact Hx1).
      assert (Hxl : In x (a_lits a)).
      { apply (w_low _ _ _ W).
        - apply Hnz. exact Hx.
        - rewrite <- (Z.opp_involutive x). apply (trail_false_opp st lvl OK). exact Hxt.
        - destruct (a_met a (lvar x)) eqn:Em; [reflexivity|].
          assert (existsb (fun x0 => negb (a_met a (lvar x0))) (c_lits c) = true).
          { apply existsb_exists. exists x. rewrite Em. auto. }
          congruence.
        - pose proof (ok_mono _ _ OK _ _ _ Hsp _ Hx1) as Hle. rewrite lvar_opp in Hle.
          pose proof (lits_level _ _ _ _ W Hin) as Hlt. rewrite lvar_opp in Hlt. lia. }
      assert (Hv' : lit_val m (- x) = true).
      { apply IH; [exact Hx1|]. rewrite Z.opp_involutive. apply (Permutation_in _ Hperm). exact Hxl. }
      rewrite lit_val_opp in Hv' by (apply Hnz; exact Hx). rewrite Hv in Hv'. discriminate. }
  apply sat_clause_exists in Hpre. destruct Hpre as [y [[<-|Hy] Hv]].
  - rewrite (Hfalse (- u)) in Hv by (left; reflexivity). discriminate.
  - assert (Hyl : In y (a_lits a)) by (apply (Permutation_in _ (Permutation_sym Hperm)); exact Hy).
    destruct (w_lits _ _ _ W y Hyl) as [H1 [H2 _]].
    assert (Hv' : lit_val m (- y) = true).
    { apply Hall; [apply (false_on_trail st lvl OK); auto|]. rewrite Z.opp_involutive. exact Hy. }
    rewrite lit_val_opp in Hv' by exact H1. rewrite Hv in Hv'. discriminate.
Qed.

(* -------- reverse unit propagation (clause antecedents) -------- *)
Lemma fin_rup :
  (forall t1 t t2 c, s_trail st = t1 ++ t :: t2 -> s_reason st (lvar t) = Some c ->
                     clause_reason_ok t1 t c) ->
  clause_confl st confl ->
  rup (map c_lits (confl :: ants)) learned.
Proof.
  intros CR [cc [Ecc Hcc]]. unfold rup.
  set (D := map c_lits (confl :: ants)). set (A := map Z.opp learned).
  assert (Hall : forall t, In t (s_trail st) -> Cov a (- t) -> up_lit D A t).
  { apply (trail_order_ind (fun t => Cov a (- t) -> up_lit D A t)).
    intros t1 t t2 Hsp IH Hcov.
    destruct (cut t1 t t2 Hsp Hcov) as [Hl|[[c [Er [Hin Hcv]]]|[Er [Hin _]]]].
    - apply up_assumed. unfold A. apply in_map_iff. exists (- t). split; [lia|exact Hl].
    - destruct (CR _ _ _ _ Hsp Er) as [cl [Ec [Hwf [Ht Ho]]]].
      assert (Hcl : c_lits c = cl) by (rewrite Ec; apply c_lits_clause).
      apply (up_unit D A cl t).
      + unfold D. apply in_map_iff. exists c. split; [exact Hcl|right; exact Hin].
      + exact Ht.
      + intros l' Hl' Hne. apply IH; [apply Ho; auto|].
        rewrite Z.opp_involutive. apply Hcv; [rewrite Hcl; exact Hl'|apply Ho; auto].
    - apply (up_unit D A [t] t).
      + unfold D. apply in_map_iff. exists (clause_pbc [t]).
        split; [apply c_lits_clause|right; exact Hin].
      + left. reflexivity.
      + intros l' [<-|[]] Hne. contradiction. }
  right. exists cc. split.
  - unfold D. cbn [map]. left. rewrite Ecc. apply c_lits_clause.
  - intros l Hl.
    assert (Hlc : In l (c_lits confl)) by (rewrite Ecc, c_lits_clause; exact Hl).
    apply Hall.
    + apply (false_on_trail st lvl OK); [apply (cf_nz _ _ _ CF); exact Hlc|apply Hcc; exact Hl].
    + rewrite Z.opp_involutive. apply C; [exact Hlc|apply Hcc; exact Hl].
Qed.

End Finished.

(* a finished analysis, unpacked *)
Lemma analysis_done : forall a, analyze st confl lvl = WDone a ->
  exists rt dn u rest,
    WInv rt dn a /\ WRes dn a /\ CC a /\ In u rt /\ a_metLvl a (lvar u) = true /\
    lvl_of st (lvar u) = lvl /\ (forall t, In t rt -> a_metLvl a (lvar t) = true -> t = u) /\
    Permutation (a_lits a) rest /\ StronglySorted (by_level st) rest /\
    finish srt st a = - u :: rest.
Proof.
  intros a Ha. pose proof analyze_inv as H. rewrite Ha in H.
  destruct H as [rt [dn [W [R [C Hnb]]]]].
  destruct (uip_unique _ _ _ W Hnb) as [u [Hf [Hin [Hm [Hl Hq]]]]].
  destruct (finish_shape _ _ _ _ W Hf Hl) as [rest [E [P S]]].
  exists rt, dn, u, rest.
  split; [exact W|]. split; [exact R|]. split; [exact C|]. split; [exact Hin|].
  split; [exact Hm|]. split; [exact Hl|]. split; [exact Hq|]. split; [exact P|]. split; [exact S|exact E].
Qed.

Lemma minimize_shape : forall a u rest,
  minimize_learned st (a_met a) (- u :: rest) = - u :: filter (keep_lit st (a_met a)) rest.
Proof. reflexivity. Qed.

Lemma removed_shape : forall a u rest,
  removed_reasons st (a_met a) (- u :: rest) = removed_by (keep_lit st (a_met a)) rest.
Proof. reflexivity. Qed.

(* ---- learnClause never panics, never leaves lits[0] stale ---- *)
Theorem learn_no_panic_gen : learn_clause_gen srt confl lvl st <> LearnPanic.
Proof.
  unfold learn_clause_gen. pose proof analyze_inv as H.
  destruct (analyze st confl lvl) as [a| |]; [|discriminate|contradiction].
  destruct (minimize_learned st (a_met a) (finish srt st a)) as [|x [|y r]]; discriminate.
Qed.

(* ---- learn_entailed ---- *)
Theorem learn_entailed_gen : forall c,
  learned_lits (learn_clause_gen srt confl lvl st) = Some c ->
  forall m, sat_pbc m confl = true ->
  (forall r, In r (learn_antecedents_gen srt confl lvl st) -> sat_pbc m r = true) ->
  sat_clause m c = true.
Proof.
  intros c Hc m Hm Ha. unfold learn_antecedents_gen in Ha.
  destruct (analyze st confl lvl) as [a| |] eqn:Ean.
  - rewrite (learn_clause_done a Ean) in Hc. injection Hc as <-.
    destruct (analysis_done a Ean) as (rt & dn & u & rest & W & R & C & Hin & Hmk & Hl & Hq & P & S & E).
    rewrite E in *. rewrite minimize_shape. rewrite removed_shape in Ha.
    apply (fin_entailed a rt dn u rest W R C Hq P (keep_lit st (a_met a))); auto.
  - unfold learn_clause_gen in Hc. rewrite Ean in Hc. discriminate.
  - unfold learn_clause_gen in Hc. rewrite Ean in Hc. discriminate.
Qed.

(* ---- learn_falsified ---- *)
Theorem learn_falsified_gen : forall c,
  learned_lits (learn_clause_gen srt confl lvl st) = Some c ->
  forall x, In x c -> x <> 0 /\ lit_false st x = true.
Proof.
  intros c Hc x Hx.
  destruct (analyze st confl lvl) as [a| |] eqn:Ean;
    try (unfold learn_clause_gen in Hc; rewrite Ean in Hc; discriminate).
  rewrite (learn_clause_done a Ean) in Hc. injection Hc as <-.
  destruct (analysis_done a Ean) as (rt & dn & u & rest & W & R & C & Hin & Hmk & Hl & Hq & P & S & E).
  rewrite E, minimize_shape in Hx. split.
  - exact (fin_nonzero a rt dn u rest W Hin P _ x Hx).
  - exact (fin_falsified a rt dn u rest W Hin P _ x Hx).
Qed.

(* ---- learn_asserting: the first literal is the only one of level lvl;
   it is the negation of the trail literal found by the final scan, which
   is the unique marked literal not resolved on (first UIP)              ---- *)
Theorem learn_asserting_gen : forall c,
  learned_lits (learn_clause_gen srt confl lvl st) = Some c ->
  exists h tl_, c = h :: tl_ /\ In (- h) (s_trail st) /\ lvl_of st (lvar h) = lvl /\
                (forall x, In x tl_ -> 1 <= lvl_of st (lvar x) < lvl) /\
                StronglySorted (by_level st) tl_.
Proof.
  intros c Hc.
  destruct (analyze st confl lvl) as [a| |] eqn:Ean;
    try (unfold learn_clause_gen in Hc; rewrite Ean in Hc; discriminate).
  rewrite (learn_clause_done a Ean) in Hc. injection Hc as <-.
  destruct (analysis_done a Ean) as (rt & dn & u & rest & W & R & C & Hin & Hmk & Hl & Hq & P & S & E).
  rewrite E, minimize_shape.
  exists (- u), (filter (keep_lit st (a_met a)) rest). split; [reflexivity|].
  rewrite Z.opp_involutive, lvar_opp. split; [exact (u_trail a rt dn u W Hin)|]. split; [exact Hl|]. split.
  - intros x Hx. apply filter_In in Hx. destruct Hx as [Hx _].
    assert (Hxl : In x (a_lits a)) by (apply (Permutation_in _ (Permutation_sym P)); exact Hx).
    split; [|exact (lits_level _ _ _ _ W Hxl)].
    destruct (w_lits _ _ _ W x Hxl) as [H1 [H2 _]].
    pose proof (trail_lvl_pos st lvl OK _ (false_on_trail st lvl OK x H1 H2)) as Hp.
    rewrite lvar_opp in Hp. exact Hp.
  - apply filter_sorted. exact S.
Qed.

(* ---- learn_backjump: backtrackData returns the highest level among the
   other literals, which is below the current level                       ---- *)
Theorem learn_backjump_gen : forall c, learn_clause_gen srt confl lvl st = LearnedClause c ->
  exists h x r, c = h :: x :: r /\
    backtrack_data st c = (lvl_of st (lvar x), h) /\
    lvl_of st (lvar h) = lvl /\ 1 <= lvl_of st (lvar x) < lvl /\
    forall y, In y (x :: r) -> lvl_of st (lvar y) <= lvl_of st (lvar x).
Proof.
  intros c Hc.
  assert (Hl : learned_lits (learn_clause_gen srt confl lvl st) = Some c) by (rewrite Hc; reflexivity).
  destruct (learn_asserting_gen c Hl) as [h [tl_ [-> [_ [Hh [Hlow Hs]]]]]].
  destruct tl_ as [|x r].
  { exfalso. unfold learn_clause_gen in Hc. destruct (analyze st confl lvl) as [a| |]; try discriminate.
    destruct (minimize_learned st (a_met a) (finish srt st a)) as [|x [|y r]]; try discriminate. }
  exists h, x, r. split; [reflexivity|]. split; [reflexivity|]. split; [exact Hh|].
  split; [apply Hlow; left; reflexivity|].
  intros y [<-|Hy]; [lia|]. inversion Hs as [|? ? _ Hall]; subst.
  rewrite Forall_forall in Hall. exact (Hall y Hy).
Qed.

(* ---- minimize_sound ---- *)
Lemma filter_true : forall (A : Type) (l : list A), filter (fun _ => true) l = l.
Proof. induction l as [|x l IH]; cbn [filter]; [reflexivity|rewrite IH; reflexivity]. Qed.

Theorem minimize_sound_gen : forall a, analyze st confl lvl = WDone a ->
  let pre := finish srt st a in
  let post := minimize_learned st (a_met a) pre in
  (* the clause before minimization is already a consequence *)
  (forall m, sat_pbc m confl = true -> (forall r, In r (a_used a) -> sat_pbc m r = true) ->
             sat_clause m pre = true) /\
  (* each removed literal is resolved away with its reason *)
  (forall m, sat_clause m pre = true ->
             (forall r, In r (removed_reasons st (a_met a) pre) -> sat_pbc m r = true) ->
             sat_clause m post = true) /\
  (* still falsified, still asserting: a sub-clause with the same head *)
  (forall x, In x post -> In x pre) /\ hd 0 post = hd 0 pre.
Proof.
  intros a Ean pre post. unfold post, pre.
  destruct (analysis_done a Ean) as (rt & dn & u & rest & W & R & C & Hin & Hmk & Hl & Hq & P & S & E).
  rewrite E, minimize_shape, removed_shape. split; [|split; [|split]].
  - intros m Hm Ha.
    pose proof (fin_entailed a rt dn u rest W R C Hq P (fun _ => true)) as H.
    rewrite filter_true in H. apply H; [intros x Hx; discriminate|exact Hm|].
    intros r Hr. apply in_app_or in Hr. destruct Hr as [Hr|Hr]; [auto|].
    unfold removed_by in Hr. apply in_flat_map in Hr. destruct Hr as [x [_ []]].
  - intros m Hpre Ha.
    apply (fin_minimize a rt dn u rest W P (keep_lit st (a_met a))); auto.
  - intros x [<-|Hx]; [left; reflexivity|right]. apply filter_In in Hx. apply Hx.
  - reflexivity.
Qed.

(* minimizeLearned looks at ALL the literals of a reason (also those that
   are not false): it removes a literal only if the variable of EVERY literal
   of its reason is met -- at least the false ones that forced it, which is
   all the argument above needs.  It is sound, and merely conservative, for
   cardinality and PB reasons.                                             *)

(* ---- learn_is_rup (C06) ---- *)
Theorem learn_is_rup_gen :
  (forall t1 t t2 c, s_trail st = t1 ++ t :: t2 -> s_reason st (lvar t) = Some c ->
                     clause_reason_ok t1 t c) ->
  clause_confl st confl ->
  forall c, learned_lits (learn_clause_gen srt confl lvl st) = Some c ->
  rup (map c_lits (confl :: learn_antecedents_gen srt confl lvl st)) c.
Proof.
  intros CR CCf c Hc. unfold learn_antecedents_gen.
  destruct (analyze st confl lvl) as [a| |] eqn:Ean;
    try (unfold learn_clause_gen in Hc; rewrite Ean in Hc; discriminate).
  rewrite (learn_clause_done a Ean) in Hc. injection Hc as <-.
  destruct (analysis_done a Ean) as (rt & dn & u & rest & W & R & C & Hin & Hmk & Hl & Hq & P & S & E).
  rewrite E, minimize_shape, removed_shape.
  apply (fin_rup a rt dn u rest W R C Hq P (keep_lit st (a_met a))); auto.
Qed.

(* ---- learn_assumptions (C10) ---- *)
(* where the antecedents come from: reasons of trail literals, and -- only
   when two reason-less literals of level lvl exist -- unit facts that are
   not assumptions                                                         *)
Theorem learn_antecedents_origin_gen : forall r, In r (learn_antecedents_gen srt confl lvl st) ->
  (exists t, In t (s_trail st) /\ s_reason st (lvar t) = Some r) \/
  (exists t t1 t2, s_trail st = t1 ++ t :: t2 /\ r = clause_pbc [t] /\
       s_reason st (lvar t) = None /\ s_assumptions st (lvar t) = false /\
       lvl_of st (lvar t) = lvl /\ exists t', In t' t1 /\ lvl_of st (lvar t') = lvl).
Proof.
  intros r Hr. unfold learn_antecedents_gen in Hr.
  destruct (analyze st confl lvl) as [a| |] eqn:Ean; try (destruct Hr).
  destruct (analysis_done a Ean) as (rt & dn & u & rest & W & R & C & Hin & Hmk & Hl & Hq & P & S & E).
  rewrite E, removed_shape in Hr.
  exact (fin_antecedents a rt dn rest W R P (keep_lit st (a_met a)) r Hr).
Qed.

Theorem learn_top_gen : learn_clause_gen srt confl lvl st = TopLevelConflict ->
  exists t, In t (s_trail st) /\ s_assumptions st (lvar t) = true /\ lvl_of st (lvar t) = lvl.
Proof.
  intros H. unfold learn_clause_gen in H. pose proof analyze_inv as Hi.
  destruct (analyze st confl lvl) as [a| |]; [|exact Hi|contradiction].
  destruct (minimize_learned st (a_met a) (finish srt st a)) as [|x [|y r]]; discriminate.
Qed.

(* [Pm]: the models of the problem.  The conflict and the reasons are
   constraints of the problem (or were learned from it); the reason-less
   literals of level 1 that are not assumptions are its top-level facts;
   a decision (level >= 2) is the first literal of its level.  Then what is
   learned holds in every model of the problem: no assumption was used.    *)
Theorem learn_assumptions_gen : forall (Pm : list bool -> Prop),
  (forall m, Pm m -> sat_pbc m confl = true) ->
  (forall t c, In t (s_trail st) -> s_reason st (lvar t) = Some c -> forall m, Pm m -> sat_pbc m c = true) ->
  (forall t, In t (s_trail st) -> s_reason st (lvar t) = None -> s_assumptions st (lvar t) = false ->
             lvl_of st (lvar t) = 1 -> forall m, Pm m -> lit_val m t = true) ->
  (forall t1 t t2, s_trail st = t1 ++ t :: t2 -> s_reason st (lvar t) = None ->
             2 <= lvl_of st (lvar t) -> forall t', In t' t1 -> lvl_of st (lvar t') < lvl_of st (lvar t)) ->
  forall c, learned_lits (learn_clause_gen srt confl lvl st) = Some c ->
  forall m, Pm m -> sat_clause m c = true.
Proof.
  intros Pm Hconf Hreas Hfact Hdec c Hc m Hm.
  apply (learn_entailed_gen c Hc m (Hconf m Hm)).
  intros r Hr. destruct (learn_antecedents_origin_gen r Hr) as [[t [Ht Er]]|H].
  - exact (Hreas t r Ht Er m Hm).
  - destruct H as (t & t1 & t2 & Hsp & -> & Er & Ea & Hl & t' & Ht' & Hl').
    assert (Ht : In t (s_trail st)) by (rewrite Hsp; apply in_or_app; right; left; reflexivity).
    rewrite sat_clause_pbc. unfold sat_clause. cbn [existsb]. rewrite orb_false_r.
    apply (Hfact t Ht Er Ea); [|exact Hm].
    pose proof (trail_lvl_pos st lvl OK t Ht) as Hp.
    destruct (Z_lt_le_dec (lvl_of st (lvar t)) 2) as [Hlt|Hge]; [lia|].
    pose proof (Hdec _ _ _ Hsp Er Hge t' Ht'). lia.
Qed.

(* from level 2 on (the normal case: search starts at level 2, solver.go:539)
   no reason-less literal is ever resolved on: all antecedents are reasons *)
Theorem learn_antecedents_reasons_gen :
  2 <= lvl ->
  (forall t1 t t2, s_trail st = t1 ++ t :: t2 -> s_reason st (lvar t) = None ->
             2 <= lvl_of st (lvar t) -> forall t', In t' t1 -> lvl_of st (lvar t') < lvl_of st (lvar t)) ->
  forall r, In r (learn_antecedents_gen srt confl lvl st) ->
  exists t, In t (s_trail st) /\ s_reason st (lvar t) = Some r.
Proof.
  intros H2 Hdec r Hr. destruct (learn_antecedents_origin_gen r Hr) as [H|H]; [exact H|exfalso].
  destruct H as (t & t1 & t2 & Hsp & _ & Er & _ & Hl & t' & Ht' & Hl').
  assert (Hge : 2 <= lvl_of st (lvar t)) by lia.
  pose proof (Hdec _ _ _ Hsp Er Hge t' Ht'). lia.
Qed.

(* ================================================================== *)
(* 5. Backjumping                                                      *)

Lemma keep_prefix_split : forall bl tr,
  tr = keep_prefix st bl tr ++ skipn (length (keep_prefix st bl tr)) tr.
Proof.
  intros bl. induction tr as [|l r IH]; cbn [keep_prefix]; [reflexivity|].
  destruct (lvl_of st (lvar l) <=? bl); [|reflexivity].
  cbn [length skipn app]. f_equal. exact IH.
Qed.

Lemma keep_prefix_le : forall bl tr l, In l (keep_prefix st bl tr) -> lvl_of st (lvar l) <= bl.
Proof.
  intros bl. induction tr as [|x r IH]; intros l Hl; cbn [keep_prefix] in Hl; [destruct Hl|].
  destruct (lvl_of st (lvar x) <=? bl) eqn:E; [|destruct Hl].
  destruct Hl as [<-|Hl]; [apply Z.leb_le; exact E|auto].
Qed.

Lemma dropped_head : forall bl tr,
  match skipn (length (keep_prefix st bl tr)) tr with
  | [] => True
  | l :: _ => bl < lvl_of st (lvar l)
  end.
Proof.
  intros bl. induction tr as [|x r IH]; cbn [keep_prefix]; [exact I|].
  destruct (lvl_of st (lvar x) <=? bl) eqn:E.
  - cbn [length skipn]. exact IH.
  - cbn [length skipn]. apply Z.leb_gt in E. exact E.
Qed.

Lemma dropped_gt : forall bl l,
  In l (skipn (length (keep_prefix st bl (s_trail st))) (s_trail st)) -> bl < lvl_of st (lvar l).
Proof.
  intros bl l Hl. pose proof (keep_prefix_split bl (s_trail st)) as Hsp.
  pose proof (dropped_head bl (s_trail st)) as Hh.
  destruct (skipn (length (keep_prefix st bl (s_trail st))) (s_trail st)) as [|d ds]; [destruct Hl|].
  destruct Hl as [<-|Hl]; [exact Hh|].
  apply in_split in Hl. destruct Hl as [p [q ->]].
  assert (E : s_trail st = (keep_prefix st bl (s_trail st) ++ d :: p) ++ l :: q).
  { rewrite Hsp at 1. rewrite <- app_assoc. reflexivity. }
  pose proof (ok_mono _ _ OK _ _ _ E d) as Hm.
  assert (Hd : In d (keep_prefix st bl (s_trail st) ++ d :: p)) by (apply in_or_app; right; left; reflexivity).
  specialize (Hm Hd). lia.
Qed.

Lemma memv_spec : forall v ls, memv v ls = true <-> exists l, In l ls /\ lvar l = v.
Proof.
  intros v ls. unfold memv. rewrite existsb_exists. split.
  - intros [l [H1 H2]]. exists l. split; [exact H1|apply Z.eqb_eq; exact H2].
  - intros [l [H1 H2]]. exists l. split; [exact H1|apply Z.eqb_eq; exact H2].
Qed.

(* a variable bound at a level <= bl keeps its binding *)
Lemma cleanup_keeps : forall bl t, In t (s_trail st) -> lvl_of st (lvar t) <= bl ->
  s_model (cleanup_bindings st bl) (lvar t) = s_model st (lvar t) /\
  s_reason (cleanup_bindings st bl) (lvar t) = s_reason st (lvar t) /\
  In t (s_trail (cleanup_bindings st bl)).
Proof.
  intros bl t Ht Hl. unfold cleanup_bindings. cbn [s_model s_reason s_trail].
  assert (Hnd : memv (lvar t) (skipn (length (keep_prefix st bl (s_trail st))) (s_trail st)) = false).
  { destruct (memv _ _) eqn:E; [|reflexivity]. apply memv_spec in E. destruct E as [l [Hin Hv]].
    pose proof (dropped_gt bl l Hin) as Hgt.
    assert (Hlt : In l (s_trail st)).
    { rewrite (keep_prefix_split bl (s_trail st)). apply in_or_app. right. exact Hin. }
    rewrite (trail_var_inj st lvl OK l t Hlt Ht Hv) in Hgt. lia. }
  rewrite Hnd. split; [reflexivity|]. split; [reflexivity|].
  rewrite (keep_prefix_split bl (s_trail st)) in Ht. apply in_app_or in Ht.
  destruct Ht as [Ht|Ht]; [exact Ht|]. pose proof (dropped_gt bl t Ht). lia.
Qed.

(* a variable bound at a level > bl is unbound *)
Lemma cleanup_unbinds : forall bl t, In t (s_trail st) -> bl < lvl_of st (lvar t) ->
  s_model (cleanup_bindings st bl) (lvar t) = 0 /\ s_reason (cleanup_bindings st bl) (lvar t) = None.
Proof.
  intros bl t Ht Hl. unfold cleanup_bindings. cbn [s_model s_reason].
  assert (Hd : memv (lvar t) (skipn (length (keep_prefix st bl (s_trail st))) (s_trail st)) = true).
  { apply memv_spec. exists t. split; [|reflexivity].
    rewrite (keep_prefix_split bl (s_trail st)) in Ht. apply in_app_or in Ht.
    destruct Ht as [Ht|Ht]; [|exact Ht]. pose proof (keep_prefix_le bl _ _ Ht). lia. }
  rewrite Hd. auto.
Qed.

Lemma lit_false_model_eq : forall s1 s2 x, s_model s1 (lvar x) = s_model s2 (lvar x) ->
  lit_false s1 x = lit_false s2 x.
Proof. intros s1 s2 x H. unfold lit_false. rewrite H. reflexivity. Qed.

(* after cleanupBindings(btLevel) the learned clause is unit: its first
   literal is unbound, all the others are still false; the solver then sets
   the clause as the reason of the first literal and binds it at btLevel    *)
Theorem backjump_unit_gen : forall c, learn_clause_gen srt confl lvl st = LearnedClause c ->
  exists st' bl h tl_,
    conflict_step_gen srt confl lvl st = OJump st' bl h c /\ c = h :: tl_ /\
    1 <= bl < lvl /\
    s_model st' (lvar h) = 0 /\
    s_reason st' (lvar h) = Some (clause_pbc c) /\
    (forall y, In y tl_ -> lit_false st' y = true /\ In (- y) (s_trail st') /\ lvl_of st (lvar y) <= bl) /\
    (exists y, In y tl_ /\ lvl_of st (lvar y) = bl) /\
    s_trail st' = keep_prefix st bl (s_trail st).
Proof.
  intros c Hc. destruct (learn_backjump_gen c Hc) as (h & x & r & -> & Hbd & Hh & Hx & Hmax).
  assert (Hl : learned_lits (learn_clause_gen srt confl lvl st) = Some (h :: x :: r)) by (rewrite Hc; reflexivity).
  pose proof (learn_falsified_gen _ Hl) as Hfal.
  destruct (learn_asserting_gen _ Hl) as (h' & tl' & E & Hht & _). injection E as <- <-.
  set (bl := lvl_of st (lvar x)) in *.
  exists (LState (s_trail (cleanup_bindings st bl)) (s_model (cleanup_bindings st bl))
                 (fun v => if v =? lvar h then Some (clause_pbc (h :: x :: r))
                           else s_reason (cleanup_bindings st bl) v)
                 (s_assumptions (cleanup_bindings st bl))), bl, h, (x :: r).
  split; [unfold conflict_step_gen; rewrite Hc, Hbd; reflexivity|].
  split; [reflexivity|]. split; [exact Hx|]. cbn [s_model s_reason s_trail].
  split; [|split; [|split; [|split]]].
  - assert (Hgt : bl < lvl_of st (lvar (- h))) by (rewrite lvar_opp; lia).
    pose proof (cleanup_unbinds bl (- h) Hht Hgt) as [H _]. rewrite lvar_opp in H. exact H.
  - rewrite Z.eqb_refl. reflexivity.
  - intros y Hy. destruct (Hfal y (or_intror Hy)) as [Hnz Hf].
    pose proof (false_on_trail st lvl OK y Hnz Hf) as Hyt.
    assert (Hyl : lvl_of st (lvar (- y)) <= bl) by (rewrite lvar_opp; apply Hmax; exact Hy).
    destruct (cleanup_keeps bl (- y) Hyt Hyl) as [Hm [_ Hin]]. rewrite lvar_opp in Hm.
    split; [|split].
    + rewrite <- Hf. apply lit_false_model_eq. exact Hm.
    + exact Hin.
    + rewrite lvar_opp in Hyl. exact Hyl.
  - exists x. split; [left; reflexivity|reflexivity].
  - reflexivity.
Qed.

Lemma snoc_split : forall (A : Type) (K : list A) (h : A) t1 l t2,
  K ++ [h] = t1 ++ l :: t2 ->
  (t2 = [] /\ l = h /\ t1 = K) \/ (exists t2', t2 = t2' ++ [h] /\ K = t1 ++ l :: t2').
Proof.
  intros A K h t1 l t2 E. destruct (exists_last (l := l :: t2)) as [p [z Hp]]; [discriminate|].
  destruct t2 as [|y t2].
  - left. change (t1 ++ [l]) with (t1 ++ [l]) in E. apply app_inj_tail in E. destruct E; auto.
  - right. destruct p as [|p0 p]; [destruct t2; discriminate|].
    cbn [app] in Hp. injection Hp as <- Hp. rewrite Hp in E.
    change (t1 ++ l :: p ++ [z]) with (t1 ++ (l :: p) ++ [z]) in E.
    rewrite app_assoc in E. apply app_inj_tail in E. destruct E as [E <-].
    exists p. auto.
Qed.

Lemma abs_signed_lvl : forall h bl, 0 <= bl -> Z.abs (signed_lvl h bl) = bl.
Proof. intros h bl H. unfold signed_lvl. destruct (0 <? h); lia. Qed.

(* the invariant is re-established: after cleanupBindings(btLevel),
   s.reason[lit.Var()] = learnt and unifyLiteral(lit, btLevel) (before its
   propagation) the state is again a good state, at level btLevel, in which
   the learned clause is the reason of its first literal                   *)
Theorem conflict_step_ok_gen : forall st' bl h c,
  conflict_step_gen srt confl lvl st = OJump st' bl h c ->
  state_ok (unify_literal st' h bl) bl /\
  clause_reason_ok (s_trail st') h (clause_pbc c) /\
  s_reason (unify_literal st' h bl) (lvar h) = Some (clause_pbc c) /\
  lit_true (unify_literal st' h bl) h = true.
Proof.
  intros st' bl h c Hstep.
  assert (Hc : learn_clause_gen srt confl lvl st = LearnedClause c).
  { unfold conflict_step_gen in Hstep.
    destruct (learn_clause_gen srt confl lvl st) as [c0|u0| |]; try discriminate.
    - destruct (backtrack_data st c0). injection Hstep as _ _ _ <-. reflexivity.
    - destruct ((lvl_of st (lvar u0) =? 1) && lit_false st u0); discriminate. }
  destruct (backjump_unit_gen c Hc) as (st'' & bl' & h' & tl_ & Hs & -> & Hbl & Hm0 & Hr0 & Htl & _ & Htr).
  rewrite Hs in Hstep. injection Hstep as <- <- <-.
  assert (HLL : learned_lits (learn_clause_gen srt confl lvl st) = Some (h' :: tl_)) by (rewrite Hc; reflexivity).
  pose proof (learn_falsified_gen _ HLL) as Hfal.
  destruct (learn_asserting_gen _ HLL) as (h2 & tl2 & E & Hht & Hhl & _). injection E as <- <-.
  destruct (Hfal h' (or_introl eq_refl)) as [Hhnz _].
  (* the shape of st'' *)
  assert (Hst : exists rs, st'' = LState (keep_prefix st bl' (s_trail st)) (s_model (cleanup_bindings st bl'))
                                          rs (s_assumptions st) /\
                            rs (lvar h') = Some (clause_pbc (h' :: tl_)) /\
                            forall v, v <> lvar h' -> rs v = s_reason (cleanup_bindings st bl') v).
  { unfold conflict_step_gen in Hs. rewrite Hc in Hs.
    destruct (backtrack_data st (h' :: tl_)) as [b l] eqn:Eb. injection Hs as <- <- <-.
    cbn [backtrack_data nth] in Eb. injection Eb as <-.
    eexists. split; [reflexivity|]. split; [rewrite Z.eqb_refl; reflexivity|].
    intros v Hv. apply Z.eqb_neq in Hv. rewrite Hv. reflexivity. }
  destruct Hst as (rs & -> & Hrs1 & Hrs2). cbn [s_trail s_model s_reason] in *.
  set (K := keep_prefix st bl' (s_trail st)) in *.
  set (Dd := skipn (length K) (s_trail st)).
  assert (Hsp : s_trail st = K ++ Dd) by (apply keep_prefix_split).
  assert (HK : forall l, In l K -> In l (s_trail st)) by (intros l Hl; rewrite Hsp; apply in_or_app; auto).
  assert (HKle : forall l, In l K -> lvl_of st (lvar l) <= bl') by (intros l Hl; apply (keep_prefix_le bl' _ _ Hl)).
  assert (HKv : forall l, In l K -> lvar l <> lvar h').
  { intros l Hl Ev. rewrite <- (lvar_opp h') in Ev.
    pose proof (trail_var_inj st lvl OK l (- h') (HK l Hl) Hht Ev) as ->.
    pose proof (HKle _ Hl) as Hle. rewrite lvar_opp in Hle. lia. }
  assert (HKm : forall l, In l K -> s_model (cleanup_bindings st bl') (lvar l) = s_model st (lvar l) /\
                                     s_reason (cleanup_bindings st bl') (lvar l) = s_reason st (lvar l)).
  { intros l Hl. destruct (cleanup_keeps bl' l (HK l Hl) (HKle l Hl)) as [H1 [H2 _]]. auto. }
  unfold unify_literal. cbn [s_trail s_model s_reason s_assumptions].
  set (st3 := LState (K ++ [h'])
                     (fun v => if v =? lvar h' then signed_lvl h' bl' else s_model (cleanup_bindings st bl') v)
                     rs (s_assumptions st)).
  assert (Hm3h : s_model st3 (lvar h') = signed_lvl h' bl').
  { unfold st3. cbn [s_model]. rewrite Z.eqb_refl. reflexivity. }
  assert (Hm3K : forall l, In l K -> s_model st3 (lvar l) = s_model st (lvar l)).
  { intros l Hl. unfold st3. cbn [s_model]. pose proof (HKv l Hl) as Hne. apply Z.eqb_neq in Hne.
    rewrite Hne. apply (HKm l Hl). }
  assert (Hl3h : lvl_of st3 (lvar h') = bl').
  { unfold lvl_of. rewrite Hm3h. apply abs_signed_lvl. lia. }
  assert (Hl3K : forall l, In l K -> lvl_of st3 (lvar l) = lvl_of st (lvar l)).
  { intros l Hl. unfold lvl_of. rewrite (Hm3K l Hl). reflexivity. }
  assert (Htrue : lit_true st3 h' = true).
  { unfold lit_true. rewrite Hm3h. unfold signed_lvl.
    destruct (0 <? h') eqn:Eh.
    - assert (Hb : (bl' =? 0) = false) by (apply Z.eqb_neq; lia). rewrite Hb.
      assert (Hp : (0 <? bl') = true) by (apply Z.ltb_lt; lia). rewrite Hp. reflexivity.
    - assert (Hb : (- bl' =? 0) = false) by (apply Z.eqb_neq; lia). rewrite Hb.
      assert (Hp : (0 <? - bl') = false) by (apply Z.ltb_ge; lia). rewrite Hp. reflexivity. }
  assert (Hcr : clause_reason_ok K h' (clause_pbc (h' :: tl_))).
  { exists (h' :: tl_). split; [reflexivity|]. split; [|split; [left; reflexivity|]].
    - intros x Hx. apply (Hfal x Hx).
    - intros x [<-|Hx] Hne; [contradiction|]. apply (Htl x Hx). }
  split; [|split; [exact Hcr|split; [exact Hrs1|exact Htrue]]].
  constructor; fold st3.
  - intros l Hl. cbn [s_trail st3] in Hl. apply in_app_or in Hl.
    destruct Hl as [Hl|[<-|[]]]; [apply (ok_nz _ _ OK); auto|exact Hhnz].
  - cbn [s_trail st3]. rewrite map_app. apply NoDup_app_disj.
    + pose proof (ok_nodup _ _ OK) as ND. rewrite Hsp, map_app in ND. apply NoDup_app_l in ND. exact ND.
    + constructor; [intros []|constructor].
    + intros v Hv [<-|[]]. apply in_map_iff in Hv. destruct Hv as [l [Ev Hl]]. exact (HKv l Hl Ev).
  - intros l Hl. cbn [s_trail st3] in Hl. apply in_app_or in Hl. destruct Hl as [Hl|[<-|[]]]; [|exact Htrue].
    pose proof (ok_true _ _ OK l (HK l Hl)) as Ht. unfold lit_true in *. rewrite (Hm3K l Hl). exact Ht.
  - intros v Hv. cbn [s_trail st3]. unfold st3 in Hv. cbn [s_model] in Hv.
    destruct (v =? lvar h') eqn:Ev.
    + apply Z.eqb_eq in Ev. exists h'. split; [apply in_or_app; right; left; reflexivity|auto].
    + unfold cleanup_bindings in Hv. cbn [s_model] in Hv. fold K in Hv. fold Dd in Hv.
      destruct (memv v Dd) eqn:Em; [contradiction Hv; reflexivity|].
      destruct (ok_bound _ _ OK v Hv) as [l [Hl Hlv]]. exists l. split; [|exact Hlv].
      apply in_or_app. left. rewrite Hsp in Hl. apply in_app_or in Hl. destruct Hl as [Hl|Hl]; [exact Hl|].
      exfalso. assert (memv v Dd = true) by (apply memv_spec; exists l; auto). congruence.
  - intros t1 l t2 Hd l' Hl'. cbn [s_trail st3] in Hd.
    destruct (snoc_split _ _ _ _ _ _ Hd) as [[-> [-> ->]]|[t2' [-> HKd]]].
    + rewrite Hl3h, (Hl3K l' Hl'). apply HKle. exact Hl'.
    + assert (Hl1 : In l K) by (rewrite HKd; apply in_or_app; right; left; reflexivity).
      assert (Hl2 : In l' K) by (rewrite HKd; apply in_or_app; left; exact Hl').
      rewrite (Hl3K l Hl1), (Hl3K l' Hl2).
      apply (ok_mono _ _ OK t1 l (t2' ++ Dd)); [|exact Hl'].
      rewrite Hsp, HKd, <- app_assoc. reflexivity.
  - intros l Hl. cbn [s_trail st3] in Hl. apply in_app_or in Hl. destruct Hl as [Hl|[<-|[]]].
    + rewrite (Hl3K l Hl). apply HKle. exact Hl.
    + rewrite Hl3h. lia.
  - intros t1 l t2 c0 Hd Hr. cbn [s_trail st3] in Hd. unfold st3 in Hr. cbn [s_reason] in Hr.
    destruct (snoc_split _ _ _ _ _ _ Hd) as [[-> [-> ->]]|[t2' [-> HKd]]].
    + rewrite Hrs1 in Hr. injection Hr as <-. apply clause_reason_is_reason. exact Hcr.
    + assert (Hl1 : In l K) by (rewrite HKd; apply in_or_app; right; left; reflexivity).
      rewrite (Hrs2 _ (HKv l Hl1)) in Hr. destruct (HKm l Hl1) as [_ Hreq]. rewrite Hreq in Hr.
      apply (ok_reason _ _ OK t1 l (t2' ++ Dd) c0); [|exact Hr].
      rewrite Hsp, HKd, <- app_assoc. reflexivity.
Qed.

End Analysis.

(* ================================================================== *)
(* 6. Completeness of the independent checker [rup_line] of Model/Rup.v *)
(*    with respect to relational unit propagation (Proofs.Rup.rup)      *)

Definition consistent (a : list lit) : Prop := forall l, In l a -> ~ In (- l) a.
Definition csat (a : list lit) (c : clause) : bool := existsb (fun l => memz l a) c.
Definition quiet (a : list lit) (c : clause) : Prop :=
  match clause_status a c with CSat | CMany => True | _ => False end.

Lemma csat_mono : forall a a' c, incl a a' -> csat a c = true -> csat a' c = true.
Proof.
  intros a a' c Hi H. unfold csat in *. apply existsb_exists in H. destruct H as [l [Hl Hm]].
  apply existsb_exists. exists l. split; [exact Hl|]. apply memz_In. apply Hi. apply memz_In. exact Hm.
Qed.

Lemma clause_status_unit : forall a c l, clause_status a c = CUnit l ->
  csat a c = false /\ In l c /\ ~ In (- l) a.
Proof.
  intros a c l H. unfold clause_status in H. fold (csat a c) in H.
  destruct (csat a c); [discriminate|]. split; [reflexivity|].
  destruct (filter (fun l0 => negb (memz (- l0) a)) c) as [|x r] eqn:Ef; [discriminate|].
  destruct (forallb (Z.eqb x) r); [|discriminate]. injection H as <-.
  assert (Hx : In x (filter (fun l0 => negb (memz (- l0) a)) c)) by (rewrite Ef; left; reflexivity).
  apply filter_In in Hx. destruct Hx as [Hx Hn]. split; [exact Hx|].
  intro Hin. apply memz_In in Hin. rewrite Hin in Hn. discriminate.
Qed.

Lemma rup_pass_spec : forall d a ch a' ch', wf_cnf d -> consistent a ->
  rup_pass d a ch = Some (a', ch') ->
  incl a a' /\ consistent a' /\
  ((ch' = ch /\ a' = a /\ forall c, In c d -> quiet a c) \/
   (ch' = true /\ exists c, In c d /\ csat a c = false /\ csat a' c = true)).
Proof.
  induction d as [|c d IH]; intros a ch a' ch' Hwf Hcons H; cbn [rup_pass] in H.
  - injection H as <- <-. split; [apply incl_refl|]. split; [exact Hcons|]. left. auto.
    split; [reflexivity|]. split; [reflexivity|]. intros c [].
  - assert (Hwd : wf_cnf d) by (intros x Hx; apply Hwf; right; exact Hx).
    destruct (clause_status a c) as [| |l|] eqn:Est.
    + destruct (IH a ch a' ch' Hwd Hcons H) as [Hi [Hc Hd]]. split; [exact Hi|]. split; [exact Hc|].
      destruct Hd as [[E1 [E2 Hq]]|[E1 [c' [Hc' Hs]]]].
      * left. split; [exact E1|]. split; [exact E2|]. intros c' [<-|Hc']; [|auto].
        unfold quiet. rewrite Est. exact I.
      * right. split; [exact E1|]. exists c'. split; [right; exact Hc'|exact Hs].
    + discriminate.
    + destruct (clause_status_unit a c l Est) as [Hns [Hlc Hnl]].
      assert (Hlnz : l <> 0) by (apply (Hwf c); [left; reflexivity|exact Hlc]).
      assert (Hcons' : consistent (l :: a)).
      { intros x [<-|Hx] [E|Hin].
        - lia.
        - exact (Hnl Hin).
        - apply Hnl. rewrite E. rewrite Z.opp_involutive. exact Hx.
        - exact (Hcons x Hx Hin). }
      destruct (IH (l :: a) true a' ch' Hwd Hcons' H) as [Hi [Hc Hd]].
      split; [intros x Hx; apply Hi; right; exact Hx|]. split; [exact Hc|].
      right. split; [destruct Hd as [[E _]|[E _]]; exact E|].
      exists c. split; [left; reflexivity|]. split; [exact Hns|].
      unfold csat. apply existsb_exists. exists l. split; [exact Hlc|].
      apply memz_In. apply Hi. left. reflexivity.
    + destruct (IH a ch a' ch' Hwd Hcons H) as [Hi [Hc Hd]]. split; [exact Hi|]. split; [exact Hc|].
      destruct Hd as [[E1 [E2 Hq]]|[E1 [c' [Hc' Hs]]]].
      * left. split; [exact E1|]. split; [exact E2|]. intros c' [<-|Hc']; [|auto].
        unfold quiet. rewrite Est. exact I.
      * right. split; [exact E1|]. exists c'. split; [right; exact Hc'|exact Hs].
Qed.

Lemma filter_length_lt : forall (A : Type) (f g : A -> bool) l,
  (forall x, g x = true -> f x = true) ->
  (exists x, In x l /\ f x = true /\ g x = false) ->
  (length (filter g l) < length (filter f l))%nat.
Proof.
  intros A f g l Himp. 
  assert (Hle : forall l, (length (filter g l) <= length (filter f l))%nat).
  { clear l. induction l as [|y l IH]; cbn [filter]; [lia|].
    destruct (g y) eqn:Eg.
    - rewrite (Himp y Eg). cbn [length]. lia.
    - destruct (f y); cbn [length]; lia. }
  induction l as [|y l IH]; intros [x [Hx [Hf Hg]]]; [destruct Hx|].
  cbn [filter]. destruct Hx as [->|Hx].
  - rewrite Hf, Hg. cbn [length]. specialize (Hle l). lia.
  - assert (IH' : (length (filter g l) < length (filter f l))%nat) by (apply IH; exists x; auto).
    destruct (g y) eqn:Eg.
    + rewrite (Himp y Eg). cbn [length]. lia.
    + destruct (f y); cbn [length]; lia.
Qed.

Lemma filter_len_le : forall (A : Type) (f : A -> bool) l, (length (filter f l) <= length l)%nat.
Proof. induction l as [|x l IH]; cbn [filter length]; [lia|]. destruct (f x); cbn [length]; lia. Qed.

Definition unsat_cnt (a : list lit) (d : cnf) : nat := length (filter (fun c => negb (csat a c)) d).

Lemma rup_prop_fix : forall d, wf_cnf d -> forall fuel a, consistent a -> (unsat_cnt a d < fuel)%nat ->
  rup_prop fuel d a = Some true \/
  (rup_prop fuel d a = Some false /\
   exists a', incl a a' /\ consistent a' /\ forall c, In c d -> quiet a' c).
Proof.
  intros d Hwf. induction fuel as [|f IH]; intros a Hcons Hlt; [lia|].
  cbn [rup_prop]. destruct (rup_pass d a false) as [[a' ch]|] eqn:Ep; [|left; reflexivity].
  destruct (rup_pass_spec d a false a' ch Hwf Hcons Ep) as [Hi [Hc Hd]].
  destruct Hd as [[-> [-> Hq]]|[-> [c [Hcd [Hs1 Hs2]]]]].
  - right. split; [reflexivity|]. exists a. split; [apply incl_refl|]. auto.
  - assert (Hlt' : (unsat_cnt a' d < f)%nat).
    { assert (H : (unsat_cnt a' d < unsat_cnt a d)%nat).
      { unfold unsat_cnt. apply filter_length_lt.
        - intros x Hx. apply negb_true_iff in Hx. apply negb_true_iff.
          destruct (csat a x) eqn:E; [|reflexivity]. rewrite (csat_mono a a' x Hi E) in Hx. discriminate.
        - exists c. rewrite Hs1, Hs2. auto. }
      lia. }
    destruct (IH a' Hc Hlt') as [H|[H [a'' [Hi' [Hc' Hq]]]]]; [left; exact H|].
    right. split; [exact H|]. exists a''. split; [|auto].
    intros x Hx. apply Hi'. apply Hi. exact Hx.
Qed.

Lemma quiet_closed : forall D A a, consistent a -> incl A a ->
  (forall c, In c D -> quiet a c) -> forall l, up_lit D A l -> In l a.
Proof.
  intros D A a Hcons Hi Hq l Hl. induction Hl as [l Hl|c l Hc Hlc Hprem IH]; [apply Hi; exact Hl|].
  pose proof (Hq c Hc) as Hqc. unfold quiet, clause_status in Hqc.
  destruct (existsb (fun l0 => memz l0 a) c) eqn:Es.
  - apply existsb_exists in Es. destruct Es as [x [Hx Hm]]. apply memz_In in Hm.
    destruct (Z.eq_dec x l) as [->|Hne]; [exact Hm|].
    exfalso. exact (Hcons x Hm (IH x Hx Hne)).
  - exfalso.
    assert (Hall : forall x, In x (filter (fun l0 => negb (memz (- l0) a)) c) -> x = l).
    { intros x Hx. apply filter_In in Hx. destruct Hx as [Hx Hn].
      destruct (Z.eq_dec x l) as [E|Hne]; [exact E|exfalso].
      pose proof (IH x Hx Hne) as Hin. apply memz_In in Hin. rewrite Hin in Hn. discriminate. }
    destruct (filter (fun l0 => negb (memz (- l0) a)) c) as [|x r]; [exact Hqc|].
    assert (Hf : forallb (Z.eqb x) r = true).
    { apply forallb_forall. intros y Hy. apply Z.eqb_eq.
      rewrite (Hall x (or_introl eq_refl)), (Hall y (or_intror Hy)). reflexivity. }
    rewrite Hf in Hqc. exact Hqc.
Qed.

Lemma quiet_no_conflict : forall D A a, consistent a -> incl A a ->
  (forall c, In c D -> quiet a c) -> ~ up_conflict D A.
Proof.
  intros D A a Hcons Hi Hq [[l [H1 H2]]|[c [Hc Hall]]].
  - exact (Hcons l (quiet_closed D A a Hcons Hi Hq l H1) (quiet_closed D A a Hcons Hi Hq _ H2)).
  - pose proof (Hq c Hc) as Hqc. unfold quiet, clause_status in Hqc.
    destruct (existsb (fun l0 => memz l0 a) c) eqn:Es.
    + apply existsb_exists in Es. destruct Es as [x [Hx Hm]]. apply memz_In in Hm.
      exact (Hcons x Hm (quiet_closed D A a Hcons Hi Hq _ (Hall x Hx))).
    + assert (Hnil : filter (fun l0 => negb (memz (- l0) a)) c = []).
      { destruct (filter (fun l0 => negb (memz (- l0) a)) c) as [|x r] eqn:Ef; [reflexivity|exfalso].
        assert (Hx : In x (filter (fun l0 => negb (memz (- l0) a)) c)) by (rewrite Ef; left; reflexivity).
        apply filter_In in Hx. destruct Hx as [Hx Hn].
        pose proof (quiet_closed D A a Hcons Hi Hq _ (Hall x Hx)) as Hin.
        apply memz_In in Hin. rewrite Hin in Hn. discriminate. }
      rewrite Hnil in Hqc. exact Hqc.
Qed.

(* a clause that has the RUP property is accepted by [rup_line] as soon as
   the fuel exceeds the number of clauses *)
Theorem rup_line_complete : forall D c fuel, wf_cnf D -> rup D c ->
  (length D < fuel)%nat -> rup_line fuel D c = Some true.
Proof.
  intros D c fuel Hwf Hrup Hfuel. unfold rup_line.
  destruct (inconsistent (map Z.opp c)) eqn:Ei; [reflexivity|].
  assert (Hcons : consistent (map Z.opp c)).
  { intros l Hl Hn. unfold inconsistent in Ei.
    assert (existsb (fun l0 => memz (- l0) (map Z.opp c)) (map Z.opp c) = true).
    { apply existsb_exists. exists l. split; [exact Hl|apply memz_In; exact Hn]. }
    congruence. }
  assert (Hlt : (unsat_cnt (map Z.opp c) D < fuel)%nat).
  { unfold unsat_cnt. pose proof (filter_len_le _ (fun c0 => negb (csat (map Z.opp c) c0)) D). lia. }
  destruct (rup_prop_fix D Hwf fuel _ Hcons Hlt) as [H|[_ [a' [Hi [Hc Hq]]]]]; [exact H|].
  exfalso. exact (quiet_no_conflict D (map Z.opp c) a' Hc Hi Hq Hrup).
Qed.

(* ================================================================== *)
(* 7. The executable checks of Model/Learn.v (section 5) are sound      *)

Lemma memz_l_In : forall x l, memz_l x l = true <-> In x l.
Proof.
  intros x l. unfold memz_l. rewrite existsb_exists. split.
  - intros [y [Hy E]]. apply Z.eqb_eq in E. subst. exact Hy.
  - intros H. exists x. split; [exact H|apply Z.eqb_refl].
Qed.

Lemma nodupb_NoDup : forall l, nodupb l = true -> NoDup l.
Proof.
  induction l as [|x l IH]; intros H; [constructor|]. cbn [nodupb] in H.
  apply andb_true_iff in H. destruct H as [H1 H2]. constructor; [|auto].
  intro Hin. apply memz_l_In in Hin. rewrite Hin in H1. discriminate.
Qed.

Lemma unit_weights_terms : forall c, forallb (fun t => fst t =? 1) (terms c) = true ->
  terms c = unit_terms (c_lits c).
Proof.
  intros c. unfold c_lits, unit_terms. induction (terms c) as [|[w l] ts IH]; intros H; [reflexivity|].
  cbn [forallb fst] in H. apply andb_true_iff in H. destruct H as [Hw Ht]. apply Z.eqb_eq in Hw. subst w.
  cbn [map snd]. f_equal. exact (IH Ht).
Qed.

Lemma lhs_split : forall m (p : term -> bool) ts,
  lhs m ts = lhs m (filter p ts) + lhs m (filter (fun t => negb (p t)) ts).
Proof.
  intros m p. induction ts as [|t ts IH]; [reflexivity|]. cbn [lhs filter].
  destruct (p t); cbn [negb lhs]; lia.
Qed.

Lemma lhs_le_wsum : forall m ts, forallb (fun t => 0 <=? fst t) ts = true -> lhs m ts <= wsum ts.
Proof.
  intros m. induction ts as [|t ts IH]; intros H; [cbn; lia|]. cbn [forallb] in H.
  apply andb_true_iff in H. destruct H as [Hw Ht]. apply Z.leb_le in Hw. specialize (IH Ht).
  cbn [lhs wsum]. unfold term_val. destruct (lit_val m (snd t)); lia.
Qed.

Lemma lhs_pos_exists : forall m ts, 1 <= lhs m ts -> exists t, In t ts /\ lit_val m (snd t) = true.
Proof.
  intros m. induction ts as [|t ts IH]; intros H; [cbn in H; lia|]. cbn [lhs] in H. unfold term_val in H.
  destruct (lit_val m (snd t)) eqn:E.
  - exists t. split; [left; reflexivity|exact E].
  - destruct IH as [t' [H1 H2]]; [lia|]. exists t'. split; [right; exact H1|exact H2].
Qed.

Lemma forallb_filter : forall (A : Type) (f p : A -> bool) l, forallb f l = true -> forallb f (filter p l) = true.
Proof.
  intros A f p l H. rewrite forallb_forall in *. intros x Hx. apply filter_In in Hx. apply H. apply Hx.
Qed.

Lemma forallb_nonzero : forall l, forallb (fun x => negb (x =? 0)) l = true -> forall x, In x l -> x <> 0.
Proof.
  intros l H x Hx. rewrite forallb_forall in H. specialize (H x Hx).
  apply negb_true_iff in H. apply Z.eqb_neq. exact H.
Qed.

Theorem pb_reason_chk_sound : forall pre l c, pb_reason_chk pre l c = true -> reason_ok pre l c.
Proof.
  intros pre l c H. unfold pb_reason_chk in H.
  repeat (apply andb_true_iff in H; destruct H as [H ?]).
  rename H into Hw, H0 into Hdeg, H1 into Hnl, H2 into Hl, H3 into Hnz.
  split; [exact (forallb_nonzero _ Hnz)|].
  intros m Hs. destruct (lit_val m l) eqn:Ev; [left; reflexivity|right].
  unfold sat_pbc in Hs. apply Z.leb_le in Hs. apply Z.ltb_lt in Hdeg.
  set (q := fun t : term => negb (memz_l (- snd t) pre) && negb (snd t =? l)).
  change (wsum (filter q (terms c)) < degree c) in Hdeg.
  rewrite (lhs_split m q) in Hs.
  pose proof (lhs_le_wsum m (filter q (terms c)) (forallb_filter _ _ q _ Hw)) as Hle.
  destruct (lhs_pos_exists m (filter (fun t => negb (q t)) (terms c))) as [t [Ht Hv]]; [lia|].
  apply filter_In in Ht. destruct Ht as [Ht Hq]. unfold q in Hq.
  exists (snd t). split; [unfold c_lits; apply in_map; exact Ht|]. split; [|exact Hv].
  apply memz_l_In. destruct (memz_l (- snd t) pre); [reflexivity|]. cbn [negb andb] in Hq.
  apply negb_true_iff, negb_false_iff, Z.eqb_eq in Hq. rewrite Hq in Hv. congruence.
Qed.

Lemma pbc_eta : forall c, c = PBC (terms c) (degree c).
Proof. intros []. reflexivity. Qed.

Lemma wsum_units : forall ts, forallb (fun t => fst t =? 1) ts = true -> wsum ts = Z.of_nat (length ts).
Proof.
  induction ts as [|t ts IH]; intros H; [reflexivity|]. cbn [forallb] in H.
  apply andb_true_iff in H. destruct H as [Hw Ht]. apply Z.eqb_eq in Hw. cbn [wsum length].
  rewrite (IH Ht). lia.
Qed.

Lemma is_clause_eq : forall c, is_clause c = true -> c = clause_pbc (c_lits c).
Proof.
  intros c H. unfold is_clause in H. apply andb_true_iff in H. destruct H as [Hw Hd].
  apply Z.eqb_eq in Hd. rewrite (pbc_eta c) at 1. unfold clause_pbc.
  rewrite <- (unit_weights_terms c Hw), Hd. reflexivity.
Qed.

Theorem pb_reason_chk_clause : forall pre l c, pb_reason_chk pre l c = true ->
  is_clause c = true -> clause_reason_ok pre l c.
Proof.
  intros pre l c H Hc. pose proof (is_clause_eq c Hc) as Heq. unfold pb_reason_chk in H.
  repeat (apply andb_true_iff in H; destruct H as [H ?]).
  rename H into Hw, H0 into Hdeg, H1 into Hnl, H2 into Hl, H3 into Hnz.
  unfold is_clause in Hc. apply andb_true_iff in Hc. destruct Hc as [Hu Hd]. apply Z.eqb_eq in Hd.
  exists (c_lits c). split; [exact Heq|]. split; [exact (forallb_nonzero _ Hnz)|].
  split; [apply memz_l_In; exact Hl|].
  intros x Hx Hne. apply memz_l_In. destruct (memz_l (- x) pre) eqn:E; [reflexivity|exfalso].
  apply Z.ltb_lt in Hdeg. rewrite Hd in Hdeg.
  set (q := fun t : term => negb (memz_l (- snd t) pre) && negb (snd t =? l)).
  change (wsum (filter q (terms c)) < 1) in Hdeg.
  rewrite (wsum_units (filter q (terms c)) (forallb_filter _ _ q _ Hu)) in Hdeg.
  unfold c_lits in Hx. apply in_map_iff in Hx. destruct Hx as [t [Et Ht]].
  assert (Hin : In t (filter q (terms c))).
  { apply filter_In. split; [exact Ht|]. unfold q. rewrite Et, E. cbn [negb andb].
    apply negb_true_iff. apply Z.eqb_neq. exact Hne. }
  destruct (filter q (terms c)); [destruct Hin|cbn [length] in Hdeg; lia].
Qed.

Lemma trail_chk_spec : forall st tr pre, trail_chk st pre tr = true ->
  forall t1 l t2, tr = t1 ++ l :: t2 ->
  (forall l', In l' (pre ++ t1) -> lvl_of st (lvar l') <= lvl_of st (lvar l)) /\
  (forall c, s_reason st (lvar l) = Some c -> pb_reason_chk (pre ++ t1) l c = true).
Proof.
  intros st. induction tr as [|x tr IH]; intros pre H t1 l t2 E.
  - destruct t1; discriminate.
  - cbn [trail_chk] in H. apply andb_true_iff in H. destruct H as [H H3].
    apply andb_true_iff in H. destruct H as [H1 H2].
    destruct t1 as [|y t1]; cbn [app] in E; injection E as -> E.
    + rewrite app_nil_r. split.
      * intros l' Hl'. rewrite forallb_forall in H1. apply Z.leb_le. exact (H1 l' Hl').
      * intros c Hc. rewrite Hc in H2. exact H2.
    + destruct (IH (pre ++ [y]) H3 t1 l t2 E) as [A B].
      replace (pre ++ y :: t1) with ((pre ++ [y]) ++ t1) by (rewrite <- app_assoc; reflexivity).
      auto.
Qed.

Theorem state_okb_sound : forall trail ml rl al lvl,
  state_okb trail ml rl al lvl = true -> state_ok (mk_state trail ml rl al) lvl.
Proof.
  intros trail ml rl al lvl H. unfold state_okb in H.
  repeat (apply andb_true_iff in H; destruct H as [H ?]).
  rename H into Hnz, H4 into Hnd, H3 into Htrue, H2 into Hbound, H1 into Hmax, H0 into Hchk.
  set (st := mk_state trail ml rl al) in *.
  constructor; change (s_trail st) with trail.
  - exact (forallb_nonzero _ Hnz).
  - exact (nodupb_NoDup _ Hnd).
  - rewrite forallb_forall in Htrue. exact Htrue.
  - intros v Hv. unfold st, mk_state in Hv. cbn [s_model] in Hv. unfold of_list in Hv.
    destruct (1 <=? v) eqn:E1; [apply Z.leb_le in E1|contradiction Hv; reflexivity].
    assert (Hlt : (Z.to_nat (v - 1) < length ml)%nat).
    { destruct (lt_dec (Z.to_nat (v - 1)) (length ml)) as [Hl|Hl]; [exact Hl|].
      rewrite nth_overflow in Hv by lia. contradiction Hv; reflexivity. }
    rewrite forallb_forall in Hbound.
    assert (Hin : In (Z.to_nat (v - 1)) (seq 0 (length ml))) by (apply in_seq; lia).
    specialize (Hbound _ Hin). cbv zeta in Hbound.
    replace (Z.of_nat (S (Z.to_nat (v - 1)))) with v in Hbound by lia.
    apply orb_true_iff in Hbound. destruct Hbound as [Hb|Hb].
    + apply Z.eqb_eq in Hb. unfold st, mk_state in Hb. cbn [s_model] in Hb. unfold of_list in Hb.
      assert (E1' : (1 <=? v) = true) by (apply Z.leb_le; exact E1). rewrite E1' in Hb.
      contradiction.
    + apply memz_l_In in Hb. apply in_map_iff in Hb. destruct Hb as [l [Hl1 Hl2]]. exists l. auto.
  - intros t1 l t2 E l' Hl'. destruct (trail_chk_spec st trail [] Hchk t1 l t2 E) as [A _].
    apply A. exact Hl'.
  - intros l Hl. rewrite forallb_forall in Hmax. apply Z.leb_le. exact (Hmax l Hl).
  - intros t1 l t2 c E Hr. destruct (trail_chk_spec st trail [] Hchk t1 l t2 E) as [_ B].
    apply pb_reason_chk_sound. exact (B c Hr).
Qed.

Theorem confl_okb_sound : forall st lvl confl, confl_okb st lvl confl = true -> confl_ok st lvl confl.
Proof.
  intros st lvl confl H. unfold confl_okb in H.
  repeat (apply andb_true_iff in H; destruct H as [H ?]).
  rename H into Hw, H0 into Hdeg, H1 into Hex, H2 into Hnd, H3 into Hnz.
  constructor.
  - exact (forallb_nonzero _ Hnz).
  - exact (nodupb_NoDup _ Hnd).
  - apply existsb_exists in Hex. destruct Hex as [x [Hx Hp]]. apply andb_true_iff in Hp.
    destruct Hp as [Hf Hl]. apply Z.eqb_eq in Hl. exists x. auto.
  - intros m Hs. unfold sat_pbc in Hs. apply Z.leb_le in Hs. apply Z.ltb_lt in Hdeg.
    set (p := fun t : term => lit_false st (snd t)).
    set (Pf := filter p (terms confl)). set (Qf := filter (fun t : term => negb (p t)) (terms confl)).
    change (wsum Qf < degree confl) in Hdeg.
    rewrite (lhs_split m p) in Hs. change (degree confl <= lhs m Pf + lhs m Qf) in Hs.
    assert (Hle : lhs m Qf <= wsum Qf) by (apply lhs_le_wsum; apply forallb_filter; exact Hw).
    destruct (lhs_pos_exists m Pf) as [t [Ht Hv]]; [lia|].
    apply filter_In in Ht. destruct Ht as [Ht Hf]. exists (snd t).
    split; [unfold c_lits; apply in_map; exact Ht|auto].
Qed.

Theorem all_clausesb_sound : forall trail ml rl al lvl confl,
  state_okb trail ml rl al lvl = true ->
  all_clausesb (mk_state trail ml rl al) confl = true ->
  (forall t1 t t2 c, s_trail (mk_state trail ml rl al) = t1 ++ t :: t2 ->
     s_reason (mk_state trail ml rl al) (lvar t) = Some c -> clause_reason_ok t1 t c) /\
  clause_confl (mk_state trail ml rl al) confl.
Proof.
  intros trail ml rl al lvl confl Hok H. unfold all_clausesb in H.
  apply andb_true_iff in H. destruct H as [H Hr]. apply andb_true_iff in H. destruct H as [Hc Hf].
  split.
  - intros t1 t t2 c E Hrc. unfold state_okb in Hok.
    repeat (apply andb_true_iff in Hok; destruct Hok as [Hok ?]).
    change (s_trail (mk_state trail ml rl al)) with trail in *.
    destruct (trail_chk_spec _ trail [] H t1 t t2 E) as [_ B].
    apply pb_reason_chk_clause; [exact (B c Hrc)|].
    rewrite forallb_forall in Hr.
    assert (Ht : In t trail) by (rewrite E; apply in_or_app; right; left; reflexivity).
    specialize (Hr t Ht). rewrite Hrc in Hr. exact Hr.
  - exists (c_lits confl). split; [exact (is_clause_eq confl Hc)|].
    rewrite forallb_forall in Hf. exact Hf.
Qed.

(* ================================================================== *)
(* 8. The theorems for learnClause as it is (insertion sort)            *)

Theorem learn_no_panic : forall st lvl confl, state_ok st lvl -> confl_ok st lvl confl ->
  learn_clause confl lvl st <> LearnPanic.
Proof. intros st lvl confl OK CF. exact (learn_no_panic_gen st lvl confl OK CF sort_literals). Qed.

Theorem learn_entailed : forall st lvl confl, state_ok st lvl -> confl_ok st lvl confl ->
  forall c, learned_lits (learn_clause confl lvl st) = Some c ->
  forall m, sat_pbc m confl = true ->
  (forall r, In r (learn_antecedents confl lvl st) -> sat_pbc m r = true) ->
  sat_clause m c = true.
Proof. intros st lvl confl OK CF. exact (learn_entailed_gen st lvl confl OK CF _ sort_literals_ok). Qed.

Theorem learn_falsified : forall st lvl confl, state_ok st lvl -> confl_ok st lvl confl ->
  forall c, learned_lits (learn_clause confl lvl st) = Some c ->
  forall x, In x c -> x <> 0 /\ lit_false st x = true.
Proof. intros st lvl confl OK CF. exact (learn_falsified_gen st lvl confl OK CF _ sort_literals_ok). Qed.

Theorem learn_asserting : forall st lvl confl, state_ok st lvl -> confl_ok st lvl confl ->
  forall c, learned_lits (learn_clause confl lvl st) = Some c ->
  exists h tl_, c = h :: tl_ /\ In (- h) (s_trail st) /\ lvl_of st (lvar h) = lvl /\
                (forall x, In x tl_ -> 1 <= lvl_of st (lvar x) < lvl) /\
                StronglySorted (by_level st) tl_.
Proof. intros st lvl confl OK CF. exact (learn_asserting_gen st lvl confl OK CF _ sort_literals_ok). Qed.

Theorem learn_backjump : forall st lvl confl, state_ok st lvl -> confl_ok st lvl confl ->
  forall c, learn_clause confl lvl st = LearnedClause c ->
  exists h x r, c = h :: x :: r /\
    backtrack_data st c = (lvl_of st (lvar x), h) /\
    lvl_of st (lvar h) = lvl /\ 1 <= lvl_of st (lvar x) < lvl /\
    forall y, In y (x :: r) -> lvl_of st (lvar y) <= lvl_of st (lvar x).
Proof. intros st lvl confl OK CF. exact (learn_backjump_gen st lvl confl OK CF _ sort_literals_ok). Qed.

Theorem backjump_unit : forall st lvl confl, state_ok st lvl -> confl_ok st lvl confl ->
  forall c, learn_clause confl lvl st = LearnedClause c ->
  exists st' bl h tl_,
    conflict_step confl lvl st = OJump st' bl h c /\ c = h :: tl_ /\
    1 <= bl < lvl /\
    s_model st' (lvar h) = 0 /\
    s_reason st' (lvar h) = Some (clause_pbc c) /\
    (forall y, In y tl_ -> lit_false st' y = true /\ In (- y) (s_trail st') /\ lvl_of st (lvar y) <= bl) /\
    (exists y, In y tl_ /\ lvl_of st (lvar y) = bl) /\
    s_trail st' = keep_prefix st bl (s_trail st).
Proof. intros st lvl confl OK CF. exact (backjump_unit_gen st lvl confl OK CF _ sort_literals_ok). Qed.

Theorem conflict_step_ok : forall st lvl confl, state_ok st lvl -> confl_ok st lvl confl ->
  forall st' bl h c, conflict_step confl lvl st = OJump st' bl h c ->
  state_ok (unify_literal st' h bl) bl /\
  clause_reason_ok (s_trail st') h (clause_pbc c) /\
  s_reason (unify_literal st' h bl) (lvar h) = Some (clause_pbc c) /\
  lit_true (unify_literal st' h bl) h = true.
Proof. intros st lvl confl OK CF. exact (conflict_step_ok_gen st lvl confl OK CF _ sort_literals_ok). Qed.

Theorem minimize_sound : forall st lvl confl, state_ok st lvl -> confl_ok st lvl confl ->
  forall a, analyze st confl lvl = WDone a ->
  let pre := finish sort_literals st a in
  let post := minimize_learned st (a_met a) pre in
  (forall m, sat_pbc m confl = true -> (forall r, In r (a_used a) -> sat_pbc m r = true) ->
             sat_clause m pre = true) /\
  (forall m, sat_clause m pre = true ->
             (forall r, In r (removed_reasons st (a_met a) pre) -> sat_pbc m r = true) ->
             sat_clause m post = true) /\
  (forall x, In x post -> In x pre) /\ hd 0 post = hd 0 pre.
Proof. intros st lvl confl OK CF. exact (minimize_sound_gen st lvl confl OK CF _ sort_literals_ok). Qed.

Theorem learn_is_rup : forall st lvl confl, state_ok st lvl -> confl_ok st lvl confl ->
  (forall t1 t t2 c, s_trail st = t1 ++ t :: t2 -> s_reason st (lvar t) = Some c ->
                     clause_reason_ok t1 t c) ->
  clause_confl st confl ->
  forall c, learned_lits (learn_clause confl lvl st) = Some c ->
  rup (map c_lits (confl :: learn_antecedents confl lvl st)) c.
Proof. intros st lvl confl OK CF. exact (learn_is_rup_gen st lvl confl OK CF _ sort_literals_ok). Qed.

Theorem learn_antecedents_origin : forall st lvl confl, state_ok st lvl -> confl_ok st lvl confl ->
  forall r, In r (learn_antecedents confl lvl st) ->
  (exists t, In t (s_trail st) /\ s_reason st (lvar t) = Some r) \/
  (exists t t1 t2, s_trail st = t1 ++ t :: t2 /\ r = clause_pbc [t] /\
       s_reason st (lvar t) = None /\ s_assumptions st (lvar t) = false /\
       lvl_of st (lvar t) = lvl /\ exists t', In t' t1 /\ lvl_of st (lvar t') = lvl).
Proof. intros st lvl confl OK CF. exact (learn_antecedents_origin_gen st lvl confl OK CF _ sort_literals_ok). Qed.

(* with the checker of Model/Rup.v: the learned clause passes [rup_line]
   against the conflict and the antecedents alone *)
Theorem learn_rup_line : forall st lvl confl, state_ok st lvl -> confl_ok st lvl confl ->
  (forall t1 t t2 c, s_trail st = t1 ++ t :: t2 -> s_reason st (lvar t) = Some c ->
                     clause_reason_ok t1 t c) ->
  clause_confl st confl ->
  forall c, learned_lits (learn_clause confl lvl st) = Some c ->
  forall fuel, (S (length (learn_antecedents confl lvl st)) < fuel)%nat ->
  rup_line fuel (map c_lits (confl :: learn_antecedents confl lvl st)) c = Some true.
Proof.
  intros st lvl confl OK CF CR CCf c Hc fuel Hfuel.
  apply rup_line_complete.
  - intros cl Hcl. apply in_map_iff in Hcl. destruct Hcl as [r [<- [<-|Hr]]].
    + exact (cf_nz _ _ _ CF).
    + destruct (learn_antecedents_origin st lvl confl OK CF r Hr) as [[t [Ht Er]]|H].
      * apply in_split in Ht. destruct Ht as [t1 [t2 Hsp]].
        exact (proj1 (ok_reason _ _ OK _ _ _ _ Hsp Er)).
      * destruct H as (t & t1 & t2 & Hsp & -> & _). rewrite c_lits_clause.
        intros x [<-|[]]. apply (ok_nz _ _ OK). rewrite Hsp. apply in_or_app. right. left. reflexivity.
  - exact (learn_is_rup st lvl confl OK CF CR CCf c Hc).
  - rewrite map_length. cbn [length]. exact Hfuel.
Qed.

Theorem learn_top : forall st lvl confl, state_ok st lvl -> confl_ok st lvl confl ->
  learn_clause confl lvl st = TopLevelConflict ->
  exists t, In t (s_trail st) /\ s_assumptions st (lvar t) = true /\ lvl_of st (lvar t) = lvl.
Proof. intros st lvl confl OK CF. exact (learn_top_gen st lvl confl OK CF sort_literals). Qed.

Theorem learn_assumptions : forall st lvl confl, state_ok st lvl -> confl_ok st lvl confl ->
  forall (Pm : list bool -> Prop),
  (forall m, Pm m -> sat_pbc m confl = true) ->
  (forall t c, In t (s_trail st) -> s_reason st (lvar t) = Some c -> forall m, Pm m -> sat_pbc m c = true) ->
  (forall t, In t (s_trail st) -> s_reason st (lvar t) = None -> s_assumptions st (lvar t) = false ->
             lvl_of st (lvar t) = 1 -> forall m, Pm m -> lit_val m t = true) ->
  (forall t1 t t2, s_trail st = t1 ++ t :: t2 -> s_reason st (lvar t) = None ->
             2 <= lvl_of st (lvar t) -> forall t', In t' t1 -> lvl_of st (lvar t') < lvl_of st (lvar t)) ->
  forall c, learned_lits (learn_clause confl lvl st) = Some c ->
  forall m, Pm m -> sat_clause m c = true.
Proof. intros st lvl confl OK CF. exact (learn_assumptions_gen st lvl confl OK CF _ sort_literals_ok). Qed.

(* in the shape of Model.Assume.learn_ok: F = the top-level facts, D = the
   constraint database; the assumptions appear nowhere in the hypotheses on
   the models                                                              *)
Theorem learn_assumptions_db : forall st lvl confl, state_ok st lvl -> confl_ok st lvl confl ->
  forall (F : list lit) (D : problem),
  In confl D ->
  (forall t c, In t (s_trail st) -> s_reason st (lvar t) = Some c -> In c D) ->
  (forall t, In t (s_trail st) -> s_reason st (lvar t) = None -> s_assumptions st (lvar t) = false ->
             lvl_of st (lvar t) = 1 -> In t F) ->
  (forall t1 t t2, s_trail st = t1 ++ t :: t2 -> s_reason st (lvar t) = None ->
             2 <= lvl_of st (lvar t) -> forall t', In t' t1 -> lvl_of st (lvar t') < lvl_of st (lvar t)) ->
  forall c, learned_lits (learn_clause confl lvl st) = Some c ->
  forall m, sat_problem m (map (fun l => clause_pbc [l]) F ++ D) = true ->
            sat_pbc m (clause_pbc c) = true.
Proof.
  intros st lvl confl OK CF F D Hc Hr Hf Hd c Hl m Hm. rewrite sat_clause_pbc.
  apply (learn_assumptions st lvl confl OK CF
           (fun m => sat_problem m (map (fun l => clause_pbc [l]) F ++ D) = true)); auto.
  - intros m0 H0. unfold sat_problem in H0. rewrite forallb_forall in H0. apply H0.
    apply in_or_app. right. exact Hc.
  - intros t r Ht Er m0 H0. unfold sat_problem in H0. rewrite forallb_forall in H0. apply H0.
    apply in_or_app. right. exact (Hr t r Ht Er).
  - intros t Ht Er Ea El m0 H0. unfold sat_problem in H0. rewrite forallb_forall in H0.
    assert (H : sat_pbc m0 (clause_pbc [t]) = true).
    { apply H0. apply in_or_app. left. apply in_map_iff. exists t. split; [reflexivity|exact (Hf t Ht Er Ea El)]. }
    rewrite sat_clause_pbc in H. unfold sat_clause in H. cbn [existsb] in H. rewrite orb_false_r in H. exact H.
Qed.

Theorem learn_antecedents_reasons : forall st lvl confl, state_ok st lvl -> confl_ok st lvl confl ->
  2 <= lvl ->
  (forall t1 t t2, s_trail st = t1 ++ t :: t2 -> s_reason st (lvar t) = None ->
             2 <= lvl_of st (lvar t) -> forall t', In t' t1 -> lvl_of st (lvar t') < lvl_of st (lvar t)) ->
  forall r, In r (learn_antecedents confl lvl st) ->
  exists t, In t (s_trail st) /\ s_reason st (lvar t) = Some r.
Proof. intros st lvl confl OK CF. exact (learn_antecedents_reasons_gen st lvl confl OK CF _ sort_literals_ok). Qed.

(* ================================================================== *)
(* 9. Why two details of the Go code matter                             *)

(* learn.go:122: the test [abs(s.model[lit.Var()]) > 1] is commented out.
   Put back, minimizeLearned would drop a literal whose reason contains an
   unmet literal of level 1 -- here the assumption x1: the result [-4; -2]
   is not a consequence of the conflict and the reasons, it only holds under
   the assumption.  The real minimizeLearned keeps [-4; -3; -2].           *)
Theorem minimize_gt1_refuted : exists trail ml rl al lvl confl,
  let st := mk_state trail ml rl al in
  state_okb trail ml rl al lvl = true /\ confl_okb st lvl confl = true /\
  s_assumptions st 1 = true /\
  match analyze st confl lvl with
  | WDone a => exists m,
      sat_pbc m confl = true /\
      forallb (fun t => match s_reason st (lvar t) with Some c => sat_pbc m c | None => true end)
              trail = true /\
      sat_clause m (minimize_learned_gt1 st (a_met a) (finish sort_literals st a)) = false /\
      sat_clause m (minimize_learned st (a_met a) (finish sort_literals st a)) = true
  | _ => False
  end.
Proof.
  exists [1; 2; 3; 4; 5], [1; 2; 2; 3; 3],
         [None; None; Some (clause_pbc [-1; -2; 3]); None; Some (clause_pbc [-4; -3; 5])],
         [true], 3, (clause_pbc [-5; -4; -3; -2]).
  cbv zeta. split; [vm_compute; reflexivity|]. split; [vm_compute; reflexivity|].
  split; [vm_compute; reflexivity|].
  vm_compute. exists [false; true; false; true; true]. repeat split.
Qed.

(* cf_nodup: addClauseLits does not test met[]; a conflict constraint with a
   repeated false literal makes nbLvl too big and the pointer leaves the
   trail (Go: index out of range)                                          *)
Theorem confl_dup_refuted : exists trail ml rl al lvl confl,
  let st := mk_state trail ml rl al in
  state_okb trail ml rl al lvl = true /\
  (forall x, In x (c_lits confl) -> x <> 0 /\ lit_false st x = true /\ lvl_of st (lvar x) = lvl) /\
  learn_clause confl lvl st = LearnPanic.
Proof.
  exists [1], [2], [None], [], 2, (clause_pbc [-1; -1; -1]).
  cbv zeta. split; [vm_compute; reflexivity|]. split; [|vm_compute; reflexivity].
  intros x Hx. rewrite c_lits_clause in Hx.
  assert (E : x = -1) by (destruct Hx as [<-|[<-|[<-|[]]]]; reflexivity). subst x.
  split; [discriminate|]. split; vm_compute; reflexivity.
Qed.
