(* What an Ok of the whole-run judge (Judge/J22.v) means: the commands rebuilt from the observed run are a run of the
   mirrored search loop (Model/Search.v) that ends with the observed answer, hence (Proofs/Search.v) that answer is right. *)
From Coq Require Import List ZArith Bool String Lia.
From GS Require Import Spec.Base Spec.PB Judge.Sx Judge.JCommon Model.Learn Model.Search Judge.J21 Judge.J22.
From GS Require Import Proofs.Learn Proofs.Search.
Import ListNotations.
Open Scope Z_scope.

Lemma eqb_bools_eq : forall a b, eqb_bools a b = true -> a = b.
Proof.
  induction a as [|x a IH]; intros [|y b] H; cbn [eqb_bools] in H; try discriminate; [reflexivity|].
  apply andb_prop in H. destruct H as [H1 H2]. apply Bool.eqb_prop in H1. subst y. f_equal. exact (IH _ H2).
Qed.

Lemma finish_trace_replay : forall P n units assumed r vd m tr nsn a b c,
  finish_trace P n units assumed r vd m tr nsn = Ok [a; b; c] ->
  exists ks cf, replay P n units assumed ks = Some cf /\
    ((c = 1 /\ vd = 1 /\ cf = Final (ASat m)) \/
     (c = 2 /\ vd = 2 /\ cf = Final AUnsat) \/
     (c = 0 /\ tr = true /\ exists s, cf = Running s)).
Proof.
  intros P n units assumed r vd m tr nsn a b c H. unfold finish_trace in H.
  destruct r as [k i|cf cmds]; [discriminate|].
  destruct (replay P n units assumed (rev cmds)) as [cf'|] eqn:Er; [|discriminate].
  exists (rev cmds), cf'. split; [exact Er|].
  destruct cf as [s|[ma|]|]; destruct cf' as [s'|[mb|]|]; try discriminate.
  - destruct tr; [|discriminate]. injection H as _ _ Hc. right. right. split; [auto|]. split; [reflexivity|]. eexists; reflexivity.
  - destruct ((vd =? 1) && eqb_bools ma m && eqb_bools mb m) eqn:E; [|discriminate].
    apply andb_prop in E. destruct E as [E E3]. apply andb_prop in E. destruct E as [E1 E2].
    apply Z.eqb_eq in E1. apply eqb_bools_eq in E3. injection H as _ _ Hc. left. subst. auto.
  - destruct (vd =? 2) eqn:E; [|discriminate]. apply Z.eqb_eq in E. injection H as _ _ Hc. right. left. subst. auto.
Qed.

(* Unsat *)
Lemma finish_trace_unsat : forall P n units r vd m tr nsn a b,
  finish_trace P n units [] r vd m tr nsn = Ok [a; b; 2] ->
  vd = 2 /\ forall m' : model, sat_problem m' P = false.
Proof.
  intros P n units r vd m tr nsn a b H.
  destruct (finish_trace_replay _ _ _ _ _ _ _ _ _ _ _ _ H) as [ks [cf [Hr [[Hc _]|[[_ [Hv Hcf]]|[Hc _]]]]]]; try discriminate.
  split; [exact Hv|]. subst cf. exact (replay_unsat P n units ks Hr).
Qed.

(* Unsat under assumptions: every model of the problem falsifies an assumed literal *)
Lemma finish_trace_unsat_assume : forall P n units assumed r vd m tr nsn a b,
  finish_trace P n units assumed r vd m tr nsn = Ok [a; b; 2] ->
  vd = 2 /\ exists ks, replay P n units assumed ks = Some (Final AUnsat).
Proof.
  intros P n units assumed r vd m tr nsn a b H.
  destruct (finish_trace_replay _ _ _ _ _ _ _ _ _ _ _ _ H) as [ks [cf [Hr [[Hc _]|[[_ [Hv Hcf]]|[Hc _]]]]]]; try discriminate.
  split; [exact Hv|]. exists ks. subst cf. exact Hr.
Qed.

(* Sat: the model the implementation returned has the right length and satisfies the problem *)
Lemma finish_trace_sat : forall P n units assumed r vd m tr nsn a b,
  vars_inb n P = true ->
  finish_trace P n units assumed r vd m tr nsn = Ok [a; b; 1] ->
  vd = 1 /\ List.length m = n /\ sat_problem m P = true.
Proof.
  intros P n units assumed r vd m tr nsn a b Hv H.
  destruct (finish_trace_replay _ _ _ _ _ _ _ _ _ _ _ _ H) as [ks [cf [Hr [[_ [Hvd Hcf]]|[[Hc _]|[Hc _]]]]]]; try discriminate.
  split; [exact Hvd|]. subst cf. exact (replay_sat P n units assumed ks m Hv Hr).
Qed.
