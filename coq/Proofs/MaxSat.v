(* Proofs about Model/MaxSat.v (maxsat.New / Solve, ParseWCNF / Optimal; property C04). *)
From Coq Require Import List ZArith Lia Bool Sorted.
From GS Require Import Spec.Base Spec.PB Spec.Solver Model.Optim Proofs.Optim Model.MaxSat.
Import ListNotations.
Open Scope Z_scope.

(* ------------------------------------------------------------------ *)
(* 0. Small general facts.                                             *)

Ltac leb_eq :=
  match goal with
  | |- (?a <=? ?b) = (?c <=? ?d) =>
    let E1 := fresh in let E2 := fresh in
    destruct (a <=? b) eqn:E1; destruct (c <=? d) eqn:E2; try reflexivity;
    [apply Z.leb_le in E1; apply Z.leb_gt in E2|apply Z.leb_gt in E1; apply Z.leb_le in E2]
  end.

Lemma var_val_app1 : forall m x k, 1 <= k <= Z.of_nat (length m) ->
  var_val (m ++ x) k = var_val m k.
Proof. intros m x k H. unfold var_val. apply app_nth1. lia. Qed.

Lemma var_val_app2 : forall m x j, 1 <= j ->
  var_val (m ++ x) (Z.of_nat (length m) + j) = var_val x j.
Proof.
  intros m x j H. unfold var_val. rewrite app_nth2 by lia. f_equal. lia.
Qed.

Lemma var_val_cons : forall b m j, 1 <= j -> var_val (b :: m) (j + 1) = var_val m j.
Proof.
  intros b m j H. unfold var_val.
  replace (Z.to_nat (j + 1 - 1)) with (S (Z.to_nat (j - 1))) by lia. reflexivity.
Qed.

Lemma var_val_one : forall b m, var_val (b :: m) 1 = b.
Proof. reflexivity. Qed.

Lemma lit_val_pos : forall m k, 0 < k -> lit_val m k = var_val m k.
Proof. intros m k H. unfold lit_val. apply Z.ltb_lt in H. rewrite H. reflexivity. Qed.

Lemma nth_map_seq : forall (f : nat -> bool) s len i, (i < len)%nat ->
  nth i (map f (seq s len)) false = f (s + i)%nat.
Proof.
  intros f s len i H.
  rewrite (nth_indep _ false (f O)) by (rewrite map_length, seq_length; exact H).
  rewrite map_nth. rewrite seq_nth by exact H. reflexivity.
Qed.

Lemma unit_terms_app : forall a b, unit_terms (a ++ b) = unit_terms a ++ unit_terms b.
Proof. intros. unfold unit_terms. apply map_app. Qed.

Lemma combine_app_eq : forall (A B : Type) (a1 a2 : list A) (b1 b2 : list B),
  length a1 = length b1 -> combine (a1 ++ a2) (b1 ++ b2) = combine a1 b1 ++ combine a2 b2.
Proof.
  intros A B a1. induction a1 as [|x a1 IH]; intros a2 b1 b2 H; destruct b1 as [|y b1];
    try discriminate; simpl; [reflexivity|]. f_equal. apply IH. simpl in H. lia.
Qed.

Lemma combine_repeat_unit : forall ls, combine (repeat 1 (length ls)) ls = unit_terms ls.
Proof. induction ls as [|l ls IH]; simpl; [reflexivity|]. f_equal. exact IH. Qed.

(* ------------------------------------------------------------------ *)
(* 1. The generic relaxation argument.                                 *)

Section Relax.

Variable solve : solver.
Hypothesis solve_ok : solver_ok solve.
Variable U : Type.
Variable n : nat.
Variable P : problem.
Variable co : cost.
Variable proj : model -> U.
Variable hardok : U -> bool.
Variable vw : U -> Z.
Hypothesis Hnn : nonneg_terms co = true.
Hypothesis Hwf : cost_wf n co = true.
Hypothesis HA : forall m, length m = n -> sat_problem m P = true ->
  hardok (proj m) = true /\ vw (proj m) <= cost_of m co.
Hypothesis HB : forall u, hardok u = true ->
  exists m, length m = n /\ sat_problem m P = true /\ cost_of m co = vw u.

Definition relax_elem (x : oresult) : Prop :=
  exists m, x = OSat m (cost_of m co) /\ length m = n /\
            hardok (proj m) = true /\ vw (proj m) <= cost_of m co.

Lemma relax_optimal :
  exists r s, optimal_run solve n P (Some co) = RDone r s /\
    match r with
    | OUnsat => (forall u, hardok u = false) /\ s = [OUnsat]
    | OSat m w =>
        length m = n /\ hardok (proj m) = true /\ w = vw (proj m) /\ 0 <= w /\
        (forall u, hardok u = true -> w <= vw u) /\
        Forall relax_elem s /\
        StronglySorted (fun a b => oweight b < oweight a) s /\ last s OUnsat = r
    end.
Proof.
  destruct (optimal_run_correct solve solve_ok n P co Hwf) as [r [s [E H]]].
  exists r, s. split; [exact E|]. destruct r as [|m w].
  - destruct H as [Hu Hs]. split; [|exact Hs]. intros u.
    destruct (hardok u) eqn:Eu; [|reflexivity]. exfalso. apply Hu.
    destruct (HB u Eu) as [m [Hl [Hs' _]]]. exists m. auto.
  - destruct H as [[Hl [Hs Hb]] [Hw [Hel [Hso Hla]]]].
    destruct (HA m Hl Hs) as [Hh Hv].
    split; [exact Hl|]. split; [exact Hh|].
    assert (Hle : forall u, hardok u = true -> w <= vw u).
    { intros u Hu. destruct (HB u Hu) as [m' [Hl' [Hs' Hc']]].
      specialize (Hb m' Hl' Hs'). lia. }
    split; [specialize (Hle _ Hh); lia|].
    split; [pose proof (cost_nonneg_bound m co Hnn); lia|].
    split; [exact Hle|]. split; [|split; [exact Hso|exact Hla]].
    eapply Forall_impl; [|exact Hel]. intros x [mj [Ex [Hlj Hsj]]].
    exists mj. destruct (HA mj Hlj Hsj). auto.
Qed.

End Relax.

(* ------------------------------------------------------------------ *)
(* 2. The constraint API: varInts and the translation of literals.     *)

Lemma var_index_app : forall v a b k,
  var_index v (a ++ b) k =
  match var_index v a k with
  | Some j => Some j
  | None => var_index v b (k + Z.of_nat (length a))
  end.
Proof.
  intros v a. induction a as [|x a IH]; intros b k; cbn [app var_index length].
  - f_equal. lia.
  - destruct (match x with Some u => u =? v | None => false end); [reflexivity|].
    rewrite IH. destruct (var_index v a (k + 1)); [reflexivity|]. f_equal. lia.
Qed.

Lemma var_index_bound : forall v a k j,
  var_index v a k = Some j -> k <= j < k + Z.of_nat (length a).
Proof.
  intros v a. induction a as [|x a IH]; intros k j H; cbn [var_index length] in *; [discriminate|].
  destruct (match x with Some u => u =? v | None => false end).
  - injection H as <-. lia.
  - apply IH in H. lia.
Qed.

Lemma var_index_none : forall v a k, var_index v a k = None -> ~ In (Some v) a.
Proof.
  intros v a. induction a as [|x a IH]; intros k H; cbn [var_index] in H; [intros []|].
  destruct x as [u|].
  - destruct (u =? v) eqn:E; [discriminate|]. apply Z.eqb_neq in E.
    intros [H1|H1]; [congruence|]. exact (IH _ H H1).
  - intros [H1|H1]; [discriminate|]. exact (IH _ H H1).
Qed.

Lemma var_index_in : forall v a k j, var_index v a k = Some j -> In (Some v) a.
Proof.
  intros v a. induction a as [|x a IH]; intros k j H; cbn [var_index] in H; [discriminate|].
  destruct x as [u|].
  - destruct (u =? v) eqn:E.
    + apply Z.eqb_eq in E. left. congruence.
    + right. eapply IH; eauto.
  - right. eapply IH; eauto.
Qed.

Lemma var_index_some : forall v a k, In (Some v) a -> exists j, var_index v a k = Some j.
Proof.
  intros v a k H. destruct (var_index v a k) eqn:E; [eauto|].
  exfalso. exact (var_index_none _ _ _ E H).
Qed.

(* the solver model [m] and the user assignment [mu] give the same value to every
   named variable *)
Definition agrees (vi : vmap) (m mu : model) : Prop :=
  forall v k, var_index v vi 1 = Some k -> var_val m k = var_val mu v.

Lemma agrees_prefix : forall vi ext m mu, agrees (vi ++ ext) m mu -> agrees vi m mu.
Proof.
  intros vi ext m mu H v k E. apply H. rewrite var_index_app, E. reflexivity.
Qed.

Lemma agrees_ext_model : forall vi m x mu,
  length m = length vi -> agrees vi m mu -> agrees vi (m ++ x) mu.
Proof.
  intros vi m x mu L H v k E. rewrite var_val_app1; [apply H; exact E|].
  apply var_index_bound in E. lia.
Qed.

Definition tr_rel (vi : vmap) (l l' : lit) : Prop :=
  exists k, var_index (Z.abs l) vi 1 = Some k /\ l' = signed l k.

Lemma tr_rel_ext : forall vi ext l l', tr_rel vi l l' -> tr_rel (vi ++ ext) l l'.
Proof.
  intros vi ext l l' [k [E S]]. exists k. split; [|exact S]. rewrite var_index_app, E. reflexivity.
Qed.

Lemma tr_lit_spec : forall vi l vi1 l', tr_lit vi l = (vi1, l') ->
  (exists ext, vi1 = vi ++ ext) /\ tr_rel vi1 l l'.
Proof.
  intros vi l vi1 l' H. unfold tr_lit in H.
  destruct (var_index (Z.abs l) vi 1) as [k|] eqn:E; injection H as <- <-.
  - split; [exists []; rewrite app_nil_r; reflexivity|]. exists k. auto.
  - split; [eexists; reflexivity|]. exists (Z.of_nat (length vi) + 1). split; [|reflexivity].
    rewrite var_index_app, E. cbn [var_index]. rewrite Z.eqb_refl. f_equal. lia.
Qed.

Lemma tr_lits_spec : forall ls vi vi1 ls', tr_lits vi ls = (vi1, ls') ->
  (exists ext, vi1 = vi ++ ext) /\ Forall2 (tr_rel vi1) ls ls'.
Proof.
  induction ls as [|l r IH]; intros vi vi1 ls' H; cbn [tr_lits] in H.
  - injection H as <- <-. split; [exists []; rewrite app_nil_r; reflexivity|constructor].
  - destruct (tr_lit vi l) as [va l'] eqn:E1. destruct (tr_lits va r) as [vb r'] eqn:E2.
    injection H as <- <-.
    apply tr_lit_spec in E1. destruct E1 as [[e1 ->] R1].
    apply IH in E2. destruct E2 as [[e2 ->] R2].
    split; [exists (e1 ++ e2); rewrite app_assoc; reflexivity|].
    constructor; [apply tr_rel_ext; exact R1|exact R2].
Qed.

Lemma signed_abs : forall l k, 0 <= k -> Z.abs (signed l k) = k.
Proof. intros l k H. unfold signed. destruct (l <? 0); lia. Qed.

Lemma tr_rel_val : forall vi m mu l l',
  agrees vi m mu -> l <> 0 -> tr_rel vi l l' -> lit_val m l' = lit_val mu l.
Proof.
  intros vi m mu l l' A Hl [k [E ->]]. pose proof (var_index_bound _ _ _ _ E) as B.
  specialize (A _ _ E). unfold signed, lit_val.
  destruct (l <? 0) eqn:S.
  - apply Z.ltb_lt in S.
    replace (0 <? - k) with false by (symmetry; apply Z.ltb_ge; lia).
    replace (0 <? l) with false by (symmetry; apply Z.ltb_ge; lia).
    rewrite Z.opp_involutive, A. rewrite Z.abs_neq by lia. reflexivity.
  - apply Z.ltb_ge in S.
    replace (0 <? k) with true by (symmetry; apply Z.ltb_lt; lia).
    replace (0 <? l) with true by (symmetry; apply Z.ltb_lt; lia).
    rewrite A. rewrite Z.abs_eq by lia. reflexivity.
Qed.

Lemma tr_rel_nonzero : forall vi l l', tr_rel vi l l' -> l' <> 0.
Proof.
  intros vi l l' [k [E ->]]. apply var_index_bound in E. unfold signed. destruct (l <? 0); lia.
Qed.

Lemma lhs_combine_tr : forall vi m mu ls ls',
  agrees vi m mu -> Forall (fun l => l <> 0) ls -> Forall2 (tr_rel vi) ls ls' ->
  forall cs, lhs m (combine cs ls') = lhs mu (combine cs ls).
Proof.
  intros vi m mu ls ls' A Hnz F. induction F as [|l l' ls ls' R _ IH]; intros cs.
  - destruct cs; reflexivity.
  - inversion Hnz as [|? ? Hl Hr]; subst. destruct cs as [|w cs]; [reflexivity|].
    cbn [combine lhs]. rewrite (IH Hr). unfold term_val; cbn [fst snd].
    rewrite (tr_rel_val _ _ _ _ _ A Hl R). reflexivity.
Qed.

Lemma lhs_unit_tr : forall vi m mu ls ls',
  agrees vi m mu -> Forall (fun l => l <> 0) ls -> Forall2 (tr_rel vi) ls ls' ->
  lhs m (unit_terms ls') = lhs mu (unit_terms ls).
Proof.
  intros vi m mu ls ls' A Hnz F. induction F as [|l l' ls ls' R _ IH]; [reflexivity|].
  inversion Hnz as [|? ? Hl Hr]; subst. cbn [unit_terms map lhs]. fold (unit_terms ls').
  fold (unit_terms ls). rewrite (IH Hr). unfold term_val; cbn [fst snd].
  rewrite (tr_rel_val _ _ _ _ _ A Hl R). reflexivity.
Qed.

(* ------------------------------------------------------------------ *)
(* GtEq keeps the meaning.                                             *)

Lemma gteq_terms_sem : forall m ts n, Forall (fun t => snd t <> 0) ts ->
  lhs m (fst (gteq_terms ts n)) - snd (gteq_terms ts n) = lhs m ts - n.
Proof.
  intros m ts. induction ts as [|[w l] r IH]; intros n H; cbn [gteq_terms]; [reflexivity|].
  inversion H as [|? ? Hl Hr]; subst. cbn [snd] in Hl.
  destruct (w <? 0) eqn:E1.
  - specialize (IH (n + - w) Hr). destruct (gteq_terms r (n + - w)) as [r' n'].
    cbn [fst snd lhs] in *. unfold term_val; cbn [fst snd].
    rewrite lit_val_neg by exact Hl. destruct (lit_val m l); cbn [negb]; lia.
  - destruct (w =? 0) eqn:E2.
    + apply Z.eqb_eq in E2. subst w. rewrite (IH n Hr). cbn [lhs]. unfold term_val; cbn [fst snd].
      destruct (lit_val m l); lia.
    + specialize (IH n Hr). destruct (gteq_terms r n) as [r' n']. cbn [fst snd lhs] in *.
      unfold term_val; cbn [fst snd]. destruct (lit_val m l); lia.
Qed.

Definition terms_of (lits : list lit) (coeffs : option (list Z)) : list term :=
  match coeffs with None => unit_terms lits | Some cs => combine cs lits end.

Lemma combine_snd_nonzero : forall (cs : list Z) (ls : list lit),
  Forall (fun l => l <> 0) ls -> Forall (fun t : term => snd t <> 0) (combine cs ls).
Proof.
  intros cs ls H. revert cs. induction H as [|l ls Hl _ IH]; intros cs.
  - destruct cs; constructor.
  - destruct cs as [|w cs]; [constructor|]. cbn [combine]. constructor; [exact Hl|apply IH].
Qed.

Lemma gteq_sem : forall m (lits : list lit) coeffs n, Forall (fun l => l <> 0) lits ->
  sat_pbc m (gteq lits coeffs n) = (n <=? lhs m (terms_of lits coeffs)).
Proof.
  intros m lits coeffs n H. unfold gteq, terms_of. destruct coeffs as [cs|]; [|reflexivity].
  pose proof (gteq_terms_sem m (combine cs lits) n (combine_snd_nonzero cs lits H)) as E.
  destruct (gteq_terms (combine cs lits) n) as [ts n']. cbn [fst snd] in E.
  unfold sat_pbc; cbn [terms degree]. leb_eq; lia.
Qed.

(* ------------------------------------------------------------------ *)
(* Well-formedness, unpacked.                                          *)

Definition coeffs_opt (c : mconstr) : option (list Z) :=
  match mc_coeffs c with [] => None | cs => Some cs end.

Lemma mc_terms_of : forall c, mc_terms c = terms_of (mc_lits c) (coeffs_opt c).
Proof. intros c. unfold mc_terms, terms_of, coeffs_opt. destruct (mc_coeffs c); reflexivity. Qed.

Record wfc (c : mconstr) : Prop := {
  wfc_nz : Forall (fun l => l <> 0) (mc_lits c);
  wfc_len : mc_coeffs c = [] \/ length (mc_coeffs c) = length (mc_lits c);
  wfc_w : 0 <= mc_weight c
}.

Lemma wf_constr_wfc : forall c, wf_constr c = true -> wfc c.
Proof.
  intros c H. unfold wf_constr in H. apply andb_true_iff in H. destruct H as [H H3].
  apply andb_true_iff in H. destruct H as [H1 H2]. constructor.
  - apply Forall_forall. intros l Hl. rewrite forallb_forall in H1. specialize (H1 l Hl).
    apply negb_true_iff, Z.eqb_neq in H1. exact H1.
  - destruct (mc_coeffs c) as [|w cs]; [left; reflexivity|right]. apply Nat.eqb_eq. exact H2.
  - apply Z.leb_le. exact H3.
Qed.

(* what GtEq returns: positive weights, non-zero literals *)
Lemma gteq_terms_out : forall ts n, Forall (fun t : term => snd t <> 0) ts ->
  Forall (fun t : term => 0 < fst t /\ snd t <> 0) (fst (gteq_terms ts n)).
Proof.
  induction ts as [|[w l] r IH]; intros n H; cbn [gteq_terms]; [constructor|].
  inversion H as [|? ? Hl Hr]; subst. cbn [snd] in Hl.
  destruct (w <? 0) eqn:E1.
  - apply Z.ltb_lt in E1. specialize (IH (n + - w) Hr).
    destruct (gteq_terms r (n + - w)) as [r' n']. cbn [fst] in *.
    constructor; [cbn [fst snd]; lia|exact IH].
  - apply Z.ltb_ge in E1. destruct (w =? 0) eqn:E2; [apply IH; exact Hr|].
    apply Z.eqb_neq in E2. specialize (IH n Hr). destruct (gteq_terms r n) as [r' n'].
    cbn [fst] in *. constructor; [cbn [fst snd]; lia|exact IH].
Qed.

Lemma combine_fst_snd : forall ts : list term, combine (map fst ts) (map snd ts) = ts.
Proof. induction ts as [|[w l] ts IH]; cbn; [reflexivity|]. f_equal. exact IH. Qed.

(* ------------------------------------------------------------------ *)
(* One constraint.                                                     *)

Lemma enc_constr_ext : forall vi c vi1 p ot, enc_constr vi c = (vi1, p, ot) ->
  exists ext, vi1 = vi ++ ext.
Proof.
  intros vi c vi1 p ot H. unfold enc_constr in H.
  destruct (tr_lits vi (mc_lits c)) as [va lits] eqn:E.
  apply tr_lits_spec in E. destruct E as [[e ->] _].
  destruct (mc_weight c =? 0).
  - injection H as <- _ _. eauto.
  - destruct (gteq_c lits _ (mc_atleast c)) as [[l1 c1] a1]. injection H as <- _ _.
    exists (e ++ [None]). rewrite app_assoc. reflexivity.
Qed.

Lemma enc_constr_sem : forall vi c vi1 p ot, enc_constr vi c = (vi1, p, ot) -> wfc c ->
  forall m mu, agrees vi1 m mu ->
    if mc_hard c then ot = None /\ sat_pbc m p = mc_sat mu c
    else ot = Some (mc_weight c, Z.of_nat (length vi1)) /\ 0 < Z.of_nat (length vi1) /\
         sat_pbc m p = mc_sat mu c || var_val m (Z.of_nat (length vi1)).
Proof.
  intros vi c vi1 p ot H W m mu A. unfold enc_constr in H. unfold mc_hard.
  destruct (tr_lits vi (mc_lits c)) as [va lits] eqn:E.
  apply tr_lits_spec in E. destruct E as [[e ->] F].
  pose proof (wfc_nz c W) as Hnz.
  assert (Hnz' : Forall (fun l => l <> 0) lits).
  { clear -F. induction F as [|l l' ls ls' R _ IH]; constructor; [|exact IH].
    eapply tr_rel_nonzero; eauto. }
  assert (Hlen : length lits = length (mc_lits c)).
  { clear -F. induction F; simpl; congruence. }
  fold (coeffs_opt c) in H. unfold mc_sat. rewrite mc_terms_of.
  destruct (mc_weight c =? 0) eqn:Eh.
  - injection H as <- <- <-. split; [reflexivity|].
    rewrite gteq_sem by exact Hnz'. f_equal. unfold terms_of. destruct (coeffs_opt c) as [cs|].
    + eapply lhs_combine_tr; eauto.
    + eapply lhs_unit_tr; eauto.
  - destruct (gteq_c lits (coeffs_opt c) (mc_atleast c)) as [[l1 c1] a1] eqn:Eg.
    injection H as <- <- <-.
    set (b := Z.of_nat (length ((vi ++ e) ++ [None]))).
    assert (Hb : 0 < b) by (unfold b; rewrite app_length; simpl; lia).
    split; [reflexivity|]. split; [exact Hb|].
    assert (A' : agrees (vi ++ e) m mu) by (eapply agrees_prefix; exact A).
    pose proof (lit_val_pos m b Hb) as Hvb.
    unfold gteq_c, coeffs_opt in *. destruct (mc_coeffs c) as [|w cs] eqn:Ec.
    + (* clause or cardinality constraint *)
      injection Eg as <- <- <-.
      assert (EL : lhs m (unit_terms lits) = lhs mu (unit_terms (mc_lits c)))
        by (eapply lhs_unit_tr; eauto).
      pose proof (lhs_unit_nonneg mu (mc_lits c)) as Hpos.
      assert (Hnz2 : Forall (fun l => l <> 0) (lits ++ [b])).
      { apply Forall_app. split; [exact Hnz'|]. constructor; [lia|constructor]. }
      rewrite gteq_sem by exact Hnz2. cbn [terms_of].
      destruct (1 <? mc_atleast c) eqn:E1.
      * cbn [terms_of]. rewrite combine_app_eq by (rewrite repeat_length; reflexivity).
        rewrite combine_repeat_unit, lhs_app. cbn [combine lhs]. unfold term_val; cbn [fst snd].
        rewrite Hvb, EL. destruct (var_val m b); rewrite ?orb_true_r, ?orb_false_r.
        -- apply Z.leb_le. lia.
        -- f_equal. lia.
      * apply Z.ltb_ge in E1. cbn [terms_of]. rewrite unit_terms_app, lhs_app.
        cbn [unit_terms map lhs]. unfold term_val; cbn [fst snd].
        rewrite Hvb, EL. destruct (var_val m b); rewrite ?orb_true_r, ?orb_false_r.
        -- apply Z.leb_le. lia.
        -- f_equal. lia.
    + (* explicit coefficients: normalised first, the blocking literal weighs the
         normalised degree *)
      remember (w :: cs) as cs0 eqn:Ecs0.
      assert (EL : lhs m (combine cs0 lits) = lhs mu (combine cs0 (mc_lits c)))
        by (eapply lhs_combine_tr; eauto).
      pose proof (combine_snd_nonzero cs0 lits Hnz') as Hcnz.
      pose proof (gteq_terms_sem m (combine cs0 lits) (mc_atleast c) Hcnz) as Es.
      pose proof (gteq_terms_out (combine cs0 lits) (mc_atleast c) Hcnz) as Ho.
      destruct (gteq_terms (combine cs0 lits) (mc_atleast c)) as [ts a'] eqn:Et.
      cbn [fst snd] in Es, Ho. injection Eg as <- <- <-.
      assert (Hnz2 : Forall (fun l => l <> 0) (map snd ts ++ [b])).
      { apply Forall_app. split; [|constructor; [lia|constructor]].
        apply Forall_map. eapply Forall_impl; [|exact Ho]. cbn beta. tauto. }
      assert (Hts : 0 <= lhs m ts).
      { apply lhs_nonneg. apply nonneg_terms_Forall. eapply Forall_impl; [|exact Ho].
        cbn beta. intros t Ht. lia. }
      rewrite gteq_sem by exact Hnz2. cbn [terms_of].
      rewrite combine_app_eq by (rewrite !map_length; reflexivity).
      rewrite combine_fst_snd, lhs_app. cbn [combine lhs]. unfold term_val; cbn [fst snd].
      rewrite Hvb. destruct (var_val m b); rewrite ?orb_true_r, ?orb_false_r.
      * apply Z.leb_le. lia.
      * leb_eq; lia.
Qed.

Lemma enc_constr_ot : forall vi c vi1 p ot, enc_constr vi c = (vi1, p, ot) ->
  if mc_hard c then ot = None
  else ot = Some (mc_weight c, Z.of_nat (length vi1)) /\
       Z.of_nat (length vi) < Z.of_nat (length vi1).
Proof.
  intros vi c vi1 p ot H. unfold enc_constr in H. unfold mc_hard.
  destruct (tr_lits vi (mc_lits c)) as [va lits] eqn:E.
  apply tr_lits_spec in E. destruct E as [[e ->] _].
  destruct (mc_weight c =? 0); [injection H as <- _ <-; reflexivity|].
  destruct (gteq_c lits _ (mc_atleast c)) as [[l1 c1] a1]. injection H as <- _ <-.
  split; [reflexivity|]. rewrite !app_length. simpl. lia.
Qed.

(* ------------------------------------------------------------------ *)
(* All constraints: from a solver model to the user's assignment.      *)

Lemma enc_all_ext : forall cs vi vi' P co, enc_all vi cs = (vi', P, co) ->
  exists ext, vi' = vi ++ ext.
Proof.
  induction cs as [|c r IH]; intros vi vi' P co H; cbn [enc_all] in H.
  - injection H as <- _ _. exists []. rewrite app_nil_r. reflexivity.
  - destruct (enc_constr vi c) as [[vi1 p] ot] eqn:E1.
    destruct (enc_all vi1 r) as [[vi2 P'] co'] eqn:E2. injection H as <- _ _.
    apply enc_constr_ext in E1. destruct E1 as [e1 ->].
    apply IH in E2. destruct E2 as [e2 ->]. exists (e1 ++ e2). rewrite app_assoc. reflexivity.
Qed.

Lemma wf_inst_cons : forall c r, wf_inst (c :: r) = true -> wfc c /\ wf_inst r = true.
Proof.
  intros c r H. unfold wf_inst in H. cbn [forallb] in H. apply andb_true_iff in H.
  destruct H as [H1 H2]. split; [apply wf_constr_wfc; exact H1|exact H2].
Qed.

Lemma sat_hard_cons : forall mu c r,
  sat_hard mu (c :: r) = (negb (mc_hard c) || mc_sat mu c) && sat_hard mu r.
Proof. reflexivity. Qed.

Lemma sat_problem_cons : forall m p P, sat_problem m (p :: P) = sat_pbc m p && sat_problem m P.
Proof. reflexivity. Qed.

Lemma cost_of_cons : forall m w l (co : cost),
  cost_of m ((w, l) :: co) = (if lit_val m l then w else 0) + cost_of m co.
Proof. reflexivity. Qed.

Lemma enc_all_A : forall cs vi vi' P co, enc_all vi cs = (vi', P, co) -> wf_inst cs = true ->
  forall m mu, agrees vi' m mu -> sat_problem m P = true ->
    sat_hard mu cs = true /\ violated_weight mu cs <= cost_of m co.
Proof.
  induction cs as [|c r IH]; intros vi vi' P co H W m mu A S; cbn [enc_all] in H.
  - injection H as <- <- <-. split; [reflexivity|]. cbn. lia.
  - destruct (enc_constr vi c) as [[vi1 p] ot] eqn:E1.
    destruct (enc_all vi1 r) as [[vi2 P'] co'] eqn:E2. injection H as <- <- <-.
    apply wf_inst_cons in W. destruct W as [Wc Wr].
    destruct (enc_all_ext _ _ _ _ _ E2) as [e Ee]. subst vi2.
    rewrite sat_problem_cons in S. apply andb_true_iff in S. destruct S as [S1 S2].
    destruct (IH _ _ _ _ E2 Wr m mu A S2) as [IH1 IH2].
    pose proof (enc_constr_sem _ _ _ _ _ E1 Wc m mu (agrees_prefix _ _ _ _ A)) as Hc.
    rewrite sat_hard_cons. cbn [violated_weight]. pose proof (wfc_w c Wc) as Hw.
    destruct (mc_hard c) eqn:Eh.
    + destruct Hc as [-> Hc]. rewrite Hc in S1. rewrite S1. cbn [negb orb andb].
      split; [exact IH1|lia].
    + destruct Hc as [-> [Hb Hc]]. cbn [negb orb andb]. split; [exact IH1|].
      rewrite cost_of_cons. rewrite lit_val_pos by exact Hb. rewrite Hc in S1.
      destruct (mc_sat mu c); cbn [orb] in *.
      * destruct (var_val m _); lia.
      * rewrite S1. lia.
Qed.

Lemma enc_all_cost : forall cs vi vi' P co, enc_all vi cs = (vi', P, co) -> wf_inst cs = true ->
  Forall (fun t => 0 <= fst t /\ Z.of_nat (length vi) < snd t <= Z.of_nat (length vi')) co.
Proof.
  induction cs as [|c r IH]; intros vi vi' P co H W; cbn [enc_all] in H.
  - injection H as <- <- <-. constructor.
  - destruct (enc_constr vi c) as [[vi1 p] ot] eqn:E1.
    destruct (enc_all vi1 r) as [[vi2 P'] co'] eqn:E2. injection H as <- <- <-.
    apply wf_inst_cons in W. destruct W as [Wc Wr].
    pose proof (IH _ _ _ _ E2 Wr) as IH'.
    destruct (enc_all_ext _ _ _ _ _ E2) as [e2 Ee]. 
    destruct (enc_constr_ext _ _ _ _ _ E1) as [e1 Ee1].
    assert (L1 : Z.of_nat (length vi) <= Z.of_nat (length vi1)) by (subst vi1; rewrite app_length; lia).
    assert (L2 : Z.of_nat (length vi1) <= Z.of_nat (length vi2)) by (subst vi2; rewrite app_length; lia).
    assert (IH2 : Forall (fun t => 0 <= fst t /\
                     Z.of_nat (length vi) < snd t <= Z.of_nat (length vi2)) co').
    { eapply Forall_impl; [|exact IH']. cbn beta. intros t Ht. lia. }
    pose proof (enc_constr_ot _ _ _ _ _ E1) as Ho. destruct (mc_hard c).
    + subst ot. exact IH2.
    + destruct Ho as [-> Hlt]. constructor; [|exact IH2]. cbn [fst snd].
      pose proof (wfc_w c Wc). lia.
Qed.

(* ------------------------------------------------------------------ *)
(* From a user's assignment to a solver model.                         *)

Lemma tr_lit_B : forall vi l vi1 l' m0 mu, tr_lit vi l = (vi1, l') ->
  length m0 = length vi -> agrees vi m0 mu ->
  exists ext, length (m0 ++ ext) = length vi1 /\ agrees vi1 (m0 ++ ext) mu.
Proof.
  intros vi l vi1 l' m0 mu H L A. unfold tr_lit in H.
  destruct (var_index (Z.abs l) vi 1) as [k|] eqn:E; injection H as <- <-.
  - exists []. rewrite app_nil_r. auto.
  - exists [var_val mu (Z.abs l)]. split; [rewrite !app_length; simpl; lia|].
    intros v k Ek. rewrite var_index_app in Ek. destruct (var_index v vi 1) as [j|] eqn:Ev.
    + injection Ek as <-. rewrite var_val_app1 by (apply var_index_bound in Ev; lia).
      apply A. exact Ev.
    + remember (1 + Z.of_nat (length vi)) as k1 eqn:Ek1.
      cbn [var_index] in Ek. destruct (Z.abs l =? v) eqn:Eq; [|discriminate].
      injection Ek as <-. apply Z.eqb_eq in Eq. subst v.
      replace k1 with (Z.of_nat (length m0) + 1) by lia.
      rewrite var_val_app2 by lia. reflexivity.
Qed.

Lemma tr_lits_B : forall ls vi vi1 ls' m0 mu, tr_lits vi ls = (vi1, ls') ->
  length m0 = length vi -> agrees vi m0 mu ->
  exists ext, length (m0 ++ ext) = length vi1 /\ agrees vi1 (m0 ++ ext) mu.
Proof.
  induction ls as [|l r IH]; intros vi vi1 ls' m0 mu H L A; cbn [tr_lits] in H.
  - injection H as <- <-. exists []. rewrite app_nil_r. auto.
  - destruct (tr_lit vi l) as [va l'] eqn:E1. destruct (tr_lits va r) as [vb r'] eqn:E2.
    injection H as <- <-.
    destruct (tr_lit_B _ _ _ _ _ _ E1 L A) as [e1 [L1 A1]].
    destruct (IH _ _ _ _ _ E2 L1 A1) as [e2 [L2 A2]].
    exists (e1 ++ e2). rewrite app_assoc. auto.
Qed.

Lemma enc_constr_B : forall vi c vi1 p ot m0 mu (bv : bool), enc_constr vi c = (vi1, p, ot) ->
  length m0 = length vi -> agrees vi m0 mu ->
  exists ext, length (m0 ++ ext) = length vi1 /\ agrees vi1 (m0 ++ ext) mu /\
    (mc_hard c = false -> var_val (m0 ++ ext) (Z.of_nat (length vi1)) = bv).
Proof.
  intros vi c vi1 p ot m0 mu bv H L A. unfold enc_constr in H. unfold mc_hard.
  destruct (tr_lits vi (mc_lits c)) as [va lits] eqn:E.
  destruct (tr_lits_B _ _ _ _ _ _ E L A) as [e1 [L1 A1]].
  destruct (mc_weight c =? 0).
  - injection H as <- _ _. exists e1. split; [exact L1|]. split; [exact A1|discriminate].
  - destruct (gteq_c lits _ (mc_atleast c)) as [[l1 c1] a1]. injection H as <- _ _.
    exists (e1 ++ [bv]). rewrite app_assoc.
    split; [rewrite !(app_length _ [_]); simpl; lia|]. split.
    + intros v k Ek. rewrite var_index_app in Ek. destruct (var_index v va 1) as [j|] eqn:Ev.
      * injection Ek as <-. rewrite var_val_app1 by (apply var_index_bound in Ev; lia).
        apply A1. exact Ev.
      * cbn [var_index] in Ek. discriminate.
    + intros _. rewrite (app_length va). cbn [length].
      replace (Z.of_nat (length va + 1)) with (Z.of_nat (length (m0 ++ e1)) + 1) by lia.
      rewrite var_val_app2 by lia. reflexivity.
Qed.

Lemma enc_all_B : forall cs vi vi' P co, enc_all vi cs = (vi', P, co) -> wf_inst cs = true ->
  forall mu m0, length m0 = length vi -> agrees vi m0 mu ->
  exists ext, length (m0 ++ ext) = length vi' /\ agrees vi' (m0 ++ ext) mu /\
    forall rest, sat_problem ((m0 ++ ext) ++ rest) P = sat_hard mu cs /\
                 cost_of ((m0 ++ ext) ++ rest) co = violated_weight mu cs.
Proof.
  induction cs as [|c r IH]; intros vi vi' P co H W mu m0 L A; cbn [enc_all] in H.
  - injection H as <- <- <-. exists []. rewrite app_nil_r. split; [exact L|]. split; [exact A|].
    intros rest. split; reflexivity.
  - destruct (enc_constr vi c) as [[vi1 p] ot] eqn:E1.
    destruct (enc_all vi1 r) as [[vi2 P'] co'] eqn:E2. injection H as <- <- <-.
    apply wf_inst_cons in W. destruct W as [Wc Wr].
    destruct (enc_constr_B _ _ _ _ _ _ _ (negb (mc_sat mu c)) E1 L A) as [e1 [L1 [A1 Hb]]].
    destruct (IH _ _ _ _ E2 Wr mu _ L1 A1) as [e2 [L2 [A2 Hr]]].
    exists (e1 ++ e2). rewrite app_assoc. split; [exact L2|]. split; [exact A2|].
    intros rest. destruct (Hr rest) as [Hr1 Hr2].
    rewrite sat_problem_cons, sat_hard_cons, Hr1. cbn [violated_weight].
    assert (A1' : agrees vi1 (((m0 ++ e1) ++ e2) ++ rest) mu).
    { rewrite <- app_assoc. apply agrees_ext_model; assumption. }
    pose proof (enc_constr_sem _ _ _ _ _ E1 Wc _ mu A1') as Hc.
    destruct (mc_hard c) eqn:Eh.
    + destruct Hc as [-> Hc]. rewrite Hc. cbn [negb orb]. split; [reflexivity|]. rewrite Hr2. lia.
    + destruct Hc as [-> [Hpos Hc]].
      assert (Hv : var_val (((m0 ++ e1) ++ e2) ++ rest) (Z.of_nat (length vi1))
                   = var_val (m0 ++ e1) (Z.of_nat (length vi1))).
      { rewrite <- app_assoc. apply var_val_app1. lia. }
      rewrite Hc, Hv, (Hb eq_refl). cbn [negb orb].
      split; [destruct (mc_sat mu c); reflexivity|].
      rewrite cost_of_cons, lit_val_pos by exact Hpos. rewrite Hv, (Hb eq_refl), Hr2.
      destruct (mc_sat mu c); reflexivity.
Qed.

(* ------------------------------------------------------------------ *)
(* NbVars computed by ParsePBConstrs = len(varInts) for a well-formed instance. *)

Definition tmax (ts : list term) : Z := fold_right (fun t a => Z.max (Z.abs (snd t)) a) 0 ts.

Lemma tmax_nonneg : forall ts, 0 <= tmax ts.
Proof. induction ts as [|t ts IH]; simpl; lia. Qed.

Lemma maxvar_clause_nonneg : forall ls, 0 <= maxvar_clause ls.
Proof. induction ls as [|l ls IH]; simpl; unfold lit_var; lia. Qed.

Lemma maxvar_clause_app : forall a b,
  maxvar_clause (a ++ b) = Z.max (maxvar_clause a) (maxvar_clause b).
Proof.
  induction a as [|l a IH]; intros b; simpl.
  - pose proof (maxvar_clause_nonneg b). lia.
  - rewrite IH. lia.
Qed.

Lemma maxvar_clause_in : forall ls l, In l ls -> Z.abs l <= maxvar_clause ls.
Proof.
  induction ls as [|x ls IH]; intros l H; [destruct H|]. destruct H as [H|H]; simpl; unfold lit_var.
  - subst. lia.
  - specialize (IH l H). lia.
Qed.

Lemma tmax_unit : forall ls, tmax (unit_terms ls) = maxvar_clause ls.
Proof. induction ls as [|l ls IH]; simpl; [reflexivity|]. unfold lit_var. fold (unit_terms ls). rewrite <- IH. reflexivity. Qed.

Lemma tmax_combine_le : forall (cs : list Z) (ls : list lit),
  tmax (combine cs ls) <= maxvar_clause ls.
Proof.
  induction cs as [|w cs IH]; intros ls.
  - simpl. apply maxvar_clause_nonneg.
  - destruct ls as [|l ls]; [simpl; lia|]. cbn [combine tmax fold_right snd maxvar_clause].
    fold (tmax (combine cs ls)). unfold lit_var. specialize (IH ls). lia.
Qed.

Lemma gteq_terms_tmax_le : forall ts n, tmax (fst (gteq_terms ts n)) <= tmax ts.
Proof.
  induction ts as [|[w l] r IH]; intros n; cbn [gteq_terms]; [simpl; lia|].
  destruct (w <? 0).
  - specialize (IH (n + - w)). destruct (gteq_terms r (n + - w)) as [r' n'].
    cbn [fst] in *. cbn [tmax fold_right snd]. fold (tmax r'). fold (tmax r). lia.
  - destruct (w =? 0).
    + specialize (IH n). cbn [tmax fold_right snd]. fold (tmax r). lia.
    + specialize (IH n). destruct (gteq_terms r n) as [r' n'].
      cbn [fst] in *. cbn [tmax fold_right snd]. fold (tmax r'). fold (tmax r). lia.
Qed.

Lemma gteq_maxvar_le : forall (lits : list lit) coeffs n,
  pbc_maxvar (gteq lits coeffs n) <= maxvar_clause lits.
Proof.
  intros lits coeffs n. unfold gteq. destruct coeffs as [cs|].
  - pose proof (gteq_terms_tmax_le (combine cs lits) n) as E.
    destruct (gteq_terms (combine cs lits) n) as [ts n']. cbn [fst] in E.
    unfold pbc_maxvar; cbn [terms]. fold (tmax ts).
    pose proof (tmax_combine_le cs lits). lia.
  - unfold pbc_maxvar; cbn [terms]. fold (tmax (unit_terms lits)). rewrite tmax_unit. lia.
Qed.

Lemma maxvar_map_snd : forall ts : list term, maxvar_clause (map snd ts) = tmax ts.
Proof. induction ts as [|t ts IH]; simpl; [reflexivity|]. unfold lit_var. rewrite IH. reflexivity. Qed.

Lemma gteq_c_maxvar : forall (lits : list lit) coeffs n l1 c1 a1,
  gteq_c lits coeffs n = (l1, c1, a1) -> maxvar_clause l1 <= maxvar_clause lits.
Proof.
  intros lits coeffs n l1 c1 a1 H. unfold gteq_c in H. destruct coeffs as [cs|].
  - pose proof (gteq_terms_tmax_le (combine cs lits) n) as E.
    destruct (gteq_terms (combine cs lits) n) as [ts n']. cbn [fst] in E.
    injection H as <- _ _. rewrite maxvar_map_snd. pose proof (tmax_combine_le cs lits). lia.
  - injection H as <- _ _. lia.
Qed.

Lemma tr_lit_max : forall vi l vi1 l', tr_lit vi l = (vi1, l') ->
  Z.max (Z.of_nat (length vi)) (Z.abs l') = Z.of_nat (length vi1).
Proof.
  intros vi l vi1 l' H. unfold tr_lit in H.
  destruct (var_index (Z.abs l) vi 1) as [k|] eqn:E; injection H as <- <-.
  - apply var_index_bound in E. rewrite signed_abs by lia. lia.
  - rewrite signed_abs by lia. rewrite app_length. simpl. lia.
Qed.

Lemma tr_lits_max : forall ls vi vi1 ls', tr_lits vi ls = (vi1, ls') ->
  Z.max (Z.of_nat (length vi)) (maxvar_clause ls') = Z.of_nat (length vi1).
Proof.
  induction ls as [|l r IH]; intros vi vi1 ls' H; cbn [tr_lits] in H.
  - injection H as <- <-. simpl. lia.
  - destruct (tr_lit vi l) as [va l'] eqn:E1. destruct (tr_lits va r) as [vb r'] eqn:E2.
    injection H as <- <-. apply tr_lit_max in E1. apply IH in E2.
    cbn [maxvar_clause]. unfold lit_var. lia.
Qed.

Lemma enc_constr_max : forall vi c vi1 p ot, enc_constr vi c = (vi1, p, ot) ->
  pbc_maxvar p <= Z.of_nat (length vi1).
Proof.
  intros vi c vi1 p ot H. unfold enc_constr in H.
  destruct (tr_lits vi (mc_lits c)) as [va lits] eqn:E.
  pose proof (tr_lits_max _ _ _ _ E) as M.
  destruct (mc_weight c =? 0).
  - injection H as <- <- _. pose proof (gteq_maxvar_le lits
      (match mc_coeffs c with [] => None | _ :: _ => Some (mc_coeffs c) end) (mc_atleast c)).
    destruct (mc_coeffs c); lia.
  - destruct (gteq_c lits _ (mc_atleast c)) as [[l1 c1] a1] eqn:Eg.
    apply gteq_c_maxvar in Eg. injection H as <- <- _.
    match goal with |- pbc_maxvar (gteq ?ls ?cs ?k) <= _ =>
      pose proof (gteq_maxvar_le ls cs k) as G end.
    rewrite maxvar_clause_app in G. cbn [maxvar_clause] in G. unfold lit_var in G.
    rewrite app_length in *. cbn [length] in *. lia.
Qed.

Lemma enc_all_max : forall cs vi vi' P co, enc_all vi cs = (vi', P, co) ->
  problem_nbvars P <= Z.of_nat (length vi').
Proof.
  induction cs as [|c r IH]; intros vi vi' P co H; cbn [enc_all] in H.
  - injection H as <- <- _. simpl. lia.
  - destruct (enc_constr vi c) as [[vi1 p] ot] eqn:E1.
    destruct (enc_all vi1 r) as [[vi2 P'] co'] eqn:E2. injection H as <- <- _.
    apply enc_constr_max in E1. destruct (enc_all_ext _ _ _ _ _ E2) as [e Ee].
    apply IH in E2. cbn [problem_nbvars fold_right]. fold (problem_nbvars P').
    subst vi2. rewrite app_length in *. lia.
Qed.

(* ------------------------------------------------------------------ *)
(* The names of varInts and the maxsat.Model.                          *)

Definition names (vi : vmap) : list Z :=
  flat_map (fun x => match x with Some v => [v] | None => [] end) vi.

Lemma in_names : forall v vi, In v (names vi) <-> In (Some v) vi.
Proof.
  intros v vi. unfold names. rewrite in_flat_map. split.
  - intros [x [Hx Hv]]. destruct x as [u|]; [|destruct Hv].
    destruct Hv as [<-|[]]. exact Hx.
  - intros H. exists (Some v). split; [exact H|left; reflexivity].
Qed.

Lemma names_app : forall a b, names (a ++ b) = names a ++ names b.
Proof. intros. unfold names. apply flat_map_app. Qed.

Lemma tr_lit_names : forall vi l vi1 l', tr_lit vi l = (vi1, l') -> NoDup (names vi) ->
  NoDup (names vi1) /\ (forall v, In v (names vi1) <-> In v (names vi) \/ v = Z.abs l).
Proof.
  intros vi l vi1 l' H N. unfold tr_lit in H.
  destruct (var_index (Z.abs l) vi 1) as [k|] eqn:E; injection H as <- _.
  - split; [exact N|]. intros v. split; [auto|]. intros [Hv| ->]; [exact Hv|].
    apply in_names. eapply var_index_in; eauto.
  - rewrite names_app. cbn [names flat_map app]. split.
    + apply NoDup_app_disj; [exact N|constructor; [intros []|constructor]|].
      intros x Hx [<-|[]]. apply in_names in Hx. exact (var_index_none _ _ _ E Hx).
    + intros v. rewrite in_app_iff. cbn [In]. intuition.
Qed.

Lemma tr_lits_names : forall ls vi vi1 ls', tr_lits vi ls = (vi1, ls') -> NoDup (names vi) ->
  NoDup (names vi1) /\ (forall v, In v (names vi1) <-> In v (names vi) \/ In v (map Z.abs ls)).
Proof.
  induction ls as [|l r IH]; intros vi vi1 ls' H N; cbn [tr_lits] in H.
  - injection H as <- _. split; [exact N|]. intros v. cbn [map In]. tauto.
  - destruct (tr_lit vi l) as [va l'] eqn:E1. destruct (tr_lits va r) as [vb r'] eqn:E2.
    injection H as <- _. destruct (tr_lit_names _ _ _ _ E1 N) as [N1 I1].
    destruct (IH _ _ _ E2 N1) as [N2 I2]. split; [exact N2|].
    intros v. rewrite I2, I1. cbn [map In]. intuition.
Qed.

Lemma enc_constr_names : forall vi c vi1 p ot, enc_constr vi c = (vi1, p, ot) ->
  NoDup (names vi) ->
  NoDup (names vi1) /\
  (forall v, In v (names vi1) <-> In v (names vi) \/ In v (map Z.abs (mc_lits c))).
Proof.
  intros vi c vi1 p ot H N. unfold enc_constr in H.
  destruct (tr_lits vi (mc_lits c)) as [va lits] eqn:E.
  destruct (tr_lits_names _ _ _ _ E N) as [N1 I1].
  destruct (mc_weight c =? 0); [injection H as <- _ _; auto|].
  destruct (gteq_c lits _ (mc_atleast c)) as [[l1 c1] a1]. injection H as <- _ _.
  rewrite names_app. cbn [names flat_map app]. rewrite app_nil_r. auto.
Qed.

Lemma enc_all_names : forall cs vi vi' P co, enc_all vi cs = (vi', P, co) ->
  NoDup (names vi) ->
  NoDup (names vi') /\ (forall v, In v (names vi') <-> In v (names vi) \/ In v (inst_names cs)).
Proof.
  induction cs as [|c r IH]; intros vi vi' P co H N; cbn [enc_all] in H.
  - injection H as <- _ _. split; [exact N|]. intros v. cbn. tauto.
  - destruct (enc_constr vi c) as [[vi1 p] ot] eqn:E1.
    destruct (enc_all vi1 r) as [[vi2 P'] co'] eqn:E2. injection H as <- _ _.
    destruct (enc_constr_names _ _ _ _ _ E1 N) as [N1 I1].
    destruct (IH _ _ _ _ E2 N1) as [N2 I2]. split; [exact N2|].
    intros v. rewrite I2, I1. unfold inst_names. cbn [flat_map]. rewrite in_app_iff. intuition.
Qed.

Lemma named_model_fst : forall vi m, length m = length vi ->
  map fst (named_model vi m) = names vi.
Proof.
  induction vi as [|x vi IH]; intros m H; destruct m as [|b m]; try discriminate; [reflexivity|].
  simpl in H. injection H as H. destruct x as [v|]; cbn [named_model names flat_map map fst app].
  - f_equal. apply IH. exact H.
  - apply IH. exact H.
Qed.

Lemma lookup_named : forall vi m k0 v, length m = length vi ->
  lookup v (named_model vi m) =
  match var_index v vi k0 with
  | Some k => Some (var_val m (k - k0 + 1))
  | None => None
  end.
Proof.
  induction vi as [|x vi IH]; intros m k0 v H; destruct m as [|b m]; try discriminate; [reflexivity|].
  simpl in H. injection H as H. cbn [named_model var_index].
  assert (Hshift : match var_index v vi (k0 + 1) with
                   | Some k => Some (var_val m (k - (k0 + 1) + 1))
                   | None => None
                   end =
                   match var_index v vi (k0 + 1) with
                   | Some k => Some (var_val (b :: m) (k - k0 + 1))
                   | None => None
                   end).
  { destruct (var_index v vi (k0 + 1)) as [k|] eqn:E; [|reflexivity].
    apply var_index_bound in E. f_equal.
    replace (k - k0 + 1) with ((k - k0) + 1) by lia. rewrite var_val_cons by lia. f_equal. lia. }
  destruct x as [u|].
  - cbn [lookup]. destruct (u =? v).
    + replace (k0 - k0 + 1) with 1 by lia. reflexivity.
    + rewrite (IH m (k0 + 1) v H). exact Hshift.
  - rewrite (IH m (k0 + 1) v H). exact Hshift.
Qed.

Lemma to_model_val : forall nu res v, 1 <= v <= Z.of_nat nu ->
  var_val (to_model nu res) v = match lookup v res with Some b => b | None => false end.
Proof.
  intros nu res v H. unfold var_val, to_model. rewrite nth_map_seq by lia.
  replace (Z.of_nat (1 + Z.to_nat (v - 1))) with v by lia. reflexivity.
Qed.

Lemma agrees_to_model : forall vi m nu, length m = length vi ->
  (forall v, In (Some v) vi -> 1 <= v <= Z.of_nat nu) ->
  agrees vi m (to_model nu (named_model vi m)).
Proof.
  intros vi m nu L R v k E. rewrite to_model_val by (apply R; eapply var_index_in; eauto).
  rewrite (lookup_named vi m 1 v L), E. f_equal. lia.
Qed.

Lemma inst_names_range : forall inst v, wf_inst inst = true -> In v (inst_names inst) ->
  1 <= v <= inst_maxvar inst.
Proof.
  induction inst as [|c r IH]; intros v W H; [destruct H|].
  apply wf_inst_cons in W. destruct W as [Wc Wr].
  unfold inst_names in H. cbn [flat_map] in H. apply in_app_or in H.
  cbn [inst_maxvar fold_right]. fold (inst_maxvar r).
  destruct H as [H|H].
  - apply in_map_iff in H. destruct H as [l [<- Hl]].
    pose proof (wfc_nz c Wc) as Hnz. rewrite Forall_forall in Hnz. specialize (Hnz l Hl).
    pose proof (maxvar_clause_in _ _ Hl). lia.
  - specialize (IH v Wr H). lia.
Qed.

(* ------------------------------------------------------------------ *)
(* The API route, assembled.                                           *)

Section Api.

Variable solve : solver.
Hypothesis solve_ok : solver_ok solve.

Definition covers_names (res : list (Z * bool)) (inst : minst) : Prop :=
  NoDup (map fst res) /\ forall v, In v (map fst res) <-> In v (inst_names inst).

(* C04_encoding *)
Theorem encode_correct : forall inst vi P co, encode inst = (vi, P, co) -> wf_inst inst = true ->
  (forall m mu, agrees vi m mu -> sat_problem m P = true ->
     sat_hard mu inst = true /\ violated_weight mu inst <= cost_of m co) /\
  (forall mu, exists m, length m = length vi /\ agrees vi m mu /\
     sat_problem m P = sat_hard mu inst /\ cost_of m co = violated_weight mu inst) /\
  Z.to_nat (Z.max (problem_nbvars P) (Z.of_nat (length vi))) = length vi /\
  nonneg_terms co = true /\ cost_wf (length vi) co = true.
Proof.
  intros inst vi P co E W. unfold encode in E. split; [|split; [|split; [|split]]].
  - intros m mu. eapply enc_all_A; eauto.
  - intros mu.
    destruct (enc_all_B _ _ _ _ _ E W mu [] eq_refl) as [ext [L [A H]]].
    { intros v k Hk. discriminate. }
    exists ext. cbn [app] in *. specialize (H []). rewrite app_nil_r in H. tauto.
  - pose proof (enc_all_max _ _ _ _ _ E) as M. lia.
  - pose proof (enc_all_cost _ _ _ _ _ E W) as C. apply nonneg_terms_Forall.
    eapply Forall_impl; [|exact C]. cbn beta. tauto.
  - pose proof (enc_all_cost _ _ _ _ _ E W) as C. unfold cost_wf. apply forallb_forall.
    intros t Ht. rewrite Forall_forall in C. specialize (C t Ht). cbn [length] in C.
    apply andb_true_iff. split.
    + apply negb_true_iff, Z.eqb_neq. lia.
    + apply Z.leb_le. lia.
Qed.

Theorem maxsat_correct : forall inst, wf_inst inst = true ->
  match maxsat solve inst with
  | MUnsat => forall mu, sat_hard mu inst = false
  | MSat res w =>
      let mu := to_model (inst_nvars inst) res in
      sat_hard mu inst = true /\ w = violated_weight mu inst /\
      (forall mu', sat_hard mu' inst = true -> w <= violated_weight mu' inst) /\
      covers_names res inst
  | MGoPanic => False
  end.
Proof.
  intros inst W. unfold maxsat. destruct (encode inst) as [[vi P] co] eqn:E.
  destruct (encode_correct inst vi P co E W) as [HA [HB [Hn [Hnn Hwf]]]].
  rewrite Hn.
  pose proof (enc_all_names _ _ _ _ _ E (NoDup_nil Z)) as [Nd In'].
  assert (Hrange : forall v, In (Some v) vi -> 1 <= v <= Z.of_nat (inst_nvars inst)).
  { intros v Hv. apply in_names in Hv. apply In' in Hv. destruct Hv as [[]|Hv].
    pose proof (inst_names_range inst v W Hv). unfold inst_nvars. lia. }
  set (proj := fun m : model => to_model (inst_nvars inst) (named_model vi m)).
  destruct (relax_optimal solve solve_ok model (length vi) P co proj
              (fun mu => sat_hard mu inst) (fun mu => violated_weight mu inst) Hnn Hwf)
    as [r [s [Er Hr]]].
  { intros m L S. apply (HA m (proj m)); [|exact S]. apply agrees_to_model; [exact L|exact Hrange]. }
  { intros mu Hh. destruct (HB mu) as [m [L [_ [S C]]]]. exists m. rewrite S. auto. }
  rewrite minimize_run_agrees, Er. destruct r as [|m w]; cbn [oweight omodel].
  - change (-1 =? -1) with true. cbv iota. apply Hr.
  - destruct Hr as [L [Hh [Hw [Hpos [Hmin _]]]]].
    replace (w =? -1) with false by (symmetry; apply Z.eqb_neq; lia).
    cbv zeta. fold (proj m). split; [exact Hh|]. split; [exact Hw|]. split; [exact Hmin|].
    unfold covers_names. rewrite named_model_fst by exact L. split; [exact Nd|].
    intros v. rewrite In'. cbn [names flat_map In]. tauto.
Qed.

End Api.

(* ------------------------------------------------------------------ *)
(* Inputs on which the Go code failed before the fixes 64bc953 / dda97f9 of /repo
   (negative coefficient in a soft constraint: Unsat; soft PB constraint with
   AtLeast = 0 in last position: panic; variable with a null coefficient only: missing
   from the model).  They are now inside wf_inst and answered correctly. *)
Lemma maxsat_negative_coeff_ok :
  wf_inst [hard_clause [1]; weighted_pb [1] [-3] (-1) 1] = true /\
  maxsat_ref [hard_clause [1]; weighted_pb [1] [-3] (-1) 1] = MSat [(1, true)] 1.
Proof. split; vm_compute; reflexivity. Qed.

Lemma maxsat_atleast0_ok :
  wf_inst [hard_clause [1]; weighted_pb [1] [1] 0 2] = true /\
  maxsat_ref [hard_clause [1]; weighted_pb [1] [1] 0 2] = MSat [(1, true)] 0.
Proof. split; vm_compute; reflexivity. Qed.

Lemma maxsat_zero_coeff_ok :
  wf_inst [hard_pb [1; 2] [1; 0] 1] = true /\
  maxsat_ref [hard_pb [1; 2] [1; 0] 1] = MSat [(1, true); (2, false)] 0.
Proof. split; vm_compute; reflexivity. Qed.

(* ------------------------------------------------------------------ *)
(* 3. The WCNF route.                                                  *)

Definition relax_lits (relax : Z) (k : nat) : list Z :=
  map (fun i => relax + Z.of_nat i) (seq 0 k).

Lemma relax_lits_S : forall relax k, relax_lits relax (S k) = relax :: relax_lits (relax + 1) k.
Proof.
  intros relax k. unfold relax_lits. cbn [seq map]. f_equal; [lia|].
  rewrite <- seq_shift, map_map. apply map_ext. intros i. lia.
Qed.

Lemma relax_lits_in : forall relax k x, In x (relax_lits relax k) ->
  relax <= x < relax + Z.of_nat k.
Proof.
  intros relax k x H. unfold relax_lits in H. apply in_map_iff in H.
  destruct H as [i [<- Hi]]. apply in_seq in Hi. lia.
Qed.

Definition uagree (nb : Z) (m mu : model) : Prop :=
  forall v, 1 <= v <= nb -> var_val m v = var_val mu v.

Lemma uagree_lit : forall nb m mu l, uagree nb m mu -> l <> 0 -> Z.abs l <= nb ->
  lit_val m l = lit_val mu l.
Proof.
  intros nb m mu l A Hl Hb. unfold lit_val. destruct (0 <? l) eqn:E.
  - apply Z.ltb_lt in E. apply A. lia.
  - apply Z.ltb_ge in E. f_equal. apply A. lia.
Qed.

Definition lits_in (nb : Z) (cl : clause) : Prop :=
  Forall (fun l => l <> 0 /\ Z.abs l <= nb) cl.

Lemma uagree_clause : forall nb m mu cl, uagree nb m mu -> lits_in nb cl ->
  sat_clause m cl = sat_clause mu cl.
Proof.
  intros nb m mu cl A H. unfold sat_clause. induction H as [|l cl [Hl Hb] _ IH]; [reflexivity|].
  cbn [existsb]. rewrite IH, (uagree_lit nb m mu l A Hl Hb). reflexivity.
Qed.

Lemma sat_clause_snoc : forall m cl r,
  sat_clause m (cl ++ [r]) = sat_clause m cl || lit_val m r.
Proof.
  intros m cl r. unfold sat_clause. rewrite existsb_app. cbn [existsb]. rewrite orb_false_r.
  reflexivity.
Qed.

Record wfl (nb : Z) (f : list Z) : Prop := {
  wfl_len : (2 <= length f)%nat;
  wfl_w : 0 <= wl_weight f;
  wfl_lits : lits_in nb (wl_clause f)
}.

Lemma wf_line_wfl : forall nb f, wf_line nb f = true -> wfl nb f.
Proof.
  intros nb f H. unfold wf_line in H. repeat (apply andb_true_iff in H; destruct H as [H ?]).
  constructor.
  - apply Z.leb_le in H. lia.
  - apply Z.leb_le. assumption.
  - apply Forall_forall. intros l Hl. rewrite forallb_forall in H0. specialize (H0 l Hl).
    apply andb_true_iff in H0. destruct H0 as [H3 H4].
    apply negb_true_iff, Z.eqb_neq in H3. apply Z.leb_le in H4. auto.
Qed.

Lemma parse_clause_spec : forall f top relax, (2 <= length f)%nat ->
  parse_wcnf_clause f top relax =
  (if wl_soft top f then wl_clause f ++ [relax] else wl_clause f, wl_weight f).
Proof.
  intros f top relax H. unfold parse_wcnf_clause, wl_soft, wl_clause, wl_weight.
  destruct (w_soft top (hd 0 f)); [|reflexivity].
  destruct f as [|w [|l r]]; simpl in H; try lia. reflexivity.
Qed.

Definition lines_hard_ok (mu : model) (top : Z) (lines : list (list Z)) : bool :=
  forallb (fun f => wl_soft top f || sat_clause mu (wl_clause f)) lines.

Lemma maxvar_clause_le : forall nb cl, 0 <= nb -> lits_in nb cl -> maxvar_clause cl <= nb.
Proof.
  intros nb cl H0 H. induction H as [|l cl [_ Hb] _ IH]; simpl; unfold lit_var; lia.
Qed.

Lemma wl_shape : forall nb top lines relax cs ws rl,
  wcnf_loop lines top relax = (cs, ws, rl) ->
  forallb (wf_line nb) lines = true -> 0 <= nb < relax ->
  rl = relax + Z.of_nat (length ws) /\
  length ws = length (filter (wl_soft top) lines) /\
  Forall (fun w => 0 <= w) ws /\
  Z.max (relax - 1) (maxvar cs) = rl - 1.
Proof.
  intros nb top lines. induction lines as [|f r IH]; intros relax cs ws rl H W Hr;
    cbn [wcnf_loop] in H.
  - injection H as <- <- <-. cbn. repeat split; try constructor; lia.
  - cbn [forallb] in W. apply andb_true_iff in W. destruct W as [Wf Wr].
    apply wf_line_wfl in Wf. rewrite (parse_clause_spec f top relax (wfl_len _ _ Wf)) in H.
    fold (wl_soft top f) in H. cbn [filter].
    pose proof (maxvar_clause_le nb _ (proj1 Hr) (wfl_lits _ _ Wf)) as Hm.
    pose proof (maxvar_clause_nonneg (wl_clause f)) as Hm0.
    destruct (wl_soft top f) eqn:Es.
    + destruct (wcnf_loop r top (relax + 1)) as [[cs' ws'] rl'] eqn:E. injection H as <- <- <-.
      destruct (IH _ _ _ _ E Wr) as [H1 [H2 [H3 H4]]]; [lia|].
      cbn [length maxvar]. rewrite maxvar_clause_app. cbn [maxvar_clause]. unfold lit_var.
      repeat split; [lia|lia|constructor; [exact (wfl_w _ _ Wf)|exact H3]|lia].
    + destruct (wcnf_loop r top relax) as [[cs' ws'] rl'] eqn:E. injection H as <- <- <-.
      destruct (IH _ _ _ _ E Wr Hr) as [H1 [H2 [H3 H4]]].
      cbn [maxvar]. repeat split; [lia|lia|exact H3|lia].
Qed.

Lemma wl_A : forall nb top lines relax cs ws rl,
  wcnf_loop lines top relax = (cs, ws, rl) ->
  forallb (wf_line nb) lines = true -> 0 <= nb < relax ->
  forall m mu, uagree nb m mu -> sat_cnf m cs = true ->
    lines_hard_ok mu top lines = true /\
    lines_violated mu top lines <= cost_of m (combine ws (relax_lits relax (length ws))).
Proof.
  intros nb top lines. induction lines as [|f r IH]; intros relax cs ws rl H W Hr m mu A S;
    cbn [wcnf_loop] in H.
  - injection H as <- <- <-. split; [reflexivity|]. cbn. lia.
  - cbn [forallb] in W. apply andb_true_iff in W. destruct W as [Wf Wr].
    apply wf_line_wfl in Wf. rewrite (parse_clause_spec f top relax (wfl_len _ _ Wf)) in H.
    fold (wl_soft top f) in H. unfold lines_hard_ok. cbn [forallb lines_violated].
    fold (lines_hard_ok mu top r).
    pose proof (uagree_clause nb m mu _ A (wfl_lits _ _ Wf)) as Hcl.
    destruct (wl_soft top f) eqn:Es.
    + destruct (wcnf_loop r top (relax + 1)) as [[cs' ws'] rl'] eqn:E. injection H as <- <- <-.
      cbn [sat_cnf forallb] in S. apply andb_true_iff in S. destruct S as [S1 S2].
      destruct (IH _ _ _ _ E Wr ltac:(lia) m mu A S2) as [H1 H2].
      cbn [orb andb length]. split; [exact H1|].
      rewrite relax_lits_S. cbn [combine]. rewrite cost_of_cons.
      rewrite sat_clause_snoc, Hcl in S1. pose proof (wfl_w _ _ Wf).
      destruct (sat_clause mu (wl_clause f)); cbn [orb negb] in *.
      * destruct (lit_val m relax); lia.
      * rewrite S1. lia.
    + destruct (wcnf_loop r top relax) as [[cs' ws'] rl'] eqn:E. injection H as <- <- <-.
      cbn [sat_cnf forallb] in S. apply andb_true_iff in S. destruct S as [S1 S2].
      destruct (IH _ _ _ _ E Wr Hr m mu A S2) as [H1 H2].
      rewrite Hcl in S1. rewrite S1. cbn [orb andb]. split; [exact H1|lia].
Qed.

Lemma wl_B : forall nb top lines relax cs ws rl,
  wcnf_loop lines top relax = (cs, ws, rl) ->
  forallb (wf_line nb) lines = true -> 0 <= nb < relax ->
  forall m mu, uagree nb m mu ->
    (forall i, (i < length (filter (wl_soft top) lines))%nat ->
       var_val m (relax + Z.of_nat i) =
       negb (sat_clause mu (wl_clause (nth i (filter (wl_soft top) lines) [])))) ->
    sat_cnf m cs = lines_hard_ok mu top lines /\
    cost_of m (combine ws (relax_lits relax (length ws))) = lines_violated mu top lines.
Proof.
  intros nb top lines. induction lines as [|f r IH]; intros relax cs ws rl H W Hr m mu A R;
    cbn [wcnf_loop] in H.
  - injection H as <- <- <-. split; reflexivity.
  - cbn [forallb] in W. apply andb_true_iff in W. destruct W as [Wf Wr].
    apply wf_line_wfl in Wf. rewrite (parse_clause_spec f top relax (wfl_len _ _ Wf)) in H.
    fold (wl_soft top f) in H. unfold lines_hard_ok. cbn [forallb lines_violated].
    fold (lines_hard_ok mu top r). cbn [filter] in R.
    pose proof (uagree_clause nb m mu _ A (wfl_lits _ _ Wf)) as Hcl.
    destruct (wl_soft top f) eqn:Es.
    + destruct (wcnf_loop r top (relax + 1)) as [[cs' ws'] rl'] eqn:E. injection H as <- <- <-.
      assert (R0 : var_val m relax = negb (sat_clause mu (wl_clause f))).
      { specialize (R O ltac:(simpl; lia)). cbn [nth] in R. rewrite <- R. f_equal. lia. }
      assert (R' : forall i, (i < length (filter (wl_soft top) r))%nat ->
                 var_val m (relax + 1 + Z.of_nat i) =
                 negb (sat_clause mu (wl_clause (nth i (filter (wl_soft top) r) [])))).
      { intros i Hi. specialize (R (S i) ltac:(simpl; lia)). cbn [nth] in R. rewrite <- R.
        f_equal. lia. }
      destruct (IH _ _ _ _ E Wr ltac:(lia) m mu A R') as [H1 H2].
      cbn [sat_cnf forallb orb andb length]. fold (sat_cnf m cs'). rewrite H1.
      rewrite relax_lits_S. cbn [combine]. rewrite cost_of_cons, H2.
      rewrite sat_clause_snoc, Hcl, lit_val_pos by lia. rewrite R0.
      destruct (sat_clause mu (wl_clause f)); cbn [orb negb andb]; split; reflexivity.
    + destruct (wcnf_loop r top relax) as [[cs' ws'] rl'] eqn:E. injection H as <- <- <-.
      destruct (IH _ _ _ _ E Wr Hr m mu A R) as [H1 H2].
      cbn [sat_cnf forallb orb andb]. fold (sat_cnf m cs'). rewrite H1, Hcl, H2.
      split; [reflexivity|lia].
Qed.

(* padding / truncating an assignment to exactly k variables *)
Definition fit (k : nat) (mu : model) : model := map (fun i => nth i mu false) (seq 0 k).

Lemma fit_length : forall k mu, length (fit k mu) = k.
Proof. intros. unfold fit. rewrite map_length, seq_length. reflexivity. Qed.

Lemma fit_val : forall k mu v, 1 <= v <= Z.of_nat k -> var_val (fit k mu) v = var_val mu v.
Proof.
  intros k mu v H. unfold var_val, fit. rewrite nth_map_seq by lia. reflexivity.
Qed.

Lemma nth_firstn_lt : forall (A : Type) (l : list A) d i k, (i < k)%nat ->
  nth i (firstn k l) d = nth i l d.
Proof.
  intros A l d. induction l as [|x l IH]; intros i k H.
  - rewrite firstn_nil. reflexivity.
  - destruct k as [|k]; [lia|]. destruct i as [|i]; [reflexivity|]. cbn. apply IH. lia.
Qed.

Lemma uagree_firstn : forall nb m, uagree nb (firstn (Z.to_nat nb) m) m.
Proof. intros nb m v H. unfold var_val. apply nth_firstn_lt. lia. Qed.

Lemma uagree_sym_clause : forall nb m mu, uagree nb m mu -> uagree nb mu m.
Proof. intros nb m mu H v Hv. symmetry. apply H. exact Hv. Qed.

(* hard-ok and violated weight only depend on the declared variables *)
Lemma lines_uagree : forall nb top lines m mu, forallb (wf_line nb) lines = true ->
  uagree nb m mu ->
  lines_hard_ok m top lines = lines_hard_ok mu top lines /\
  lines_violated m top lines = lines_violated mu top lines.
Proof.
  intros nb top lines m mu W A. induction lines as [|f r IH]; [split; reflexivity|].
  cbn [forallb] in W. apply andb_true_iff in W. destruct W as [Wf Wr].
  apply wf_line_wfl in Wf. destruct (IH Wr) as [I1 I2].
  unfold lines_hard_ok in *. cbn [forallb lines_violated].
  rewrite (uagree_clause nb m mu _ A (wfl_lits _ _ Wf)), I1, I2. split; reflexivity.
Qed.

(* the trimming of the streamed results *)
Definition trimf (k : Z) (r : oresult) : oresult :=
  match r with OUnsat => OUnsat | OSat m c => OSat (firstn (Z.to_nat k) m) c end.

Lemma trim_all_map : forall k s,
  Forall (fun x => match x with OSat m _ => k <= Z.of_nat (length m) | OUnsat => True end) s ->
  trim_all k s = Some (map (trimf k) s).
Proof.
  intros k s H. induction H as [|x s Hx _ IH]; [reflexivity|].
  cbn [trim_all map]. rewrite IH. destruct x as [|m c]; [reflexivity|].
  cbn [trim_result trimf]. apply Z.leb_le in Hx. rewrite Hx. reflexivity.
Qed.

Lemma last_map_trimf : forall k s, last (map (trimf k) s) OUnsat = trimf k (last s OUnsat).
Proof.
  intros k s. induction s as [|x s IH]; [reflexivity|].
  destruct s as [|y s]; [reflexivity|]. cbn [map last] in *. exact IH.
Qed.

Lemma oweight_trimf : forall k x, oweight (trimf k x) = oweight x.
Proof. intros k [|m c]; reflexivity. Qed.

Lemma sorted_map_trimf : forall k s,
  StronglySorted (fun a b => oweight b < oweight a) s ->
  StronglySorted (fun a b => oweight b < oweight a) (map (trimf k) s).
Proof.
  intros k s H. induction H as [|x s _ IH Hx]; [constructor|].
  cbn [map]. constructor; [exact IH|]. apply Forall_map.
  eapply Forall_impl; [|exact Hx]. cbn beta. intros y Hy. rewrite !oweight_trimf. exact Hy.
Qed.

Section Wcnf.

Variable solve : solver.
Hypothesis solve_ok : solver_ok solve.

Definition w_nsoft (w : wcnf) : nat := length (filter (wl_soft (w_top w)) (w_lines w)).

(* what a returned / streamed model must satisfy *)
Definition w_good (w : wcnf) (mu : model) (c : Z) : Prop :=
  length mu = Z.to_nat (w_nbvars w) /\ w_sat_hard mu w = true /\ w_violated mu w <= c.

Lemma wcnf_core : forall w, wf_wcnf w = true ->
  forall n P co, wcnf_encode w = (n, P, co) ->
  n = (Z.to_nat (w_nbvars w) + w_nsoft w)%nat /\
  exists r s, optimal_run solve n P (Some co) = RDone r s /\
    match r with
    | OUnsat => (forall mu, w_sat_hard mu w = false) /\ s = [OUnsat]
    | OSat m c =>
        length m = n /\
        let mu := firstn (Z.to_nat (w_nbvars w)) m in
        w_sat_hard mu w = true /\ c = w_violated mu w /\
        (forall mu', w_sat_hard mu' w = true -> c <= w_violated mu' w) /\
        Forall (fun x => exists mj cj, x = OSat mj cj /\ length mj = n /\
                  w_good w (firstn (Z.to_nat (w_nbvars w)) mj) cj) s /\
        StronglySorted (fun a b => oweight b < oweight a) s /\ last s OUnsat = r
    end.
Proof.
  intros w W n P co E. unfold wf_wcnf in W. apply andb_true_iff in W. destruct W as [W0 W].
  apply Z.leb_le in W0. unfold wcnf_encode in E.
  destruct (wcnf_loop (w_lines w) (w_top w) (w_nbvars w + 1)) as [[cs ws] rl] eqn:EL.
  injection E as En EP Eco.
  set (nb := w_nbvars w) in *. set (top := w_top w) in *.
  destruct (wl_shape nb top _ _ _ _ _ EL W ltac:(lia)) as [Hrl [Hlen [Hws Hmax]]].
  assert (Hn : n = (Z.to_nat nb + w_nsoft w)%nat).
  { unfold w_nsoft. fold top. rewrite <- Hlen. lia. }
  split; [exact Hn|].
  assert (Eco' : co = combine ws (relax_lits (nb + 1) (length ws))).
  { rewrite <- Eco. f_equal. replace (Z.to_nat (rl - nb - 1)) with (length ws) by lia.
    unfold relax_lits. apply map_ext. intros i. lia. }
  assert (Hcost : Forall (fun t => 0 <= fst t /\ nb + 1 <= snd t < nb + 1 + Z.of_nat (length ws)) co).
  { rewrite Eco'. apply Forall_forall. intros [a b] Hin. cbn [fst snd].
    pose proof (in_combine_l _ _ _ _ Hin) as Ha. pose proof (in_combine_r _ _ _ _ Hin) as Hb.
    rewrite Forall_forall in Hws. specialize (Hws a Ha). apply relax_lits_in in Hb. lia. }
  assert (Hnn : nonneg_terms co = true).
  { apply nonneg_terms_Forall. eapply Forall_impl; [|exact Hcost]. cbn beta. tauto. }
  assert (Hwf : cost_wf n co = true).
  { unfold cost_wf. apply forallb_forall. intros t Ht. rewrite Forall_forall in Hcost.
    specialize (Hcost t Ht). apply andb_true_iff. split.
    - apply negb_true_iff, Z.eqb_neq. lia.
    - apply Z.leb_le. lia. }
  set (proj := fun m : model => firstn (Z.to_nat nb) m).
  destruct (relax_optimal solve solve_ok model n P co proj
              (fun mu => w_sat_hard mu w) (fun mu => w_violated mu w) Hnn Hwf)
    as [r [s [Er Hr]]].
  { intros m L S. rewrite <- EP, sat_cnf_problem in S.
    destruct (wl_A nb top _ _ _ _ _ EL W ltac:(lia) m (proj m)) as [H1 H2].
    - apply uagree_sym_clause. apply uagree_firstn.
    - exact S.
    - rewrite Eco'. split; [exact H1|exact H2]. }
  { intros mu Hh.
    set (softs := filter (wl_soft top) (w_lines w)).
    set (m := fit (Z.to_nat nb) mu ++ map (fun f => negb (sat_clause mu (wl_clause f))) softs).
    assert (Am : uagree nb m mu).
    { intros v Hv. unfold m. rewrite var_val_app1 by (rewrite fit_length; lia).
      apply fit_val. lia. }
    destruct (wl_B nb top _ _ _ _ _ EL W ltac:(lia) m mu Am) as [H1 H2].
    - intros i Hi. fold softs in Hi |- *. unfold m.
      replace (nb + 1 + Z.of_nat i) with (Z.of_nat (length (fit (Z.to_nat nb) mu)) + (Z.of_nat i + 1))
        by (rewrite fit_length; lia).
      rewrite var_val_app2 by lia. unfold var_val.
      replace (Z.to_nat (Z.of_nat i + 1 - 1)) with i by lia.
      rewrite (nth_indep _ false (negb (sat_clause mu (wl_clause [])))) by (rewrite map_length; exact Hi).
      rewrite (map_nth (fun f => negb (sat_clause mu (wl_clause f)))). reflexivity.
    - exists m. split; [|split].
      + unfold m. rewrite app_length, fit_length, map_length. unfold softs. fold (w_nsoft w).
        unfold w_nsoft in Hn. fold top in Hn. lia.
      + rewrite <- EP, sat_cnf_problem, H1. exact Hh.
      + rewrite Eco'. exact H2. }
  exists r, s. split; [exact Er|]. destruct r as [|m c]; [exact Hr|].
  destruct Hr as [L [Hh [Hw [_ [Hmin [Hel [Hso Hla]]]]]]].
  split; [exact L|]. cbv zeta. fold nb. fold (proj m).
  split; [exact Hh|]. split; [exact Hw|]. split; [exact Hmin|]. split; [|split; [exact Hso|exact Hla]].
  eapply Forall_impl; [|exact Hel]. intros x [mj [Ex [Lj [Hhj Hvj]]]].
  exists mj, (cost_of mj co). split; [exact Ex|]. split; [exact Lj|].
  unfold w_good. fold nb. split; [|split; [exact Hhj|exact Hvj]].
  unfold proj. rewrite firstn_length. lia.
Qed.

Theorem wcnf_chan_correct : forall w, wf_wcnf w = true ->
  match wcnf_optimal_chan solve w with
  | WPanic => False
  | WDone OUnsat s => (forall mu, w_sat_hard mu w = false) /\ s = [OUnsat]
  | WDone (OSat m c) s =>
      length m = Z.to_nat (w_nbvars w) /\
      w_sat_hard m w = true /\ c = w_violated m w /\
      (forall mu', w_sat_hard mu' w = true -> c <= w_violated mu' w) /\
      Forall (fun x => exists mj cj, x = OSat mj cj /\ w_good w mj cj) s /\
      StronglySorted (fun a b => oweight b < oweight a) s /\
      last s OUnsat = OSat m c
  end.
Proof.
  intros w W. unfold wcnf_optimal_chan. destruct (wcnf_encode w) as [[n P] co] eqn:E.
  destruct (wcnf_core w W n P co E) as [Hn [r [s [Er Hr]]]]. rewrite Er.
  destruct r as [|m c].
  - destruct Hr as [Hu ->]. cbn. auto.
  - destruct Hr as [L [Hh [Hw [Hmin [Hel [Hso Hla]]]]]].
    unfold wf_wcnf in W. apply andb_true_iff in W. destruct W as [W0 _]. apply Z.leb_le in W0.
    rewrite trim_all_map.
    2:{ eapply Forall_impl; [|exact Hel]. intros x [mj [cj [-> [Lj _]]]]. lia. }
    rewrite last_map_trimf, Hla. cbn [trimf].
    split; [rewrite firstn_length; lia|]. split; [exact Hh|]. split; [exact Hw|].
    split; [exact Hmin|]. split; [|split; [apply sorted_map_trimf; exact Hso|]].
    + apply Forall_map. eapply Forall_impl; [|exact Hel].
      intros x [mj [cj [-> [Lj G]]]]. cbn [trimf]. eauto.
    + reflexivity.
Qed.

(* Optimal(nil, stop) returns the same trimmed result (nothing is streamed). *)
Theorem wcnf_nil_correct : forall w, wf_wcnf w = true ->
  match wcnf_optimal_nil solve w with
  | WPanic => False
  | WDone OUnsat _ => forall mu, w_sat_hard mu w = false
  | WDone (OSat m c) _ =>
      length m = Z.to_nat (w_nbvars w) /\
      w_sat_hard m w = true /\ c = w_violated m w /\
      (forall mu', w_sat_hard mu' w = true -> c <= w_violated mu' w)
  end.
Proof.
  intros w W. unfold wcnf_optimal_nil. destruct (wcnf_encode w) as [[n P] co] eqn:E.
  destruct (wcnf_core w W n P co E) as [Hn [r [s [Er Hr]]]]. rewrite Er.
  destruct r as [|m c]; cbn [trim_result].
  - apply Hr.
  - destruct Hr as [L [Hh [Hw [Hmin _]]]].
    unfold wf_wcnf in W. apply andb_true_iff in W. destruct W as [W0 _]. apply Z.leb_le in W0.
    replace (w_nbvars w <=? Z.of_nat (length m)) with true by (symmetry; apply Z.leb_le; lia).
    split; [rewrite firstn_length; lia|]. auto.
Qed.

Theorem wcnf_nil_agrees : forall w, wf_wcnf w = true ->
  match wcnf_optimal_chan solve w, wcnf_optimal_nil solve w with
  | WDone r _, WDone r' s' => r' = r /\ s' = []
  | _, _ => False
  end.
Proof.
  intros w W. unfold wcnf_optimal_chan, wcnf_optimal_nil.
  destruct (wcnf_encode w) as [[n P] co] eqn:E.
  destruct (wcnf_core w W n P co E) as [Hn [r [s [Er Hr]]]]. rewrite Er.
  unfold wf_wcnf in W. apply andb_true_iff in W. destruct W as [W0 _]. apply Z.leb_le in W0.
  destruct r as [|m c].
  - destruct Hr as [_ ->]. cbn. auto.
  - destruct Hr as [L [_ [_ [_ [Hel [_ Hla]]]]]].
    rewrite trim_all_map.
    2:{ eapply Forall_impl; [|exact Hel]. intros x [mj [cj [-> [Lj _]]]]. lia. }
    rewrite last_map_trimf, Hla. cbn [trimf trim_result].
    replace (w_nbvars w <=? Z.of_nat (length m)) with true by (symmetry; apply Z.leb_le; lia).
    auto.
Qed.

End Wcnf.

(* Inputs on which the Go code failed before the fixes 922d9d8 / 2a47b9c of /repo
   (relaxation variables in the model returned by Optimal(nil, stop); panic when the
   last declared variable is unused and every clause is hard). *)
Lemma wcnf_nil_no_leak_ok :
  wf_wcnf (WCNF 3 10 [[10; 1; 2; 0]; [3; -1; 0]; [2; -2; 0]; [1; 3; 0]]) = true /\
  wcnf_optimal_nil_ref (WCNF 3 10 [[10; 1; 2; 0]; [3; -1; 0]; [2; -2; 0]; [1; 3; 0]]) =
  WDone (OSat [false; true; true] 2) [].
Proof. split; vm_compute; reflexivity. Qed.

Lemma wcnf_unused_var_ok :
  wf_wcnf (WCNF 3 10 [[10; 1; 2; 0]]) = true /\
  wcnf_optimal_chan_ref (WCNF 3 10 [[10; 1; 2; 0]]) =
  WDone (OSat [false; true; false] 0) [OSat [false; true; false] 0] /\
  wcnf_optimal_nil_ref (WCNF 3 10 [[10; 1; 2; 0]]) = WDone (OSat [false; true; false] 0) [].
Proof. split; [|split]; vm_compute; reflexivity. Qed.

(* ------------------------------------------------------------------ *)
(* Corollaries in the shape used by Properties/C04.v.                  *)

Theorem maxsat_projection : forall solve, solver_ok solve ->
  forall inst, wf_inst inst = true ->
  forall res w, maxsat solve inst = MSat res w ->
    NoDup (map fst res) /\ (forall v, In v (map fst res) <-> In v (inst_names inst)).
Proof.
  intros solve Hok inst W res w E. pose proof (maxsat_correct solve Hok inst W) as H.
  rewrite E in H. apply H.
Qed.

Lemma to_model_length : forall nu res, length (to_model nu res) = nu.
Proof. intros. unfold to_model. rewrite map_length, seq_length. reflexivity. Qed.

Theorem maxsat_model_correct : forall solve, solver_ok solve ->
  forall inst, wf_inst inst = true ->
  match maxsat_model solve inst with
  | None => forall mu, sat_hard mu inst = false
  | Some (m, c) =>
      length m = inst_nvars inst /\ sat_hard m inst = true /\ c = violated_weight m inst /\
      (forall mu', sat_hard mu' inst = true -> c <= violated_weight mu' inst)
  end.
Proof.
  intros solve Hok inst W. pose proof (maxsat_correct solve Hok inst W) as H.
  unfold maxsat_model. destruct (maxsat solve inst) as [|res w|].
  - exact H.
  - cbv zeta in H. destruct H as [H1 [H2 [H3 _]]]. split; [apply to_model_length|auto].
  - contradiction.
Qed.

(* C04_encoding for the WCNF route: the relaxation variables are nbVars+1 .. nbVars+k,
   the best completion of an assignment of the declared variables costs exactly the
   weight of the soft clauses it violates, and the hard clauses are untouched. *)
Theorem wcnf_encode_correct : forall w, wf_wcnf w = true ->
  forall n P co, wcnf_encode w = (n, P, co) ->
  let nb := Z.to_nat (w_nbvars w) in
  (forall m, sat_problem m P = true ->
     w_sat_hard (firstn nb m) w = true /\ w_violated (firstn nb m) w <= cost_of m co) /\
  (forall mu,
     let b := map (fun f => negb (sat_clause mu (wl_clause f)))
                  (filter (wl_soft (w_top w)) (w_lines w)) in
     sat_problem (fit nb mu ++ b) P = w_sat_hard mu w /\
     cost_of (fit nb mu ++ b) co = w_violated mu w).
Proof.
  intros w W n P co E nb0. unfold wf_wcnf in W. apply andb_true_iff in W. destruct W as [W0 W].
  apply Z.leb_le in W0. unfold wcnf_encode in E.
  destruct (wcnf_loop (w_lines w) (w_top w) (w_nbvars w + 1)) as [[cs ws] rl] eqn:EL.
  injection E as En EP Eco. subst nb0.
  set (nb := w_nbvars w) in *. set (top := w_top w) in *.
  destruct (wl_shape nb top _ _ _ _ _ EL W ltac:(lia)) as [Hrl [Hlen [Hws Hmax]]].
  assert (Eco' : co = combine ws (relax_lits (nb + 1) (length ws))).
  { rewrite <- Eco. f_equal. replace (Z.to_nat (rl - nb - 1)) with (length ws) by lia.
    unfold relax_lits. apply map_ext. intros i. lia. }
  split.
  - intros m S. rewrite <- EP, sat_cnf_problem in S.
    destruct (wl_A nb top _ _ _ _ _ EL W ltac:(lia) m (firstn (Z.to_nat nb) m)) as [H1 H2].
    + apply uagree_sym_clause. apply uagree_firstn.
    + exact S.
    + rewrite Eco'. split; [exact H1|exact H2].
  - intros mu b.
    set (softs := filter (wl_soft top) (w_lines w)) in *.
    set (m := fit (Z.to_nat nb) mu ++ b).
    assert (Am : uagree nb m mu).
    { intros v Hv. unfold m. rewrite var_val_app1 by (rewrite fit_length; lia).
      apply fit_val. lia. }
    destruct (wl_B nb top _ _ _ _ _ EL W ltac:(lia) m mu Am) as [H1 H2].
    + intros i Hi. fold softs in Hi |- *. unfold m.
      replace (nb + 1 + Z.of_nat i) with (Z.of_nat (length (fit (Z.to_nat nb) mu)) + (Z.of_nat i + 1))
        by (rewrite fit_length; lia).
      rewrite var_val_app2 by lia. unfold var_val, b.
      replace (Z.to_nat (Z.of_nat i + 1 - 1)) with i by lia.
      rewrite (nth_indep _ false (negb (sat_clause mu (wl_clause [])))) by (rewrite map_length; exact Hi).
      rewrite (map_nth (fun f => negb (sat_clause mu (wl_clause f)))). reflexivity.
    + rewrite <- EP, sat_cnf_problem, H1, Eco', H2. split; reflexivity.
Qed.
