(* The arguments the judge J26 builds ([problem_arg] of Judge/J26.v, loaded by [run_args] of Model/GoIR2.v into fresh
   arrays) satisfy the representation predicate [pb_repr] of Proofs/GoSrcXUp.v, for every problem.  Hence what the
   judge computes with the interpreter on the regenerated syntax tree -- and compares with the compiled function -- is,
   for every input in range, the answer of the hand-written model ([run_args_unsat], [run_args_unsat_any_fuel]). *)
From Coq Require Import List ZArith Bool String Lia Arith ZifyBool ZifyNat.
From GS Require Import Spec.Base Model.Rup Proofs.Rup Model.GoIR2 Proofs.GoIR2 Proofs.GoIR2u Gen.GoSrcX Judge.J26
  Proofs.GoSrcXUp.
Import ListNotations.
Open Scope string_scope.
Open Scope list_scope.
Notation length := List.length (only parsing).
Open Scope Z_scope.

(* the headers [load_arg] gives to a list of clauses put in fresh arrays from index [n] on *)
Fixpoint hdrs (n : nat) (F : list (list Z)) : list slice :=
  match F with
  | [] => []
  | c :: r => Slice n O (length c) (length c) :: hdrs (S n) r
  end.

Lemma load_alist : forall (F : list (list Z)) h,
  load_arg (AList (map (fun c => ASl (Some c)) F)) h = (VList (map VSl (hdrs (length h) F)), h ++ F).
Proof.
  induction F as [|c r IH]; intros h.
  - cbn [map load_arg hdrs]. rewrite app_nil_r. reflexivity.
  - specialize (IH (h ++ [c])). cbn [map load_arg alloc hdrs] in *.
    match type of IH with (let (_, _) := ?t in _) = _ => destruct t as (vs, h2) eqn:E end.
    inversion IH; subst. rewrite length_alloc. rewrite <- app_assoc. reflexivity.
Qed.

Definition pa_heap (F : list (list Z)) (nb : Z) (u : list Z) (t : list bool) : heap :=
  F ++ [[nb]; u; map b2z t].

Definition pa_fs (F : list (list Z)) (u : list Z) (t : list bool) : list val :=
  let n := length F in
  [VList (map VSl (hdrs O F)); VNil; VSl (Slice n O 1 1); VSl (Slice (S n) O (length u) (length u)); VNil;
   VSl (Slice (S (S n)) O (length t) (length t))].

Lemma load_problem_arg : forall F nb u t,
  load_args [problem_arg F nb u t] [] = ([VStruct (pa_fs F u t)], pa_heap F nb u t).
Proof.
  intros F nb u t. unfold problem_arg, nfld_Problem, fld_Problem_Clauses, fld_Problem_NbClauses, fld_Problem_units,
    fld_Problem_tagged. cbn [seq map Nat.eqb].
  remember (AList (map (fun c => ASl (Some c)) F)) as al eqn:Eal.
  cbn [load_args]. cbn [load_arg]. subst al.
  rewrite load_alist. cbn [alloc length app].
  unfold pa_fs, pa_heap. cbv zeta. rewrite !app_length, map_length. cbn [length]. rewrite !Nat.add_1_r.
  rewrite <- !app_assoc. reflexivity.
Qed.

Lemma hdrs_repr : forall (F pre post : list (list Z)),
  Forall2 (fun cs c => slice_ok (pre ++ F ++ post) cs /\ sl_read (pre ++ F ++ post) cs = c /\
                       (s_arr cs < length pre + length F)%nat) (hdrs (length pre) F) F.
Proof.
  induction F as [|c r IH]; intros pre post; cbn [hdrs]; constructor.
  - assert (E : arr_of (pre ++ (c :: r) ++ post) (length pre) = c) by (unfold arr_of; apply nth_middle).
    unfold slice_ok, sl_read. cbn [s_arr s_off s_len s_cap]. rewrite E. cbn [skipn].
    rewrite firstn_all, !app_length. cbn [length]. repeat split; lia.
  - specialize (IH (pre ++ [c]) post). rewrite length_alloc in IH.
    replace ((pre ++ [c]) ++ r ++ post) with (pre ++ (c :: r) ++ post) in IH by (rewrite <- app_assoc; reflexivity).
    eapply Forall2_imp; [|exact IH]. cbn beta. intros cs c0 (A & B & C). cbn [length]. split; [exact A|split; [exact B|lia]].
Qed.

Lemma pa_repr : forall F nb u t,
  let n := length F in
  pb_repr (pa_heap F nb u t) (pa_fs F u t) (hdrs O F) (Slice n O 1 1) (Slice (S n) O (length u) (length u))
          (Slice (S (S n)) O (length t) (length t)) F nb u t.
Proof.
  intros F nb u t n. unfold pb_repr. cbn [s_arr].
  split; [reflexivity|]. split; [reflexivity|]. split; [reflexivity|]. split; [reflexivity|].
  assert (A1 : arr_of (pa_heap F nb u t) n = [nb]).
  { unfold arr_of, pa_heap. apply nth_middle. }
  assert (A2 : arr_of (pa_heap F nb u t) (S n) = u).
  { unfold arr_of, pa_heap. rewrite app_nth2 by (fold n; lia). fold n. replace (S n - n)%nat with 1%nat by lia. reflexivity. }
  assert (A3 : arr_of (pa_heap F nb u t) (S (S n)) = map b2z t).
  { unfold arr_of, pa_heap. rewrite app_nth2 by (fold n; lia). fold n. replace (S (S n) - n)%nat with 2%nat by lia. reflexivity. }
  assert (L : length (pa_heap F nb u t) = S (S (S n))).
  { unfold pa_heap. rewrite app_length. cbn [length]. fold n. lia. }
  split; [|split; [|split; [|split]]].
  - eapply Forall2_imp; [|exact (hdrs_repr F [] [[nb]; u; map b2z t])]. cbn beta.
    intros cs c (A & B & C). cbn [length Nat.add app] in *. fold n in C. unfold pa_heap.
    split; [exact A|split; [exact B|split; lia]].
  - unfold slice_ok, sl_read. cbn [s_arr s_off s_len s_cap]. rewrite A1, L. cbn [length skipn firstn].
    repeat split; lia.
  - unfold slice_ok, sl_read. cbn [s_arr s_off s_len s_cap]. rewrite A2, L. cbn [skipn].
    rewrite firstn_all. repeat split; lia.
  - unfold slice_ok, sl_read. cbn [s_arr s_off s_len s_cap]. rewrite A3, L. cbn [skipn].
    rewrite map_length. split; [repeat split; lia|]. apply firstn_all2. rewrite map_length. lia.
  - lia.
Qed.


Lemma readback_clauses : forall h (P : slice -> Prop) css (F : list (list Z)),
  Forall2 (fun cs c => slice_ok h cs /\ sl_read h cs = c /\ P cs) css F ->
  map (readback h) (map VSl css) = map RSl F.
Proof.
  intros h P css F H. induction H as [|cs c css F (A & B & C) H IH]; cbn [map readback]; [reflexivity|].
  rewrite B. f_equal. exact IH.
Qed.

(* what [run_args] answers on a problem of the judge, once the fuel suffices *)
Definition pa_answer (F : cnf) (nb : Z) (b : bool) (u' : list Z) (t' : list bool) : rout :=
  RRet (RBool b) [RStruct [RList (map RSl F); RNil; RSl [nb]; RSl u'; RNil; RSl (map b2z t')]].

Theorem run_args_unsat : forall F nb u t,
  range_okb (length u) F = true -> (Z.to_nat nb <= length t)%nat ->
  exists fuel0 b t' u',
    up_unsat_full (S (length F)) (Z.to_nat nb) F u t = ((Some b, t'), u') /\
    forall fuel, (fuel0 <= fuel)%nat ->
      run_args go_funs fuel "Problem.unsat" [problem_arg F nb u t] = pa_answer F nb b u' t'.
Proof.
  intros F nb u t Hrg Hnb.
  destruct (Problem_unsat_refines _ _ _ _ _ _ F nb u t (pa_repr F nb u t) Hrg Hnb)
    as (fuel0 & b & t' & u' & h' & Hrun & Hup & _ & R' & _).
  exists fuel0, b, t', u'. split; [exact Hup|]. intros fuel Hle.
  unfold run_args. rewrite load_problem_arg.
  rewrite (run_mono _ _ _ _ _ _ Hrun ltac:(discriminate) fuel Hle).
  destruct R' as (_ & _ & _ & _ & R5 & (_ & N2 & _) & (_ & U2) & (_ & T2) & _).
  unfold pa_answer, pa_fs. cbv zeta. cbn [readback map].
  rewrite N2, U2, T2.
  rewrite (readback_clauses h' _ _ _ R5). reflexivity.
Qed.

(* with any fuel: out of fuel, or the answer of the model *)
Theorem run_args_unsat_any_fuel : forall F nb u t fuel b t' u',
  range_okb (length u) F = true -> (Z.to_nat nb <= length t)%nat ->
  up_unsat_full (S (length F)) (Z.to_nat nb) F u t = ((Some b, t'), u') ->
  run_args go_funs fuel "Problem.unsat" [problem_arg F nb u t] = RFuel \/
  run_args go_funs fuel "Problem.unsat" [problem_arg F nb u t] = pa_answer F nb b u' t'.
Proof.
  intros F nb u t fuel b t' u' Hrg Hnb Hup.
  destruct (run_args_unsat F nb u t Hrg Hnb) as (fuel0 & b0 & t0 & u0 & Hup0 & Hall).
  rewrite Hup in Hup0. inversion Hup0; subst b0 t0 u0.
  destruct (Nat.le_gt_cases fuel0 fuel) as [Hle|Hgt]; [right; apply Hall; exact Hle|].
  pose proof (Hall fuel0 (Nat.le_refl _)) as H0.
  unfold run_args in *. rewrite load_problem_arg in *.
  destruct (run go_funs fuel "Problem.unsat" [VStruct (pa_fs F u t)] (pa_heap F nb u t)) as [s|v h1|s|s| | |] eqn:E;
    try (left; reflexivity);
    (rewrite (run_mono _ _ _ _ _ _ E ltac:(discriminate) fuel0 ltac:(lia)) in H0; right; exact H0).
Qed.
