(* Composition: the refinement of Proofs/GoSrcPB.v (executed source = model) with the meaning of the models
   (Proofs/PBNorm.v): what the constraint RETURNED BY THE EXECUTED SOURCE means. *)
From Coq Require Import List ZArith Bool String Lia.
From GS Require Import Spec.Base Spec.PB Model.PBNorm Proofs.PBNorm Model.GoIR Gen.GoSrc Proofs.GoIR Proofs.GoSrcPB.
Import ListNotations.
Open Scope string_scope.
Open Scope list_scope.
Notation length := List.length (only parsing).
Open Scope Z_scope.

Lemma GtEq_src_meaning : forall h vl vw ls ws n,
  int_slice h vl ls -> int_slice h vw ws -> disjoint_vals vl vw ->
  ws <> [] -> length ls = length ws -> wf_clause ls ->
  exists fuel v h' g,
    run go_funs fuel "GtEq" [vl; vw; VInt n] h = OReturn v h' /\
    gopb_of_rval (readback h' v) = Some g /\
    forall m : model, sat_pbc m (pbc_of_gopb g) = sat_uc m (UC (combine ws ls) PB.Ge n).
Proof.
  intros h vl vw ls ws n Hl Hw Hd Hne Hlen Hwf.
  destruct (GtEq_refines h vl vw ls ws n Hl Hw Hd (or_intror (conj Hne Hlen))) as (fuel & v & h' & Hrun & Hg & _).
  exists fuel, v, h', (gt_eq ls ws n). split; [exact Hrun|]. split; [exact Hg|].
  intro m. apply gt_eq_spec; assumption.
Qed.

Lemma LtEq_src_meaning : forall h vl vw ls ws n,
  int_slice h vl ls -> int_slice h vw ws -> disjoint_vals vl vw ->
  ws <> [] -> length ls = length ws -> wf_clause ls ->
  exists fuel v h' g,
    run go_funs fuel "LtEq" [vl; vw; VInt n] h = OReturn v h' /\
    gopb_of_rval (readback h' v) = Some g /\
    forall m : model, sat_pbc m (pbc_of_gopb g) = sat_uc m (UC (combine ws ls) PB.Le n).
Proof.
  intros h vl vw ls ws n Hl Hw Hd Hne Hlen Hwf.
  destruct (LtEq_refines h vl vw ls ws n Hl Hw Hd Hlen (or_intror Hne)) as (fuel & v & h' & Hrun & Hg & _).
  exists fuel, v, h', (lt_eq ls ws n). split; [exact Hrun|]. split; [exact Hg|].
  intro m. apply lt_eq_spec; assumption.
Qed.

Lemma Eq_src_meaning : forall h vl vw ls ws n,
  int_slice h vl ls -> int_slice h vw ws -> disjoint_vals vl vw ->
  ws <> [] -> length ls = length ws -> wf_clause ls ->
  exists fuel v h' gs,
    run go_funs fuel "Eq" [vl; vw; VInt n] h = OReturn v h' /\
    gopbs_of_rval (readback h' v) = Some gs /\
    forall m : model, forallb (fun g => sat_pbc m (pbc_of_gopb g)) gs = sat_uc m (UC (combine ws ls) PB.Eq n).
Proof.
  intros h vl vw ls ws n Hl Hw Hd Hne Hlen Hwf.
  destruct (Eq_refines h vl vw ls ws n Hl Hw Hd Hlen Hne) as (fuel & v & h' & Hrun & Hg & _).
  exists fuel, v, h', (eq_ ls ws n). split; [exact Hrun|]. split; [exact Hg|].
  intro m. apply eq_spec; assumption.
Qed.
