(* Proofs about Model/Assume.v: solving under assumptions (C10). *)
From Coq Require Import List ZArith Lia Bool NArith.
From GS Require Import Spec.Base Spec.PB Spec.Solver Model.Incr Model.Assume.
From GS Require Proofs.Enum.
From GS Require Import Proofs.Incr.
Import ListNotations.
Open Scope Z_scope.

(* The loop of Assume. *)
Lemma assume_loop_spec : forall lits facts assumed m,
  forallb (lit_val m) facts = true ->
  (if snd (assume_loop facts assumed lits)
   then forallb (lit_val m) (fst (assume_loop facts assumed lits)) =
        forallb (lit_val m) assumed && forallb (lit_val m) lits
   else forallb (lit_val m) assumed && forallb (lit_val m) lits = false).
Proof.
  induction lits as [|l r IH]; intros facts assumed m F.
  - simpl. rewrite andb_true_r. reflexivity.
  - cbn [assume_loop]. destruct (lit_status (facts ++ assumed) l) as [[|]|] eqn:St.
    + specialize (IH facts assumed m F). cbn [forallb].
      destruct (forallb (lit_val m) assumed) eqn:A.
      * assert (FA : forallb (lit_val m) (facts ++ assumed) = true)
          by (rewrite forallb_app, F, A; reflexivity).
        rewrite (lit_status_true m _ l FA St). exact IH.
      * destruct (snd (assume_loop facts assumed r)); [rewrite IH|]; reflexivity.
    + simpl. destruct (forallb (lit_val m) assumed) eqn:A; [|reflexivity].
      assert (FA : forallb (lit_val m) (facts ++ assumed) = true)
        by (rewrite forallb_app, F, A; reflexivity).
      rewrite (lit_status_false m _ l FA St). reflexivity.
    + specialize (IH facts (assumed ++ [l]) m F). rewrite forallb_app in IH.
      cbn [forallb] in *. rewrite andb_true_r, <- andb_assoc in IH. exact IH.
Qed.

(* invariant: over n variables the facts and the database say what base says *)
Definition AInv (st : astate) (n : nat) (base : problem) : Prop :=
  a_n st = n /\
  (a_dead st = false -> forall m, length m = n ->
     sat_problem m (units (a_facts st) ++ a_db st) = sat_problem m base) /\
  (a_dead st = true -> forall m, sat_problem m base = false).

Lemma init_assume_inv : forall n base, AInv (init_assume n base) n base.
Proof.
  intros n base. unfold init_assume.
  pose proof (split_units_sat base) as SU. destruct (split_units base) as [us db]. simpl in SU.
  pose proof (propagate_units_spec us []) as PU.
  destruct (propagate_units [] us) as [f|].
  - destruct PU as [_ PU]. simpl in PU. split; [reflexivity|]. split.
    + intros _ m _. simpl. rewrite sat_problem_app, sat_units, SU, PU. reflexivity.
    + simpl. intros X. discriminate.
  - simpl in PU. split; [reflexivity|]. split.
    + simpl. intros X. discriminate.
    + intros _ m. rewrite SU, PU. reflexivity.
Qed.

Lemma sat_with_units : forall m base ls,
  sat_problem m (base ++ units ls) = sat_problem m base && forallb (lit_val m) ls.
Proof. intros. rewrite sat_problem_app, sat_units. reflexivity. Qed.

Section Rounds.

Variable solve : solver.
Variable learn : nat -> list lit -> problem -> list lit -> list lit * problem.
Hypothesis solve_good : solver_ok solve.
(* What is learned under assumptions is a consequence of the problem alone. *)
Hypothesis learn_good : learn_ok learn.

Lemma round_spec : forall st n base lits, AInv st n base ->
  AInv (snd (round solve learn st lits)) n base /\
  answer_ok (fst (round solve learn st lits)) (n, base ++ units lits).
Proof.
  intros st n base lits [Hn [H1 H2]]. unfold round, assume.
  destruct (a_dead st) eqn:D.
  - simpl. split; [split; [exact Hn|split; [intros X; congruence|intros _; apply H2; reflexivity]]|].
    intros m _. rewrite sat_with_units, (H2 eq_refl m). reflexivity.
  - pose proof (assume_loop_spec lits (a_facts st) []) as AL.
    destruct (assume_loop (a_facts st) [] lits) as [asm ok]. simpl in AL.
    specialize (H1 eq_refl).
    destruct ok.
    + cbn [a_n a_facts a_db a_assumed].
      pose proof (learn_good (a_n st) (a_facts st) (a_db st) asm) as LG.
      destruct (learn (a_n st) (a_facts st) (a_db st) asm) as [nf nc]. simpl in LG.
      cbn [fst snd]. split.
      * split; [exact Hn|]. split; [|simpl; intros X; discriminate].
        intros _ m L. simpl. rewrite <- (H1 m L).
        rewrite sat_problem_app, sat_units, forallb_app, sat_problem_app.
        rewrite sat_problem_app, sat_units.
        destruct (forallb (lit_val m) (a_facts st) && sat_problem m (a_db st)) eqn:E.
        -- assert (X : sat_problem m (units (a_facts st) ++ a_db st) = true)
             by (rewrite sat_problem_app, sat_units; exact E).
           rewrite <- Hn in L. specialize (LG m L X).
           rewrite sat_problem_app, sat_units in LG. apply andb_true_iff in LG.
           destruct LG as [-> ->]. apply andb_true_iff in E. destruct E as [-> ->]. reflexivity.
        -- apply andb_false_iff in E. destruct E as [->| ->]; [reflexivity|].
           rewrite andb_false_r. reflexivity.
      * assert (E : forall m, length m = n ->
                  sat_problem m (round_problem (AState (a_n st) (a_facts st) (a_db st) asm false))
                  = sat_problem m (base ++ units lits)).
        { intros m L. unfold round_problem. simpl.
          rewrite sat_with_units, <- (H1 m L), !sat_problem_app, !sat_units.
          destruct (forallb (lit_val m) (a_facts st)) eqn:F.
          - rewrite (AL m F). simpl.
            destruct (forallb (lit_val m) lits), (sat_problem m (a_db st)); reflexivity.
          - reflexivity. }
        pose proof (solve_good (a_n st) (round_problem (AState (a_n st) (a_facts st) (a_db st) asm false))) as G.
        unfold answer_ok.
        destruct (solve (a_n st) _) as [m0|]; simpl.
        -- destruct G as [L S]. rewrite Hn in L. split; [exact L|]. rewrite <- (E m0 L). exact S.
        -- intros m L. rewrite <- (E m L). apply G. congruence.
    + cbn [fst snd]. split.
      * split; [exact Hn|]. split; [|simpl; intros X; discriminate].
        intros _ m L. simpl. apply H1. exact L.
      * simpl. intros m L. rewrite sat_with_units, <- (H1 m L), sat_problem_app, sat_units.
        destruct (forallb (lit_val m) (a_facts st)) eqn:F; [|reflexivity].
        specialize (AL m F). simpl in AL. rewrite AL. apply andb_false_r.
Qed.

Lemma run_rounds_spec : forall rounds st n base, AInv st n base ->
  Forall2 (fun out ls => answer_ok out (n, base ++ units ls))
          (run_rounds solve learn st rounds) rounds.
Proof.
  induction rounds as [|ls r IH]; intros st n base H; [constructor|].
  cbn [run_rounds]. destruct (round_spec st n base ls H) as [H' A].
  destruct (round solve learn st ls) as [out st']. simpl in *.
  constructor; [exact A|]. apply IH. exact H'.
Qed.

(* Each round answers for base and its own assumptions only. *)
Theorem rounds_correct : forall n base rounds,
  Forall2 (fun out ls => answer_ok out (n, base ++ units ls))
          (run_rounds solve learn (init_assume n base) rounds) rounds.
Proof. intros. apply run_rounds_spec. apply init_assume_inv. Qed.

Theorem rounds_models : forall n base rounds,
  Forall2 (fun out ls => forall m, out = Some m ->
             length m = n /\ sat_problem m base = true /\
             (forall c l, In c base -> unit_of c = Some l -> lit_val m l = true) /\
             Forall (fun l => lit_val m l = true) ls)
          (run_rounds solve learn (init_assume n base) rounds) rounds.
Proof.
  intros n base rounds. pose proof (rounds_correct n base rounds) as F.
  induction F as [|out ls l l' A _ IH]; constructor; [|exact IH].
  intros m ->. unfold answer_ok in A. simpl in A. destruct A as [L S].
  rewrite sat_with_units in S. apply andb_true_iff in S. destruct S as [S1 S2].
  split; [exact L|]. split; [exact S1|]. split.
  - intros c x Hc U. rewrite <- (unit_of_sat m c x U).
    unfold sat_problem in S1. rewrite forallb_forall in S1. apply S1. exact Hc.
  - apply Proofs.Enum.forallb_Forall_true. exact S2.
Qed.

Theorem rounds_fresh : forall solve', solver_ok solve' -> forall n base rounds,
  map is_some (run_rounds solve learn (init_assume n base) rounds) =
  round_verdicts solve' n base rounds.
Proof.
  intros solve' H n base rounds. pose proof (rounds_correct n base rounds) as F.
  unfold round_verdicts. induction F as [|out ls l l' A _ IH]; [reflexivity|].
  simpl. rewrite IH. f_equal. apply (answer_ok_verdict solve' H out (n, base ++ units ls) A).
Qed.

(* A contradictory round answers Unsat and the other rounds answer as if it
   had not taken place. *)
Theorem round_local : forall n base r1 bad r2,
  (forall m, length m = n -> sat_problem m (base ++ units bad) = false) ->
  map is_some (run_rounds solve learn (init_assume n base) (r1 ++ bad :: r2)) =
  map is_some (run_rounds solve learn (init_assume n base) r1) ++
  false :: skipn (length r1) (map is_some (run_rounds solve learn (init_assume n base) (r1 ++ r2))).
Proof.
  intros n base r1 bad r2 U. rewrite !(rounds_fresh solve solve_good).
  unfold round_verdicts. rewrite !map_app. cbn [map]. f_equal.
  assert (B : is_some (solve n (base ++ units bad)) = false).
  { pose proof (solve_good n (base ++ units bad)) as G.
    destruct (solve n (base ++ units bad)) as [m|]; [|reflexivity].
    destruct G as [L S]. rewrite (U m L) in S. discriminate. }
  rewrite B. f_equal.
  rewrite skipn_app, map_length, Nat.sub_diag, skipn_all2; [reflexivity|].
  rewrite map_length. lia.
Qed.

End Rounds.

(* Two opposite assumptions, or an assumption opposite to a unit clause of
   the problem, make the round unsatisfiable. *)
Lemma opposite_assumptions_unsat : forall base ls l, l <> 0 -> In l ls -> In (- l) ls ->
  forall m, sat_problem m (base ++ units ls) = false.
Proof.
  intros base ls l H0 H1 H2 m. rewrite sat_with_units.
  destruct (forallb (lit_val m) ls) eqn:F; [|apply andb_false_r].
  pose proof (forallb_in m ls l F H1) as V1. pose proof (forallb_in m ls (- l) F H2) as V2.
  rewrite (lit_val_opp m l H0), V1 in V2. discriminate.
Qed.

Lemma assumption_against_unit_unsat : forall base ls c l, l <> 0 ->
  In c base -> unit_of c = Some l -> In (- l) ls ->
  forall m, sat_problem m (base ++ units ls) = false.
Proof.
  intros base ls c l H0 Hc U Hl m. rewrite sat_with_units.
  destruct (sat_problem m base) eqn:S; [|reflexivity].
  destruct (forallb (lit_val m) ls) eqn:F; [|reflexivity].
  unfold sat_problem in S. rewrite forallb_forall in S. specialize (S c Hc).
  rewrite (unit_of_sat m c l U) in S.
  pose proof (forallb_in m ls (- l) F Hl) as V. rewrite (lit_val_opp m l H0), S in V. discriminate.
Qed.

(* ------------------------------------------------------------------ *)
(* Instances of [learn].                                                *)

Lemma learn_none_ok : learn_ok learn_none.
Proof. intros n F D A m L S. reflexivity. Qed.

Lemma backbone_sound : forall n P k m, length m = n -> sat_problem m P = true ->
  forallb (lit_val m) (backbone n P k) = true.
Proof.
  intros n P k m L HS. induction k as [|k IH]; [reflexivity|].
  cbn [backbone]. rewrite forallb_app. unfold lit in *. rewrite IH, andb_true_r.
  assert (Hv : Z.of_nat (S k) <> 0) by lia.
  destruct (ref_solve n (P ++ [unit_pbc (Z.of_nat (S k))])) as [x|] eqn:E1.
  - destruct (ref_solve n (P ++ [unit_pbc (- Z.of_nat (S k))])) as [y|] eqn:E2; [reflexivity|].
    pose proof (ref_solve_none _ _ E2 m L) as N.
    rewrite sat_problem_snoc, HS, sat_unit_pbc, (lit_val_opp m _ Hv) in N. simpl in N.
    apply negb_false_iff in N. simpl. rewrite N. reflexivity.
  - pose proof (ref_solve_none _ _ E1 m L) as N.
    rewrite sat_problem_snoc, HS, sat_unit_pbc in N. cbn [andb] in N.
    cbn [forallb]. rewrite (lit_val_opp m _ Hv), N. reflexivity.
Qed.

Theorem learn_ref_ok : learn_ok learn_ref.
Proof.
  intros n F D A m L S. unfold learn_ref. cbn [fst snd].
  rewrite sat_problem_app, sat_units, (backbone_sound n _ n m L S). simpl.
  destruct (forallb (fun l => negb (l =? 0)) A) eqn:NZ; [|reflexivity].
  destruct (ref_solve n (units F ++ units A ++ D)) as [x|] eqn:E; [reflexivity|].
  pose proof (ref_solve_none _ _ E m L) as N.
  rewrite sat_problem_app, sat_units in S. apply andb_true_iff in S. destruct S as [SF SD].
  rewrite !sat_problem_app, !sat_units, SF, SD, andb_true_r in N. simpl in N.
  unfold sat_problem. simpl. rewrite andb_true_r.
  assert (Hnz : Forall (fun d => d <> 0) A).
  { apply Forall_forall. intros d Hd. rewrite forallb_forall in NZ. specialize (NZ d Hd).
    apply negb_true_iff, Z.eqb_neq in NZ. exact NZ. }
  fold (Model.Enum.block A). rewrite (Proofs.Enum.sat_block m A Hnz), N. reflexivity.
Qed.
