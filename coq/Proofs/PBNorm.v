(* Proofs about Model/PBNorm.v: the public constraint constructors of
   gophersat mean what their documentation says, under integer arithmetic. *)
From Coq Require Import List ZArith Lia Bool Permutation Sorted ZifyBool.
From GS Require Import Spec.Base Spec.PB Model.PBNorm.
Import ListNotations.
Open Scope Z_scope.

(* ------------------------------------------------------------------ *)
(* Literals                                                            *)

Lemma lit_val_opp : forall (m : model) l, l <> 0 -> lit_val m (- l) = negb (lit_val m l).
Proof.
  intros m l Hl. unfold lit_val.
  destruct (0 <? l) eqn:E1; destruct (0 <? - l) eqn:E2.
  - apply Z.ltb_lt in E1. apply Z.ltb_lt in E2. lia.
  - rewrite Z.opp_involutive. reflexivity.
  - rewrite negb_involutive. reflexivity.
  - apply Z.ltb_ge in E1. apply Z.ltb_ge in E2. lia.
Qed.

Lemma wf_clause_cons : forall l c, wf_clause (l :: c) <-> l <> 0 /\ wf_clause c.
Proof.
  intros l c. unfold wf_clause. split.
  - intros H. split; [apply H; left; reflexivity|]. intros x Hx. apply H. right. exact Hx.
  - intros [H1 H2] x [<-|Hx]; [exact H1|apply H2; exact Hx].
Qed.

Lemma wf_clause_opp : forall c, wf_clause c -> wf_clause (map Z.opp c).
Proof.
  intros c H x Hx. apply in_map_iff in Hx. destruct Hx as [y [<- Hy]].
  specialize (H y Hy). lia.
Qed.

(* w*[l] = (-w)*[not l] + w, for every w *)
Lemma term_val_flip : forall (m : model) w l, l <> 0 ->
  term_val m (w, l) = term_val m (- w, - l) + w.
Proof.
  intros m w l Hl. unfold term_val. cbn [fst snd]. rewrite lit_val_opp by exact Hl.
  destruct (lit_val m l); cbn [negb]; lia.
Qed.

(* ------------------------------------------------------------------ *)
(* lhs, zsum                                                           *)

Lemma lhs_app : forall (m : model) a b, lhs m (a ++ b) = lhs m a + lhs m b.
Proof.
  intros m a b. induction a as [|t a IH]; cbn [app lhs]; [reflexivity|]. rewrite IH. lia.
Qed.

Lemma zsum_app : forall a b, zsum (a ++ b) = zsum a + zsum b.
Proof.
  intros a b. induction a as [|x a IH]; cbn [app zsum]; [reflexivity|]. rewrite IH. lia.
Qed.

Lemma lhs_perm : forall (m : model) a b, Permutation a b -> lhs m a = lhs m b.
Proof.
  intros m a b H. induction H as [|x a b H IH|x y a|a b c H1 IH1 H2 IH2]; cbn [lhs]; lia.
Qed.

Lemma nonneg_terms_cons : forall t ts,
  nonneg_terms (t :: ts) = true <-> 0 <= fst t /\ nonneg_terms ts = true.
Proof.
  intros t ts. unfold nonneg_terms. cbn [forallb]. rewrite andb_true_iff, Z.leb_le. tauto.
Qed.

Lemma nonneg_terms_app : forall a b,
  nonneg_terms (a ++ b) = true <-> nonneg_terms a = true /\ nonneg_terms b = true.
Proof.
  intros a b. unfold nonneg_terms. rewrite forallb_app, andb_true_iff. tauto.
Qed.

Lemma lhs_bounds : forall (m : model) ts, nonneg_terms ts = true ->
  0 <= lhs m ts <= zsum (map fst ts).
Proof.
  intros m ts. induction ts as [|t ts IH]; intros H; cbn [lhs map zsum]; [lia|].
  apply nonneg_terms_cons in H. destruct H as [Hw Hr]. specialize (IH Hr).
  unfold term_val. destruct (lit_val m (snd t)); lia.
Qed.

Lemma lhs_unit_bounds : forall (m : model) c, 0 <= lhs m (unit_terms c) <= Z.of_nat (length c).
Proof.
  intros m c. unfold unit_terms. induction c as [|l c IH]; cbn [map lhs length]; [lia|].
  unfold term_val. cbn [fst snd]. destruct (lit_val m l); lia.
Qed.

Lemma nonneg_unit_terms : forall c, nonneg_terms (unit_terms c) = true.
Proof.
  intros c. unfold nonneg_terms, unit_terms. induction c as [|l c IH]; [reflexivity|].
  cbn [map forallb fst]. rewrite IH. reflexivity.
Qed.

Lemma zsum_unit_terms : forall c, zsum (map fst (unit_terms c)) = Z.of_nat (length c).
Proof.
  intros c. unfold unit_terms. induction c as [|l c IH]; [reflexivity|].
  cbn [map zsum fst length]. rewrite IH. lia.
Qed.

Lemma combine_fst_snd : forall ts : list term, combine (map fst ts) (map snd ts) = ts.
Proof.
  induction ts as [|[w l] ts IH]; [reflexivity|]. cbn [map combine fst snd]. rewrite IH. reflexivity.
Qed.

Lemma map_fst_combine : forall (ws ls : list Z), length ls = length ws ->
  map fst (combine ws ls) = ws.
Proof.
  induction ws as [|w ws IH]; intros ls H; [reflexivity|].
  destruct ls as [|l ls]; [discriminate|]. cbn [combine map fst]. rewrite IH; [reflexivity|].
  cbn [length] in H. lia.
Qed.

Lemma map_snd_combine : forall (ws ls : list Z), length ls = length ws ->
  map snd (combine ws ls) = ls.
Proof.
  induction ws as [|w ws IH]; intros ls H.
  - destruct ls; [reflexivity|discriminate].
  - destruct ls as [|l ls]; [discriminate|]. cbn [combine map snd]. rewrite IH; [reflexivity|].
    cbn [length] in H. lia.
Qed.

(* ------------------------------------------------------------------ *)
(* Negating every literal                                              *)

Lemma lhs_combine_opp : forall (m : model) (ws lits : list Z),
  length lits = length ws -> wf_clause lits ->
  lhs m (combine ws (map Z.opp lits)) = zsum ws - lhs m (combine ws lits).
Proof.
  intros m ws. induction ws as [|w ws IH]; intros lits Hlen Hwf; [reflexivity|].
  destruct lits as [|l lits]; [discriminate|].
  apply wf_clause_cons in Hwf. destruct Hwf as [Hl Hwf].
  cbn [map combine lhs zsum]. rewrite IH; [|cbn [length] in Hlen; lia|exact Hwf].
  unfold term_val. cbn [fst snd]. rewrite lit_val_opp by exact Hl.
  destruct (lit_val m l); cbn [negb]; lia.
Qed.

Lemma lhs_unit_opp : forall (m : model) (lits : list Z), wf_clause lits ->
  lhs m (unit_terms (map Z.opp lits)) = Z.of_nat (length lits) - lhs m (unit_terms lits).
Proof.
  intros m lits. unfold unit_terms. induction lits as [|l lits IH]; intros Hwf; [reflexivity|].
  apply wf_clause_cons in Hwf. destruct Hwf as [Hl Hwf].
  cbn [map lhs length]. rewrite IH by exact Hwf.
  unfold term_val. cbn [fst snd]. rewrite lit_val_opp by exact Hl.
  destruct (lit_val m l); cbn [negb]; lia.
Qed.

(* ------------------------------------------------------------------ *)
(* Trivially true / trivially false constraints                        *)

Lemma trivial_true : forall c, nonneg_terms (terms c) = true -> degree c <= 0 ->
  forall m : model, sat_pbc m c = true.
Proof.
  intros c Hn Hd m. unfold sat_pbc. pose proof (lhs_bounds m _ Hn). apply Z.leb_le. lia.
Qed.

Lemma trivial_false : forall c, nonneg_terms (terms c) = true ->
  zsum (map fst (terms c)) < degree c ->
  forall m : model, sat_pbc m c = false.
Proof.
  intros c Hn Hd m. unfold sat_pbc. pose proof (lhs_bounds m _ Hn). apply Z.leb_gt. lia.
Qed.

Lemma trivial_true_gopb : forall g, nonneg_terms (terms (pbc_of_gopb g)) = true ->
  g_atleast g <= 0 -> forall m : model, sat_pbc m (pbc_of_gopb g) = true.
Proof.
  intros g Hn Hd m. apply trivial_true; [exact Hn|].
  unfold pbc_of_gopb. destruct (g_ws g); exact Hd.
Qed.

(* WeightSum is the sum of the weights of the meaning (when the lengths agree). *)
Lemma weight_sum_spec : forall g,
  (forall ws, g_ws g = Some ws -> length (g_lits g) = length ws) ->
  weight_sum g = zsum (map fst (terms (pbc_of_gopb g))).
Proof.
  intros g H. unfold weight_sum, pbc_of_gopb. destruct (g_ws g) as [ws|]; cbn [terms].
  - rewrite map_fst_combine; [reflexivity|]. apply H. reflexivity.
  - rewrite zsum_unit_terms. reflexivity.
Qed.

(* sum of weights = degree, positive weights: every literal must be true
   (parser_pb.go:96 relies on it). *)
Lemma tight_all_true : forall ts (m : model),
  Forall (fun t => 0 < fst t) ts ->
  (zsum (map fst ts) <=? lhs m ts) = forallb (lit_val m) (map snd ts).
Proof.
  intros ts m H. induction H as [|t ts Ht Hts IH]; [reflexivity|].
  cbn [map zsum lhs forallb].
  assert (Hn : nonneg_terms ts = true).
  { unfold nonneg_terms. apply forallb_forall. intros x Hx. apply Z.leb_le.
    rewrite Forall_forall in Hts. specialize (Hts x Hx). lia. }
  pose proof (lhs_bounds m ts Hn) as Hb.
  unfold term_val. destruct (lit_val m (snd t)); cbn [andb].
  - rewrite <- IH. lia.
  - lia.
Qed.

(* ------------------------------------------------------------------ *)
(* AtLeast, AtMost, PropClause, AtLeast1, AtMost1, Exactly1            *)

Lemma prop_clause_spec : forall (lits : list Z) (m : model),
  sat_pbc m (pbc_of_gopb (prop_clause lits)) = sat_uc m (UC (unit_terms lits) Ge 1).
Proof. reflexivity. Qed.

Lemma prop_clause_clause : forall (lits : list Z) (m : model),
  sat_pbc m (pbc_of_gopb (prop_clause lits)) = sat_clause m lits.
Proof. intros. apply sat_clause_pbc. Qed.

Lemma at_least_spec : forall (lits : list Z) k (m : model),
  sat_pbc m (pbc_of_gopb (at_least lits k)) = sat_uc m (UC (unit_terms lits) Ge k).
Proof. reflexivity. Qed.

Lemma at_most_spec : forall (lits : list Z) k (m : model), wf_clause lits ->
  sat_pbc m (pbc_of_gopb (at_most lits k)) = sat_uc m (UC (unit_terms lits) Le k).
Proof.
  intros lits k m Hwf. unfold sat_pbc, sat_uc, at_most, pbc_of_gopb.
  cbn [g_ws g_lits g_atleast terms degree u_terms u_rel u_rhs].
  rewrite lhs_unit_opp by exact Hwf. lia.
Qed.

Lemma at_least1_spec : forall (lits : list Z) (m : model),
  sat_pbc m (pbc_of_gocard (at_least1 lits)) = sat_uc m (UC (unit_terms lits) Ge 1).
Proof. reflexivity. Qed.

Lemma at_most1_spec : forall (lits : list Z) (m : model), wf_clause lits ->
  sat_pbc m (pbc_of_gocard (at_most1 lits)) = sat_uc m (UC (unit_terms lits) Le 1).
Proof.
  intros lits m Hwf. unfold sat_pbc, sat_uc, at_most1, pbc_of_gocard.
  cbn [c_lits c_atleast terms degree u_terms u_rel u_rhs].
  rewrite lhs_unit_opp by exact Hwf. lia.
Qed.

Lemma exactly1_spec : forall (lits : list Z) (m : model), wf_clause lits ->
  sat_gocards m (exactly1 lits) = sat_uc m (UC (unit_terms lits) Eq 1).
Proof.
  intros lits m Hwf. unfold sat_gocards, exactly1. cbn [forallb].
  rewrite at_least1_spec, at_most1_spec by exact Hwf.
  unfold sat_uc. cbn [u_terms u_rel u_rhs]. lia.
Qed.

(* ------------------------------------------------------------------ *)
(* GtEq                                                                *)

Lemma gt_eq_loop_lhs : forall (m : model) (ws lits : list Z) n,
  length lits = length ws -> wf_clause lits ->
  lhs m (combine (snd (fst (gt_eq_loop lits ws n))) (fst (fst (gt_eq_loop lits ws n))))
    - snd (gt_eq_loop lits ws n)
  = lhs m (combine ws lits) - n.
Proof.
  intros m ws. induction ws as [|w ws IH]; intros lits n Hlen Hwf.
  - reflexivity.
  - destruct lits as [|l lits]; [discriminate|].
    apply wf_clause_cons in Hwf. destruct Hwf as [Hl Hwf].
    assert (Hlen' : length lits = length ws) by (cbn [length] in Hlen; lia).
    cbn [gt_eq_loop combine lhs].
    destruct (w <? 0) eqn:Ew.
    + apply Z.ltb_lt in Ew.
      destruct (- w =? 0) eqn:E0; [apply Z.eqb_eq in E0; lia|].
      specialize (IH lits (n + - w) Hlen' Hwf).
      destruct (gt_eq_loop lits ws (n + - w)) as [[ls wss] n2].
      cbn [fst snd] in *. cbn [combine lhs].
      rewrite (term_val_flip m w l Hl). lia.
    + apply Z.ltb_ge in Ew.
      specialize (IH lits n Hlen' Hwf).
      destruct (w =? 0) eqn:E0.
      * apply Z.eqb_eq in E0. subst w. rewrite IH.
        unfold term_val. cbn [fst snd]. destruct (lit_val m l); lia.
      * destruct (gt_eq_loop lits ws n) as [[ls wss] n2].
        cbn [fst snd] in *. cbn [combine lhs]. lia.
Qed.

Lemma gt_eq_loop_pos : forall (ws lits : list Z) n,
  Forall (fun w => 0 < w) (snd (fst (gt_eq_loop lits ws n))).
Proof.
  induction ws as [|w ws IH]; intros lits n; cbn [gt_eq_loop fst snd]; [constructor|].
  destruct lits as [|l lits]; [constructor|].
  destruct (w <? 0) eqn:Ew.
  - apply Z.ltb_lt in Ew.
    destruct (- w =? 0) eqn:E0; [apply IH|].
    specialize (IH lits (n + - w)).
    destruct (gt_eq_loop lits ws (n + - w)) as [[ls wss] n2]. cbn [fst snd] in *.
    constructor; [lia|exact IH].
  - apply Z.ltb_ge in Ew.
    destruct (w =? 0) eqn:E0; [apply IH|]. apply Z.eqb_neq in E0.
    specialize (IH lits n).
    destruct (gt_eq_loop lits ws n) as [[ls wss] n2]. cbn [fst snd] in *.
    constructor; [lia|exact IH].
Qed.

Lemma gt_eq_loop_length : forall (ws lits : list Z) n, length lits = length ws ->
  length (fst (fst (gt_eq_loop lits ws n))) = length (snd (fst (gt_eq_loop lits ws n))).
Proof.
  induction ws as [|w ws IH]; intros lits n Hlen.
  - destruct lits; [reflexivity|discriminate].
  - destruct lits as [|l lits]; [discriminate|].
    assert (Hlen' : length lits = length ws) by (cbn [length] in Hlen; lia).
    cbn [gt_eq_loop].
    destruct (w <? 0).
    + destruct (- w =? 0); [apply IH; exact Hlen'|].
      specialize (IH lits (n + - w) Hlen').
      destruct (gt_eq_loop lits ws (n + - w)) as [[ls wss] n2]. cbn [fst snd length] in *. lia.
    + destruct (w =? 0); [apply IH; exact Hlen'|].
      specialize (IH lits n Hlen').
      destruct (gt_eq_loop lits ws n) as [[ls wss] n2]. cbn [fst snd length] in *. lia.
Qed.

Lemma gt_eq_loop_wf : forall (ws lits : list Z) n, wf_clause lits ->
  wf_clause (fst (fst (gt_eq_loop lits ws n))).
Proof.
  induction ws as [|w ws IH]; intros lits n Hwf; cbn [gt_eq_loop fst snd]; [exact Hwf|].
  destruct lits as [|l lits]; [exact Hwf|].
  apply wf_clause_cons in Hwf. destruct Hwf as [Hl Hwf].
  destruct (w <? 0).
  - destruct (- w =? 0); [apply IH; exact Hwf|].
    specialize (IH lits (n + - w) Hwf).
    destruct (gt_eq_loop lits ws (n + - w)) as [[ls wss] n2]. cbn [fst snd] in *.
    apply wf_clause_cons. split; [lia|exact IH].
  - destruct (w =? 0); [apply IH; exact Hwf|].
    specialize (IH lits n Hwf).
    destruct (gt_eq_loop lits ws n) as [[ls wss] n2]. cbn [fst snd] in *.
    apply wf_clause_cons. split; [exact Hl|exact IH].
Qed.

(* gt_eq in terms of the projections of the loop *)
Lemma gt_eq_unfold : forall (lits ws : list Z) n, ws <> [] ->
  gt_eq lits ws n =
  GoPB (fst (fst (gt_eq_loop lits ws n))) (Some (snd (fst (gt_eq_loop lits ws n))))
       (snd (gt_eq_loop lits ws n)).
Proof.
  intros lits ws n H. unfold gt_eq. destruct ws as [|w ws]; [contradiction|].
  destruct (gt_eq_loop lits (w :: ws) n) as [[ls wss] n2]. reflexivity.
Qed.

Theorem gt_eq_spec : forall (lits ws : list Z) n (m : model),
  length lits = length ws -> wf_clause lits ->
  sat_pbc m (pbc_of_gopb (gt_eq lits ws n)) = sat_uc m (UC (combine ws lits) Ge n).
Proof.
  intros lits ws n m Hlen Hwf. destruct ws as [|w ws].
  - destruct lits; [reflexivity|discriminate].
  - rewrite gt_eq_unfold by discriminate.
    pose proof (gt_eq_loop_lhs m (w :: ws) lits n Hlen Hwf) as H.
    unfold sat_pbc, sat_uc, pbc_of_gopb.
    cbn [g_ws g_lits g_atleast terms degree u_terms u_rel u_rhs]. lia.
Qed.

Theorem gt_eq_positive : forall (lits ws : list Z) n,
  Forall (fun t => 0 < fst t) (terms (pbc_of_gopb (gt_eq lits ws n))).
Proof.
  intros lits ws n. destruct ws as [|w ws].
  - cbn. unfold unit_terms. apply Forall_forall. intros t Ht.
    apply in_map_iff in Ht. destruct Ht as [l [<- _]]. cbn. lia.
  - rewrite gt_eq_unfold by discriminate. unfold pbc_of_gopb. cbn [g_ws g_lits terms].
    pose proof (gt_eq_loop_pos (w :: ws) lits n) as H.
    apply Forall_forall. intros t Ht.
    rewrite Forall_forall in H. apply H.
    destruct t as [a b]. apply in_combine_l in Ht. exact Ht.
Qed.

Lemma pos_nonneg_terms : forall ts, Forall (fun t : term => 0 < fst t) ts -> nonneg_terms ts = true.
Proof.
  intros ts H. unfold nonneg_terms. apply forallb_forall. intros x Hx. apply Z.leb_le.
  rewrite Forall_forall in H. specialize (H x Hx). lia.
Qed.

Lemma gt_eq_nonneg : forall (lits ws : list Z) n,
  nonneg_terms (terms (pbc_of_gopb (gt_eq lits ws n))) = true.
Proof. intros. apply pos_nonneg_terms. apply gt_eq_positive. Qed.

(* the output of GtEq is well formed: as many weights as literals, no literal 0 *)
Lemma gt_eq_lengths : forall (lits ws : list Z) n, length lits = length ws ->
  forall ws', g_ws (gt_eq lits ws n) = Some ws' -> length (g_lits (gt_eq lits ws n)) = length ws'.
Proof.
  intros lits ws n Hlen ws' H. destruct ws as [|w ws]; [discriminate|].
  rewrite gt_eq_unfold in * by discriminate. cbn [g_ws g_lits] in *.
  injection H as <-. apply gt_eq_loop_length. exact Hlen.
Qed.

Lemma gt_eq_wf : forall (lits ws : list Z) n, wf_clause lits -> wf_clause (g_lits (gt_eq lits ws n)).
Proof.
  intros lits ws n Hwf. destruct ws as [|w ws]; [exact Hwf|].
  rewrite gt_eq_unfold by discriminate. cbn [g_lits]. apply gt_eq_loop_wf. exact Hwf.
Qed.

(* ------------------------------------------------------------------ *)
(* LtEq, Eq                                                            *)

Theorem lt_eq_spec : forall (lits ws : list Z) n (m : model),
  length lits = length ws -> wf_clause lits ->
  sat_pbc m (pbc_of_gopb (lt_eq lits ws n)) = sat_uc m (UC (combine ws lits) Le n).
Proof.
  intros lits ws n m Hlen Hwf. unfold lt_eq.
  rewrite gt_eq_spec; [|rewrite map_length; exact Hlen|apply wf_clause_opp; exact Hwf].
  rewrite Hlen, firstn_all.
  unfold sat_uc. cbn [u_terms u_rel u_rhs].
  rewrite lhs_combine_opp by assumption. lia.
Qed.

Lemma lt_eq_nonneg : forall (lits ws : list Z) n,
  nonneg_terms (terms (pbc_of_gopb (lt_eq lits ws n))) = true.
Proof. intros. unfold lt_eq. apply gt_eq_nonneg. Qed.

Lemma sat_if_pos : forall g (m : model), nonneg_terms (terms (pbc_of_gopb g)) = true ->
  sat_gopbs m (if 0 <? g_atleast g then [g] else []) = sat_pbc m (pbc_of_gopb g).
Proof.
  intros g m Hn. unfold sat_gopbs. destruct (0 <? g_atleast g) eqn:E; cbn [forallb].
  - apply andb_true_r.
  - apply Z.ltb_ge in E. symmetry. apply trivial_true_gopb; assumption.
Qed.

Lemma sat_gopbs_app : forall (m : model) a b,
  sat_gopbs m (a ++ b) = sat_gopbs m a && sat_gopbs m b.
Proof. intros. unfold sat_gopbs. apply forallb_app. Qed.

Theorem eq_spec : forall (lits ws : list Z) n (m : model),
  length lits = length ws -> wf_clause lits ->
  sat_gopbs m (eq_ lits ws n) = sat_uc m (UC (combine ws lits) Eq n).
Proof.
  intros lits ws n m Hlen Hwf. unfold eq_. cbv zeta.
  rewrite sat_gopbs_app.
  rewrite !sat_if_pos by (apply gt_eq_nonneg || apply lt_eq_nonneg).
  rewrite gt_eq_spec, lt_eq_spec by assumption.
  unfold sat_uc. cbn [u_terms u_rel u_rhs]. lia.
Qed.

(* Eq only returns constraints that are not trivially true *)
Lemma eq_atleast_pos : forall (lits ws : list Z) n g, In g (eq_ lits ws n) -> 0 < g_atleast g.
Proof.
  intros lits ws n g H. unfold eq_ in H. apply in_app_or in H.
  destruct H as [H|H].
  - destruct (0 <? g_atleast (gt_eq lits ws n)) eqn:E; [|destruct H].
    destruct H as [<-|[]]. apply Z.ltb_lt. exact E.
  - destruct (0 <? g_atleast (lt_eq lits ws n)) eqn:E; [|destruct H].
    destruct H as [<-|[]]. apply Z.ltb_lt. exact E.
Qed.

(* ------------------------------------------------------------------ *)
(* norm_uc                                                             *)

Theorem norm_uc_spec : forall c (m : model), wf_clause (map snd (u_terms c)) ->
  sat_gopbs m (norm_uc c) = sat_uc m c.
Proof.
  intros [ts r k] m Hwf. cbn [u_terms] in Hwf. unfold norm_uc. cbn [u_terms u_rel u_rhs].
  assert (Hlen : length (map snd ts) = length (map fst ts)) by (rewrite !map_length; reflexivity).
  destruct r.
  - unfold sat_gopbs. cbn [forallb]. rewrite andb_true_r.
    rewrite gt_eq_spec by assumption. rewrite combine_fst_snd. reflexivity.
  - unfold sat_gopbs. cbn [forallb]. rewrite andb_true_r.
    rewrite lt_eq_spec by assumption. rewrite combine_fst_snd. reflexivity.
  - rewrite eq_spec by assumption. rewrite combine_fst_snd. reflexivity.
Qed.

Lemma norm_uc_positive : forall c g, In g (norm_uc c) ->
  Forall (fun t => 0 < fst t) (terms (pbc_of_gopb g)).
Proof.
  intros [ts r k] g H. unfold norm_uc in H. cbn [u_terms u_rel u_rhs] in H.
  destruct r.
  - destruct H as [<-|[]]. apply gt_eq_positive.
  - destruct H as [<-|[]]. unfold lt_eq. apply gt_eq_positive.
  - unfold eq_ in H. apply in_app_or in H. destruct H as [H|H].
    + destruct (0 <? _) in H; [|destruct H]. destruct H as [<-|[]]. apply gt_eq_positive.
    + destruct (0 <? _) in H; [|destruct H]. destruct H as [<-|[]]. unfold lt_eq. apply gt_eq_positive.
Qed.

(* ------------------------------------------------------------------ *)
(* Saturation                                                          *)

Lemma cap_le : forall d w, cap d w <= w.
Proof. intros d w. unfold cap. destruct (d <? w) eqn:E; lia. Qed.

Lemma cap_nonneg : forall d w, 0 <= d -> 0 <= w -> 0 <= cap d w.
Proof. intros d w Hd Hw. unfold cap. destruct (d <? w); lia. Qed.

Definition cap_terms (d : Z) (ts : list term) : list term :=
  map (fun t => (cap d (fst t), snd t)) ts.

Lemma nonneg_cap_terms : forall d ts, 0 <= d -> nonneg_terms ts = true ->
  nonneg_terms (cap_terms d ts) = true.
Proof.
  intros d ts Hd. induction ts as [|t ts IH]; intros H; [reflexivity|].
  apply nonneg_terms_cons in H. destruct H as [Hw Hr].
  unfold cap_terms. cbn [map]. apply nonneg_terms_cons. cbn [fst]. split.
  - apply cap_nonneg; assumption.
  - apply IH. exact Hr.
Qed.

(* min(d, lhs) is unchanged by capping weights at d *)
Lemma cap_terms_min : forall (m : model) d ts, 0 < d -> nonneg_terms ts = true ->
  Z.min d (lhs m (cap_terms d ts)) = Z.min d (lhs m ts).
Proof.
  intros m d ts Hd. induction ts as [|t ts IH]; intros H; [reflexivity|].
  apply nonneg_terms_cons in H. destruct H as [Hw Hr]. specialize (IH Hr).
  pose proof (lhs_bounds m ts Hr) as B1.
  pose proof (lhs_bounds m _ (nonneg_cap_terms d ts (Z.lt_le_incl _ _ Hd) Hr)) as B2.
  change (cap_terms d (t :: ts)) with ((cap d (fst t), snd t) :: cap_terms d ts).
  cbn [lhs]. unfold term_val. cbn [fst snd].
  remember (lhs m (cap_terms d ts)) as x' eqn:Ex'. remember (lhs m ts) as x eqn:Ex.
  unfold cap. destruct (lit_val m (snd t)); destruct (d <? fst t) eqn:E; lia.
Qed.

Theorem saturate_spec : forall c (m : model),
  nonneg_terms (terms c) = true -> 0 < degree c ->
  sat_pbc m (saturate c) = sat_pbc m c.
Proof.
  intros c m Hn Hd. unfold sat_pbc, saturate. cbn [terms degree].
  pose proof (cap_terms_min m (degree c) (terms c) Hd Hn) as H.
  unfold cap_terms in H. lia.
Qed.

Lemma saturate_le_degree : forall c,
  Forall (fun t => fst t <= degree c) (terms (saturate c)).
Proof.
  intros c. unfold saturate. cbn [terms]. apply Forall_forall. intros t Ht.
  apply in_map_iff in Ht. destruct Ht as [x [<- _]]. cbn [fst].
  unfold cap. destruct (degree c <? fst x) eqn:E; lia.
Qed.

(* capping only the first weight *)
Lemma cap_first_lhs : forall (m : model) d ts, 0 < d -> nonneg_terms ts = true ->
  (d <=? lhs m (cap_first d ts)) = (d <=? lhs m ts).
Proof.
  intros m d ts Hd H. destruct ts as [|t ts]; [reflexivity|].
  apply nonneg_terms_cons in H. destruct H as [Hw Hr].
  pose proof (lhs_bounds m ts Hr) as B.
  cbn [cap_first lhs]. unfold term_val. cbn [fst snd].
  unfold cap. destruct (lit_val m (snd t)); destruct (d <? fst t) eqn:E; lia.
Qed.

(* ------------------------------------------------------------------ *)
(* Sorting by decreasing weight                                        *)

Definition ge_weight (a b : term) : Prop := fst b <= fst a.

Lemma ins_term_perm : forall t s, Permutation (ins_term t s) (t :: s).
Proof.
  intros t s. induction s as [|h r IH]; cbn [ins_term]; [apply Permutation_refl|].
  destruct (fst h <? fst t).
  - apply Permutation_refl.
  - eapply Permutation_trans; [apply perm_skip; exact IH|apply perm_swap].
Qed.

Lemma sort_terms_acc_perm : forall ts acc, Permutation (sort_terms_acc acc ts) (acc ++ ts).
Proof.
  induction ts as [|t r IH]; intros acc; cbn [sort_terms_acc].
  - rewrite app_nil_r. apply Permutation_refl.
  - eapply Permutation_trans; [apply IH|].
    eapply Permutation_trans; [apply Permutation_app_tail; apply ins_term_perm|].
    cbn [app]. apply Permutation_middle.
Qed.

Theorem sort_terms_perm : forall ts, Permutation (sort_terms ts) ts.
Proof. intros ts. unfold sort_terms. apply (sort_terms_acc_perm ts []). Qed.

Theorem sort_terms_lhs : forall (m : model) ts, lhs m (sort_terms ts) = lhs m ts.
Proof. intros m ts. apply lhs_perm. apply sort_terms_perm. Qed.

Theorem sort_terms_sat : forall (m : model) ts d,
  sat_pbc m (PBC (sort_terms ts) d) = sat_pbc m (PBC ts d).
Proof. intros m ts d. unfold sat_pbc. cbn [terms degree]. rewrite sort_terms_lhs. reflexivity. Qed.

Lemma ins_term_sorted : forall t s, StronglySorted ge_weight s ->
  StronglySorted ge_weight (ins_term t s).
Proof.
  intros t s H. induction H as [|h r Hr IH Hh]; cbn [ins_term].
  - constructor; [constructor|constructor].
  - destruct (fst h <? fst t) eqn:E.
    + apply Z.ltb_lt in E. constructor; [constructor; assumption|].
      constructor; [unfold ge_weight; lia|].
      rewrite Forall_forall in *. intros x Hx. specialize (Hh x Hx). unfold ge_weight in *. lia.
    + apply Z.ltb_ge in E. constructor; [exact IH|].
      apply Forall_forall. intros x Hx.
      apply (Permutation_in _ (ins_term_perm t r)) in Hx. destruct Hx as [<-|Hx].
      * unfold ge_weight. lia.
      * rewrite Forall_forall in Hh. apply Hh. exact Hx.
Qed.

Lemma sort_terms_acc_sorted : forall ts acc, StronglySorted ge_weight acc ->
  StronglySorted ge_weight (sort_terms_acc acc ts).
Proof.
  induction ts as [|t r IH]; intros acc H; cbn [sort_terms_acc]; [exact H|].
  apply IH. apply ins_term_sorted. exact H.
Qed.

Theorem sort_terms_sorted : forall ts, StronglySorted ge_weight (sort_terms ts).
Proof. intros ts. unfold sort_terms. apply sort_terms_acc_sorted. constructor. Qed.

Lemma nonneg_terms_perm : forall a b, Permutation a b -> nonneg_terms a = nonneg_terms b.
Proof.
  intros a b H. unfold nonneg_terms.
  induction H as [|x a b H IH|x y a|a b c H1 IH1 H2 IH2]; cbn [forallb].
  - reflexivity.
  - rewrite IH. reflexivity.
  - destruct (0 <=? fst x); destruct (0 <=? fst y); reflexivity.
  - rewrite IH1. exact IH2.
Qed.

(* ------------------------------------------------------------------ *)
(* PBConstr.Clause                                                     *)

Lemma combine_map_cap : forall d (ws ls : list Z),
  combine (map (cap d) ws) ls = cap_terms d (combine ws ls).
Proof.
  intros d ws. induction ws as [|w ws IH]; intros ls; [reflexivity|].
  destruct ls as [|l ls]; [reflexivity|].
  unfold cap_terms in *. cbn [map combine fst snd]. rewrite IH. reflexivity.
Qed.

Theorem pb_clause_spec : forall g c, pb_clause g = Some c ->
  nonneg_terms (terms (pbc_of_gopb g)) = true ->
  degree c = g_atleast g /\ 0 < degree c /\
  StronglySorted ge_weight (terms c) /\
  forall m : model, sat_pbc m c = sat_pbc m (pbc_of_gopb g).
Proof.
  intros g c H Hn. unfold pb_clause, new_pb_clause in H. cbn [g_atleast] in H.
  destruct (g_atleast g <? 1) eqn:E; [discriminate|]. apply Z.ltb_ge in E.
  injection H as <-. cbn [terms degree].
  split; [reflexivity|]. split; [lia|]. split; [apply sort_terms_sorted|].
  intros m. rewrite sort_terms_sat.
  unfold pbc_of_gopb in *. cbn [g_ws g_lits g_atleast].
  destruct (g_ws g) as [ws|]; cbn [terms] in *; [|reflexivity].
  rewrite combine_map_cap.
  exact (saturate_spec (PBC (combine ws (g_lits g)) (g_atleast g)) m Hn ltac:(cbn [degree]; lia)).
Qed.

Lemma pb_clause_none : forall g, pb_clause g = None <-> g_atleast g < 1.
Proof.
  intros g. unfold pb_clause, new_pb_clause. cbn [g_atleast].
  destruct (g_atleast g <? 1) eqn:E.
  - apply Z.ltb_lt in E. tauto.
  - apply Z.ltb_ge in E. split; [discriminate|lia].
Qed.

Lemma new_card_clause_spec : forall lits k c, new_card_clause lits k = Some c ->
  1 <= k <= Z.of_nat (length lits) /\ c = card_pbc lits k.
Proof.
  intros lits k c H. unfold new_card_clause in H.
  destruct ((k <? 1) || (Z.of_nat (length lits) <? k)) eqn:E; [discriminate|].
  injection H as <-. apply orb_false_iff in E. destruct E as [E1 E2].
  apply Z.ltb_ge in E1. apply Z.ltb_ge in E2. split; [lia|reflexivity].
Qed.

(* ------------------------------------------------------------------ *)
(* SimplifyPB                                                          *)

Lemma split_units_spec : forall th ts us rest, split_units th ts = (us, rest) ->
  ts = us ++ rest /\ Forall (fun t => th < fst t) us.
Proof.
  intros th ts. induction ts as [|t ts IH]; intros us rest H; cbn [split_units] in H.
  - injection H as <- <-. split; [reflexivity|constructor].
  - destruct (th <? fst t) eqn:E.
    + destruct (split_units th ts) as [u s]. injection H as <- <-.
      destruct (IH u s eq_refl) as [-> HF]. apply Z.ltb_lt in E.
      split; [reflexivity|constructor; assumption].
    + injection H as <- <-. split; [reflexivity|constructor].
Qed.

(* with sorted terms the units are exactly the literals of weight > thresh *)
Lemma split_units_complete : forall th ts us rest, split_units th ts = (us, rest) ->
  StronglySorted ge_weight ts -> Forall (fun t => fst t <= th) rest.
Proof.
  intros th ts. induction ts as [|t ts IH]; intros us rest H HS; cbn [split_units] in H.
  - injection H as <- <-. constructor.
  - inversion HS as [|? ? HS' HF]; subst.
    destruct (th <? fst t) eqn:E.
    + destruct (split_units th ts) as [u s]. injection H as <- <-.
      apply (IH u s eq_refl HS').
    + injection H as <- <-. apply Z.ltb_ge in E. constructor; [exact E|].
      rewrite Forall_forall in *. intros x Hx. specialize (HF x Hx). unfold ge_weight in HF. lia.
Qed.

Lemma lhs_all_true : forall (m : model) us, forallb (lit_val m) (map snd us) = true ->
  lhs m us = zsum (map fst us).
Proof.
  intros m us. induction us as [|t us IH]; intros H; [reflexivity|].
  cbn [map forallb] in H. apply andb_true_iff in H. destruct H as [H1 H2].
  cbn [lhs map zsum]. unfold term_val. rewrite H1, IH by exact H2. reflexivity.
Qed.

Lemma lhs_some_false : forall (m : model) th us, nonneg_terms us = true ->
  Forall (fun t => th < fst t) us ->
  forallb (lit_val m) (map snd us) = false ->
  lhs m us < zsum (map fst us) - th.
Proof.
  intros m th us. induction us as [|t us IH]; intros Hn HF H; [discriminate|].
  apply nonneg_terms_cons in Hn. destruct Hn as [Hw Hr].
  inversion HF as [|? ? Ht HF']; subst.
  cbn [map forallb] in H. cbn [lhs map zsum]. unfold term_val.
  pose proof (lhs_bounds m us Hr) as B.
  destruct (lit_val m (snd t)); cbn [andb] in H.
  - specialize (IH Hr HF' H). lia.
  - lia.
Qed.

Definition sat_opt (m : model) (r : option pbc) : bool :=
  match r with None => true | Some c => sat_pbc m c end.

Theorem simplify_pb_sound : forall c, nonneg_terms (terms c) = true ->
  match simplify_pb c with
  | None => forall m : model, sat_pbc m c = false
  | Some (us, rest) =>
    forall m : model, sat_pbc m c = forallb (lit_val m) us && sat_opt m rest
  end.
Proof.
  intros [ts d] Hn. unfold simplify_pb. cbn [terms degree] in *.
  destruct (zsum (map fst ts) - d <? 0) eqn:Eth.
  - apply Z.ltb_lt in Eth. intros m. apply trivial_false; cbn [terms degree]; [exact Hn|lia].
  - apply Z.ltb_ge in Eth.
    destruct (split_units (zsum (map fst ts) - d) ts) as [us rest] eqn:Es.
    destruct (split_units_spec _ _ _ _ Es) as [Hts HF].
    assert (Hn' := Hn). rewrite Hts in Hn'. apply nonneg_terms_app in Hn'. destruct Hn' as [Hnu Hnr].
    assert (Hsum : zsum (map fst ts) = zsum (map fst us) + zsum (map fst rest)).
    { rewrite Hts, map_app, zsum_app. reflexivity. }
    assert (Hcase : forall m : model,
      sat_pbc m (PBC ts d) =
      forallb (lit_val m) (map snd us) && (d - zsum (map fst us) <=? lhs m rest)).
    { intros m. unfold sat_pbc. cbn [terms degree]. rewrite Hts at 1. rewrite lhs_app.
      pose proof (lhs_bounds m rest Hnr) as Br.
      destruct (forallb (lit_val m) (map snd us)) eqn:Eu; cbn [andb].
      - rewrite (lhs_all_true m us Eu). lia.
      - pose proof (lhs_some_false m _ us Hnu HF Eu) as Hlt. lia. }
    destruct (d - zsum (map fst us) <=? 0) eqn:Ec.
    + apply Z.leb_le in Ec. intros m. rewrite Hcase. cbn [sat_opt].
      pose proof (lhs_bounds m rest Hnr) as Br. f_equal. lia.
    + apply Z.leb_gt in Ec. intros m. rewrite Hcase. cbn [sat_opt]. f_equal.
      rewrite sort_terms_sat. unfold sat_pbc. cbn [terms degree].
      symmetry. apply cap_first_lhs; [lia|exact Hnr].
Qed.

(* Go indexes newWeights[0]: the slice is never empty there. *)
Lemma simplify_pb_rest_nonempty : forall c us rest,
  split_units (zsum (map fst (terms c)) - degree c) (terms c) = (us, rest) ->
  0 <= zsum (map fst (terms c)) - degree c ->
  0 < degree c - zsum (map fst us) -> rest <> [].
Proof.
  intros c us rest Es Hth Hc ->. apply split_units_spec in Es. destruct Es as [Hts _].
  rewrite app_nil_r in Hts. rewrite Hts in Hth. lia.
Qed.

(* What the result of SimplifyPB looks like: still sorted, weights still >= 0,
   degree >= 1. *)
Lemma nonneg_cap_first : forall d ts, 0 <= d -> nonneg_terms ts = true ->
  nonneg_terms (cap_first d ts) = true.
Proof.
  intros d ts Hd H. destruct ts as [|t ts]; [reflexivity|].
  apply nonneg_terms_cons in H. destruct H as [Hw Hr].
  cbn [cap_first]. apply nonneg_terms_cons. cbn [fst]. split; [apply cap_nonneg; assumption|exact Hr].
Qed.

Theorem simplify_pb_shape : forall c us r, nonneg_terms (terms c) = true ->
  simplify_pb c = Some (us, Some r) ->
  0 < degree r /\ StronglySorted ge_weight (terms r) /\ nonneg_terms (terms r) = true /\
  (length us + length (terms r) = length (terms c))%nat.
Proof.
  intros [ts d] us r Hn H. unfold simplify_pb in H. cbn [terms degree] in *.
  destruct (zsum (map fst ts) - d <? 0); [discriminate|].
  destruct (split_units (zsum (map fst ts) - d) ts) as [us' rest] eqn:Es.
  destruct (d - zsum (map fst us') <=? 0) eqn:Ec; [discriminate|].
  apply Z.leb_gt in Ec. injection H as <- <-. cbn [terms degree].
  destruct (split_units_spec _ _ _ _ Es) as [Hts _].
  rewrite Hts in Hn. apply nonneg_terms_app in Hn. destruct Hn as [_ Hnr].
  split; [lia|]. split; [apply sort_terms_sorted|]. split.
  - rewrite (nonneg_terms_perm _ _ (sort_terms_perm _)). apply nonneg_cap_first; [lia|exact Hnr].
  - rewrite (Permutation_length (sort_terms_perm _)). rewrite Hts, app_length, map_length.
    destruct rest; reflexivity.
Qed.

(* The comment clause.go:274 promises "saturate weights so that none is higher
   than card".  The loop only caps the first weight, so the promise is broken
   (the meaning of the constraint is not: simplify_pb_sound). *)
Definition saturated (c : pbc) : Prop := Forall (fun t => fst t <= degree c) (terms c).

Theorem simplify_pb_saturated_refuted :
  exists c us r,
    nonneg_terms (terms c) = true /\ StronglySorted ge_weight (terms c) /\ 0 < degree c /\
    simplify_pb c = Some (us, Some r) /\ ~ saturated r.
Proof.
  exists (PBC [(5, 3); (4, 2); (1, 1)] 3), [], (PBC [(4, 2); (3, 3); (1, 1)] 3).
  split; [reflexivity|]. split.
  - repeat constructor; unfold ge_weight; cbn; lia.
  - split; [cbn; lia|]. split; [vm_compute; reflexivity|].
    intros H. inversion H as [|? ? H1 _]. cbn in H1. lia.
Qed.

(* What is true: the result is, up to the order, the non-unit suffix of the
   input with its first weight (only) capped at the new degree; it is
   saturated whenever the other weights of the suffix were already small. *)
Theorem simplify_pb_saturated_partial : forall c us r,
  simplify_pb c = Some (us, Some r) ->
  exists ust t rest,
    terms c = ust ++ t :: rest /\ us = map snd ust /\
    degree r = degree c - zsum (map fst ust) /\
    Permutation (terms r) ((cap (degree r) (fst t), snd t) :: rest) /\
    (Forall (fun x => fst x <= degree r) rest -> saturated r).
Proof.
  intros [ts d] us r H. unfold simplify_pb in H. cbn [terms degree] in *.
  destruct (zsum (map fst ts) - d <? 0) eqn:Eth; [discriminate|]. apply Z.ltb_ge in Eth.
  destruct (split_units (zsum (map fst ts) - d) ts) as [us' rest] eqn:Es.
  destruct (d - zsum (map fst us') <=? 0) eqn:Ec; [discriminate|].
  apply Z.leb_gt in Ec. injection H as <- <-. cbn [terms degree].
  destruct rest as [|t rest].
  - exfalso. apply (simplify_pb_rest_nonempty (PBC ts d) us' [] Es); cbn [terms degree]; [lia|lia|reflexivity].
  - exists us', t, rest. destruct (split_units_spec _ _ _ _ Es) as [Hts _].
    split; [exact Hts|]. split; [reflexivity|]. split; [reflexivity|].
    assert (HP : Permutation (sort_terms (cap_first (d - zsum (map fst us')) (t :: rest)))
                   ((cap (d - zsum (map fst us')) (fst t), snd t) :: rest))
      by apply sort_terms_perm.
    split; [exact HP|].
    intros HF. unfold saturated. cbn [terms degree].
    apply Forall_forall. intros x Hx. apply (Permutation_in _ HP) in Hx.
    destruct Hx as [<-|Hx].
    + cbn [fst]. unfold cap. destruct (_ <? _) eqn:E; lia.
    + rewrite Forall_forall in HF. apply HF. exact Hx.
Qed.

(* ------------------------------------------------------------------ *)
(* The index-based transcription of the GtEq loop computes the same    *)

Lemma nth_len_app : forall (p : list Z) x r d, nth (length p) (p ++ x :: r) d = x.
Proof. intros p x r d. induction p as [|y p IH]; [reflexivity|exact IH]. Qed.

Lemma set_nth_len_app : forall (p : list Z) x y r, set_nth (length p) y (p ++ x :: r) = p ++ y :: r.
Proof.
  intros p x y r. induction p as [|z p IH]; [reflexivity|].
  cbn [length app set_nth]. rewrite IH. reflexivity.
Qed.

Lemma del_nth_len_app : forall (p : list Z) x r, del_nth (length p) (p ++ x :: r) = p ++ r.
Proof.
  intros p x r. induction p as [|z p IH]; [reflexivity|].
  cbn [length app del_nth]. rewrite IH. reflexivity.
Qed.

Lemma gt_eq_idx_loop : forall fuel (ws lits pw pl : list Z) n,
  length pl = length pw -> length lits = length ws -> (length ws <= fuel)%nat ->
  gt_eq_idx fuel (length pw) (pl ++ lits) (pw ++ ws) n =
  (pl ++ fst (fst (gt_eq_loop lits ws n)), pw ++ snd (fst (gt_eq_loop lits ws n)),
   snd (gt_eq_loop lits ws n)).
Proof.
  induction fuel as [|f IH]; intros ws lits pw pl n Hp Hlen Hf.
  - destruct ws; [|cbn [length] in Hf; lia]. destruct lits; [|discriminate]. reflexivity.
  - cbn [gt_eq_idx]. destruct ws as [|w ws].
    + destruct lits; [|discriminate]. cbn [gt_eq_loop fst snd]. rewrite !app_nil_r.
      rewrite Nat.ltb_irrefl. reflexivity.
    + destruct lits as [|l lits]; [discriminate|].
      assert (Hlen' : length lits = length ws) by (cbn [length] in Hlen; lia).
      assert (Hf' : (length ws <= f)%nat) by (cbn [length] in Hf; lia).
      replace (Nat.ltb (length pw) (length (pw ++ w :: ws))) with true
        by (symmetry; apply Nat.ltb_lt; rewrite app_length; cbn [length]; lia).
      assert (Hn1 : nth (length pw) (pl ++ l :: lits) 0 = l)
        by (rewrite <- Hp; apply nth_len_app).
      assert (Hs1 : forall y, set_nth (length pw) y (pl ++ l :: lits) = pl ++ y :: lits)
        by (intros y; rewrite <- Hp; apply set_nth_len_app).
      assert (Hd1 : forall y, del_nth (length pw) (pl ++ y :: lits) = pl ++ lits)
        by (intros y; rewrite <- Hp; apply del_nth_len_app).
      rewrite nth_len_app. cbn [gt_eq_loop].
      destruct (w <? 0) eqn:Ew.
      * rewrite Hn1, Hs1, !set_nth_len_app, !nth_len_app.
        destruct (- w =? 0) eqn:E0.
        -- rewrite Hd1, del_nth_len_app. apply IH; assumption.
        -- replace (S (length pw)) with (length (pw ++ [- w])) by (rewrite app_length; cbn [length]; lia).
           replace (pl ++ - l :: lits) with ((pl ++ [- l]) ++ lits) by (rewrite <- app_assoc; reflexivity).
           replace (pw ++ - w :: ws) with ((pw ++ [- w]) ++ ws) by (rewrite <- app_assoc; reflexivity).
           rewrite IH; [|rewrite !app_length; cbn [length]; lia|exact Hlen'|exact Hf'].
           destruct (gt_eq_loop lits ws (n + - w)) as [[ls wss] n2]. cbn [fst snd].
           rewrite <- !app_assoc. reflexivity.
      * rewrite !nth_len_app.
        destruct (w =? 0) eqn:E0.
        -- rewrite Hd1, del_nth_len_app. apply IH; assumption.
        -- replace (S (length pw)) with (length (pw ++ [w])) by (rewrite app_length; cbn [length]; lia).
           replace (pl ++ l :: lits) with ((pl ++ [l]) ++ lits) by (rewrite <- app_assoc; reflexivity).
           replace (pw ++ w :: ws) with ((pw ++ [w]) ++ ws) by (rewrite <- app_assoc; reflexivity).
           rewrite IH; [|rewrite !app_length; cbn [length]; lia|exact Hlen'|exact Hf'].
           destruct (gt_eq_loop lits ws n) as [[ls wss] n2]. cbn [fst snd].
           rewrite <- !app_assoc. reflexivity.
Qed.

Theorem gt_eq_idx_spec : forall (lits ws : list Z) n, length lits = length ws ->
  gt_eq_idx (length ws) 0 lits ws n = gt_eq_loop lits ws n.
Proof.
  intros lits ws n Hlen.
  pose proof (gt_eq_idx_loop (length ws) ws lits [] [] n eq_refl Hlen (Nat.le_refl _)) as H.
  cbn [app length] in H. rewrite H. destruct (gt_eq_loop lits ws n) as [[ls wss] n2]. reflexivity.
Qed.

(* ------------------------------------------------------------------ *)
(* Packaged statements for Properties/C02.v                            *)

Lemma wf_litsb_ok : forall c, wf_litsb c = true -> wf_clause c.
Proof.
  intros c H l Hl. unfold wf_litsb in H. rewrite forallb_forall in H.
  specialize (H l Hl). apply negb_true_iff in H. apply Z.eqb_neq in H. exact H.
Qed.

Theorem sort_terms_spec : forall ts,
  Permutation (sort_terms ts) ts /\
  StronglySorted (fun a b : term => fst b <= fst a) (sort_terms ts) /\
  (forall m : model, lhs m (sort_terms ts) = lhs m ts) /\
  (forall (m : model) d, sat_pbc m (PBC (sort_terms ts) d) = sat_pbc m (PBC ts d)).
Proof.
  intros ts. split; [apply sort_terms_perm|]. split; [apply sort_terms_sorted|].
  split; [intros m; apply sort_terms_lhs|intros m d; apply sort_terms_sat].
Qed.

Theorem trivial_spec : forall c, nonneg_terms (terms c) = true ->
  (degree c <= 0 -> forall m : model, sat_pbc m c = true) /\
  (zsum (map fst (terms c)) < degree c -> forall m : model, sat_pbc m c = false).
Proof.
  intros c Hn. split; intros H; [apply trivial_true|apply trivial_false]; assumption.
Qed.

Lemma gt_eq_nil_weights : forall lits n, gt_eq lits [] n = at_least lits n.
Proof. reflexivity. Qed.
