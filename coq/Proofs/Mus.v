(* Proofs/Mus.v -- the MUS algorithms of Model/Mus.v return minimal
   unsatisfiable sub-multisets (deletion, insertion), MUSMaxSat does not. *)
From Coq Require Import List ZArith Lia Bool Arith.
From GS Require Import Spec.Base Spec.PB Spec.Solver Model.Rup Proofs.Rup Model.Mus.
Import ListNotations.
Open Scope Z_scope.

(* ================================================================== *)
(* 0. Specification                                                    *)

(* every clause occurs in s no more often than in f *)
Definition submultiset (s f : cnf) : Prop := forall c, (count_cl s c <= count_cl f c)%nat.

Definition is_mus (n : nat) (f s : cnf) : Prop :=
  submultiset s f /\ ~ Satisfiable n s /\
  forall i, (i < length s)%nat -> Satisfiable n (remove_nth i s).

Lemma count_cl_app : forall a b c, count_cl (a ++ b) c = (count_cl a c + count_cl b c)%nat.
Proof. intros. unfold count_cl. apply count_occ_app. Qed.

Lemma count_cl_cons : forall x a c,
  count_cl (x :: a) c = ((if clause_eq_dec x c then 1 else 0) + count_cl a c)%nat.
Proof. intros. unfold count_cl. simpl. destruct (clause_eq_dec x c); reflexivity. Qed.

Lemma submultiset_refl : forall s, submultiset s s.
Proof. intros s c. lia. Qed.

Lemma submultiset_trans : forall a b c, submultiset a b -> submultiset b c -> submultiset a c.
Proof. intros a b c H1 H2 x. specialize (H1 x). specialize (H2 x). lia. Qed.

Lemma submultiset_In : forall s f c, submultiset s f -> In c s -> In c f.
Proof.
  intros s f c H Hin. unfold submultiset, count_cl in H. specialize (H c).
  apply (count_occ_In clause_eq_dec) in Hin. apply (count_occ_In clause_eq_dec). lia.
Qed.

Lemma sat_incl : forall n f g, Satisfiable n f -> (forall c, In c g -> In c f) -> Satisfiable n g.
Proof.
  intros n f g [m [Hl Hs]] Hi. exists m. split; [exact Hl|].
  apply sat_cnf_forall. intros c Hc. eapply sat_cnf_In; eauto.
Qed.

Lemma submultiset_unsat : forall n s f, submultiset s f -> ~ Satisfiable n s -> ~ Satisfiable n f.
Proof.
  intros n s f H Hu Hs. apply Hu. eapply sat_incl; eauto. intros c. apply submultiset_In. exact H.
Qed.

Lemma select_count : forall mask (f : cnf) c, (count_cl (select mask f) c <= count_cl f c)%nat.
Proof.
  induction mask as [|b mask IH]; intros f c; [simpl; unfold count_cl; simpl; lia|].
  destruct f as [|x f]; [unfold count_cl; simpl; lia|]. cbn [select]. specialize (IH f c).
  destruct b; rewrite ?count_cl_cons; destruct (clause_eq_dec x c); lia.
Qed.

Lemma subseq_submultiset : forall s f : cnf, subseq_of s f -> submultiset s f.
Proof. intros s f [mask [_ ->]] c. apply select_count. Qed.

Lemma remove_nth_app1 : forall (A : Type) (a b : list A) i, (i < length a)%nat ->
  remove_nth i (a ++ b) = remove_nth i a ++ b.
Proof.
  intros A. induction a as [|x a IH]; intros b i H; simpl in H; [lia|].
  destruct i; simpl; [reflexivity|]. rewrite IH by lia. reflexivity.
Qed.

Lemma remove_nth_last : forall (A : Type) (a : list A) x, remove_nth (length a) (a ++ [x]) = a.
Proof. intros A. induction a as [|y a IH]; intros x; simpl; [reflexivity|]. rewrite IH. reflexivity. Qed.

Lemma remove_nth_incl : forall (A : Type) (a : list A) i x, In x (remove_nth i a) -> In x a.
Proof.
  intros A. induction a as [|y a IH]; intros i x H; [destruct i; exact H|].
  destruct i; simpl in H; [right; exact H|]. destruct H as [H|H]; [left; exact H|right; eapply IH; eauto].
Qed.

Lemma remove_nth_count : forall a i c, (count_cl (remove_nth i a) c <= count_cl a c)%nat.
Proof.
  induction a as [|y a IH]; intros i c; [destruct i; simpl; lia|].
  destruct i; cbn [remove_nth]; rewrite ?count_cl_cons; [lia|]. specialize (IH i c). lia.
Qed.

(* ================================================================== *)
(* 1. The algorithms over correct oracles                              *)

Section Correct.

Variable n : nat.
Variable sat : nat -> cnf -> bool.
Variable subset : cnf -> option cnf.
Variable minrelax : nat -> cnf -> cnf -> option model.

Hypothesis sat_ok : forall nv f, sat nv f = true <-> Satisfiable nv f.

(* the contract of UnsatSubset (C08_subset) *)
Hypothesis subset_ok : forall f,
  (~ Satisfiable n f -> exists s, subset f = Some s) /\
  (forall s, subset f = Some s -> submultiset s f /\ ~ Satisfiable n s).

Hypothesis minrelax_ok : forall hard soft,
  match minrelax n hard soft with
  | Some m => length m = n /\ sat_cnf m hard = true /\
              forall m', length m' = n -> sat_cnf m' hard = true -> viol m soft <= viol m' soft
  | None => ~ Satisfiable n hard
  end.

Lemma sat_false : forall nv f, sat nv f = false <-> ~ Satisfiable nv f.
Proof.
  intros nv f. rewrite <- sat_ok. destruct (sat nv f); split; intros H; congruence.
Qed.

Lemma subset_sat_none : forall f, Satisfiable n f -> subset f = None.
Proof.
  intros f Hs. destruct (subset f) as [s|] eqn:E; [|reflexivity].
  destruct (proj2 (subset_ok f) s E) as [H1 H2]. exfalso.
  exact (submultiset_unsat n s f H1 H2 Hs).
Qed.

(* ---------------- deletion ---------------- *)

Lemma del_loop_spec : forall rest kept,
  ~ Satisfiable n (kept ++ rest) ->
  (forall i, (i < length kept)%nat -> Satisfiable n (remove_nth i kept ++ rest)) ->
  let r := del_loop n sat kept rest in
  submultiset r (kept ++ rest) /\ ~ Satisfiable n r /\
  forall i, (i < length r)%nat -> Satisfiable n (remove_nth i r).
Proof.
  induction rest as [|c rest IH]; intros kept Hu Hm; cbn [del_loop].
  - rewrite app_nil_r in *. split; [apply submultiset_refl|]. split; [exact Hu|].
    intros i Hi. specialize (Hm i Hi). rewrite app_nil_r in Hm. exact Hm.
  - destruct (sat n (kept ++ rest)) eqn:E.
    + apply sat_ok in E.
      destruct (IH (kept ++ [c])) as [A1 [A2 A3]].
      * rewrite <- app_assoc. exact Hu.
      * intros i Hi. rewrite app_length in Hi. simpl in Hi.
        destruct (lt_dec i (length kept)) as [Hlt|Hge].
        -- rewrite remove_nth_app1 by exact Hlt. rewrite <- app_assoc. apply Hm. exact Hlt.
        -- replace i with (length kept) by lia. rewrite remove_nth_last. exact E.
      * rewrite <- app_assoc in A1. auto.
    + apply sat_false in E.
      destruct (IH kept E) as [A1 [A2 A3]].
      * intros i Hi. apply (sat_incl n (remove_nth i kept ++ c :: rest)); [apply Hm; exact Hi|].
        intros x Hx. apply in_or_app. apply in_app_or in Hx. destruct Hx; [left|right; right]; auto.
      * split; [|auto]. intros x. specialize (A1 x). rewrite count_cl_app in *.
        rewrite count_cl_cons. lia.
Qed.

Theorem mus_deletion_correct : forall f, ~ Satisfiable n f ->
  exists s, mus_deletion n sat subset f = MusOk s /\ is_mus n f s.
Proof.
  intros f Hu. unfold mus_deletion. destruct (proj1 (subset_ok f) Hu) as [s E]. rewrite E.
  destruct (proj2 (subset_ok f) s E) as [H1 H2].
  destruct (del_loop_spec s [] H2) as [A1 [A2 A3]]; [simpl; intros; lia|].
  eexists. split; [reflexivity|]. split; [|split]; auto.
  eapply submultiset_trans; eauto.
Qed.

Theorem mus_deletion_sat : forall f, Satisfiable n f -> mus_deletion n sat subset f = MusErr.
Proof. intros f Hs. unfold mus_deletion. rewrite (subset_sat_none f Hs). reflexivity. Qed.

(* ---------------- insertion ---------------- *)

Lemma ins_find_some : forall cands mus added pre c,
  ins_find n sat mus added cands = Some (pre, c) ->
  Satisfiable n (mus ++ added) ->
  exists rest, added ++ cands = pre ++ c :: rest /\
               Satisfiable n (mus ++ pre) /\ ~ Satisfiable n (mus ++ pre ++ [c]).
Proof.
  induction cands as [|x cands IH]; intros mus added pre c H Hs; cbn [ins_find] in H; [discriminate|].
  destruct (sat n (mus ++ added ++ [x])) eqn:E.
  - apply sat_ok in E. rewrite app_assoc in E. rewrite <- app_assoc in E.
    destruct (IH mus (added ++ [x]) pre c H) as [rest [A1 [A2 A3]]]; [exact E|].
    exists rest. rewrite <- app_assoc in A1. auto.
  - apply sat_false in E. inversion H; subst. exists cands. auto.
Qed.

Lemma ins_find_none : forall cands mus added,
  ins_find n sat mus added cands = None ->
  Satisfiable n (mus ++ added) -> Satisfiable n (mus ++ added ++ cands).
Proof.
  induction cands as [|x cands IH]; intros mus added H Hs; cbn [ins_find] in H.
  - rewrite app_nil_r. exact Hs.
  - destruct (sat n (mus ++ added ++ [x])) eqn:E; [|discriminate].
    apply sat_ok in E. specialize (IH mus (added ++ [x]) H E).
    rewrite <- app_assoc in IH. exact IH.
Qed.

Lemma ins_loop_spec : forall fuel mus cands,
  (length cands < fuel)%nat ->
  ~ Satisfiable n (mus ++ cands) ->
  (forall i, (i < length mus)%nat -> Satisfiable n (remove_nth i mus ++ cands)) ->
  exists r, ins_loop n sat fuel mus cands = MusOk r /\
    submultiset r (mus ++ cands) /\ ~ Satisfiable n r /\
    forall i, (i < length r)%nat -> Satisfiable n (remove_nth i r).
Proof.
  induction fuel as [|fuel IH]; intros mus cands Hf Hu Hm; [lia|]. cbn [ins_loop].
  destruct (sat n mus) eqn:E.
  - apply sat_ok in E.
    destruct (ins_find n sat mus [] cands) as [[pre c]|] eqn:Ef.
    + assert (E0 : Satisfiable n (mus ++ [])) by (rewrite app_nil_r; exact E).
      destruct (ins_find_some cands mus [] pre c Ef E0) as [rest [A1 [A2 A3]]]. simpl in A1.
      destruct (IH (mus ++ [c]) pre) as [r [B1 [B2 [B3 B4]]]].
      * subst cands. rewrite app_length in Hf. simpl in Hf. lia.
      * intros Hs. apply A3. eapply sat_incl; [exact Hs|]. intros x Hx.
        rewrite !in_app_iff in *. simpl in *. tauto.
      * intros i Hi. rewrite app_length in Hi. simpl in Hi.
        destruct (lt_dec i (length mus)) as [Hlt|Hge].
        -- rewrite remove_nth_app1 by exact Hlt.
           apply (sat_incl n (remove_nth i mus ++ cands)); [apply Hm; exact Hlt|].
           subst cands. intros x Hx. rewrite !in_app_iff in *. simpl in *. tauto.
        -- replace i with (length mus) by lia. rewrite remove_nth_last. exact A2.
      * exists r. split; [exact B1|]. split; [|auto].
        eapply submultiset_trans; [exact B2|]. subst cands. intros x.
        repeat (rewrite count_cl_app || rewrite count_cl_cons).
        change (count_cl [] x) with 0%nat. lia.
    + exfalso. apply Hu. apply (ins_find_none cands mus [] Ef). rewrite app_nil_r. exact E.
  - apply sat_false in E. exists mus. split; [reflexivity|]. split; [|split].
    + intros x. rewrite count_cl_app. lia.
    + exact E.
    + intros i Hi. apply (sat_incl n (remove_nth i mus ++ cands)); [apply Hm; exact Hi|].
      intros x Hx. apply in_or_app. left. exact Hx.
Qed.

Theorem mus_insertion_correct : forall f, ~ Satisfiable n f ->
  exists s, mus_insertion n sat subset f = MusOk s /\ is_mus n f s.
Proof.
  intros f Hu. unfold mus_insertion. destruct (proj1 (subset_ok f) Hu) as [s E]. rewrite E.
  destruct (proj2 (subset_ok f) s E) as [H1 H2].
  destruct (ins_loop_spec (S (length s)) [] s) as [r [A1 [A2 [A3 A4]]]]; auto.
  - simpl. intros; lia.
  - exists r. split; [exact A1|]. split; [|split]; auto.
    eapply submultiset_trans; eauto.
Qed.

Theorem mus_insertion_sat : forall f, Satisfiable n f -> mus_insertion n sat subset f = MusErr.
Proof. intros f Hs. unfold mus_insertion. rewrite (subset_sat_none f Hs). reflexivity. Qed.

(* ---------------- maxsat ---------------- *)

Fixpoint pending (st : list (bool * clause)) : nat :=
  match st with
  | [] => O
  | (d, _) :: r => ((if d then 0 else 1) + pending r)%nat
  end.

Lemma mark_violated_spec : forall m st st' add,
  mark_violated m st = (st', add) ->
  map snd st' = map snd st /\
  (forall c, count_cl (hard_of st') c = (count_cl (hard_of st) c + count_cl add c)%nat) /\
  (pending st' <= pending st)%nat /\
  (forallb (sat_clause m) (soft_of st) = false -> (pending st' < pending st)%nat).
Proof.
  intros m. induction st as [|[d c] r IH]; intros st' add H; cbn [mark_violated] in H.
  - inversion H; subst. simpl. repeat split; auto. discriminate.
  - destruct (mark_violated m r) as [st0 add0] eqn:E.
    destruct (IH st0 add0 eq_refl) as [A1 [A2 [A3 A4]]].
    destruct d; cbn [negb andb] in H.
    + inversion H; subst. unfold hard_of, soft_of in *. cbn [filter fst snd negb map pending].
      split; [f_equal; exact A1|]. split; [|split].
      * intros x. rewrite !count_cl_cons. rewrite (A2 x). lia.
      * lia.
      * intros Hf. specialize (A4 Hf). lia.
    + destruct (sat_clause m c) eqn:Ec; cbn [negb] in H; inversion H; subst;
        unfold hard_of, soft_of in *; cbn [filter fst snd negb map pending forallb].
      * split; [f_equal; exact A1|]. split; [|split].
        -- intros x. apply A2.
        -- lia.
        -- rewrite Ec. simpl. intros Hf. specialize (A4 Hf). lia.
      * split; [f_equal; exact A1|]. split; [|split].
        -- intros x. rewrite !count_cl_cons. rewrite (A2 x). lia.
        -- lia.
        -- intros _. lia.
Qed.

Lemma hard_soft_all : forall m st,
  sat_cnf m (hard_of st) = true -> forallb (sat_clause m) (soft_of st) = true ->
  sat_cnf m (map snd st) = true.
Proof.
  intros m. unfold hard_of, soft_of, sat_cnf.
  induction st as [|[d c] r IH]; intros H1 H2; [reflexivity|].
  destruct d; cbn [filter fst snd negb map forallb] in *.
  - apply andb_true_iff in H1. destruct H1 as [Hc H1]. rewrite Hc. simpl. auto.
  - apply andb_true_iff in H2. destruct H2 as [Hc H2]. rewrite Hc. simpl. auto.
Qed.

Lemma hard_of_count : forall st c, (count_cl (hard_of st) c <= count_cl (map snd st) c)%nat.
Proof.
  unfold hard_of. induction st as [|[d x] r IH]; intros c; [simpl; lia|].
  specialize (IH c). destruct d; cbn [filter fst snd map]; rewrite ?count_cl_cons; lia.
Qed.

Lemma count_eq_sat : forall a b, (forall c, count_cl a c = count_cl b c) ->
  Satisfiable n a -> Satisfiable n b.
Proof.
  intros a b H Hs. eapply sat_incl; [exact Hs|]. intros c Hc.
  apply (count_occ_In clause_eq_dec) in Hc. apply (count_occ_In clause_eq_dec).
  specialize (H c). unfold count_cl in H. lia.
Qed.

Lemma maxsat_loop_spec : forall fuel st mus f,
  map snd st = f -> ~ Satisfiable n f ->
  (pending st < fuel)%nat ->
  (forall c, count_cl mus c = count_cl (hard_of st) c) ->
  exists r, maxsat_loop n minrelax fuel st mus = MusOk r /\
            submultiset r f /\ ~ Satisfiable n r.
Proof.
  induction fuel as [|fuel IH]; intros st mus f Hst Hu Hf Hc; [lia|]. cbn [maxsat_loop].
  pose proof (minrelax_ok (hard_of st) (soft_of st)) as Hm.
  destruct (minrelax n (hard_of st) (soft_of st)) as [m|].
  - destruct Hm as [Hl [Hh _]].
    destruct (forallb (sat_clause m) (soft_of st)) eqn:Es.
    + exfalso. apply Hu. exists m. split; [exact Hl|]. rewrite <- Hst. apply hard_soft_all; auto.
    + destruct (mark_violated m st) as [st' add] eqn:Em.
      destruct (mark_violated_spec m st st' add Em) as [A1 [A2 [A3 A4]]].
      specialize (A4 Es).
      apply (IH st' (mus ++ add) f); auto.
      * congruence.
      * lia.
      * intros c. rewrite count_cl_app, A2, Hc. reflexivity.
  - exists mus. split; [reflexivity|]. split.
    + intros c. rewrite Hc. rewrite <- Hst. apply hard_of_count.
    + intros Hs. apply Hm. eapply count_eq_sat; eauto.
Qed.

Lemma pending_init : forall f : cnf, pending (map (pair false) f) = length f.
Proof. induction f as [|c f IH]; simpl; auto. Qed.

Theorem mus_maxsat_gather_spec : forall f, ~ Satisfiable n f ->
  exists s, mus_maxsat_gather n minrelax f = MusOk s /\ submultiset s f /\ ~ Satisfiable n s.
Proof.
  intros f Hu. unfold mus_maxsat_gather. apply maxsat_loop_spec; auto.
  - apply map_snd_pair_false.
  - rewrite pending_init. lia.
  - intros c. unfold hard_of.
    assert (E : filter fst (map (pair false) f) = []).
    { clear. induction f as [|x f IH]; simpl; auto. }
    rewrite E. reflexivity.
Qed.

Lemma viol_zero : forall m s, viol m s = 0 <-> forallb (sat_clause m) s = true.
Proof.
  intros m s. unfold viol. induction s as [|c s IH]; simpl; [tauto|].
  destruct (sat_clause m c); simpl.
  - exact IH.
  - split; [lia|discriminate].
Qed.

Lemma viol_nonneg : forall m s, 0 <= viol m s.
Proof. intros. unfold viol. lia. Qed.

Theorem mus_maxsat_gather_sat : forall f, Satisfiable n f ->
  mus_maxsat_gather n minrelax f = MusErr.
Proof.
  intros f [m0 [Hl0 Hs0]]. unfold mus_maxsat_gather. cbn [maxsat_loop].
  assert (Eh : hard_of (map (pair false) f) = []).
  { unfold hard_of. clear. induction f as [|x f IH]; simpl; auto. }
  assert (Es : soft_of (map (pair false) f) = f).
  { unfold soft_of. clear. induction f as [|x f IH]; simpl; auto. f_equal. exact IH. }
  rewrite Eh, Es. pose proof (minrelax_ok [] f) as Hm.
  destruct (minrelax n [] f) as [m|].
  - destruct Hm as [Hl [_ Hopt]]. specialize (Hopt m0 Hl0 eq_refl).
    assert (E0 : viol m0 f = 0) by (apply viol_zero; exact Hs0).
    pose proof (viol_nonneg m f). assert (E : viol m f = 0) by lia.
    apply viol_zero in E. rewrite E. reflexivity.
  - exfalso. apply Hm. exists m0. split; auto.
Qed.

(* the algorithm before the repair: only sub-multiset + unsatisfiable *)
Theorem mus_maxsat_old_partial : forall f, ~ Satisfiable n f ->
  exists s, mus_maxsat_old n minrelax f = MusOk s /\ submultiset s f /\ ~ Satisfiable n s.
Proof. exact mus_maxsat_gather_spec. Qed.

(* the repaired algorithm: gathering, then deletion on the gathered clauses *)
Theorem mus_maxsat_correct : forall f, ~ Satisfiable n f ->
  exists s, mus_maxsat n sat subset minrelax f = MusOk s /\ is_mus n f s.
Proof.
  intros f Hu. unfold mus_maxsat.
  destruct (mus_maxsat_gather_spec f Hu) as [g [Eg [Hsub Hug]]]. rewrite Eg.
  destruct (mus_deletion_correct g Hug) as [s [Es [H1 [H2 H3]]]].
  exists s. split; [exact Es|]. split; [|split]; auto.
  eapply submultiset_trans; eauto.
Qed.

Theorem mus_maxsat_sat : forall f, Satisfiable n f ->
  mus_maxsat n sat subset minrelax f = MusErr.
Proof.
  intros f Hs. unfold mus_maxsat. rewrite (mus_maxsat_gather_sat f Hs). reflexivity.
Qed.

End Correct.

(* ================================================================== *)
(* 2. The reference instantiation                                      *)

Lemma sat_ref_ok : forall nv f, sat_ref nv f = true <-> Satisfiable nv f.
Proof.
  intros nv f. unfold sat_ref. destruct (ref_solve nv (cnf_problem f)) as [m|] eqn:E.
  - apply ref_solve_some in E. destruct E as [Hl Hs]. rewrite sat_cnf_problem in Hs.
    split; [intros _; exists m; auto|reflexivity].
  - split; [discriminate|]. intros [m [Hl Hs]].
    pose proof (ref_solve_none nv _ E m Hl) as H. rewrite sat_cnf_problem in H. congruence.
Qed.

Lemma subset_ref_ok : forall n f,
  (~ Satisfiable n f -> exists s, subset_ref n f = Some s) /\
  (forall s, subset_ref n f = Some s -> submultiset s f /\ ~ Satisfiable n s).
Proof.
  intros n f. unfold subset_ref. destruct (sat_ref n f) eqn:E.
  - apply sat_ref_ok in E. split; [intros H; contradiction|discriminate].
  - split; [eauto|]. intros s H. inversion H; subst. split; [apply submultiset_refl|].
    intros Hs. apply sat_ref_ok in Hs. congruence.
Qed.

Lemma minrelax_ref_ok : forall n hard soft,
  match minrelax_ref n hard soft with
  | Some m => length m = n /\ sat_cnf m hard = true /\
              forall m', length m' = n -> sat_cnf m' hard = true -> viol m soft <= viol m' soft
  | None => ~ Satisfiable n hard
  end.
Proof.
  intros n hard soft. unfold minrelax_ref.
  destruct (min_cost n (fun m => sat_cnf m hard) (fun m => viol m soft)) as [k|] eqn:E.
  - apply min_cost_some in E. destruct E as [[m0 [L0 [P0 C0]]] Hmin].
    destruct (find_model n (fun m => sat_cnf m hard && (viol m soft =? k))) as [m|] eqn:Ef.
    + apply find_model_some in Ef. destruct Ef as [Hl Hp].
      apply andb_true_iff in Hp. destruct Hp as [Hh Hk]. apply Z.eqb_eq in Hk.
      split; [exact Hl|]. split; [exact Hh|]. intros m' Hl' Hs'. rewrite Hk. apply Hmin; auto.
    + exfalso. pose proof (find_model_none _ _ Ef m0 L0) as H. simpl in H.
      rewrite P0, C0, Z.eqb_refl in H. discriminate.
  - intros [m [Hl Hs]]. pose proof (min_cost_none _ _ _ E m Hl) as H. simpl in H. congruence.
Qed.

Theorem mus_deletion_ref_correct : forall n f, ~ Satisfiable n f ->
  exists s, mus_deletion_ref n f = MusOk s /\ is_mus n f s.
Proof. intros n f. apply mus_deletion_correct; [apply sat_ref_ok|apply subset_ref_ok]. Qed.

Theorem mus_deletion_ref_sat : forall n f, Satisfiable n f -> mus_deletion_ref n f = MusErr.
Proof. intros n f. apply mus_deletion_sat. apply subset_ref_ok. Qed.

Theorem mus_insertion_ref_correct : forall n f, ~ Satisfiable n f ->
  exists s, mus_insertion_ref n f = MusOk s /\ is_mus n f s.
Proof. intros n f. apply mus_insertion_correct; [apply sat_ref_ok|apply subset_ref_ok]. Qed.

Theorem mus_insertion_ref_sat : forall n f, Satisfiable n f -> mus_insertion_ref n f = MusErr.
Proof. intros n f. apply mus_insertion_sat. apply subset_ref_ok. Qed.

Theorem mus_maxsat_ref_correct : forall n f, ~ Satisfiable n f ->
  exists s, mus_maxsat_ref n f = MusOk s /\ is_mus n f s.
Proof.
  intros n f. apply mus_maxsat_correct;
    [apply sat_ref_ok|apply subset_ref_ok|apply minrelax_ref_ok].
Qed.

Theorem mus_maxsat_ref_sat : forall n f, Satisfiable n f -> mus_maxsat_ref n f = MusErr.
Proof. intros n f. apply mus_maxsat_sat. apply minrelax_ref_ok. Qed.

Theorem mus_maxsat_old_ref_partial : forall n f, ~ Satisfiable n f ->
  exists s, mus_maxsat_old_ref n f = MusOk s /\ submultiset s f /\ ~ Satisfiable n s.
Proof. intros n f. apply mus_maxsat_old_partial. apply minrelax_ref_ok. Qed.

(* ---- the executable specification ---- *)

Lemma submultisetb_spec : forall s f, submultisetb s f = true <-> submultiset s f.
Proof.
  intros s f. unfold submultisetb, submultiset. rewrite forallb_forall. split.
  - intros H c. destruct (in_dec clause_eq_dec c s) as [Hin|Hn].
    + specialize (H c Hin). apply Nat.leb_le in H. exact H.
    + unfold count_cl at 1. rewrite (proj1 (count_occ_not_In clause_eq_dec s c) Hn). lia.
  - intros H c _. apply Nat.leb_le. apply H.
Qed.

Lemma is_musb_spec : forall n f s, is_musb n f s = true <-> is_mus n f s.
Proof.
  intros n f s. unfold is_musb, is_mus. rewrite !andb_true_iff, submultisetb_spec, negb_true_iff.
  rewrite forallb_forall. split.
  - intros [[H1 H2] H3]. split; [exact H1|]. split.
    + intros Hs. apply sat_ref_ok in Hs. congruence.
    + intros i Hi. apply sat_ref_ok. apply H3. apply in_seq. lia.
  - intros [H1 [H2 H3]]. split; [split; [exact H1|]|].
    + destruct (sat_ref n s) eqn:E; [|reflexivity]. apply sat_ref_ok in E. contradiction.
    + intros i Hi. apply in_seq in Hi. apply sat_ref_ok. apply H3. lia.
Qed.

(* ================================================================== *)
(* 3. MUSMaxSat before the repair (commit 6770e40) was not minimal      *)

Definition F_two_cores : cnf := [[1]; [-1]; [2]; [-2]].
Definition F_d19 : cnf := [[5]; [-2; -3]; [-5; 4; 1]; [2; -5]; [-3]; [3]].

Lemma unsat_by_dec : forall n f, sat_ref n f = false -> ~ Satisfiable n f.
Proof. intros n f H Hs. apply sat_ref_ok in Hs. congruence. Qed.

Theorem mus_maxsat_old_ref_refuted :
  exists n f s, ~ Satisfiable n f /\ mus_maxsat_old_ref n f = MusOk s /\ ~ is_mus n f s.
Proof.
  exists 2%nat, F_two_cores, [[1]; [2]; [-1]; [-2]]. split; [|split].
  - apply unsat_by_dec. vm_compute. reflexivity.
  - vm_compute. reflexivity.
  - intros H. apply is_musb_spec in H. vm_compute in H. discriminate.
Qed.

Theorem mus_maxsat_old_ref_refuted_d19 :
  exists s, ~ Satisfiable 5 F_d19 /\ mus_maxsat_old_ref 5 F_d19 = MusOk s /\ ~ is_mus 5 F_d19 s.
Proof.
  eexists. split; [|split].
  - apply unsat_by_dec. vm_compute. reflexivity.
  - vm_compute. reflexivity.
  - intros H. apply is_musb_spec in H. vm_compute in H. discriminate.
Qed.

(* ================================================================== *)
(* 4. UnsatSubset (Model/Rup.v) meets the contract assumed of [subset]  *)

Theorem unsat_subset_contract : forall n f ssat cert s,
  wf_cnf f -> wf_cnf cert -> In [] cert ->
  unsat_subset n f false ssat cert = Some s ->
  submultiset s f /\ ~ Satisfiable n s.
Proof.
  intros n f ssat cert s Hf Hc Hin H.
  destruct (unsat_subset_spec n f false ssat cert s Hf Hc H) as [H1 H2]. split.
  - apply subseq_submultiset. exact H1.
  - apply H2; [discriminate|right; exact Hin].
Qed.

(* ================================================================== *)
(* 5. The relaxation encoding of MUSDeletion computes [del_loop]        *)

Definition enforced (a : lit) : bool := negb (0 <? a).

Definition shape (v : Z) (A : list lit) : Prop :=
  forall i a, nth_error A i = Some a -> a = v + Z.of_nat i \/ a = - (v + Z.of_nat i).

Lemma In_relax_from : forall cs v x,
  In x (relax_from v cs) <-> exists i c, nth_error cs i = Some c /\ x = c ++ [v + Z.of_nat i].
Proof.
  induction cs as [|c cs IH]; intros v x; cbn [relax_from].
  - split; [intros []|]. intros [i [c [H _]]]. destruct i; discriminate.
  - split.
    + intros [<-|H].
      * exists 0%nat, c. split; [reflexivity|]. f_equal. f_equal. simpl. lia.
      * apply IH in H. destruct H as [i [c' [H1 H2]]]. exists (S i), c'. split; [exact H1|].
        rewrite H2. f_equal. f_equal. lia.
    + intros [i [c' [H1 H2]]]. destruct i as [|i]; simpl in H1.
      * inversion H1; subst. left. f_equal. f_equal. simpl. lia.
      * right. apply IH. exists i, c'. split; [exact H1|]. rewrite H2. f_equal. f_equal. lia.
Qed.

Lemma In_select : forall (A : Type) mask (l : list A) x,
  In x (select mask l) <-> exists i, nth_error l i = Some x /\ nth i mask false = true.
Proof.
  intros A. induction mask as [|b mask IH]; intros l x.
  - simpl. split; [intros []|]. intros [i [_ H]]. destruct i; discriminate.
  - destruct l as [|y l]; cbn [select].
    + split; [intros []|]. intros [i [H _]]. destruct i; discriminate.
    + split.
      * intros H. destruct b.
        -- destruct H as [<-|H]; [exists 0%nat; auto|].
           apply IH in H. destruct H as [i [H1 H2]]. exists (S i). auto.
        -- apply IH in H. destruct H as [i [H1 H2]]. exists (S i). auto.
      * intros [i [H1 H2]]. destruct i as [|i]; simpl in H1, H2.
        -- inversion H1; subst. left. reflexivity.
        -- assert (In x (select mask l)) by (apply IH; eauto). destruct b; [right|]; auto.
Qed.

Lemma select_app : forall (A : Type) m1 m2 (l1 l2 : list A), length m1 = length l1 ->
  select (m1 ++ m2) (l1 ++ l2) = select m1 l1 ++ select m2 l2.
Proof.
  intros A. induction m1 as [|b m1 IH]; intros m2 l1 l2 H; destruct l1 as [|x l1]; try discriminate.
  - reflexivity.
  - simpl in H. injection H as H. cbn [app select]. rewrite IH by exact H. destruct b; reflexivity.
Qed.

Lemma select_all_true : forall (A : Type) mask (l : list A),
  (forall b, In b mask -> b = true) -> length mask = length l -> select mask l = l.
Proof.
  intros A. induction mask as [|b mask IH]; intros l H Hl; destruct l as [|x l]; try discriminate; auto.
  cbn [select]. rewrite (H b (or_introl eq_refl)). f_equal. apply IH.
  - intros b' Hb. apply H. right; exact Hb.
  - simpl in Hl. lia.
Qed.

Lemma var_val_app_right : forall (m x : model) i,
  var_val (m ++ x) (Z.of_nat (length m) + 1 + Z.of_nat i) = nth i x false.
Proof.
  intros m x i. unfold var_val.
  replace (Z.to_nat (Z.of_nat (length m) + 1 + Z.of_nat i - 1)) with (length m + i)%nat by lia.
  rewrite app_nth2 by lia. f_equal. lia.
Qed.

Lemma lit_val_app_left : forall (m x : model) l, 1 <= Z.abs l <= Z.of_nat (length m) ->
  lit_val (m ++ x) l = lit_val m l.
Proof.
  intros m x l H. unfold lit_val, var_val.
  destruct (0 <? l) eqn:E; [apply Z.ltb_lt in E|apply Z.ltb_ge in E].
  - rewrite app_nth1 by lia. reflexivity.
  - rewrite app_nth1 by lia. reflexivity.
Qed.

Lemma sat_clause_app_left : forall (m x : model) c, lits_in (length m) c ->
  sat_clause (m ++ x) c = sat_clause m c.
Proof.
  intros m x c H. unfold sat_clause. induction c as [|l c IH]; [reflexivity|].
  cbn [existsb]. rewrite lit_val_app_left by (apply H; left; reflexivity).
  rewrite IH; [reflexivity|]. intros y Hy. apply H. right; exact Hy.
Qed.

Lemma nth_error_same_length : forall (A B : Type) (l1 : list A) (l2 : list B) i x,
  length l1 = length l2 -> nth_error l1 i = Some x -> exists y, nth_error l2 i = Some y.
Proof.
  intros A B l1 l2 i x Hl H. assert (Hi : (i < length l2)%nat).
  { rewrite <- Hl. apply nth_error_Some. congruence. }
  destruct (nth_error l2 i) as [y|] eqn:E; [eauto|]. apply nth_error_None in E. lia.
Qed.

Section Relax.

Variable n : nat.
Let v0 : Z := Z.of_nat n + 1.

Lemma relax_sat_iff : forall cs A, length A = length cs -> cnf_in n cs -> shape v0 A ->
  (Satisfiable (n + length cs) (relax_from v0 cs ++ units_of A) <->
   Satisfiable n (select (map enforced A) cs)).
Proof.
  intros cs A Hlen Hin Hsh. split.
  - (* restrict the model to the first n variables *)
    intros [M [HL HS]]. exists (firstn n M).
    assert (Hfl : length (firstn n M) = n) by (rewrite firstn_length; lia).
    split; [exact Hfl|]. apply sat_cnf_forall. intros c Hc.
    apply In_select in Hc. destruct Hc as [i [Hi Hm]].
    destruct (nth_error_same_length _ _ cs A i c (eq_sym Hlen) Hi) as [a Ha].
    rewrite (nth_map_nth_error _ _ enforced false A i a Ha) in Hm.
    assert (Ea : a = - (v0 + Z.of_nat i)).
    { destruct (Hsh i a Ha) as [E|E]; [|exact E]. exfalso. subst a. unfold enforced in Hm.
      apply negb_true_iff in Hm. apply Z.ltb_ge in Hm. unfold v0 in Hm. lia. }
    assert (Hu : sat_clause M [a] = true).
    { eapply sat_cnf_In; [exact HS|]. apply in_or_app. right. unfold units_of.
      apply in_map_iff. exists a. split; [reflexivity|]. eapply nth_error_In; eauto. }
    unfold sat_clause in Hu. simpl in Hu. rewrite orb_false_r in Hu.
    assert (Hr : sat_clause M (c ++ [v0 + Z.of_nat i]) = true).
    { eapply sat_cnf_In; [exact HS|]. apply in_or_app. left. apply In_relax_from. eauto. }
    rewrite sat_clause_app in Hr. unfold sat_clause at 2 in Hr. simpl in Hr. rewrite orb_false_r in Hr.
    assert (Hf : lit_val M (v0 + Z.of_nat i) = false).
    { subst a. rewrite lit_val_opp in Hu by (unfold v0; lia). apply negb_true_iff in Hu. exact Hu. }
    rewrite Hf, orb_false_r in Hr.
    rewrite <- (firstn_skipn n M) in Hr.
    rewrite sat_clause_app_left in Hr; [exact Hr|].
    rewrite Hfl. apply Hin. eapply nth_error_In; eauto.
  - (* extend the model with the values of the relax variables *)
    intros [m [HL HS]]. set (x := map (fun a => 0 <? a) A).
    exists (m ++ x). split; [rewrite app_length; unfold x; rewrite map_length, HL; f_equal; exact Hlen|].
    assert (Hvar : forall i a, nth_error A i = Some a ->
                     var_val (m ++ x) (v0 + Z.of_nat i) = (0 <? a)).
    { intros i a Ha. unfold v0. rewrite <- HL. rewrite var_val_app_right. unfold x.
      apply (nth_map_nth_error _ _ (fun a0 => 0 <? a0) false A i a Ha). }
    assert (Hpos : forall i, lit_val (m ++ x) (v0 + Z.of_nat i) = var_val (m ++ x) (v0 + Z.of_nat i)).
    { intros i. unfold lit_val. destruct (0 <? v0 + Z.of_nat i) eqn:E; [reflexivity|].
      apply Z.ltb_ge in E. unfold v0 in E. lia. }
    apply sat_cnf_forall. intros c Hc. apply in_app_or in Hc. destruct Hc as [Hc|Hc].
    + apply In_relax_from in Hc. destruct Hc as [i [c0 [Hi ->]]].
      destruct (nth_error_same_length _ _ cs A i c0 (eq_sym Hlen) Hi) as [a Ha].
      rewrite sat_clause_app. destruct (Hsh i a Ha) as [E|E].
      * apply orb_true_iff. right. unfold sat_clause. simpl. rewrite Hpos, (Hvar i a Ha).
        subst a. replace (0 <? v0 + Z.of_nat i) with true; [reflexivity|].
        symmetry. apply Z.ltb_lt. unfold v0. lia.
      * apply orb_true_iff. left. rewrite sat_clause_app_left.
        -- eapply sat_cnf_In; [exact HS|]. apply In_select. exists i. split; [exact Hi|].
           rewrite (nth_map_nth_error _ _ enforced false A i a Ha). subst a. unfold enforced.
           apply negb_true_iff. apply Z.ltb_ge. unfold v0. lia.
        -- rewrite HL. apply Hin. eapply nth_error_In; eauto.
    + unfold units_of in Hc. apply in_map_iff in Hc. destruct Hc as [a [<- Ha]].
      apply In_nth_error in Ha. destruct Ha as [i Ha].
      unfold sat_clause. simpl. rewrite orb_false_r. destruct (Hsh i a Ha) as [E|E].
      * rewrite E at 1. rewrite Hpos, (Hvar i a Ha). subst a. apply Z.ltb_lt. unfold v0. lia.
      * rewrite E at 1. rewrite lit_val_opp by (unfold v0; lia). rewrite Hpos, (Hvar i a Ha).
        subst a. apply negb_true_iff. apply Z.ltb_ge. unfold v0. lia.
Qed.

Variable sat : nat -> cnf -> bool.
Hypothesis sat_ok : forall nv f, sat nv f = true <-> Satisfiable nv f.

Lemma nth_error_lits_from : forall k w i a,
  nth_error (map Z.opp (lits_from w k)) i = Some a -> a = - (w + Z.of_nat i).
Proof.
  induction k as [|k IH]; intros w i a H; [destruct i; discriminate|].
  destruct i as [|i]; simpl in H.
  - inversion H. f_equal. lia.
  - apply IH in H. rewrite H. f_equal. lia.
Qed.

Lemma lits_from_length : forall k w, length (lits_from w k) = k.
Proof. induction k as [|k IH]; intros w; simpl; auto. Qed.

Lemma shape_app : forall pre x r,
  shape v0 pre -> (x = v0 + Z.of_nat (length pre) \/ x = - (v0 + Z.of_nat (length pre))) ->
  (forall i a, nth_error r i = Some a -> a = - (v0 + Z.of_nat (length pre) + 1 + Z.of_nat i)) ->
  shape v0 (pre ++ x :: r).
Proof.
  intros pre x r Hp Hx Hr i a H.
  destruct (lt_dec i (length pre)) as [Hlt|Hge].
  - rewrite nth_error_app1 in H by exact Hlt. apply Hp. exact H.
  - rewrite nth_error_app2 in H by lia.
    destruct (i - length pre)%nat as [|j] eqn:Ej; simpl in H.
    + inversion H; subst a. replace i with (length pre) by lia. exact Hx.
    + right. rewrite (Hr j a H). f_equal. lia.
Qed.

Lemma enforced_rest : forall k w, 1 <= w -> forall b, In b (map enforced (map Z.opp (lits_from w k))) -> b = true.
Proof.
  induction k as [|k IH]; intros w Hw b Hb; simpl in Hb; [destruct Hb|].
  destruct Hb as [<-|Hb].
  - unfold enforced. apply negb_true_iff. apply Z.ltb_ge. lia.
  - apply (IH (w + 1)); [lia|exact Hb].
Qed.

Lemma delr_sim : forall S2 S1 pre cs,
  cs = S1 ++ S2 -> length pre = length S1 -> shape v0 pre -> cnf_in n cs ->
  select (map enforced
            (delr_loop sat (n + length cs) (relax_from v0 cs) pre
                       (map Z.opp (lits_from (v0 + Z.of_nat (length pre)) (length S2))))) cs
  = del_loop n sat (select (map enforced pre) S1) S2.
Proof.
  induction S2 as [|c S2 IH]; intros S1 pre cs HS Hlen Hsh Hin.
  - cbn [length lits_from map delr_loop del_loop]. rewrite HS, app_nil_r. reflexivity.
  - cbn [length lits_from map delr_loop del_loop].
    set (a := - (v0 + Z.of_nat (length pre))).
    set (r := map Z.opp (lits_from (v0 + Z.of_nat (length pre) + 1) (length S2))).
    assert (Hr : forall i x, nth_error r i = Some x ->
                   x = - (v0 + Z.of_nat (length pre) + 1 + Z.of_nat i))
      by (intros i x; apply nth_error_lits_from).
    assert (Hrl : length r = length S2)
      by (unfold r; rewrite map_length; apply lits_from_length).
    assert (Hsel : select (map enforced (pre ++ - a :: r)) cs
                   = select (map enforced pre) S1 ++ S2).
    { rewrite HS, map_app. rewrite select_app by (rewrite map_length; exact Hlen). f_equal.
      cbn [map select]. replace (enforced (- a)) with false.
      - apply select_all_true.
        + apply enforced_rest. unfold v0. lia.
        + rewrite map_length. exact Hrl.
      - unfold a, enforced. rewrite Z.opp_involutive. symmetry. apply negb_false_iff.
        apply Z.ltb_lt. unfold v0. lia. }
    assert (Hb : sat (n + length cs) (relax_from v0 cs ++ units_of (pre ++ - a :: r))
                 = sat n (select (map enforced pre) S1 ++ S2)).
    { assert (Hiff : Satisfiable (n + length cs) (relax_from v0 cs ++ units_of (pre ++ - a :: r))
                     <-> Satisfiable n (select (map enforced pre) S1 ++ S2)).
      { rewrite <- Hsel. apply relax_sat_iff; auto.
        - rewrite HS, !app_length. cbn [length]. clear - Hlen Hrl. unfold cnf, clause, lit in *. lia.
        - apply shape_app; auto. left. unfold a. lia. }
      rewrite <- !sat_ok in Hiff.
      destruct (sat (n + length cs) _), (sat n _); auto; destruct Hiff as [H1 H2];
        try (symmetry; apply H1; reflexivity); try (apply H2; reflexivity). }
    rewrite Hb. destruct (sat n (select (map enforced pre) S1 ++ S2)).
    + specialize (IH (S1 ++ [c]) (pre ++ [a]) cs).
      replace (v0 + Z.of_nat (length (pre ++ [a]))) with (v0 + Z.of_nat (length pre) + 1) in IH
        by (rewrite app_length; simpl; lia).
      fold r in IH.
      transitivity (del_loop n sat (select (map enforced (pre ++ [a])) (S1 ++ [c])) S2); [apply IH|].
      5: { rewrite map_app, select_app by (rewrite map_length; exact Hlen). cbn [map select].
        replace (enforced a) with true; [reflexivity|].
        unfold a, enforced. symmetry. apply negb_true_iff. apply Z.ltb_ge. unfold v0. lia. }
      * rewrite HS, <- app_assoc. reflexivity.
      * rewrite !app_length. simpl. lia.
      * intros i x Hx. destruct (lt_dec i (length pre)) as [Hlt|Hge].
        -- rewrite nth_error_app1 in Hx by exact Hlt. apply Hsh. exact Hx.
        -- rewrite nth_error_app2 in Hx by lia.
           destruct (i - length pre)%nat as [|j] eqn:Ej; simpl in Hx; [|destruct j; discriminate].
           inversion Hx; subst x. right. unfold a. f_equal. f_equal. lia.
      * exact Hin.
    + specialize (IH (S1 ++ [c]) (pre ++ [- a]) cs).
      replace (v0 + Z.of_nat (length (pre ++ [- a]))) with (v0 + Z.of_nat (length pre) + 1) in IH
        by (rewrite app_length; simpl; lia).
      fold r in IH.
      transitivity (del_loop n sat (select (map enforced (pre ++ [- a])) (S1 ++ [c])) S2); [apply IH|].
      5: { rewrite map_app, select_app by (rewrite map_length; exact Hlen). cbn [map select].
        replace (enforced (- a)) with false; [rewrite app_nil_r; reflexivity|].
        unfold a, enforced. rewrite Z.opp_involutive. symmetry. apply negb_false_iff.
        apply Z.ltb_lt. unfold v0. lia. }
      * rewrite HS, <- app_assoc. reflexivity.
      * rewrite !app_length. simpl. lia.
      * intros i x Hx. destruct (lt_dec i (length pre)) as [Hlt|Hge].
        -- rewrite nth_error_app1 in Hx by exact Hlt. apply Hsh. exact Hx.
        -- rewrite nth_error_app2 in Hx by lia.
           destruct (i - length pre)%nat as [|j] eqn:Ej; simpl in Hx; [|destruct j; discriminate].
           inversion Hx; subst x. left. unfold a. rewrite Z.opp_involutive. f_equal. f_equal. lia.
      * exact Hin.
Qed.

Variable subset : cnf -> option cnf.

Theorem mus_deletion_relax_eq : forall f,
  (forall s, subset f = Some s -> cnf_in n s) ->
  mus_deletion_relax n sat subset f = mus_deletion n sat subset f.
Proof.
  intros f Hs. unfold mus_deletion_relax, mus_deletion. destruct (subset f) as [s|] eqn:E; [|reflexivity].
  f_equal. pose proof (delr_sim s [] [] s eq_refl eq_refl) as H. cbn [length] in H.
  replace (v0 + Z.of_nat 0) with v0 in H by lia. apply H; [|auto].
  intros i a Hi. destruct i; discriminate.
Qed.

End Relax.

Theorem mus_deletion_relax_ref_eq : forall n f, cnf_in n f ->
  mus_deletion_relax_ref n f = mus_deletion_ref n f.
Proof.
  intros n f Hin. unfold mus_deletion_relax_ref, mus_deletion_ref.
  apply mus_deletion_relax_eq; [apply sat_ref_ok|].
  intros s H. unfold subset_ref in H. destruct (sat_ref n f); inversion H; subst. exact Hin.
Qed.

(* ================================================================== *)
(* 6. The non-minimality of the old MUSMaxSat does not depend on which   *)
(*    optimum the MaxSAT oracle returns                                 *)

Lemma len2_cases : forall m : list bool, length m = 2%nat ->
  m = [true; true] \/ m = [true; false] \/ m = [false; true] \/ m = [false; false].
Proof.
  intros [|a [|b [|c r]]] H; try discriminate. destruct a, b; auto.
Qed.

Lemma maxsat_loop_step : forall n mr f st mus,
  maxsat_loop n mr (S f) st mus =
  match mr n (hard_of st) (soft_of st) with
  | None => MusOk mus
  | Some m =>
    if forallb (sat_clause m) (soft_of st) then MusErr
    else let (st', add) := mark_violated m st in maxsat_loop n mr f st' (mus ++ add)
  end.
Proof. reflexivity. Qed.

Definition not_mus_res (n : nat) (f : cnf) (r : mus_res) : Prop :=
  match r with MusOk s => is_musb n f s = false | _ => False end.

Ltac maxsat_step mr Hok :=
  rewrite maxsat_loop_step;
  match goal with
  | |- context [mr 2%nat ?h ?s] =>
    let h' := eval vm_compute in h in
    let s' := eval vm_compute in s in
    change h with h'; change s with s';
    let H := fresh "H" in let HL := fresh "HL" in let HH := fresh "HH" in
    let m := fresh "m" in
    pose proof (Hok h' s') as H;
    destruct (mr 2%nat h' s') as [m|];
    [ destruct H as [HL [HH _]];
      destruct (len2_cases m HL) as [->|[->|[->| ->]]];
      vm_compute in HH; try discriminate HH; clear HL HH;
      match goal with
      | |- context [forallb ?f ?l] =>
        let b := eval vm_compute in (forallb f l) in change (forallb f l) with b
      end;
      cbv iota;
      match goal with
      | |- context [mark_violated ?m0 ?st] =>
        let r := eval vm_compute in (mark_violated m0 st) in change (mark_violated m0 st) with r
      end;
      cbv iota beta; cbn [app]
    | try (exfalso; apply H;
           first [ exists [true; true]; split; reflexivity
                 | exists [true; false]; split; reflexivity
                 | exists [false; true]; split; reflexivity
                 | exists [false; false]; split; reflexivity ]) ]
  end.

Lemma mus_maxsat_old_any_oracle_aux : forall minrelax,
  (forall hard soft,
    match minrelax 2%nat hard soft with
    | Some m => length m = 2%nat /\ sat_cnf m hard = true /\
                forall m', length m' = 2%nat -> sat_cnf m' hard = true -> viol m soft <= viol m' soft
    | None => ~ Satisfiable 2 hard
    end) ->
  not_mus_res 2 F_two_cores (mus_maxsat_old 2 minrelax F_two_cores).
Proof.
  intros mr Hok. unfold mus_maxsat_old, mus_maxsat_gather, F_two_cores. cbn [length map].
  maxsat_step mr Hok; maxsat_step mr Hok; maxsat_step mr Hok.
  all: vm_compute; reflexivity.
Qed.

Theorem mus_maxsat_old_refuted_any_oracle : forall minrelax,
  (forall hard soft,
    match minrelax 2%nat hard soft with
    | Some m => length m = 2%nat /\ sat_cnf m hard = true /\
                forall m', length m' = 2%nat -> sat_cnf m' hard = true -> viol m soft <= viol m' soft
    | None => ~ Satisfiable 2 hard
    end) ->
  ~ Satisfiable 2 F_two_cores /\
  exists s, mus_maxsat_old 2 minrelax F_two_cores = MusOk s /\ ~ is_mus 2 F_two_cores s.
Proof.
  intros mr Hok. split; [apply unsat_by_dec; vm_compute; reflexivity|].
  pose proof (mus_maxsat_old_any_oracle_aux mr Hok) as H.
  destruct (mus_maxsat_old 2 mr F_two_cores) as [s| | |]; simpl in H; try contradiction.
  exists s. split; [reflexivity|]. intros Hm. apply is_musb_spec in Hm. congruence.
Qed.
