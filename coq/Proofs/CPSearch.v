(* Proofs about Model/CPSearch.v: the trail walk of the cutting-planes strategy
   (solver/learn_pb.go, cuttingPlanes), property C14.

   THE CURRENT CODE (commit 0a73d0f; cp_loop, cp_finish, cutting_planes):
   - cp_sound: the learned constraint, or the units, are consequences of the
     problem, and an Unsat answer means that the problem has no model;
   - cp_total: one call terminates within the fuel, without panic, and returns
     one of its three shapes;
   - cp_fixed_witnesses: the answers on the three regression states below.

   THE CODE BEFORE 2aa45b5 (cp_loop_old, cutting_planes_old) and its DIAGNOSIS
   (line numbers of that version).  Three lines were wrong; all three concern
   [lvl], which the loop uses as "the decision level of s.trail[ptr]".

   (D1) lines 131-134   if reason == nil { lvl--; continue }
        The literal at [ptr] falsifies pb and is a decision of level L.  All the
        literals above it have been un-assigned, so it is the ONLY falsified
        literal of level L: pb is asserting and must be learned.  Instead lvl
        becomes L-1 while the literal (level L) is still assigned and still
        falsified.  The next test onlyFalsified(ptr, L-1) stops at once on the
        level mismatch and answers -1 ("none or several"), the same literal is
        found again, lvl-- again, ... down to lvl == 1, which line 114 takes for
        a top-level conflict: (nil, nil, -1), the caller calls setUnsat().
        Broken invariant: "lvl = |s.model[s.trail[ptr].Var()]|", and with it
        "lvl == 1 only if every assigned literal is a top-level literal".
        This happens as soon as a clash leaves a constraint without falsified
        literal at the conflict level (possible with cardinality/PB reasons,
        never with clauses): [cp_old_unsat_refuted] below, wrong UNSAT.
   (D2) lines 117-126   for !pb.falsifies(lit) { ...; ptr--; lit = s.trail[ptr] }
        no test ptr >= 0.  When the clashes have produced a constraint that no
        trail literal falsifies (it is then false under the empty assignment:
        the problem is unsatisfiable, e.g. 0 >= 1) the walk runs off the trail:
        panic index out of range [-1]: [cp_old_panic_refuted].
   (D3) lines 119-121   if s.reason[lit.Var()] == nil { lvl-- }
        counts nil reasons to track the level; top-level units (level 1) also
        have a nil reason, so passing them makes lvl 0, -1, ...; then neither
        "lvl == 1" nor "|model| == lvl" can ever hold again and, if a top-level
        unit falsifies pb, lines 131-134 decrement lvl for ever: [cp_old_diverges].
   Even so every constraint handed back by the old code was a consequence of
   the conflict constraint and the reasons: [cp_old_sound].

   THE REPAIR (2aa45b5): "if ptr < 0 { return nil, nil, -1 }" in the walk (D2),
   "lvl = abs(s.model[v])" after the walk instead of counting nil reasons (D3),
   and "if reason == nil { continue }" without lvl-- (D1).

   REPAIRED BY 0a73d0f (caller level): before it, when SimplifyPB yielded units,
   cuttingPlanes returned (nil, units, 1) even when every unit was already a
   level-1 fact, the residual learned constraint was dropped, the caller pushed
   the unit again, and the search could repeat the same conflicts for ever.  Now
   the whole (asserting) constraint is learned in that case (cp_finish; the
   earlier end of the function is cp_finish_v1) and the caller skips units that
   are already facts.  The whole-run statements, including the progress
   property and the old cycle, are in Properties/C14c.v.  The theorems here are
   about ONE call of cuttingPlanes. *)
From Coq Require Import List ZArith Lia Bool ZifyBool Permutation.
From GS Require Import Spec.Base Spec.PB Model.PBNorm Model.CP Model.CPSearch.
From GS Require Proofs.PBNorm.
From GS Require Import Proofs.CP.
Import ListNotations.
Open Scope Z_scope.

Ltac Zify.zify_post_hook ::= Z.to_euclidean_division_equations.

Ltac bcases :=
  repeat match goal with
  | |- context [?x =? ?y] => destruct (Z.eqb_spec x y)
  | |- context [?x <? ?y] => destruct (Z.ltb_spec x y)
  end.

(* ------------------------------------------------------------------ *)
(* Lengths                                                              *)

Lemma fold_set_nth_length : forall (ts : list term) (f : term -> nat) (g : term -> Z) ws,
  List.length (fold_left (fun w t => set_nth (f t) (g t) w) ts ws) = List.length ws.
Proof.
  induction ts as [|t ts IH]; intros f g ws; cbn [fold_left]; [reflexivity|].
  rewrite IH. apply set_nth_length.
Qed.

Lemma pbset_of_length : forall n c, List.length (fst (pbset_of n c)) = n.
Proof.
  intros n c. unfold pbset_of. cbn [fst].
  rewrite (fold_set_nth_length (terms c)
             (fun t => Z.to_nat (Z.abs (snd t) - 1))
             (fun t => if 0 <? snd t then fst t else - fst t)).
  apply repeat_length.
Qed.

Lemma clash_ws_length : forall w1 w2 w k, clash_ws w1 w2 = (w, k) -> List.length w = List.length w1.
Proof.
  induction w1 as [|a r1 IH]; intros w2 w k H; cbn [clash_ws] in H.
  - injection H as <- <-. reflexivity.
  - destruct (clash_ws r1 (tl w2)) as [r k'] eqn:E. injection H as <- <-.
    cbn [List.length]. f_equal. exact (IH _ _ _ E).
Qed.

Lemma clash_length : forall a b, List.length (fst (clash a b)) = List.length (fst a).
Proof.
  intros [wa da] [wb db]. unfold clash. cbn [fst snd].
  destruct (clash_ws wa wb) as [w k] eqn:E. cbn [fst]. exact (clash_ws_length _ _ _ _ E).
Qed.

Lemma weaken_ws_length : forall wi ws assign w k,
  weaken_ws wi assign ws = (w, k) -> List.length w = List.length ws.
Proof.
  intros wi ws. induction ws as [|wj r IH]; intros assign w k H; cbn [weaken_ws] in H.
  - injection H as <- <-. reflexivity.
  - destruct (weaken_ws wi (tl assign) r) as [r' k'] eqn:E. specialize (IH _ _ _ E).
    destruct (wj =? 0); [injection H as <- <-; cbn [List.length]; congruence|].
    destruct (negb (Z.rem wj wi =? 0) && not_falsified (hd 0 assign) wj);
      injection H as <- <-; cbn [List.length]; congruence.
Qed.

Lemma round_length : forall md v s s',
  round_to_one md v s = Some s' -> List.length (fst s') = List.length (fst s).
Proof.
  intros md v [ws d] s' H. unfold round_to_one in H. cbn [fst snd] in *.
  destruct (Z.abs (nth v ws 0) =? 1); [injection H as <-; reflexivity|].
  destruct (Z.abs (nth v ws 0) =? 0); [discriminate|]. injection H as <-.
  unfold divide_by, weaken_round. cbn [fst snd].
  destruct (weaken_ws (Z.abs (nth v ws 0)) md ws) as [w k] eqn:E. cbn [fst].
  rewrite map_length. exact (weaken_ws_length _ _ _ _ _ E).
Qed.

(* ------------------------------------------------------------------ *)
(* The sum of the non-falsified weights                                 *)

Definition nf (a w : Z) : Z :=
  if w =? 0 then 0 else if not_falsified a w then Z.abs w else 0.

Lemma nfsum_cons : forall assign w r,
  nfsum assign (w :: r) = nf (hd 0 assign) w + nfsum (tl assign) r.
Proof. reflexivity. Qed.

Lemma nfsum_hd_tl : forall assign ws,
  nfsum assign ws = nf (hd 0 assign) (hd 0 ws) + nfsum (tl assign) (tl ws).
Proof. intros assign [|w r]; reflexivity. Qed.

Lemma nf_nonneg : forall a w, 0 <= nf a w.
Proof. intros a w. unfold nf. destruct (w =? 0); [lia|]. destruct (not_falsified a w); lia. Qed.

Lemma nfsum_nonneg : forall ws assign, 0 <= nfsum assign ws.
Proof.
  induction ws as [|w r IH]; intros assign; [cbn; lia|].
  rewrite nfsum_cons. pose proof (nf_nonneg (hd 0 assign) w). specialize (IH (tl assign)). lia.
Qed.

Lemma hd_tl_nth : forall (j : nat) (l : list Z), nth (S j) l 0 = nth j (tl l) 0.
Proof. intros j [|x l]; [destruct j; reflexivity|reflexivity]. Qed.

Lemma hd_nth : forall (l : list Z), nth 0 l 0 = hd 0 l.
Proof. intros [|x l]; reflexivity. Qed.

(* a non-falsified literal contributes its weight *)
Lemma nfsum_ge_nth : forall ws assign j,
  nth j ws 0 <> 0 -> not_falsified (nth j assign 0) (nth j ws 0) = true ->
  Z.abs (nth j ws 0) <= nfsum assign ws.
Proof.
  induction ws as [|w r IH]; intros assign j Hz Hn.
  - destruct j; cbn in Hz; lia.
  - rewrite nfsum_cons. pose proof (nfsum_nonneg r (tl assign)) as Hr.
    pose proof (nf_nonneg (hd 0 assign) w) as Hw.
    destruct j as [|j].
    + cbn [nth] in Hz, Hn. rewrite hd_nth in Hn. unfold nf.
      destruct (Z.eqb_spec w 0); [lia|]. rewrite Hn. cbn [nth]. lia.
    + cbn [nth] in Hz |- *. rewrite hd_tl_nth in Hn. cbn [nth] in Hn.
      specialize (IH (tl assign) j Hz Hn). lia.
Qed.

(* un-assigning a variable whose literal in ws is absent or not falsified *)
Lemma nfsum_zero_at : forall ws md j,
  nth j ws 0 = 0 \/ not_falsified (nth j md 0) (nth j ws 0) = true ->
  nfsum (set_nth j 0 md) ws = nfsum md ws.
Proof.
  induction ws as [|w r IH]; intros md j H; [reflexivity|].
  destruct md as [|a m]; [reflexivity|].
  destruct j as [|j]; cbn [set_nth]; rewrite !nfsum_cons; cbn [hd tl].
  - f_equal. cbn [nth] in H. unfold nf, not_falsified in *.
    destruct (Z.eqb_spec w 0); [reflexivity|]. destruct H as [H|H]; [lia|].
    rewrite H. reflexivity.
  - f_equal. apply IH. exact H.
Qed.

(* ------------------------------------------------------------------ *)
(* roundToOne keeps a conflicting constraint conflicting                *)

(* every non-falsified literal has a weight divisible by c *)
Fixpoint nf_div (c : Z) (assign ws : list Z) : Prop :=
  match ws with
  | [] => True
  | w :: r =>
    (w = 0 \/ not_falsified (hd 0 assign) w = false \/ Z.rem w c = 0) /\
    nf_div c (tl assign) r
  end.

Lemma weaken_ws_nfsum : forall wi ws assign w k,
  weaken_ws wi assign ws = (w, k) ->
  nfsum assign w = nfsum assign ws - k /\
  nf_div wi assign w /\
  (forall j, Z.rem (nth j ws 0) wi = 0 -> nth j w 0 = nth j ws 0).
Proof.
  intros wi ws. induction ws as [|wj r IH]; intros assign w k H; cbn [weaken_ws] in H.
  - injection H as <- <-. split; [cbn; lia|]. split; [exact I|]. intros j _. reflexivity.
  - destruct (weaken_ws wi (tl assign) r) as [r' k'] eqn:E.
    destruct (IH _ _ _ E) as [IH1 [IH2 IH3]].
    destruct (Z.eqb_spec wj 0) as [E0|E0].
    + injection H as <- <-. rewrite !nfsum_cons. split; [lia|]. split.
      * cbn [nf_div]. split; [left; exact E0|exact IH2].
      * intros [|j] Hj; cbn [nth] in *; [reflexivity|apply IH3; exact Hj].
    + destruct (Z.eqb_spec (Z.rem wj wi) 0) as [Er|Er]; cbn [negb andb] in H.
      * injection H as <- <-. rewrite !nfsum_cons. split; [lia|]. split.
        -- cbn [nf_div]. split; [right; right; exact Er|exact IH2].
        -- intros [|j] Hj; cbn [nth] in *; [reflexivity|apply IH3; exact Hj].
      * destruct (not_falsified (hd 0 assign) wj) eqn:En.
        -- injection H as <- <-. rewrite !nfsum_cons. split.
           ++ unfold nf. rewrite En. destruct (Z.eqb_spec wj 0); [lia|]. cbn. lia.
           ++ split.
              ** cbn [nf_div]. split; [left; reflexivity|exact IH2].
              ** intros [|j] Hj; cbn [nth] in *; [lia|apply IH3; exact Hj].
        -- injection H as <- <-. rewrite !nfsum_cons. split; [lia|]. split.
           ++ cbn [nf_div]. split; [right; left; exact En|exact IH2].
           ++ intros [|j] Hj; cbn [nth] in *; [reflexivity|apply IH3; exact Hj].
Qed.

Lemma nf_div_w : forall c a w, 0 < c ->
  (w = 0 \/ not_falsified a w = false \/ Z.rem w c = 0) ->
  c * nf a (div_w c w) = nf a w.
Proof.
  intros c a w Hc H. pose proof (div_w_spec c w Hc) as S.
  assert (Hex : Z.rem w c = 0 -> c * div_w c w = w).
  { intros Hr. unfold div_w. destruct (Z.eqb_spec w 0); [lia|].
    rewrite Hr. cbn [Z.eqb]. pose proof (Z.quot_rem' w c). lia. }
  unfold nf, not_falsified in *.
  destruct S as [[S1 S2]|[[S1 [S2 S3]]|[S1 [S2 S3]]]].
  - rewrite S2, S1. cbn. lia.
  - destruct (Z.eqb_spec (div_w c w) 0); [lia|]. destruct (Z.eqb_spec w 0); [lia|].
    destruct (Z.ltb_spec 0 (div_w c w)); [|lia]. destruct (Z.ltb_spec 0 w); [|lia].
    destruct ((a =? 0) || Bool.eqb (0 <? a) true) eqn:En; [|lia].
    destruct H as [H|[H|H]]; [lia|discriminate|]. specialize (Hex H). lia.
  - destruct (Z.eqb_spec (div_w c w) 0); [lia|]. destruct (Z.eqb_spec w 0); [lia|].
    destruct (Z.ltb_spec 0 (div_w c w)); [lia|]. destruct (Z.ltb_spec 0 w); [lia|].
    destruct ((a =? 0) || Bool.eqb (0 <? a) false) eqn:En; [|lia].
    destruct H as [H|[H|H]]; [lia|discriminate|]. specialize (Hex H). lia.
Qed.

Lemma nfsum_divide : forall c ws assign, 0 < c -> nf_div c assign ws ->
  c * nfsum assign (map (div_w c) ws) = nfsum assign ws.
Proof.
  intros c ws. induction ws as [|w r IH]; intros assign Hc H; [cbn; lia|].
  cbn [map]. rewrite !nfsum_cons. cbn [nf_div] in H. destruct H as [H1 H2].
  pose proof (nf_div_w c (hd 0 assign) w Hc H1). specialize (IH (tl assign) Hc H2). lia.
Qed.

Lemma div_card_ge : forall c d, 0 < c -> 0 <= d -> d <= c * div_card c d.
Proof. intros c d Hc Hd. rewrite div_card_ceil by lia. lia. Qed.

(* the constraint being resolved: conflicting before, conflicting after, and
   the side condition of the division holds *)
Lemma round_conflicting : forall md v s s',
  round_to_one md v s = Some s' -> conflicting md s = true ->
  conflicting md s' = true /\ round_ok md v s.
Proof.
  intros md v [ws d] s' H Hc. unfold conflicting in *. unfold round_ok.
  unfold round_to_one in H. cbn [fst snd] in *.
  set (wi := Z.abs (nth v ws 0)) in *.
  unfold weaken_round in *. cbn [fst snd] in *.
  destruct (weaken_ws wi md ws) as [w k] eqn:E. cbn [snd].
  destruct (weaken_ws_nfsum _ _ _ _ _ E) as [W1 [W2 _]].
  pose proof (nfsum_nonneg w md) as Hn.
  apply Z.ltb_lt in Hc.
  destruct (Z.eqb_spec wi 1) as [E1|E1].
  - injection H as <-. cbn [fst snd]. split; [apply Z.ltb_lt; exact Hc|lia].
  - destruct (Z.eqb_spec wi 0) as [E0|E0]; [discriminate|]. injection H as <-.
    assert (Hwi : 0 < wi) by (unfold wi in *; lia).
    split; [|lia].
    unfold divide_by. cbn [fst snd]. apply Z.ltb_lt.
    pose proof (nfsum_divide wi w md Hwi W2) as Hd.
    pose proof (div_card_ge wi (d - k) Hwi ltac:(lia)) as Hg.
    set (S'' := nfsum md (map (div_w wi) w)) in *.
    set (d'' := div_card wi (d - k)) in *. nia.
Qed.

(* the reason of the literal of variable v, which is not false in md, was
   propagating: after rounding its slack is <= 0, and the side condition of the
   division holds *)
Lemma round_reason : forall md v s s',
  round_to_one md v s = Some s' ->
  nth v (fst s) 0 <> 0 -> not_falsified (nth v md 0) (nth v (fst s) 0) = true ->
  nfsum md (fst s) - Z.abs (nth v (fst s) 0) < snd s ->
  nfsum md (fst s') <= snd s' /\ round_ok md v s.
Proof.
  intros md v [ws d] s' H Hz Hnf Hp. unfold round_ok.
  unfold round_to_one in H. cbn [fst snd] in *.
  set (wi := Z.abs (nth v ws 0)) in *.
  unfold weaken_round in *. cbn [fst snd] in *.
  destruct (weaken_ws wi md ws) as [w k] eqn:E. cbn [snd].
  destruct (weaken_ws_nfsum _ _ _ _ _ E) as [W1 [W2 W3]].
  destruct (Z.eqb_spec wi 1) as [E1|E1].
  - injection H as <-. cbn [fst snd]. split; lia.
  - destruct (Z.eqb_spec wi 0) as [E0|E0]; [discriminate|]. injection H as <-.
    assert (Hwi : 0 < wi) by (unfold wi in *; lia).
    assert (Hv : nth v w 0 = nth v ws 0).
    { apply W3. unfold wi. destruct (Z.abs_spec (nth v ws 0)) as [[_ ->]|[_ ->]].
      - apply Z.rem_same. lia.
      - rewrite Z.rem_opp_r by lia. apply Z.rem_same. lia. }
    assert (Hge : wi <= nfsum md w).
    { unfold wi. rewrite <- Hv. apply nfsum_ge_nth; rewrite Hv; assumption. }
    split; [|lia].
    unfold divide_by. cbn [fst snd].
    pose proof (nfsum_divide wi w md Hwi W2) as Hd.
    pose proof (div_card_ge wi (d - k) Hwi ltac:(lia)) as Hg.
    set (S'' := nfsum md (map (div_w wi) w)) in *.
    set (d'' := div_card wi (d - k)) in *. nia.
Qed.

(* ------------------------------------------------------------------ *)
(* clash: the slack of the sum is at most the sum of the slacks         *)

Lemma nf_add : forall a x y,
  nf a (x + y) + (if x * y <? 0 then Z.min (Z.abs x) (Z.abs y) else 0) <= nf a x + nf a y.
Proof.
  intros a x y. destruct (Z.ltb_spec (x * y) 0) as [H|H].
  - apply Z.lt_mul_0 in H. unfold nf, not_falsified.
    destruct (Z.eqb_spec a 0); cbn [orb]; bcases; cbn [Bool.eqb]; lia.
  - assert (H' : ~ (x < 0 < y \/ 0 < x /\ y < 0)) by (rewrite <- Z.lt_mul_0; lia).
    unfold nf, not_falsified.
    destruct (Z.eqb_spec a 0); cbn [orb]; bcases; cbn [Bool.eqb]; lia.
Qed.

Lemma clash_ws_nfsum : forall md w1 w2 w k, clash_ws w1 w2 = (w, k) ->
  nfsum md w + k <= nfsum md w1 + nfsum md w2.
Proof.
  intros md w1. revert md. induction w1 as [|a r1 IH]; intros md w2 w k H; cbn [clash_ws] in H.
  - injection H as <- <-. pose proof (nfsum_nonneg w2 md). cbn [nfsum]. lia.
  - destruct (clash_ws r1 (tl w2)) as [r k'] eqn:E. injection H as <- <-.
    specialize (IH (tl md) (tl w2) r k' E).
    rewrite (nfsum_hd_tl md w2). rewrite !nfsum_cons.
    pose proof (nf_add (hd 0 md) a (hd 0 w2)). lia.
Qed.

Lemma clash_conflicting : forall md a b,
  conflicting md a = true -> nfsum md (fst b) <= snd b -> conflicting md (clash a b) = true.
Proof.
  intros md [wa da] [wb db] Ha Hb. unfold conflicting, clash in *. cbn [fst snd] in *.
  destruct (clash_ws wa wb) as [w k] eqn:E. cbn [fst snd].
  pose proof (clash_ws_nfsum md _ _ _ _ E). apply Z.ltb_lt in Ha. apply Z.ltb_lt. lia.
Qed.

(* ------------------------------------------------------------------ *)
(* the walk                                                             *)

Lemma not_falsifies_nf : forall pb md l,
  falsifies pb l = false -> trail_lit_okb md l = true ->
  nth (vidx l) (fst pb) 0 = 0 \/
  not_falsified (nth (vidx l) md 0) (nth (vidx l) (fst pb) 0) = true.
Proof.
  intros pb md l Hf Ht. unfold falsifies in Hf. unfold trail_lit_okb, model_at in Ht.
  fold (vidx l) in Hf. set (w := nth (vidx l) (fst pb) 0) in *.
  set (a := nth (vidx l) md 0) in *.
  destruct (Z.eqb_spec w 0) as [E|E]; [left; exact E|right].
  unfold not_falsified.
  destruct (Z.eqb_spec a 0) as [Ea|Ea]; [reflexivity|]. cbn [orb] in *.
  destruct (Z.ltb_spec w 0); destruct (Z.ltb_spec 0 l); cbn [Bool.eqb] in Hf; try discriminate;
    destruct (Z.ltb_spec 0 a); cbn [Bool.eqb] in Ht; try discriminate;
    destruct (Z.ltb_spec 0 w); cbn [Bool.eqb]; try reflexivity; lia.
Qed.

Section Sound.

Variable n : nat.
Variable P : problem.
Variable rs : list (option pbc).
Hypothesis HP : forall i c, nth i rs None = Some c -> In c P.

Definition Inv (pb : pbset) (md : list Z) (rt : list lit) : Prop :=
  derivable n P pb /\ List.length (fst pb) = n /\
  conflicting md pb = true /\ reasons_wfb n rs md rt = true.

Lemma walk_old_inv : forall pb rt md lvl md' l r lvl',
  Inv pb md rt -> walk_old pb rs md lvl rt = WOStop md' l r lvl' ->
  Inv pb md' (l :: r) /\ falsifies pb l = true.
Proof.
  intros pb rt. induction rt as [|x rt IH]; intros md lvl md' l r lvl' HI H; cbn [walk_old] in H.
  - discriminate.
  - destruct (falsifies pb x) eqn:Ef.
    + injection H as <- <- <- <-. split; [exact HI|exact Ef].
    + destruct HI as [HD [HL [HC HR]]]. cbn [reasons_wfb] in HR.
      apply andb_true_iff in HR. destruct HR as [HR HR3].
      apply andb_true_iff in HR. destruct HR as [HR1 HR2].
      apply (IH _ _ _ _ _ _ ) with (2 := H).
      split; [exact HD|]. split; [exact HL|]. split; [|exact HR3].
      unfold conflicting in *.
      rewrite nfsum_zero_at; [exact HC|]. apply not_falsifies_nf; assumption.
Qed.

(* what the result promises *)
Definition res_sound (r : result) : Prop :=
  match r with
  | CPLearn c _ _ => forall m : model, sat_problem m P = true -> sat_pbc m c = true
  | CPUnits us => forall m : model, sat_problem m P = true -> forallb (lit_val m) us = true
  | _ => True
  end.

Lemma set_terms_nonneg : forall ws v, nonneg_terms (set_terms v ws) = true.
Proof.
  induction ws as [|w r IH]; intros v; cbn [set_terms]; [reflexivity|].
  destruct (Z.eqb_spec w 0); [apply IH|].
  unfold nonneg_terms in *. cbn [forallb]. rewrite IH. rewrite andb_true_r.
  destruct (Z.ltb_spec w 0); cbn [fst]; apply Z.leb_le; lia.
Qed.

(* the same with the verdict: sound for the answers of cp_finish, NOT for the
   "lvl == 1" exit of the loop before 2aa45b5 *)
Definition res_sound2 (r : result) : Prop :=
  match r with
  | CPLearn c _ _ => forall m : model, sat_problem m P = true -> sat_pbc m c = true
  | CPUnits us => forall m : model, sat_problem m P = true -> forallb (lit_val m) us = true
  | CPUnsat => forall m : model, sat_problem m P = false
  | _ => True
  end.

Lemma res_sound2_weaken : forall r, res_sound2 r -> res_sound r.
Proof. intros [| | | |us|c props l] H; try exact I; exact H. Qed.

Lemma finish_v1_sound2 : forall pb md u,
  derivable n P pb -> conflicting md pb = true -> res_sound2 (cp_finish_v1 pb md u).
Proof.
  intros pb md u HD HC. unfold cp_finish_v1.
  destruct (round_to_one md (vidx u) pb) as [pb'|] eqn:Er; [|exact I].
  destruct (round_conflicting _ _ _ _ Er HC) as [_ Hok].
  assert (HD' : derivable n P pb') by (eapply D_round; eassumption).
  destruct (snd pb' <? 1); [exact I|].
  set (C := PBC (sort_terms (set_terms 1 (fst pb'))) (snd pb')).
  assert (HnC : nonneg_terms (terms C) = true).
  { unfold C. cbn [terms].
    rewrite (Proofs.PBNorm.nonneg_terms_perm _ _ (Proofs.PBNorm.sort_terms_perm _)).
    apply set_terms_nonneg. }
  assert (HsC : forall m : model, sat_problem m P = true -> sat_pbc m C = true).
  { intros m Hm. unfold C. rewrite Proofs.PBNorm.sort_terms_sat.
    exact (derivable_sound n P pb' HD' m Hm). }
  pose proof (Proofs.PBNorm.simplify_pb_sound C HnC) as Hs.
  destruct (simplify_pb C) as [[us rest]|].
  - destruct us as [|u0 us].
    + destruct rest as [c|]; [|exact I]. cbn [res_sound2]. intros m Hm.
      specialize (HsC m Hm). rewrite Hs in HsC. cbn [forallb andb] in HsC. exact HsC.
    + cbn [res_sound2]. intros m Hm. specialize (HsC m Hm). rewrite Hs in HsC.
      apply andb_true_iff in HsC. exact (proj1 HsC).
  - cbn [res_sound2]. intros m. destruct (sat_problem m P) eqn:Em; [|reflexivity].
    specialize (HsC m Em). rewrite Hs in HsC. discriminate.
Qed.

Lemma finish_v1_sound : forall pb md u,
  derivable n P pb -> conflicting md pb = true -> res_sound (cp_finish_v1 pb md u).
Proof. intros pb md u HD HC. apply res_sound2_weaken. apply finish_v1_sound2; assumption. Qed.

Lemma finish_sound2 : forall pb md u,
  derivable n P pb -> conflicting md pb = true -> res_sound2 (cp_finish pb md u).
Proof.
  intros pb md u HD HC. unfold cp_finish.
  destruct (round_to_one md (vidx u) pb) as [pb'|] eqn:Er; [|exact I].
  destruct (round_conflicting _ _ _ _ Er HC) as [_ Hok].
  assert (HD' : derivable n P pb') by (eapply D_round; eassumption).
  destruct (snd pb' <? 1); [exact I|]. cbv zeta.
  set (C := PBC (sort_terms (set_terms 1 (fst pb'))) (snd pb')).
  assert (HnC : nonneg_terms (terms C) = true).
  { unfold C. cbn [terms].
    rewrite (Proofs.PBNorm.nonneg_terms_perm _ _ (Proofs.PBNorm.sort_terms_perm _)).
    apply set_terms_nonneg. }
  assert (HsC : forall m : model, sat_problem m P = true -> sat_pbc m C = true).
  { intros m Hm. unfold C. rewrite Proofs.PBNorm.sort_terms_sat.
    exact (derivable_sound n P pb' HD' m Hm). }
  pose proof (Proofs.PBNorm.simplify_pb_sound C HnC) as Hs.
  destruct (simplify_pb C) as [[us rest]|].
  - destruct (forallb (is_fact md) us).
    + destruct us as [|u0 us].
      * destruct rest as [c|]; [|exact I]. cbn [res_sound2]. intros m Hm.
        specialize (HsC m Hm). rewrite Hs in HsC. cbn [forallb andb] in HsC. exact HsC.
      * cbn [res_sound2]. exact HsC.
    + cbn [res_sound2]. intros m Hm. specialize (HsC m Hm). rewrite Hs in HsC.
      apply andb_true_iff in HsC. exact (proj1 HsC).
  - cbn [res_sound2]. intros m. destruct (sat_problem m P) eqn:Em; [|reflexivity].
    specialize (HsC m Em). rewrite Hs in HsC. discriminate.
Qed.

Lemma loop_old_sound : forall fuel pb md rt lvl,
  Inv pb md rt -> res_sound (fst (cp_loop_old fuel n rs pb md rt lvl)).
Proof.
  induction fuel as [|f IH]; intros pb md rt lvl HI; cbn [cp_loop_old]; [exact I|].
  destruct (only_falsified pb md lvl rt None) as [u|].
  - cbn [fst]. destruct HI as [HD [_ [HC _]]]. apply finish_v1_sound; assumption.
  - destruct (lvl =? 1); [exact I|].
    destruct (walk_old pb rs md lvl rt) as [|md' l r lvl'] eqn:Ew; [exact I|].
    destruct (walk_old_inv _ _ _ _ _ _ _ _ HI Ew) as [[HD [HL [HC HR]]] Hf].
    destruct (round_to_one md' (vidx l) pb) as [pb1|] eqn:E1; [|exact I].
    destruct (round_conflicting _ _ _ _ E1 HC) as [HC1 Hok1].
    assert (HD1 : derivable n P pb1) by (eapply D_round; eassumption).
    assert (HL1 : List.length (fst pb1) = n) by (rewrite (round_length _ _ _ _ E1); exact HL).
    destruct (reason_at rs l) as [c|] eqn:Ec.
    + destruct (round_to_one md' (vidx l) (pbset_of n c)) as [pb2|] eqn:E2; [|exact I].
      assert (HR' := HR). cbn [reasons_wfb] in HR'. rewrite Ec in HR'.
      apply andb_true_iff in HR'. destruct HR' as [HR' _].
      apply andb_true_iff in HR'. destruct HR' as [_ Hrk].
      unfold reason_okb in Hrk.
      apply andb_true_iff in Hrk. destruct Hrk as [Hrk H4].
      apply andb_true_iff in Hrk. destruct Hrk as [Hrk H3].
      apply andb_true_iff in Hrk. destruct Hrk as [H1 H2].
      apply negb_true_iff in H2. apply Z.eqb_neq in H2. apply Z.ltb_lt in H4.
      unfold model_at in H3.
      destruct (round_reason _ _ _ _ E2 H2 H3 H4) as [Hs2 Hok2].
      assert (HDc : derivable n P (pbset_of n c)).
      { apply D_axiom; [|exact H1]. apply (HP (vidx l)). exact Ec. }
      assert (HD2 : derivable n P pb2) by (eapply D_round; eassumption).
      assert (HL2 : List.length (fst pb2) = n)
        by (rewrite (round_length _ _ _ _ E2); apply pbset_of_length).
      apply IH. split; [|split; [|split]].
      * apply D_clash; [exact HD1|exact HD2|lia].
      * rewrite clash_length. exact HL1.
      * apply clash_conflicting; assumption.
      * exact HR.
    + apply IH. split; [exact HD1|]. split; [exact HL1|]. split; [exact HC1|exact HR].
Qed.

End Sound.

(* The code BEFORE commit 2aa45b5 (true part of C14 for it): whatever cuttingPlanes hands
   back -- a learned constraint or top-level units -- is satisfied by every
   model of any problem P that contains the conflict constraint and the
   reasons.  Side conditions, all in [state_wfb] (decidable, and implied by
   "the state was produced by sound propagation", cf. the Examples):
   - the conflict constraint and the reasons are well formed (pbc_ok: distinct
     variables in 1..n, weights >= 0) -- needed by C14_pbset_roundtrip;
   - the conflict constraint is falsified by the assignment;
   - every trail literal is true in s.model, and every reason contains its
     literal and propagated it (slack < weight) under the assignment of the
     trail up to that literal.
   From these the proof ESTABLISHES (not assumes) the side conditions of the
   rules of Proofs/CP.v at every step: round_ok for each roundToOne
   (round_conflicting, round_reason) and the length condition of clash. *)
Theorem cp_old_sound : forall (P : problem) (st : state),
  state_wfb st = true ->
  In (st_confl st) P ->
  (forall i c, nth i (st_reason st) None = Some c -> In c P) ->
  match cutting_planes_old st with
  | CPLearn c _ _ => forall m : model, sat_problem m P = true -> sat_pbc m c = true
  | CPUnits us => forall m : model, sat_problem m P = true -> forallb (lit_val m) us = true
  | _ => True
  end.
Proof.
  intros P st Hwf Hc Hr. unfold state_wfb in Hwf.
  apply andb_true_iff in Hwf. destruct Hwf as [Hwf H3].
  apply andb_true_iff in Hwf. destruct Hwf as [H1 H2].
  unfold cutting_planes_old, cutting_planes_old_full.
  apply (loop_old_sound (st_n st) P (st_reason st) Hr).
  split; [|split; [|split]].
  - apply D_axiom; assumption.
  - apply pbset_of_length.
  - exact H2.
  - exact H3.
Qed.

(* the problem made of the conflict constraint and the reasons *)
Definition st_problem (st : state) : problem :=
  st_confl st :: flat_map (fun o : option pbc => match o with Some c => [c] | None => [] end)
                          (st_reason st).

Lemma st_problem_reasons : forall (st : state) i c,
  nth i (st_reason st) None = Some c -> In c (st_problem st).
Proof.
  intros st i c H. right. apply in_flat_map. exists (Some c). split; [|left; reflexivity].
  rewrite <- H. apply nth_In.
  destruct (Nat.lt_ge_cases i (List.length (st_reason st))) as [L|L]; [exact L|].
  rewrite nth_overflow in H by exact L. discriminate.
Qed.

Theorem cp_old_sound_self : forall st : state,
  state_wfb st = true ->
  match cutting_planes_old st with
  | CPLearn c _ _ => forall m : model, sat_problem m (st_problem st) = true -> sat_pbc m c = true
  | CPUnits us => forall m : model, sat_problem m (st_problem st) = true -> forallb (lit_val m) us = true
  | _ => True
  end.
Proof.
  intros st Hwf. apply cp_old_sound; [exact Hwf|left; reflexivity|].
  intros i c H. right. apply in_flat_map. exists (Some c). split; [|left; reflexivity].
  rewrite <- H. apply nth_In.
  destruct (Nat.lt_ge_cases i (List.length (st_reason st))) as [L|L]; [exact L|].
  rewrite nth_overflow in H by exact L. discriminate.
Qed.

(* ------------------------------------------------------------------ *)
(* The current loop (after 2aa45b5): same guarantee, and the Unsat verdict. *)

Lemma nth_set_nth_zero : forall (ws : list Z) k, nth k (set_nth k 0 ws) 0 = 0.
Proof.
  induction ws as [|w r IH]; intros k; [destruct k; reflexivity|].
  destruct k as [|k]; cbn [set_nth nth]; [reflexivity|apply IH].
Qed.

(* a model that agrees with the assignment cannot do better than nfsum *)
Lemma lhs_le_nfsum : forall (m : model) ws md v,
  (forall j, nth j md 0 <> 0 -> var_val m (v + Z.of_nat j) = (0 <? nth j md 0)) ->
  set_lhs m v ws <= nfsum md ws.
Proof.
  intros m ws. induction ws as [|w r IH]; intros md v H; [cbn; lia|].
  cbn [set_lhs]. rewrite nfsum_cons.
  assert (Hh : wval m v w <= nf (hd 0 md) w).
  { specialize (H 0%nat). rewrite hd_nth in H. replace (v + Z.of_nat 0) with v in H by lia.
    pose proof (wval_bounds m v w) as B. unfold nf, not_falsified.
    destruct (Z.eqb_spec w 0) as [E|E]; [subst w; rewrite wval_0; lia|].
    destruct (Z.eqb_spec (hd 0 md) 0) as [Ea|Ea]; cbn [orb]; [lia|].
    specialize (H Ea). unfold wval. rewrite H.
    destruct (Z.eqb_spec w 0); [lia|].
    destruct (Z.ltb_spec w 0); destruct (Z.ltb_spec 0 (hd 0 md)); destruct (Z.ltb_spec 0 w);
      cbn [Bool.eqb]; lia. }
  assert (Ht : set_lhs m (v + 1) r <= nfsum (tl md) r).
  { apply IH. intros j Hj. rewrite <- hd_tl_nth in Hj. specialize (H (S j) Hj).
    rewrite <- hd_tl_nth. rewrite <- H. f_equal. lia. }
  lia.
Qed.

(* SimplifyPB never answers (no unit, nil, true) on a clause of degree >= 1:
   the branch mapped to CPPanicArith in cp_finish is dead *)
Lemma finish_no_nil : forall c, 1 <= degree c -> simplify_pb c <> Some ([], None).
Proof.
  intros [ts d] Hd. unfold simplify_pb. cbn [terms degree] in *.
  destruct (zsum (map fst ts) - d <? 0); [discriminate|].
  destruct (split_units (zsum (map fst ts) - d) ts) as [us rest].
  destruct (d - zsum (map fst us) <=? 0) eqn:E; [|discriminate].
  intros H. injection H as H. apply map_eq_nil in H. subst us. cbn in E.
  apply Z.leb_le in E. lia.
Qed.

(* ------------------------------------------------------------------ *)
(* Weights of the variable being resolved                               *)

Lemma falsifies_spec : forall pb l, falsifies pb l = true ->
  nth (vidx l) (fst pb) 0 <> 0 /\ (nth (vidx l) (fst pb) 0 <? 0) = (0 <? l).
Proof.
  intros pb l H. unfold falsifies in H. fold (vidx l) in H.
  destruct (Z.eqb_spec (nth (vidx l) (fst pb) 0) 0) as [E|E]; [discriminate|].
  split; [exact E|]. apply eqb_prop. exact H.
Qed.

Lemma falsifies_of_spec : forall pb l,
  nth (vidx l) (fst pb) 0 <> 0 -> (nth (vidx l) (fst pb) 0 <? 0) = (0 <? l) ->
  falsifies pb l = true.
Proof.
  intros pb l H1 H2. unfold falsifies. fold (vidx l).
  destruct (Z.eqb_spec (nth (vidx l) (fst pb) 0) 0) as [E|E]; [congruence|].
  rewrite H2. apply eqb_reflx.
Qed.

Lemma round_some : forall md v s, nth v (fst s) 0 <> 0 ->
  exists s', round_to_one md v s = Some s'.
Proof.
  intros md v s H. unfold round_to_one.
  destruct (Z.abs (nth v (fst s) 0) =? 1); [eexists; reflexivity|].
  destruct (Z.eqb_spec (Z.abs (nth v (fst s) 0)) 0) as [E|E]; [lia|eexists; reflexivity].
Qed.

Lemma div_w_self : forall w, w <> 0 -> div_w (Z.abs w) w = if 0 <? w then 1 else -1.
Proof.
  intros w Hw. pose proof (div_w_spec (Z.abs w) w ltac:(lia)) as S.
  destruct (Z.ltb_spec 0 w); destruct S as [[S1 S2]|[[S1 [S2 S3]]|[S1 [S2 S3]]]]; try lia.
  - rewrite Z.abs_eq in S2, S3 |- * by lia. set (d := div_w w w) in *. nia.
  - rewrite Z.abs_neq in S2, S3 |- * by lia. set (d := div_w (- w) w) in *. nia.
Qed.

(* after roundToOne the locked variable has weight 1 with the same sign *)
Lemma round_weight : forall md v s s',
  round_to_one md v s = Some s' -> nth v (fst s) 0 <> 0 ->
  nth v (fst s') 0 = if 0 <? nth v (fst s) 0 then 1 else -1.
Proof.
  intros md v [ws d] s' H Hz. unfold round_to_one in H. cbn [fst snd] in *.
  set (w := nth v ws 0) in *.
  destruct (Z.eqb_spec (Z.abs w) 1) as [E1|E1].
  - injection H as <-. cbn [fst]. fold w. destruct (Z.ltb_spec 0 w); lia.
  - destruct (Z.eqb_spec (Z.abs w) 0) as [E0|E0]; [discriminate|]. injection H as <-.
    unfold divide_by, weaken_round. cbn [fst snd].
    destruct (weaken_ws (Z.abs w) md ws) as [w' k] eqn:E. cbn [fst].
    destruct (weaken_ws_nfsum _ _ _ _ _ E) as [_ [_ W3]].
    assert (Hv : nth v w' 0 = w).
    { apply W3. fold w. destruct (Z.abs_spec w) as [[_ ->]|[_ ->]].
      - apply Z.rem_same. lia.
      - rewrite Z.rem_opp_r by lia. apply Z.rem_same. lia. }
    change 0 with (div_w (Z.abs w) 0) at 1. rewrite map_nth. rewrite Hv.
    apply div_w_self. exact Hz.
Qed.

Lemma clash_ws_nth : forall w1 w2 w k v, clash_ws w1 w2 = (w, k) ->
  (v < List.length w1)%nat -> nth v w 0 = nth v w1 0 + nth v w2 0.
Proof.
  induction w1 as [|a r1 IH]; intros w2 w k v H Hv; cbn [clash_ws] in H.
  - cbn [List.length] in Hv. lia.
  - destruct (clash_ws r1 (tl w2)) as [r k'] eqn:E. injection H as <- <-.
    destruct v as [|v].
    + cbn [nth]. rewrite hd_nth. reflexivity.
    + cbn [nth]. rewrite (hd_tl_nth v w2). apply (IH _ _ _ _ E). cbn [List.length] in Hv. lia.
Qed.

Lemma clash_nth : forall a b v, (v < List.length (fst a))%nat ->
  nth v (fst (clash a b)) 0 = nth v (fst a) 0 + nth v (fst b) 0.
Proof.
  intros [wa da] [wb db] v Hv. unfold clash. cbn [fst snd] in *.
  destruct (clash_ws wa wb) as [w k] eqn:E. cbn [fst]. exact (clash_ws_nth _ _ _ _ _ E Hv).
Qed.

Lemma only_falsified_falsifies : forall pb md lvl rt res u,
  (forall x, res = Some x -> falsifies pb x = true) ->
  only_falsified pb md lvl rt res = Some u -> falsifies pb u = true.
Proof.
  intros pb md lvl rt. induction rt as [|l r IH]; intros res u Hres H; cbn [only_falsified] in H.
  - apply Hres. exact H.
  - destruct (negb (Z.abs (model_at md l) =? lvl)); [apply Hres; exact H|].
    destruct (falsifies pb l) eqn:Ef.
    + destruct res as [x|]; [discriminate|]. apply (IH (Some l) u); [|exact H].
      intros x Hx. injection Hx as <-. exact Ef.
    + apply (IH res u); assumption.
Qed.

(* the outcomes that are not answers *)
Definition ok_res (r : result) : Prop :=
  match r with CPPanic | CPPanicArith | CPFuel => False | _ => True end.

Lemma finish_ok : forall pb md u,
  falsifies pb u = true -> conflicting md pb = true -> ok_res (cp_finish pb md u).
Proof.
  intros pb md u Hf HC. unfold cp_finish.
  destruct (falsifies_spec _ _ Hf) as [Hz _].
  destruct (round_some md (vidx u) pb Hz) as [pb' Er]. rewrite Er.
  destruct (round_conflicting _ _ _ _ Er HC) as [HC' _].
  unfold conflicting in HC'. apply Z.ltb_lt in HC'.
  pose proof (nfsum_nonneg (fst pb') md) as Hn.
  destruct (Z.ltb_spec (snd pb') 1) as [L|L]; [lia|].
  set (C := PBC (sort_terms (set_terms 1 (fst pb'))) (snd pb')).
  pose proof (finish_no_nil C L) as Hnn.
  cbv zeta. fold C. destruct (simplify_pb C) as [[us rest]|]; [|exact I].
  destruct (forallb (is_fact md) us); [|exact I].
  destruct us as [|u0 us]; [|exact I].
  destruct rest as [c|]; [exact I|]. exfalso. apply Hnn. reflexivity.
Qed.

Definition hdf (pb : pbset) (rt : list lit) : bool :=
  match rt with [] => false | l :: _ => falsifies pb l end.

(* the measure: the literals still on the trail, plus one when the first of
   them has yet to be resolved *)
Definition mu (pb : pbset) (rt : list lit) : nat :=
  (List.length rt + (if hdf pb rt then 1 else 0))%nat.

Lemma decisions_okb_app : forall rs md0 pre s,
  decisions_okb rs md0 (pre ++ s) = true -> decisions_okb rs md0 s = true.
Proof.
  intros rs md0 pre s. induction pre as [|x pre IH]; intros H; [exact H|].
  cbn [app decisions_okb] in H. apply andb_true_iff in H. apply IH. exact (proj2 H).
Qed.

(* ------------------------------------------------------------------ *)
(* The current loop (after 2aa45b5): soundness with the Unsat verdict,
   and totality.                                                         *)

Section Current.

Variable n : nat.
Variable P : problem.
Variable rs : list (option pbc).
Hypothesis HP : forall i c, nth i rs None = Some c -> In c P.
Variable md0 : list Z.

Definition Aux (md : list Z) (rt : list lit) : Prop :=
  trail_okb md0 rt = true /\
  (forall l, In l rt -> model_at md l = model_at md0 l) /\
  (forall j, nth j md 0 <> 0 -> exists l, In l rt /\ vidx l = j).

(* the top-level literals are consequences of P *)
Definition Top (rt : list lit) : Prop :=
  forall l, In l rt -> Z.abs (model_at md0 l) = 1 ->
    forall m : model, sat_problem m P = true -> lit_val m l = true.

Lemma trail_okb_cons : forall l r, trail_okb md0 (l :: r) = true ->
  l <> 0 /\ model_at md0 l <> 0 /\ (0 <? model_at md0 l) = (0 <? l) /\
  (forall l', In l' r -> vidx l' <> vidx l /\
                         Z.abs (model_at md0 l') <= Z.abs (model_at md0 l)) /\
  trail_okb md0 r = true.
Proof.
  intros l r H. cbn [trail_okb] in H.
  apply andb_true_iff in H. destruct H as [H H5].
  apply andb_true_iff in H. destruct H as [H H4].
  apply andb_true_iff in H. destruct H as [H H3].
  apply andb_true_iff in H. destruct H as [H1 H2].
  apply negb_true_iff in H1. apply Z.eqb_neq in H1.
  apply negb_true_iff in H2. apply Z.eqb_neq in H2.
  apply eqb_prop in H3. rewrite forallb_forall in H4.
  repeat split; try assumption.
  - specialize (H4 l' H). apply andb_true_iff in H4. destruct H4 as [H4 _].
    apply negb_true_iff in H4. apply Nat.eqb_neq in H4. exact H4.
  - specialize (H4 l' H). apply andb_true_iff in H4. destruct H4 as [_ H4].
    apply Z.leb_le in H4. exact H4.
Qed.

Lemma trail_okb_in : forall rt l, trail_okb md0 rt = true -> In l rt ->
  l <> 0 /\ (0 <? model_at md0 l) = (0 <? l).
Proof.
  induction rt as [|x rt IH]; intros l H Hin; [destruct Hin|].
  destruct (trail_okb_cons _ _ H) as [H1 [_ [H3 [_ H5]]]].
  destruct Hin as [<-|Hin]; [split; assumption|apply IH; assumption].
Qed.

Lemma aux_step : forall md x r, Aux md (x :: r) -> Aux (set_nth (vidx x) 0 md) r.
Proof.
  intros md x r [A1 [A2 A3]].
  destruct (trail_okb_cons _ _ A1) as [_ [_ [_ [B4 B5]]]].
  split; [exact B5|]. split.
  - intros l Hl. rewrite <- (A2 l (or_intror Hl)). unfold model_at.
    apply nth_set_nth_neq. exact (proj1 (B4 l Hl)).
  - intros j Hj. destruct (Nat.eq_dec j (vidx x)) as [E|E].
    + subst j. rewrite nth_set_nth_zero in Hj. congruence.
    + rewrite nth_set_nth_neq in Hj by exact E.
      destruct (A3 j Hj) as [l [[<-|Hl] Hv]]; [congruence|]. exists l. split; assumption.
Qed.

Lemma walk_inv : forall pb rt md,
  Inv n P rs pb md rt -> Aux md rt ->
  match walk pb md rt with
  | WStop md' l r =>
    Inv n P rs pb md' (l :: r) /\ Aux md' (l :: r) /\ falsifies pb l = true /\
    exists pre, rt = pre ++ l :: r /\ (hdf pb rt = false -> pre <> [])
  | WEmpty md' => conflicting md' pb = true /\ forall j, nth j md' 0 = 0
  end.
Proof.
  intros pb rt. induction rt as [|x rt IH]; intros md HI HA; cbn [walk].
  - split; [exact (proj1 (proj2 (proj2 HI)))|].
    intros j. destruct (Z.eq_dec (nth j md 0) 0) as [E|E]; [exact E|].
    destruct HA as [_ [_ A3]]. destruct (A3 j E) as [l [[] _]].
  - destruct (falsifies pb x) eqn:Ef.
    + split; [exact HI|]. split; [exact HA|]. split; [exact Ef|].
      exists []. split; [reflexivity|]. cbn [hdf]. rewrite Ef. discriminate.
    + assert (HI' : Inv n P rs pb (set_nth (vidx x) 0 md) rt).
      { destruct HI as [HD [HL [HC HR]]]. cbn [reasons_wfb] in HR.
        apply andb_true_iff in HR. destruct HR as [HR HR3].
        apply andb_true_iff in HR. destruct HR as [HR1 HR2].
        split; [exact HD|]. split; [exact HL|]. split; [|exact HR3].
        unfold conflicting in *.
        rewrite nfsum_zero_at; [exact HC|]. apply not_falsifies_nf; assumption. }
      specialize (IH _ HI' (aux_step _ _ _ HA)).
      destruct (walk pb (set_nth (vidx x) 0 md) rt) as [md'|md' l r]; [exact IH|].
      destruct IH as [I1 [I2 [I3 [pre [I4 _]]]]].
      split; [exact I1|]. split; [exact I2|]. split; [exact I3|].
      exists (x :: pre). split; [cbn [app]; f_equal; exact I4|]. intros _. discriminate.
Qed.

Lemma unsat_of_agree : forall pb md,
  derivable n P pb -> conflicting md pb = true ->
  (forall m : model, sat_problem m P = true ->
     forall j, nth j md 0 <> 0 -> var_val m (1 + Z.of_nat j) = (0 <? nth j md 0)) ->
  forall m : model, sat_problem m P = false.
Proof.
  intros pb md HD HC HA m. destruct (sat_problem m P) eqn:Em; [exfalso|reflexivity].
  pose proof (derivable_sound n P pb HD m Em) as Hs. apply sat_pbset_iff in Hs.
  pose proof (lhs_le_nfsum m (fst pb) md 1 (HA m Em)) as Hle.
  unfold conflicting in HC. apply Z.ltb_lt in HC. lia.
Qed.

Lemma agree_lvl1 : forall md rt, Aux md rt -> Top rt ->
  (forall l, In l rt -> Z.abs (model_at md l) <= 1) ->
  forall m : model, sat_problem m P = true ->
  forall j, nth j md 0 <> 0 -> var_val m (1 + Z.of_nat j) = (0 <? nth j md 0).
Proof.
  intros md rt [A1 [A2 A3]] A4 HJ m Hm j Hj.
  destruct (A3 j Hj) as [l [Hl Hv]]. subst j.
  change (nth (vidx l) md 0) with (model_at md l) in *.
  specialize (HJ l Hl). specialize (A2 l Hl).
  destruct (trail_okb_in _ _ A1 Hl) as [Hl0 Hsg].
  assert (H1 : Z.abs (model_at md0 l) = 1) by lia.
  specialize (A4 l Hl H1 m Hm). rewrite A2. rewrite Hsg.
  unfold lit_val in A4. unfold vidx.
  destruct (Z.ltb_spec 0 l) as [Lp|Lp].
  - replace (1 + Z.of_nat (Z.to_nat (Z.abs l - 1))) with l by lia. exact A4.
  - replace (1 + Z.of_nat (Z.to_nat (Z.abs l - 1))) with (- l) by lia.
    apply negb_true_iff in A4. exact A4.
Qed.

(* one iteration that resolves on the reason c of l: the new invariant *)
Lemma resolve_inv : forall pb md l r c pb1 pb2,
  Inv n P rs pb md (l :: r) -> reason_at rs l = Some c ->
  round_to_one md (vidx l) pb = Some pb1 ->
  round_to_one md (vidx l) (pbset_of n c) = Some pb2 ->
  Inv n P rs (clash pb1 pb2) md (l :: r).
Proof.
  intros pb md l r c pb1 pb2 [HD [HL [HC HR]]] Ec E1 E2.
  destruct (round_conflicting _ _ _ _ E1 HC) as [HC1 Hok1].
  assert (HD1 : derivable n P pb1) by (eapply D_round; eassumption).
  assert (HL1 : List.length (fst pb1) = n) by (rewrite (round_length _ _ _ _ E1); exact HL).
  assert (HR' := HR). cbn [reasons_wfb] in HR'. rewrite Ec in HR'.
  apply andb_true_iff in HR'. destruct HR' as [HR' _].
  apply andb_true_iff in HR'. destruct HR' as [_ Hrk].
  unfold reason_okb in Hrk.
  apply andb_true_iff in Hrk. destruct Hrk as [Hrk H4].
  apply andb_true_iff in Hrk. destruct Hrk as [Hrk H3].
  apply andb_true_iff in Hrk. destruct Hrk as [H1 H2].
  apply negb_true_iff in H2. apply Z.eqb_neq in H2. apply Z.ltb_lt in H4.
  unfold model_at in H3.
  destruct (round_reason _ _ _ _ E2 H2 H3 H4) as [Hs2 Hok2].
  assert (HDc : derivable n P (pbset_of n c)).
  { apply D_axiom; [|exact H1]. apply (HP (vidx l)). exact Ec. }
  assert (HD2 : derivable n P pb2) by (eapply D_round; eassumption).
  assert (HL2 : List.length (fst pb2) = n)
    by (rewrite (round_length _ _ _ _ E2); apply pbset_of_length).
  split; [|split; [|split]].
  - apply D_clash; [exact HD1|exact HD2|lia].
  - rewrite clash_length. exact HL1.
  - apply clash_conflicting; assumption.
  - exact HR.
Qed.

Lemma decide_inv : forall pb md rt v pb1,
  Inv n P rs pb md rt -> round_to_one md v pb = Some pb1 -> Inv n P rs pb1 md rt.
Proof.
  intros pb md rt v pb1 [HD [HL [HC HR]]] E1.
  destruct (round_conflicting _ _ _ _ E1 HC) as [HC1 Hok1].
  split; [eapply D_round; eassumption|]. split; [rewrite (round_length _ _ _ _ E1); exact HL|].
  split; [exact HC1|exact HR].
Qed.

Lemma levels_after_walk : forall md' l r, Aux md' (l :: r) ->
  forall l', In l' (l :: r) -> Z.abs (model_at md' l') <= Z.abs (model_at md' l).
Proof.
  intros md' l r [A1 [A2 _]]. destruct (trail_okb_cons _ _ A1) as [_ [_ [_ [B4 _]]]].
  intros l' [<-|Hl']; [lia|].
  rewrite (A2 l' (or_intror Hl')), (A2 l (or_introl eq_refl)). exact (proj2 (B4 l' Hl')).
Qed.

Lemma loop_sound : forall fuel pb md rt lvl,
  Inv n P rs pb md rt -> Aux md rt -> Top rt ->
  (forall l, In l rt -> Z.abs (model_at md l) <= lvl) ->
  res_sound2 P (fst (cp_loop fuel n rs pb md rt lvl)).
Proof.
  induction fuel as [|f IH]; intros pb md rt lvl HI HA HT HJ; cbn [cp_loop]; [exact I|].
  destruct (only_falsified pb md lvl rt None) as [u|].
  - cbn [fst]. destruct HI as [HD [_ [HC _]]]. eapply finish_sound2; eassumption.
  - destruct (Z.eqb_spec lvl 1) as [El|El].
    + cbn [fst res_sound2]. subst lvl. destruct HI as [HD [_ [HC _]]].
      apply (unsat_of_agree pb md HD HC). exact (agree_lvl1 md rt HA HT HJ).
    + destruct rt as [|x rt']; [exact I|].
      pose proof (walk_inv pb (x :: rt') md HI HA) as HW.
      destruct (walk pb md (x :: rt')) as [md'|md' l r].
      * cbn [fst res_sound2]. destruct HW as [HC' Hz]. destruct HI as [HD _].
        apply (unsat_of_agree pb md' HD HC'). intros m _ j Hj. specialize (Hz j). congruence.
      * destruct HW as [HI' [HA' [Hf [pre [Hpre _]]]]].
        assert (HT' : Top (l :: r)).
        { intros l' Hl'. apply HT. rewrite Hpre. apply in_or_app. right. exact Hl'. }
        pose proof (levels_after_walk _ _ _ HA') as HJ'.
        cbv zeta.
        destruct (round_to_one md' (vidx l) pb) as [pb1|] eqn:E1; [|exact I].
        destruct (reason_at rs l) as [c|] eqn:Ec.
        -- destruct (round_to_one md' (vidx l) (pbset_of n c)) as [pb2|] eqn:E2; [|exact I].
           apply IH; [|exact HA'|exact HT'|exact HJ'].
           exact (resolve_inv _ _ _ _ _ _ _ HI' Ec E1 E2).
        -- apply IH; [|exact HA'|exact HT'|exact HJ']. exact (decide_inv _ _ _ _ _ HI' E1).
Qed.

(* after a literal without reason has been found, the next iteration exits *)
Lemma after_decision : forall f pb1 md' l r,
  Inv n P rs pb1 md' (l :: r) -> Aux md' (l :: r) ->
  decisions_okb rs md0 (l :: r) = true -> reason_at rs l = None ->
  falsifies pb1 l = true ->
  ok_res (fst (cp_loop (S f) n rs pb1 md' (l :: r) (Z.abs (model_at md' l)))).
Proof.
  intros f pb1 md' l r HI HA HDc Ec Hf. cbn [cp_loop only_falsified].
  rewrite Z.eqb_refl. cbn [negb]. rewrite Hf.
  destruct (only_falsified pb1 md' (Z.abs (model_at md' l)) r (Some l)) as [u|] eqn:Eo.
  - cbn [fst]. apply finish_ok; [|exact (proj1 (proj2 (proj2 HI)))].
    apply (only_falsified_falsifies _ _ _ _ _ _ ) with (2 := Eo).
    intros x Hx. injection Hx as <-. exact Hf.
  - cbn [decisions_okb] in HDc. rewrite Ec in HDc.
    apply andb_true_iff in HDc. destruct HDc as [HDc _].
    destruct HA as [A1 [A2 _]].
    apply orb_true_iff in HDc. destruct HDc as [H1|H1].
    + apply Z.eqb_eq in H1. rewrite (A2 l (or_introl eq_refl)). rewrite H1.
      cbn [Z.eqb Pos.eqb fst]. exact I.
    + exfalso. destruct r as [|l' r']; [cbn in Eo; discriminate|].
      cbn [only_falsified] in Eo. rewrite forallb_forall in H1.
      specialize (H1 l' (or_introl eq_refl)). apply negb_true_iff in H1.
      rewrite (A2 l' (or_intror (or_introl eq_refl))), (A2 l (or_introl eq_refl)) in Eo.
      rewrite H1 in Eo. cbn [negb] in Eo. discriminate.
Qed.

(* TOTALITY: with fuel >= mu + 2 the loop answers (no panic, no fuel) *)
Lemma loop_total : forall fuel pb md rt lvl,
  Inv n P rs pb md rt -> Aux md rt -> decisions_okb rs md0 rt = true -> rt <> [] ->
  (mu pb rt + 2 <= fuel)%nat ->
  ok_res (fst (cp_loop fuel n rs pb md rt lvl)).
Proof.
  induction fuel as [|f IH]; intros pb md rt lvl HI HA HDc Hne Hfuel; [lia|].
  cbn [cp_loop].
  destruct (only_falsified pb md lvl rt None) as [u|] eqn:Eo.
  - cbn [fst]. apply finish_ok; [|exact (proj1 (proj2 (proj2 HI)))].
    apply (only_falsified_falsifies _ _ _ _ _ _ ) with (2 := Eo). intros x Hx. discriminate.
  - destruct (lvl =? 1); [exact I|].
    destruct rt as [|x rt']; [congruence|].
    pose proof (walk_inv pb (x :: rt') md HI HA) as HW.
    destruct (walk pb md (x :: rt')) as [md'|md' l r]; [exact I|].
    destruct HW as [HI' [HA' [Hf [pre [Hpre Hne']]]]]. cbv zeta.
    assert (HDc' : decisions_okb rs md0 (l :: r) = true)
      by (rewrite Hpre in HDc; exact (decisions_okb_app _ _ _ _ HDc)).
    assert (Hlen : (List.length (l :: r) + 1 <= mu pb (x :: rt'))%nat).
    { unfold mu. rewrite Hpre at 1. rewrite app_length.
      destruct (hdf pb (x :: rt')) eqn:Eh; [lia|].
      specialize (Hne' eq_refl). destruct pre; [congruence|cbn [List.length]; lia]. }
    destruct (falsifies_spec _ _ Hf) as [Hz Hsg].
    destruct (round_some md' (vidx l) pb Hz) as [pb1 E1]. rewrite E1.
    pose proof (round_weight _ _ _ _ E1 Hz) as Hw1.
    destruct (reason_at rs l) as [c|] eqn:Ec.
    + (* resolve *)
      assert (HR := proj2 (proj2 (proj2 HI'))). cbn [reasons_wfb] in HR. rewrite Ec in HR.
      apply andb_true_iff in HR. destruct HR as [HR _].
      apply andb_true_iff in HR. destruct HR as [_ Hrk].
      unfold reason_okb in Hrk.
      apply andb_true_iff in Hrk. destruct Hrk as [Hrk _].
      apply andb_true_iff in Hrk. destruct Hrk as [Hrk H3].
      apply andb_true_iff in Hrk. destruct Hrk as [_ H2].
      apply negb_true_iff in H2. apply Z.eqb_neq in H2.
      destruct (round_some md' (vidx l) (pbset_of n c) H2) as [pb2 E2]. rewrite E2.
      pose proof (round_weight _ _ _ _ E2 H2) as Hw2.
      apply IH; [exact (resolve_inv _ _ _ _ _ _ _ HI' Ec E1 E2)|exact HA'|exact HDc'|discriminate|].
      assert (Hzero : nth (vidx l) (fst (clash pb1 pb2)) 0 = 0).
      { rewrite clash_nth.
        - rewrite Hw1, Hw2.
          destruct HA' as [A1 [A2 _]]. destruct (trail_okb_cons _ _ A1) as [_ [B2 [B3 _]]].
          specialize (A2 l (or_introl eq_refl)). rewrite <- A2 in B2, B3.
          unfold not_falsified in H3. destruct (Z.eqb_spec (model_at md' l) 0) as [E|E]; [congruence|].
          cbn [orb] in H3. apply eqb_prop in H3. rewrite B3 in H3.
          set (w := nth (vidx l) (fst pb) 0) in *.
          set (w2 := nth (vidx l) (fst (pbset_of n c)) 0) in *.
          destruct (Z.ltb_spec 0 l); destruct (Z.ltb_spec w 0); try discriminate;
            destruct (Z.ltb_spec 0 w2); try discriminate;
            destruct (Z.ltb_spec 0 w); lia.
        - rewrite (round_length _ _ _ _ E1).
          destruct (Nat.lt_ge_cases (vidx l) (List.length (fst pb))) as [L|L]; [exact L|].
          rewrite nth_overflow in Hz by exact L. congruence. }
      assert (Hnf : hdf (clash pb1 pb2) (l :: r) = false).
      { cbn [hdf]. unfold falsifies. fold (vidx l). rewrite Hzero. reflexivity. }
      unfold mu at 1. rewrite Hnf. lia.
    + (* decision or top-level literal *)
      destruct f as [|f']; [unfold mu in *; cbn [List.length] in *; lia|].
      apply after_decision; [exact (decide_inv _ _ _ _ _ HI' E1)|exact HA'|exact HDc'|exact Ec|].
      apply falsifies_of_spec.
      * rewrite Hw1. destruct (0 <? nth (vidx l) (fst pb) 0); discriminate.
      * rewrite Hw1. rewrite <- Hsg.
        destruct (Z.ltb_spec 0 (nth (vidx l) (fst pb) 0));
          destruct (Z.ltb_spec (nth (vidx l) (fst pb) 0) 0); try reflexivity; lia.
Qed.

End Current.

Lemma assigned_okb_spec : forall md tr, assigned_okb md tr = true ->
  forall j, nth j md 0 <> 0 -> exists l, In l tr /\ vidx l = j.
Proof.
  intros md tr H j Hj. unfold assigned_okb in H. rewrite forallb_forall in H.
  destruct (Nat.lt_ge_cases j (List.length md)) as [L|L].
  - specialize (H j). rewrite in_seq in H. specialize (H ltac:(lia)).
    apply orb_true_iff in H. destruct H as [H|H]; [apply Z.eqb_eq in H; congruence|].
    apply existsb_exists in H. destruct H as [l [Hl He]]. apply Nat.eqb_eq in He.
    exists l. split; assumption.
  - rewrite nth_overflow in Hj by exact L. congruence.
Qed.

Lemma wf2_inv : forall (P : problem) (st : state),
  state_wf2b st = true -> In (st_confl st) P ->
  Inv (st_n st) P (st_reason st) (pbset_of (st_n st) (st_confl st)) (st_model st)
      (rev (st_trail st)) /\
  Aux (st_model st) (st_model st) (rev (st_trail st)) /\
  (forall l, In l (rev (st_trail st)) -> Z.abs (model_at (st_model st) l) <= st_lvl st).
Proof.
  intros P st Hwf Hc. unfold state_wf2b in Hwf.
  apply andb_true_iff in Hwf. destruct Hwf as [Hwf W4].
  apply andb_true_iff in Hwf. destruct Hwf as [Hwf W3].
  apply andb_true_iff in Hwf. destruct Hwf as [Hwf W2].
  unfold state_wfb in Hwf.
  apply andb_true_iff in Hwf. destruct Hwf as [Hwf H3].
  apply andb_true_iff in Hwf. destruct Hwf as [H1 H2].
  split; [|split].
  - split; [|split; [|split]].
    + apply D_axiom; assumption.
    + apply pbset_of_length.
    + exact H2.
    + exact H3.
  - split; [exact W2|]. split; [reflexivity|].
    intros j Hj. destruct (assigned_okb_spec _ _ W3 j Hj) as [l [Hl Hv]].
    exists l. split; [apply in_rev; rewrite rev_involutive; exact Hl|exact Hv].
  - intros l Hl. rewrite forallb_forall in W4. apply Z.leb_le. apply W4. apply in_rev. exact Hl.
Qed.

(* MAIN (the code as it is now).  Learned constraints and units are
   consequences of P, AND an Unsat answer means that P has no model.  P is any
   problem that contains the conflict constraint and the reasons.  Conditions
   (state_wf2b, decidable, satisfied by the states of the search, cf. the
   Examples): those of cp_old_sound (well-formed constraints, falsified conflict
   constraint, every reason contains its literal and propagated it), distinct
   non-zero trail literals, true in the model, levels not decreasing along the
   trail and at most lvl, every assigned variable on the trail; and the
   top-level (level 1) literals are consequences of P.  The side conditions of
   the rules of Proofs/CP.v (round_ok at every roundToOne, lengths for clash) are
   established by the proof. *)
Theorem cp_sound : forall (P : problem) (st : state),
  state_wf2b st = true ->
  In (st_confl st) P ->
  (forall i c, nth i (st_reason st) None = Some c -> In c P) ->
  (forall l, In l (st_trail st) -> Z.abs (model_at (st_model st) l) = 1 ->
     forall m : model, sat_problem m P = true -> lit_val m l = true) ->
  match cutting_planes st with
  | CPLearn c _ _ => forall m : model, sat_problem m P = true -> sat_pbc m c = true
  | CPUnits us => forall m : model, sat_problem m P = true -> forallb (lit_val m) us = true
  | CPUnsat => forall m : model, sat_problem m P = false
  | _ => True
  end.
Proof.
  intros P st Hwf Hc Hr Htop.
  destruct (wf2_inv P st Hwf Hc) as [HI [HA HJ]].
  unfold cutting_planes, cutting_planes_full.
  apply (loop_sound (st_n st) P (st_reason st) Hr (st_model st)); try assumption.
  intros l Hl. apply Htop. apply in_rev. exact Hl.
Qed.

(* TERMINATION WITHOUT PANIC of one call (the code as it is now): on a state
   that moreover has a non-empty trail and in which a literal without reason is
   a top-level literal or the first of its level (state_wf3b), the fuel
   2 * len(trail) + 2 is enough and the call returns one of its three shapes.
   Measure: mu = (number of literals at or below ptr) + (1 if s.trail[ptr]
   falsifies pb).  An iteration that resolves on a reason makes the weight of
   the literal 0 (1 + -1 after the two roundToOne), so mu decreases; an
   iteration that stops on a literal without reason is followed by an exit
   (onlyFalsified finds it alone at its level, or the level is 1). *)
Theorem cp_total : forall st : state,
  state_wf3b st = true -> st_trail st <> [] ->
  match cutting_planes st with
  | CPPanic | CPPanicArith | CPFuel => False
  | _ => True
  end.
Proof.
  intros st Hwf Hne. unfold state_wf3b in Hwf.
  apply andb_true_iff in Hwf. destruct Hwf as [Hwf HD].
  assert (Hr : forall i c, nth i (st_reason st) None = Some c -> In c (st_problem st))
    by apply st_problem_reasons.
  destruct (wf2_inv (st_problem st) st Hwf (or_introl eq_refl)) as [HI [HA _]].
  unfold cutting_planes, cutting_planes_full.
  apply (loop_total (st_n st) (st_problem st) (st_reason st) Hr (st_model st)); try assumption.
  - intros E. apply Hne. rewrite <- (rev_involutive (st_trail st)). rewrite E. reflexivity.
  - unfold mu, cp_fuel. rewrite rev_length.
    destruct (st_trail st) as [|x tr]; [congruence|]. cbn [List.length].
    destruct (hdf _ _); lia.
Qed.

(* ------------------------------------------------------------------ *)
(* replay produces reachable states                                     *)

Lemma replay_step_reach : forall P n tr md rs lvl x tr' md' rs' lvl',
  reach P n tr md rs lvl ->
  replay_step P (tr, md, rs, lvl) x = Some (tr', md', rs', lvl') ->
  reach P n tr' md' rs' lvl'.
Proof.
  intros P n tr md rs lvl x tr' md' rs' lvl' HR H. unfold replay_step in H.
  destruct x as [ci l|l|ci l].
  - destruct (nth_error P ci) as [c|] eqn:Ec; [|discriminate].
    destruct ((lvl =? 1) && free_lit md l && propagates md c l) eqn:E; [|discriminate].
    injection H as <- <- <- <-.
    apply andb_true_iff in E. destruct E as [E E3].
    apply andb_true_iff in E. destruct E as [E1 E2]. apply Z.eqb_eq in E1. subst lvl.
    apply R_unit with (c := c); try assumption. exact (nth_error_In _ _ Ec).
  - destruct (free_lit md l) eqn:E; [|discriminate]. injection H as <- <- <- <-.
    apply R_decide; assumption.
  - destruct (nth_error P ci) as [c|] eqn:Ec; [|discriminate].
    destruct (free_lit md l && propagates md c l) eqn:E; [|discriminate].
    injection H as <- <- <- <-. apply andb_true_iff in E. destruct E as [E1 E2].
    apply R_prop; try assumption. exact (nth_error_In _ _ Ec).
Qed.

Lemma replay_reach : forall P n xs tr md rs lvl tr' md' rs' lvl',
  reach P n tr md rs lvl ->
  replay P (tr, md, rs, lvl) xs = Some (tr', md', rs', lvl') ->
  reach P n tr' md' rs' lvl'.
Proof.
  intros P n xs. induction xs as [|x xs IH]; intros tr md rs lvl tr' md' rs' lvl' HR H;
    cbn [replay] in H.
  - injection H as <- <- <- <-. exact HR.
  - destruct (replay_step P (tr, md, rs, lvl) x) as [[[[tr1 md1] rs1] lvl1]|] eqn:E; [|discriminate].
    eapply IH; [|exact H]. eapply replay_step_reach; eassumption.
Qed.

Lemma reach_length : forall P n tr md rs lvl, reach P n tr md rs lvl -> List.length md = n.
Proof.
  intros P n tr md rs lvl H.
  induction H as [|tr md rs l c H IH _ _ _|tr md rs lvl l H IH _|tr md rs lvl l c H IH _ _ _];
    [apply repeat_length| | |]; unfold push; rewrite set_nth_length; exact IH.
Qed.

Lemma conflict_state_sound : forall P n xs ci st,
  conflict_state P n xs ci = Some st -> conflict_of P st.
Proof.
  intros P n xs ci st H. unfold conflict_state in H.
  destruct (replay P (init_sstate n) xs) as [[[[tr md] rs] lvl]|] eqn:E; [|discriminate].
  destruct (nth_error P ci) as [c|] eqn:Ec; [|discriminate].
  destruct (falsified_by md c) eqn:Ef; [|discriminate]. injection H as <-.
  assert (HR : reach P n tr md rs lvl).
  { eapply replay_reach; [|exact E]. apply R_init. }
  unfold conflict_of, st_n. cbn [st_trail st_model st_reason st_confl st_lvl].
  rewrite (reach_length _ _ _ _ _ _ HR).
  split; [exact HR|]. split; [exact (nth_error_In _ _ Ec)|exact Ef].
Qed.

(* ------------------------------------------------------------------ *)
(* The three witnesses, transcribed from instrumented runs of the code BEFORE
   commit 2aa45b5 (fmt.Printf of s.trailString(), confl.PBString(), reason.PBString() at
   the entry of cuttingPlanes; in each case the state printed is the call whose
   result is wrong).                                                    *)

(* (b) Eq([-5 -3 -1 -7], [-2 -2 1 2], 0) through ParsePBConstrs; 3 models.
     problem: 2 x5 +2 x3 +2 ~x7 +1 ~x1 >= 4 ;  2 ~x5 +2 ~x3 +2 x7 +1 x1 >= 3 ;
     CP ENTRY lvl=3 confl=2 x5 +2 x3 +2 ~x7 +1 ~x1 >= 4
       trail=-1@2 -7@3 -5@3 -3@3   (-1, -7 decisions; -5, -3 by the 2nd constraint)
     CP EXIT learned=nil propagated=[] newLvl=-1        status=UNSAT
   Run: resolve on -3: round both to weight 1, clash: pb = x1 >= 1 (a valid
   consequence: the sum of the two constraints is tight).  No literal of level
   3 falsifies it; the walk passes -3, -5 and the decision -7 (lvl = 2) and
   stops on the decision -1, which falsifies pb and is its only falsified
   literal: pb should be learned (unit x1).  Line 132 makes lvl = 1 instead and
   line 114 answers "top-level conflict". *)
Definition P_unsat : problem :=
  [PBC [(2, 5); (2, 3); (2, -7); (1, -1)] 4; PBC [(2, -5); (2, -3); (2, 7); (1, 1)] 3].
Definition run_unsat : list step := [StDecide (-1); StDecide (-7); StProp 1 (-5); StProp 1 (-3)].
Definition st_unsat : state :=
  State [-1; -7; -5; -3] [-2; 0; -3; 0; -3; 0; -3]
        [None; None; Some (PBC [(2, -5); (2, -3); (2, 7); (1, 1)] 3); None;
         Some (PBC [(2, -5); (2, -3); (2, 7); (1, 1)] 3); None; None]
        (PBC [(2, 5); (2, 3); (2, -7); (1, -1)] 4) 3.

Lemma cp_old_unsat_refuted :
  exists (P : problem) (n : nat) (run : list step) (ci : nat) (st : state),
    conflict_state P n run ci = Some st /\
    conflict_of P st /\
    state_ok P st = true /\
    decisions st = [-1; -7] /\
    (exists m : model, sat_problem m P = true) /\
    cutting_planes_old st = CPUnsat /\
    caller_old st = KUnsat.
Proof.
  exists P_unsat, 7%nat, run_unsat, 0%nat, st_unsat.
  assert (H : conflict_state P_unsat 7 run_unsat 0 = Some st_unsat) by (vm_compute; reflexivity).
  split; [exact H|]. split; [exact (conflict_state_sound _ _ _ _ _ H)|].
  split; [vm_compute; reflexivity|]. split; [vm_compute; reflexivity|].
  split; [exists [true; false; true; false; true; false; true]; vm_compute; reflexivity|].
  split; vm_compute; reflexivity.
Qed.

(* (a) ParsePBConstrs([AtMost([1 -3 2],1), AtLeast([3 -2 -1],1), AtMost([3 -2 -1],1)])
       + DetectAtMostOne + CuttingPlanes.
     problem: 1 ~x1 +1 x3 +1 ~x2 >= 2 ; 1 x3 +1 ~x2 +1 ~x1 >= 1 ; 1 ~x3 +1 x2 +1 x1 >= 2 ;
     CP ENTRY lvl=2 confl=1 ~x1 +1 x3 +1 ~x2 >= 2
       trail=-1@2 -3@2 2@2     (-1 decision; -3, 2 by the 3rd constraint)
     panic: runtime error: index out of range [-1]
   Run: resolve on 2: clash gives 0 >= 1.  Nothing falsifies it, the walk
   un-assigns 2, -3, -1 and reads s.trail[-1].  (The problem is unsatisfiable:
   the first and third constraints add up to 3 >= 4; the right answer was
   Unsat.  A constraint that no trail literal falsifies but that is conflicting
   is false under the empty assignment, so the panic can only happen on
   unsatisfiable problems.) *)
Definition P_panic : problem :=
  [PBC [(1, -1); (1, 3); (1, -2)] 2; PBC [(1, 3); (1, -2); (1, -1)] 1;
   PBC [(1, -3); (1, 2); (1, 1)] 2].
Definition run_panic : list step := [StDecide (-1); StProp 2 (-3); StProp 2 2].
Definition st_panic : state :=
  State [-1; -3; 2] [-2; 2; -2]
        [None; Some (PBC [(1, -3); (1, 2); (1, 1)] 2); Some (PBC [(1, -3); (1, 2); (1, 1)] 2)]
        (PBC [(1, -1); (1, 3); (1, -2)] 2) 2.

Lemma cp_old_panic_refuted :
  exists (P : problem) (n : nat) (run : list step) (ci : nat) (st : state),
    conflict_state P n run ci = Some st /\
    conflict_of P st /\
    state_ok P st = true /\
    decisions st = [-1] /\
    cutting_planes_old st = CPPanic /\
    caller_old st = KPanic.
Proof.
  exists P_panic, 3%nat, run_panic, 0%nat, st_panic.
  assert (H : conflict_state P_panic 3 run_panic 0 = Some st_panic) by (vm_compute; reflexivity).
  split; [exact H|]. split; [exact (conflict_state_sound _ _ _ _ _ H)|].
  split; [vm_compute; reflexivity|]. split; [vm_compute; reflexivity|].
  split; vm_compute; reflexivity.
Qed.

(* (c) found by random testing: the Go loop does not terminate (lvl runs
   through 0, -1, -2, ...; decLevel is a 64-bit int).
     ParsePBConstrs of  ~x3 >= 1 ; 3~x3+3~x2+3x5+3~x4+4x1 >= 11 ; 3x3+3x2+3~x5+3x4+4~x1 >= 5 ;
                        3~x3+5x5 >= 3 ; 5x5+1x1+3~x4 >= 2
     after the unit ~x3:  4 x1 +3 ~x4 +3 ~x2 +3 x5 >= 8 ; 4 ~x1 +3 x4 +3 x2 +3 ~x5 >= 5 ;
                          5 x5 +3 ~x4 +1 x1 >= 2 ;
     third call of cuttingPlanes, after the unit x1 and the constraint
     2 ~x1 +1 x2 +1 x4 +1 ~x5 >= 2 have been learned (both are in P_div):
     CP ENTRY lvl=2 confl=4 ~x1 +3 x4 +3 x2 +3 ~x5 >= 5
       trail=-3@1 1@1 5@2 4@2 -2@2   (-3, 1 top-level units, nil reason; 5 decision;
                                      4 by the learned constraint; -2 by the 1st)
       iter 3: ptr=1 lvl=0 pb=[-1 0 0 0 0] >= 1
       iter 4: ptr=1 lvl=-1 ...  iter 5: ptr=1 lvl=-2 ...
   Run: two clashes give ~x1 >= 1; the walk passes -2, 4 (reasons), the
   decision 5 (lvl = 1) and stops on the unit 1@1 which falsifies pb; its
   reason is nil: lvl = 0; from then on onlyFalsified fails on the level
   mismatch, lvl is never 1 again, and lines 131-134 loop. *)
Definition P_div : problem :=
  [PBC [(1, -3)] 1; PBC [(4, 1); (3, -4); (3, -2); (3, 5)] 8;
   PBC [(4, -1); (3, 4); (3, 2); (3, -5)] 5; PBC [(5, 5); (3, -4); (1, 1)] 2;
   PBC [(1, 1)] 1; PBC [(2, -1); (1, 2); (1, 4); (1, -5)] 2].
Definition run_div : list step :=
  [StUnit 0 (-3); StUnit 4 1; StDecide 5; StProp 5 4; StProp 1 (-2)].
Definition st_div : state :=
  State [-3; 1; 5; 4; -2] [1; -2; -1; 2; 2]
        [None; Some (PBC [(4, 1); (3, -4); (3, -2); (3, 5)] 8); None;
         Some (PBC [(2, -1); (1, 2); (1, 4); (1, -5)] 2); None]
        (PBC [(4, -1); (3, 4); (3, 2); (3, -5)] 5) 2.

Lemma cp_loop_old_unfold : forall f n rs pb md rt lvl,
  cp_loop_old (S f) n rs pb md rt lvl =
  match only_falsified pb md lvl rt None with
  | Some u => (cp_finish_v1 pb md u, md)
  | None =>
    if lvl =? 1 then (CPUnsat, md)
    else
      match walk_old pb rs md lvl rt with
      | WOPanic => (CPPanic, md)
      | WOStop md' l r lvl' =>
        match round_to_one md' (vidx l) pb with
        | None => (CPPanicArith, md')
        | Some pb1 =>
          match reason_at rs l with
          | None => cp_loop_old f n rs pb1 md' (l :: r) (lvl' - 1)
          | Some c =>
            match round_to_one md' (vidx l) (pbset_of n c) with
            | None => (CPPanicArith, md')
            | Some pb2 => cp_loop_old f n rs (clash pb1 pb2) md' (l :: r) lvl'
            end
          end
        end
      end
  end.
Proof. reflexivity. Qed.

(* the stationary part of the run: pb = ~x1 >= 1, ptr on the unit x1@1 *)
Lemma div_stationary : forall fuel lvl, lvl < 1 ->
  fst (cp_loop_old fuel 5 (st_reason st_div) ([-1; 0; 0; 0; 0], 1) [1; 0; -1; 0; 0] [1; -3] lvl) = CPFuel.
Proof.
  induction fuel as [|f IH]; intros lvl Hl; [reflexivity|].
  rewrite cp_loop_old_unfold.
  assert (E1 : only_falsified ([-1; 0; 0; 0; 0], 1) [1; 0; -1; 0; 0] lvl [1; -3] None = None).
  { cbn [only_falsified]. change (model_at [1; 0; -1; 0; 0] 1) with 1.
    destruct (Z.eqb_spec (Z.abs 1) lvl) as [E|E]; [cbn in E; lia|reflexivity]. }
  rewrite E1. destruct (Z.eqb_spec lvl 1) as [E|E]; [lia|].
  replace (walk_old ([-1; 0; 0; 0; 0], 1) (st_reason st_div) [1; 0; -1; 0; 0] lvl [1; -3])
    with (WOStop [1; 0; -1; 0; 0] 1 [-3] lvl) by reflexivity.
  replace (round_to_one [1; 0; -1; 0; 0] (vidx 1) ([-1; 0; 0; 0; 0], 1))
    with (Some ([-1; 0; 0; 0; 0], 1)) by reflexivity.
  replace (reason_at (st_reason st_div) 1) with (@None pbc) by reflexivity.
  apply IH. lia.
Qed.

Lemma cp_old_diverges :
  exists (P : problem) (n : nat) (run : list step) (ci : nat) (st : state),
    conflict_state P n run ci = Some st /\
    conflict_of P st /\
    state_ok P st = true /\
    forall fuel : nat,
      fst (cp_loop_old fuel (st_n st) (st_reason st) (pbset_of (st_n st) (st_confl st))
                   (st_model st) (rev (st_trail st)) (st_lvl st)) = CPFuel.
Proof.
  exists P_div, 5%nat, run_div, 2%nat, st_div.
  assert (H : conflict_state P_div 5 run_div 2 = Some st_div) by (vm_compute; reflexivity).
  split; [exact H|]. split; [exact (conflict_state_sound _ _ _ _ _ H)|].
  split; [vm_compute; reflexivity|].
  intros fuel.
  destruct fuel as [|[|f]]; [reflexivity|vm_compute; reflexivity|].
  (* two concrete iterations, then the stationary part at lvl = 0 *)
  transitivity (fst (cp_loop_old f 5 (st_reason st_div) ([-1; 0; 0; 0; 0], 1)
                             [1; 0; -1; 0; 0] [1; -3] 0)); [|apply div_stationary; lia].
  (* by computation: cp_loop_old (S (S f)) on the concrete state *)
  reflexivity.
Qed.

(* the current code on the three witnesses: unit x1 (true in the 3 models of
   P_unsat), Unsat, and the unit ~x1 (false at level 1: the caller answers Unsat) *)
Lemma cp_fixed_witnesses :
  cutting_planes st_unsat = CPUnits [1] /\
  (exists tr md rs, caller st_unsat = KUnit tr md rs [] /\ tr = [1]) /\
  cutting_planes st_panic = CPUnsat /\ caller st_panic = KUnsat /\
  cutting_planes st_div = CPUnits [-1] /\ caller st_div = KUnsat.
Proof.
  split; [vm_compute; reflexivity|].
  split; [eexists; eexists; eexists; split; vm_compute; reflexivity|].
  repeat split; vm_compute; reflexivity.
Qed.

(* ------------------------------------------------------------------ *)
(* Calls on which the code answered correctly already before 2aa45b5,
   transcribed with the Go output (same instrumentation; the current code gives
   the same answers); used as test points of the model in
   Properties/C14s.v. *)

(* ParsePBConstrs of the 6 constraints of the "search livelock" input (report):
   CP ENTRY lvl=2 confl=5 x1 +4 x7 +3 x2 +1 ~x5 +1 ~x8 >= 7
     trail=-4@1 -1@2 -2@2 6@2 8@2 -3@2 -7@2 -5@2
     all but -4, -1 by 1 ~x2 +3 x6 +3 x1 +3 x8 +2 ~x3 +2 ~x7 +2 ~x5 >= 13
   CP EXIT learned=nil propagated=[x1] newLvl=1 ; next trail -4@1 1@1 *)
Definition go_R : pbc := PBC [(1, -2); (3, 6); (3, 1); (3, 8); (2, -3); (2, -7); (2, -5)] 13.
Definition go_Q : pbc := PBC [(1, -6); (1, -3); (1, -2); (1, 7); (1, -1); (1, 5); (1, 8)] 5.
Definition go_C : pbc := PBC [(5, 1); (4, 7); (3, 2); (1, -5); (1, -8)] 7.
Definition go_st1 : state :=
  State [-4; -1; -2; 6; 8; -3; -7; -5] [-2; -2; -2; -1; -2; 2; -2; 2]
        [None; Some go_R; Some go_R; None; Some go_R; Some go_R; Some go_R; Some go_R] go_C 2.
(* CP ENTRY lvl=3 same confl, trail=-4@1 1@1 -2@2 -7@3 -6@3 -3@3 5@3 8@3
     -6 -3 5 8 by 1 ~x6 +1 ~x3 +1 ~x2 +1 x7 +1 ~x1 +1 x5 +1 x8 >= 5
   CP EXIT learned=1 x2 +1 x7 >= 1 propagated=[x7] newLvl=2 ; next trail -4@1 1@1 -2@2 7@2 *)
Definition go_st2 : state :=
  State [-4; 1; -2; -7; -6; -3; 5; 8] [1; -2; -3; -1; 3; -3; -3; 3]
        [None; None; Some go_Q; None; Some go_Q; Some go_Q; None; Some go_Q] go_C 3.
(* second call on the input of cp_diverges:
   CP ENTRY lvl=3 confl=4 ~x1 +3 x4 +3 x2 +3 ~x5 >= 5  trail=-3@1 1@1 5@2 -4@3 (no reason)
   CP EXIT learned=2 ~x1 +1 x2 +1 x4 +1 ~x5 >= 2 propagated=[x4] newLvl=2 ;
   next trail -3@1 1@1 5@2 4@2 *)
Definition go_st3 : state :=
  State [-3; 1; 5; -4] [1; 0; -1; -3; 2] [None; None; None; None; None]
        (PBC [(4, -1); (3, 4); (3, 2); (3, -5)] 5) 3.

Lemma go_outputs_old :
  cutting_planes_old go_st1 = cutting_planes go_st1 /\
  cutting_planes_old go_st2 = cutting_planes go_st2 /\
  cutting_planes_old go_st3 = cutting_planes go_st3.
Proof. repeat split; vm_compute; reflexivity. Qed.

Lemma go_outputs :
  cutting_planes go_st1 = CPUnits [1] /\
  caller go_st1 = KUnit [-4; 1] [1; 0; 0; -1; 0; 0; 0; 0] (repeat None 8) [] /\
  cutting_planes go_st2 = CPLearn (PBC [(1, 2); (1, 7)] 1) [7] 2 /\
  (exists md rs, caller go_st2 = KLearn [-4; 1; -2; 7] md rs (PBC [(1, 2); (1, 7)] 1) 2) /\
  cutting_planes go_st3 = CPLearn (PBC [(2, -1); (1, 2); (1, 4); (1, -5)] 2) [4] 2 /\
  (exists md rs, caller go_st3 = KLearn [-3; 1; 5; 4] md rs (PBC [(2, -1); (1, 2); (1, 4); (1, -5)] 2) 2).
Proof.
  split; [vm_compute; reflexivity|]. split; [vm_compute; reflexivity|].
  split; [vm_compute; reflexivity|]. split; [eexists; eexists; vm_compute; reflexivity|].
  split; [vm_compute; reflexivity|]. eexists; eexists; vm_compute; reflexivity.
Qed.

(* Go output at commit 0a73d0f on the input
     2 x6 +2 x4 +2 x5 +1 ~x3 +2 ~x1 >= 7 ;  x7 + ~x5 + x1 + x2 + ~x6 + x3 + x4 >= 4
   (on which the search did not terminate before that commit: Properties/C14c.v):
   CALL 1 lvl=4 confl = 2nd constraint, trail=-1@2 -7@3 -6@4 4@4 5@4 -3@4 (4 5 -3 by the 1st)
     -> learned=nil propagated=[x4] newLvl=1          (a new fact)
   CALL 2 lvl=4 confl = 2nd constraint, trail=4@1 -3@2 -7@3 -6@4 5@4 -1@4 (5 -1 by the 1st)
     -> learned=2 x4 +1 x2 +1 x3 +1 x7 >= 4 propagated=[x7] newLvl=2
        (SimplifyPB yields the unit x4, which is already a fact: the WHOLE constraint
         is learned; before 0a73d0f the answer was (nil, [x4], 1))
   status=SAT, model [false true false true true false true] *)
Definition go_A : pbc := PBC [(2, 6); (2, 4); (2, 5); (2, -1); (1, -3)] 7.
Definition go_B : pbc := PBC [(1, 7); (1, -5); (1, 1); (1, 2); (1, -6); (1, 3); (1, 4)] 4.
Definition go_st4 : state :=
  State [-1; -7; -6; 4; 5; -3] [-2; 0; -4; 4; 4; -4; -3]
        [None; None; Some go_A; Some go_A; Some go_A; None; None] go_B 4.
Definition go_st5 : state :=
  State [4; -3; -7; -6; 5; -1] [-4; 0; -2; 1; 4; -4; -3]
        [Some go_A; None; None; None; Some go_A; None; None] go_B 4.

Lemma go_outputs2 :
  state_wf3b go_st4 = true /\ cutting_planes go_st4 = CPUnits [4] /\
  state_wf3b go_st5 = true /\
  cutting_planes go_st5 = CPLearn (PBC [(2, 4); (1, 2); (1, 3); (1, 7)] 4) [7] 2 /\
  (exists md rs, caller go_st5 = KLearn [4; -3; 7] md rs (PBC [(2, 4); (1, 2); (1, 3); (1, 7)] 4) 2) /\
  (* before 0a73d0f: the unit that is already a fact *)
  fst (cutting_planes_mid_full go_st5) = CPUnits [4].
Proof.
  split; [vm_compute; reflexivity|]. split; [vm_compute; reflexivity|].
  split; [vm_compute; reflexivity|]. split; [vm_compute; reflexivity|].
  split; [eexists; eexists; vm_compute; reflexivity|vm_compute; reflexivity].
Qed.
