(* Proofs about Model/Enum.v: enumeration and counting (C05). *)
From Coq Require Import List ZArith Lia Bool NArith Permutation.
From GS Require Import Spec.Base Spec.PB Spec.Solver Model.Enum.
Import ListNotations.
Open Scope Z_scope.

(* ------------------------------------------------------------------ *)
(* General facts about the L0 definitions.                             *)

Lemma lit_val_opp : forall m l, l <> 0 -> lit_val m (- l) = negb (lit_val m l).
Proof.
  intros m l H. unfold lit_val.
  destruct (0 <? l) eqn:E1; destruct (0 <? - l) eqn:E2.
  - apply Z.ltb_lt in E1. apply Z.ltb_lt in E2. lia.
  - rewrite Z.opp_involutive. reflexivity.
  - rewrite negb_involutive. reflexivity.
  - apply Z.ltb_ge in E1. apply Z.ltb_ge in E2. lia.
Qed.

Lemma sat_problem_app : forall m P Q,
  sat_problem m (P ++ Q) = sat_problem m P && sat_problem m Q.
Proof. intros. unfold sat_problem. apply forallb_app. Qed.

Lemma sat_problem_snoc : forall m P c,
  sat_problem m (P ++ [c]) = sat_problem m P && sat_pbc m c.
Proof.
  intros. rewrite sat_problem_app. unfold sat_problem at 2. simpl.
  rewrite andb_true_r. reflexivity.
Qed.

Lemma forallb_Forall_true : forall (A : Type) (f : A -> bool) l,
  forallb f l = true <-> Forall (fun x => f x = true) l.
Proof.
  intros A f l. rewrite forallb_forall, Forall_forall. reflexivity.
Qed.

Lemma sat_block : forall m ds, Forall (fun d => d <> 0) ds ->
  sat_pbc m (block ds) = negb (forallb (lit_val m) ds).
Proof.
  intros m ds H. unfold block. rewrite sat_clause_pbc. unfold sat_clause.
  induction H as [|d ds Hd _ IH]; [reflexivity|].
  cbn [map existsb forallb]. rewrite IH, (lit_val_opp m d Hd).
  rewrite negb_andb. reflexivity.
Qed.

Lemma next_problem_eq : forall P ds, next_problem P ds = P ++ [block ds].
Proof. intros P [|d [|d' ds]]; reflexivity. Qed.

(* ------------------------------------------------------------------ *)
(* Binding arrays and the total models they stand for.                  *)

Lemma agrees_length : forall pm m, agrees pm m = true -> length m = length pm.
Proof.
  induction pm as [|o pm IH]; intros [|b m] H; simpl in H; try discriminate; auto.
  apply andb_true_iff in H. destruct H as [_ H]. simpl. f_equal. auto.
Qed.

Lemma in_completions : forall pm m, In m (completions pm) <-> agrees pm m = true.
Proof.
  induction pm as [|o pm IH]; intros m.
  - simpl. split.
    + intros [<-|[]]. reflexivity.
    + destruct m; [auto|discriminate].
  - destruct o as [b|]; cbn [completions].
    + rewrite in_map_iff. split.
      * intros [t [<- Ht]]. simpl. rewrite eqb_reflx. apply IH. exact Ht.
      * destruct m as [|b' t]; simpl; [discriminate|]. intros H.
        apply andb_true_iff in H. destruct H as [Hb Ht].
        apply eqb_prop in Hb. subst b'. exists t. split; [reflexivity|apply IH; exact Ht].
    + rewrite in_flat_map. split.
      * intros [t [Ht Hm]]. apply IH in Ht. simpl in Hm.
        destruct Hm as [<-|[<-|[]]]; simpl; exact Ht.
      * destruct m as [|b' t]; simpl; [discriminate|]. intros Ht.
        exists t. split; [apply IH; exact Ht|]. destruct b'; simpl; auto.
Qed.

Lemma NoDup_flat_both : forall (l : list model), NoDup l ->
  NoDup (flat_map (fun t => [false :: t; true :: t]) l).
Proof.
  induction l as [|a l IH]; intros H; [constructor|].
  inversion H as [|x y Ha Hl]; subst. cbn [flat_map app].
  assert (Hn : forall b, ~ In (b :: a) (flat_map (fun t => [false :: t; true :: t]) l)).
  { intros b Hin. apply in_flat_map in Hin. destruct Hin as [t [Ht Hin]].
    simpl in Hin. destruct Hin as [E|[E|[]]]; injection E as _ E; subst; contradiction. }
  constructor.
  - intros [E|Hin]; [discriminate|]. exact (Hn false Hin).
  - constructor; [apply Hn|]. apply IH. exact Hl.
Qed.

Lemma completions_NoDup : forall pm, NoDup (completions pm).
Proof.
  induction pm as [|o pm IH].
  - simpl. constructor; [intros []|constructor].
  - destruct o as [b|]; cbn [completions].
    + apply FinFun.Injective_map_NoDup; [|exact IH]. intros x y E. injection E. auto.
    + apply NoDup_flat_both. exact IH.
Qed.

Lemma flat_both_length : forall (l : list model),
  length (flat_map (fun t => [false :: t; true :: t]) l) = (2 * length l)%nat.
Proof. induction l as [|a l IH]; simpl; [reflexivity|]. rewrite IH. lia. Qed.

Lemma completions_nonempty : forall pm, (1 <= length (completions pm))%nat.
Proof.
  induction pm as [|o pm IH]; [simpl; lia|].
  destruct o as [b|]; cbn [completions].
  - rewrite map_length. exact IH.
  - rewrite flat_both_length. lia.
Qed.

Lemma count_current_spec : forall pm,
  count_current pm = N.of_nat (length (completions pm)).
Proof.
  intros pm. unfold count_current.
  assert (G : forall a, fold_left (fun nb (o : option bool) =>
                 match o with None => (2 * nb)%N | Some _ => nb end) pm a
               = (a * N.of_nat (length (completions pm)))%N).
  { induction pm as [|o pm IH]; intros a; [simpl; lia|].
    destruct o as [b|]; cbn [fold_left completions]; rewrite IH.
    - rewrite map_length. reflexivity.
    - rewrite flat_both_length. lia. }
  rewrite G. lia.
Qed.

Lemma completions_total : forall m, completions (map Some m) = [m].
Proof. induction m as [|b m IH]; [reflexivity|]. simpl. rewrite IH. reflexivity. Qed.

Lemma agrees_total : forall m m', agrees (map Some m) m' = true <-> m' = m.
Proof.
  intros m m'. rewrite <- in_completions, completions_total. simpl.
  split; [intros [H|[]]; auto|auto].
Qed.

Lemma agrees_none : forall n m, length m = n -> agrees (repeat None n) m = true.
Proof.
  induction n as [|n IH]; intros [|b m] H; try discriminate; [reflexivity|].
  simpl. apply IH. simpl in H. lia.
Qed.

(* ------------------------------------------------------------------ *)
(* The reference set.                                                   *)

Lemma in_sols : forall n P m,
  In m (sols n P) <-> length m = n /\ sat_problem m P = true.
Proof.
  intros n P m. unfold sols. rewrite filter_In. split.
  - intros [H1 H2]. split; [apply all_models_length; exact H1|exact H2].
  - intros [H1 H2]. split; [apply all_models_complete; exact H1|exact H2].
Qed.

Lemma sols_NoDup : forall n P, NoDup (sols n P).
Proof. intros. unfold sols. apply NoDup_filter. apply all_models_NoDup. Qed.

Lemma filter_length_bound : forall (A : Type) (f : A -> bool) l,
  (length (filter f l) <= length l)%nat.
Proof.
  intros A f l. induction l as [|a l IH]; simpl; [lia|].
  destruct (f a); simpl; lia.
Qed.

Lemma sols_length_le : forall n P, (length (sols n P) <= Nat.pow 2 n)%nat.
Proof.
  intros. unfold sols. rewrite <- all_models_count. apply filter_length_bound.
Qed.

Lemma sols_nil : forall n, sols n [] = all_models n.
Proof.
  intros n. unfold sols. induction (all_models n) as [|a l IH]; [reflexivity|].
  simpl. f_equal. exact IH.
Qed.

Lemma sols_unsat : forall n P,
  (forall m, length m = n -> sat_problem m P = false) -> sols n P = [].
Proof.
  intros n P H. destruct (sols n P) as [|m l] eqn:E; [reflexivity|].
  assert (Hin : In m (sols n P)) by (rewrite E; left; reflexivity).
  apply in_sols in Hin. destruct Hin as [L S]. rewrite (H m L) in S. discriminate.
Qed.

(* ------------------------------------------------------------------ *)
(* The loop.                                                            *)

Section Loop.

Variable solveD : nat -> problem -> option (pmodel * list lit).
Hypothesis solveD_good : solveD_pm_ok solveD.

(* The blocking clause removes exactly the models the binding array stands for. *)
Lemma block_decisions_exact_pm : forall n P pm ds,
  solveD n P = Some (pm, ds) ->
  forall m', length m' = n ->
    (sat_problem m' (P ++ [block ds]) = true <->
     sat_problem m' P = true /\ agrees pm m' = false).
Proof.
  intros n P pm ds E m' L. pose proof (solveD_good n P) as H. rewrite E in H.
  destruct H as [Hl [Hnz [Hin Hout]]].
  rewrite sat_problem_snoc, (sat_block m' ds Hnz), andb_true_iff, negb_true_iff.
  split; intros [S B]; (split; [exact S|]).
  - destruct (agrees pm m') eqn:A; [|reflexivity].
    destruct (Hin m' A) as [_ F]. apply forallb_Forall_true in F.
    rewrite F in B. discriminate.
  - destruct (forallb (lit_val m') ds) eqn:F; [|reflexivity].
    apply forallb_Forall_true in F. rewrite (Hout m' L S F) in B. discriminate.
Qed.

Lemma sols_split : forall n P pm ds, solveD n P = Some (pm, ds) ->
  Permutation (completions pm ++ sols n (P ++ [block ds])) (sols n P).
Proof.
  intros n P pm ds E. pose proof (solveD_good n P) as H. rewrite E in H.
  destruct H as [Hl [Hnz [Hin Hout]]].
  apply NoDup_Permutation.
  - apply NoDup_app_disj; [apply completions_NoDup|apply sols_NoDup|].
    intros x H1 H2. apply in_completions in H1. apply in_sols in H2.
    destruct H2 as [L S].
    apply (block_decisions_exact_pm n P pm ds E x L) in S.
    destruct S as [_ S]. rewrite H1 in S. discriminate.
  - apply sols_NoDup.
  - intros x. rewrite in_app_iff, in_completions, !in_sols. split.
    + intros [A|[L S]].
      * split; [rewrite (agrees_length _ _ A); exact Hl|apply (Hin x A)].
      * split; [exact L|]. apply (block_decisions_exact_pm n P pm ds E x L) in S. apply S.
    + intros [L S]. destruct (agrees pm x) eqn:A; [left; reflexivity|right].
      split; [exact L|]. apply (block_decisions_exact_pm n P pm ds E x L). auto.
Qed.

Lemma sols_last : forall n P pm, solveD n P = Some (pm, []) ->
  Permutation (completions pm) (sols n P).
Proof.
  intros n P pm E. pose proof (solveD_good n P) as H. rewrite E in H.
  destruct H as [Hl [Hnz [Hin Hout]]].
  apply NoDup_Permutation; [apply completions_NoDup|apply sols_NoDup|].
  intros x. rewrite in_completions, in_sols. split.
  - intros A. split; [rewrite (agrees_length _ _ A); exact Hl|apply (Hin x A)].
  - intros [L S]. apply Hout; auto.
Qed.

Lemma sols_none : forall n P, solveD n P = None -> sols n P = [].
Proof.
  intros n P E. pose proof (solveD_good n P) as H. rewrite E in H.
  apply sols_unsat. exact H.
Qed.

(* Whatever the fuel, a finished enumeration is exactly the reference set. *)
Lemma enum_loop_sound : forall fuel n P l,
  enum_loop solveD fuel n P = Some l -> Permutation l (sols n P).
Proof.
  induction fuel as [|f IH]; intros n P l H; [discriminate|].
  cbn [enum_loop] in H. destruct (solveD n P) as [[pm ds]|] eqn:E.
  - destruct ds as [|d ds'].
    + injection H as <-. apply sols_last. exact E.
    + rewrite next_problem_eq in H.
      destruct (enum_loop solveD f n (P ++ [block (d :: ds')])) as [r|] eqn:R; [|discriminate].
      injection H as <-. apply IH in R.
      eapply Permutation_trans; [|apply (sols_split n P pm (d :: ds') E)].
      apply Permutation_app_head. exact R.
  - injection H as <-. rewrite (sols_none n P E). constructor.
Qed.

(* Each iteration removes at least one model, so |sols| + 1 iterations suffice. *)
Lemma enum_loop_fuel : forall fuel n P, (length (sols n P) < fuel)%nat ->
  exists l, enum_loop solveD fuel n P = Some l.
Proof.
  induction fuel as [|f IH]; intros n P H; [lia|].
  cbn [enum_loop]. destruct (solveD n P) as [[pm ds]|] eqn:E; [|eauto].
  destruct ds as [|d ds']; [eauto|].
  rewrite next_problem_eq.
  pose proof (Permutation_length (sols_split n P pm (d :: ds') E)) as HL.
  rewrite app_length in HL. pose proof (completions_nonempty pm) as HC.
  destruct (IH n (P ++ [block (d :: ds')])) as [r Hr]; [lia|].
  rewrite Hr. eauto.
Qed.

Lemma enum_fuel_enough : forall n P, (length (sols n P) < enum_fuel n)%nat.
Proof. intros. unfold enum_fuel. pose proof (sols_length_le n P). lia. Qed.

Lemma count_loop_enum : forall fuel n P,
  count_loop solveD fuel n P =
  option_map (fun l => N.of_nat (length l)) (enum_loop solveD fuel n P).
Proof.
  induction fuel as [|f IH]; intros n P; [reflexivity|].
  cbn [count_loop enum_loop]. destruct (solveD n P) as [[pm ds]|]; [|reflexivity].
  destruct ds as [|d ds'].
  - simpl. rewrite count_current_spec. reflexivity.
  - rewrite IH. destruct (enum_loop solveD f n (next_problem P (d :: ds'))) as [r|]; [|reflexivity].
    simpl. rewrite count_current_spec, app_length. f_equal. lia.
Qed.

Theorem enumerate_pm_perm : forall n P,
  exists l, enumerate_pm solveD n P = Some l /\ Permutation l (sols n P).
Proof.
  intros n P. unfold enumerate_pm.
  destruct (enum_loop_fuel (enum_fuel n) n P (enum_fuel_enough n P)) as [l Hl].
  exists l. split; [exact Hl|]. eapply enum_loop_sound. exact Hl.
Qed.

Theorem enumerate_pm_nodup : forall n P l,
  enumerate_pm solveD n P = Some l -> NoDup l.
Proof.
  intros n P l H. apply enum_loop_sound in H.
  eapply Permutation_NoDup; [apply Permutation_sym; exact H|apply sols_NoDup].
Qed.

Theorem count_pm_spec : forall n P,
  count_pm solveD n P = Some (N.of_nat (length (sols n P))) /\
  count_pm solveD n P = option_map (fun l => N.of_nat (length l)) (enumerate_pm solveD n P).
Proof.
  intros n P. unfold count_pm. rewrite count_loop_enum. fold (enumerate_pm solveD n P).
  split; [|reflexivity].
  destruct (enumerate_pm_perm n P) as [l [Hl Hp]]. rewrite Hl. simpl.
  rewrite (Permutation_length Hp). reflexivity.
Qed.

Theorem count_pm_trivial : forall n,
  count_pm solveD n [] = Some (N.pow 2 (N.of_nat n)).
Proof.
  intros n. destruct (count_pm_spec n []) as [H _]. rewrite H.
  rewrite sols_nil, all_models_count. f_equal.
  rewrite Nat2N.inj_pow. reflexivity.
Qed.

Theorem count_pm_unsat : forall n P,
  (forall m, length m = n -> sat_problem m P = false) ->
  count_pm solveD n P = Some 0%N /\ enumerate_pm solveD n P = Some [].
Proof.
  intros n P H. destruct (count_pm_spec n P) as [Hc _].
  rewrite (sols_unsat n P H) in Hc. split; [exact Hc|].
  destruct (enumerate_pm_perm n P) as [l [Hl Hp]]. rewrite (sols_unsat n P H) in Hp.
  apply Permutation_sym, Permutation_nil in Hp. subst l. exact Hl.
Qed.

End Loop.

(* ------------------------------------------------------------------ *)
(* Total-model searches.                                                *)

Lemma lift_total_ok : forall solveD, solveD_ok solveD -> solveD_pm_ok (lift_total solveD).
Proof.
  intros solveD H n P. unfold lift_total. specialize (H n P).
  destruct (solveD n P) as [[m ds]|]; [|exact H].
  destruct H as [L [S [F U]]]. split; [rewrite map_length; exact L|].
  split; [|split].
  - eapply Forall_impl; [|exact F]. intros d [Hd _]. exact Hd.
  - intros m' A. apply agrees_total in A. subst m'. split; [exact S|].
    eapply Forall_impl; [|exact F]. intros d [_ Hd]. exact Hd.
  - intros m' L' S' F'. apply agrees_total. apply U; assumption.
Qed.

Section Total.

Variable solveD : nat -> problem -> option (model * list lit).
Hypothesis solveD_good : solveD_ok solveD.

Lemma block_decisions_exact : forall n P m ds,
  solveD n P = Some (m, ds) ->
  forall m', length m' = n ->
    (sat_problem m' (P ++ [block ds]) = true <-> sat_problem m' P = true /\ m' <> m).
Proof.
  intros n P m ds E m' L.
  assert (E' : lift_total solveD n P = Some (map Some m, ds)).
  { unfold lift_total. rewrite E. reflexivity. }
  rewrite (block_decisions_exact_pm _ (lift_total_ok _ solveD_good) n P _ ds E' m' L).
  split; intros [S A]; (split; [exact S|]).
  - intros ->. rewrite (proj2 (agrees_total m m) eq_refl) in A. discriminate.
  - destruct (agrees (map Some m) m') eqn:G; [|reflexivity].
    apply agrees_total in G. contradiction.
Qed.

Theorem enumerate_perm : forall n P,
  exists l, enumerate solveD n P = Some l /\
            Permutation l (filter (fun m => sat_problem m P) (all_models n)).
Proof. intros. apply (enumerate_pm_perm _ (lift_total_ok _ solveD_good)). Qed.

Theorem enumerate_nodup : forall n P l, enumerate solveD n P = Some l -> NoDup l.
Proof. intros n P l. apply (enumerate_pm_nodup _ (lift_total_ok _ solveD_good)). Qed.

Theorem model_count_spec : forall n P,
  model_count solveD n P =
    Some (N.of_nat (length (filter (fun m => sat_problem m P) (all_models n)))) /\
  model_count solveD n P =
    option_map (fun l => N.of_nat (length l)) (enumerate solveD n P).
Proof. intros. apply (count_pm_spec _ (lift_total_ok _ solveD_good)). Qed.

Theorem model_count_dec : forall n P,
  model_count solveD n P = Some (count_models n (fun m => sat_problem m P)).
Proof.
  intros n P. rewrite count_models_spec. apply model_count_spec.
Qed.

Theorem model_count_trivial : forall n,
  model_count solveD n [] = Some (N.pow 2 (N.of_nat n)).
Proof. intros. apply (count_pm_trivial _ (lift_total_ok _ solveD_good)). Qed.

Theorem model_count_unsat : forall n P,
  (forall m, length m = n -> sat_problem m P = false) ->
  model_count solveD n P = Some 0%N /\ enumerate solveD n P = Some [].
Proof. intros n P. apply (count_pm_unsat _ (lift_total_ok _ solveD_good)). Qed.

End Total.

(* ------------------------------------------------------------------ *)
(* The executable instances satisfy the contract.                       *)

Lemma lit_of_nonzero : forall i b, lit_of i b <> 0.
Proof. intros i b. unfold lit_of. destruct b; lia. Qed.

Lemma lit_val_lit_of : forall m i b,
  lit_val m (lit_of i b) = Bool.eqb (nth i m false) b.
Proof.
  intros m i b. unfold lit_of, lit_val, var_val. destruct b.
  - replace (0 <? Z.of_nat (S i)) with true by (symmetry; apply Z.ltb_lt; lia).
    replace (Z.to_nat (Z.of_nat (S i) - 1)) with i by lia.
    destruct (nth i m false); reflexivity.
  - replace (0 <? - Z.of_nat (S i)) with false by (symmetry; apply Z.ltb_ge; lia).
    rewrite Z.opp_involutive.
    replace (Z.to_nat (Z.of_nat (S i) - 1)) with i by lia.
    destruct (nth i m false); reflexivity.
Qed.

Lemma in_model_lits_from : forall m i k, (k < length m)%nat ->
  In (lit_of (i + k) (nth k m false)) (model_lits_from i m).
Proof.
  induction m as [|b m IH]; intros i k H; simpl in H; [lia|].
  destruct k as [|k]; simpl.
  - left. f_equal. lia.
  - right. replace (i + S k)%nat with (S i + k)%nat by lia. apply IH. lia.
Qed.

Lemma model_lits_from_char : forall m i d, In d (model_lits_from i m) ->
  exists k, (k < length m)%nat /\ d = lit_of (i + k) (nth k m false).
Proof.
  induction m as [|b m IH]; intros i d H; simpl in H; [contradiction|].
  destruct H as [<-|H].
  - exists 0%nat. simpl. split; [lia|]. f_equal. lia.
  - apply IH in H. destruct H as [k [Hk ->]]. exists (S k). simpl. split; [lia|].
    f_equal. lia.
Qed.

Lemma model_lits_true : forall m,
  Forall (fun d => d <> 0 /\ lit_val m d = true) (model_lits m).
Proof.
  intros m. apply Forall_forall. intros d H. apply model_lits_from_char in H.
  destruct H as [k [Hk ->]]. split; [apply lit_of_nonzero|].
  rewrite lit_val_lit_of. simpl. apply eqb_reflx.
Qed.

Lemma model_lits_determine : forall m m', length m' = length m ->
  Forall (fun d => lit_val m' d = true) (model_lits m) -> m' = m.
Proof.
  intros m m' L F. apply (nth_ext _ _ false false L). intros k Hk.
  rewrite Forall_forall in F.
  assert (Hin : In (lit_of (0 + k) (nth k m false)) (model_lits m)).
  { apply in_model_lits_from. lia. }
  apply F in Hin. rewrite lit_val_lit_of in Hin. simpl in Hin.
  apply eqb_prop in Hin. exact Hin.
Qed.

Theorem solveD_all_ok : solveD_ok solveD_all.
Proof.
  intros n P. unfold solveD_all. destruct (ref_solve n P) as [m|] eqn:E.
  - apply ref_solve_some in E. destruct E as [L S].
    split; [exact L|]. split; [exact S|]. split; [apply model_lits_true|].
    intros m' L' _ F. apply model_lits_determine; [lia|exact F].
  - apply ref_solve_none. exact E.
Qed.

Lemma sat_unit_lits : forall m ls,
  sat_problem m (unit_lits ls) = forallb (lit_val m) ls.
Proof.
  intros m ls. unfold unit_lits, sat_problem.
  induction ls as [|l ls IH]; [reflexivity|].
  cbn [map forallb]. rewrite IH, sat_clause_pbc. unfold sat_clause. simpl.
  rewrite orb_false_r. reflexivity.
Qed.

(* Invariant of [minimize]: the problem and kept ++ todo determine m. *)
Lemma minimize_ok : forall n P m todo kept,
  Forall (fun d => d <> 0 /\ lit_val m d = true) (kept ++ todo) ->
  (forall m', length m' = n -> sat_problem m' P = true ->
              Forall (fun d => lit_val m' d = true) (kept ++ todo) -> m' = m) ->
  Forall (fun d => d <> 0 /\ lit_val m d = true) (minimize n P kept todo) /\
  (forall m', length m' = n -> sat_problem m' P = true ->
              Forall (fun d => lit_val m' d = true) (minimize n P kept todo) -> m' = m).
Proof.
  intros n P m. induction todo as [|d r IH]; intros kept F U.
  - simpl. rewrite app_nil_r in F, U. auto.
  - cbn [minimize].
    destruct (ref_solve n _) as [x|] eqn:E.
    + apply IH; rewrite <- app_assoc; simpl; assumption.
    + assert (Hd : d <> 0).
      { rewrite Forall_forall in F. apply (F d). apply in_or_app. right. left. reflexivity. }
      apply IH.
      * apply Forall_app in F. destruct F as [F1 F2]. inversion F2; subst.
        apply Forall_app. auto.
      * intros m' L S F'. apply U; try assumption.
        pose proof (ref_solve_none _ _ E m' L) as N.
        rewrite !sat_problem_app, S, sat_unit_lits in N.
        unfold lit in *. rewrite (proj2 (forallb_Forall_true _ _ _) F') in N.
        unfold sat_problem in N. simpl in N. rewrite sat_clause_pbc in N.
        unfold sat_clause in N. simpl in N.
        rewrite (lit_val_opp m' d Hd) in N.
        destruct (lit_val m' d) eqn:V; [|simpl in N; discriminate].
        apply Forall_app in F'. destruct F' as [F1 F2].
        apply Forall_app. split; [exact F1|]. constructor; assumption.
Qed.

Theorem solveD_min_ok : solveD_ok solveD_min.
Proof.
  intros n P. unfold solveD_min. destruct (ref_solve n P) as [m|] eqn:E.
  - apply ref_solve_some in E. destruct E as [L S].
    split; [exact L|]. split; [exact S|].
    apply (minimize_ok n P m (model_lits m) []).
    + simpl. apply model_lits_true.
    + simpl. intros m' L' _ F. apply model_lits_determine; [lia|exact F].
  - apply ref_solve_none. exact E.
Qed.

Lemma trivial_pbc_sat : forall m c, trivial_pbc c = true -> sat_pbc m c = true.
Proof.
  intros m c H. unfold trivial_pbc in H. apply andb_true_iff in H.
  destruct H as [Hn Hd]. apply Z.leb_le in Hd. unfold sat_pbc. apply Z.leb_le.
  assert (G : forall ts, nonneg_terms ts = true -> 0 <= lhs m ts).
  { induction ts as [|t ts IH]; simpl; intros Hts; [lia|].
    apply andb_true_iff in Hts. destruct Hts as [Ht Hr]. apply Z.leb_le in Ht.
    specialize (IH Hr). unfold term_val. destruct (lit_val m (snd t)); lia. }
  specialize (G _ Hn). lia.
Qed.

Theorem solveD_ref_ok : solveD_pm_ok solveD_ref.
Proof.
  intros n P. unfold solveD_ref. destruct (forallb trivial_pbc P) eqn:T.
  - split; [apply repeat_length|]. split; [constructor|]. split.
    + intros m _. split; [|constructor]. unfold sat_problem.
      apply forallb_forall. intros c Hc. apply trivial_pbc_sat.
      rewrite forallb_forall in T. apply T. exact Hc.
    + intros m' L _ _. apply agrees_none. exact L.
  - apply (lift_total_ok _ solveD_min_ok).
Qed.
