(* Proofs/Rup.v -- soundness, completeness, restore and subset theorems for
   Model/Rup.v. *)
From Coq Require Import List ZArith Lia Bool Arith.
From GS Require Import Spec.Base Model.Rup.
Import ListNotations.
Open Scope Z_scope.

(* ================================================================== *)
(* 0. Semantics helpers                                                *)

Definition entails (n : nat) (f : cnf) (c : clause) : Prop :=
  forall m, length m = n -> sat_cnf m f = true -> sat_clause m c = true.

Lemma lit_val_opp : forall m l, l <> 0 -> lit_val m (- l) = negb (lit_val m l).
Proof.
  intros m l Hl. unfold lit_val.
  destruct (0 <? l) eqn:E1; destruct (0 <? - l) eqn:E2;
    try apply Z.ltb_lt in E1; try apply Z.ltb_lt in E2;
    try apply Z.ltb_ge in E1; try apply Z.ltb_ge in E2; try lia.
  - rewrite ?Z.opp_involutive, ?negb_involutive. reflexivity.
  - rewrite ?Z.opp_involutive, ?negb_involutive. reflexivity.
Qed.

Lemma sat_clause_app : forall m a b, sat_clause m (a ++ b) = sat_clause m a || sat_clause m b.
Proof. intros. unfold sat_clause. apply existsb_app. Qed.

Lemma sat_cnf_app : forall m a b, sat_cnf m (a ++ b) = sat_cnf m a && sat_cnf m b.
Proof. intros. unfold sat_cnf. apply forallb_app. Qed.

Lemma sat_cnf_In : forall m f c, sat_cnf m f = true -> In c f -> sat_clause m c = true.
Proof. intros m f c H Hin. unfold sat_cnf in H. rewrite forallb_forall in H. auto. Qed.

Lemma sat_cnf_forall : forall m f, (forall c, In c f -> sat_clause m c = true) -> sat_cnf m f = true.
Proof. intros. unfold sat_cnf. apply forallb_forall. auto. Qed.

Lemma wf_cnfb_spec : forall f, wf_cnfb f = true <-> wf_cnf f.
Proof.
  intros f. unfold wf_cnfb, wf_cnf, wf_clause. rewrite forallb_forall. split.
  - intros H c Hc l Hl E. specialize (H c Hc). rewrite forallb_forall in H.
    specialize (H l Hl). subst l. discriminate.
  - intros H c Hc. apply forallb_forall. intros l Hl.
    apply negb_true_iff. apply Z.eqb_neq. exact (H c Hc l Hl).
Qed.

(* ================================================================== *)
(* 1. The units array                                                  *)

Lemma set_nth_length : forall A i (x : A) l, length (set_nth i x l) = length l.
Proof. intros A i x l. revert i. induction l as [|a l IH]; intros [|i]; simpl; auto. Qed.

Lemma nth_set_nth_eq : forall A i (x d : A) l, (i < length l)%nat -> nth i (set_nth i x l) d = x.
Proof.
  intros A i x d l. revert i. induction l as [|a l IH]; intros [|i] H; simpl in *; try lia; auto.
  apply IH. lia.
Qed.

Lemma nth_set_nth_neq : forall A i j (x d : A) l, i <> j -> nth j (set_nth i x l) d = nth j l d.
Proof.
  intros A i j x d l. revert i j. induction l as [|a l IH]; intros [|i] [|j] H; simpl; auto; try lia.
Qed.

Definition in_range (n : nat) (l : lit) : Prop := 1 <= Z.abs l <= Z.of_nat n.
Definition lits_in (n : nat) (c : clause) : Prop := forall l, In l c -> in_range n l.
Definition cnf_in (n : nat) (f : cnf) : Prop := forall c, In c f -> lits_in n c.

Lemma range_okb_spec : forall n f, range_okb n f = true <-> cnf_in n f.
Proof.
  intros n f. unfold range_okb, cnf_in, lits_in, in_range, lit_in_rangeb.
  rewrite forallb_forall. split.
  - intros H c Hc l Hl. specialize (H c Hc). rewrite forallb_forall in H.
    specialize (H l Hl). apply andb_true_iff in H. destruct H as [H1 H2].
    apply Z.leb_le in H1. apply Z.leb_le in H2. lia.
  - intros H c Hc. apply forallb_forall. intros l Hl. specialize (H c Hc l Hl).
    apply andb_true_iff. split; apply Z.leb_le; lia.
Qed.

Lemma set_unit_length : forall u v x, length (set_unit u v x) = length u.
Proof. intros. unfold set_unit. destruct (1 <=? v); auto. apply set_nth_length. Qed.

Lemma get_set_eq : forall u v x, 1 <= v <= Z.of_nat (length u) -> get_unit (set_unit u v x) v = x.
Proof.
  intros u v x H. unfold get_unit, set_unit.
  destruct (1 <=? v) eqn:E; [|apply Z.leb_gt in E; lia].
  apply nth_set_nth_eq. lia.
Qed.

Lemma get_set_neq : forall u v w x, 1 <= w -> w <> v -> get_unit (set_unit u v x) w = get_unit u w.
Proof.
  intros u v w x Hw Hne. unfold get_unit, set_unit.
  destruct (1 <=? v) eqn:E; [|reflexivity]. apply Z.leb_le in E.
  apply nth_set_nth_neq. lia.
Qed.

Definition unit_val (b : Z) : Prop := b = 0 \/ b = 1 \/ b = -1.
Definition units_ok (u : list Z) : Prop := forall v, unit_val (get_unit u v).

Lemma Forall_nth_default : forall (P : Z -> Prop) l d i, Forall P l -> P d -> P (nth i l d).
Proof.
  intros P l d i H Hd. revert i. induction H as [|a l Ha Hl IH]; intros [|i]; simpl; auto.
Qed.

Lemma units_ok_repeat : forall n, units_ok (repeat 0 n).
Proof.
  intros n v. unfold get_unit. apply Forall_nth_default; [|left; reflexivity].
  apply Forall_forall. intros x Hx. apply repeat_spec in Hx. left. exact Hx.
Qed.

Lemma get_set_nth_cases : forall u i x j,
  nth j (set_nth i x u) 0 = x \/ nth j (set_nth i x u) 0 = nth j u 0.
Proof.
  intros u i x j. destruct (Nat.eq_dec i j) as [->|Hne].
  - destruct (lt_dec j (length u)) as [Hl|Hl].
    + left. apply nth_set_nth_eq. exact Hl.
    + right. rewrite !nth_overflow; auto; try rewrite set_nth_length; lia.
  - right. apply nth_set_nth_neq. exact Hne.
Qed.

Lemma units_ok_set : forall u v x, units_ok u -> unit_val x -> units_ok (set_unit u v x).
Proof.
  intros u v x Hu Hx w. unfold set_unit. destruct (1 <=? v); [|apply Hu].
  unfold get_unit. destruct (get_set_nth_cases u (Z.to_nat (v - 1)) x (Z.to_nat (w - 1))) as [E|E];
    rewrite E; [exact Hx|apply Hu].
Qed.

(* status of a literal under the array *)
Definition u_true (u : list Z) (l : lit) : Prop :=
  get_unit u (Z.abs l) <> 0 /\ get_unit u (Z.abs l) * l = Z.abs l.
Definition u_false (u : list Z) (l : lit) : Prop :=
  get_unit u (Z.abs l) <> 0 /\ get_unit u (Z.abs l) * l <> Z.abs l.
Definition u_unb (u : list Z) (l : lit) : Prop := get_unit u (Z.abs l) = 0.

(* a model agrees with the array *)
Definition agrees (m : model) (u : list Z) : Prop :=
  forall v, 1 <= v ->
    (get_unit u v = 1 -> var_val m v = true) /\ (get_unit u v = -1 -> var_val m v = false).

Lemma agrees_true : forall m u l, agrees m u -> units_ok u -> l <> 0 -> u_true u l -> lit_val m l = true.
Proof.
  intros m u l Ha Ho Hl [Hn He]. unfold lit_val.
  destruct (Ha (Z.abs l) ltac:(lia)) as [H1 H2].
  destruct (Ho (Z.abs l)) as [E|[E|E]]; [contradiction| |]; rewrite E in *.
  - assert (0 < l) by lia. destruct (0 <? l) eqn:P; [|apply Z.ltb_ge in P; lia].
    rewrite Z.abs_eq in H1 by lia. auto.
  - assert (l < 0) by lia. destruct (0 <? l) eqn:P; [apply Z.ltb_lt in P; lia|].
    rewrite Z.abs_neq in H2 by lia. rewrite H2; auto.
Qed.

Lemma agrees_false : forall m u l, agrees m u -> units_ok u -> l <> 0 -> u_false u l -> lit_val m l = false.
Proof.
  intros m u l Ha Ho Hl [Hn He]. unfold lit_val.
  destruct (Ha (Z.abs l) ltac:(lia)) as [H1 H2].
  destruct (Ho (Z.abs l)) as [E|[E|E]]; [contradiction| |]; rewrite E in *.
  - assert (l < 0) by lia. destruct (0 <? l) eqn:P; [apply Z.ltb_lt in P; lia|].
    rewrite Z.abs_neq in H1 by lia. rewrite H1; auto.
  - assert (0 < l) by lia. destruct (0 <? l) eqn:P; [|apply Z.ltb_ge in P; lia].
    rewrite Z.abs_eq in H2 by lia. auto.
Qed.

Lemma agrees_set : forall m u v x, agrees m u -> 1 <= v ->
  (x = 1 -> var_val m v = true) -> (x = -1 -> var_val m v = false) ->
  agrees m (set_unit u v x).
Proof.
  intros m u v x Ha Hv H1 H2 w Hw.
  destruct (Z.eq_dec w v) as [->|Hne].
  - unfold set_unit. destruct (1 <=? v) eqn:E; [|apply Z.leb_gt in E; lia].
    unfold get_unit.
    destruct (get_set_nth_cases u (Z.to_nat (v - 1)) x (Z.to_nat (v - 1))) as [E2|E2]; rewrite E2.
    + split; auto.
    + apply (Ha v Hv).
  - rewrite get_set_neq by assumption. apply Ha. exact Hw.
Qed.

(* literal made true by assign_lit *)
Lemma agrees_assign : forall m u l, agrees m u -> l <> 0 -> lit_val m l = true -> agrees m (assign_lit u l).
Proof.
  intros m u l Ha Hl Hv. unfold assign_lit. unfold lit_val in Hv.
  destruct (l <? 0) eqn:E.
  - apply Z.ltb_lt in E. destruct (0 <? l) eqn:P; [apply Z.ltb_lt in P; lia|].
    apply agrees_set; auto; try lia. intros _. apply negb_true_iff in Hv. exact Hv.
  - apply Z.ltb_ge in E. destruct (0 <? l) eqn:P; [|apply Z.ltb_ge in P; lia].
    apply agrees_set; auto; try lia.
Qed.

Lemma units_ok_assign : forall u l, units_ok u -> units_ok (assign_lit u l).
Proof.
  intros u l H. unfold assign_lit. destruct (l <? 0); apply units_ok_set; auto;
    unfold unit_val; auto.
Qed.

Lemma assign_lit_length : forall u l, length (assign_lit u l) = length u.
Proof. intros. unfold assign_lit. destruct (l <? 0); apply set_unit_length. Qed.

Lemma agrees_neg_lit : forall m u l, agrees m u -> l <> 0 -> lit_val m l = false -> agrees m (neg_lit u l).
Proof.
  intros m u l Ha Hl Hv. unfold neg_lit. unfold lit_val in Hv.
  destruct (0 <? l) eqn:P.
  - apply Z.ltb_lt in P. apply agrees_set; auto; try lia.
  - apply Z.ltb_ge in P. apply agrees_set; auto; try lia.
    intros _. apply negb_false_iff in Hv. exact Hv.
Qed.

Lemma units_ok_neg_lit : forall u l, units_ok u -> units_ok (neg_lit u l).
Proof.
  intros u l H. unfold neg_lit. destruct (0 <? l); apply units_ok_set; auto; unfold unit_val; auto.
Qed.

Lemma neg_lit_length : forall u l, length (neg_lit u l) = length u.
Proof. intros. unfold neg_lit. destruct (0 <? l); apply set_unit_length. Qed.

Lemma agrees_neg_assign : forall m c u, agrees m u -> wf_clause c -> sat_clause m c = false ->
  agrees m (neg_assign u c).
Proof.
  intros m c. unfold neg_assign. induction c as [|l c IH]; intros u Ha Hwf Hs; simpl; auto.
  unfold sat_clause in Hs. simpl in Hs. apply orb_false_iff in Hs. destruct Hs as [Hl Hc].
  apply IH.
  - apply agrees_neg_lit; auto. apply Hwf. left; reflexivity.
  - intros x Hx. apply Hwf. right; exact Hx.
  - exact Hc.
Qed.

Lemma units_ok_neg_assign : forall c u, units_ok u -> units_ok (neg_assign u c).
Proof.
  unfold neg_assign. induction c as [|l c IH]; intros u H; simpl; auto.
  apply IH. apply units_ok_neg_lit. exact H.
Qed.

Lemma neg_assign_length : forall c u, length (neg_assign u c) = length u.
Proof.
  unfold neg_assign. induction c as [|l c IH]; intros u; simpl; auto.
  rewrite IH. apply neg_lit_length.
Qed.

(* ================================================================== *)
(* 2. Soundness of the propagation loop, relative to the tags          *)

Lemma scan_sound : forall m u, agrees m u -> units_ok u ->
  forall c acc, wf_clause c ->
  (sat_clause m c = true \/ match acc with Some l => lit_val m l = true | None => False end) ->
  match scan_clause u c acc with
  | SFalse => False
  | SUnit l => lit_val m l = true
  | _ => True
  end.
Proof.
  intros m u Ha Ho. induction c as [|l c IH]; intros acc Hwf Hs.
  - simpl. destruct acc as [l|].
    + destruct Hs as [Hs|Hs]; [discriminate|exact Hs].
    + destruct Hs as [Hs|[]]. discriminate.
  - cbn [scan_clause].
    assert (Hl : l <> 0) by (apply Hwf; left; reflexivity).
    assert (Hwf' : wf_clause c) by (intros x Hx; apply Hwf; right; exact Hx).
    destruct (get_unit u (Z.abs l) =? 0) eqn:E0.
    + destruct acc as [l0|].
      * destruct (l =? l0) eqn:El; [|exact I]. apply Z.eqb_eq in El. subst l0.
        apply IH; [exact Hwf'|].
        destruct Hs as [Hs|Hs]; [|right; exact Hs]. unfold sat_clause in Hs. simpl in Hs.
        apply orb_true_iff in Hs. destruct Hs as [Hs|Hs]; [right; exact Hs|left; exact Hs].
      * apply IH; [exact Hwf'|].
        destruct Hs as [Hs|[]]. unfold sat_clause in Hs. simpl in Hs.
        apply orb_true_iff in Hs. destruct Hs as [Hs|Hs]; [right; exact Hs|left; exact Hs].
    + apply Z.eqb_neq in E0.
      destruct (get_unit u (Z.abs l) * l =? Z.abs l) eqn:E1; [exact I|].
      apply Z.eqb_neq in E1.
      assert (Hf : lit_val m l = false) by (apply (agrees_false m u); auto; split; auto).
      apply IH; [exact Hwf'|].
      destruct Hs as [Hs|Hs]; [left|right; exact Hs].
      unfold sat_clause in Hs. simpl in Hs. rewrite Hf in Hs. exact Hs.
Qed.

Definition tags_le (t : list bool) (T : nat -> bool) : Prop :=
  forall i, nth i t false = true -> T i = true.

Lemma tag_length : forall nb i t, length (tag nb i t) = length t.
Proof. intros. unfold tag. destruct (i <? nb)%nat; auto. apply set_nth_length. Qed.

Lemma tag_mono : forall nb i t j, nth j t false = true -> nth j (tag nb i t) false = true.
Proof.
  intros nb i t j H. unfold tag. destruct (i <? nb)%nat; auto.
  destruct (Nat.eq_dec i j) as [->|Hne].
  - apply nth_set_nth_eq. destruct (lt_dec j (length t)); auto.
    rewrite nth_overflow in H by lia. discriminate.
  - rewrite nth_set_nth_neq by exact Hne. exact H.
Qed.

Lemma tag_set : forall nb i t, (i < nb)%nat -> (i < length t)%nat -> nth i (tag nb i t) false = true.
Proof.
  intros nb i t H1 H2. unfold tag. destruct (i <? nb)%nat eqn:E.
  - apply nth_set_nth_eq. exact H2.
  - apply Nat.ltb_ge in E. lia.
Qed.

Definition pass_tags (r : pass_res) : list bool :=
  match r with PConflict t => t | PCont _ _ t _ => t end.

Lemma pass_tags_pcons : forall d c r, pass_tags (pcons d c r) = pass_tags r.
Proof. intros d c [t|mk u t md]; reflexivity. Qed.

Lemma pass_tags_mono : forall nb mk i u t md j,
  nth j t false = true -> nth j (pass_tags (pass nb i mk u t md)) false = true.
Proof.
  intros nb. induction mk as [|[d c] r IH]; intros i u t md j H; cbn [pass].
  - exact H.
  - destruct d; [rewrite pass_tags_pcons; apply IH; exact H|].
    destruct (scan_clause u c None); try (rewrite pass_tags_pcons; apply IH); auto.
    + simpl. apply tag_mono. exact H.
    + apply tag_mono. exact H.
Qed.

Lemma pass_tags_length : forall nb mk i u t md,
  length (pass_tags (pass nb i mk u t md)) = length t.
Proof.
  intros nb. induction mk as [|[d c] r IH]; intros i u t md; cbn [pass].
  - reflexivity.
  - destruct d; [rewrite pass_tags_pcons; apply IH|].
    destruct (scan_clause u c None); try (rewrite pass_tags_pcons; rewrite IH); auto.
    + simpl. apply tag_length.
    + apply tag_length.
Qed.

Lemma pass_clauses : forall nb mk i u t md mk' u' t' md',
  pass nb i mk u t md = PCont mk' u' t' md' -> map snd mk' = map snd mk.
Proof.
  intros nb. induction mk as [|[d c] r IH]; intros i u t md mk' u' t' md' H; cbn [pass] in H.
  - inversion H; reflexivity.
  - assert (G : forall d0 rr, pcons d0 c rr = PCont mk' u' t' md' ->
               (forall mk2 u2 t2 md2, rr = PCont mk2 u2 t2 md2 -> map snd mk2 = map snd r) ->
               map snd mk' = map snd ((d, c) :: r)).
    { intros d0 [tt|mk2 u2 t2 md2] E K; simpl in E; [discriminate|].
      inversion E; subst. simpl. f_equal. eapply K. reflexivity. }
    destruct d.
    + eapply G; [exact H|]. intros; eapply IH; eauto.
    + destruct (scan_clause u c None); try discriminate;
        (eapply G; [exact H|]; intros; eapply IH; eauto).
Qed.

Definition usable (nb : nat) (T : nat -> bool) (k : nat) : bool := (nb <=? k)%nat || T k.

(* the clauses that may be used are well formed and, when usable, true in m *)
Definition goodc (m : model) (nb : nat) (T : nat -> bool) (i : nat) (cs : cnf) : Prop :=
  forall j c, nth_error cs j = Some c ->
    wf_clause c /\ (usable nb T (i + j) = true -> sat_clause m c = true).

Lemma goodc_tail : forall m nb T i c cs, goodc m nb T i (c :: cs) -> goodc m nb T (S i) cs.
Proof.
  intros m nb T i c cs H j c' Hj. specialize (H (S j) c' Hj).
  replace (i + S j)%nat with (S i + j)%nat in H by lia. exact H.
Qed.

Lemma scan_unit_in : forall u c acc l, scan_clause u c acc = SUnit l -> acc = Some l \/ In l c.
Proof.
  intros u. induction c as [|x c IH]; intros acc l E; simpl in E.
  - destruct acc; inversion E; auto.
  - destruct (get_unit u (Z.abs x) =? 0).
    + destruct acc as [l0|].
      * destruct (x =? l0); [|discriminate]. destruct (IH _ _ E) as [H|H]; auto.
        right; right; exact H.
      * destruct (IH _ _ E) as [H|H].
        -- inversion H; subst. right; left; reflexivity.
        -- right; right; exact H.
    + destruct (get_unit u (Z.abs x) * x =? Z.abs x); [discriminate|].
      destruct (IH _ _ E) as [H|H]; auto. right; right; exact H.
Qed.

Lemma pass_sound : forall m nb T mk i u t md,
  agrees m u -> units_ok u -> length t = nb ->
  goodc m nb T i (map snd mk) ->
  tags_le (pass_tags (pass nb i mk u t md)) T ->
  match pass nb i mk u t md with
  | PConflict _ => False
  | PCont _ u' _ _ => agrees m u' /\ units_ok u'
  end.
Proof.
  intros m nb T. induction mk as [|[d c] r IH]; intros i u t md Ha Ho Hlen Hg Hle; cbn [pass] in *.
  - auto.
  - assert (Hg' := goodc_tail _ _ _ _ _ _ Hg).
    assert (K : forall d0 u0 t0 md0, agrees m u0 -> units_ok u0 -> length t0 = nb ->
              tags_le (pass_tags (pass nb (S i) r u0 t0 md0)) T ->
              match pcons d0 c (pass nb (S i) r u0 t0 md0) with
              | PConflict _ => False
              | PCont _ u' _ _ => agrees m u' /\ units_ok u'
              end).
    { intros d0 u0 t0 md0 Ha0 Ho0 Hl0 Hle0.
      specialize (IH (S i) u0 t0 md0 Ha0 Ho0 Hl0 Hg' Hle0).
      destruct (pass nb (S i) r u0 t0 md0); simpl; exact IH. }
    destruct d.
    + rewrite pass_tags_pcons in Hle. apply K; auto.
    + destruct (Hg 0%nat c eq_refl) as [Hwf Hsat]. rewrite Nat.add_0_r in Hsat.
      (* when this clause is used, it is tagged (or learned), hence true in m *)
      assert (Hused : forall tout, tags_le tout T ->
                (forall j, nth j (tag nb i t) false = true -> nth j tout false = true) ->
                sat_clause m c = true).
      { intros tout Hto Hmono. apply Hsat. unfold usable.
        destruct (nb <=? i)%nat eqn:E; [reflexivity|]. apply Nat.leb_gt in E. simpl.
        apply Hto. apply Hmono. apply tag_set; lia. }
      pose proof (scan_sound m u Ha Ho c None Hwf) as Hscan.
      destruct (scan_clause u c None) as [| |l|] eqn:Es.
      * rewrite pass_tags_pcons in Hle. apply K; auto.
      * simpl in Hle. apply Hscan. left. apply (Hused (tag nb i t)); auto.
      * rewrite pass_tags_pcons in Hle.
        assert (Hc : sat_clause m c = true).
        { apply (Hused _ Hle). intros j Hj. apply pass_tags_mono. exact Hj. }
        specialize (Hscan (or_introl Hc)).
        assert (Hl0 : l <> 0).
        { destruct (scan_unit_in u c None l Es) as [H|H]; [discriminate|]. apply Hwf. exact H. }
        apply K; auto.
        -- apply agrees_assign; auto.
        -- apply units_ok_assign; auto.
        -- rewrite tag_length. exact Hlen.
      * rewrite pass_tags_pcons in Hle. apply K; auto.
Qed.

Lemma up_loop_tags_mono : forall fuel nb mk u t j,
  nth j t false = true -> nth j (snd (up_loop fuel nb mk u t)) false = true.
Proof.
  induction fuel as [|f IH]; intros nb mk u t j H; cbn [up_loop].
  - exact H.
  - pose proof (pass_tags_mono nb mk 0 u t false j H) as Hm.
    destruct (pass nb 0 mk u t false) as [t'|mk' u' t' md]; simpl in Hm.
    + exact Hm.
    + destruct md; [apply IH; exact Hm|exact Hm].
Qed.

Lemma up_loop_tags_length : forall fuel nb mk u t,
  length (snd (up_loop fuel nb mk u t)) = length t.
Proof.
  induction fuel as [|f IH]; intros nb mk u t; cbn [up_loop].
  - reflexivity.
  - pose proof (pass_tags_length nb mk 0 u t false) as Hm.
    destruct (pass nb 0 mk u t false) as [t'|mk' u' t' md]; simpl in Hm.
    + exact Hm.
    + destruct md; [rewrite IH; exact Hm|exact Hm].
Qed.

Lemma up_loop_sound : forall m nb T fuel mk u t,
  agrees m u -> units_ok u -> length t = nb ->
  goodc m nb T 0 (map snd mk) ->
  tags_le (snd (up_loop fuel nb mk u t)) T ->
  fst (up_loop fuel nb mk u t) <> Some true.
Proof.
  intros m nb T. induction fuel as [|f IH]; intros mk u t Ha Ho Hlen Hg Hle; cbn [up_loop] in *.
  - discriminate.
  - pose proof (pass_sound m nb T mk 0 u t false Ha Ho Hlen Hg) as Hp.
    pose proof (pass_tags_length nb mk 0 u t false) as Hl.
    pose proof (pass_clauses nb mk 0 u t false) as Hc.
    destruct (pass nb 0 mk u t false) as [t'|mk' u' t' md]; cbn [pass_tags] in *.
    + exfalso. apply Hp. exact Hle.
    + destruct md; [|discriminate].
      assert (Hle' : tags_le t' T).
      { intros j Hj. apply Hle. apply up_loop_tags_mono. exact Hj. }
      destruct (Hp Hle') as [Ha' Ho'].
      apply IH; auto.
      * lia.
      * rewrite (Hc mk' u' t' true eq_refl). exact Hg.
Qed.

Lemma map_snd_pair_false : forall cs : cnf, map snd (map (pair false) cs) = cs.
Proof. induction cs as [|c cs IH]; simpl; congruence. Qed.

(* --- tautological lines (check.go:23-29) --- *)
Lemma taut_scan_true : forall c seen, taut_scan seen c = true ->
  exists l, In l c /\ (In (- l) seen \/ In (- l) c).
Proof.
  induction c as [|x c IH]; intros seen H; cbn [taut_scan] in H; [discriminate|].
  destruct (existsb (fun l2 => l2 =? - x) seen) eqn:E.
  - apply existsb_exists in E. destruct E as [l2 [H2 E2]]. apply Z.eqb_eq in E2. subst l2.
    exists x. split; [left; reflexivity|left; exact H2].
  - destruct (IH _ H) as [l [Hl [[Hs|Hs]|Hs]]].
    + exists x. split; [left; reflexivity|]. right. right.
      replace (- x) with l by lia. exact Hl.
    + exists l. split; [right; exact Hl|left; exact Hs].
    + exists l. split; [right; exact Hl|right; right; exact Hs].
Qed.

Lemma taut_scan_false : forall c seen, taut_scan seen c = false ->
  forall l, In l c -> l <> 0 -> ~ In (- l) c /\ ~ In (- l) seen.
Proof.
  induction c as [|x c IH]; intros seen H l Hl Hnz; [destruct Hl|]. cbn [taut_scan] in H.
  destruct (existsb (fun l2 => l2 =? - x) seen) eqn:E; [discriminate|].
  assert (Hx : ~ In (- x) seen).
  { intros Hin. assert (existsb (fun l2 => l2 =? - x) seen = true); [|congruence].
    apply existsb_exists. exists (- x). split; [exact Hin|apply Z.eqb_refl]. }
  destruct Hl as [<-|Hl].
  - split; [|exact Hx]. intros [E1|Hin]; [lia|].
    assert (Hnz' : - x <> 0) by lia.
    destruct (IH _ H (- x) Hin Hnz') as [_ K]. apply K. left. lia.
  - destruct (IH _ H l Hl Hnz) as [K1 K2]. split.
    + intros [E1|Hin]; [|exact (K1 Hin)]. apply K2. left. exact E1.
    + intros Hin. apply K2. right. exact Hin.
Qed.

Lemma is_taut_sat : forall m c, wf_clause c -> is_taut c = true -> sat_clause m c = true.
Proof.
  intros m c Hwf H. destruct (taut_scan_true c [] H) as [l [Hl [[]|Hn]]].
  assert (Hnz : l <> 0) by (apply Hwf; exact Hl).
  unfold sat_clause. apply existsb_exists. destruct (lit_val m l) eqn:E.
  - exists l. auto.
  - exists (- l). split; [exact Hn|]. rewrite lit_val_opp by exact Hnz. rewrite E. reflexivity.
Qed.

Lemma check_line_sound : forall m nb T clauses u t line,
  agrees m u -> units_ok u -> length t = nb -> wf_clause line ->
  goodc m nb T 0 clauses ->
  fst (check_line nb clauses u t line) = Some true ->
  tags_le (snd (check_line nb clauses u t line)) T ->
  sat_clause m line = true.
Proof.
  intros m nb T clauses u t line Ha Ho Hlen Hwf Hg Hv Hle.
  destruct (is_taut line) eqn:Et; [apply is_taut_sat; assumption|].
  destruct (sat_clause m line) eqn:Es; [reflexivity|exfalso].
  unfold check_line, up_unsat in *. rewrite Et in *.
  eapply (up_loop_sound m nb T); try exact Hle; try exact Hv; auto.
  - apply agrees_neg_assign; auto.
  - apply units_ok_neg_assign; auto.
  - rewrite map_snd_pair_false. exact Hg.
Qed.

Lemma check_line_tags_mono : forall nb clauses u t line j,
  nth j t false = true -> nth j (snd (check_line nb clauses u t line)) false = true.
Proof.
  intros. unfold check_line, up_unsat. destruct (is_taut line); [assumption|].
  apply up_loop_tags_mono. assumption.
Qed.

Lemma check_line_tags_length : forall nb clauses u t line,
  length (snd (check_line nb clauses u t line)) = length t.
Proof.
  intros. unfold check_line, up_unsat. destruct (is_taut line); [reflexivity|].
  apply up_loop_tags_length.
Qed.

Fixpoint lines_clauses (lines : list line_res) : list clause :=
  match lines with
  | [] => []
  | LClause c :: r => c :: lines_clauses r
  | _ :: r => lines_clauses r
  end.

Lemma lines_clauses_map : forall cert, lines_clauses (map LClause cert) = cert.
Proof. induction cert as [|c r IH]; simpl; congruence. Qed.

Lemma check_lines_tags_mono : forall early nb lines clauses u t j,
  nth j t false = true -> nth j (tgs (check_lines early nb clauses u t lines)) false = true.
Proof.
  intros early nb. induction lines as [|[| |c] r IH]; intros clauses u t j H; cbn [check_lines].
  - exact H.
  - apply IH. exact H.
  - exact H.
  - pose proof (check_line_tags_mono nb clauses u t c j H) as Hm.
    destruct (check_line nb clauses u t c) as [[[|]|] t']; simpl in Hm; simpl; auto.
    destruct (early && is_nil c); simpl; auto.
Qed.

Lemma check_lines_tags_length : forall early nb lines clauses u t,
  length (tgs (check_lines early nb clauses u t lines)) = length t.
Proof.
  intros early nb. induction lines as [|[| |c] r IH]; intros clauses u t; cbn [check_lines]; auto.
  pose proof (check_line_tags_length nb clauses u t c) as Hm.
  destruct (check_line nb clauses u t c) as [[[|]|] t']; simpl in Hm; simpl; auto.
  destruct (early && is_nil c); simpl; auto. rewrite IH. exact Hm.
Qed.

Lemma goodc_snoc : forall m nb T cs c, goodc m nb T 0 cs -> wf_clause c ->
  sat_clause m c = true -> goodc m nb T 0 (cs ++ [c]).
Proof.
  intros m nb T cs c Hg Hwf Hs j c' Hj.
  destruct (lt_dec j (length cs)) as [Hlt|Hge].
  - rewrite nth_error_app1 in Hj by exact Hlt. apply Hg. exact Hj.
  - rewrite nth_error_app2 in Hj by lia.
    destruct (j - length cs)%nat as [|k]; simpl in Hj.
    + inversion Hj; subst. auto.
    + destruct k; discriminate.
Qed.

Definition lines_wf (lines : list line_res) : Prop := wf_cnf (lines_clauses lines).

(* Core soundness: every model of the clauses selected by T (and of the
   learned clauses), that agrees with the initial units, satisfies every
   clause line of an accepted certificate. *)
Lemma check_lines_sound : forall m nb T early u, agrees m u -> units_ok u ->
  forall lines clauses t,
  length t = nb -> lines_wf lines ->
  goodc m nb T 0 clauses ->
  valid (check_lines early nb clauses u t lines) = true ->
  tags_le (tgs (check_lines early nb clauses u t lines)) T ->
  Forall (fun c => sat_clause m c = true) (lines_clauses lines).
Proof.
  intros m nb T early u Ha Ho.
  induction lines as [|[| |c] r IH]; intros clauses t Hlen Hwf Hg Hv Hle; cbn [check_lines lines_clauses] in *.
  - constructor.
  - eapply IH; eauto.
  - discriminate.
  - assert (Hwc : wf_clause c) by (apply Hwf; left; reflexivity).
    assert (Hwr : lines_wf r) by (intros x Hx; apply Hwf; right; exact Hx).
    pose proof (check_line_sound m nb T clauses u t c Ha Ho Hlen Hwc Hg) as Hs.
    pose proof (check_line_tags_length nb clauses u t c) as Hl.
    pose proof (check_line_tags_mono nb clauses u t c) as Hm.
    destruct (check_line nb clauses u t c) as [[[|]|] t']; cbn [fst snd] in *;
      try discriminate.
    destruct (early && is_nil c) eqn:Ee.
    + cbn [valid tgs] in *.
      apply andb_true_iff in Ee. destruct Ee as [_ Ee]. destruct c; [|discriminate].
      specialize (Hs eq_refl Hle). discriminate.
    + assert (Hc : sat_clause m c = true).
      { apply Hs; auto. intros j Hj. apply Hle. apply check_lines_tags_mono. exact Hj. }
      constructor; [exact Hc|].
      apply (IH (clauses ++ [c]) t'); auto.
      * lia.
      * apply goodc_snoc; auto.
Qed.

(* ================================================================== *)
(* 3. Problem level: C08_sound, C08_empty, C08_reusable, C08_subset    *)

Definition pb_wf (pb : Problem) : Prop :=
  NbClauses pb = length (Clauses pb) /\ length (punits pb) = NbVars pb /\
  units_ok (punits pb) /\ wf_cnf (Clauses pb).

(* "units is entailed by F" *)
Definition units_entailed (n : nat) (f : cnf) (u : list Z) : Prop :=
  forall m, length m = n -> sat_cnf m f = true -> agrees m u.

(* "units is entailed by the unit clauses of F" (what ParseCNF builds) *)
Definition units_justified (f : cnf) (u : list Z) : Prop :=
  forall m, (forall c, In c f -> length c = 1%nat -> sat_clause m c = true) -> agrees m u.

Lemma units_justified_entailed : forall n f u, units_justified f u -> units_entailed n f u.
Proof.
  intros n f u H m _ Hs. apply H. intros c Hc _. eapply sat_cnf_In; eauto.
Qed.

Lemma init_unit_step_ok : forall u c, units_ok u -> units_ok (init_unit_step u c).
Proof.
  intros u c H. unfold init_unit_step. destruct c as [|l [|l' c]]; auto.
  destruct (0 <? l); apply units_ok_set; auto; unfold unit_val; auto.
Qed.

Lemma init_unit_step_length : forall u c, length (init_unit_step u c) = length u.
Proof.
  intros u c. unfold init_unit_step. destruct c as [|l [|l' c]]; auto.
  destruct (0 <? l); apply set_unit_length.
Qed.

Lemma init_units_ok : forall n f, units_ok (init_units n f).
Proof.
  intros n f. unfold init_units. generalize (units_ok_repeat n). generalize (repeat 0 n).
  induction f as [|c f IH]; intros u H; simpl; auto. apply IH. apply init_unit_step_ok. exact H.
Qed.

Lemma init_units_length : forall n f, length (init_units n f) = n.
Proof.
  intros n f. unfold init_units. rewrite <- (repeat_length 0 n) at 2. generalize (repeat 0 n).
  induction f as [|c f IH]; intros u; simpl; auto. rewrite IH. apply init_unit_step_length.
Qed.

Lemma agrees_repeat : forall m n, agrees m (repeat 0 n).
Proof.
  intros m n v Hv. assert (E : get_unit (repeat 0 n) v = 0).
  { unfold get_unit. generalize (Z.to_nat (v - 1)). induction n as [|n IH]; intros [|k]; simpl; auto. }
  rewrite E. split; discriminate.
Qed.

Lemma init_units_justified : forall n f, units_justified f (init_units n f).
Proof.
  intros n f m H. unfold init_units. generalize (agrees_repeat m n). generalize (repeat 0 n).
  induction f as [|c f IH]; intros u Ha; simpl; auto.
  apply IH.
  - intros c' Hc' Hl. apply H; auto. right; exact Hc'.
  - unfold init_unit_step. destruct c as [|l [|l' c']]; auto.
    assert (Hs : sat_clause m [l] = true) by (apply H; [left; reflexivity|reflexivity]).
    unfold sat_clause in Hs. simpl in Hs. rewrite orb_false_r in Hs. unfold lit_val in Hs.
    destruct (0 <? l) eqn:P.
    + apply Z.ltb_lt in P. apply agrees_set; auto; try lia.
    + apply Z.ltb_ge in P. destruct (Z.eq_dec l 0) as [->|Hne].
      * unfold set_unit. simpl. exact Ha.
      * apply agrees_set; auto; try lia. intros _. apply negb_true_iff in Hs. exact Hs.
Qed.

Lemma init_tagged_length : forall pb, NbClauses pb = length (Clauses pb) ->
  length (init_tagged pb) = NbClauses pb.
Proof.
  intros pb H. unfold init_tagged. cbv zeta. rewrite app_length, repeat_length, map_length.
  unfold cnf, clause, lit in *. lia.
Qed.

Lemma nth_map_nth_error : forall (A B : Type) (g : A -> B) (d : B) l j x,
  nth_error l j = Some x -> nth j (map g l) d = g x.
Proof.
  intros A B g d. induction l as [|a l IH]; intros [|j] x H; simpl in *; try discriminate.
  - inversion H; reflexivity.
  - apply IH. exact H.
Qed.

Lemma init_tagged_unit : forall pb j c, nth_error (Clauses pb) j = Some c -> length c = 1%nat ->
  nth j (init_tagged pb) false = true.
Proof.
  intros pb j c Hj Hl. unfold init_tagged. cbv zeta.
  assert (Hlt : (j < length (Clauses pb))%nat) by (apply nth_error_Some; congruence).
  rewrite app_nth1 by (rewrite map_length; exact Hlt).
  rewrite (nth_map_nth_error _ _ _ false _ _ _ Hj). rewrite Hl. reflexivity.
Qed.

Lemma Forall_swap : forall (A B : Type) (P : A -> Prop) (Q : A -> B -> Prop) (l : list B),
  (forall a, P a -> Forall (Q a) l) -> Forall (fun b => forall a, P a -> Q a b) l.
Proof.
  intros A B P Q l H. apply Forall_forall. intros b Hb a Ha.
  specialize (H a Ha). rewrite Forall_forall in H. auto.
Qed.

Lemma goodc_all : forall m nb f, wf_cnf f -> sat_cnf m f = true -> goodc m nb (fun _ => true) 0 f.
Proof.
  intros m nb f Hwf Hs j c Hj. apply nth_error_In in Hj. split; [apply Hwf; exact Hj|].
  intros _. eapply sat_cnf_In; eauto.
Qed.

Theorem run_lines_sound : forall early pb lines e pb',
  pb_wf pb -> lines_wf lines ->
  units_entailed (NbVars pb) (Clauses pb) (punits pb) ->
  run_lines early pb lines = ((true, e), pb') ->
  Forall (entails (NbVars pb) (Clauses pb)) (lines_clauses lines).
Proof.
  intros early pb lines e pb' [Hnb [Hlu [Hok Hwf]]] Hlw Hent Hrun.
  unfold run_lines in Hrun. inversion Hrun as [[Hv He Hp]]. clear Hrun He Hp.
  unfold entails.
  apply (Forall_swap model clause
           (fun m => length m = NbVars pb)
           (fun m c => sat_cnf m (Clauses pb) = true -> sat_clause m c = true)).
  intros m Hlen.
  destruct (sat_cnf m (Clauses pb)) eqn:Es.
  - eapply Forall_impl; [intros c Hc _; exact Hc|].
    eapply (check_lines_sound m (NbClauses pb) (fun _ => true)); try exact Hv; auto.
    + apply init_tagged_length. exact Hnb.
    + apply goodc_all; auto.
    + intros i _. reflexivity.
  - apply Forall_forall. intros c _ H. discriminate.
Qed.

Theorem run_lines_empty : forall early pb lines e pb',
  pb_wf pb -> lines_wf lines ->
  units_entailed (NbVars pb) (Clauses pb) (punits pb) ->
  run_lines early pb lines = ((true, e), pb') ->
  In [] (lines_clauses lines) ->
  ~ Satisfiable (NbVars pb) (Clauses pb).
Proof.
  intros early pb lines e pb' Hwf Hlw Hent Hrun Hin [m [Hl Hs]].
  pose proof (run_lines_sound early pb lines e pb' Hwf Hlw Hent Hrun) as H.
  rewrite Forall_forall in H. specialize (H [] Hin m Hl Hs). discriminate.
Qed.

Lemma check_lines_cls : forall early nb lines clauses u t,
  exists extra, cls (check_lines early nb clauses u t lines) = clauses ++ extra.
Proof.
  intros early nb. induction lines as [|[| |c] r IH]; intros clauses u t; cbn [check_lines].
  - exists []. simpl. rewrite app_nil_r. reflexivity.
  - apply IH.
  - exists []. simpl. rewrite app_nil_r. reflexivity.
  - destruct (check_line nb clauses u t c) as [[[|]|] t']; simpl;
      try (exists []; rewrite app_nil_r; reflexivity).
    destruct (early && is_nil c); simpl.
    + exists []. rewrite app_nil_r. reflexivity.
    + destruct (IH (clauses ++ [c]) u t') as [extra E]. exists ([c] ++ extra).
      rewrite E. rewrite <- app_assoc. reflexivity.
Qed.

Lemma restore_app : forall (f extra : cnf), restore (length f) (f ++ extra) = f.
Proof.
  intros f extra. unfold restore. rewrite firstn_app, firstn_all, Nat.sub_diag. simpl.
  apply app_nil_r.
Qed.

(* restore: the problem is as before (only [tagged] differs), and a second
   run gives the same answer and the same final state. *)
Theorem run_lines_reusable : forall early pb lines r pb',
  NbClauses pb = length (Clauses pb) ->
  run_lines early pb lines = (r, pb') ->
  Clauses pb' = Clauses pb /\ NbClauses pb' = NbClauses pb /\ NbVars pb' = NbVars pb /\
  punits pb' = punits pb /\
  run_lines early pb' lines = (r, pb').
Proof.
  intros early pb lines r pb' Hnb Hrun. unfold run_lines in Hrun.
  destruct (check_lines_cls early (NbClauses pb) lines (Clauses pb) (punits pb) (init_tagged pb))
    as [extra E].
  assert (Hc : Clauses pb' = Clauses pb).
  { inversion Hrun; subst. cbn [Clauses]. rewrite E, Hnb. apply restore_app. }
  assert (H2 : NbClauses pb' = NbClauses pb) by (inversion Hrun; reflexivity).
  assert (H3 : NbVars pb' = NbVars pb) by (inversion Hrun; reflexivity).
  assert (H4 : punits pb' = punits pb) by (inversion Hrun; reflexivity).
  repeat split; auto.
  unfold run_lines.
  assert (Ht : init_tagged pb' = init_tagged pb) by (unfold init_tagged; rewrite Hc, H2; reflexivity).
  rewrite Hc, H2, H3, H4, Ht. exact Hrun.
Qed.

(* ---- the subset ---- *)

Lemma select_sat : forall (m : model) mask (f : cnf) j c,
  nth_error f j = Some c -> nth j mask false = true ->
  sat_cnf m (select mask f) = true -> sat_clause m c = true.
Proof.
  intros m. induction mask as [|b mask IH]; intros f j c Hj Hm Hs.
  - destruct j; discriminate.
  - destruct f as [|x f]; [destruct j; discriminate|].
    destruct j as [|j]; simpl in *.
    + inversion Hj; subst. simpl in Hs. apply andb_true_iff in Hs. tauto.
    + destruct b; simpl in Hs.
      * apply andb_true_iff in Hs. eapply IH; eauto. tauto.
      * eapply IH; eauto.
Qed.

Lemma select_all : forall (A : Type) (l : list A), select (repeat true (length l)) l = l.
Proof. induction l as [|x l IH]; simpl; congruence. Qed.

Definition subseq_of {A : Type} (s l : list A) : Prop :=
  exists mask, length mask = length l /\ s = select mask l.

(* A model of the tagged clauses satisfies every line of an accepted
   certificate. *)
Lemma tagged_entail_lines : forall early pb lines m,
  pb_wf pb -> lines_wf lines ->
  units_justified (Clauses pb) (punits pb) ->
  let o := check_lines early (NbClauses pb) (Clauses pb) (punits pb) (init_tagged pb) lines in
  valid o = true ->
  sat_cnf m (select (tgs o) (Clauses pb)) = true ->
  Forall (fun c => sat_clause m c = true) (lines_clauses lines).
Proof.
  intros early pb lines m [Hnb [Hlu [Hok Hwf]]] Hlw Hj o Hv Hs.
  assert (Hsel : forall j c, nth_error (Clauses pb) j = Some c ->
                   nth j (tgs o) false = true -> sat_clause m c = true).
  { intros j c H1 H2. eapply select_sat; eauto. }
  eapply (check_lines_sound m (NbClauses pb) (fun i => nth i (tgs o) false)); try exact Hv; auto.
  - apply Hj. intros c Hc Hl. apply In_nth_error in Hc. destruct Hc as [j Hc].
    apply (Hsel j c Hc). apply check_lines_tags_mono. eapply init_tagged_unit; eauto.
  - apply init_tagged_length. exact Hnb.
  - intros j c Hc. split; [apply Hwf; eapply nth_error_In; eauto|].
    unfold usable. simpl. intros Hu.
    assert (Hlt : (j < length (Clauses pb))%nat) by (apply nth_error_Some; congruence).
    destruct (NbClauses pb <=? j)%nat eqn:E; [apply Nat.leb_le in E; lia|].
    simpl in Hu. eapply Hsel; eauto.
  - intros i Hi. exact Hi.
Qed.

Theorem UnsatSubset_spec : forall pb trivial ssat cert S pb',
  pb_wf pb -> wf_cnf cert ->
  units_justified (Clauses pb) (punits pb) ->
  UnsatSubset pb trivial ssat cert = (Some S, pb') ->
  subseq_of S (Clauses pb) /\
  ((trivial = true -> ~ Satisfiable (NbVars pb) (Clauses pb)) ->
   (trivial = true \/ In [] cert) -> ~ Satisfiable (NbVars pb) S).
Proof.
  intros pb trivial ssat cert S pb' Hwf Hcw Hj H.
  pose proof Hwf as [Hnb [Hlu [Hok Hwc]]].
  unfold UnsatSubset in H. destruct trivial.
  - inversion H; subst. split.
    + exists (repeat true (length (Clauses pb'))). rewrite repeat_length, select_all. auto.
    + intros Ht _. apply Ht. reflexivity.
  - unfold UnsatChan, run_lines in H. cbn [fst snd] in H.
    set (o := check_lines true (NbClauses pb) (Clauses pb) (punits pb) (init_tagged pb)
                          (map LClause cert)) in *.
    destruct (negb (valid o) || ssat) eqn:E; [discriminate|].
    apply orb_false_iff in E. destruct E as [Ev _]. apply negb_false_iff in Ev.
    inversion H; subst S pb'. clear H. cbn [tagged Clauses].
    assert (Hr : restore (NbClauses pb) (cls o) = Clauses pb).
    { destruct (check_lines_cls true (NbClauses pb) (map LClause cert) (Clauses pb) (punits pb)
                                (init_tagged pb)) as [extra E].
      fold o in E. rewrite E, Hnb. apply restore_app. }
    rewrite Hr. split.
    + exists (tgs o). split; [|reflexivity]. unfold o. rewrite check_lines_tags_length.
      rewrite init_tagged_length; auto.
    + intros _ [Hd|Hin] [m [Hl Hs]]; [discriminate|].
      assert (Hlw : lines_wf (map LClause cert)) by (unfold lines_wf; rewrite lines_clauses_map; exact Hcw).
      pose proof (tagged_entail_lines true pb (map LClause cert) m Hwf Hlw Hj Ev Hs) as HF.
      rewrite lines_clauses_map in HF. rewrite Forall_forall in HF.
      specialize (HF [] Hin). discriminate.
Qed.

Theorem UnsatSubset_error : forall pb ssat cert,
  pb_wf pb -> wf_cnf cert ->
  units_entailed (NbVars pb) (Clauses pb) (punits pb) ->
  Satisfiable (NbVars pb) (Clauses pb) ->
  ssat = true \/ In [] cert ->
  fst (UnsatSubset pb false ssat cert) = None.
Proof.
  intros pb ssat cert Hwf Hcw Hent Hsat Hor.
  unfold UnsatSubset. destruct (UnsatChan pb cert) as [v pb'] eqn:E.
  destruct (negb v || ssat) eqn:E2; [reflexivity|exfalso].
  apply orb_false_iff in E2. destruct E2 as [Ev Es]. apply negb_false_iff in Ev. subst v.
  destruct Hor as [->|Hin]; [discriminate|].
  unfold UnsatChan in E.
  destruct (run_lines true pb (map LClause cert)) as [[v e] p] eqn:Er. cbn [fst snd] in E.
  inversion E; subst v p.
  assert (Hlw : lines_wf (map LClause cert)) by (unfold lines_wf; rewrite lines_clauses_map; exact Hcw).
  eapply (run_lines_empty true pb (map LClause cert)); eauto.
  rewrite lines_clauses_map. exact Hin.
Qed.

(* ================================================================== *)
(* 4. The independent checker [rup_check]                              *)

Definition a_agrees (m : model) (a : list lit) : Prop :=
  forall l, In l a -> l <> 0 /\ lit_val m l = true.

Lemma memz_In : forall l a, memz l a = true <-> In l a.
Proof.
  intros l a. unfold memz. rewrite existsb_exists. split.
  - intros [x [Hx E]]. apply Z.eqb_eq in E. subst. exact Hx.
  - intros H. exists l. split; auto. apply Z.eqb_refl.
Qed.

Lemma clause_status_sound : forall m a c, a_agrees m a -> wf_clause c -> sat_clause m c = true ->
  match clause_status a c with
  | CConflict => False
  | CUnit l => l <> 0 /\ lit_val m l = true
  | _ => True
  end.
Proof.
  intros m a c Ha Hwf Hs. unfold clause_status.
  destruct (existsb (fun l => memz l a) c); [exact I|].
  unfold sat_clause in Hs. apply existsb_exists in Hs. destruct Hs as [l [Hl Hv]].
  assert (Hf : In l (filter (fun l0 => negb (memz (- l0) a)) c)).
  { apply filter_In. split; [exact Hl|]. apply negb_true_iff.
    destruct (memz (- l) a) eqn:E; [|reflexivity]. apply memz_In in E.
    destruct (Ha _ E) as [_ Hv']. rewrite lit_val_opp in Hv' by (apply Hwf; exact Hl).
    rewrite Hv in Hv'. discriminate. }
  destruct (filter (fun l0 => negb (memz (- l0) a)) c) as [|x r]; [destruct Hf|].
  destruct (forallb (Z.eqb x) r) eqn:E; [|exact I].
  assert (l = x).
  { destruct Hf as [H|H]; [auto|]. rewrite forallb_forall in E. specialize (E l H).
    apply Z.eqb_eq in E. auto. }
  subst x. split; [apply Hwf; exact Hl|exact Hv].
Qed.

Lemma rup_pass_sound : forall m d a ch, a_agrees m a -> wf_cnf d -> sat_cnf m d = true ->
  match rup_pass d a ch with
  | None => False
  | Some (a', _) => a_agrees m a'
  end.
Proof.
  intros m. induction d as [|c d IH]; intros a ch Ha Hwf Hs; cbn [rup_pass].
  - exact Ha.
  - simpl in Hs. apply andb_true_iff in Hs. destruct Hs as [Hc Hd].
    assert (Hwc : wf_clause c) by (apply Hwf; left; reflexivity).
    assert (Hwd : wf_cnf d) by (intros x Hx; apply Hwf; right; exact Hx).
    pose proof (clause_status_sound m a c Ha Hwc Hc) as H.
    destruct (clause_status a c) as [| |l|].
    + apply IH; auto.
    + contradiction.
    + apply IH; auto. intros x [<-|Hx]; auto.
    + apply IH; auto.
Qed.

Lemma rup_prop_sound : forall m fuel d a, a_agrees m a -> wf_cnf d -> sat_cnf m d = true ->
  rup_prop fuel d a <> Some true.
Proof.
  intros m. induction fuel as [|f IH]; intros d a Ha Hwf Hs; cbn [rup_prop].
  - discriminate.
  - pose proof (rup_pass_sound m d a false Ha Hwf Hs) as H.
    destruct (rup_pass d a false) as [[a' ch]|]; [|contradiction].
    destruct ch; [apply IH; auto|discriminate].
Qed.

(* rup_sound: a reported conflict (whatever the fuel) means entailment *)
Theorem rup_sound : forall fuel d c, wf_cnf d -> wf_clause c ->
  rup_line fuel d c = Some true ->
  forall m, sat_cnf m d = true -> sat_clause m c = true.
Proof.
  intros fuel d c Hwd Hwc H m Hs.
  destruct (sat_clause m c) eqn:Ec; [reflexivity|exfalso].
  assert (Ha : a_agrees m (map Z.opp c)).
  { intros l Hl. apply in_map_iff in Hl. destruct Hl as [x [<- Hx]].
    assert (x <> 0) by (apply Hwc; exact Hx). split; [lia|].
    rewrite lit_val_opp by assumption. apply negb_true_iff.
    unfold sat_clause in Ec.
    destruct (lit_val m x) eqn:Ex; [|reflexivity].
    assert (existsb (lit_val m) c = true) by (apply existsb_exists; eauto). congruence. }
  unfold rup_line in H. destruct (inconsistent (map Z.opp c)) eqn:Ei.
  - unfold inconsistent in Ei. apply existsb_exists in Ei. destruct Ei as [l [Hl Hm]].
    apply memz_In in Hm. destruct (Ha _ Hl) as [Hn Hv]. destruct (Ha _ Hm) as [_ Hv'].
    rewrite lit_val_opp in Hv' by exact Hn. rewrite Hv in Hv'. discriminate.
  - exact (rup_prop_sound m fuel d (map Z.opp c) Ha Hwd Hs H).
Qed.

Lemma rup_check_from_sound : forall fuel cert d, wf_cnf d -> wf_cnf cert ->
  rup_check_from fuel d cert = true ->
  forall m, sat_cnf m d = true -> Forall (fun c => sat_clause m c = true) cert.
Proof.
  intros fuel. induction cert as [|c r IH]; intros d Hwd Hwc H m Hs; [constructor|].
  cbn [rup_check_from] in H.
  assert (Hc : wf_clause c) by (apply Hwc; left; reflexivity).
  assert (Hr : wf_cnf r) by (intros x Hx; apply Hwc; right; exact Hx).
  destruct (rup_line fuel d c) as [[|]|] eqn:E; try discriminate.
  pose proof (rup_sound fuel d c Hwd Hc E m Hs) as Hsc.
  constructor; [exact Hsc|].
  apply (IH (d ++ [c])); auto.
  - intros x Hx. apply in_app_or in Hx. destruct Hx as [Hx|[<-|[]]]; auto.
  - rewrite sat_cnf_app, Hs. simpl. rewrite Hsc. reflexivity.
Qed.

Theorem rup_check_sound : forall n f cert, rup_check n f cert = true ->
  Forall (fun c => forall m, sat_cnf m f = true -> sat_clause m c = true) cert.
Proof.
  intros n f cert H. unfold rup_check in H.
  apply andb_true_iff in H. destruct H as [H H3]. apply andb_true_iff in H. destruct H as [H1 H2].
  apply wf_cnfb_spec in H1. apply wf_cnfb_spec in H2.
  apply (Forall_swap model clause (fun m => sat_cnf m f = true) (fun m c => sat_clause m c = true)).
  intros m Hs. exact (rup_check_from_sound (S n) cert f H1 H2 H3 m Hs).
Qed.

Theorem rup_check_entails : forall n f cert, rup_check n f cert = true ->
  Forall (entails n f) cert.
Proof.
  intros n f cert H. eapply Forall_impl; [|apply (rup_check_sound n f cert H)].
  intros c Hc m _ Hs. auto.
Qed.

Theorem rup_check_refutes : forall n f cert, rup_check n f cert = true -> In [] cert ->
  ~ Satisfiable n f.
Proof.
  intros n f cert H Hin [m [Hl Hs]]. pose proof (rup_check_sound n f cert H) as HF.
  rewrite Forall_forall in HF. specialize (HF [] Hin m Hs). discriminate.
Qed.

Theorem up_refutes_sound : forall n f, wf_cnf f -> up_refutes n f = true -> ~ Satisfiable n f.
Proof.
  intros n f Hwf H [m [Hl Hs]]. unfold up_refutes in H.
  destruct (rup_line (S n) f []) as [[|]|] eqn:E; try discriminate.
  assert (Hn : wf_clause []) by (intros l []).
  pose proof (rup_sound (S n) f [] Hwf Hn E m Hs). discriminate.
Qed.

(* ================================================================== *)
(* 5. Completeness w.r.t. relational unit propagation                  *)

(* literals derivable from the clauses D and the assumed literals A *)
Inductive up_lit (D : cnf) (A : list lit) : lit -> Prop :=
| up_assumed : forall l, In l A -> up_lit D A l
| up_unit : forall c l, In c D -> In l c ->
    (forall l', In l' c -> l' <> l -> up_lit D A (- l')) -> up_lit D A l.

Definition up_conflict (D : cnf) (A : list lit) : Prop :=
  (exists l, up_lit D A l /\ up_lit D A (- l)) \/
  (exists c, In c D /\ forall l, In l c -> up_lit D A (- l)).

(* c has the RUP property w.r.t. D *)
Definition rup (D : cnf) (c : clause) : Prop := up_conflict D (map Z.opp c).

Fixpoint rup_chain (D : cnf) (cert : list clause) : Prop :=
  match cert with
  | [] => True
  | c :: r => rup D c /\ rup_chain (D ++ [c]) r
  end.

Definition non_taut (c : clause) : Prop := forall l, In l c -> ~ In (- l) c.

(* --- extension of the array --- *)
Definition u_ext (u u' : list Z) : Prop :=
  forall v, get_unit u v <> 0 -> get_unit u' v = get_unit u v.

Lemma u_ext_refl : forall u, u_ext u u.
Proof. intros u v _. reflexivity. Qed.

Lemma u_ext_trans : forall a b c, u_ext a b -> u_ext b c -> u_ext a c.
Proof.
  intros a b c H1 H2 v Hv. rewrite <- (H1 v Hv). apply H2. rewrite (H1 v Hv). exact Hv.
Qed.

Lemma u_true_ext : forall u u' l, u_ext u u' -> u_true u l -> u_true u' l.
Proof. intros u u' l He [H1 H2]. unfold u_true. rewrite (He _ H1). auto. Qed.

Lemma u_true_opp_false : forall u l, l <> 0 -> u_true u l -> u_true u (- l) -> False.
Proof.
  intros u l Hl [H1 H2] [H3 H4]. rewrite Z.abs_opp in *. lia.
Qed.

Lemma in_range_nonzero : forall n l, in_range n l -> l <> 0.
Proof. unfold in_range. intros. lia. Qed.

Lemma assign_lit_spec : forall u l, in_range (length u) l -> u_unb u l ->
  u_ext u (assign_lit u l) /\ u_true (assign_lit u l) l.
Proof.
  intros u l Hr Hu. unfold in_range in Hr. unfold u_unb in Hu. unfold assign_lit.
  destruct (l <? 0) eqn:E; [apply Z.ltb_lt in E|apply Z.ltb_ge in E].
  - rewrite Z.abs_neq in * by lia. split.
    + intros v Hv. destruct (Z.eq_dec v (- l)) as [->|Hne]; [contradiction|].
      destruct (Z_le_gt_dec 1 v).
      * apply get_set_neq; auto.
      * unfold get_unit in *. replace (Z.to_nat (v - 1)) with (Z.to_nat (1 - 1)) in * by lia.
        fold (get_unit (set_unit u (- l) (-1)) 1). fold (get_unit u 1) in Hv.
        destruct (Z.eq_dec 1 (- l)) as [E1|E1]; [rewrite <- E1 in Hu; contradiction|].
        apply get_set_neq; auto; lia.
    + unfold u_true. rewrite Z.abs_neq by lia. rewrite get_set_eq by lia. lia.
  - rewrite Z.abs_eq in * by lia. split.
    + intros v Hv. destruct (Z.eq_dec v l) as [->|Hne]; [contradiction|].
      destruct (Z_le_gt_dec 1 v).
      * apply get_set_neq; auto.
      * unfold get_unit in *. replace (Z.to_nat (v - 1)) with (Z.to_nat (1 - 1)) in * by lia.
        fold (get_unit (set_unit u l 1) 1). fold (get_unit u 1) in Hv.
        destruct (Z.eq_dec 1 l) as [E1|E1]; [rewrite <- E1 in Hu; contradiction|].
        apply get_set_neq; auto; lia.
    + unfold u_true. rewrite Z.abs_eq by lia. rewrite get_set_eq by lia. lia.
Qed.

(* --- what the scan results say about the array --- *)
Lemma scan_sat_spec : forall u c acc, scan_clause u c acc = SSat -> exists l, In l c /\ u_true u l.
Proof.
  intros u. induction c as [|x c IH]; intros acc H; simpl in H.
  - destruct acc; discriminate.
  - destruct (get_unit u (Z.abs x) =? 0) eqn:E0.
    + assert (K : exists l, In l c /\ u_true u l).
      { destruct acc as [l0|]; [destruct (x =? l0); [|discriminate]|]; eapply IH; eauto. }
      destruct K as [l [Hl Ht]]. exists l. split; [right|]; auto.
    + apply Z.eqb_neq in E0. destruct (get_unit u (Z.abs x) * x =? Z.abs x) eqn:E1.
      * apply Z.eqb_eq in E1. exists x. split; [left; reflexivity|split; auto].
      * destruct (IH _ H) as [l [Hl Ht]]. exists l. split; [right|]; auto.
Qed.

Lemma scan_unit_spec : forall u c acc l, scan_clause u c acc = SUnit l ->
  acc = Some l \/ (In l c /\ u_unb u l).
Proof.
  intros u. induction c as [|x c IH]; intros acc l H; simpl in H.
  - destruct acc; inversion H; auto.
  - destruct (get_unit u (Z.abs x) =? 0) eqn:E0.
    + apply Z.eqb_eq in E0. destruct acc as [l0|].
      * destruct (x =? l0); [|discriminate].
        destruct (IH _ _ H) as [E|[Hl Hu]]; auto. right. split; [right|]; auto.
      * destruct (IH _ _ H) as [E|[Hl Hu]].
        -- inversion E; subst. right. split; [left; reflexivity|exact E0].
        -- right. split; [right|]; auto.
    + destruct (get_unit u (Z.abs x) * x =? Z.abs x); [discriminate|].
      destruct (IH _ _ H) as [E|[Hl Hu]]; auto. right. split; [right|]; auto.
Qed.

(* SMany: two DIFFERENT unbound literals (no hypothesis on repetitions) *)
Lemma scan_many_spec : forall u c acc, scan_clause u c acc = SMany ->
  (acc = None -> exists l1 l2, In l1 c /\ In l2 c /\ l1 <> l2 /\ u_unb u l1 /\ u_unb u l2) /\
  (forall l0, acc = Some l0 -> exists l2, In l2 c /\ l2 <> l0 /\ u_unb u l2).
Proof.
  intros u. induction c as [|x c IH]; intros acc H; simpl in H.
  - destruct acc; discriminate.
  - destruct (get_unit u (Z.abs x) =? 0) eqn:E0.
    + apply Z.eqb_eq in E0. destruct acc as [l0|].
      * split; [discriminate|]. intros l1 E. inversion E; subst l1.
        destruct (x =? l0) eqn:Ex.
        -- destruct (IH _ H) as [_ K]. destruct (K l0 eq_refl) as [l2 [A1 [A2 A3]]].
           exists l2. split; [right|]; auto.
        -- apply Z.eqb_neq in Ex. exists x. split; [left; reflexivity|]. split; [exact Ex|exact E0].
      * split; [|discriminate]. intros _.
        destruct (IH _ H) as [_ K]. destruct (K x eq_refl) as [l2 [A1 [A2 A3]]].
        exists x, l2. split; [left; reflexivity|]. split; [right; exact A1|].
        split; [congruence|]. split; [exact E0|exact A3].
    + destruct (get_unit u (Z.abs x) * x =? Z.abs x); [discriminate|].
      destruct (IH _ H) as [K1 K2]. split.
      * intros Ea. destruct (K1 Ea) as [l1 [l2 [A1 [A2 [A3 [A4 A5]]]]]].
        exists l1, l2. repeat split; auto; right; auto.
      * intros l0 Ea. destruct (K2 l0 Ea) as [l2 [A1 [A2 A3]]]. exists l2. split; [right|]; auto.
Qed.

(* no clause is falsified or unit *)
Definition stable_clause (u : list Z) (c : clause) : Prop :=
  (exists l, In l c /\ u_true u l) \/
  (exists l1 l2, In l1 c /\ In l2 c /\ l1 <> l2 /\ u_unb u l1 /\ u_unb u l2).

Definition done_ok (u : list Z) (mk : marked) : Prop :=
  forall c, In (true, c) mk -> exists l, In l c /\ u_true u l.

Lemma done_ok_ext : forall u u' mk, u_ext u u' -> done_ok u mk -> done_ok u' mk.
Proof.
  intros u u' mk He H c Hc. destruct (H c Hc) as [l [Hl Ht]]. exists l. split; auto.
  eapply u_true_ext; eauto.
Qed.

Lemma pass_complete : forall nb mk i u t md mk' u' t' md',
  units_ok u ->
  (forall d c, In (d, c) mk -> lits_in (length u) c) ->
  done_ok u mk ->
  pass nb i mk u t md = PCont mk' u' t' md' ->
  u_ext u u' /\ units_ok u' /\ length u' = length u /\ done_ok u' mk' /\
  (md = true -> md' = true) /\
  (md' = false -> u' = u /\ forall d c, In (d, c) mk -> stable_clause u c).
Proof.
  intros nb. induction mk as [|[d c] r IH]; intros i u t md mk' u' t' md' Ho Hn Hd H; cbn [pass] in H.
  - inversion H; subst. refine (conj _ (conj _ (conj _ (conj _ (conj _ _))))); auto.
    + apply u_ext_refl.
    + intros _. split; [reflexivity|]. intros d c [].
  - assert (Hnr : forall d0 c0, In (d0, c0) r -> lits_in (length u) c0)
      by (intros d0 c0 Hin; apply (Hn d0 c0); right; exact Hin).
    (* the generic continuation *)
    assert (K : forall d0 u0 t0 md0,
              units_ok u0 -> length u0 = length u -> u_ext u u0 -> done_ok u0 r ->
              (d0 = true -> exists l, In l c /\ u_true u0 l) ->
              pcons d0 c (pass nb (S i) r u0 t0 md0) = PCont mk' u' t' md' ->
              u_ext u u' /\ units_ok u' /\ length u' = length u /\ done_ok u' mk' /\
              (md0 = true -> md' = true) /\
              (md' = false -> u' = u0 /\ (forall d1 c1, In (d1, c1) r -> stable_clause u0 c1))).
    { intros d0 u0 t0 md0 Ho0 Hl0 He0 Hd0 Hc0 E.
      destruct (pass nb (S i) r u0 t0 md0) as [tt|mk2 u2 t2 md2] eqn:Ep; simpl in E; [discriminate|].
      inversion E; subst mk' u' t' md'. clear E.
      assert (Hnr0 : forall d1 c1, In (d1, c1) r -> lits_in (length u0) c1)
        by (intros d1 c1 Hin; rewrite Hl0; eapply Hnr; eauto).
      destruct (IH _ _ _ _ _ _ _ _ Ho0 Hnr0 Hd0 Ep) as [A1 [A2 [A3 [A4 [A5 A6]]]]].
      refine (conj _ (conj _ (conj _ (conj _ (conj _ _))))); auto.
      - eapply u_ext_trans; eauto.
      - lia.
      - intros c1 [Hin|Hin].
        + inversion Hin; subst. destruct (Hc0 eq_refl) as [l [Hl Ht]]. exists l. split; auto.
          eapply u_true_ext; eauto.
        + apply A4. exact Hin. }
    destruct d.
    + (* already done *)
      destruct (K true u t md Ho eq_refl (u_ext_refl u)
                  (fun c0 Hc0 => Hd c0 (or_intror Hc0))
                  (fun _ => Hd c (or_introl eq_refl)) H) as [A1 [A2 [A3 [A4 [A5 A6]]]]].
      refine (conj _ (conj _ (conj _ (conj _ (conj _ _))))); auto.
      intros Hm. destruct (A6 Hm) as [B1 B2]. split; [exact B1|].
      intros d1 c1 [Hin|Hin].
      * inversion Hin; subst. left. apply Hd. left; reflexivity.
      * eapply B2; eauto.
    + pose proof (Hn false c (or_introl eq_refl)) as Hin.
      assert (Hdr : done_ok u r) by (intros c0 Hc0; apply Hd; right; exact Hc0).
      destruct (scan_clause u c None) as [| |l|] eqn:Es.
      * (* SSat *)
        pose proof (scan_sat_spec u c None Es) as Hs.
        destruct (K true u t md Ho eq_refl (u_ext_refl u) Hdr (fun _ => Hs) H)
          as [A1 [A2 [A3 [A4 [A5 A6]]]]].
        refine (conj _ (conj _ (conj _ (conj _ (conj _ _))))); auto.
        intros Hm. destruct (A6 Hm) as [B1 B2]. split; [exact B1|].
        intros d1 c1 [Hi|Hi].
        -- inversion Hi; subst. left. exact Hs.
        -- eapply B2; eauto.
      * discriminate.
      * (* SUnit *)
        destruct (scan_unit_spec u c None l Es) as [E|[Hl Hu]]; [discriminate|].
        destruct (assign_lit_spec u l (Hin l Hl) Hu) as [He Ht].
        destruct (K true (assign_lit u l) (tag nb i t) true
                    (units_ok_assign u l Ho) (assign_lit_length u l) He
                    (done_ok_ext _ _ _ He Hdr)
                    (fun _ => ex_intro _ l (conj Hl Ht)) H)
          as [A1 [A2 [A3 [A4 [A5 A6]]]]].
        refine (conj _ (conj _ (conj _ (conj _ (conj _ _))))); auto.
        intros Hm. rewrite (A5 eq_refl) in Hm. discriminate.
      * (* SMany *)
        destruct (scan_many_spec u c None Es) as [Hs _]. specialize (Hs eq_refl).
        destruct (K false u t md Ho eq_refl (u_ext_refl u) Hdr
                    (fun E => False_ind _ (Bool.diff_false_true E)) H)
          as [A1 [A2 [A3 [A4 [A5 A6]]]]].
        refine (conj _ (conj _ (conj _ (conj _ (conj _ _))))); auto.
        intros Hm. destruct (A6 Hm) as [B1 B2]. split; [exact B1|].
        intros d1 c1 [Hi|Hi].
        -- inversion Hi; subst. right. exact Hs.
        -- eapply B2; eauto.
Qed.

(* --- the fuel bound: every productive pass marks one more clause --- *)
Fixpoint not_done (mk : marked) : nat :=
  match mk with
  | [] => O
  | (d, _) :: r => ((if d then 0 else 1) + not_done r)%nat
  end.

Lemma pass_not_done : forall nb mk i u t md mk' u' t' md',
  pass nb i mk u t md = PCont mk' u' t' md' ->
  (not_done mk' + (if md' then 1 else 0) <= not_done mk + (if md then 1 else 0))%nat.
Proof.
  intros nb. induction mk as [|[d c] r IH]; intros i u t md mk' u' t' md' H; cbn [pass] in H.
  - inversion H; subst. simpl. lia.
  - assert (K : forall d0 u0 t0 md0 k,
              (forall mk2 u2 t2 md2, pass nb (S i) r u0 t0 md0 = PCont mk2 u2 t2 md2 ->
                 (not_done mk2 + (if md2 then 1 else 0) <= k)%nat) ->
              pcons d0 c (pass nb (S i) r u0 t0 md0) = PCont mk' u' t' md' ->
              ((if d0 then 0 else 1) + k >= not_done mk' + (if md' then 1 else 0))%nat).
    { intros d0 u0 t0 md0 k Hk E.
      destruct (pass nb (S i) r u0 t0 md0) as [tt|mk2 u2 t2 md2] eqn:Ep; simpl in E; [discriminate|].
      inversion E; subst. specialize (Hk _ _ _ _ eq_refl). simpl. lia. }
    cbn [not_done]. destruct d.
    + pose proof (K true u t md (not_done r + (if md then 1 else 0))%nat
                    (fun mk2 u2 t2 md2 E => IH _ _ _ _ _ _ _ _ E) H). simpl in *. lia.
    + destruct (scan_clause u c None) as [| |l|]; try discriminate.
      * pose proof (K true u t md (not_done r + (if md then 1 else 0))%nat
                      (fun mk2 u2 t2 md2 E => IH _ _ _ _ _ _ _ _ E) H). simpl in *. lia.
      * pose proof (K true (assign_lit u l) (tag nb i t) true (not_done r + 1)%nat
                      (fun mk2 u2 t2 md2 E => IH _ _ _ _ _ _ _ _ E) H). simpl in *.
        destruct md; lia.
      * pose proof (K false u t md (not_done r + (if md then 1 else 0))%nat
                      (fun mk2 u2 t2 md2 E => IH _ _ _ _ _ _ _ _ E) H). simpl in *. lia.
Qed.

Lemma up_loop_fuel : forall fuel nb mk u t, (not_done mk < fuel)%nat ->
  fst (up_loop fuel nb mk u t) <> None.
Proof.
  induction fuel as [|f IH]; intros nb mk u t H; [lia|]. cbn [up_loop].
  pose proof (pass_not_done nb mk 0 u t false) as Hp.
  destruct (pass nb 0 mk u t false) as [t'|mk' u' t' md]; [discriminate|].
  specialize (Hp _ _ _ _ eq_refl). destruct md; [|discriminate].
  apply IH. simpl in Hp. lia.
Qed.

Lemma not_done_init : forall cs : cnf, not_done (map (pair false) cs) = length cs.
Proof. induction cs as [|c cs IH]; simpl; auto. Qed.

Theorem up_unsat_fuel : forall nb clauses u t,
  fst (up_unsat (S (length clauses)) nb clauses u t) <> None.
Proof.
  intros. unfold up_unsat. apply up_loop_fuel. rewrite not_done_init. lia.
Qed.

(* --- the loop stops on a stable array --- *)
Lemma up_loop_complete : forall nb fuel mk u t,
  units_ok u ->
  (forall c, In c (map snd mk) -> lits_in (length u) c) ->
  done_ok u mk ->
  fst (up_loop fuel nb mk u t) = Some false ->
  exists u', u_ext u u' /\ units_ok u' /\
             forall c, In c (map snd mk) -> stable_clause u' c.
Proof.
  intros nb. induction fuel as [|f IH]; intros mk u t Ho Hn Hd H; cbn [up_loop] in H; [discriminate|].
  assert (Hn' : forall d c, In (d, c) mk -> lits_in (length u) c).
  { intros d c Hin. apply Hn. apply (in_map snd) in Hin. exact Hin. }
  pose proof (pass_complete nb mk 0 u t false) as Hp.
  pose proof (pass_clauses nb mk 0 u t false) as Hc.
  destruct (pass nb 0 mk u t false) as [t'|mk' u' t' md]; [discriminate|].
  destruct (Hp _ _ _ _ Ho Hn' Hd eq_refl) as [A1 [A2 [A3 [A4 [A5 A6]]]]].
  specialize (Hc _ _ _ _ eq_refl).
  destruct md.
  - destruct (IH mk' u' t' A2) as [u2 [B1 [B2 B3]]]; auto.
    + rewrite Hc, A3. exact Hn.
    + exists u2. split; [eapply u_ext_trans; eauto|]. split; auto. rewrite <- Hc. exact B3.
  - destruct (A6 eq_refl) as [-> B]. exists u. split; [apply u_ext_refl|]. split; auto.
    intros c Hin. apply in_map_iff in Hin. destruct Hin as [[d c'] [E Hin]]. simpl in E. subst c'.
    eapply B; eauto.
Qed.

(* --- on a stable array every derivable literal is true --- *)
Lemma up_lit_nonzero : forall D A l, wf_cnf D -> (forall x, In x A -> x <> 0) ->
  up_lit D A l -> l <> 0.
Proof.
  intros D A l Hw Ha H. destruct H as [l Hl|c l Hc Hl _]; auto. exact (Hw c Hc l Hl).
Qed.

Lemma stable_closed : forall D A u, wf_cnf D -> units_ok u ->
  (forall c, In c D -> stable_clause u c) ->
  (forall l, In l A -> u_true u l) ->
  forall l, up_lit D A l -> u_true u l.
Proof.
  intros D A u Hw Ho Hst Ha l H. induction H as [l Hl|c l Hc Hl Hoth IH]; [auto|].
  destruct (Hst c Hc) as [[l0 [Hl0 Ht0]]|[l1 [l2 [H1 [H2 [Hne [Hu1 Hu2]]]]]]].
  - destruct (Z.eq_dec l0 l) as [->|Hd]; [exact Ht0|].
    exfalso. apply (u_true_opp_false u l0); auto. exact (Hw c Hc l0 Hl0).
  - exfalso. destruct (Z.eq_dec l1 l) as [E1|E1].
    + assert (E2 : l2 <> l) by congruence.
      destruct (IH l2 H2 E2) as [K _]. rewrite Z.abs_opp in K. contradiction.
    + destruct (IH l1 H1 E1) as [K _]. rewrite Z.abs_opp in K. contradiction.
Qed.

Lemma stable_no_conflict : forall D A u, wf_cnf D -> units_ok u ->
  (forall x, In x A -> x <> 0) ->
  (forall c, In c D -> stable_clause u c) ->
  (forall l, In l A -> u_true u l) ->
  ~ up_conflict D A.
Proof.
  intros D A u Hw Ho Hnz Hst Ha [[l [H1 H2]]|[c [Hc Hall]]].
  - apply (u_true_opp_false u l).
    + eapply up_lit_nonzero; eauto.
    + eapply stable_closed; eauto.
    + eapply stable_closed; eauto.
  - destruct (Hst c Hc) as [[l0 [Hl0 Ht0]]|[l1 [l2 [H1 [H2 [Hne [Hu1 Hu2]]]]]]].
    + apply (u_true_opp_false u l0); auto. exact (Hw c Hc l0 Hl0).
      eapply stable_closed; eauto.
    + destruct (stable_closed D A u Hw Ho Hst Ha _ (Hall l1 H1)) as [K _].
      rewrite Z.abs_opp in K. contradiction.
Qed.

(* --- the negation of a non-tautological line is really written --- *)
Lemma neg_lit_get_other : forall u x v, 1 <= v -> Z.abs x <> v -> get_unit (neg_lit u x) v = get_unit u v.
Proof.
  intros u x v Hv Hne. unfold neg_lit. destruct (0 <? x) eqn:E.
  - apply Z.ltb_lt in E. apply get_set_neq; auto. lia.
  - apply Z.ltb_ge in E. apply get_set_neq; auto. lia.
Qed.

Definition neg_val (x : lit) : Z := if 0 <? x then -1 else 1.

Lemma neg_lit_get_same : forall u x, in_range (length u) x ->
  get_unit (neg_lit u x) (Z.abs x) = neg_val x.
Proof.
  intros u x Hr. unfold in_range in Hr. unfold neg_lit, neg_val. destruct (0 <? x) eqn:E.
  - apply Z.ltb_lt in E. rewrite Z.abs_eq by lia. apply get_set_eq. lia.
  - apply Z.ltb_ge in E. rewrite Z.abs_neq by lia. apply get_set_eq. lia.
Qed.

Lemma neg_assign_keep : forall c u v b, 1 <= v -> get_unit u v = b ->
  (forall y, In y c -> Z.abs y = v -> in_range (length u) y /\ neg_val y = b) ->
  get_unit (neg_assign u c) v = b.
Proof.
  unfold neg_assign. induction c as [|y c IH]; intros u v b Hv Hg Hall; simpl; auto.
  apply IH; auto.
  - destruct (Z.eq_dec (Z.abs y) v) as [E|E].
    + destruct (Hall y (or_introl eq_refl) E) as [Hr Hb]. rewrite <- E, <- Hb.
      apply neg_lit_get_same. exact Hr.
    + rewrite neg_lit_get_other; auto.
  - intros z Hz Ez. rewrite neg_lit_length. apply Hall; auto. right; exact Hz.
Qed.

Lemma neg_assign_true : forall c u x, In x c -> non_taut c -> lits_in (length u) c ->
  u_true (neg_assign u c) (- x).
Proof.
  intros c u x Hx Hnt Hr.
  assert (Hrx := Hr x Hx). pose proof Hrx as Hrx'. unfold in_range in Hrx'.
  assert (Hg : get_unit (neg_assign u c) (Z.abs x) = neg_val x).
  { destruct (in_split x c Hx) as [c1 [c2 Ec]].
    unfold neg_assign. rewrite Ec, fold_left_app. simpl.
    apply (neg_assign_keep c2); try lia.
    - apply neg_lit_get_same. clear - Hrx.
      assert (L : length (fold_left neg_lit c1 u) = length u) by apply neg_assign_length.
      rewrite L. exact Hrx.
    - intros y Hy Ey.
      assert (Hyc : In y c) by (rewrite Ec; apply in_or_app; right; right; exact Hy).
      split.
      + rewrite neg_lit_length.
        assert (L : length (fold_left neg_lit c1 u) = length u) by apply neg_assign_length.
        rewrite L. apply Hr. exact Hyc.
      + assert (y = x \/ y = - x) by lia. destruct H as [-> | ->]; [reflexivity|].
        exfalso. exact (Hnt x Hx Hyc). }
  unfold u_true. rewrite Z.abs_opp, Hg. unfold neg_val.
  destruct (0 <? x) eqn:E; [apply Z.ltb_lt in E|apply Z.ltb_ge in E]; lia.
Qed.

Lemma is_taut_false_non_taut : forall n c, lits_in n c -> is_taut c = false -> non_taut c.
Proof.
  intros n c Hr H l Hl. apply (taut_scan_false c [] H l Hl).
  eapply in_range_nonzero. apply Hr. exact Hl.
Qed.

(* every line with the RUP property is accepted: tautologies at once, the
   others by propagation; repeated literals are harmless *)
Theorem check_line_complete : forall nb clauses u t line,
  units_ok u ->
  cnf_in (length u) clauses ->
  lits_in (length u) line ->
  rup clauses line ->
  fst (check_line nb clauses u t line) = Some true.
Proof.
  intros nb clauses u t line Ho Hn Hr Hrup.
  unfold check_line. destruct (is_taut line) eqn:Et; [reflexivity|].
  pose proof (is_taut_false_non_taut _ _ Hr Et) as Hnt.
  pose proof (up_unsat_fuel nb clauses (neg_assign u line) t) as Hf.
  unfold up_unsat in *.
  destruct (fst (up_loop (S (length clauses)) nb (map (pair false) clauses) (neg_assign u line) t))
    as [[|]|] eqn:E; [reflexivity|exfalso|contradiction].
  pose proof (up_loop_complete nb (S (length clauses)) (map (pair false) clauses)
                (neg_assign u line) t (units_ok_neg_assign line u Ho)) as Hex.
  rewrite map_snd_pair_false, neg_assign_length in Hex. specialize (Hex Hn).
  assert (Hd0 : done_ok (neg_assign u line) (map (pair false) clauses)).
  { intros c Hc. apply in_map_iff in Hc. destruct Hc as [x [Ex _]]. discriminate. }
  destruct (Hex Hd0 E) as [u' [H1 [H2 H3]]].
  - assert (Hw : wf_cnf clauses).
    { intros c Hc l Hl. eapply in_range_nonzero. apply (Hn c Hc). exact Hl. }
    apply (stable_no_conflict clauses (map Z.opp line) u' Hw H2); auto.
    + intros x Hx. apply in_map_iff in Hx. destruct Hx as [y [<- Hy]].
      pose proof (in_range_nonzero _ _ (Hr y Hy)). lia.
    + intros l Hl. apply in_map_iff in Hl. destruct Hl as [y [<- Hy]].
      eapply u_true_ext; [exact H1|]. apply neg_assign_true; auto.
Qed.

Theorem check_lines_complete : forall early nb u, units_ok u ->
  forall cert clauses t,
  cnf_in (length u) clauses ->
  cnf_in (length u) cert ->
  rup_chain clauses cert ->
  valid (check_lines early nb clauses u t (map LClause cert)) = true.
Proof.
  intros early nb u Ho. induction cert as [|c r IH]; intros clauses t Hn Hc Hch; [reflexivity|].
  cbn [map check_lines]. destruct Hch as [Hrup Hch].
  pose proof (Hc c (or_introl eq_refl)) as Hin.
  pose proof (check_line_complete nb clauses u t c Ho Hn Hin Hrup) as Hl.
  destruct (check_line nb clauses u t c) as [r0 t']. simpl in Hl. subst r0.
  destruct (early && is_nil c); [reflexivity|].
  apply IH; auto.
  - intros x Hx. apply in_app_or in Hx. destruct Hx as [Hx|[<-|[]]]; auto.
  - intros x Hx. apply Hc. right; exact Hx.
Qed.

(* ================================================================== *)
(* 6. Statements on Unsat / UnsatChan / check_cert_* / unsat_subset    *)

Lemma lines_wf_map : forall cert, wf_cnf cert -> lines_wf (map LClause cert).
Proof. intros cert H. unfold lines_wf. rewrite lines_clauses_map. exact H. Qed.

Definition Unsat_gen (early : bool) := if early then UnsatChan else Unsat.

Lemma Unsat_gen_eq : forall early pb cert,
  Unsat_gen early pb cert =
  (fst (fst (run_lines early pb (map LClause cert))), snd (run_lines early pb (map LClause cert))).
Proof. intros [|] pb cert; reflexivity. Qed.

Theorem Unsat_gen_sound : forall early pb cert,
  pb_wf pb -> wf_cnf cert ->
  units_entailed (NbVars pb) (Clauses pb) (punits pb) ->
  fst (Unsat_gen early pb cert) = true ->
  Forall (entails (NbVars pb) (Clauses pb)) cert.
Proof.
  intros early pb cert Hwf Hc Hent H. rewrite Unsat_gen_eq in H. cbn [fst] in H.
  destruct (run_lines early pb (map LClause cert)) as [[v e] p] eqn:E. cbn [fst] in H. subst v.
  pose proof (run_lines_sound early pb _ e p Hwf (lines_wf_map cert Hc) Hent E) as HF.
  rewrite lines_clauses_map in HF. exact HF.
Qed.

Theorem Unsat_gen_empty : forall early pb cert,
  pb_wf pb -> wf_cnf cert ->
  units_entailed (NbVars pb) (Clauses pb) (punits pb) ->
  fst (Unsat_gen early pb cert) = true /\ In [] cert ->
  ~ Satisfiable (NbVars pb) (Clauses pb).
Proof.
  intros early pb cert Hwf Hc Hent [H Hin] [m [Hl Hs]].
  pose proof (Unsat_gen_sound early pb cert Hwf Hc Hent H) as HF.
  rewrite Forall_forall in HF. specialize (HF [] Hin m Hl Hs). discriminate.
Qed.

Theorem Unsat_gen_reusable : forall early pb cert v pb',
  NbClauses pb = length (Clauses pb) ->
  Unsat_gen early pb cert = (v, pb') ->
  Clauses pb' = Clauses pb /\ NbClauses pb' = NbClauses pb /\ NbVars pb' = NbVars pb /\
  punits pb' = punits pb /\
  Unsat_gen early pb' cert = (v, pb').
Proof.
  intros early pb cert v pb' Hnb H. rewrite Unsat_gen_eq in H.
  destruct (run_lines early pb (map LClause cert)) as [[v0 e] p] eqn:E. cbn [fst snd] in H.
  inversion H; subst v0 p. clear H.
  destruct (run_lines_reusable early pb _ _ _ Hnb E) as [A1 [A2 [A3 [A4 A5]]]].
  repeat split; auto. rewrite Unsat_gen_eq, A5. reflexivity.
Qed.

Theorem Unsat_gen_complete : forall early pb cert,
  units_ok (punits pb) ->
  cnf_in (length (punits pb)) (Clauses pb) ->
  cnf_in (length (punits pb)) cert ->
  rup_chain (Clauses pb) cert ->
  fst (Unsat_gen early pb cert) = true.
Proof.
  intros early pb cert Ho Hn Hc Hch. rewrite Unsat_gen_eq. unfold run_lines. cbn [fst].
  apply check_lines_complete; auto.
Qed.

(* the verdict-only entry points *)
Definition cert_problem (f : cnf) (u0 : list Z) : Problem :=
  mkProblem f (length u0) (length f) u0 [].

Lemma cert_problem_wf : forall f u0, wf_cnf f -> units_ok u0 -> pb_wf (cert_problem f u0).
Proof. intros f u0 H1 H2. unfold pb_wf, cert_problem. simpl. auto. Qed.

Definition check_cert (early : bool) := if early then check_cert_chan else check_cert_reader.

Lemma check_cert_eq : forall early f u0 cert,
  check_cert early f u0 cert = fst (Unsat_gen early (cert_problem f u0) cert).
Proof. intros [|] f u0 cert; reflexivity. Qed.

Theorem check_cert_sound : forall early f u0 cert,
  wf_cnf f -> wf_cnf cert -> units_ok u0 ->
  units_entailed (length u0) f u0 ->
  check_cert early f u0 cert = true ->
  Forall (entails (length u0) f) cert.
Proof.
  intros early f u0 cert Hf Hc Ho He H. rewrite check_cert_eq in H.
  exact (Unsat_gen_sound early (cert_problem f u0) cert (cert_problem_wf f u0 Hf Ho) Hc He H).
Qed.

Theorem check_cert_empty : forall early f u0 cert,
  wf_cnf f -> wf_cnf cert -> units_ok u0 ->
  units_entailed (length u0) f u0 ->
  check_cert early f u0 cert = true /\ In [] cert ->
  ~ Satisfiable (length u0) f.
Proof.
  intros early f u0 cert Hf Hc Ho He [H Hin]. rewrite check_cert_eq in H.
  exact (Unsat_gen_empty early (cert_problem f u0) cert (cert_problem_wf f u0 Hf Ho) Hc He
           (conj H Hin)).
Qed.

Theorem check_cert_complete : forall early f u0 cert,
  units_ok u0 ->
  cnf_in (length u0) f ->
  cnf_in (length u0) cert ->
  rup_chain f cert ->
  check_cert early f u0 cert = true.
Proof.
  intros early f u0 cert Ho Hn Hc Hch. rewrite check_cert_eq.
  apply Unsat_gen_complete; auto.
Qed.

(* The two witnesses that refuted completeness before the fixes of
   explain/problem.go (repeated literal) and explain/check.go (tautological
   line) have the RUP property and are now accepted. *)
Lemma rup_witness_taut : rup_chain [[1; 2]] [[1; -1]].
Proof. simpl. split; [|exact I]. left. exists 1. split; apply up_assumed; simpl; auto. Qed.

Lemma rup_witness_dup : rup_chain [[1; 1]; [-1; 2]; [-1; -2]] [[]].
Proof.
  simpl. split; [|exact I]. right. exists [-1; -2]. split; [simpl; auto|].
  assert (H1 : up_lit [[1; 1]; [-1; 2]; [-1; -2]] [] 1).
  { apply (up_unit _ _ [1; 1]); simpl; auto. intros l' [<-|[<-|[]]] Hne; congruence. }
  intros l [<-|[<-|[]]]; simpl.
  - exact H1.
  - apply (up_unit _ _ [-1; 2]); simpl; auto.
    intros l' [<-|[<-|[]]] Hne; [exact H1|congruence].
Qed.

Lemma former_witnesses_accepted :
  check_cert_reader [[1; 2]] (init_units 2 [[1; 2]]) [[1; -1]] = true /\
  check_cert_chan [[1; 2]] (init_units 2 [[1; 2]]) [[1; -1]] = true /\
  check_cert_reader [[1; 1]; [-1; 2]; [-1; -2]] (init_units 2 [[1; 1]; [-1; 2]; [-1; -2]]) [[]] = true /\
  check_cert_chan [[1; 1]; [-1; 2]; [-1; -2]] (init_units 2 [[1; 1]; [-1; 2]; [-1; -2]]) [[]] = true.
Proof. vm_compute. repeat split. Qed.

(* unsat_subset on the problem built by ParseCNF *)
Lemma mk_problem_wf : forall n f, wf_cnf f -> pb_wf (mk_problem n f).
Proof.
  intros n f H. unfold pb_wf, mk_problem. simpl. repeat split; auto.
  - apply init_units_length.
  - apply init_units_ok.
Qed.

Theorem unsat_subset_spec : forall n f trivial ssat cert S,
  wf_cnf f -> wf_cnf cert ->
  unsat_subset n f trivial ssat cert = Some S ->
  subseq_of S f /\
  ((trivial = true -> ~ Satisfiable n f) -> (trivial = true \/ In [] cert) -> ~ Satisfiable n S).
Proof.
  intros n f trivial ssat cert S Hf Hc H. unfold unsat_subset in H.
  destruct (UnsatSubset (mk_problem n f) trivial ssat cert) as [o pb'] eqn:E. simpl in H. subst o.
  exact (UnsatSubset_spec (mk_problem n f) trivial ssat cert S pb' (mk_problem_wf n f Hf) Hc
           (init_units_justified n f) E).
Qed.

Theorem unsat_subset_error : forall n f ssat cert,
  wf_cnf f -> wf_cnf cert -> Satisfiable n f -> ssat = true \/ In [] cert ->
  unsat_subset n f false ssat cert = None.
Proof.
  intros n f ssat cert Hf Hc Hs Hor. unfold unsat_subset.
  apply (UnsatSubset_error (mk_problem n f) ssat cert (mk_problem_wf n f Hf) Hc); auto.
  apply units_justified_entailed. apply init_units_justified.
Qed.

(* raw lines: zeros never reach the checker *)
Lemma parse_clause_wf : forall fields c, parse_clause fields = Some c -> wf_clause c.
Proof.
  induction fields as [|[z|] r IH]; intros c H; simpl in H.
  - inversion H; subst. intros l [].
  - destruct (parse_clause r) as [c0|]; [|discriminate]. inversion H; subst.
    destruct (z =? 0) eqn:E; [apply IH; reflexivity|].
    apply Z.eqb_neq in E. intros l [<-|Hl]; [exact E|]. exact (IH c0 eq_refl l Hl).
  - discriminate.
Qed.

Lemma parse_lines_wf : forall raw, lines_wf (map parse_line raw).
Proof.
  induction raw as [|fields raw IH]; [intros c []|].
  unfold lines_wf in *. cbn [map]. unfold parse_line at 1.
  destruct fields as [|[z|] r]; cbn [lines_clauses]; auto.
  destruct (parse_clause (TInt z :: r)) as [c|] eqn:E; cbn [lines_clauses]; auto.
  intros x [<-|Hx]; [eapply parse_clause_wf; eauto|apply IH; exact Hx].
Qed.

Lemma check_lines_valid_noerr : forall early nb u lines cl t,
  valid (check_lines early nb cl u t lines) = true -> perr (check_lines early nb cl u t lines) = false.
Proof.
  intros early nb u. induction lines as [|[| |c] r IH]; intros cl t Hv; cbn [check_lines] in *; auto.
  destruct (check_line nb cl u t c) as [[[|]|] t']; auto.
  destruct (early && is_nil c); auto.
Qed.

Theorem Unsat_lines_sound : forall early pb raw e pb',
  pb_wf pb -> units_entailed (NbVars pb) (Clauses pb) (punits pb) ->
  run_lines early pb (map parse_line raw) = ((true, e), pb') ->
  e = false /\
  Forall (entails (NbVars pb) (Clauses pb)) (lines_clauses (map parse_line raw)).
Proof.
  intros early pb raw e pb' Hwf Hent H. split.
  - unfold run_lines in H. inversion H as [[Hv He Hp]]. apply check_lines_valid_noerr. exact Hv.
  - eapply run_lines_sound; eauto. apply parse_lines_wf.
Qed.

(* on a satisfiable formula an accepted certificate consists of consequences
   only, hence does not contain the empty clause *)
Theorem rup_check_sat_side : forall n f cert, Satisfiable n f -> rup_check n f cert = true ->
  Forall (entails n f) cert /\ ~ In [] cert.
Proof.
  intros n f cert Hs H. split; [apply rup_check_entails; exact H|].
  intros Hin. exact (rup_check_refutes n f cert H Hin Hs).
Qed.
