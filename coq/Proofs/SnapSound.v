(* What an Ok verdict of the snapshot judges (Judge/J21.v) means: the hypotheses of the theorems about the mirrored
   conflict analysis hold on the observed state, and the observed result inherits the conclusions of those theorems. *)
From Coq Require Import List ZArith Bool String Lia.
From GS Require Import Spec.Base Spec.PB Judge.Sx Judge.JCommon Model.PBNorm Model.CP Model.Learn Model.CPSearch Judge.J21.
From GS Require Import Proofs.Learn Proofs.CPSearch.
Import ListNotations.
Open Scope Z_scope.

Lemma eqb_Zs_eq : forall a b, eqb_Zs a b = true -> a = b.
Proof.
  induction a as [|x a IH]; intros [|y b] H; cbn [eqb_Zs] in H; try discriminate; [reflexivity|].
  apply andb_prop in H. destruct H as [H1 H2]. apply Z.eqb_eq in H1. subst y. f_equal. exact (IH _ H2).
Qed.

Lemma ins_Z_in : forall x y l, In y (ins_Z x l) <-> y = x \/ In y l.
Proof.
  intros x y l. induction l as [|z r IH]; cbn [ins_Z].
  - cbn [In]. intuition.
  - destruct (x <=? z); cbn [In]; [intuition|]. rewrite IH. intuition.
Qed.

Lemma sort_Zs_in : forall l y, In y (sort_Zs l) <-> In y l.
Proof.
  induction l as [|x r IH]; intros y; [reflexivity|].
  unfold sort_Zs. cbn [fold_right]. fold (sort_Zs r). rewrite ins_Z_in, IH. cbn [In]. intuition.
Qed.

Lemma same_learnt_in : forall st a b, same_learnt st a b = true ->
  hd 0 a = hd 0 b /\
  lvl_of st (lvar (nth 1 a 0)) = lvl_of st (lvar (nth 1 b 0)) /\
  forall y, In y a <-> In y b.
Proof.
  intros st a b H. unfold same_learnt in H.
  apply andb_prop in H. destruct H as [H H3].
  apply andb_prop in H. destruct H as [H1 H2].
  apply Z.eqb_eq in H1. apply Z.eqb_eq in H2. apply eqb_Zs_eq in H3.
  split; [exact H1|]. split; [exact H2|].
  intros y. rewrite <- (sort_Zs_in a), <- (sort_Zs_in b), H3. reflexivity.
Qed.

Lemma sat_clause_same : forall (m : model) a b, (forall y, In y a <-> In y b) -> sat_clause m a = sat_clause m b.
Proof.
  intros m a b H. unfold sat_clause.
  destruct (existsb (lit_val m) a) eqn:Ea; destruct (existsb (lit_val m) b) eqn:Eb; try reflexivity.
  - apply existsb_exists in Ea. destruct Ea as [x [Hx Hv]]. apply H in Hx.
    assert (existsb (lit_val m) b = true) by (apply existsb_exists; exists x; split; assumption). congruence.
  - apply existsb_exists in Eb. destruct Eb as [x [Hx Hv]]. apply H in Hx.
    assert (existsb (lit_val m) a = true) by (apply existsb_exists; exists x; split; assumption). congruence.
Qed.

(* ---- kind 0 ---------------------------------------------------------------------------------------------------- *)

(* An Ok on a learnClause snapshot that reports a learned clause: the state and the conflict meet the hypotheses of the
   theorems of Properties/C06l.v, the reported clause has the literals of the clause the model learns, the same first
   literal and the same backjump level; hence it is entailed by the conflict and the antecedents the analysis used, all
   its literals are false in the state, its first literal is the only one of the conflict level. *)
Lemma judge_learn_snap_sound : forall sn confl i,
  sn_confl sn = Some confl ->
  judge_learn_snap sn = Ok i ->
  sn_reskind sn = 0 -> sn_done sn = true ->
  let st := mk_state (sn_trail sn) (sn_model sn) (sn_reasons sn) (sn_assum sn) in
  Proofs.Learn.state_ok st (sn_lvl sn) /\ Proofs.Learn.confl_ok st (sn_lvl sn) confl /\
  (forall m : model, sat_pbc m confl = true ->
     (forall r, In r (learn_antecedents confl (sn_lvl sn) st) -> sat_pbc m r = true) ->
     sat_clause m (sn_learnt sn) = true) /\
  (forall x, In x (sn_learnt sn) -> x <> 0 /\ Model.Learn.lit_false st x = true) /\
  lvl_of st (lvar (hd 0 (sn_learnt sn))) = sn_lvl sn /\
  1 <= lvl_of st (lvar (nth 1 (sn_learnt sn) 0)) < sn_lvl sn.
Proof.
  intros sn confl i Hc H Hk Hd st.
  unfold judge_learn_snap in H. rewrite Hc in H.
  destruct (state_okb (sn_trail sn) (sn_model sn) (sn_reasons sn) (sn_assum sn) (sn_lvl sn)) eqn:Es;
    cbn [negb] in H; [|discriminate].
  fold st in H.
  destruct (confl_okb st (sn_lvl sn) confl) eqn:Ec; cbn [negb] in H; [|discriminate].
  pose proof (state_okb_sound _ _ _ _ _ Es) as Hst. fold st in Hst.
  pose proof (confl_okb_sound _ _ _ Ec) as Hcf.
  split; [exact Hst|]. split; [exact Hcf|].
  destruct (learn_clause confl (sn_lvl sn) st) eqn:El.
  - (* LearnedClause *)
    rewrite Hd, Hk in H. cbn [andb] in H. change (0 =? 0) with true in H. cbn [andb] in H.
    destruct (same_learnt st lits (sn_learnt sn)) eqn:Esame; [|discriminate].
    destruct (same_learnt_in _ _ _ Esame) as [Hh [Hl Hin]].
    assert (Hll : learned_lits (learn_clause confl (sn_lvl sn) st) = Some lits) by (rewrite El; reflexivity).
    split.
    { intros m Hm Hr. rewrite <- (sat_clause_same m lits (sn_learnt sn) Hin).
      exact (learn_entailed st (sn_lvl sn) confl Hst Hcf lits Hll m Hm Hr). }
    split.
    { intros x Hx. apply Hin in Hx. exact (learn_falsified st (sn_lvl sn) confl Hst Hcf lits Hll x Hx). }
    destruct (learn_backjump st (sn_lvl sn) confl Hst Hcf lits El) as [h [x [r [Hl0 [_ [Hlh [Hlx _]]]]]]].
    subst lits. cbn [hd nth] in Hh, Hl. rewrite <- Hh, <- Hl. split; assumption.
  - rewrite Hk in H. rewrite Bool.andb_false_r in H. cbn [andb] in H. discriminate.
  - rewrite Hk in H. rewrite Bool.andb_false_r in H. discriminate.
  - rewrite Hd in H. cbn [negb] in H. discriminate.
Qed.

(* ---- kind 1 ---------------------------------------------------------------------------------------------------- *)

(* An Ok on a cuttingPlanes snapshot: the state meets state_wf3b, the hypothesis of C14_search_sound and
   C14_search_total, and the model neither panics nor runs out of fuel on it. *)
Lemma judge_cp_snap_sound : forall sn confl i,
  sn_confl sn = Some confl ->
  judge_cp_snap sn = Ok i ->
  let st := State (sn_trail sn) (sn_model sn) (sn_reasons sn) confl (sn_lvl sn) in
  state_wf3b st = true /\
  (sn_done sn = true ->
   match cutting_planes st with
   | CPUnsat => sn_newlvl sn = -1
   | CPUnits us => sn_newlvl sn = 1 /\ (forall y, In y (sn_props sn) <-> In y us)
   | CPLearn c props nl => sn_newlvl sn = nl /\ (forall y, In y (sn_props sn) <-> In y props)
   | _ => False
   end).
Proof.
  intros sn confl i Hc H st. unfold judge_cp_snap in H. rewrite Hc in H. fold st in H.
  destruct (state_wf3b st) eqn:Es; cbn [negb] in H; [|discriminate].
  split; [reflexivity|]. intros Hd. rewrite Hd in H. cbn [negb andb] in H.
  destruct (cutting_planes st) eqn:Er; try discriminate.
  - destruct (sn_newlvl sn =? -1) eqn:E; [apply Z.eqb_eq in E; exact E|discriminate].
  - destruct (sn_newlvl sn =? 1) eqn:E; cbn [andb] in H; [|discriminate].
    destruct (eqb_Zs (sort_Zs us) (sort_Zs (sn_props sn))) eqn:E2; cbn [andb] in H; [|discriminate].
    apply Z.eqb_eq in E. apply eqb_Zs_eq in E2. split; [exact E|].
    intros y. rewrite <- (sort_Zs_in (sn_props sn)), <- (sort_Zs_in us), E2. reflexivity.
  - destruct (sn_newlvl sn =? newlvl) eqn:E; cbn [andb] in H; [|discriminate].
    destruct (eqb_Zs (sort_Zs props) (sort_Zs (sn_props sn))) eqn:E2; cbn [andb] in H; [|discriminate].
    apply Z.eqb_eq in E. apply eqb_Zs_eq in E2. split; [exact E|].
    intros y. rewrite <- (sort_Zs_in (sn_props sn)), <- (sort_Zs_in props), E2. reflexivity.
Qed.

(* ---- kind 2 ---------------------------------------------------------------------------------------------------- *)

Lemma quiet_constr_spec : forall complete md c, quiet_constr complete md c = true ->
  0 <= slack_of md c /\
  (complete = true -> unit_weights c = true ->
   forall t, In t (terms c) -> l_free md (snd t) = true -> 0 < fst t -> fst t <= slack_of md c).
Proof.
  intros complete md c H. unfold quiet_constr in H. apply andb_prop in H. destruct H as [H1 H2].
  split; [apply Z.leb_le; exact H1|].
  intros Hc Hu t Ht Hf Hw. rewrite Hc, Hu in H2. cbn [negb andb orb] in H2.
  rewrite forallb_forall in H2. specialize (H2 t Ht).
  rewrite Hf in H2. cbn [negb orb] in H2.
  apply orb_prop in H2. destruct H2 as [H2|H2]; apply Z.leb_le in H2; [exact H2|].
  exfalso. apply (Z.lt_irrefl 0). apply Z.lt_le_trans with (fst t); assumption.
Qed.

Lemma first_not_quiet_none : forall norig cp md cs i, first_not_quiet norig cp md cs i = None ->
  forall k c, nth_error cs k = Some c -> held_to_account norig cp (i + Z.of_nat k) = true -> 0 <= slack_of md c.
Proof.
  intros norig cp md cs. induction cs as [|c r IH]; intros i H k x Hx Hk; [destruct k; discriminate|].
  cbn [first_not_quiet] in H.
  destruct (negb (held_to_account norig cp i) || quiet_constr true md c) eqn:E; [|discriminate].
  destruct k as [|k].
  - cbn [nth_error] in Hx. injection Hx as <-. rewrite Z.add_0_r in Hk. rewrite Hk in E. cbn [negb orb] in E.
    exact (proj1 (quiet_constr_spec _ _ _ E)).
  - cbn [nth_error] in Hx. apply (IH (i + 1) H k x Hx).
    replace (i + 1 + Z.of_nat k) with (i + Z.of_nat (S k)) by (rewrite Nat2Z.inj_succ; ring). exact Hk.
Qed.

(* An Ok on a quiet snapshot: the state is a good state and no constraint held to account (the original ones; every one
   under the CDCL loop) is falsified by it. *)
Lemma judge_quiet_snap_sound : forall sn i,
  judge_quiet_snap sn = Ok i ->
  Proofs.Learn.state_ok (mk_state (sn_trail sn) (sn_model sn) (sn_reasons sn) (sn_assum sn)) (sn_lvl sn) /\
  forall k c, nth_error (sn_constrs sn) k = Some c ->
              held_to_account (sn_norig sn) (sn_cp sn) (Z.of_nat k) = true -> 0 <= slack_of (sn_model sn) c.
Proof.
  intros sn i H. unfold judge_quiet_snap in H.
  match type of H with (if ?c then _ else _) = _ => destruct c; [discriminate|] end.
  match type of H with (if ?c then _ else _) = _ => destruct c; [discriminate|] end.
  destruct (state_okb (sn_trail sn) (sn_model sn) (sn_reasons sn) (sn_assum sn) (sn_lvl sn)) eqn:Es;
    cbn [negb] in H; [|discriminate].
  split; [exact (state_okb_sound _ _ _ _ _ Es)|].
  destruct (first_not_quiet (sn_norig sn) (sn_cp sn) (sn_model sn) (sn_constrs sn) 0) eqn:E; [discriminate|].
  intros k c Hk Hh. exact (first_not_quiet_none _ _ _ _ _ E k c Hk Hh).
Qed.
